From FP Require Import Lexer Parser ShowPT Digest Formatter.
From Coq Require Import String List NArith.
Import ListNotations.
Open Scope string_scope.
Set Printing Width 100000000.
Set Printing Depth 100000000.
Definition show_fres (r : fres) : string :=
  match r with
  | FOk s => "OK:" ++ sh_escaped s ""
  | FErr s => "ERR:" ++ sh_escaped s ""
  | FPanic p => "PANIC:" ++ p
  end.
Definition check (rs : list rune) : string := digest (show_fres (format_res rs)).
Definition full (rs : list rune) : string := show_fres (format_res rs).
Eval vm_compute in ("<<<M317>>>" ++ check (runes_of_ascii "MetaData Logon
    {
    char[]u8x , matchKey pack,
u8 int ``, char[ 007
    ]
msg_type ,
BodyLength o	,string_ crc  `a\`, } options	{
    //x
    trueish = int16 Packet
    = char MetaDataX=
char[
//
// trailing space 
255 ] // a // b
;}	root
    //
    packet a1 // packet A { u8 x, }
{ } root packet // c
MetaDataX{
@lengthOf(_x)
repeat
Logon{// " ++ [128512]%N ++ runes_of_ascii " emoji
o
a1 , uint64
    u128 ,  } ,zchar[007] chars
    `line1
line2` ,	repeat Header u128`doc`, // " ++ [128512]%N ++ runes_of_ascii " emoji
@calculatedFrom(""1"")int
trueish
, char[0123456789
    ]
uint8x,
i8 int	@lengthOf( msg_type )`line1
line2`
,
    //x
    @rightPad (
) repeat f64 Z9_, metadata{ falsey @calculatedFrom(
""abc""
) , }, options1 @calculatedFrom( ""\n"" ) ,@calculatedFrom(	""\n"" )  match metadata
    as Header {[
    """" ,  ""1"" ] :	Foo //
, [  ""\n""
, 10
,
// " ++ [27880; 37322]%N ++ runes_of_ascii "
// c
""{,}"" ]
: Logon
,
[
    """"] :
len
, ""\n""  :// trailing space 
msg_type , [ // c
00 ]
    : trueish , 10 : u8x, }
    ,
    } // " ++ [27880; 37322]%N ++ runes_of_ascii "
root
packet
    BodyLength
    { char[42
] body  @calculatedFrom(
    ""{,}"" ) `tab	here` // trailing space 
,
i32
stringy  @calculatedFrom( """ ++ [28040; 24687]%N ++ runes_of_ascii """ ),  @tag(  0123456789	)
@rightPad ( )@tag( 00 )  i16 a1 @lengthOf( pack// a // b
) ,
    @tag( 10
)
@leftPad ('\x00' ) // `tick` ""quote"" 'q'
@calculatedFrom( ""a\""b"" ) repeat char[] // c
stringy `
`	, chars `say ""hi""`,
@lengthOf(  a1 ) @leftPad( '0'  )
    match Z9_
as Header { 00
    //	t
    : As ,
} // " ++ [27880; 37322]%N ++ runes_of_ascii "
, o @calculatedFrom( """ ++ [128512]%N ++ runes_of_ascii """
    )
, @leftPad //	t
(	)As// trailing space 
@calculatedFrom( ""// no comment"") ,
match x_y_z  as
    BodyLength {
""x y"" // `tick` ""quote"" 'q'
:BodyLength
, """ ++ [28040; 24687]%N ++ runes_of_ascii """  : packetx  , 0 :
    Header ,
    ""x y"" : matchKey
    //	t
    ,}, } // trailing space ")).
Eval vm_compute in ("<<<M324>>>" ++ check (runes_of_ascii "MetaData Pad { char[] Packet , f32a i64_
    `tab	here`
// c
// a // b
,
} root packet
    As { @calculatedFrom(""CRC32""	)@calculatedFrom(  ""1""  ) @calculatedFrom( ""// no comment""
// a // b
//
)	As
As `say ""hi""` , Foo  msg_type , calculatedFrom
@calculatedFrom( ""\n"" ) , zchar {	zchar[ 7 ] charz // `tick` ""quote"" 'q'
@calculatedFrom(""x y"" )
    , Z9_
    `{ , }` , repeat int { zchar[ 3
] i8i8
    @lengthOf( chars )
,
match zchar as
    o {1 : //
u128	,
    0
:
// trailing space 
//x
stringy
, 42
: charz""x y"": a1 3 : Header ,
4294967296 : o } , repeat
Header `two words`, match u8x  as u8x
{
[ 10] : pack ,	1 :
BodyLength
//
// " ++ [27880; 37322]%N ++ runes_of_ascii "
0 : MetaDataX
,42
:  calculatedFrom },	} /// triple
, } , // " ++ [27880; 37322]%N ++ runes_of_ascii "
}
// `tick` ""quote"" 'q'
/// triple
packet
    i64_ { }
    root packet x { Header
{char[ /// triple
0 ] _x `// not a comment`
    ,
}
    ,@lengthOf( A
)uint32 f32a
@calculatedFrom( ""abc""
    )
// `tick` ""quote"" 'q'
// " ++ [27880; 37322]%N ++ runes_of_ascii "
,
repeat i16 trueish `u8 x,` ,@rightPad	( ' ' )@calculatedFrom( ""a\\"" ) float,
    repeat char[ 7
]zchar,
    @tag( 10 ) repeat
    //	t
    a1 falsey	`say ""hi""`,
    @lengthOf(
len )repeat zchar[	00
    // `tick` ""quote"" 'q'
    ] uint8x ,}
MetaData  metadata {
u8 body
, }")).
Eval vm_compute in ("<<<M1565>>>" ++ check (runes_of_ascii "  options

{FixedStringPadFromLeft
=  true
	;
FixedStringPadChar= '0';

}packet
    Leg	{

InPrice0{

    repeat string
    clOrdID
,
	int16
msgKind
,zchar[
	5 ]	Px
    , } 
, i16 f1
    ,
    repeat f64

    Side2

,
	string  Acct ,  }

    packet
    Cancel
    {	zchar[ 4 ]	clOrdID 
, string seqNo
    , 
Leg
, @leftPad ('0'
)
	char[11

    ]	OrderId,
	} 
packet
Quote
	{
repeat

char[ 4]
sym

,

    f64
	OrderId
, repeat Leg,
	repeat  i64
f1 
, int16 Note
,

    zchar[3 ]
    count,

}	root  packet Ack
	{  @leftPad(

    ' ' 
)char[

    10

    ] sym

,

InPx60
	{
Cancel

    , repeat
	char[1

    ] f1,

    string
    Tail
    ,
    repeat 
InNote55 
{ int8  count,	f64
f1,repeat

    Cancel ,}
	,
    char[] tag7 
, 
repeat

string
	msgKind  , } ,
    u8
    lastPx ,match
lastPx
as
	Body
    { 152

    : Quote
,  173
:  Cancel ,
	4:
Leg, 
}
	, u16 Ref @calculatedFrom( 
""CRC32""	)	, 
}
")).
Eval vm_compute in ("<<<M1458>>>" ++ check (runes_of_ascii "packet pack {
    @lengthOf(Foo)
    asx @lengthOf(_x),
    u8 x_y_z `two words`,
    repeat zchar[0] roots `
    `,
    lengthOf @calculatedFrom(""abc""),
    @tag(3)
    @rightPad(' ')
    @calculatedFrom(""1"")
    repeat uint64 i64_ `say ""hi""`,
    @tag(007)
    match roots as float {
        ""a	b"" : lengthOf,
        [
            1, ""\n"", ""a\""b"", ""\" ++ [233]%N ++ runes_of_ascii """, ""1"",
            42
        ] : msg_type,
        """ ++ [128512]%N ++ runes_of_ascii """ : Foo,
    },
    T {
        match Header as trueish {
            [
                0, 3, ""{,}"", ""1"", 00,
                0123456789, ""// no comment""
            ] : As,
        },
    },
    repeat char[10] o `
    `,
    @calculatedFrom(""`tick`"")
    repeat crc {
        repeatCount o,
        u8x As,
    },
}

packet pack {
    @calculatedFrom(""" ++ [233]%N ++ runes_of_ascii "t" ++ [233]%N ++ runes_of_ascii """)
    u32 f32a,
}

MetaData float {
    u32 options1,
}

packet f32a {
}")).
Eval vm_compute in ("<<<M1599>>>" ++ check (runes_of_ascii "  options{StringPrefixLenType  =	u8 
;ArrayPrefixLenType 
=

u32	;	FixedStringPadFromLeft
    =	true
; FixedStringPadChar
    = ' '

    ;
}
	packet
	Leg
{

}
	packet Heartbeat { zchar[ 6] msgKind ,  @rightPad
	(  '0' ) char[	3

    ]	Qty
,  zchar[
9
	] Side2
	,
i8 Acct	, 
}packet
Logout  {  int8

x, 
} packet
    Order {  char[]
	Acct

    ,
zchar[ 8 
]
count

    ,
    u32
    OrderId,
	uint8 lastPx	,u16 clOrdID
, zchar[
7 ]Note ,

    }
root

    packet
Reject
	{ @leftPad(

    ' ' ) char[

8]	Side2, i8 clOrdID
    ,  repeat
f32

    x
	, u32
lastPx , match

    lastPx
    as
Body 
{[	30
	,

147
    ] :
Heartbeat

    , 134 : Leg	,  183:Logout
    ,  40
    : Order	, 
}

, u16 Ref
@calculatedFrom(
    ""CRC32""  )

    , 
} ")).
Eval vm_compute in ("<<<M1315>>>" ++ check (runes_of_ascii "// top
packet // c0
MDSnapshotZZ // c1a
  // c1b
{ // c2
u8 a // c4
, // c5a
  // c5b
} // c6
packet OrderACK // c8
{ // c9a
  // c9b
u16 b // c11
,
    // c12
} // c13a
  // c13b
packet
    // c14
HTTPServerInfo
    // c15
{ // c16
string s
    // c18
,
    // c19
}
    // c20
root // c21a
  // c21b
packet // c22
FIXMsg // c23
{ u8 // c25a
  // c25b
KType // c26a
  // c26b
, // c27a
  // c27b
MDSnapshotZZ
    // c28
, // c29a
  // c29b
repeat
    // c30
OrderACK , // c32a
  // c32b
match // c33
KType as // c35a
  // c35b
Body // c36
{
    // c37
1 :
    // c39
HTTPServerInfo , 2 // c42
:
    // c43
OrderACK
    // c44
, } // c46a
  // c46b
,
    // c47
} // c48a
  // c48b
")).
Eval vm_compute in ("<<<M342>>>" ++ check (runes_of_ascii "root packet Z9_	{  repeat i8i8 int`// not a comment`
,	uint8x
    // c
    , f64 i8i8  `tab	here` ,@tag(
3 ) @tag( 3 ) @tag( /// triple
10
// trailing space 
// trailing space 
) repeat int{ MetaDataX // " ++ [27880; 37322]%N ++ runes_of_ascii "
,} , @tag( 10
    ) int8
    pack@lengthOf(x
    ), Logon ,	@tag( 00
) repeat
rootA
uint8x ,  @calculatedFrom( ""\n"" // a // b
) // `tick` ""quote"" 'q'
@lengthOf( len )
// @lengthOf(
// `tick` ""quote"" 'q'
BodyLength  { matchKey f32a
//x
// `tick` ""quote"" 'q'
`say ""hi""` ,} ,  char[] leftPad `{ , }` ,
@lengthOf( float )match repeatCount as	o { 255 : matchKey ,
    // " ++ [128512]%N ++ runes_of_ascii " emoji
    00:	A 007 :
    options1 } , }
")).
Eval vm_compute in ("<<<M1345>>>" ++ check (runes_of_ascii "options {
    LittleEndian = false;
    ArrayPrefixLenType = u8;
    FixedStringPadFromLeft = true;
    FixedStringPadChar = '0';
}
packet Heartbeat {
    string lastPx,
    uint8 Qty,
    i64 Acct,
    char[4] Ref,
}
packet Fill {
    uint8 Ref,
    Heartbeat,
    f32 OrderId,
    repeat f32 x,
}
root packet Order {
    zchar[2] OrderId,
    zchar[2] Acct,
    zchar[1] Note,
    zchar[9] Qty,
    string price,
    string tag7,
    u32 x,
    match x as Body {
        123 : Fill,
        112 : Heartbeat,
    },
    u32 seqNo @calculatedFrom(""CRC32""),
}
")).
Eval vm_compute in ("<<<M1351>>>" ++ check (runes_of_ascii "
options
{ArrayPrefixLenType=

u64

    ; 
FixedStringPadFromLeft =

    true ; 
FixedStringPadChar 
=
'0' ;
    }

packet Quote{  }packet
Ack

{
    repeat
InNote66{  u8 pad0  ,

    },	} packet	Reject  {
}  root
packet Order{ 
Quote , repeat Reject ,

string venue
	,
string seqNo 
,
uint32
    Ref ,
u16 lastPx, 
u32
    clOrdID	@lengthOf(
Body
) ,match lastPx as Body{ 190
: 
Reject

    ,
	186 :
    Quote
,

22 
:Ack , } ,
u16 Flags
@calculatedFrom( ""CRC32""	) ,	}
")).
Eval vm_compute in ("<<<M140>>>" ++ check (runes_of_ascii "
root packet int{	repeat
    float tag , char[] roots
, @lengthOf( repeatCount ) @lengthOf( // packet A { u8 x, }
rootA)
uint16 o
    `tab	here` ,
    //	t
    i16 Pad `line1
line2` , Pad{match Pad as
    _x
{ [00]
:
    Z9_
, } ,} , repeat zchar calculatedFrom`a\` ,	f64 // @lengthOf(
charz
    //x
    ,Pad
    Foo,@calculatedFrom(
    """ ++ [28040; 24687]%N ++ runes_of_ascii """ )
    charz
    @lengthOf( charz ), @lengthOf(
    rootA ) match o
as body {00 :
x_y_z// " ++ [128512]%N ++ runes_of_ascii " emoji
} ,}
")).
Eval vm_compute in ("<<<M1870>>>" ++ check (runes_of_ascii "packet Header {
    match roots as packetx {
        // `tick` ""quote"" 'q'
        [""" ++ [28040; 24687]%N ++ runes_of_ascii """, 0123456789] : packetx,
        //
        // c
        4294967296 : Logon,
        [""\n"", ""x y"", ""packet"", ""packet""] : i8i8,
        42 : Foo,
    },//	t
    @calculatedFrom(""x y"")
    f64 Logon,
}

options {
    // " ++ [128512]%N ++ runes_of_ascii " emoji
    chars = ' ';
    repeatCount = """ ++ [233]%N ++ runes_of_ascii "t" ++ [233]%N ++ runes_of_ascii """
    x = ""\n"";
    calculatedFrom = ""`tick`"";
}")).
Eval vm_compute in ("<<<M235>>>" ++ check (runes_of_ascii "packet crc
// a // b
//x
{	u128
    packetx , // " ++ [128512]%N ++ runes_of_ascii " emoji
match roots	as
    //
    falsey
{ 0123456789 // a // b
: Header ""packet""// a // b
: // a // b
Z9_	3 : A ,
// trailing space 
// a // b
""a	b""  : roots 10
:  _x
, } , @tag( 255// a // b
) match
calculatedFrom  as	o {
    255 : string_ """ ++ [28040; 24687]%N ++ runes_of_ascii """ : i64_
,	} , }MetaData
T
{ float64 u	,} packet Pad { /// triple
}
")).
Eval vm_compute in ("<<<M1722>>>" ++ check (runes_of_ascii "options  {
	LittleEndian	=  true ;
    }  packet

    Logon
	{
u8 
x,}

    packet

Logout 
{
	u16 reason,
}root
    packet
    Frame
{

    u8	Kind

    ,
u8	Kind2

    ,  match Kind
as
Body 
{

    1
: Logon  , [ 
2,  3	, 
4	]
	:	Logout
, 100 :

Logon
    , }
,match  Kind2

    as Trailer {0

:
Logout , },	}")).
Eval vm_compute in ("<<<M1277>>>" ++ check (runes_of_ascii "// top
options
    // c0
{
    // c1
LittleEndian // c2
=
    // c3
true
    // c4
;
    // c5
}
    // c6
root // c7a
  // c7b
packet P // c9a
  // c9b
{ u16
    // c11
a // c12
, // c13
u32 // c14a
  // c14b
Sum
    // c15
@calculatedFrom( ""CRC32"" ) // c18a
  // c18b
,
    // c19
} // c20a
  // c20b
")).
Eval vm_compute in ("<<<M1735>>>" ++ check (runes_of_ascii "MetaData 	 //	t

	x  { }
	packet rootA

    //x

//	t
  	{

    i64 As
    //x
    	// @lengthOf(

  @lengthOf(
A

)

`// not a comment`

    , 
}options 
{ asx 
=	string
	;
i8i8 = zchar[ 0123456789

] ;

Foo

    =
    10

    ; As

    =
true

    ;}
")).
Eval vm_compute in ("<<<M1666>>>" ++ check (runes_of_ascii "packet body {
    @lengthOf(T)
    @lengthOf(int)
    @leftPad('\x00')
    asx len,
    repeat zchar[3] int `" ++ [28040; 24687; 31867; 22411]%N ++ runes_of_ascii "`,
    @lengthOf(options1)
    match x as leftPad {
        7 : x_y_z,
        65535 : u128,
        42 : x,
    },//
}")).
Eval vm_compute in ("<<<M1945>>>" ++ check (runes_of_ascii "packet

    Logon
{ string user

    ,
}
root 
packet
	Frame {
u8
K	,	match

K
as
	Body
	{1
: Logon
,
    2  :Logout  ,  }  ,
	Tail , }

packet 
Logout{ 
u16 
reason
,}
packet
Tail

{
	u32 crc
, }
")).
Eval vm_compute in ("<<<M1325>>>" ++ check (runes_of_ascii "
root	packet
	Frame { u8
    K , 
Logon
	first  ,
match

    K 
as
Body{1 : Logon,
    2 :
Logout  ,
	}	,
} 
packet
Logon
	{
string user ,
} packet
Logout

{ u16 
reason , }")).
Eval vm_compute in ("<<<M1256>>>" ++ check (runes_of_ascii "// top
root // c0
packet P // c2
{ // c3
hdr
    // c4
{
    // c5
u8 // c6
a // c7a
  // c7b
,
    // c8
} , // c10
u8 // c11
x // c12a
  // c12b
, }
    // c14
")).
Eval vm_compute in ("<<<M1888>>>" ++ check (runes_of_ascii "packet A {
    match k as n {
        [
            1, 22, 007, 4, 5,
            66, 7, 8, 9, 10,
            11, 12
        ] : B,
        2 : C,
    },
}")).
Eval vm_compute in ("<<<M471>>>" ++ check (runes_of_ascii "packet uint8x
{ match pack
    as msg_type	{
    0123456789 :	float
}
,
} packet //	t
a1
    { { } options {packetx
    = '\x00'	; u128= ""a	b""  ; }
")).
Eval vm_compute in ("<<<M397>>>" ++ check (runes_of_ascii "packet {
uint8x match pack
    as msg_type	{
    0123456789 :	float
}
,
} packet //	t
a1
    { } options {packetx
    = '\x00'	; u128= ""a	b""  ; }
")).
Eval vm_compute in ("<<<M1241>>>" ++ check (runes_of_ascii "// top
root
    // c0
packet // c1
P // c2a
  // c2b
{ // c3
char
    // c4
c // c5a
  // c5b
, // c6a
  // c6b
u8
    // c7
x // c8
, // c9
} // c10
")).
Eval vm_compute in ("<<<M652>>>" ++ check (runes_of_ascii "// @lengthOf(
packet i8i8 { u128 o , }
options { MetaDataX = true;
    BodyLength =""packet"" x_y_z= 007
crc crc //x
= ""abc"" ;
    msg_type =
i16 }")).
Eval vm_compute in ("<<<M395>>>" ++ check (runes_of_ascii "packet 
{ match pack
    as msg_type	{
    0123456789 :	float
}
,
} packet //	t
a1
    { } options {packetx
    = '\x00'	; u128= ""a	b""  ; }
")).
Eval vm_compute in ("<<<M1585>>>" ++ check (runes_of_ascii "MetaData falsey {
    o i8i8,
    char[] pack,
    float32 lengthOf,
    len BodyLength,
    BodyLength o,
    stringy u128 `crlf
    line`,
}")).
Eval vm_compute in ("<<<M524>>>" ++ check (runes_of_ascii "packet uint8x
{ match pack
    as msg_type	{
    0123456789 :	float
}
,
} packet //	t
a1
    { } options {packetx
    = '\x00'	; u128=")).
Eval vm_compute in ("<<<M144>>>" ++ check (runes_of_ascii "  MetaData falsey {o i8i8
,char[]
pack  ,
float32 lengthOf , len //x
BodyLength, BodyLength o
, stringy  u128	`crlf
line` , } 	 ")).
Eval vm_compute in ("<<<M343>>>" ++ check (runes_of_ascii "packet Header { repeat char[  0123456789 ]BodyLength`" ++ [28040; 24687; 31867; 22411]%N ++ runes_of_ascii "`/// triple
, zchar[ 3
    ] chars
    ,// trailing space 
A, } //")).
Eval vm_compute in ("<<<M1145>>>" ++ check (runes_of_ascii "MetaData leftPad // c
{ chars MetaDataX , } packet repeatCount { char[ 255 ] uint8x `" ++ [233]%N ++ runes_of_ascii "` , } MetaData pack { As Foo , }")).
Eval vm_compute in ("<<<M1177>>>" ++ check (runes_of_ascii "MetaData leftPad { chars MetaDataX , } packet repeatCount { char[ 255 ] uint8x `" ++ [233]%N ++ runes_of_ascii "` , } MetaData // c
pack { As Foo , }")).
Eval vm_compute in ("<<<M893>>>" ++ check (runes_of_ascii "packet A {
  match k as n {
    [""a"", ""bb"", ""c c"", ""d"", ""e"", ""f"", ""g"", ""h"", ""i"", ""j"", ""k""] : B,
    2 : C
  },
}")).
Eval vm_compute in ("<<<M908>>>" ++ check (runes_of_ascii "packet A {
  match k as n {
    [1, ""bb"", 007, ""d"", 5, ""f"", 7, ""h"", 9, ""j"", 11, ""l""] : B,
    2 : C
  },
}")).
Eval vm_compute in ("<<<M1814>>>" ++ check (runes_of_ascii "packet FooBar {
    u8 a,
}

packet foo_bar {
    u16 b,
}

root packet R {
    FooBar,
    foo_bar,
}")).
Eval vm_compute in ("<<<M904>>>" ++ check (runes_of_ascii "packet A {
  match k as n {
    [1, 22, 007, 4, 5, 66, 7, 8, 9, 10, 11, 12] : B,
    2 : C
  },
}")).
Eval vm_compute in ("<<<M565>>>" ++ check (runes_of_ascii "
packet
    asx true match u128 as lengthOf
{
//	t
// `tick` ""quote"" 'q'
255 : x ,
    } ,	}")).
Eval vm_compute in ("<<<M629>>>" ++ check (runes_of_ascii "
packet
    asx {match u128 as lengthOf
{
//	t
// `tick` ""quote"" 'q'
255 : x ,
    } ~ ,	}")).
Eval vm_compute in ("<<<M589>>>" ++ check (runes_of_ascii "
packet
    asx {match u128 as lengthOf
255
//	t
// `tick` ""quote"" 'q'
{ : x ,
    } ,	}")).
Eval vm_compute in ("<<<M643>>>" ++ check (runes_of_ascii "
packet
    asx {match x" ++ [178]%N ++ runes_of_ascii " as lengthOf
{
//	t
// `tick` ""quote"" 'q'
255 : x ,
    } ,	}")).
Eval vm_compute in ("<<<M861>>>" ++ check (runes_of_ascii "packet A {
  match k as n {
    [1, 22, ""c c"", 4, 5, ""f"", 7, 8] : B
    2 : C
  },
}")).
Eval vm_compute in ("<<<M1094>>>" ++ check (runes_of_ascii "packet A { u16 // a
 len // b
 @lengthOf( // c
 body // d
 ) // e
 `d` // f
 , }")).
Eval vm_compute in ("<<<M1584>>>" ++ check (runes_of_ascii "  packet

    body
{
i32

    f32a `{ , }`// c
  ,

    }
options {

}")).
Eval vm_compute in ("<<<M789>>>" ++ check (runes_of_ascii "packet A {
  match k as n {
    [""a"", ""bb"", ""c c""] : B,
    2 : C
  },
}")).
Eval vm_compute in ("<<<M739>>>" ++ check (runes_of_ascii "zchar[ i64 @calculatedFrom( match false ) Header char[ @lengthOf( :")).
Eval vm_compute in ("<<<M1473>>>" ++ check (runes_of_ascii "MetaData M {
    u8 x `a
    
    b`,
    T t `a
    
    b`,
}")).
Eval vm_compute in ("<<<M1255>>>" ++ check (runes_of_ascii "root packet P {
    hdr {
        u8 a,
    },
    u8 x,
}
")).
Eval vm_compute in ("<<<M786>>>" ++ check (runes_of_ascii "packet A { Inner { match k as n { [1,22] : B, }, }, }")).
Eval vm_compute in ("<<<M1217>>>" ++ check (runes_of_ascii "packet body { i32 f32a `{ , }` , } options { // c
}")).
Eval vm_compute in ("<<<M233>>>" ++ check (runes_of_ascii "MetaData _x { i64 u128	, Packet Header, } 	 ")).
Eval vm_compute in ("<<<M1537>>>" ++ check (runes_of_ascii "options

    { u8x
	=
    ""packet"" 
;	}")).
Eval vm_compute in ("<<<M1838>>>" ++ check (runes_of_ascii "  packet

    A { } 
      // c" ++ [8239]%N ++ runes_of_ascii "
")).
Eval vm_compute in ("<<<M1284>>>" ++ check (runes_of_ascii "root packet P {
    string s,
}
")).
Eval vm_compute in ("<<<M1018>>>" ++ check (runes_of_ascii "packet A {
 u8 x `d" ++ [8233]%N ++ runes_of_ascii "`, // c" ++ [8233]%N ++ runes_of_ascii "
}")).
Eval vm_compute in ("<<<M1691>>>" ++ check (runes_of_ascii "// c" ++ [12288]%N ++ runes_of_ascii "
    	packet
A
	{  }

")).
Eval vm_compute in ("<<<M576>>>" ++ check (runes_of_ascii "
packet
    asx {match")).
Eval vm_compute in ("<<<M211>>>" ++ check (runes_of_ascii "MetaData
roots {
}

")).
Eval vm_compute in ("<<<M986>>>" ++ check (runes_of_ascii "packet A {
}
// c" ++ [160]%N)).
Eval vm_compute in ("<<<M1225>>>" ++ check (runes_of_ascii "
// c
packet x { }")).
Eval vm_compute in ("<<<M1231>>>" ++ check (runes_of_ascii "packet x {
// c
}")).
Eval vm_compute in ("<<<M1762>>>" ++ check (runes_of_ascii "

  // c" ++ [8287]%N ++ runes_of_ascii "
 
")).
Eval vm_compute in ("<<<M1035>>>" ++ check (runes_of_ascii "// c" ++ [12]%N)).
