From FP Require Import Lexer Parser ShowPT Digest Formatter.
From Coq Require Import String List NArith.
Import ListNotations.
Open Scope string_scope.
Set Printing Width 100000000.
Set Printing Depth 100000000.
Definition show_fres (r : fres) : string :=
  match r with
  | FOk s => "OK:" ++ sh_escaped s ""
  | FErr s => "ERR:" ++ sh_escaped s ""
  | FPanic p => "PANIC:" ++ p
  end.
Definition check (rs : list rune) : string := digest (show_fres (format_res rs)).
Definition full (rs : list rune) : string := show_fres (format_res rs).
Eval vm_compute in ("<<<M314>>>" ++ check (runes_of_ascii "// c
packet
uint8x
{ @tag(
65535
    ) x_y_z ,
char[]  a1@calculatedFrom(
""`tick`"")
, @tag(1 )
    @tag(
    1 )
    @tag(4294967296 )
    repeat string rootA `tab	here` , repeat i32 tag , } packet pack { @calculatedFrom( ""// no comment"")@lengthOf(
uint8x )string zchar @calculatedFrom(""`tick`"" ) ,
    }
root packet tag {// trailing space 
@tag( 42/// triple
) @lengthOf(As)  @leftPad
    ( '0' )
match u128
as float { [00]:
charz ,},
} packet chars {
    @leftPad ( '\x00') char[	10	] len
@calculatedFrom( ""a	b"" )
    ,@tag( 00 )@tag(
    10)uint64 matchKey ,x_y_z
{ repeat // packet A { u8 x, }
string rootA	`doc` , tag // packet A { u8 x, }
, repeat char
//x
//	t
MetaDataX , int64
    asx
    // 50% %s
    ,
    } ,// trailing space 
i16
stringy  ,match x_y_z as BodyLength //x
{
    [""\" ++ [233]%N ++ runes_of_ascii """ ,
""" ++ [28040; 24687]%N ++ runes_of_ascii """
, 7, 0
, 7, 4294967296 ]: A , // " ++ [128512]%N ++ runes_of_ascii " emoji
}
, @calculatedFrom(""\n""
)
@leftPad
    //
    ( )f64 msg_type
, repeat Logon`say ""hi""`  , @tag( 007 ) match
    crc as
    msg_type	{ [""a\\""
,0123456789 , ""`tick`""
, """ ++ [233]%N ++ runes_of_ascii "t" ++ [233]%N ++ runes_of_ascii """  ,
//
// trailing space 
""{,}"" , // a // b
255,	0123456789
    //
    ]: // packet A { u8 x, }
Header 0123456789 : len // c
,65535
:BodyLength,
""CRC32""
:string_// " ++ [128512]%N ++ runes_of_ascii " emoji
,
4294967296 : len
    , """ ++ [28040; 24687]%N ++ runes_of_ascii """  : trueish},repeat string
    u ,	lengthOf Z9_ `{ , }`,} // 50% %s
packet
    trueish
{  f32 Logon @calculatedFrom(
    ""1"" ) , i64 matchKey
    @calculatedFrom( ""x y""// a // b
) //x
`" ++ [28040; 24687; 31867; 22411]%N ++ runes_of_ascii "` , i8i8 `it's`
    , msg_type
, uint8 lengthOf ,int trueish, char[ 0123456789
]
uint8x , i8 int @lengthOf( msg_type ) `say ""hi""` ,@rightPad	( )  repeat f64
    Z9_ , metadata{
    falsey @calculatedFrom(  ""abc"" ) ,	} //
, }")).
Eval vm_compute in ("<<<M378>>>" ++ check (runes_of_ascii "options {
	StringPrefixLenType = u16;
	ArrayPrefixLenType = u16;
}

packet SampleBinary {
    uint16 MsgType `" ++ [28040; 24687; 31867; 22411]%N ++ runes_of_ascii "`,
    u16 BodyLenght @lengthOf(Body) `" ++ [28040; 24687; 20307; 38271; 24230]%N ++ runes_of_ascii "`,
    match MsgType as Body {
        1 : Logon,
        2 : Logout,
        3 : Heartbeat,
        4 : RiskControlRequest,
        5 : RiskControlResponse,
    },
        @calculatedFrom(""CRC32"")
    u32 Ckecksum `" ++ [26657; 39564; 21644]%N ++ runes_of_ascii "`,
}

packet Logon {
     @leftPad('0')
    char[10] UserName `" ++ [29992; 25143; 21517]%N ++ runes_of_ascii "`,
    string Password `" ++ [23494; 30721]%N ++ runes_of_ascii "`,
    uint64 ClientId `" ++ [23458; 25143; 31471]%N ++ runes_of_ascii "ID`,
    u16 HeartbeatInterval `" ++ [24515; 36339; 38388; 38548]%N ++ runes_of_ascii "`,
}

packet Logout {
      @rightPad('0')
    char[10] UserName `" ++ [29992; 25143; 21517]%N ++ runes_of_ascii "`,
    uint64 ClientId `" ++ [23458; 25143; 31471]%N ++ runes_of_ascii "ID`,
}

packet Heartbeat {
}

packet RiskControlRequest {
    string UniqueOrderId `" ++ [21807; 19968; 35746; 21333; 21495]%N ++ runes_of_ascii "`,
    char[16] ClOrdID `" ++ [23458; 25143; 35746; 21333; 21495]%N ++ runes_of_ascii "`,
    char[3] MarketID `" ++ [24066; 22330]%N ++ runes_of_ascii "id`,
    char[12] SecurityID `" ++ [35777; 21048; 20195; 30721]%N ++ runes_of_ascii "`,
    char Side `" ++ [20080; 21334; 26041; 21521]%N ++ runes_of_ascii "`,
    char OrderType `" ++ [35746; 21333; 31867; 22411]%N ++ runes_of_ascii "`,
    u64 Price `" ++ [20215; 26684]%N ++ runes_of_ascii "`,
    u32 Qty `" ++ [25968; 37327]%N ++ runes_of_ascii "`,
    repeat string ExtraInfo `" ++ [38468; 21152; 20449; 24687]%N ++ runes_of_ascii "`,
    repeat SubOrder {
    		char[16] ClOrdID `" ++ [23376; 35746; 21333; 21495]%N ++ runes_of_ascii "`,
    		u64 Price `" ++ [23376; 35746; 21333; 20215; 26684]%N ++ runes_of_ascii "`,
    		u32 Qty `" ++ [23376; 35746; 21333; 25968; 37327]%N ++ runes_of_ascii "`,
    	},
}

packet RiskControlResponse {
    string UniqueOrderId `" ++ [21807; 19968; 35746; 21333; 21495]%N ++ runes_of_ascii "`,
    i32 Status `" ++ [29366; 24577]%N ++ runes_of_ascii "`,
    string Msg `" ++ [32467; 26524; 20449; 24687]%N ++ runes_of_ascii "`,
    repeat Detail,
}

packet Detail {
    string RuleName `" ++ [35268; 21017; 21517; 31216]%N ++ runes_of_ascii "`,
    u16 Code `" ++ [21407; 22240; 20195; 30721]%N ++ runes_of_ascii "`,
}")).
Eval vm_compute in ("<<<M1366>>>" ++ check (runes_of_ascii "options {
    LittleEndian = true;
    StringPrefixLenType = u16;
    ArrayPrefixLenType = u8;
    FixedStringPadChar = ' ';
}
packet Ack {
    @leftPad(' ') char[5] lastPx,
    zchar[4] count,
    repeat InVenue30 {
        char[9] Side2,
        char[12] venue,
    },
}
packet Order {
    int16 Note,
    repeat InAcct28 {
        InSym3 {
            Ack,
            char[4] lastPx,
            char[1] venue,
            f32 Ref,
        },
        repeat InTag729 {
            char[3] Side2,
            uint64 Acct,
            char[] price,
            zchar[9] Note,
            zchar[9] venue,
        },
        char[] count,
        Ack,
        char[] Px,
    },
    u8 f1,
    Ack,
}
packet Fill {
    zchar[7] x,
    Order,
    @leftPad(' ') char[9] venue,
    string count,
    char[] Flags,
}
packet Logon {
}
packet Reject {
    Order,
    char[] sym,
}
root packet Quote {
    string price,
    i64 Flags,
    repeat Fill,
    zchar[9] x,
    f32 lastPx,
    repeat Ack,
}
")).
Eval vm_compute in ("<<<M1359>>>" ++ check (runes_of_ascii "options {
    LittleEndian = false;
    StringPrefixLenType = u16;
    ArrayPrefixLenType = u8;
    FixedStringPadChar = '0';
}
packet Leg {
    zchar[1] Ref,
    repeat string count,
    repeat InMsgkind21 {
        repeat char[2] price,
        uint64 sym,
        zchar[9] msgKind,
    },
    zchar[5] Note,
}
packet Ack {
    u16 seqNo,
    repeat char[1] Acct,
    @leftPad(' ') char[4] msgKind,
    repeat InTag747 {
        Leg,
    },
    repeat string Tail,
    Leg,
}
packet Trade {
    u64 clOrdID,
    repeat InLastpx24 {
        char[10] Note,
        char[3] Qty,
        repeat char[2] Side2,
        Ack,
        repeat InX47 {
            Ack,
        },
    },
}
root packet Heartbeat {
    repeat u64 Acct,
    string lastPx,
    u8 Side2,
    match Side2 as Body {
        2 : Trade,
        157 : Ack,
        46 : Leg,
    },
    u32 sym @calculatedFrom(""CR\
C32""),
}
")).
Eval vm_compute in ("<<<M44>>>" ++ check (runes_of_ascii "MetaData BodyLength {} packet x_y_z
{
@lengthOf(  roots )
    A { // " ++ [128512]%N ++ runes_of_ascii " emoji
repeat
    zchar[0123456789  ]
    Z9_`a\`, },
}
    options // packet A { u8 x, }
{ Pad =
    ""x y"" ; // trailing space 
trueish
=
true body =
3 ; matchKey=
true //x
; i64_ =
    char[] ; }packet Packet  {char[]
// " ++ [128512]%N ++ runes_of_ascii " emoji
// `tick` ""quote"" 'q'
float@calculatedFrom( ""`tick`"" ) ,char[] charz @calculatedFrom( ""abc"" ) ,match As as
    // packet A { u8 x, }
    asx // @lengthOf(
{ [ """ ++ [28040; 24687]%N ++ runes_of_ascii """, ""`tick`""
, ""{,}"" ,
""{,}"" , ""a	b""
    // " ++ [27880; 37322]%N ++ runes_of_ascii "
    , 1
, ""\" ++ [233]%N ++ runes_of_ascii """	] :	rootA
,
    255:	asx 42
    : a1 , 42 : x_y_z  """" :
    msg_type
,7 : f32a ,	}
,  @leftPad
( '0'
) repeatCount crc `// not a comment`
    ,
@lengthOf(MetaDataX) float64 falsey@calculatedFrom( ""\" ++ [233]%N ++ runes_of_ascii """ ) `" ++ [233]%N ++ runes_of_ascii "` , }

")).
Eval vm_compute in ("<<<M270>>>" ++ check (runes_of_ascii "packet crc
    {// a // b
@tag( 4294967296
) @leftPad ('\x00'  ) repeat zchar[
4294967296 // " ++ [128512]%N ++ runes_of_ascii " emoji
]Packet
, @leftPad ( '0')@tag( 3 ) @tag(
    7  )  repeat  matchKey { u32
u
,} , @lengthOf(chars ) /// triple
@calculatedFrom( ""a	b""
// 50% %s
// @lengthOf(
)
@tag( 0123456789 )zchar[255] Pad
,
repeat uint64 u128
// a // b
// trailing space 
`two words` , @calculatedFrom( ""abc"" ) i8 packetx , string	lengthOf
, // " ++ [27880; 37322]%N ++ runes_of_ascii "
} root packet stringy
{@leftPad (
    '0' ) matchKey //x
roots ,
// @lengthOf(
// trailing space 
@tag( 7) int8// c
A
@lengthOf(repeatCount )
    `{ , }` ,
    repeat u {// " ++ [27880; 37322]%N ++ runes_of_ascii "
int16 Foo `it's` , string u, }, } // @lengthOf(")).
Eval vm_compute in ("<<<M1736>>>" ++ check (runes_of_ascii "

  packet

    crc {

@calculatedFrom( 
""x y""

)

char[]
u8x, }
root
    packet
asx//
  {

float32	u8x

`doc` 
    // 50% %s
	// trailing space 
	,
	}packet
    lengthOf {repeat BodyLength
{	match uint8x
    as
matchKey

{ 
""\n"": body ,  00 :  f32a	,

    """ ++ [233]%N ++ runes_of_ascii "t" ++ [233]%N ++ runes_of_ascii """

: 
rootA ,

    ""it's"" :
crc,} ,
}
	, @tag(  42
	) 
    //
  // " ++ [27880; 37322]%N ++ runes_of_ascii "

roots Z9_ ,repeat
leftPad{u128
{

len

lengthOf  /// triple
	,
options1
    A  // " ++ [27880; 37322]%N ++ runes_of_ascii "

,

    // `tick` ""quote"" 'q'
/// triple
    u128	Header
, 
}
	,	}
    ,	@leftPad	(' '

) 	 /// triple
  repeat	int32 u8x  , }// @lengthOf(
")).
Eval vm_compute in ("<<<M1157>>>" ++ check (runes_of_ascii "// top
MetaData
    // c0
msg_type
    // c1
{
    // c2
int32
    // c3
As
    // c4
`crlf
line`
    // c5
,
    // c6
MetaDataX
    // c7
x
    // c8
`a\`
    // c9
,
    // c10
int8
    // c11
_x
    // c12
,
    // c13
char[]
    // c14
As
    // c15
`u8 x,`
    // c16
,
    // c17
zchar[
    // c18
3
    // c19
]
    // c20
uint8x
    // c21
,
    // c22
As
    // c23
Foo
    // c24
,
    // c25
}
    // c26
root
    // c27
packet
    // c28
repeatCount
    // c29
{
    // c30
}
    // c31
")).
Eval vm_compute in ("<<<M1815>>>" ++ check (runes_of_ascii "// top
  options 
        // c0

{ 
// c1
  }
// c2
  options
        // c3
  { 
// c4
  MetaDataX
    // c5
  	= 
	    // c6

char 

// c7
  ;

    // c8
    } 
        // c9
	  MetaData 
	    // c10
Pad
// c11
    {
	    // c12
    i8
// c13
  metadata 
    // c14
    , 
      // c15
    string 
      // c16
stringy 
    // c17
	, 
      // c18
	  int8
        // c19
As
    // c20
  `{ , }` 
      // c21
	  , 
// c22
  }
	    // c23
")).
Eval vm_compute in ("<<<M1723>>>" ++ check (runes_of_ascii "  packet 
NewOrder{
u32
    qty
,} 
packet	Cancel
    {

u64

    id , }
packet 
Business

{
u8

Kind ,
    match Kind	as

Detail

{ 1
:
NewOrder
, 2
: 
Cancel , }
, } 
packet
    TcpFrame
{
u8
	T , match
T

as Body

    { 
1	:
	Business

    ,  } , }	packet

UdpFrame
{u8
U ,	match
U as Body{  1

    :

Business
    ,}
    , Business extra
,	}
root packet
    Wire {

TcpFrame

    , UdpFrame
,

    }
")).
Eval vm_compute in ("<<<M300>>>" ++ check (runes_of_ascii "// c
packet A// trailing space 
{ i64_`100% of %d` // `tick` ""quote"" 'q'
,@calculatedFrom( ""packet"") string
Z9_ `{ , }` ,match BodyLength as
    matchKey {
7:MetaDataX ,
} ,repeat	a1 { repeat Pad , }
, pack  T, u64
MetaDataX
    ,	@calculatedFrom(	""a	b"" ) tag
{ u32 body  ,
pack @lengthOf( _x
) `it's` , repeatCount ,// c
repeat int32 BodyLength ,} , uint64 tag , } options{ //x
} 	 ")).
Eval vm_compute in ("<<<M293>>>" ++ check (runes_of_ascii "MetaData o { float32 Z9_`two words` ,char[0123456789 ] As , char[
4294967296 ]
u8x`100% of %d`	, /// triple
}
packet u8x { @rightPad // packet A { u8 x, }
( ' '	) match len as packetx
{
    [ ""a	b"",//	t
10 , 42, 007 ,  4294967296	,
    ""packet"" , ""it's""
]
: x_y_z  0	:  o , },
}MetaData calculatedFrom { char[
    // @lengthOf(
    3
]
len ,
    }")).
Eval vm_compute in ("<<<M1446>>>" ++ check (runes_of_ascii "
packet
A

{

u8
a,

    }	packet
B{ u16
b

    ,	}
packet

    C
	{  u32 c
    , }
root

packet	M {
u16

    Kc
,

u16
	Kb
,  u16
Ka
,  match
	Kc
as X

{

9
    :	A , 
10:

    B,
    }  ,match

Kb

    as
Y {

2 : C ,  1 :A ,
	},

match
Ka
    as Z{	1
:
	B

    ,} ,A 
, 
B

    ,C ,	} ")).
Eval vm_compute in ("<<<M1584>>>" ++ check (runes_of_ascii "
// top
	options // c0
    {  // c1a
		// c1b
    LittleEndian= 	 // c3
		true

    ;
}// c6a
    // c6b
    root	// c7a
  	// c7b
	packet

    // c8
	P

    {  
  // c10
	repeat  char
    // c12

  cs , 
      // c14
u8
x // c16a
	  // c16b
      ,

    // c17
}
")).
Eval vm_compute in ("<<<M1564>>>" ++ check (runes_of_ascii "root packet int {
    match u128 as BodyLength {
        00 : crc,
        //x
        0123456789 : BodyLength,
        [10, 4294967296, 4294967296, 7] : u128,
        ""a	b"" : len,
        42 : metadata,
        0 : Foo,
    },
    zchar[42] x `say ""hi""`,
}")).
Eval vm_compute in ("<<<M419>>>" ++ check (runes_of_ascii "packet
    asx { @calculatedFrom(
""""  ) @lengthOf( 255 )repeat
// packet A { u8 x, }
// trailing space 
int16 u8x
,
@tag(
    //
    007 )
    @tag( 0
    /// triple
    ) @tag( 1) u
    @lengthOf( T ),
// `tick` ""quote"" 'q'
//x
} // " ++ [128512]%N ++ runes_of_ascii " emoji")).
Eval vm_compute in ("<<<M522>>>" ++ check (runes_of_ascii "packet
    asx { @calculatedFrom(
""""  ) @tag( 255 )repeat
// packet A { u8 x, }
// trailing space 
int16 u8x
,
@tag(
    //
    007 )
    @tag( 0
    /// triple
    ) @tag( 1) u
    @lengthOf( T ),
// `tick` ""quote"" 'q'
//x
} } // " ++ [128512]%N ++ runes_of_ascii " emoji")).
Eval vm_compute in ("<<<M448>>>" ++ check (runes_of_ascii "packet
    asx { @calculatedFrom(
""""  ) @tag( 255 )repeat
// packet A { u8 x, }
// trailing space 
int16 u8x
@tag(
,
    //
    007 )
    @tag( 0
    /// triple
    ) @tag( 1) u
    @lengthOf( T ),
// `tick` ""quote"" 'q'
//x
} // " ++ [128512]%N ++ runes_of_ascii " emoji")).
Eval vm_compute in ("<<<M486>>>" ++ check (runes_of_ascii "packet
    asx { @calculatedFrom(
""""  ) @tag( 255 )repeat
// packet A { u8 x, }
// trailing space 
int16 u8x
,
@tag(
    //
    007 )
    @tag( 0
    /// triple
    ) @tag( ) u
    @lengthOf( T ),
// `tick` ""quote"" 'q'
//x
} // " ++ [128512]%N ++ runes_of_ascii " emoji")).
Eval vm_compute in ("<<<M501>>>" ++ check (runes_of_ascii "packet
    asx { @calculatedFrom(
""""  ) @tag( 255 )repeat
// packet A { u8 x, }
// trailing space 
int16 u8x
,
@tag(
    //
    007 )
    @tag( 0
    /// triple
    ) @tag( 1) u
     T ),
// `tick` ""quote"" 'q'
//x
} // " ++ [128512]%N ++ runes_of_ascii " emoji")).
Eval vm_compute in ("<<<M262>>>" ++ check (runes_of_ascii "root  packet int {  match u128 as BodyLength
    { 00
    :crc //x
0123456789 : BodyLength [
10
,4294967296 ,4294967296 , 7 ] :
u128 ""a	b""
:len
,42: metadata
, 0 : Foo , }
, zchar[ 42 ] x	`say ""hi""` // c
,
}
")).
Eval vm_compute in ("<<<M27>>>" ++ check (runes_of_ascii "
MetaData trueish{ string// 50% %s
u	,
// @lengthOf(
//x
pack Pad`say ""hi""`
,// a // b
int32 tag	, u8 asx , // 50% %s
i32
    len
,int int `100% of %d`,
} MetaData falsey { }
// @lengthOf(
")).
Eval vm_compute in ("<<<M602>>>" ++ check (runes_of_ascii "MetaData u
    { } MetaData o
{ float uint8x
`100% of %d` ,repeatCount repeatCount u8x, string_ leftPad
, i32
    Foo , int64 x `two words` , calculatedFrom
stringy `a\` ,
}
")).
Eval vm_compute in ("<<<M632>>>" ++ check (runes_of_ascii "MetaData u
    { } MetaData o
{ float uint8x
`100% of %d` ,repeatCount u8x, string_ leftPad
, i32 i32
    Foo , int64 x `two words` , calculatedFrom
stringy `a\` ,
}
")).
Eval vm_compute in ("<<<M693>>>" ++ check (runes_of_ascii "MetaData u
    { } MetaData o
{ float uint8x
`100% of %d` ,repeatCount u8x, string_ leftPad
, i32
    Foo , int64 x `two words` , calculatedFrom
stringy @x`a\` ,
}
")).
Eval vm_compute in ("<<<M599>>>" ++ check (runes_of_ascii "MetaData u
    { } MetaData o
{ float uint8x
`100% of %d` )repeatCount u8x, string_ leftPad
, i32
    Foo , int64 x `two words` , calculatedFrom
stringy `a\` ,
}
")).
Eval vm_compute in ("<<<M641>>>" ++ check (runes_of_ascii "MetaData u
    { } MetaData o
{ float uint8x
`100% of %d` ,repeatCount u8x, string_ leftPad
, i32
    Foo  int64 x `two words` , calculatedFrom
stringy `a\` ,
}
")).
Eval vm_compute in ("<<<M586>>>" ++ check (runes_of_ascii "MetaData u
    { } MetaData o
{ float 
`100% of %d` ,repeatCount u8x, string_ leftPad
, i32
    Foo , int64 x `two words` , calculatedFrom
stringy `a\` ,
}
")).
Eval vm_compute in ("<<<M1637>>>" ++ check (runes_of_ascii "packet A {
    u8 a,
}

packet B {
    u16 b,
}

root packet P {
    u8 K,
    match K as M {
        [1, 2] : A,
        3 : B,
        7 : A,
    },
}")).
Eval vm_compute in ("<<<M718>>>" ++ check (runes_of_ascii "packet
crc
{repeat  Foo A  `u8 x,` ,	@lengthOf( uint8x ) string
matchKey @lengthOf( stringy ) `a\`
,
    // c
    }
MetaData chars{
leftPad")).
Eval vm_compute in ("<<<M1813>>>" ++ check (runes_of_ascii "
packet A { match

k
	as
	n
{
[""a""
	,""bb""
    ,
	""c c""

,	""d"",
	""e""

, ""f""
    ,""g"",""h""

    ,
""i"", ""j""  ]:
B
2

    :

C

}
,}")).
Eval vm_compute in ("<<<M1923>>>" ++ check (runes_of_ascii "  packet A
{ 
match k
as n
{ ""%d%s"":
B
    ,

[ ""%d%s"",
	1 
]

: C
,
[ 
1,2

,	3  ,4 
,

5, 
""%d%s""
]:

D

, }

    ,
} ")).
Eval vm_compute in ("<<<M936>>>" ++ check (runes_of_ascii "packet A {
    Inner {
        u8 x `a
    b
  c`,
        Deep {
            u8 y `a
    b
  c`,
        },
    },
}")).
Eval vm_compute in ("<<<M1213>>>" ++ check (runes_of_ascii "options { } options { MetaDataX // c
= char ; } MetaData Pad { i8 metadata , string stringy , int8 As `{ , }` , }")).
Eval vm_compute in ("<<<M1245>>>" ++ check (runes_of_ascii "options { } options { MetaDataX = char ; } MetaData Pad { i8 metadata , string stringy , int8 As `{ , }` // c
, }")).
Eval vm_compute in ("<<<M906>>>" ++ check (runes_of_ascii "packet A {
  match k as n {
    [1, ""bb"", 007, ""d"", 5, ""f"", 7, ""h"", 9, ""j"", 11, ""l""] : B,
    2 : C
  },
}")).
Eval vm_compute in ("<<<M911>>>" ++ check (runes_of_ascii "packet A {
  match k as n {
    [1, 22, ""c c"", 4, 5, ""f"", 7, 8, ""i"", 10, 11, ""l""] : B
    2 : C
  },
}")).
Eval vm_compute in ("<<<M1680>>>" ++ check (runes_of_ascii "MetaData o {
    i8 lengthOf `two words`,
    msg_type MetaDataX ``,/// triple
    u32 int `a\`,
}")).
Eval vm_compute in ("<<<M1831>>>" ++ check (runes_of_ascii "  packet
A

{

    B b `a
    b
  c` 
,
	B  `a
    b
  c` 
,repeat 
B bs	`a
    b
  c`
, }
")).
Eval vm_compute in ("<<<M847>>>" ++ check (runes_of_ascii "packet A {
  match k as n {
    [""a"", ""bb"", 007, ""d"", ""e"", 66, ""g""] : B,
    2 : C
  },
}")).
Eval vm_compute in ("<<<M863>>>" ++ check (runes_of_ascii "packet A {
  match k as n {
    [1, 22, 007, 4, 5, 66, 7, 8, 9] : B,
    2 : C
  },
}")).
Eval vm_compute in ("<<<M1811>>>" ++ check (runes_of_ascii "packet

    A

{ Inner{ 
u8

    x
	`
`,
Deep { u8
y
	`
`
    ,
	} ,
}
	,} ")).
Eval vm_compute in ("<<<M818>>>" ++ check (runes_of_ascii "packet A {
  match k as n {
    [""a"", 22, ""c c"", 4, ""e""] : B
    2 : C
  },
}")).
Eval vm_compute in ("<<<M802>>>" ++ check (runes_of_ascii "packet A {
  match k as n {
    [1, ""bb"", 007, ""d""] : B,
    2 : C
  },
}")).
Eval vm_compute in ("<<<M1770>>>" ++ check (runes_of_ascii "root packet Packet {
    match f32a as Foo {
        1 : tag,
    },
}")).
Eval vm_compute in ("<<<M778>>>" ++ check (runes_of_ascii "packet A {
  match k as n {
    [""a"", ""bb""] : B,
    2 : C
  },
}")).
Eval vm_compute in ("<<<M952>>>" ++ check (runes_of_ascii "packet A {
    B b `
x`,
    B `
x`,
    repeat B bs `
x`,
}")).
Eval vm_compute in ("<<<M1695>>>" ++ check (runes_of_ascii "root packet A {
    u8 x `a
            b
          c`,
}")).
Eval vm_compute in ("<<<M1098>>>" ++ check (runes_of_ascii "packet A { u8 x, } // a
// b
packet B {} // c
// d")).
Eval vm_compute in ("<<<M1483>>>" ++ check (runes_of_ascii "  MetaData  rootA

    {options1
a1 ,
	}

")).
Eval vm_compute in ("<<<M1745>>>" ++ check (runes_of_ascii "root packet A {
    u8 x `
        x`,
}")).
Eval vm_compute in ("<<<M1181>>>" ++ check (runes_of_ascii "// c
options { A = ""// no comment"" }")).
Eval vm_compute in ("<<<M410>>>" ++ check (runes_of_ascii "packet
    asx { @calculatedFrom(")).
Eval vm_compute in ("<<<M1002>>>" ++ check (runes_of_ascii "packet A {
 u8 x `d" ++ [12288]%N ++ runes_of_ascii "`, // c" ++ [12288]%N ++ runes_of_ascii "
}")).
Eval vm_compute in ("<<<M1743>>>" ++ check (runes_of_ascii "packet calculatedFrom
	{
	} ")).
Eval vm_compute in ("<<<M1152>>>" ++ check (runes_of_ascii "root packet a1 { }
// c
")).
Eval vm_compute in ("<<<M1124>>>" ++ check (runes_of_ascii "MetaData // c
tag { }")).
Eval vm_compute in ("<<<M1016>>>" ++ check (runes_of_ascii "// c" ++ [5760]%N ++ runes_of_ascii "
packet A {
}")).
Eval vm_compute in ("<<<M727>>>" ++ check (runes_of_ascii "// only a comment")).
Eval vm_compute in ("<<<M565>>>" ++ check (runes_of_ascii "MetaData u
    {")).
Eval vm_compute in ("<<<M1059>>>" ++ check (runes_of_ascii "// c 	")).
Eval vm_compute in ("<<<M723>>>" ++ check (runes_of_ascii " ")).
