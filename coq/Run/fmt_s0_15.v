From FP Require Import Lexer Parser ShowPT Digest Formatter.
From Coq Require Import String List NArith.
Import ListNotations.
Open Scope string_scope.
Set Printing Width 100000000.
Set Printing Depth 100000000.
Definition show_fres (r : fres) : string :=
  match r with
  | FOk s => "OK:" ++ sh_escaped s ""
  | FErr s => "ERR:" ++ sh_escaped s ""
  | FPanic p => "PANIC:" ++ p
  end.
Definition check (rs : list rune) : string := digest (show_fres (format_res rs)).
Definition full (rs : list rune) : string := show_fres (format_res rs).
Eval vm_compute in ("<<<M317>>>" ++ check (runes_of_ascii "MetaData Logon
    {
    char[]u8x , matchKey pack,
u8 int ``, char[ 007
    ]
msg_type ,
BodyLength o	,string_ crc  `a\`, } options	{
    //x
    trueish = int16 Packet
    = char MetaDataX=
char[
//
// trailing space 
255 ] // a // b
;}	root
    //
    packet a1 // packet A { u8 x, }
{ } root packet // c
MetaDataX{
@lengthOf(_x)
repeat
Logon{// " ++ [128512]%N ++ runes_of_ascii " emoji
o
a1 , uint64
    u128 ,  } ,zchar[007] chars
    `line1
line2` ,	repeat Header u128`doc`, // " ++ [128512]%N ++ runes_of_ascii " emoji
@calculatedFrom(""1"")int
trueish
, char[0123456789
    ]
uint8x,
i8 int	@lengthOf( msg_type )`line1
line2`
,
    //x
    @rightPad (
) repeat f64 Z9_, metadata{ falsey @calculatedFrom(
""abc""
) , }, options1 @calculatedFrom( ""\n"" ) ,@calculatedFrom(	""\n"" )  match metadata
    as Header {[
    """" ,  ""1"" ] :	Foo //
, [  ""\n""
, 10
,
// " ++ [27880; 37322]%N ++ runes_of_ascii "
// c
""{,}"" ]
: Logon
,
[
    """"] :
len
, ""\n""  :// trailing space 
msg_type , [ // c
00 ]
    : trueish , 10 : u8x, }
    ,
    } // " ++ [27880; 37322]%N ++ runes_of_ascii "
root
packet
    BodyLength
    { char[42
] body  @calculatedFrom(
    ""{,}"" ) `tab	here` // trailing space 
,
i32
stringy  @calculatedFrom( """ ++ [28040; 24687]%N ++ runes_of_ascii """ ),  @tag(  0123456789	)
@rightPad ( )@tag( 00 )  i16 a1 @lengthOf( pack// a // b
) ,
    @tag( 10
)
@leftPad ('\x00' ) // `tick` ""quote"" 'q'
@calculatedFrom( ""a\""b"" ) repeat char[] // c
stringy `
`	, chars `say ""hi""`,
@lengthOf(  a1 ) @leftPad( '0'  )
    match Z9_
as Header { 00
    //	t
    : As ,
} // " ++ [27880; 37322]%N ++ runes_of_ascii "
, o @calculatedFrom( """ ++ [128512]%N ++ runes_of_ascii """
    )
, @leftPad //	t
(	)As// trailing space 
@calculatedFrom( ""// no comment"") ,
match x_y_z  as
    BodyLength {
""x y"" // `tick` ""quote"" 'q'
:BodyLength
, """ ++ [28040; 24687]%N ++ runes_of_ascii """  : packetx  , 0 :
    Header ,
    ""x y"" : matchKey
    //	t
    ,}, } // trailing space ")).
Eval vm_compute in ("<<<M324>>>" ++ check (runes_of_ascii "MetaData Pad { char[] Packet , f32a i64_
    `tab	here`
// c
// a // b
,
} root packet
    As { @calculatedFrom(""CRC32""	)@calculatedFrom(  ""1""  ) @calculatedFrom( ""// no comment""
// a // b
//
)	As
As `say ""hi""` , Foo  msg_type , calculatedFrom
@calculatedFrom( ""\n"" ) , zchar {	zchar[ 7 ] charz // `tick` ""quote"" 'q'
@calculatedFrom(""x y"" )
    , Z9_
    `{ , }` , repeat int { zchar[ 3
] i8i8
    @lengthOf( chars )
,
match zchar as
    o {1 : //
u128	,
    0
:
// trailing space 
//x
stringy
, 42
: charz""x y"": a1 3 : Header ,
4294967296 : o } , repeat
Header `two words`, match u8x  as u8x
{
[ 10] : pack ,	1 :
BodyLength
//
// " ++ [27880; 37322]%N ++ runes_of_ascii "
0 : MetaDataX
,42
:  calculatedFrom },	} /// triple
, } , // " ++ [27880; 37322]%N ++ runes_of_ascii "
}
// `tick` ""quote"" 'q'
/// triple
packet
    i64_ { }
    root packet x { Header
{char[ /// triple
0 ] _x `// not a comment`
    ,
}
    ,@lengthOf( A
)uint32 f32a
@calculatedFrom( ""abc""
    )
// `tick` ""quote"" 'q'
// " ++ [27880; 37322]%N ++ runes_of_ascii "
,
repeat i16 trueish `u8 x,` ,@rightPad	( ' ' )@calculatedFrom( ""a\\"" ) float,
    repeat char[ 7
]zchar,
    @tag( 10 ) repeat
    //	t
    a1 falsey	`say ""hi""`,
    @lengthOf(
len )repeat zchar[	00
    // `tick` ""quote"" 'q'
    ] uint8x ,}
MetaData  metadata {
u8 body
, }")).
Eval vm_compute in ("<<<M1805>>>" ++ check (runes_of_ascii "options {
    FixedStringPadFromLeft = true;
    FixedStringPadChar = '0';
}

packet Leg {
    InPrice0 {
        repeat string clOrdID,
        int16 msgKind,
        zchar[5] Px,
    },
    i16 f1,
    repeat f64 Side2,
    string Acct,
}

packet Cancel {
    zchar[4] clOrdID,
    string seqNo,
    Leg,
    @leftPad('0')
    char[11] OrderId,
}

packet Quote {
    repeat char[4] sym,
    f64 OrderId,
    repeat Leg,
    repeat i64 f1,
    int16 Note,
    zchar[3] count,
}

root packet Ack {
    @leftPad(' ')
    char[10] sym,
    InPx60 {
        Cancel,
        repeat char[1] f1,
        string Tail,
        repeat InNote55 {
            int8 count,
            f64 f1,
            repeat Cancel,
        },
        char[] tag7,
        repeat string msgKind,
    },
    u8 lastPx,
    match lastPx as Body {
        152 : Quote,
        173 : Cancel,
        4 : Leg,
    },
    u16 Ref @calculatedFrom(""CR\
        C32""),
}")).
Eval vm_compute in ("<<<M1526>>>" ++ check (runes_of_ascii "options {
    FixedStringPadFromLeft = true;
    FixedStringPadChar = '0';
}

packet Leg {
    repeat InSym93 {
        zchar[3] Acct,
        string Side2,
        i32 Flags,
        f32 Note,
        i32 msgKind,
    },
    f64 Note,
    uint16 Px,
}

packet Quote {
    zchar[2] OrderId,
}

packet Ack {
    repeat string lastPx,
    zchar[4] price,
    uint32 OrderId,
    Quote,
    int8 Acct,
}

packet Fill {
    repeat Leg,
    @rightPad('0')
    char[11] Note,
    f64 Px,
    @rightPad('\x00')
    char[5] Flags,
    zchar[9] x,
    string msgKind,
}

root packet Order {
    Leg,
    repeat Ack,
    @rightPad('\x00')
    char[3] Side2,
    repeat char[1] seqNo,
    u16 clOrdID,
    match clOrdID as Body {
        198 : Leg,
        23 : Quote,
        13 : Ack,
        159 : Fill,
    },
    u32 venue @calculatedFrom(""CR\
        C32""),
}")).
Eval vm_compute in ("<<<M1551>>>" ++ check (runes_of_ascii "// a // b
    packet u128{
repeat
    chars

    {

i64

    u8x 
`
` // a // b
  	,	// c
		_x@lengthOf(  falsey )
    ,
    Logon
	`" ++ [28040; 24687; 31867; 22411]%N ++ runes_of_ascii "`,
    repeat char[]

    trueish
    `tab	here` , }	,
	} root
	packet T {

match
	Packet 
as
trueish {
""packet""  :charz	, [ 4294967296 ,""1""

]
:  A ,

7

: x  
      // " ++ [27880; 37322]%N ++ runes_of_ascii "
	,

[  
  // a // b
  	7,

    ""a	b"" ] :

    u128 
255:
    As
3

:
Packet	,
	},
//	t
    	// trailing space 
  	pack	`a\`
,

    @calculatedFrom(
	""" ++ [233]%N ++ runes_of_ascii "t" ++ [233]%N ++ runes_of_ascii """	//	t

	) 
rootA
matchKey  ,
char[
    65535 
]  /// triple
leftPad	@lengthOf(
    roots 
//

) , repeat MetaDataX 
{	u64 a1
@calculatedFrom(""x y"" ) `doc`  ,	//	t
		uint8

    falsey  , match

    BodyLength

    as
	A  {

    [

""\" ++ [233]%N ++ runes_of_ascii """

,
	255,  """" 
, ""it's"" 
] :

    Foo ,3 :u128 
} 
,} , 
} ")).
Eval vm_compute in ("<<<M219>>>" ++ check (runes_of_ascii "
packet
falsey{ // `tick` ""quote"" 'q'
repeat charz
    /// triple
    float // a // b
`tab	here`
    ,
char[]stringy  , Logon
    f32a,
    char[] string_/// triple
,
int16
_x
`` ,
    match/// triple
crc as stringy { ""abc"" :Pad
    [ ""\n"" , 10, 4294967296, 0123456789 , ""abc"" ,	""" ++ [28040; 24687]%N ++ runes_of_ascii """
    ] :
i8i8 , 10 :
    //x
    Header , 10:// c
calculatedFrom
    , 0123456789: charz
10
    :
    repeatCount} ,
    leftPad @lengthOf(
u8x )  , @lengthOf(a1) repeat x body ,
} MetaData
string_
{ float64  f32a	, zchar[
255] T, u32 trueish, BodyLength roots
`two words` , }
// " ++ [128512]%N ++ runes_of_ascii " emoji
//	t
packet stringy{ zchar[
    255
    ]Foo ,
}
MetaData
leftPad {
    } //
options { x //x
=
true
    ;
zchar = """" } //")).
Eval vm_compute in ("<<<M78>>>" ++ check (runes_of_ascii "options {
Header	=u32; } options {
i8i8	=
    f64 ; body
    =  zchar[
// " ++ [128512]%N ++ runes_of_ascii " emoji
/// triple
00//
] ; }
    //
    MetaData BodyLength  { // trailing space 
}// " ++ [27880; 37322]%N ++ runes_of_ascii "
options
{ Logon= u64 As =
    true i64_
= '\x00' ;
} root packet asx {
@tag(
// `tick` ""quote"" 'q'
//	t
4294967296
    )
    roots @lengthOf( A ) ,repeat uint8 u128
    , int32 i64_  ,
    u8 u `` ,
@lengthOf(
// c
// c
len ) uint64
    //x
    matchKey ,	match rootA
    as stringy {
1 : string_, 7 : charz , 255 : u128, [ // trailing space 
0
,0123456789 ,1,007  ]: len
    , 10
    :trueish } ,
@rightPad	()
    char[ 7] int //
@lengthOf(
x ) `two words`
, }")).
Eval vm_compute in ("<<<M1121>>>" ++ check (runes_of_ascii "// top
root // c0
packet // c1
_x
    // c2
{ match
    // c4
Foo // c5
as // c6a
  // c6b
Z9_ {
    // c8
""a	b"" // c9a
  // c9b
: // c10
Pad // c11
,
    // c12
} , // c14
repeat // c15a
  // c15b
x `line1
line2`
    // c17
, // c18
@rightPad // c19a
  // c19b
(
    // c20
' ' // c21
) // c22
@calculatedFrom( ""a\\""
    // c24
) // c25a
  // c25b
metadata MetaDataX
    // c27
, @tag(
    // c29
0 ) // c31
Logon int
    // c33
``
    // c34
,
    // c35
} // c36
options // c37
{
    // c38
T // c39
= // c40a
  // c40b
'\x00' } // c42a
  // c42b
")).
Eval vm_compute in ("<<<M1340>>>" ++ check (runes_of_ascii "options {
    ArrayPrefixLenType = u64;
    FixedStringPadFromLeft = true;
    FixedStringPadChar = '0';
}
packet Quote {
}
packet Ack {
    repeat InNote66 {
        u8 pad0,
    },
}
packet Reject {
}
root packet Order {
    Quote,
    repeat Reject,
    string venue,
    string seqNo,
    uint32 Ref,
    u16 lastPx,
    u32 clOrdID @lengthOf(Body),
    match lastPx as Body {
        190 : Reject,
        186 : Quote,
        22 : Ack,
    },
    u16 Flags @calculatedFrom(""CR\
C32""),
}
")).
Eval vm_compute in ("<<<M1365>>>" ++ check (runes_of_ascii "
options

{LittleEndian
=true	; StringPrefixLenType= u64 ;

ArrayPrefixLenType

=u16;

    FixedStringPadFromLeft=false ; FixedStringPadChar
    = ' '

;

}
    packet Logon

{ zchar[ 5 ]

Side2  ,
    }root

packet	Logout

{
repeat
    i64 Tail

    ,	Logon
	, repeat 
i16

OrderId
    , char[] venue  , 
uint64 
x
,
    repeat	i16 count
, u8 Flags, match Flags
    as	Body  { 25 :
    Logon	,	}	, u16 Qty
@calculatedFrom( ""CRC32"")
, 
}

")).
Eval vm_compute in ("<<<M1444>>>" ++ check (runes_of_ascii "
// top
MetaData  // c0
    uint8x	// c1
	{ 	 // c2
    	char[]  // c3

f32a  // c4

  `// not a comment` // c5
, 	 // c6
      float32	// c7
    	roots  // c8
,	// c9
	char[ // c10
      7  // c11
		]// c12
u8x// c13
    ,  // c14
  zchar[ // c15
10	// c16
    ] 	 // c17

f32a // c18
	, 	 // c19

u64 // c20
	pack // c21
,	// c22
	  u16 	 // c23
	  pack	// c24
  ,// c25
    } 	 // c26
")).
Eval vm_compute in ("<<<M1730>>>" ++ check (runes_of_ascii "packet crc {
    match trueish as len {
        42 : uint8x,
        // " ++ [128512]%N ++ runes_of_ascii " emoji
        ""1"" : asx,
        3 : body,
        [0123456789, ""1""] : u,
        ""packet"" : o,
    },
}

MetaData tag {
    string o `line1
    line2`,
    char[] Header `{ , }`,
    uint8x Z9_,
}

MetaData tag {
    i8 len,
}

options {
    // `tick` ""quote"" 'q'
    /// triple
    x = 10;
}")).
Eval vm_compute in ("<<<M1816>>>" ++ check (runes_of_ascii "

  options
    {LittleEndian =
true

    ; } packet

Logon

    {
    u8  x ,
} packet
Logout

{u16  reason
    ,

}  root
packet Frame
{ u16  Kind, u16 Kind2

,  match Kind as
    Body
{
    1 :
Logon

,

[

    2 ,  3  ,
4
]
    :
Logout  , 100 
: Logon  ,} ,	match 
Kind2

as
Trailer
    { 
0 : 
Logout
,

} , 
} ")).
Eval vm_compute in ("<<<M81>>>" ++ check (runes_of_ascii "root packet o {
} MetaData uint8x
    { int64 rootA  ,}
    MetaData
As{i32 // packet A { u8 x, }
chars,	}packet Z9_// trailing space 
{
@leftPad( )char[]	x_y_z,} packet tag {	@leftPad(
// " ++ [128512]%N ++ runes_of_ascii " emoji
// " ++ [27880; 37322]%N ++ runes_of_ascii "
' '
    )
zchar[ 0 // `tick` ""quote"" 'q'
] rootA @calculatedFrom(
    ""a\\"" )
    `tab	here`
,}")).
Eval vm_compute in ("<<<M222>>>" ++ check (runes_of_ascii "packet
body// @lengthOf(
{ @lengthOf(
T
    // " ++ [27880; 37322]%N ++ runes_of_ascii "
    ) @lengthOf(
int ) @leftPad ( '\x00')
asx//x
len
,
repeat	zchar[ 3] int `" ++ [28040; 24687; 31867; 22411]%N ++ runes_of_ascii "` ,@lengthOf(
    // @lengthOf(
    options1)match
    x
    as //x
leftPad // @lengthOf(
{
7
:
x_y_z , 65535:  u128 , 42 : x ,} , //
}")).
Eval vm_compute in ("<<<M1541>>>" ++ check (runes_of_ascii "

  // top
packet 
    // c0
	order_item // c1
    { 
u8 // c3
a  // c4a
	  // c4b
	,  // c5

  } 
root // c7

	packet 

// c8
    new_order 
    // c9
{ 	 // c10

order_item 
// c11
,

// c12
    u8  // c13a
	// c13b
x,
// c15
  }
")).
Eval vm_compute in ("<<<M367>>>" ++ check (runes_of_ascii "
packet roots  { @calculatedFrom( ""a\\"" ) @lengthOf( packetx  ) match repeatCount
as body { 007:
    lengthOf ,
    00
    :// `tick` ""quote"" 'q'
zchar,} ,
char[] chars
`say ""hi""`,}
MetaData packetx
    {}
")).
Eval vm_compute in ("<<<M62>>>" ++ check (runes_of_ascii "packet
crc { @leftPad //	t
( ) repeat
charz float
    ,} root packet
options1 {
@tag( 65535/// triple
)packetx
{ u128 , f32 /// triple
a1 ,
    } , }
// trailing space 
")).
Eval vm_compute in ("<<<M1434>>>" ++ check (runes_of_ascii "packet A {
    match k as n {
        [
            1, 007, 5, 7, 9,
            11, ""bb"", ""d"", ""f"", ""h"",
            ""j""
        ] : B,
        2 : C,
    },
}")).
Eval vm_compute in ("<<<M1517>>>" ++ check (runes_of_ascii "MetaData tag {
    body Packet,
    int16 body,
    f32a uint8x,
}

packet falsey {
    x {
        char[7] lengthOf,
        char[] o `say ""hi""`,
    },
}")).
Eval vm_compute in ("<<<M476>>>" ++ check (runes_of_ascii "packet uint8x
{ match pack
    as msg_type	{
    0123456789 :	float
}
,
} packet //	t
a1
    { } } options {packetx
    = '\x00'	; u128= ""a	b""  ; }
")).
Eval vm_compute in ("<<<M393>>>" ++ check (runes_of_ascii "uint8x packet
{ match pack
    as msg_type	{
    0123456789 :	float
}
,
} packet //	t
a1
    { } options {packetx
    = '\x00'	; u128= ""a	b""  ; }
")).
Eval vm_compute in ("<<<M673>>>" ++ check (runes_of_ascii "// @lengthOf(
packet i8i8 { u128 o , }
options { MetaDataX = true;
    BodyLength =""packet"" x_y_z float64 007
crc //x
= ""abc"" ;
    msg_type =
i16 }")).
Eval vm_compute in ("<<<M1813>>>" ++ check (runes_of_ascii "
options {  }MetaData

    u8x

    {
uint8x
body `crlf
line`
	//	t
    , calculatedFrom body ,  }	options
	{  }root
	packet
options1
{ }
")).
Eval vm_compute in ("<<<M696>>>" ++ check (runes_of_ascii "// @lengthOf(
packet i8i8 { u128 o , } }
options { MetaDataX = true;
    BodyLength =""packet"" x_y_z= 007
crc //x
= ""abc"" ;
    msg_type =
i16 }")).
Eval vm_compute in ("<<<M715>>>" ++ check (runes_of_ascii "// @lengthOf(
packet i8i8 { u128 o , options
} { MetaDataX = true;
    BodyLength =""packet"" x_y_z= 007
crc //x
= ""abc"" ;
    msg_type =
i16 }")).
Eval vm_compute in ("<<<M1829>>>" ++ check (runes_of_ascii "packet Logon {
    metadata @calculatedFrom(""a\\""),
    @tag(42)
    @tag(65535)
    repeat u16 o `line1
        line2`,
}

packet float {
}")).
Eval vm_compute in ("<<<M37>>>" ++ check (runes_of_ascii "//
root /// triple
packet // trailing space 
pack {
@leftPad(
    ' ' )
    repeat trueish zchar ,	} root
    packet // " ++ [27880; 37322]%N ++ runes_of_ascii "
Header { }")).
Eval vm_compute in ("<<<M223>>>" ++ check (runes_of_ascii "packet  u { repeat
    // " ++ [128512]%N ++ runes_of_ascii " emoji
    A , @lengthOf( lengthOf
)
    repeat
    i64
i64_
, //
zchar[
3// a // b
] body , }
")).
Eval vm_compute in ("<<<M1146>>>" ++ check (runes_of_ascii "MetaData leftPad
// c
{ chars MetaDataX , } packet repeatCount { char[ 255 ] uint8x `" ++ [233]%N ++ runes_of_ascii "` , } MetaData pack { As Foo , }")).
Eval vm_compute in ("<<<M1178>>>" ++ check (runes_of_ascii "MetaData leftPad { chars MetaDataX , } packet repeatCount { char[ 255 ] uint8x `" ++ [233]%N ++ runes_of_ascii "` , } MetaData
// c
pack { As Foo , }")).
Eval vm_compute in ("<<<M893>>>" ++ check (runes_of_ascii "packet A {
  match k as n {
    [""a"", ""bb"", ""c c"", ""d"", ""e"", ""f"", ""g"", ""h"", ""i"", ""j"", ""k""] : B,
    2 : C
  },
}")).
Eval vm_compute in ("<<<M24>>>" ++ check (runes_of_ascii "options { metadata
= '\x00' ;
    u128
=
    ""CRC32"" ; charz = ' 'options1 = 00 ; }
packet string_ { }
")).
Eval vm_compute in ("<<<M1317>>>" ++ check (runes_of_ascii "packet FooBar {
    u8 a,
}
packet foo_bar {
    u16 b,
}
root packet R {
    FooBar,
    foo_bar,
}
")).
Eval vm_compute in ("<<<M855>>>" ++ check (runes_of_ascii "packet A {
  match k as n {
    [""a"", ""bb"", ""c c"", ""d"", ""e"", ""f"", ""g"", ""h""] : B
    2 : C
  },
}")).
Eval vm_compute in ("<<<M1457>>>" ++ check (runes_of_ascii "
packet
A {
	u32 crc
	@calculatedFrom(
    ""x\
y""	)

,	@calculatedFrom(  ""x\
y"" 
)u8	y ,	}
")).
Eval vm_compute in ("<<<M559>>>" ++ check (runes_of_ascii "
packet
    { asx match u128 as lengthOf
{
//	t
// `tick` ""quote"" 'q'
255 : x ,
    } ,	}")).
Eval vm_compute in ("<<<M878>>>" ++ check (runes_of_ascii "packet A {
  match k as n {
    [1, 22, 007, 4, 5, 66, 7, 8, 9, 10] : B,
    2 : C
  },
}")).
Eval vm_compute in ("<<<M1289>>>" ++ check (runes_of_ascii "
root

    packet

P
{repeat	string
    ss
    ,  repeat
    u16
ns
    ,

    }
")).
Eval vm_compute in ("<<<M1697>>>" ++ check (runes_of_ascii "
packet
    roots {}

MetaData
    metadata	{
asx
matchKey, uint64

rootA
,	}
")).
Eval vm_compute in ("<<<M1640>>>" ++ check (runes_of_ascii "packet A {
    match k as n {
        [1, 22, 007] : B,
        2 : C,
    },
}")).
Eval vm_compute in ("<<<M818>>>" ++ check (runes_of_ascii "packet A {
  match k as n {
    [1, ""bb"", 007, ""d"", 5] : B
    2 : C
  },
}")).
Eval vm_compute in ("<<<M42>>>" ++ check (runes_of_ascii "
packet roots
    { len leftPad `// not a comment`	,} packet packetx{}")).
Eval vm_compute in ("<<<M787>>>" ++ check (runes_of_ascii "packet A {
  match k as n {
    [1, 22, 007] : B,
    2 : C
  },
}")).
Eval vm_compute in ("<<<M444>>>" ++ check (runes_of_ascii "packet uint8x
{ match pack
    as msg_type	{
    0123456789 :")).
Eval vm_compute in ("<<<M1287>>>" ++ check (runes_of_ascii "root packet P {
    repeat string ss,
    repeat u16 ns,
}
")).
Eval vm_compute in ("<<<M1822>>>" ++ check (runes_of_ascii "packet A {
    match k as n {
        1 : B,
    },
}")).
Eval vm_compute in ("<<<M332>>>" ++ check (runes_of_ascii "MetaData o
    { } MetaData T  {
    } options { }")).
Eval vm_compute in ("<<<M7>>>" ++ check (runes_of_ascii "options {  metadata = ""a\\""// @lengthOf(
;}
")).
Eval vm_compute in ("<<<M1659>>>" ++ check (runes_of_ascii "MetaData lengthOf {
    Header o `doc`,
}")).
Eval vm_compute in ("<<<M197>>>" ++ check (runes_of_ascii "
options {u8x
=
    ""packet"" ;	}
")).
Eval vm_compute in ("<<<M1644>>>" ++ check (runes_of_ascii "

  MetaData
u128 {  } 	 //x
 
")).
Eval vm_compute in ("<<<M1660>>>" ++ check (runes_of_ascii "
packet
A
    { }
	// c" ++ [160]%N ++ runes_of_ascii "
")).
Eval vm_compute in ("<<<M1500>>>" ++ check (runes_of_ascii "// c" ++ [8239]%N ++ runes_of_ascii "
packet A
    {	}
")).
Eval vm_compute in ("<<<M1103>>>" ++ check (runes_of_ascii "// c
MetaData tag { }")).
Eval vm_compute in ("<<<M1133>>>" ++ check (runes_of_ascii "MetaData u
// c
{ }")).
Eval vm_compute in ("<<<M1036>>>" ++ check (runes_of_ascii "packet A {
}
// c" ++ [12]%N)).
Eval vm_compute in ("<<<M1024>>>" ++ check (runes_of_ascii "packet A {
}// c" ++ [8287]%N)).
Eval vm_compute in ("<<<M712>>>" ++ check (runes_of_ascii "// @lengthOf(
")).
Eval vm_compute in ("<<<M1000>>>" ++ check (runes_of_ascii "// c" ++ [8192]%N)).
Eval vm_compute in ("<<<M735>>>" ++ check ([0]%N)).
