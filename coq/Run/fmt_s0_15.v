From FP Require Import Lexer Parser ShowPT Digest Formatter.
From Coq Require Import String List NArith.
Import ListNotations.
Open Scope string_scope.
Set Printing Width 100000000.
Set Printing Depth 100000000.
Definition show_fres (r : fres) : string :=
  match r with
  | FOk s => "OK:" ++ sh_escaped s ""
  | FErr s => "ERR:" ++ sh_escaped s ""
  | FPanic p => "PANIC:" ++ p
  end.
Definition check (rs : list rune) : string := digest (show_fres (format_res rs)).
Definition full (rs : list rune) : string := show_fres (format_res rs).
Eval vm_compute in ("<<<M165>>>" ++ check (runes_of_ascii "packet falsey { char[7
    ]
Foo @calculatedFrom( ""CRC32"" ) , @tag(
    //
    10)	u8 Packet`" ++ [233]%N ++ runes_of_ascii "` ,repeat  stringy
,
@lengthOf( // a // b
float)tag { repeat
    u8x {
int16 charz@lengthOf(trueish ) , //	t
repeat  string calculatedFrom,
charz @calculatedFrom(  ""a\""b""
)	`line1
line2`
,
},u64
    MetaDataX @calculatedFrom( """ ++ [128512]%N ++ runes_of_ascii """
    ) `" ++ [233]%N ++ runes_of_ascii "`
    ,rootA
    // packet A { u8 x, }
    {
    repeat	u64 BodyLength
`" ++ [233]%N ++ runes_of_ascii "` , pack @calculatedFrom( //x
""{,}"" )
    `" ++ [28040; 24687; 31867; 22411]%N ++ runes_of_ascii "` ,repeat // c
x charz,
},
    // a // b
    char[] packetx, }	, // `tick` ""quote"" 'q'
calculatedFrom , u x_y_z
,repeat	int	i64_ ,@leftPad (
    ' '
)u32 T @calculatedFrom( ""{,}"" )
, repeat
    metadata , } root packet
chars
{ char[	65535
]  pack @lengthOf( As ) `tab	here` , char[
255] msg_type `// not a comment`
    ,@calculatedFrom(
    ""// no comment"" ) @tag( //	t
0 ) @tag(10 ) repeat Header {
    char[]
// @lengthOf(
// " ++ [27880; 37322]%N ++ runes_of_ascii "
i64_,repeat T//x
`` ,match uint8x	as i64_ {
00// `tick` ""quote"" 'q'
: _x ,	65535: //
Z9_,
""1""
: u8x ,
007 : Z9_
, 255
:
matchKey
""1"" :
crc , } , } ,
    @calculatedFrom(	""packet""	) match int as x_y_z{ 0123456789 :	Logon
    // @lengthOf(
    ,
    //	t
    [ 0123456789, ""it's"" ]
:
int
    , [""a	b"" , ""CRC32"" , 0, 4294967296 , """"	] :
pack , 0 : u , } , match // @lengthOf(
string_ as
int
{ 0: repeatCount [ ""abc""
    ] : // " ++ [27880; 37322]%N ++ runes_of_ascii "
float 007: msg_type , [
    ""a\""b""	]:
charz , } , i16 MetaDataX`say ""hi""`, repeat u `tab	here` , repeat falsey  { repeat i8 lengthOf `a\` ,
    repeatCount@lengthOf( o)
    `{ , }`,}, }packet rootA
    { calculatedFrom//	t
@calculatedFrom( ""x y"") ,
char Pad @calculatedFrom( ""a\""b"" ) `" ++ [233]%N ++ runes_of_ascii "`
    , @leftPad
( '\x00' )	repeat float64 tag ,
    // " ++ [27880; 37322]%N ++ runes_of_ascii "
    @calculatedFrom( ""1"") repeat Foo ,  } // " ++ [27880; 37322]%N)).
Eval vm_compute in ("<<<M1939>>>" ++ check (runes_of_ascii "
packet 	 // " ++ [128512]%N ++ runes_of_ascii " emoji

x{
	    //x
lengthOf
@calculatedFrom( ""abc""	) `u8 x,`
,@rightPad( )
	//x

// @lengthOf(
float32

Packet  @lengthOf(falsey

) ,  char[ 
10 ]  falsey ,

@tag( 3
    )

repeat
zchar[
    4294967296 ] repeatCount 
, repeatCount
	`say ""hi""`	, int16
    u128 	 // `tick` ""quote"" 'q'
	,	char[

    3	]

crc @calculatedFrom( ""x y""
	),// trailing space 
@leftPad(
// " ++ [27880; 37322]%N ++ runes_of_ascii "
	'\x00'
) match	chars

    as	i8i8 {

42	: charz 	 // trailing space 
,
	}
,

    } options 
{

}
MetaData	metadata
	{ char[  4294967296 
]
    i8i8  ,

    float rootA ,	i64
packetx	// " ++ [27880; 37322]%N ++ runes_of_ascii "
	,  i8 	 // " ++ [27880; 37322]%N ++ runes_of_ascii "
  	roots
`crlf
line` ,

tag i64_
	,
uint8 Pad

    `" ++ [233]%N ++ runes_of_ascii "`
    ,
}root	packet 
Header

{ u64
options1

`two words`  ,@calculatedFrom(
""a\\""// trailing space 
    ) 	 // " ++ [128512]%N ++ runes_of_ascii " emoji
  i32 	 //	t
  x_y_z

@calculatedFrom( 
""a\""b""
	)
`tab	here`	,

    match A as  len

    {
[""CRC32""  // " ++ [128512]%N ++ runes_of_ascii " emoji
  ,
	""it's""
] 	 //	t
	: Z9_
	""a	b"" 
: o

,},
match 
asx
	as
	pack 
{ 0
    :
	x_y_z

,} ,

    char[] 
i64_ `{ , }`

, }	MetaData 
stringy
	{  // trailing space 
lengthOf
    // `tick` ""quote"" 'q'
  //	t
	o,

string 	 //

u8x
    , f32
    string_`doc`, }

")).
Eval vm_compute in ("<<<M8>>>" ++ check (runes_of_ascii "// @lengthOf(
packet Pad { zchar[
    0 ]Header @calculatedFrom(
""a	b"" ) // " ++ [27880; 37322]%N ++ runes_of_ascii "
`say ""hi""` , @calculatedFrom(
    ""a\""b"" // a // b
)  body @lengthOf( body// `tick` ""quote"" 'q'
)`say ""hi""` , u16 stringy@lengthOf(
    // trailing space 
    trueish ) , @lengthOf( rootA) f64 Foo `say ""hi""` // c
,u16 Z9_ , x_y_z , }
    MetaData metadata { uint64 x , trueish chars//
,
    asx lengthOf `u8 x,`  ,
} options { body // a // b
=	""packet"" } root
    packet MetaDataX {zchar[
42	]
a1
,Packet x_y_z // " ++ [27880; 37322]%N ++ runes_of_ascii "
, u8 Foo
    `u8 x,` , u64
//	t
/// triple
tag, @tag( 1 //x
)  string x_y_z @calculatedFrom( ""x y"" ) ,f32 Logon	, _x ,charz // a // b
{
    rootA metadata `crlf
line`
    , Header @calculatedFrom( ""\" ++ [233]%N ++ runes_of_ascii """ ) `` ,
i64_`line1
line2`
    // @lengthOf(
    , } ,@lengthOf(
a1// `tick` ""quote"" 'q'
) string
As	`doc`
    , @tag(
1 ) match As
    as	trueish
    //	t
    {
    [ ""`tick`""
    // trailing space 
    ] :charz,  ""packet"": asx , 42  :
packetx, [ ""a\\"" ] :
u }
,
}
/// triple
")).
Eval vm_compute in ("<<<M1361>>>" ++ check (runes_of_ascii "options

{  FixedStringPadFromLeft
= true
	;
FixedStringPadChar = '0' ;}packet

Leg{ repeat InSym93
	{

zchar[
3
]
	Acct,
string
Side2 , i32 Flags
    ,f32
	Note ,i32 msgKind ,

    }	, f64
Note	, uint16	Px

    , }
packet
	Quote {zchar[2] 
OrderId	, 
}
	packet Ack{ repeat	string
lastPx 
, 
zchar[4 
]price , uint32 OrderId
	,	Quote,

    int8

    Acct

    ,

} packet	Fill

    {repeat
    Leg
    ,

    @rightPad

    (
	'0' 
)	char[

11 ]	Note , 
f64  Px ,

@rightPad  (	'\x00'

    )	char[  5
] Flags 
, 
zchar[
9]
x

    ,string 
msgKind ,
} root
    packet Order	{	Leg , repeat Ack 
,
@rightPad (
    '\x00')
char[
3  ] Side2,

    repeat
    char[ 
1
]

    seqNo

,	u16

    clOrdID
    ,
match
    clOrdID

as Body
	{ 198 
: Leg,

    23
:
	Quote
	, 13 
:
Ack ,159
:
	Fill
,
	}	,	u32	venue

@calculatedFrom( 
""CRC32"" 
)
    ,

}")).
Eval vm_compute in ("<<<M322>>>" ++ check (runes_of_ascii "packet leftPad { //
i8 stringy @calculatedFrom( """ ++ [128512]%N ++ runes_of_ascii """	) , int@calculatedFrom(
// c
// " ++ [128512]%N ++ runes_of_ascii " emoji
""a	b"" )
`it's` ,
    @leftPad () @tag( 0123456789
    )int32 u8x , @lengthOf(A )float64	u128	@calculatedFrom(
    ""a\\"" ), //x
} options { //x
Pad = 0 u =
    ' ' }MetaData
    a1 { char[]
metadata	`// not a comment`
    // @lengthOf(
    ,
}	packet
Foo { @tag(
42 )	repeat BodyLength ,
    int8 metadata`{ , }` ,@leftPad ( // c
)// " ++ [27880; 37322]%N ++ runes_of_ascii "
@calculatedFrom(//
""`tick`""
    ) @calculatedFrom(	""a	b""	) u32 stringy , @lengthOf( roots ) zchar[ 0 ] msg_type @lengthOf( i64_
)`tab	here`	,i8 Header	`{ , }`
, char[ 7
] trueish @lengthOf(	packetx
    )
, u64	charz `
`
    ,
    zchar[
//	t
// c
65535]
repeatCount
`it's`
    ,match // @lengthOf(
calculatedFrom as calculatedFrom  {""a	b""
: roots 42	: MetaDataX	,
},
}")).
Eval vm_compute in ("<<<M1550>>>" ++ check (runes_of_ascii "// trailing space 
options {
    f32a = false;
    stringy = true;
    u = ""\" ++ [233]%N ++ runes_of_ascii """;
    stringy = false;
}

packet options1 {
}

MetaData packetx {
    f32 uint8x,
}

root packet zchar {
    @tag(4294967296)
    @lengthOf(a1)
    i8 _x `it's`,//x
    char[] o,
    body,
    zchar[65535] msg_type `crlf
        line`,
    repeat BodyLength {
        repeat char[65535] stringy,
    },
    @calculatedFrom(""" ++ [128512]%N ++ runes_of_ascii """)
    @tag(10)
    repeat f32 lengthOf `line1
        line2`,
    repeat u {
        uint32 Z9_,//
        repeat body `
                `,
    },
    @tag(4294967296)
    i64_ @lengthOf(tag),
    @lengthOf(float)
    @lengthOf(packetx)
    @calculatedFrom(""" ++ [128512]%N ++ runes_of_ascii """)
    repeat x_y_z u,
    @tag(65535)
    u8 A,
}//")).
Eval vm_compute in ("<<<M1424>>>" ++ check (runes_of_ascii "options {
}

packet u8x {
    string uint8x @calculatedFrom(""{,}"") `crlf
        line`,
}

MetaData falsey {
    Logon packetx `tab	here`,
}

root packet o {
    falsey @calculatedFrom(""" ++ [28040; 24687]%N ++ runes_of_ascii """),
    @tag(0123456789)
    // `tick` ""quote"" 'q'
    char[0123456789] u128 @calculatedFrom(""{,}""),
    @tag(00)
    @lengthOf(stringy)
    @tag(4294967296)
    rootA Header,
    @lengthOf(As)
    repeat leftPad `// not a comment`,
    i8 leftPad @calculatedFrom(""""),
    @tag(10)
    zchar[007] packetx @lengthOf(u8x) `" ++ [28040; 24687; 31867; 22411]%N ++ runes_of_ascii "`,
}

packet options1 {
    //	t
    // trailing space 
    falsey {
        //	t
        zchar[3] roots,
        u32 Header,
    },// a // b
}")).
Eval vm_compute in ("<<<M305>>>" ++ check (runes_of_ascii "packet
pack{ u8 x ,
char[
    255 ]trueish
@calculatedFrom(
""// no comment"" ) `tab	here`,	@lengthOf( asx) repeat //
zchar[
0
] stringy `
`, @leftPad( '0' ) @calculatedFrom( // trailing space 
""abc"" )
    @calculatedFrom( ""it's""
) char[] packetx@calculatedFrom( ""a	b"" ) `doc` , repeat string len
    `two words`
, uint16 matchKey
    @lengthOf(
    asx ) ,zchar[ 0 ]
x `it's` // trailing space 
, }
    packet packetx {body  , string trueish `" ++ [233]%N ++ runes_of_ascii "` , @tag(255 )
@tag(
3
// packet A { u8 x, }
//	t
) @calculatedFrom(
    ""\n"" ) repeat f64 roots// trailing space 
`" ++ [233]%N ++ runes_of_ascii "`	, /// triple
} 	 ")).
Eval vm_compute in ("<<<M1553>>>" ++ check (runes_of_ascii "options {
    StringPrefixLenType = u8;
    ArrayPrefixLenType = u8;
    FixedStringPadFromLeft = false;
    FixedStringPadChar = ' ';
}

packet Ack {
    char[] tag7,
}

packet Reject {
    InSym61 {
        repeat Ack,
        zchar[4] f1,
    },
}

packet Logout {
    char[4] clOrdID,
}

root packet Cancel {
    @leftPad(' ')
    char[10] price,
    u8 x,
    u32 venue @lengthOf(Body),
    match x as Body {
        [92, 175] : Logout,
        26 : Reject,
        144 : Ack,
    },
    u16 count @calculatedFrom(""CRC32""),
}")).
Eval vm_compute in ("<<<M193>>>" ++ check (runes_of_ascii "
root packet lengthOf{
    char[ 3 ] Pad ,	@rightPad
    (  '0'
)
    crc `doc` ,i32 //x
uint8x
,	zchar { match Logon  as int { [ 0 , """ ++ [233]%N ++ runes_of_ascii "t" ++ [233]%N ++ runes_of_ascii """] :o , ""// no comment"" :len ,
} , asx
{
    //x
    char[	10 ]
u128 // a // b
@lengthOf(  x_y_z)`say ""hi""`, }
/// triple
//
, char[
1 ] A, u// c
chars
    `` , }, repeat matchKey
{ //x
string trueish@calculatedFrom(
    ""a	b""  )  , repeat
    // packet A { u8 x, }
    i8 msg_type `it's` ,	} , /// triple
}
packet float { }")).
Eval vm_compute in ("<<<M1140>>>" ++ check (runes_of_ascii "// top
MetaData
    // c0
leftPad // c1
{
    // c2
chars // c3a
  // c3b
MetaDataX // c4
, // c5a
  // c5b
} packet // c7a
  // c7b
repeatCount // c8
{ char[
    // c10
255 // c11a
  // c11b
] // c12a
  // c12b
uint8x
    // c13
`" ++ [233]%N ++ runes_of_ascii "` // c14a
  // c14b
,
    // c15
} // c16a
  // c16b
MetaData // c17a
  // c17b
pack // c18
{ // c19a
  // c19b
As // c20a
  // c20b
Foo
    // c21
,
    // c22
} // c23a
  // c23b
")).
Eval vm_compute in ("<<<M114>>>" ++ check (runes_of_ascii "packet
a1 {@calculatedFrom(""`tick`"" ) uint32 charz	`crlf
line` ,
// c
//x
a1 `tab	here`, }
    options
    {
// " ++ [27880; 37322]%N ++ runes_of_ascii "
// " ++ [128512]%N ++ runes_of_ascii " emoji
stringy =
// c
// a // b
255 ;
    metadata =	4294967296 pack
    = /// triple
string	; crc= string
    ; }  root  packet
crc	{ @tag(  42  )
@calculatedFrom( ""abc""  )
@rightPad ( '0'
) u128 u8x
/// triple
//x
,@lengthOf(len) uint16 int, }
")).
Eval vm_compute in ("<<<M127>>>" ++ check (runes_of_ascii "packet a1{ @leftPad ( ) float
@lengthOf(
uint8x ) , }
packet Logon {
char Logon
@calculatedFrom( ""a\\"" )
    ,T stringy ,
//
// c
repeat uint8 stringy `two words` , } MetaData charz{ u
    tag
    `
`
, a1 falsey ,//x
Z9_
matchKey , f64 lengthOf	`a\` // @lengthOf(
,
    f32a roots
    ``
,float64
    x_y_z // @lengthOf(
, }
")).
Eval vm_compute in ("<<<M1376>>>" ++ check (runes_of_ascii "options {
    LittleEndian = true;
}
packet Logon {
    u8 x,
}
packet Logout {
    u16 reason,
}
root packet Frame {
    i8 Kind,
    i8 Kind2,
    match Kind as Body {
        1 : Logon,
        [2, 3, 4] : Logout,
        100 : Logon,
    },
    match Kind2 as Trailer {
        0 : Logout,
    },
}
")).
Eval vm_compute in ("<<<M222>>>" ++ check (runes_of_ascii "packet
body// @lengthOf(
{ @lengthOf(
T
    // " ++ [27880; 37322]%N ++ runes_of_ascii "
    ) @lengthOf(
int ) @leftPad ( '\x00')
asx//x
len
,
repeat	zchar[ 3] int `" ++ [28040; 24687; 31867; 22411]%N ++ runes_of_ascii "` ,@lengthOf(
    // @lengthOf(
    options1)match
    x
    as //x
leftPad // @lengthOf(
{
7
:
x_y_z , 65535:  u128 , 42 : x ,} , //
}")).
Eval vm_compute in ("<<<M1306>>>" ++ check (runes_of_ascii "// top
packet // c0a
  // c0b
orderItem // c1a
  // c1b
{ u8 // c3
a // c4
, // c5a
  // c5b
}
    // c6
root packet // c8a
  // c8b
newOrder // c9a
  // c9b
{ orderItem // c11
, u8
    // c13
x // c14a
  // c14b
,
    // c15
} // c16
")).
Eval vm_compute in ("<<<M1436>>>" ++ check (runes_of_ascii "
packet
    A
{
u8
a  ,

    } packet	B

    { u16 b
, }root  packet 
P
{  u8
    K1 ,
	u8

K2 
,match

    K1
    as M1

{
    1

:

A 
,
} ,
match
K2 as
M2 {

    1
:B, 
}

,

    }
")).
Eval vm_compute in ("<<<M1405>>>" ++ check (runes_of_ascii "
MetaData
	stringy { zchar[ 10	] crc,}	packet

u128
    {
repeat	uint16	BodyLength
`// not a comment`

    , @lengthOf(	falsey  )  _x
	,

    char[
	42
] i8i8,

    }
")).
Eval vm_compute in ("<<<M1535>>>" ++ check (runes_of_ascii "  MetaData
	leftPad

{
chars 	 // c
	MetaDataX
    ,  }
	packet
repeatCount

    { 
char[
255
]

    uint8x
`" ++ [233]%N ++ runes_of_ascii "`
    ,}

    MetaData
	pack
{As  Foo , }
")).
Eval vm_compute in ("<<<M1714>>>" ++ check (runes_of_ascii "MetaData	repeatCount // c
	{
    char[

    42 // " ++ [27880; 37322]%N ++ runes_of_ascii "

	]
	    // " ++ [128512]%N ++ runes_of_ascii " emoji
	  MetaDataX, 
    // @lengthOf(
  zchar[

// " ++ [27880; 37322]%N ++ runes_of_ascii "
    //x
  0
	] 
asx
	, 
} ")).
Eval vm_compute in ("<<<M496>>>" ++ check (runes_of_ascii "packet uint8x
{ match pack
    as msg_type	{
    0123456789 :	float
}
,
} packet //	t
a1
    { } options {packetx
    = = '\x00'	; u128= ""a	b""  ; }
")).
Eval vm_compute in ("<<<M412>>>" ++ check (runes_of_ascii "packet uint8x
{ match as
    pack msg_type	{
    0123456789 :	float
}
,
} packet //	t
a1
    { } options {packetx
    = '\x00'	; u128= ""a	b""  ; }
")).
Eval vm_compute in ("<<<M400>>>" ++ check (runes_of_ascii "packet uint8x
 match pack
    as msg_type	{
    0123456789 :	float
}
,
} packet //	t
a1
    { } options {packetx
    = '\x00'	; u128= ""a	b""  ; }
")).
Eval vm_compute in ("<<<M1542>>>" ++ check (runes_of_ascii "options {
    f32a = ""a\""b"";
    Z9_ = ""`tick`""
    Logon = ""CRC32""
    u128 = f64;
    rootA = false;
}//	t

packet lengthOf {
}

MetaData len {
}")).
Eval vm_compute in ("<<<M551>>>" ++ check (runes_of_ascii "packet uint8x
{ match pack
    as " ++ [21517; 23383]%N ++ runes_of_ascii "	{
    0123456789 :	float
}
,
} packet //	t
a1
    { } options {packetx
    = '\x00'	; u128= ""a	b""  ; }
")).
Eval vm_compute in ("<<<M137>>>" ++ check (runes_of_ascii "
packet u128//x
{ @calculatedFrom(  ""x y""
    ) // `tick` ""quote"" 'q'
@rightPad (  ' ') char[ 42 ]  Header
    @calculatedFrom( ""abc"" ),  }

")).
Eval vm_compute in ("<<<M686>>>" ++ check (runes_of_ascii "// @lengthOf(
packet i8i8 { u128 o , }
options { f64 = true;
    BodyLength =""packet"" x_y_z= 007
crc //x
= ""abc"" ;
    msg_type =
i16 }")).
Eval vm_compute in ("<<<M304>>>" ++ check (runes_of_ascii "packet
    // " ++ [27880; 37322]%N ++ runes_of_ascii "
    Logon {
repeatCount @lengthOf( roots ) , @tag(0) repeat zchar[007] crc , rootA a1 `{ , }` , string_ `" ++ [233]%N ++ runes_of_ascii "`
,  }
")).
Eval vm_compute in ("<<<M1258>>>" ++ check (runes_of_ascii "packet B {
    u8 a,
}
root packet P {
    u8 K,
    u8 L @lengthOf(Body),
    match K as Body {
        1 : B,
    },
}
")).
Eval vm_compute in ("<<<M1162>>>" ++ check (runes_of_ascii "MetaData leftPad { chars MetaDataX , } packet repeatCount {
// c
char[ 255 ] uint8x `" ++ [233]%N ++ runes_of_ascii "` , } MetaData pack { As Foo , }")).
Eval vm_compute in ("<<<M938>>>" ++ check (runes_of_ascii "packet A {
    Inner {
        u8 x `a
    b
  c`,
        Deep {
            u8 y `a
    b
  c`,
        },
    },
}")).
Eval vm_compute in ("<<<M943>>>" ++ check (runes_of_ascii "packet A {
    u16 len @lengthOf(body) `a

b`,
    u32 crc @calculatedFrom(""CRC32"") `a

b`,
    string body,
}")).
Eval vm_compute in ("<<<M1621>>>" ++ check (runes_of_ascii "options  { LittleEndian

=	true
	;
} 
root

    packet

P

{
    repeat
char
	cs  ,  u8

    x
, } ")).
Eval vm_compute in ("<<<M1719>>>" ++ check (runes_of_ascii "
root	packet
	SimpleMessage

    {

uint16  MsgType `" ++ [28040; 24687; 31867; 22411]%N ++ runes_of_ascii "`, string

JsonBody
	`Json" ++ [23383; 31526; 20018; 28040; 24687; 20307]%N ++ runes_of_ascii "`,
    }
")).
Eval vm_compute in ("<<<M905>>>" ++ check (runes_of_ascii "packet A {
  match k as n {
    [1, 22, 007, 4, 5, 66, 7, 8, 9, 10, 11, 12] : B
    2 : C
  },
}")).
Eval vm_compute in ("<<<M635>>>" ++ check (runes_of_ascii "
packet
    asx {'1'match u128 as lengthOf
{
//	t
// `tick` ""quote"" 'q'
255 : x ,
    } ,	}")).
Eval vm_compute in ("<<<M637>>>" ++ check (runes_of_ascii "
~packet
    asx {match u128 as lengthOf
{
//	t
// `tick` ""quote"" 'q'
255 : x ,
    } ,	}")).
Eval vm_compute in ("<<<M587>>>" ++ check (runes_of_ascii "
packet
    asx {match u128 as lengthOf

//	t
// `tick` ""quote"" 'q'
255 : x ,
    } ,	}")).
Eval vm_compute in ("<<<M572>>>" ++ check (runes_of_ascii "
packet
    asx {match  as lengthOf
{
//	t
// `tick` ""quote"" 'q'
255 : x ,
    } ,	}")).
Eval vm_compute in ("<<<M832>>>" ++ check (runes_of_ascii "packet A {
  match k as n {
    [""a"", 22, ""c c"", 4, ""e"", 66] : B,
    2 : C
  },
}")).
Eval vm_compute in ("<<<M819>>>" ++ check (runes_of_ascii "packet A {
  match k as n {
    [""a"", 22, ""c c"", 4, ""e""] : B,
    2 : C
  },
}")).
Eval vm_compute in ("<<<M811>>>" ++ check (runes_of_ascii "packet A {
  match k as n {
    [""a"", ""bb"", 007, ""d""] : B
    2 : C
  },
}")).
Eval vm_compute in ("<<<M808>>>" ++ check (runes_of_ascii "packet A {
  match k as n {
    [1, 22, ""c c"", 4] : B,
    2 : C
  },
}")).
Eval vm_compute in ("<<<M942>>>" ++ check (runes_of_ascii "packet A {
    B b `a

b`,
    B `a

b`,
    repeat B bs `a

b`,
}")).
Eval vm_compute in ("<<<M1126>>>" ++ check (runes_of_ascii "// top
MetaData
    // c0
u
    // c1
{
    // c2
}
    // c3
")).
Eval vm_compute in ("<<<M1929>>>" ++ check (runes_of_ascii "
// top

	packet  // c0
	x	// c1
    {  // c2
	}  // c3
")).
Eval vm_compute in ("<<<M159>>>" ++ check (runes_of_ascii "root packet x  { roots @calculatedFrom(""a\""b"" ) , }")).
Eval vm_compute in ("<<<M375>>>" ++ check (runes_of_ascii "options {Foo = '0'	;	Pad = '0';	crc ='0' ; //	t
}")).
Eval vm_compute in ("<<<M957>>>" ++ check (runes_of_ascii "MetaData M {
    u8 x `
x`,
    T t `
x`,
}")).
Eval vm_compute in ("<<<M1541>>>" ++ check (runes_of_ascii "root packet P {
    char c,
    u8 x,
}")).
Eval vm_compute in ("<<<M946>>>" ++ check (runes_of_ascii "root packet A {
    u8 x `a

b`,
}")).
Eval vm_compute in ("<<<M586>>>" ++ check (runes_of_ascii "
packet
    asx {match u128 as")).
Eval vm_compute in ("<<<M1840>>>" ++ check (runes_of_ascii "// top
MetaData tag {
}// c3")).
Eval vm_compute in ("<<<M1634>>>" ++ check (runes_of_ascii "  packet
	A{ } 

// c" ++ [12288]%N ++ runes_of_ascii "
")).
Eval vm_compute in ("<<<M1787>>>" ++ check (runes_of_ascii "
// only a comment
 
")).
Eval vm_compute in ("<<<M744>>>" ++ check (runes_of_ascii "`" ++ [28040; 24687; 31867; 22411]%N ++ runes_of_ascii "` '0' options")).
Eval vm_compute in ("<<<M1056>>>" ++ check (runes_of_ascii "packet A {
}
// c" ++ [6158]%N)).
Eval vm_compute in ("<<<M1224>>>" ++ check (runes_of_ascii "// c
packet x { }")).
Eval vm_compute in ("<<<M740>>>" ++ check (runes_of_ascii ", = , ; int16")).
Eval vm_compute in ("<<<M1000>>>" ++ check (runes_of_ascii "// c" ++ [8192]%N)).
Eval vm_compute in ("<<<M727>>>" ++ check (runes_of_ascii "")).
