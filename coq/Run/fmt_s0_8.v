From FP Require Import Lexer Parser ShowPT Digest Formatter.
From Coq Require Import String List NArith.
Import ListNotations.
Open Scope string_scope.
Set Printing Width 100000000.
Set Printing Depth 100000000.
Definition show_fres (r : fres) : string :=
  match r with
  | FOk s => "OK:" ++ sh_escaped s ""
  | FErr s => "ERR:" ++ sh_escaped s ""
  | FPanic p => "PANIC:" ++ p
  end.
Definition check (rs : list rune) : string := digest (show_fres (format_res rs)).
Definition full (rs : list rune) : string := show_fres (format_res rs).
Eval vm_compute in ("<<<M1361>>>" ++ check (runes_of_ascii "options { // c1a
  // c1b
StringPrefixLenType =
    // c3
u8 // c4
; ArrayPrefixLenType // c6a
  // c6b
= u32 // c8a
  // c8b
; // c9
FixedStringPadFromLeft // c10
=
    // c11
true // c12
; FixedStringPadChar // c14
= // c15a
  // c15b
' ' // c16a
  // c16b
; // c17a
  // c17b
} // c18a
  // c18b
packet // c19a
  // c19b
Leg
    // c20
{
    // c21
} // c22a
  // c22b
packet
    // c23
Heartbeat
    // c24
{ // c25a
  // c25b
zchar[ // c26
6 // c27a
  // c27b
] msgKind ,
    // c30
@rightPad // c31
(
    // c32
'0' // c33a
  // c33b
)
    // c34
char[ // c35a
  // c35b
3
    // c36
] Qty
    // c38
, // c39a
  // c39b
zchar[ // c40
9 // c41a
  // c41b
] // c42a
  // c42b
Side2 // c43a
  // c43b
, // c44
i8 // c45a
  // c45b
Acct
    // c46
, } // c48
packet Logout // c50a
  // c50b
{ // c51
int8 // c52
x
    // c53
, // c54
} packet
    // c56
Order { // c58a
  // c58b
char[] // c59a
  // c59b
Acct
    // c60
, // c61
zchar[ // c62
8 ] // c64
count // c65a
  // c65b
,
    // c66
u32 // c67
OrderId // c68a
  // c68b
, // c69
uint8 // c70a
  // c70b
lastPx // c71
, u16 clOrdID // c74
, // c75a
  // c75b
zchar[ // c76
7 ] Note
    // c79
, // c80a
  // c80b
} root // c82
packet
    // c83
Reject
    // c84
{ // c85a
  // c85b
@leftPad (
    // c87
' '
    // c88
)
    // c89
char[ // c90a
  // c90b
8 // c91
] // c92
Side2 ,
    // c94
i8
    // c95
clOrdID // c96a
  // c96b
, // c97
repeat // c98a
  // c98b
f32 // c99a
  // c99b
x // c100a
  // c100b
, // c101
u32 lastPx // c103a
  // c103b
,
    // c104
match // c105a
  // c105b
lastPx // c106
as Body // c108a
  // c108b
{
    // c109
[
    // c110
30 , // c112a
  // c112b
147 // c113a
  // c113b
]
    // c114
: // c115a
  // c115b
Heartbeat
    // c116
, 134 : Leg // c120
,
    // c121
183
    // c122
:
    // c123
Logout , // c125
40 // c126a
  // c126b
: Order // c128
, } // c130
, // c131
u16 Ref // c133a
  // c133b
@calculatedFrom( // c134
""CRC32""
    // c135
) , } // c138
")).
Eval vm_compute in ("<<<M1866>>>" ++ check (runes_of_ascii "// @lengthOf(
packet A {
    repeat rootA {
        repeat o,
        BodyLength i64_ `// not a comment`,
        repeatCount @calculatedFrom(""it's""),
    },
    //x
    //x
    @tag(0)
    falsey @lengthOf(BodyLength),
    @leftPad()
    @calculatedFrom(""1"")
    @lengthOf(int)
    match trueish as body {
        [
            007, 7, ""abc"", ""x y"", 00,
            ""// no comment"", 255, 1
        ] : body,
    },
    @lengthOf(Pad)
    metadata @calculatedFrom(""it's""),
    // `tick` ""quote"" 'q'
    @leftPad()
    @calculatedFrom(""" ++ [233]%N ++ runes_of_ascii "t" ++ [233]%N ++ runes_of_ascii """)
    char falsey `" ++ [233]%N ++ runes_of_ascii "`,
    char[007] metadata @lengthOf(chars),
    @rightPad('0')
    u8 roots @calculatedFrom(""packet""),
    string_ MetaDataX,
    @lengthOf(Z9_)
    @leftPad('\x00')
    /// triple
    @rightPad(' ')
    MetaDataX `two words`,
    zchar[0] body `line1
    line2`,
}

packet uint8x {
    @rightPad('0')
    //	t
    char[] stringy,
    MetaDataX Z9_,
    i8 Logon,
}

root packet u {
    int64 Z9_,
    zchar[00] string_ `" ++ [28040; 24687; 31867; 22411]%N ++ runes_of_ascii "`,
    @calculatedFrom(""a\""b"")
    @tag(3)
    @rightPad('0')
    repeat u32 packetx `two words`,
    char[42] string_,
    repeat Header lengthOf,
}

options {
}

packet Header {
    @rightPad()
    metadata {
        char[65535] o,
        repeat x {
            char[4294967296] options1,
        },
        roots Header,
    },
}")).
Eval vm_compute in ("<<<M1792>>>" ++ check (runes_of_ascii "// trailing space 
packet charz {
    @calculatedFrom(""1"")
    match x as tag {
        [
            7, 0, 65535, ""it's"", 0,
            ""x y"", 255
        ] : tag,
        [
            ""1"", 3, 007,
            255, ""x y""
        ] : pack,
        [
            """ ++ [233]%N ++ runes_of_ascii "t" ++ [233]%N ++ runes_of_ascii """, 7, 10, 3, 0,
            ""a\""b""
        ] : leftPad,
        [65535, ""x y""] : chars,
        [""\n"", 65535, ""a\\""] : A,
        ""\n"" : lengthOf,
    },
    match string_ as i8i8 {
        7 : msg_type,
        // c
        ""abc"" : tag,
        ""a\""b"" : metadata,
        255 : matchKey,
        [
            ""CRC32"", ""1"", 007, ""packet"", ""a\\"",
            ""a\""b"", 007, 4294967296
        ] : lengthOf,
    },
    uint16 pack,
    string Pad @lengthOf(o) `say ""hi""`,
    repeat i8 body,
    @lengthOf(crc)
    float64 body `// not a comment`,
    repeat rootA {
        int16 x_y_z `tab	here`,
        falsey @calculatedFrom(""{,}""),
        trueish @lengthOf(crc) `{ , }`,
    },
    match Pad as Header {
        4294967296 : Header,
        ""\n"" : msg_type,
        ""a	b"" : x_y_z,
    },
    //	t
    Logon,
}")).
Eval vm_compute in ("<<<M1338>>>" ++ check (runes_of_ascii "options {
    FixedStringPadFromLeft = true;
    FixedStringPadChar = '0';
}
packet Leg {
    InPrice0 {
        repeat string clOrdID,
        int16 msgKind,
        zchar[5] Px,
    },
    i16 f1,
    repeat f64 Side2,
    string Acct,
}
packet Cancel {
    zchar[4] clOrdID,
    string seqNo,
    Leg,
    @leftPad('0') char[11] OrderId,
}
packet Quote {
    repeat char[4] sym,
    f64 OrderId,
    repeat Leg,
    repeat i64 f1,
    int16 Note,
    zchar[3] count,
}
root packet Ack {
    @leftPad(' ') char[10] sym,
    InPx60 {
        Cancel,
        repeat char[1] f1,
        string Tail,
        repeat InNote55 {
            int8 count,
            f64 f1,
            repeat Cancel,
        },
        char[] tag7,
        repeat string msgKind,
    },
    u8 lastPx,
    match lastPx as Body {
        152 : Quote,
        173 : Cancel,
        4 : Leg,
    },
    u16 Ref @calculatedFrom(""CRC32""),
}
")).
Eval vm_compute in ("<<<M1368>>>" ++ check (runes_of_ascii "options {
    FixedStringPadFromLeft = true;
    FixedStringPadChar = '0';
}
packet Leg {
    repeat InSym93 {
        zchar[3] Acct,
        string Side2,
        i32 Flags,
        f32 Note,
        i32 msgKind,
    },
    f64 Note,
    uint16 Px,
}
packet Quote {
    zchar[2] OrderId,
}
packet Ack {
    repeat string lastPx,
    zchar[4] price,
    uint32 OrderId,
    Quote,
    int8 Acct,
}
packet Fill {
    repeat Leg,
    @rightPad('0') char[11] Note,
    f64 Px,
    @rightPad('\x00') char[5] Flags,
    zchar[9] x,
    string msgKind,
}
root packet Order {
    Leg,
    repeat Ack,
    @rightPad('\x00') char[3] Side2,
    repeat char[1] seqNo,
    u16 clOrdID,
    match clOrdID as Body {
        198 : Leg,
        23 : Quote,
        13 : Ack,
        159 : Fill,
    },
    u32 venue @calculatedFrom(""CRC32""),
}
")).
Eval vm_compute in ("<<<M1117>>>" ++ check (runes_of_ascii "// top
MetaData
    // c0
Packet
    // c1
{
    // c2
}
    // c3
packet
    // c4
charz
    // c5
{
    // c6
Foo
    // c7
asx
    // c8
`it's`
    // c9
,
    // c10
@lengthOf(
    // c11
T
    // c12
)
    // c13
@calculatedFrom(
    // c14
""""
    // c15
)
    // c16
@calculatedFrom(
    // c17
""x y""
    // c18
)
    // c19
zchar[
    // c20
007
    // c21
]
    // c22
repeatCount
    // c23
@lengthOf(
    // c24
int
    // c25
)
    // c26
`a\`
    // c27
,
    // c28
i8
    // c29
string_
    // c30
,
    // c31
repeat
    // c32
options1
    // c33
Pad
    // c34
,
    // c35
}
    // c36
root
    // c37
packet
    // c38
Packet
    // c39
{
    // c40
int8
    // c41
float
    // c42
`doc`
    // c43
,
    // c44
}
    // c45
")).
Eval vm_compute in ("<<<M1327>>>" ++ check (runes_of_ascii "// top
packet
    // c0
Logon { // c2a
  // c2b
string // c3a
  // c3b
user
    // c4
, // c5a
  // c5b
} // c6a
  // c6b
root
    // c7
packet Frame // c9a
  // c9b
{ // c10
u8
    // c11
K // c12
,
    // c13
match // c14
K // c15
as // c16
Body
    // c17
{
    // c18
1 :
    // c20
Logon // c21
, // c22a
  // c22b
2 // c23
: // c24a
  // c24b
Logout // c25a
  // c25b
,
    // c26
} // c27
, // c28a
  // c28b
Tail , // c30a
  // c30b
} // c31a
  // c31b
packet
    // c32
Logout // c33a
  // c33b
{ // c34a
  // c34b
u16 // c35a
  // c35b
reason
    // c36
, }
    // c38
packet
    // c39
Tail
    // c40
{
    // c41
u32 crc
    // c43
, // c44
} // c45a
  // c45b
")).
Eval vm_compute in ("<<<M1894>>>" ++ check (runes_of_ascii "root packet lengthOf {
    // a // b
    match i64_ as options1 {
        ""// no comment"" : f32a,
        65535 : falsey,
    },
    @tag(0)
    char[] body @lengthOf(lengthOf),
    u64 string_ `it's`,
    @lengthOf(string_)
    crc {
        repeat zchar[3] u,
        pack `a\`,
        char[] crc ``,
    },
    int16 metadata `line1
        line2`,
}

root packet leftPad {
    repeat zchar[4294967296] MetaDataX,
    @tag(10)
    match tag as falsey {
        7 : BodyLength,
        0 : i64_,
    },
    repeat char[255] A,
    char[7] trueish @calculatedFrom(""a\\"") `two words`,
    i16 Logon,
}")).
Eval vm_compute in ("<<<M66>>>" ++ check (runes_of_ascii "packet	int {// @lengthOf(
repeat
string
    BodyLength
    `a\`
    , } packet repeatCount { @lengthOf( x_y_z ) crc ,
    match Packet as
Z9_{""// no comment"" :MetaDataX ,
//	t
// a // b
[  00, 7]: chars ,""CRC32""
    : zchar 42: stringy //	t
, [ ""a\""b"",""1""// a // b
] : u ,
},
@rightPad
( ' ' )
@lengthOf( i64_//x
)
    repeat
f64
x `two words`
    , @calculatedFrom(""`tick`""	) int64 falsey @lengthOf(//x
u128 ) , charz
    {
    //x
    char[]
    T
// c
// " ++ [27880; 37322]%N ++ runes_of_ascii "
`a\` ,
}
,@lengthOf(
    u8x)string_, repeat
// " ++ [128512]%N ++ runes_of_ascii " emoji
//	t
x
    , }
")).
Eval vm_compute in ("<<<M1511>>>" ++ check (runes_of_ascii "root packet Logon {
    @calculatedFrom("""")
    @lengthOf(int)
    @tag(3)
    match _x as i64_ {
        10 : asx,
        // `tick` ""quote"" 'q'
        /// triple
        """ ++ [128512]%N ++ runes_of_ascii """ : crc,
        [0, 007] : float,
        // trailing space 
    },
    repeat uint16 leftPad,
}

// " ++ [27880; 37322]%N ++ runes_of_ascii "
packet charz {
}

MetaData int {
    //
    // trailing space 
    zchar[4294967296] matchKey,
    asx rootA `doc`,
    Foo string_ `// not a comment`,
    char[] u8x,// `tick` ""quote"" 'q'
    roots float,
}")).
Eval vm_compute in ("<<<M1375>>>" ++ check (runes_of_ascii "options {
    LittleEndian = true;
    StringPrefixLenType = u64;
    ArrayPrefixLenType = u16;
    FixedStringPadFromLeft = false;
    FixedStringPadChar = ' ';
}
packet Logon {
    zchar[5] Side2,
}
root packet Logout {
    repeat i64 Tail,
    Logon,
    repeat i16 OrderId,
    char[] venue,
    uint64 x,
    repeat i16 count,
    u8 Flags,
    match Flags as Body {
        25 : Logon,
    },
    u16 Qty @calculatedFrom(""CR\
C32""),
}
")).
Eval vm_compute in ("<<<M1640>>>" ++ check (runes_of_ascii "

  packet

    BodyLength {repeatCount// packet A { u8 x, }
`// not a comment` ,
	@lengthOf(	lengthOf )	@tag(65535 
) 
@rightPad 
( 
// @lengthOf(
	  //	t
'0'

)	/// triple
	  u8
	Logon
,
} packet  chars
	{ 
o msg_type	, @tag(
	10

    )
zchar[	65535]
f32a

    ,repeat char[]  i64_
	`
`

    ,	} root  packet
	f32a{
    @tag(

    255

    ) 
repeat u8

    stringy 
, 
}

")).
Eval vm_compute in ("<<<M15>>>" ++ check (runes_of_ascii "MetaData // c
u128{
    }MetaData
    a1 {
}
    root packet	o {	char[
10 ]  stringy @lengthOf( Z9_) ,
match
x_y_z as stringy
{	3
: float ,
    } , @leftPad //	t
( ' '
    ) u128 {	repeat i32 msg_type `crlf
line` , x	, repeat char[	65535
] T, match
    A as
i8i8 { """ ++ [128512]%N ++ runes_of_ascii """ : Logon
, } //
, } ,
@rightPad (  '\x00') repeat x_y_z options1 `two words` , }
")).
Eval vm_compute in ("<<<M1191>>>" ++ check (runes_of_ascii "// top
MetaData // c0
uint8x // c1
{ // c2
char[] // c3
f32a // c4
`// not a comment` // c5
, // c6
float32 // c7
roots // c8
, // c9
char[ // c10
7 // c11
] // c12
u8x // c13
, // c14
zchar[ // c15
10 // c16
] // c17
f32a // c18
, // c19
u64 // c20
pack // c21
, // c22
u16 // c23
pack // c24
, // c25
} // c26
")).
Eval vm_compute in ("<<<M215>>>" ++ check (runes_of_ascii "root	packet
    i8i8 { @tag( // c
4294967296 )
    // packet A { u8 x, }
    Header  calculatedFrom `
`
, @tag(4294967296 )
@rightPad ( ' '
    )
@lengthOf( float )
    options1 zchar `" ++ [233]%N ++ runes_of_ascii "`
//x
/// triple
,}	root packet
    // " ++ [128512]%N ++ runes_of_ascii " emoji
    x {repeat
zchar[  10 ]	x`u8 x,`,
    }")).
Eval vm_compute in ("<<<M242>>>" ++ check (runes_of_ascii "packet len{} options	{ Z9_ =  4294967296;
_x =// a // b
0
    f32a = zchar[42	] ; } root packet
    // @lengthOf(
    BodyLength // trailing space 
{ }options {
string_ =u32	;	charz =
/// triple
// packet A { u8 x, }
string
; } packet len { }")).
Eval vm_compute in ("<<<M364>>>" ++ check (runes_of_ascii "packet  _x
{ repeat char[] matchKey// " ++ [128512]%N ++ runes_of_ascii " emoji
, @leftPad( ) x_y_z/// triple
T , Pad
{ zchar[ 1] rootA `tab	here`
,},Foo
    @calculatedFrom(
    """"
    // trailing space 
    ),
}	packet MetaDataX {
float64 body, }
")).
Eval vm_compute in ("<<<M265>>>" ++ check (runes_of_ascii "MetaData
    zchar
{
uint8 _x
// `tick` ""quote"" 'q'
//
`doc` ,
    float64 metadata`doc` // " ++ [128512]%N ++ runes_of_ascii " emoji
, zchar[ 42
    ]
// packet A { u8 x, }
// c
x_y_z , zchar[ 3 ]Logon `{ , }`
, }

")).
Eval vm_compute in ("<<<M1802>>>" ++ check (runes_of_ascii "  packet

    A 
{

match
    k as
n {[ 
""a""  , ""bb""
	,
    ""c c"" , ""d""
    ,
    ""e""

, 
""f"" , ""g"" ,

    ""h""

, 
""i""

,
""j""  ,	""k""
    ]
    :	B  2 
:C}	, } ")).
Eval vm_compute in ("<<<M461>>>" ++ check (runes_of_ascii "packet uint8x
{ match pack
    as msg_type	{
    0123456789 :	float
}
,
} packet packet //	t
a1
    { } options {packetx
    = '\x00'	; u128= ""a	b""  ; }
")).
Eval vm_compute in ("<<<M523>>>" ++ check (runes_of_ascii "packet uint8x
{ match pack
    as msg_type	{
    0123456789 :	float
}
,
} packet //	t
a1
    { } options {packetx
    = '\x00'	; u128= MetaData  ; }
")).
Eval vm_compute in ("<<<M482>>>" ++ check (runes_of_ascii "packet uint8x
{ match pack
    as msg_type	{
    0123456789 :	float
}
,
} packet //	t
a1
    { } { options packetx
    = '\x00'	; u128= ""a	b""  ; }
")).
Eval vm_compute in ("<<<M473>>>" ++ check (runes_of_ascii "packet uint8x
{ match pack
    as msg_type	{
    0123456789 :	float
}
,
} packet //	t
a1
    ] } options {packetx
    = '\x00'	; u128= ""a	b""  ; }
")).
Eval vm_compute in ("<<<M525>>>" ++ check (runes_of_ascii "packet uint8x
{ match pack
    as msg_type	{
    0123456789 :	float
}
,
} packet //	t
a1
    { } options {packetx
    = '\x00'	; u128= ""a	b""   }
")).
Eval vm_compute in ("<<<M520>>>" ++ check (runes_of_ascii "packet uint8x
{ match pack
    as msg_type	{
    0123456789 :	float
}
,
} packet //	t
a1
    { } options {packetx
    = '\x00'	; u128=   ; }
")).
Eval vm_compute in ("<<<M648>>>" ++ check (runes_of_ascii "// @lengthOf(
packet i8i8 { u128 o , }
options { = MetaDataX true;
    BodyLength =""packet"" x_y_z= 007
crc //x
= ""abc"" ;
    msg_type =
i16 }")).
Eval vm_compute in ("<<<M646>>>" ++ check (runes_of_ascii "// @lengthOf(
packet i8i8 { u128 o , }
options { MetaDataX = true;
    BodyLength =""packet"" x_y_z= 
crc //x
= ""abc"" ;
    msg_type =
i16 }")).
Eval vm_compute in ("<<<M16>>>" ++ check (runes_of_ascii "options { }MetaData u8x { uint8x	body`crlf
line`
    //	t
    , calculatedFrom body ,
}
    options  {
} root packet options1
{  }")).
Eval vm_compute in ("<<<M1583>>>" ++ check (runes_of_ascii "options {
}

MetaData u8x {
    uint8x body `crlf
    line`,
    calculatedFrom body,
}

options {
}

root packet options1 {
}")).
Eval vm_compute in ("<<<M1142>>>" ++ check (runes_of_ascii "
// c
MetaData leftPad { chars MetaDataX , } packet repeatCount { char[ 255 ] uint8x `" ++ [233]%N ++ runes_of_ascii "` , } MetaData pack { As Foo , }")).
Eval vm_compute in ("<<<M1169>>>" ++ check (runes_of_ascii "MetaData leftPad { chars MetaDataX , } packet repeatCount { char[ 255 ] uint8x // c
`" ++ [233]%N ++ runes_of_ascii "` , } MetaData pack { As Foo , }")).
Eval vm_compute in ("<<<M499>>>" ++ check (runes_of_ascii "packet uint8x
{ match pack
    as msg_type	{
    0123456789 :	float
}
,
} packet //	t
a1
    { } options {packetx")).
Eval vm_compute in ("<<<M1468>>>" ++ check (runes_of_ascii "
packet
A
	{
	match  k
    as
	n{  [
    1
    ,
22 
,

    007,
    4	, 5
    ] :B ,
    2
:C
}  ,
	}
")).
Eval vm_compute in ("<<<M1639>>>" ++ check (runes_of_ascii "
packet

A
	{
	match
k
	as	n 
{	[1  ,

    ""bb"",  007	,""d""

    , 5 ]:

    B
    2

:C
}

, }

")).
Eval vm_compute in ("<<<M583>>>" ++ check (runes_of_ascii "
packet
    asx {match u128 as lengthOf lengthOf
{
//	t
// `tick` ""quote"" 'q'
255 : x ,
    } ,	}")).
Eval vm_compute in ("<<<M1474>>>" ++ check (runes_of_ascii "

  packet	metadata

{u32 	 // `tick` ""quote"" 'q'

  Packet	`say ""hi""`, 

// trailing space 
} ")).
Eval vm_compute in ("<<<M563>>>" ++ check (runes_of_ascii "
packet
    asx { {match u128 as lengthOf
{
//	t
// `tick` ""quote"" 'q'
255 : x ,
    } ,	}")).
Eval vm_compute in ("<<<M281>>>" ++ check (runes_of_ascii "
packet
    o	{  }
packet
Pad {
BodyLength // trailing space 
, } packet metadata //x
{}")).
Eval vm_compute in ("<<<M1522>>>" ++ check (runes_of_ascii "

  packet A {match  k
as

n
{
[

    ""a"",
22
, ""c c"", 4
, ""e"" ]
	:B

2 : C
}
,

}

")).
Eval vm_compute in ("<<<M567>>>" ++ check (runes_of_ascii "
packet
    asx { u128 as lengthOf
{
//	t
// `tick` ""quote"" 'q'
255 : x ,
    } ,	}")).
Eval vm_compute in ("<<<M1494>>>" ++ check (runes_of_ascii "packet A {
    match k as n {
        [1, 22, ""c c""] : B,
        2 : C,
    },
}")).
Eval vm_compute in ("<<<M826>>>" ++ check (runes_of_ascii "packet A {
  match k as n {
    [1, 22, 007, 4, 5, 66] : B,
    2 : C
  },
}")).
Eval vm_compute in ("<<<M813>>>" ++ check (runes_of_ascii "packet A {
  match k as n {
    [1, 22, 007, 4, 5] : B,
    2 : C
  },
}")).
Eval vm_compute in ("<<<M1403>>>" ++ check (runes_of_ascii "  root  packet

P	{
repeat string
ss  ,
    repeat 
u16 ns
    , }
")).
Eval vm_compute in ("<<<M784>>>" ++ check (runes_of_ascii "packet A {
  match k as n {
    [""a"", 22] : B,
    2 : C
  },
}")).
Eval vm_compute in ("<<<M1509>>>" ++ check (runes_of_ascii "packet body {
    // c
    i32 f32a `{ , }`,
}

options {
}")).
Eval vm_compute in ("<<<M1787>>>" ++ check (runes_of_ascii "

  MetaData
    M  { 
u8	x	`a
b`
,
    T 
t	`a
b`

,}")).
Eval vm_compute in ("<<<M1216>>>" ++ check (runes_of_ascii "packet body { i32 f32a `{ , }` , } options
// c
{ }")).
Eval vm_compute in ("<<<M693>>>" ++ check (runes_of_ascii "// @lengthOf(
packet i8i8 { u128 o , }
options")).
Eval vm_compute in ("<<<M1533>>>" ++ check (runes_of_ascii "packet	A{// a
      u8
x
    ,

    }
")).
Eval vm_compute in ("<<<M964>>>" ++ check (runes_of_ascii "root packet A {
    u8 x `tab
	x`,
}")).
Eval vm_compute in ("<<<M1063>>>" ++ check (runes_of_ascii "packet A {
 u8 x `d x`, // c x
}")).
Eval vm_compute in ("<<<M1013>>>" ++ check (runes_of_ascii "packet A {
 u8 x `d" ++ [8232]%N ++ runes_of_ascii "`, // c" ++ [8232]%N ++ runes_of_ascii "
}")).
Eval vm_compute in ("<<<M1446>>>" ++ check (runes_of_ascii "

  // c" ++ [8239]%N ++ runes_of_ascii "
  	packet A{
}

")).
Eval vm_compute in ("<<<M1112>>>" ++ check (runes_of_ascii "MetaData tag { }
// c
")).
Eval vm_compute in ("<<<M1136>>>" ++ check (runes_of_ascii "MetaData u { } // c
")).
Eval vm_compute in ("<<<M981>>>" ++ check (runes_of_ascii "packet A {
}
// c" ++ [12288]%N)).
Eval vm_compute in ("<<<M1074>>>" ++ check (runes_of_ascii "MetaData M {
}// c")).
Eval vm_compute in ("<<<M1230>>>" ++ check (runes_of_ascii "packet x { // c
}")).
Eval vm_compute in ("<<<M1447>>>" ++ check (runes_of_ascii "packet x {
}")).
Eval vm_compute in ("<<<M1025>>>" ++ check (runes_of_ascii "// c" ++ [8287]%N)).
