From FP Require Import Lexer Parser ShowPT Digest Formatter.
From Coq Require Import String List NArith.
Import ListNotations.
Open Scope string_scope.
Set Printing Width 100000000.
Set Printing Depth 100000000.
Definition show_fres (r : fres) : string :=
  match r with
  | FOk s => "OK:" ++ sh_escaped s ""
  | FErr s => "ERR:" ++ sh_escaped s ""
  | FPanic p => "PANIC:" ++ p
  end.
Definition check (rs : list rune) : string := digest (show_fres (format_res rs)).
Definition full (rs : list rune) : string := show_fres (format_res rs).
Eval vm_compute in ("<<<M1352>>>" ++ check (runes_of_ascii "// top
options
    // c0
{ // c1
StringPrefixLenType // c2a
  // c2b
=
    // c3
u8 // c4a
  // c4b
; ArrayPrefixLenType // c6
= // c7
u32 // c8
;
    // c9
FixedStringPadFromLeft
    // c10
= true // c12a
  // c12b
; // c13
FixedStringPadChar // c14
=
    // c15
' ' ; } packet // c19
Leg
    // c20
{ // c21a
  // c21b
} packet
    // c23
Heartbeat
    // c24
{ // c25
zchar[ // c26a
  // c26b
6 ] msgKind // c29a
  // c29b
, // c30a
  // c30b
@rightPad
    // c31
( '0' ) // c34
char[ // c35a
  // c35b
3 // c36a
  // c36b
]
    // c37
Qty , zchar[
    // c40
9 // c41a
  // c41b
] // c42
Side2 , i8
    // c45
Acct // c46
, // c47a
  // c47b
} // c48
packet // c49a
  // c49b
Logout // c50
{ // c51a
  // c51b
int8 // c52
x
    // c53
, // c54a
  // c54b
} // c55
packet
    // c56
Order // c57a
  // c57b
{ char[]
    // c59
Acct ,
    // c61
zchar[ // c62a
  // c62b
8 // c63
] count // c65a
  // c65b
,
    // c66
u32 // c67
OrderId
    // c68
, uint8 lastPx // c71a
  // c71b
,
    // c72
u16
    // c73
clOrdID // c74
,
    // c75
zchar[
    // c76
7
    // c77
] // c78a
  // c78b
Note // c79
, } // c81a
  // c81b
root
    // c82
packet // c83
Reject // c84a
  // c84b
{ // c85
@leftPad ( ' ' ) // c89a
  // c89b
char[
    // c90
8 ]
    // c92
Side2 // c93
, // c94a
  // c94b
i8 // c95a
  // c95b
clOrdID // c96
, // c97a
  // c97b
repeat
    // c98
f32
    // c99
x , // c101
u32 // c102a
  // c102b
lastPx , // c104
match lastPx as
    // c107
Body
    // c108
{ // c109a
  // c109b
[
    // c110
30 ,
    // c112
147 ] : // c115a
  // c115b
Heartbeat , 134 // c118a
  // c118b
: // c119a
  // c119b
Leg // c120
, // c121
183 // c122
:
    // c123
Logout
    // c124
, // c125a
  // c125b
40 // c126
: // c127a
  // c127b
Order
    // c128
, // c129a
  // c129b
}
    // c130
, u16 // c132a
  // c132b
Ref // c133
@calculatedFrom( // c134a
  // c134b
""CRC32"" ) // c136a
  // c136b
, // c137
} // c138
")).
Eval vm_compute in ("<<<M1909>>>" ++ check (runes_of_ascii "
options  {StringPrefixLenType =

    u16

    ;ArrayPrefixLenType

=	u16;
	} 
packet

    SampleBinary {uint16 MsgType	`" ++ [28040; 24687; 31867; 22411]%N ++ runes_of_ascii "` , u16
    BodyLenght
	@lengthOf(
	Body
	)
`" ++ [28040; 24687; 20307; 38271; 24230]%N ++ runes_of_ascii "`  ,

    match
MsgType as

    Body{1: Logon, 2:

    Logout
	,
3 :Heartbeat
,	4
:
RiskControlRequest
, 5 
:
RiskControlResponse 
,},@calculatedFrom( ""CRC32"" )
    u32	Ckecksum  `" ++ [26657; 39564; 21644]%N ++ runes_of_ascii "` , } packet  Logon	{ @leftPad
    (  '0'  )
	char[

10 
]UserName`" ++ [29992; 25143; 21517]%N ++ runes_of_ascii "` ,string	Password
`" ++ [23494; 30721]%N ++ runes_of_ascii "`  ,  uint64

ClientId	`" ++ [23458; 25143; 31471]%N ++ runes_of_ascii "ID`, 
u16 HeartbeatInterval 
`" ++ [24515; 36339; 38388; 38548]%N ++ runes_of_ascii "` , } 
packet 
Logout
{ 
@rightPad(
	'0'

)  char[ 
10
]

UserName	`" ++ [29992; 25143; 21517]%N ++ runes_of_ascii "` ,  uint64
	ClientId`" ++ [23458; 25143; 31471]%N ++ runes_of_ascii "ID`

    ,	} packet Heartbeat
{
}
packet	RiskControlRequest 
{ string
UniqueOrderId`" ++ [21807; 19968; 35746; 21333; 21495]%N ++ runes_of_ascii "`,
	char[ 16
    ]  ClOrdID	`" ++ [23458; 25143; 35746; 21333; 21495]%N ++ runes_of_ascii "` ,
	char[ 3
]MarketID`" ++ [24066; 22330]%N ++ runes_of_ascii "id`
,char[12 ]
    SecurityID
`" ++ [35777; 21048; 20195; 30721]%N ++ runes_of_ascii "`,
	char
    Side
	`" ++ [20080; 21334; 26041; 21521]%N ++ runes_of_ascii "`
, char
	OrderType`" ++ [35746; 21333; 31867; 22411]%N ++ runes_of_ascii "`,u64
Price 
`" ++ [20215; 26684]%N ++ runes_of_ascii "` ,
u32 Qty

    `" ++ [25968; 37327]%N ++ runes_of_ascii "`
	, repeat string  ExtraInfo
	`" ++ [38468; 21152; 20449; 24687]%N ++ runes_of_ascii "`
    ,

repeat 
SubOrder {

char[
16
]ClOrdID
`" ++ [23376; 35746; 21333; 21495]%N ++ runes_of_ascii "`
	,
u64 Price`" ++ [23376; 35746; 21333; 20215; 26684]%N ++ runes_of_ascii "`
,

    u32	Qty  `" ++ [23376; 35746; 21333; 25968; 37327]%N ++ runes_of_ascii "`
    ,}
,
}packet 
RiskControlResponse  {

    string UniqueOrderId

    `" ++ [21807; 19968; 35746; 21333; 21495]%N ++ runes_of_ascii "` ,  i32

    Status `" ++ [29366; 24577]%N ++ runes_of_ascii "` 
,	string
	Msg	`" ++ [32467; 26524; 20449; 24687]%N ++ runes_of_ascii "` 
,  repeat

    Detail ,
}
    packet Detail

    {

    string
RuleName
`" ++ [35268; 21017; 21517; 31216]%N ++ runes_of_ascii "`
    ,  u16 Code `" ++ [21407; 22240; 20195; 30721]%N ++ runes_of_ascii "` ,  }

")).
Eval vm_compute in ("<<<M8>>>" ++ check (runes_of_ascii "// @lengthOf(
packet Pad { zchar[
    0 ]Header @calculatedFrom(
""a	b"" ) // " ++ [27880; 37322]%N ++ runes_of_ascii "
`say ""hi""` , @calculatedFrom(
    ""a\""b"" // a // b
)  body @lengthOf( body// `tick` ""quote"" 'q'
)`say ""hi""` , u16 stringy@lengthOf(
    // trailing space 
    trueish ) , @lengthOf( rootA) f64 Foo `say ""hi""` // c
,u16 Z9_ , x_y_z , }
    MetaData metadata { uint64 x , trueish chars//
,
    asx lengthOf `u8 x,`  ,
} options { body // a // b
=	""packet"" } root
    packet MetaDataX {zchar[
42	]
a1
,Packet x_y_z // " ++ [27880; 37322]%N ++ runes_of_ascii "
, u8 Foo
    `u8 x,` , u64
//	t
/// triple
tag, @tag( 1 //x
)  string x_y_z @calculatedFrom( ""x y"" ) ,f32 Logon	, _x ,charz // a // b
{
    rootA metadata `crlf
line`
    , Header @calculatedFrom( ""\" ++ [233]%N ++ runes_of_ascii """ ) `` ,
i64_`line1
line2`
    // @lengthOf(
    , } ,@lengthOf(
a1// `tick` ""quote"" 'q'
) string
As	`doc`
    , @tag(
1 ) match As
    as	trueish
    //	t
    {
    [ ""`tick`""
    // trailing space 
    ] :charz,  ""packet"": asx , 42  :
packetx, [ ""a\\"" ] :
u }
,
}
/// triple
")).
Eval vm_compute in ("<<<M196>>>" ++ check (runes_of_ascii "root  packet u { match //x
T as body// c
{
[
""a\""b""
    , 3 ] :
stringy  ""a	b"" : charz // a // b
,
    10:  lengthOf// " ++ [128512]%N ++ runes_of_ascii " emoji
, ""CRC32"" : falsey
,
    0123456789 : _x ,
    } , body @lengthOf( i64_ )
, u64 chars
`u8 x,` ,T {i64_ string_,
    u32 metadata , zchar[ 1
]Z9_,}
    // c
    ,@calculatedFrom( ""a\\"" ) rootA // " ++ [128512]%N ++ runes_of_ascii " emoji
x_y_z
`u8 x,` ,
    zchar[ 007 ]body @calculatedFrom(
""\n""
) ,
    @leftPad (
'0') @rightPad
    ( '0' )
@calculatedFrom( """ ++ [233]%N ++ runes_of_ascii "t" ++ [233]%N ++ runes_of_ascii """
    )	repeat uint64 A	, repeat  u8x
    { match
o
as
x
    {
    10	:charz
// " ++ [27880; 37322]%N ++ runes_of_ascii "
// " ++ [27880; 37322]%N ++ runes_of_ascii "
,""a	b"": matchKey
, ""x y""
:
    trueish ,[ """ ++ [233]%N ++ runes_of_ascii "t" ++ [233]%N ++ runes_of_ascii """ ] : zchar,""1"" : charz // " ++ [27880; 37322]%N ++ runes_of_ascii "
,
[ ""a\""b"" ,
""abc""
, ""a\\"", ""abc"" ,
// packet A { u8 x, }
// " ++ [128512]%N ++ runes_of_ascii " emoji
""""
// packet A { u8 x, }
/// triple
] : u8x, } ,	},repeat falsey { rootA
    tag ,
    zchar[/// triple
0 ] falsey ,  }
    , charz a1 `{ , }`
, } root
packet /// triple
Header{}
")).
Eval vm_compute in ("<<<M280>>>" ++ check (runes_of_ascii "packet	crc{@lengthOf( stringy// a // b
) @leftPad (
'0'
    ) @calculatedFrom(
""packet"" )
repeat char[
    // c
    3]  i64_ // a // b
, match
    options1	as o { 255 :msg_type
,
    ""\n"": MetaDataX , 42: msg_type """ ++ [128512]%N ++ runes_of_ascii """
    : lengthOf,""// no comment"" :falsey , }
/// triple
// trailing space 
, @leftPad( )
    @lengthOf( A
    ) @calculatedFrom( ""x y"" ) uint32// a // b
charz `doc`, len ,@calculatedFrom( ""// no comment"" ) match _x
    //x
    as i64_	{ 65535
    :
    // @lengthOf(
    u8x , } ,
char[]
    a1 // @lengthOf(
, Foo { u8x{ char[]
Logon
    `// not a comment`	,}, match metadata as u128 { // trailing space 
42 : u8x
, 65535 : f32a
    } //x
, asx// " ++ [128512]%N ++ runes_of_ascii " emoji
@lengthOf( matchKey  ) ,} , roots @calculatedFrom( // packet A { u8 x, }
""a\""b"" )
,	zchar[
7] int	, repeat pack	trueish ,
    }
")).
Eval vm_compute in ("<<<M1439>>>" ++ check (runes_of_ascii "// trailing space 
options {
    f32a = false;
    stringy = true;
    u = ""\" ++ [233]%N ++ runes_of_ascii """;
    stringy = false;
}

packet options1 {
}

MetaData packetx {
    f32 uint8x,
}

root packet zchar {
    @tag(4294967296)
    @lengthOf(a1)
    i8 _x `it's`,//x
    char[] o,
    body,
    zchar[65535] msg_type `crlf
        line`,
    repeat BodyLength {
        repeat char[65535] stringy,
    },
    @calculatedFrom(""" ++ [128512]%N ++ runes_of_ascii """)
    @tag(10)
    repeat f32 lengthOf `line1
        line2`,
    repeat u {
        uint32 Z9_,//
        repeat body `
                `,
    },
    @tag(4294967296)
    i64_ @lengthOf(tag),
    @lengthOf(float)
    @lengthOf(packetx)
    @calculatedFrom(""" ++ [128512]%N ++ runes_of_ascii """)
    repeat x_y_z u,
    @tag(65535)
    u8 A,
}//")).
Eval vm_compute in ("<<<M1418>>>" ++ check (runes_of_ascii "packet
	metadata {@rightPad() zchar[ 
//	t
  // `tick` ""quote"" 'q'
  0123456789] i64_ 
      // @lengthOf(
@calculatedFrom(
""\n""

    ) , @leftPad (	' ' // " ++ [27880; 37322]%N ++ runes_of_ascii "
	)
    zchar[ 	 // `tick` ""quote"" 'q'
		255 ]
MetaDataX

    `{ , }` 	 // a // b

	,@rightPad (' '	)	@calculatedFrom(  ""abc"")	// " ++ [128512]%N ++ runes_of_ascii " emoji
  	@lengthOf(	matchKey 

// `tick` ""quote"" 'q'
  // `tick` ""quote"" 'q'
  )	repeat char[42
	] 
packetx	// packet A { u8 x, }
		`" ++ [233]%N ++ runes_of_ascii "`  ,	trueish
@calculatedFrom(
    ""packet""	) 
`a\`, 
matchKey int
`" ++ [28040; 24687; 31867; 22411]%N ++ runes_of_ascii "` ,  @tag( 

    // c
0
) len

    { char[
65535 ]

    Header,

}
,
@lengthOf( f32a	)
zchar[10 ] 
trueish `crlf
line`
    ,
	}
")).
Eval vm_compute in ("<<<M1658>>>" ++ check (runes_of_ascii "  packet
tag {string matchKey `line1
line2` , @tag(
	0
	) 	 // c
	@calculatedFrom(
    ""1"" )  @calculatedFrom(// " ++ [128512]%N ++ runes_of_ascii " emoji
""a\""b""
	) float64
    matchKey
,} options
{
	crc

    =

    true msg_type  
  //	t

	=

true
; }
	packet
o { 
match
	roots as  calculatedFrom {
""// no comment"" 
  // packet A { u8 x, }
	  : 
msg_type

,  ""{,}"": u128
	,	[65535	,0123456789
    ]  /// triple
:
body ,	// " ++ [128512]%N ++ runes_of_ascii " emoji
	  } , @rightPad
	(' ') 
repeat string_ i64_

    ,	@lengthOf( 
lengthOf
    )@tag(255	// packet A { u8 x, }

  )
    @tag(
	00 )  char[]  stringy 
, }
")).
Eval vm_compute in ("<<<M1384>>>" ++ check (runes_of_ascii "  options{  ArrayPrefixLenType	=
u64 ;  FixedStringPadFromLeft

    =
true;FixedStringPadChar 
=	'0' ;}
    packet
Quote  {  }  packet
Ack
    {
	repeat

    InNote66
{u8 pad0
,  },}
packet
	Reject {  }	root packet
Order 
{ Quote,  repeat

    Reject 
, string venue, string seqNo

,

    uint32 Ref ,
	u16 lastPx  , u32
clOrdID
    @lengthOf(

Body 
)
    ,
match lastPx 
as  Body  { 190 : Reject ,
	186
	:
    Quote

,	22

    : Ack
, 
} , u16

    Flags  @calculatedFrom(""CRC32"")	, 
}

")).
Eval vm_compute in ("<<<M264>>>" ++ check (runes_of_ascii "options  {
    float
=
    char[]
} // packet A { u8 x, }
root packet
    Logon
    { @tag( 1 ) // a // b
@calculatedFrom( ""packet""
// a // b
// " ++ [128512]%N ++ runes_of_ascii " emoji
)zchar[ 3 ]
// c
//x
Z9_ ,@lengthOf( charz )
@calculatedFrom( ""1""
)match
roots
as int
    { ""a	b""
:MetaDataX , }
    ,@calculatedFrom( ""a\""b""	)
    match
    asx as lengthOf { """ ++ [128512]%N ++ runes_of_ascii """
    : _x,
[ 255 ] : BodyLength
    ,3 :
    u8x , 0123456789:T} ,
    len@lengthOf(leftPad )`u8 x,` , } // @lengthOf(")).
Eval vm_compute in ("<<<M1894>>>" ++ check (runes_of_ascii "MetaData u128 {
    string zchar `two words`,
    u16 packetx `a\`,
    char[1] Logon,
    len crc,
    char[7] i8i8,
    char[] calculatedFrom,
}

MetaData u {
    u u128,
}

root packet metadata {
}

options {
    matchKey = 255;
    x_y_z = 007
    crc = int16;
    zchar = char[42];
    int = true;
}

options {
    Header = """ ++ [128512]%N ++ runes_of_ascii """;
    len = ' ';
    matchKey = """";
    MetaDataX = ' ';
    o = '\x00';
}")).
Eval vm_compute in ("<<<M1812>>>" ++ check (runes_of_ascii "MetaData pack {
    int16 rootA `{ , }`,
    int16 x,
    u32 msg_type,
}

packet i64_ {
    @leftPad('0')
    @rightPad('\x00')
    @lengthOf(options1)
    string body @lengthOf(asx) `" ++ [233]%N ++ runes_of_ascii "`,
}

options {
    msg_type = 00;
}

MetaData stringy {
    zchar MetaDataX `line1
    line2`,
    char[255] len `it's`,
    f32 pack,
    uint16 Foo `it's`,
    int16 i64_ `two words`,
}")).
Eval vm_compute in ("<<<M1708>>>" ++ check (runes_of_ascii "
options { LittleEndian  =  true
	; StringPrefixLenType	= u16
    ;

FixedStringPadChar

=' ';
    } 
packet
Logon

{
@leftPad(	'0' )	char[ 
10
] tag7	,
	}
root 
packet	Ack
{ int32
Px
    ,

    uint16
count 
,

    string Qty  ,

string OrderId 
,
string
	Flags
,u8
	x, match x as Body {
    [
	58 , 169 ]  : Logon , }

    ,
} ")).
Eval vm_compute in ("<<<M1409>>>" ++ check (runes_of_ascii "options {
    LittleEndian = true;
}

packet Logon {
    u8 x,
}

packet Logout {
    u16 reason,
}

root packet Frame {
    u16 Kind,
    u16 Kind2,
    match Kind as Body {
        1 : Logon,
        [2, 3, 4] : Logout,
        100 : Logon,
    },
    match Kind2 as Trailer {
        0 : Logout,
    },
}")).
Eval vm_compute in ("<<<M215>>>" ++ check (runes_of_ascii "root	packet
    i8i8 { @tag( // c
4294967296 )
    // packet A { u8 x, }
    Header  calculatedFrom `
`
, @tag(4294967296 )
@rightPad ( ' '
    )
@lengthOf( float )
    options1 zchar `" ++ [233]%N ++ runes_of_ascii "`
//x
/// triple
,}	root packet
    // " ++ [128512]%N ++ runes_of_ascii " emoji
    x {repeat
zchar[  10 ]	x`u8 x,`,
    }")).
Eval vm_compute in ("<<<M1929>>>" ++ check (runes_of_ascii "packet A {
    // c2a
    // c2b
    u8 a,
}// c6a

// c6b
packet B {
    // c9
    u16 b,// c12
}// c13a

// c13b
root packet P {
    u8 K,
    match K as M {
        // c25a
        // c25b
        1 : A,
        // c29
        1 : B,
    },
}")).
Eval vm_compute in ("<<<M18>>>" ++ check (runes_of_ascii "packet roots
// a // b
// " ++ [128512]%N ++ runes_of_ascii " emoji
{ // " ++ [27880; 37322]%N ++ runes_of_ascii "
@tag(0
)
    repeat // `tick` ""quote"" 'q'
zchar[
/// triple
//x
0
]x , } options { As =""\" ++ [233]%N ++ runes_of_ascii """ ;pack = ' ' ; int = // `tick` ""quote"" 'q'
'\x00' ; options1 =
""`tick`"" ; }")).
Eval vm_compute in ("<<<M1430>>>" ++ check (runes_of_ascii "packet len {
}

options {
    Z9_ = 4294967296;
    _x = 0
    f32a = zchar[42];
}

root packet BodyLength {
}

options {
    string_ = u32;
    charz = string;
}

packet len {
}")).
Eval vm_compute in ("<<<M283>>>" ++ check (runes_of_ascii "
root packet /// triple
u8x {}options { o =	zchar[ 1 ]
    Packet
    // trailing space 
    =u32 ; uint8x =""a\\"";
    /// triple
    u8x
=0
;
    crc =""\n"" ; }")).
Eval vm_compute in ("<<<M1924>>>" ++ check (runes_of_ascii "packet A {
    match k as n {
        [
            1, 22, 007, 4, 5,
            66, 7, 8, 9, 10,
            11, 12
        ] : B,
        2 : C,
    },
}")).
Eval vm_compute in ("<<<M403>>>" ++ check (runes_of_ascii "packet uint8x
007 match pack
    as msg_type	{
    0123456789 :	float
}
,
} packet //	t
a1
    { } options {packetx
    = '\x00'	; u128= ""a	b""  ; }
")).
Eval vm_compute in ("<<<M545>>>" ++ check (runes_of_ascii "packet uint8x
{ match' pack
    as msg_type	{
    0123456789 :	float
}
,
} packet //	t
a1
    { } options {packetx
    = '\x00'	; u128= ""a	b""  ; }
")).
Eval vm_compute in ("<<<M502>>>" ++ check (runes_of_ascii "packet uint8x
{ match pack
    as msg_type	{
    0123456789 :	float
}
,
} packet //	t
a1
    { } options {packetx
    = ;	'\x00' u128= ""a	b""  ; }
")).
Eval vm_compute in ("<<<M433>>>" ++ check (runes_of_ascii "packet uint8x
{ match pack
    as msg_type	{
    ""`tick`"" :	float
}
,
} packet //	t
a1
    { } options {packetx
    = '\x00'	; u128= ""a	b""  ; }
")).
Eval vm_compute in ("<<<M670>>>" ++ check (runes_of_ascii "// @lengthOf(
packet i8i8 { u128 o , }
options { MetaDataX = true;
    BodyLength =""packet"" x_y_z= 007
crc //x
= ""abc"" ;
    msg_type = =
i16 }")).
Eval vm_compute in ("<<<M662>>>" ++ check (runes_of_ascii "// @lengthOf(
packet i8i8 { u128 o , }
{ options MetaDataX = true;
    BodyLength =""packet"" x_y_z= 007
crc //x
= ""abc"" ;
    msg_type =
i16 }")).
Eval vm_compute in ("<<<M1435>>>" ++ check (runes_of_ascii "// top
packet B {
    // c2
    u8 a,
    string s,
}

root packet P {
    // c13
    u16 L @lengthOf(B),
    // c19
    B,
    u8 t,// c24
}")).
Eval vm_compute in ("<<<M714>>>" ++ check (runes_of_ascii "// @lengthOf(
packet i8i8 { u128 o , }
options { MetaDataX = true;
    BodyLength =""packet"" x_y_z= 007
crc //x
= ""abc"" ;
    msg_type")).
Eval vm_compute in ("<<<M1928>>>" ++ check (runes_of_ascii "packet i64_ {
}

MetaData uint8x {
    Packet tag,
    u8 repeatCount,
    x_y_z _x `" ++ [233]%N ++ runes_of_ascii "`,
    zchar[42] crc `a\`,
}

options {
}")).
Eval vm_compute in ("<<<M1653>>>" ++ check (runes_of_ascii "root packet string_ {
    repeat char[00] rootA,
}

MetaData u {
    i32 options1,
}

MetaData rootA {
    u16 chars,
}")).
Eval vm_compute in ("<<<M1171>>>" ++ check (runes_of_ascii "MetaData leftPad { chars MetaDataX , } packet repeatCount { char[ 255 ] uint8x `" ++ [233]%N ++ runes_of_ascii "` // c
, } MetaData pack { As Foo , }")).
Eval vm_compute in ("<<<M1728>>>" ++ check (runes_of_ascii "MetaData Packet {
    u lengthOf `say ""hi""`,
}

MetaData metadata {
    crc chars `crlf
    line`,
    asx f32a,
}")).
Eval vm_compute in ("<<<M902>>>" ++ check (runes_of_ascii "packet A {
  match k as n {
    [""a"", ""bb"", 007, ""d"", ""e"", 66, ""g"", ""h"", 9, ""j"", ""k""] : B
    2 : C
  },
}")).
Eval vm_compute in ("<<<M867>>>" ++ check (runes_of_ascii "packet A {
  match k as n {
    [""a"", ""bb"", ""c c"", ""d"", ""e"", ""f"", ""g"", ""h"", ""i""] : B,
    2 : C
  },
}")).
Eval vm_compute in ("<<<M900>>>" ++ check (runes_of_ascii "packet A {
  match k as n {
    [1, 22, ""c c"", 4, 5, ""f"", 7, 8, ""i"", 10, 11] : B
    2 : C
  },
}")).
Eval vm_compute in ("<<<M565>>>" ++ check (runes_of_ascii "
packet
    asx true match u128 as lengthOf
{
//	t
// `tick` ""quote"" 'q'
255 : x ,
    } ,	}")).
Eval vm_compute in ("<<<M682>>>" ++ check (runes_of_ascii "// @lengthOf(
packet i8i8 { u128 o , }
options { MetaDataX = true;
    BodyLength =""packet""")).
Eval vm_compute in ("<<<M609>>>" ++ check (runes_of_ascii "
packet
    asx {match u128 as lengthOf
{
//	t
// `tick` ""quote"" 'q'
255 : x }
    , ,	}")).
Eval vm_compute in ("<<<M1663>>>" ++ check (runes_of_ascii "packet A {
    match k as n {
        [1, 22, 4, 5, ""c c""] : B,
        2 : C,
    },
}")).
Eval vm_compute in ("<<<M1744>>>" ++ check (runes_of_ascii "packet A {
    match k as n {
        [1, 22, 4, ""c c""] : B,
        2 : C,
    },
}")).
Eval vm_compute in ("<<<M824>>>" ++ check (runes_of_ascii "packet A {
  match k as n {
    [""a"", ""bb"", 007, ""d"", ""e""] : B
    2 : C
  },
}")).
Eval vm_compute in ("<<<M1635>>>" ++ check (runes_of_ascii "
packet

    body

    {	// c
    i32 f32a
	`{ , }`
	,
}

options{
}
")).
Eval vm_compute in ("<<<M960>>>" ++ check (runes_of_ascii "packet A {
    B b `tab
	x`,
    B `tab
	x`,
    repeat B bs `tab
	x`,
}")).
Eval vm_compute in ("<<<M1788>>>" ++ check (runes_of_ascii "

  options
	{ asx

=""1""	//	t

Pad  =

    0	stringy= '\x00'
;  }
")).
Eval vm_compute in ("<<<M784>>>" ++ check (runes_of_ascii "packet A {
  match k as n {
    [""a"", 22] : B,
    2 : C
  },
}")).
Eval vm_compute in ("<<<M1575>>>" ++ check (runes_of_ascii "packet A {
    @tag(1)
    u8 x,// b
    @tag(2)
    u8 y,
}")).
Eval vm_compute in ("<<<M1245>>>" ++ check (runes_of_ascii "root
    packet	P
{repeat

char 
cs  ,u8

    x ,} ")).
Eval vm_compute in ("<<<M1213>>>" ++ check (runes_of_ascii "packet body { i32 f32a `{ , }` , } // c
options { }")).
Eval vm_compute in ("<<<M1611>>>" ++ check (runes_of_ascii "root packet
P
    {
char	c

    ,	u8
	x,
}

")).
Eval vm_compute in ("<<<M337>>>" ++ check (runes_of_ascii "//	t
options
// c
// " ++ [128512]%N ++ runes_of_ascii " emoji
{
    } // c")).
Eval vm_compute in ("<<<M1438>>>" ++ check (runes_of_ascii "options {
    T = '0';
    A = u8;
}")).
Eval vm_compute in ("<<<M738>>>" ++ check (runes_of_ascii "\B1ss""~3@|Nr!9$[0mx>ti>t+Fp_cN&")).
Eval vm_compute in ("<<<M1777>>>" ++ check (runes_of_ascii "
MetaData tag	{
	    // c
	} ")).
Eval vm_compute in ("<<<M713>>>" ++ check (runes_of_ascii "// @lengthOf(
packet i8i8")).
Eval vm_compute in ("<<<M63>>>" ++ check (runes_of_ascii "packet i64_
    { }

")).
Eval vm_compute in ("<<<M1042>>>" ++ check (runes_of_ascii "// c 	
packet A {
}")).
Eval vm_compute in ("<<<M1017>>>" ++ check (runes_of_ascii "// c" ++ [8233]%N ++ runes_of_ascii "
packet A {
}")).
Eval vm_compute in ("<<<M989>>>" ++ check (runes_of_ascii "packet A {
}// c" ++ [133]%N)).
Eval vm_compute in ("<<<M761>>>" ++ check (runes_of_ascii "{];z" ++ [65533]%N ++ runes_of_ascii """t" ++ [65533; 65533; 65533]%N ++ runes_of_ascii "XKU" ++ [65533; 2]%N)).
Eval vm_compute in ("<<<M252>>>" ++ check (runes_of_ascii " // c")).
Eval vm_compute in ("<<<M737>>>" ++ check ([1875; 65533]%N)).
