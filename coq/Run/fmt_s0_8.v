From FP Require Import Lexer Parser ShowPT Digest Formatter.
From Coq Require Import String List NArith.
Import ListNotations.
Open Scope string_scope.
Set Printing Width 100000000.
Set Printing Depth 100000000.
Definition show_fres (r : fres) : string :=
  match r with
  | FOk s => "OK:" ++ sh_escaped s ""
  | FErr s => "ERR:" ++ sh_escaped s ""
  | FPanic p => "PANIC:" ++ p
  end.
Definition check (rs : list rune) : string := digest (show_fres (format_res rs)).
Definition full (rs : list rune) : string := show_fres (format_res rs).
Eval vm_compute in ("<<<M23>>>" ++ check (runes_of_ascii "root packet
u128 { @lengthOf(
    A// " ++ [27880; 37322]%N ++ runes_of_ascii "
)pack@calculatedFrom( ""`tick`"" ),
repeat
    char[]	As `crlf
line`
    // " ++ [27880; 37322]%N ++ runes_of_ascii "
    , @tag( 4294967296 ) @rightPad
('\x00'	) @calculatedFrom( ""a\\"" ) tag { repeat string o
    ,char[]  calculatedFrom `u8 x,`
,
u
    // " ++ [128512]%N ++ runes_of_ascii " emoji
    { u64
    body
    `say ""hi""`
    ,	repeat f32
    int ,repeat rootA { repeat string i64_ `it's`
    //	t
    ,As
    @calculatedFrom(
"""" ) `" ++ [233]%N ++ runes_of_ascii "`
    ,tag `" ++ [233]%N ++ runes_of_ascii "`, } , zchar[ 65535 ] trueish
    , } ,}	, @lengthOf( Logon )i8// @lengthOf(
Packet , @tag(
3 ) @lengthOf( chars ) @tag( 10 ) u8
    Foo ,
    // " ++ [128512]%N ++ runes_of_ascii " emoji
    i64_
    _x`crlf
line`,
    u32
    A , match a1 as i8i8 { [""1"" ,4294967296
]  :
a1, """" :a1	, 007
: a1, [ ""CRC32""
]
: Header
    }
    , int64
As , } root	packet
chars { x_y_z {
    // a // b
    u32 u128 ,
float64 metadata
    , trueish
    @calculatedFrom(""it's"" ) `u8 x,`,
    } , @calculatedFrom( ""\n"" )
repeat
    // c
    Foo
pack, string
    asx
@lengthOf( x_y_z ) `a\` ,
    uint8 // `tick` ""quote"" 'q'
trueish @calculatedFrom( ""a\""b""
)  , @leftPad
( ) char[
007 ] a1
    @lengthOf(
a1)
    `crlf
line`
,rootA msg_type, zchar[ 1
]  u8x @calculatedFrom( ""`tick`""
) , }
    options
{ } packet crc {// a // b
@lengthOf(leftPad ) @tag( 7
    )//	t
@lengthOf(
options1  )
int32 asx , @rightPad
( )
pack roots , string
a1
    `say ""hi""` , match body
    // packet A { u8 x, }
    as matchKey
    {[
""`tick`""
    // @lengthOf(
    ]:	string_
    },
    //	t
    repeat uint16 Packet , repeat uint8 i64_ , @lengthOf( Pad	) /// triple
A // trailing space 
`// not a comment` ,
char[]u8x
    , repeat
    char[ 007 ] pack	, A
    { // " ++ [27880; 37322]%N ++ runes_of_ascii "
x { string
    uint8x @lengthOf( leftPad  )`say ""hi""` // packet A { u8 x, }
,Packet T
// `tick` ""quote"" 'q'
// c
, As @lengthOf(
// " ++ [27880; 37322]%N ++ runes_of_ascii "
// c
string_ ) `// not a comment` , }, char[] _x@lengthOf(
o )
    // 50% %s
    ,
    len x , },
    //
    }
")).
Eval vm_compute in ("<<<M1582>>>" ++ check (runes_of_ascii "packet o {
    @leftPad(
        )
    @tag(00)
    int16 int @lengthOf(Header) `
    `,
    @leftPad(
    '\x00')
    char[00] body @lengthOf(a1) `" ++ [28040; 24687; 31867; 22411]%N ++ runes_of_ascii "`,
}

packet roots {
    Logon `crlf
    line`,
}

packet _x {
    zchar[4294967296] Header `
    `,
    chars @calculatedFrom(""1""),
    match As as A {
        ""`tick`"" : u,
    },
    repeat string zchar,
    repeat packetx {
        match pack as lengthOf {
            3 : calculatedFrom,
            3 : metadata,
            ""abc"" : falsey,
            4294967296 : len,
        },
        match Packet as repeatCount {
            [
                ""a\\"", 1, ""a\\"", 0, ""packet"",
                ""a	b""
            ] : f32a,
            4294967296 : tag,
            1 : packetx,
            [
                ""\n"", 42, 4294967296, ""a	b"", 10,
                255, 007
            ] : chars,
            [
                ""1"", ""// no comment"", 0, 1, ""`tick`"",
                3, 42, ""\" ++ [233]%N ++ runes_of_ascii """
            ] : BodyLength,
        },// trailing space 
    },
    string u8x `" ++ [28040; 24687; 31867; 22411]%N ++ runes_of_ascii "`,
    repeat f32a {
        char[7] x_y_z `
        `,
    },
}

MetaData Packet {
    chars u,
    char[] u8x,
    // 50% %s
    // trailing space 
    x_y_z asx `" ++ [28040; 24687; 31867; 22411]%N ++ runes_of_ascii "`,
    int8 Header `{ , }`,
    zchar[4294967296] rootA `u8 x,`,
    char[] calculatedFrom,
}")).
Eval vm_compute in ("<<<M1464>>>" ++ check (runes_of_ascii "options {
    LittleEndian = true;
    StringPrefixLenType = u16;
    ArrayPrefixLenType = u8;
    FixedStringPadChar = ' ';
}

packet Ack {
    @leftPad(
    ' ')
    char[5] lastPx,
    zchar[4] count,
    repeat InVenue30 {
        char[9] Side2,
        char[12] venue,
    },
}

packet Order {
    int16 Note,
    repeat InAcct28 {
        InSym3 {
            Ack,
            char[4] lastPx,
            char[1] venue,
            f32 Ref,
        },
        repeat InTag729 {
            char[3] Side2,
            uint64 Acct,
            char[] price,
            zchar[9] Note,
            zchar[9] venue,
        },
        char[] count,
        Ack,
        char[] Px,
    },
    u8 f1,
    Ack,
}

packet Fill {
    zchar[7] x,
    Order,
    @leftPad(
    ' '
    )
    char[9] venue,
    string count,
    char[] Flags,
}

packet Logon {
}

packet Reject {
    Order,
    char[] sym,
}

root packet Quote {
    string price,
    i64 Flags,
    repeat Fill,
    zchar[9] x,
    f32 lastPx,
    repeat Ack,
}")).
Eval vm_compute in ("<<<M1581>>>" ++ check (runes_of_ascii "

  options

{ LittleEndian =

    false ;
StringPrefixLenType	=
u16  ;
ArrayPrefixLenType=
u8 ;FixedStringPadChar=

'0'  ;

    } 
packet

    Leg {

    zchar[  1
	]
Ref
,repeat string count , repeat  InMsgkind21

{
repeat char[ 2 
]

price,
uint64
sym

    , zchar[

9
	]
msgKind
	, 
},
zchar[

5 
] Note 
,}
	packet  Ack
	{

    u16
    seqNo 
, 
repeat
    char[ 
1  ]Acct 
,
@leftPad

( ' '  )
    char[ 
4
] msgKind

,
    repeat
    InTag747
	{
Leg,	}  , repeat string
	Tail

    ,  Leg, } packet
    Trade
{u64	clOrdID , repeat InLastpx24
    {

char[ 10
    ]
	Note,
char[	3  ]

Qty
,  repeat  char[
2
	]
Side2 ,

    Ack ,repeat
InX47 
{ Ack	,
}	,
	} ,  }	root
packet 
Heartbeat {	repeat	u64
    Acct

    ,
    string 
lastPx
, u8
Side2	,
match

    Side2

    as  Body{2  :	Trade
, 
157 :Ack	, 46

    :

    Leg, 
} ,

u32  sym
@calculatedFrom(""CR\
C32""
) , }")).
Eval vm_compute in ("<<<M1196>>>" ++ check (runes_of_ascii "// top
options
    // c0
{
    // c1
}
    // c2
MetaData
    // c3
packetx
    // c4
{
    // c5
int
    // c6
falsey
    // c7
`two words`
    // c8
,
    // c9
int32
    // c10
trueish
    // c11
,
    // c12
char[]
    // c13
u8x
    // c14
,
    // c15
A
    // c16
x
    // c17
`// not a comment`
    // c18
,
    // c19
}
    // c20
root
    // c21
packet
    // c22
i8i8
    // c23
{
    // c24
@lengthOf(
    // c25
repeatCount
    // c26
)
    // c27
@tag(
    // c28
1
    // c29
)
    // c30
@calculatedFrom(
    // c31
""a	b""
    // c32
)
    // c33
string
    // c34
stringy
    // c35
@calculatedFrom(
    // c36
""\n""
    // c37
)
    // c38
`line1
line2`
    // c39
,
    // c40
pack
    // c41
`100% of %d`
    // c42
,
    // c43
}
    // c44
")).
Eval vm_compute in ("<<<M169>>>" ++ check (runes_of_ascii "MetaData
i8i8	{
char[// " ++ [128512]%N ++ runes_of_ascii " emoji
00 ] msg_type
`say ""hi""`  ,
} // " ++ [128512]%N ++ runes_of_ascii " emoji
MetaData// packet A { u8 x, }
charz
{ zchar[ 0
]
    options1 ,	}packet	MetaDataX
{ // packet A { u8 x, }
Header /// triple
u8x`// not a comment` ,
    x rootA , @lengthOf(falsey
    )
@lengthOf(
//x
// " ++ [27880; 37322]%N ++ runes_of_ascii "
i8i8
    )
    match MetaDataX as stringy { [// " ++ [128512]%N ++ runes_of_ascii " emoji
""" ++ [128512]%N ++ runes_of_ascii """ // @lengthOf(
, ""a\""b""  ] : i64_// c
,} , } MetaData
    // `tick` ""quote"" 'q'
    msg_type { string
// `tick` ""quote"" 'q'
// trailing space 
zchar `doc` ,
    //
    } MetaData leftPad{ uint8 x`crlf
line`
, i32 msg_type
// packet A { u8 x, }
//x
`// not a comment` ,
char[255] leftPad , // a // b
char[]
    u , //	t
} 	 ")).
Eval vm_compute in ("<<<M1478>>>" ++ check (runes_of_ascii "packet int {
    /// triple
    lengthOf,// " ++ [27880; 37322]%N ++ runes_of_ascii "
    match x_y_z as trueish {
        [""it's"", 0123456789] : i64_,
    },
    @tag(255)
    @leftPad(// packet A { u8 x, }
        '0' )
    options1 @calculatedFrom(""1"") `
        `,// @lengthOf(
    @leftPad( '\x00')
    // packet A { u8 x, }
    len @lengthOf(rootA),
    i64_ packetx,
    @tag(42)
    int32 trueish,
    i8 options1 `two words`,
    @leftPad( '0'
        )
    char[1] calculatedFrom `tab	here`,
    @lengthOf(o)
    @tag(007)
    u8 _x @calculatedFrom(""`tick`""),
    repeatCount @lengthOf(MetaDataX),/// triple
}")).
Eval vm_compute in ("<<<M1371>>>" ++ check (runes_of_ascii "options {

LittleEndian  =	true

    ;	ArrayPrefixLenType  =
u32 ; 
FixedStringPadChar 
=
' ';
}

    packet
    Order 
{ char[
5 ]
    seqNo ,	uint8	Px , } packet 
Logon
{ @rightPad
    ('\x00'
)
char[  8 ]Flags

    ,
    zchar[ 
3
]

    count

,	repeat

    Order
    ,
}
    root

packet Party
	{ repeat 
Logon ,repeat

    char[
1
	]
	x , 
u32
price ,u32
Side2
	@lengthOf(
Body
	)	,	match	price

as 
Body 
{
    49

: Order,

196:

Logon  ,
	}  , u32
f1 @calculatedFrom(	""CRC32""

)  ,	}

")).
Eval vm_compute in ("<<<M1176>>>" ++ check (runes_of_ascii "// top
options
    // c0
{
    // c1
f32a
    // c2
=
    // c3
0
    // c4
}
    // c5
packet
    // c6
trueish
    // c7
{
    // c8
}
    // c9
MetaData
    // c10
_x
    // c11
{
    // c12
char[
    // c13
0123456789
    // c14
]
    // c15
zchar
    // c16
,
    // c17
string
    // c18
crc
    // c19
,
    // c20
char[
    // c21
1
    // c22
]
    // c23
options1
    // c24
,
    // c25
uint8
    // c26
repeatCount
    // c27
,
    // c28
}
    // c29
")).
Eval vm_compute in ("<<<M312>>>" ++ check (runes_of_ascii "packet  _x	{@calculatedFrom(
""it's""
/// triple
// " ++ [27880; 37322]%N ++ runes_of_ascii "
) A rootA , int8 Logon
`100% of %d`	, @lengthOf( As ) a1
lengthOf ,
float32 zchar
@calculatedFrom(""// no comment""
)
    ,} MetaData Packet
{
    packetx len
// packet A { u8 x, }
// 50% %s
, u16	_x `100% of %d` , uint8 roots
`{ , }`
    ,
falsey leftPad `say ""hi""`
    ,
} options// " ++ [128512]%N ++ runes_of_ascii " emoji
{ A =	10  ;
Pad
=  char ; i8i8// 50% %s
=
string	x_y_z =
    false// 50% %s
}
")).
Eval vm_compute in ("<<<M319>>>" ++ check (runes_of_ascii "
MetaData chars {
char[]f32a	`" ++ [28040; 24687; 31867; 22411]%N ++ runes_of_ascii "` ,
zchar[ 255 ] calculatedFrom , // @lengthOf(
a1
metadata
    ,
    // a // b
    u i64_ `
` , A asx `100% of %d` , }
    // `tick` ""quote"" 'q'
    MetaData int //x
{ char[] As
// 50% %s
// @lengthOf(
`// not a comment` , }
MetaData
    Header { int16
charz
    , uint64 u8x
    // c
    ,	string zchar , float64 options1 `// not a comment`,uint64 stringy , }
")).
Eval vm_compute in ("<<<M1512>>>" ++ check (runes_of_ascii "options {
    LittleEndian = true;
    StringPrefixLenType = u32;
    ArrayPrefixLenType = u64;
}

packet Logon {
    string OrderId,
    uint32 lastPx,
    repeat char[6] Side2,
    i64 Tail,
    repeat i8 f1,
}

packet Party {
}

packet Quote {
    repeat char[6] clOrdID,
    repeat Logon,
}

root packet Order {
    zchar[5] Acct,
    repeat f64 price,
}")).
Eval vm_compute in ("<<<M131>>>" ++ check (runes_of_ascii "MetaData  u
{ f64 roots , zchar trueish,}  root
    packet Foo // @lengthOf(
{ packetx  ,
repeat zchar[ // trailing space 
3 ]
    // " ++ [128512]%N ++ runes_of_ascii " emoji
    msg_type `
` ,  } root packet Header { match u8x
as options1 {
4294967296 :metadata , // `tick` ""quote"" 'q'
4294967296
    :
    // trailing space 
    float , }
    ,//x
}")).
Eval vm_compute in ("<<<M48>>>" ++ check (runes_of_ascii "  options
{ len	= 00
;
//	t
// packet A { u8 x, }
charz= zchar[ 3 ] //
; Pad
=
255 ;
falsey
=""" ++ [28040; 24687]%N ++ runes_of_ascii """ }root packet
    repeatCount { char[4294967296
] x_y_z @lengthOf(string_ )
,@calculatedFrom(
""packet""
) @tag(	4294967296 ) float32
asx @lengthOf(
    x_y_z ), u64
    zchar , } 	 ")).
Eval vm_compute in ("<<<M1914>>>" ++ check (runes_of_ascii "// packet A { u8 x, }
root packet zchar {
    @leftPad( '\x00' )
    repeat Logon BodyLength,
    @rightPad(  )
    @calculatedFrom(""a\""b"")
    @tag(42)
    repeat _x MetaDataX,
    @leftPad( '0'
            )
    string calculatedFrom @calculatedFrom(""it's""),
}")).
Eval vm_compute in ("<<<M437>>>" ++ check (runes_of_ascii "packet
    asx { @calculatedFrom(
""""  ) @tag( 255 )repeat
// packet A { u8 x, }
// trailing space 
int16 int16 u8x
,
@tag(
    //
    007 )
    @tag( 0
    /// triple
    ) @tag( 1) u
    @lengthOf( T ),
// `tick` ""quote"" 'q'
//x
} // " ++ [128512]%N ++ runes_of_ascii " emoji")).
Eval vm_compute in ("<<<M477>>>" ++ check (runes_of_ascii "packet
    asx { @calculatedFrom(
""""  ) @tag( 255 )repeat
// packet A { u8 x, }
// trailing space 
int16 u8x
,
@tag(
    //
    007 )
    @tag( 0
    /// triple
    ) ) @tag( 1) u
    @lengthOf( T ),
// `tick` ""quote"" 'q'
//x
} // " ++ [128512]%N ++ runes_of_ascii " emoji")).
Eval vm_compute in ("<<<M418>>>" ++ check (runes_of_ascii "packet
    asx { @calculatedFrom(
""""  ) 255 @tag( )repeat
// packet A { u8 x, }
// trailing space 
int16 u8x
,
@tag(
    //
    007 )
    @tag( 0
    /// triple
    ) @tag( 1) u
    @lengthOf( T ),
// `tick` ""quote"" 'q'
//x
} // " ++ [128512]%N ++ runes_of_ascii " emoji")).
Eval vm_compute in ("<<<M409>>>" ++ check (runes_of_ascii "packet
    asx { @calculatedFrom(
:  ) @tag( 255 )repeat
// packet A { u8 x, }
// trailing space 
int16 u8x
,
@tag(
    //
    007 )
    @tag( 0
    /// triple
    ) @tag( 1) u
    @lengthOf( T ),
// `tick` ""quote"" 'q'
//x
} // " ++ [128512]%N ++ runes_of_ascii " emoji")).
Eval vm_compute in ("<<<M431>>>" ++ check (runes_of_ascii "packet
    asx { @calculatedFrom(
""""  ) @tag( 255 )
// packet A { u8 x, }
// trailing space 
int16 u8x
,
@tag(
    //
    007 )
    @tag( 0
    /// triple
    ) @tag( 1) u
    @lengthOf( T ),
// `tick` ""quote"" 'q'
//x
} // " ++ [128512]%N ++ runes_of_ascii " emoji")).
Eval vm_compute in ("<<<M1339>>>" ++ check (runes_of_ascii "
packet
Logon
	{  string
user,	}
    root  packet
Frame
{u8 K ,match

K
as	Body
	{

1
:	Logon,  2
    : Logout
,

    }

,
    Tail,
    }
    packet
Logout {u16
reason

,
}
    packet  Tail

{  u32 crc  , }

")).
Eval vm_compute in ("<<<M184>>>" ++ check (runes_of_ascii "  root packet body
    {
string chars `" ++ [233]%N ++ runes_of_ascii "` , repeat uint8x, match uint8x as x // `tick` ""quote"" 'q'
{
    007
    //	t
    :
// c
// @lengthOf(
calculatedFrom , }	,
string_  falsey `
`
    ,
}

")).
Eval vm_compute in ("<<<M500>>>" ++ check (runes_of_ascii "packet
    asx { @calculatedFrom(
""""  ) @tag( 255 )repeat
// packet A { u8 x, }
// trailing space 
int16 u8x
,
@tag(
    //
    007 )
    @tag( 0
    /// triple
    ) @tag( 1)")).
Eval vm_compute in ("<<<M574>>>" ++ check (runes_of_ascii "MetaData u
    { } MetaData zchar[
{ float uint8x
`100% of %d` ,repeatCount u8x, string_ leftPad
, i32
    Foo , int64 x `two words` , calculatedFrom
stringy `a\` ,
}
")).
Eval vm_compute in ("<<<M642>>>" ++ check (runes_of_ascii "MetaData u
    { } MetaData o
{ float uint8x
`100% of %d` ,repeatCount u8x, string_ leftPad
, i32
    Foo , , int64 x `two words` , calculatedFrom
stringy `a\` ,
}
")).
Eval vm_compute in ("<<<M568>>>" ++ check (runes_of_ascii "MetaData u
    { } o MetaData
{ float uint8x
`100% of %d` ,repeatCount u8x, string_ leftPad
, i32
    Foo , int64 x `two words` , calculatedFrom
stringy `a\` ,
}
")).
Eval vm_compute in ("<<<M561>>>" ++ check (runes_of_ascii "MetaData u
    {  MetaData o
{ float uint8x
`100% of %d` ,repeatCount u8x, string_ leftPad
, i32
    Foo , int64 x `two words` , calculatedFrom
stringy `a\` ,
}
")).
Eval vm_compute in ("<<<M1829>>>" ++ check (runes_of_ascii "
options
{} 
    // c
      options

    { MetaDataX 
= char
    ; }MetaData

Pad {  i8 metadata
	,string

    stringy
,

    int8	As
    `{ , }` ,  }

")).
Eval vm_compute in ("<<<M601>>>" ++ check (runes_of_ascii "MetaData u
    { } MetaData o
{ float uint8x
`100% of %d` , u8x, string_ leftPad
, i32
    Foo , int64 x `two words` , calculatedFrom
stringy `a\` ,
}
")).
Eval vm_compute in ("<<<M1631>>>" ++ check (runes_of_ascii "  options { }options

    { 
MetaDataX	= char ;
	}

MetaData	Pad
    // c
    {i8
metadata
	,
string
    stringy 
,

    int8 As 
`{ , }`
, }")).
Eval vm_compute in ("<<<M8>>>" ++ check (runes_of_ascii "MetaData roots //
{ /// triple
char[65535 ] i64_,	char[ 0 ] int
`a\` ,
uint8 MetaDataX , } packet
asx{
char[ 007 ] len
    `
`
,
}
")).
Eval vm_compute in ("<<<M1776>>>" ++ check (runes_of_ascii "packet
	A{

match k

as

    n{

[1

, 22,  ""c c"" , 4
	, 5	, ""f""
	, 
7 ,
	8 
,	""i""
	,
    10	,
11] 
: B,  2 :C 
}
	,

    }")).
Eval vm_compute in ("<<<M1931>>>" ++ check (runes_of_ascii "packet
    A {u16

len
	@lengthOf(  body 
)`a
b`	,
	u32

crc 
@calculatedFrom(	""CRC32"" ) `a
b`,string	body

    , } ")).
Eval vm_compute in ("<<<M1206>>>" ++ check (runes_of_ascii "options {
// c
} options { MetaDataX = char ; } MetaData Pad { i8 metadata , string stringy , int8 As `{ , }` , }")).
Eval vm_compute in ("<<<M1238>>>" ++ check (runes_of_ascii "options { } options { MetaDataX = char ; } MetaData Pad { i8 metadata , string stringy
// c
, int8 As `{ , }` , }")).
Eval vm_compute in ("<<<M645>>>" ++ check (runes_of_ascii "MetaData u
    { } MetaData o
{ float uint8x
`100% of %d` ,repeatCount u8x, string_ leftPad
, i32
    Foo")).
Eval vm_compute in ("<<<M910>>>" ++ check (runes_of_ascii "packet A {
  match k as n {
    [1, 22, ""c c"", 4, 5, ""f"", 7, 8, ""i"", 10, 11, ""l""] : B,
    2 : C
  },
}")).
Eval vm_compute in ("<<<M62>>>" ++ check (runes_of_ascii "
options
    { calculatedFrom
    =  int8 ;
metadata
=string ; Logon =
    int8 //
Foo = 42 ; }
")).
Eval vm_compute in ("<<<M1926>>>" ++ check (runes_of_ascii "// top
root packet P {
    // c3
    repeat char cs,
    // c7
    u8 x,// c10
}// c11a
// c11b")).
Eval vm_compute in ("<<<M856>>>" ++ check (runes_of_ascii "packet A {
  match k as n {
    [""a"", 22, ""c c"", 4, ""e"", 66, ""g"", 8] : B,
    2 : C
  },
}")).
Eval vm_compute in ("<<<M1318>>>" ++ check (runes_of_ascii "

  packet 
orderItem{
u8 
a
,
    }root packet
newOrder

    {orderItem	,u8
	x, }
")).
Eval vm_compute in ("<<<M527>>>" ++ check (runes_of_ascii "packet
    asx { @calculatedFrom(
""""  ) @tag( 255 )repeat
// packet A { u8 x, }
/")).
Eval vm_compute in ("<<<M86>>>" ++ check (runes_of_ascii "MetaData	f32a // @lengthOf(
{ // `tick` ""quote"" 'q'
charz msg_type , } // " ++ [27880; 37322]%N)).
Eval vm_compute in ("<<<M1260>>>" ++ check (runes_of_ascii "packet Inner {
    u8 a,
}
root packet P {
    Inner ref_obj,
    u8 x,
}
")).
Eval vm_compute in ("<<<M1459>>>" ++ check (runes_of_ascii "// a // b
MetaData 	 //x
  	repeatCount{
	string 
uint8x  ,

    }
")).
Eval vm_compute in ("<<<M785>>>" ++ check (runes_of_ascii "packet A {
  match k as n {
    [1, 22, 007] : B,
    2 : C
  },
}")).
Eval vm_compute in ("<<<M776>>>" ++ check (runes_of_ascii "packet A {
  match k as n {
    [1, 22] : B,
    2 : C
  },
}")).
Eval vm_compute in ("<<<M797>>>" ++ check (runes_of_ascii "packet A { Inner { match k as n { [1,22,007] : B, }, }, }")).
Eval vm_compute in ("<<<M73>>>" ++ check (runes_of_ascii "options {
} packet
Foo
{
// 50% %s
// @lengthOf(
}
")).
Eval vm_compute in ("<<<M1777>>>" ++ check (runes_of_ascii "
packet

A{u8

    x
	`d x`
    ,// c x
}
")).
Eval vm_compute in ("<<<M1684>>>" ++ check (runes_of_ascii "
packet

    A
	{
    } 
    // c" ++ [133]%N ++ runes_of_ascii "
 
")).
Eval vm_compute in ("<<<M172>>>" ++ check (runes_of_ascii "MetaData
//x
// @lengthOf(
i8i8 { }
")).
Eval vm_compute in ("<<<M276>>>" ++ check (runes_of_ascii "packet crc// `tick` ""quote"" 'q'
{}")).
Eval vm_compute in ("<<<M974>>>" ++ check (runes_of_ascii "root packet A {
    u8 x `%`,
}")).
Eval vm_compute in ("<<<M257>>>" ++ check (runes_of_ascii "packet calculatedFrom
{} 	 ")).
Eval vm_compute in ("<<<M220>>>" ++ check (runes_of_ascii "packet Packet
    { } 	 ")).
Eval vm_compute in ("<<<M1411>>>" ++ check (runes_of_ascii "MetaData 
x_y_z	{  }
")).
Eval vm_compute in ("<<<M1000>>>" ++ check (runes_of_ascii "packet A {
}
// c" ++ [12288]%N)).
Eval vm_compute in ("<<<M1093>>>" ++ check (runes_of_ascii "MetaData M {
}// c")).
Eval vm_compute in ("<<<M1685>>>" ++ check (runes_of_ascii "root packet A {
}")).
Eval vm_compute in ("<<<M730>>>" ++ check (runes_of_ascii "// a
// b
")).
Eval vm_compute in ("<<<M731>>>" ++ check (runes_of_ascii "


")).
