From FP Require Import Lexer Parser ShowPT Digest Formatter.
From Coq Require Import String List NArith.
Import ListNotations.
Open Scope string_scope.
Set Printing Width 100000000.
Set Printing Depth 100000000.
Definition show_fres (r : fres) : string :=
  match r with
  | FOk s => "OK:" ++ sh_escaped s ""
  | FErr s => "ERR:" ++ sh_escaped s ""
  | FPanic p => "PANIC:" ++ p
  end.
Definition check (rs : list rune) : string := digest (show_fres (format_res rs)).
Definition full (rs : list rune) : string := show_fres (format_res rs).
Eval vm_compute in ("<<<M23>>>" ++ check (runes_of_ascii "root packet
u128 { @lengthOf(
    A// " ++ [27880; 37322]%N ++ runes_of_ascii "
)pack@calculatedFrom( ""`tick`"" ),
repeat
    char[]	As `crlf
line`
    // " ++ [27880; 37322]%N ++ runes_of_ascii "
    , @tag( 4294967296 ) @rightPad
('\x00'	) @calculatedFrom( ""a\\"" ) tag { repeat string o
    ,char[]  calculatedFrom `u8 x,`
,
u
    // " ++ [128512]%N ++ runes_of_ascii " emoji
    { u64
    body
    `say ""hi""`
    ,	repeat f32
    int ,repeat rootA { repeat string i64_ `it's`
    //	t
    ,As
    @calculatedFrom(
"""" ) `" ++ [233]%N ++ runes_of_ascii "`
    ,tag `" ++ [233]%N ++ runes_of_ascii "`, } , zchar[ 65535 ] trueish
    , } ,}	, @lengthOf( Logon )i8// @lengthOf(
Packet , @tag(
3 ) @lengthOf( chars ) @tag( 10 ) u8
    Foo ,
    // " ++ [128512]%N ++ runes_of_ascii " emoji
    i64_
    _x`crlf
line`,
    u32
    A , match a1 as i8i8 { [""1"" ,4294967296
]  :
a1, """" :a1	, 007
: a1, [ ""CRC32""
]
: Header
    }
    , int64
As , } root	packet
chars { x_y_z {
    // a // b
    u32 u128 ,
float64 metadata
    , trueish
    @calculatedFrom(""it's"" ) `u8 x,`,
    } , @calculatedFrom( ""\n"" )
repeat
    // c
    Foo
pack, string
    asx
@lengthOf( x_y_z ) `a\` ,
    uint8 // `tick` ""quote"" 'q'
trueish @calculatedFrom( ""a\""b""
)  , @leftPad
( ) char[
007 ] a1
    @lengthOf(
a1)
    `crlf
line`
,rootA msg_type, zchar[ 1
]  u8x @calculatedFrom( ""`tick`""
) , }
    options
{ } packet crc {// a // b
@lengthOf(leftPad ) @tag( 7
    )//	t
@lengthOf(
options1  )
int32 asx , @rightPad
( )
pack roots , string
a1
    `say ""hi""` , match body
    // packet A { u8 x, }
    as matchKey
    {[
""`tick`""
    // @lengthOf(
    ]:	string_
    },
    //	t
    repeat uint16 Packet , repeat uint8 i64_ , @lengthOf( Pad	) /// triple
A // trailing space 
`// not a comment` ,
char[]u8x
    , repeat
    char[ 007 ] pack	, A
    { // " ++ [27880; 37322]%N ++ runes_of_ascii "
x { string
    uint8x @lengthOf( leftPad  )`say ""hi""` // packet A { u8 x, }
,Packet T
// `tick` ""quote"" 'q'
// c
, As @lengthOf(
// " ++ [27880; 37322]%N ++ runes_of_ascii "
// c
string_ ) `// not a comment` , }, char[] _x@lengthOf(
o )
    // 50% %s
    ,
    len x , },
    //
    }
")).
Eval vm_compute in ("<<<M1872>>>" ++ check (runes_of_ascii "//	t
packet MetaDataX {
    @leftPad()
    repeat float64 asx,
}

MetaData Foo {
    // a // b
    char[65535] Pad,
}

packet body {
    match asx as charz {
        // `tick` ""quote"" 'q'
        10 : u8x,
        ""it's"" : leftPad,
        3 : metadata,
        ""it's"" : x,
        [65535, """ ++ [233]%N ++ runes_of_ascii "t" ++ [233]%N ++ runes_of_ascii """] : u128,
        10 : len,
    },
    repeat f32 rootA ``,// 50% %s
    @leftPad(' ')
    repeat i64 BodyLength,
    repeatCount {
        i16 crc @lengthOf(u128),
    },
    u16 u @lengthOf(f32a) `// not a comment`,// trailing space 
    len {
        match Logon as Foo {
            """ ++ [233]%N ++ runes_of_ascii "t" ++ [233]%N ++ runes_of_ascii """ : stringy,
            10 : msg_type,
            //	t
            [
                ""\n"", ""`tick`"", ""abc"", """", 007,
                1, ""a\""b""
            ] : i64_,
            255 : T,
            ""{,}"" : f32a,
        },
        string tag @lengthOf(Z9_),
        // a // b
        u32 charz `crlf
                line`,
        u8x @lengthOf(rootA),
    },
    float,
    int8 repeatCount @lengthOf(f32a) `crlf
        line`,
    zchar[7] BodyLength @lengthOf(string_),
}

packet u128 {
    x `// not a comment`,
}//

packet x {
    A `doc`,
    Packet @calculatedFrom(""\" ++ [233]%N ++ runes_of_ascii """) `say ""hi""`,
    repeat string asx,
    @lengthOf(MetaDataX)
    repeat char[4294967296] string_ `u8 x,`,
    @lengthOf(charz)
    char[0123456789] f32a `say ""hi""`,
}")).
Eval vm_compute in ("<<<M1607>>>" ++ check (runes_of_ascii "

  root packet u8x { body @lengthOf( 
i64_ )
	`` ,@lengthOf(Foo)

    //x
// `tick` ""quote"" 'q'
  string_ 
@lengthOf( int ),
@lengthOf(

rootA	//	t
	)@tag(255 // c

	)	match Logon

as
    roots

    { 1
:

    x_y_z

,} ,}	packet	len  {@tag(	0123456789
) 
@leftPad
	( 
'\x00'

    ) i8i8 { 

//x
// @lengthOf(
len
	`u8 x,` 
,	}  ,	@tag(
0123456789	// 50% %s
)	u8x 
A, 
char[007
] int  ,
@leftPad(
'\x00' )

    float64 len
`100% of %d` ,

    }packet

crc
{
	// `tick` ""quote"" 'q'
	  // `tick` ""quote"" 'q'

match
	calculatedFrom	as leftPad 
{ [	// packet A { u8 x, }

""" ++ [233]%N ++ runes_of_ascii "t" ++ [233]%N ++ runes_of_ascii """  ]
:
Foo ""1""
:  Packet  , 1 : stringy

    [ 4294967296 

    // c
	  , 
""a	b"" ]:	leftPad

    ,

[

""" ++ [233]%N ++ runes_of_ascii "t" ++ [233]%N ++ runes_of_ascii """
    ,

"""",
4294967296 , 0123456789,4294967296 ,  ""CRC32""
	,
    0123456789
    , """"]

:
    rootA 
}
, 
@rightPad
    (	)

roots
{	As 	 //x
		, repeat
zchar[
1 ]
    falsey
,repeat  char[]

repeatCount ,
    }//	t
		, roots `a\`,	match  charz

    as	i8i8{ [

    ""\" ++ [233]%N ++ runes_of_ascii """,	""" ++ [233]%N ++ runes_of_ascii "t" ++ [233]%N ++ runes_of_ascii """ ]

: 
  // c
	// @lengthOf(
  o // @lengthOf(
, 
42 :

matchKey
	,
00:

    body, ""a\\""
	:	rootA
,
} ,
}

")).
Eval vm_compute in ("<<<M1368>>>" ++ check (runes_of_ascii "  options {LittleEndian	=true;
StringPrefixLenType

=

    u16 ; ArrayPrefixLenType 
=
	u8
; FixedStringPadChar  =' '
    ; 
}packet

Ack

    {

@leftPad	(
' ')char[
5 ] lastPx 
,
zchar[	4 ]	count

    ,  repeat InVenue30  {
char[ 
9 ]  Side2 ,
    char[ 12 ]  venue
,
}

    , } 
packet
	Order	{ int16
    Note,  repeat	InAcct28
    {	InSym3

    { Ack ,char[  4]lastPx,
    char[

    1] venue , f32  Ref,	}, 
repeat
InTag729

{char[
	3 
] Side2
    ,

uint64 Acct 
,
	char[] price
    ,zchar[
9 ]
    Note

    ,

    zchar[9]
    venue
    ,
},char[]
count,
Ack ,
char[] Px, } ,u8
	f1,
Ack , 
} packet

    Fill{	zchar[7

] 
x
,Order

,

    @leftPad  (
' '
) char[
	9 ]

    venue
, 
string	count 
,	char[]  Flags
, }	packet 
Logon{
    }	packet
    Reject
    { Order , char[]
sym,
}
root packet Quote {string price

,i64 Flags ,
	repeat

Fill
,
zchar[
	9]
x
, f32 lastPx ,
    repeat

    Ack
	, }
")).
Eval vm_compute in ("<<<M1917>>>" ++ check (runes_of_ascii "
root packet// packet A { u8 x, }
		i8i8
    { @rightPad
( 	 // 50% %s
		)
	char[]	i64_  ,string

f32a @calculatedFrom(
    ""a\""b"" )
    // @lengthOf(
	// packet A { u8 x, }
,

@tag(
255
)
@calculatedFrom(
""a	b"" ) @lengthOf(	u128	) match
float

    as
metadata
    {""\" ++ [233]%N ++ runes_of_ascii """

    :  x_y_z	, 10
: 

// `tick` ""quote"" 'q'
// `tick` ""quote"" 'q'
	Packet
	,

    """"
	:
asx ,
	} ,@lengthOf(asx
	) 	 /// triple
match matchKey 
// trailing space 
		// c
as
Foo{ 
""// no comment""

    :	trueish	42 : len,
42:

    options1

    ""x y""  :
	x_y_z
	""CRC32""

    // a // b
  // packet A { u8 x, }
:
	zchar
0123456789 
:pack , }

    , }
MetaData
crc{
string
    repeatCount ,  //	t
      char[]
a1	, 
// 50% %s
      // `tick` ""quote"" 'q'

char 
msg_type	, pack rootA  ,
    u64
Pad ,}")).
Eval vm_compute in ("<<<M14>>>" ++ check (runes_of_ascii "
packet Pad { @calculatedFrom( ""x y"") repeat f64 x
`tab	here`, @rightPad
    ( ) char[]
float@calculatedFrom(
""" ++ [233]%N ++ runes_of_ascii "t" ++ [233]%N ++ runes_of_ascii """ ) ,match uint8x as
falsey//x
{ ""CRC32""
:
    leftPad } ,@tag(
    //	t
    10 )
    repeat Pad {
    // " ++ [128512]%N ++ runes_of_ascii " emoji
    zchar[42 ] uint8x@lengthOf( o)
,
// `tick` ""quote"" 'q'
//x
i16 x_y_z , stringy
    @calculatedFrom(
""`tick`""
) `a\` ,}, Header// c
repeatCount ,
i64_	, @lengthOf( //x
uint8x
    ) match options1 as BodyLength
{ 0
    :
    chars //x
, 255: BodyLength 0123456789
    :Foo
    , [ 65535
    , 42 , 42 ,
    65535 ,
255// " ++ [27880; 37322]%N ++ runes_of_ascii "
, 1
    // @lengthOf(
    , ""1"",
""\n""] : pack
} , repeat
    i8i8 msg_type , @lengthOf(f32a	) // @lengthOf(
T BodyLength
, }
")).
Eval vm_compute in ("<<<M238>>>" ++ check (runes_of_ascii "packet _x{zchar[ 65535 ]  metadata `crlf
line` , @calculatedFrom( ""CRC32"") Header
    `doc` //x
,
    match f32a as msg_type{
    [
    ""\n"" ] // `tick` ""quote"" 'q'
:	charz
0123456789
:pack , [ ""packet""	, """" , ""`tick`""// " ++ [128512]%N ++ runes_of_ascii " emoji
, // `tick` ""quote"" 'q'
""CRC32"" , ""\n""
    // @lengthOf(
    , ""it's""
, ""it's""
,
// @lengthOf(
//x
4294967296 ] : charz /// triple
42
:// @lengthOf(
leftPad ,
[
    // 50% %s
    255 ,7,  ""packet""
    ,
""{,}"" , ""\" ++ [233]%N ++ runes_of_ascii """
, ""1"" ,
    ""1""] // " ++ [27880; 37322]%N ++ runes_of_ascii "
:	msg_type, [ """ ++ [128512]%N ++ runes_of_ascii """
]: //
i64_ }
,
repeat
u8x
    body , } MetaData
roots {	u8x packetx `two words` , // trailing space 
}")).
Eval vm_compute in ("<<<M1936>>>" ++ check (runes_of_ascii "
MetaData	u128  { 
}
MetaData

    a1

    { }  // " ++ [128512]%N ++ runes_of_ascii " emoji
	root packet 
o
	{
	char[
	10 
]	stringy @lengthOf(
/// triple

	// 50% %s
  	Z9_	//	t
    	)
, match	x_y_z
as 
stringy
    { 
3:
	float,
    }
,  @leftPad

    (
' '
)
u128  { repeat  i32	msg_type
	`it's` ,
    x ,
	repeat 
char[	//
	65535 ]
T 
,

match
A as
i8i8{ """ ++ [128512]%N ++ runes_of_ascii """ : 
Logon
,
},
    }
	,	}MetaData	x_y_z

    { // @lengthOf(
	options1	a1

, u8x
    x_y_z	`tab	here`  ,

    char
    MetaDataX
,	// " ++ [27880; 37322]%N ++ runes_of_ascii "
zchar[ 65535
]
chars ,
char[]  crc  `doc`  ,
}
")).
Eval vm_compute in ("<<<M128>>>" ++ check (runes_of_ascii "packet asx {u32
asx,char[ 0123456789	] crc
@calculatedFrom( ""1""
    ) `{ , }`  ,  @tag(
    42
)
@tag( 7 )
    msg_type{asx @calculatedFrom( ""a	b""
    )`it's` , },
@calculatedFrom(	""\n"" ) // " ++ [128512]%N ++ runes_of_ascii " emoji
char[ 3
] float
    ,zchar[	4294967296
]
zchar	,@lengthOf( roots)
i16
int @lengthOf(
i64_ )
, i16 pack
    @lengthOf(
    u128 )
    , @lengthOf(
    // 50% %s
    msg_type ) char[] A , repeat	char[]tag`a\` ,
}
//	t
// @lengthOf(
packet
pack
    { u	@lengthOf(
    a1
    )	`say ""hi""`, }
//	t
")).
Eval vm_compute in ("<<<M1802>>>" ++ check (runes_of_ascii "
options{

    ArrayPrefixLenType
=
    u64
;
FixedStringPadFromLeft
    =  true	; FixedStringPadChar
	= '0'	;

    } packet Order { 
} root  packet Leg { char[]

Ref 
,	repeat
Order	, f32
Acct, @leftPad
(

'0'	)
char[ 
10

    ]	venue 
,  @rightPad  ( 
'0'
	)  char[ 3

]
seqNo ,repeat u64	Px ,

    u8
	Flags 
,
    u32
lastPx @lengthOf(
Body ) 
, match

    Flags as Body {

185 :
Order 
,  }  , u16
	sym @calculatedFrom( ""CR\
C32"")
    ,	} ")).
Eval vm_compute in ("<<<M1976>>>" ++ check (runes_of_ascii "options
	{ } 
root
	packet chars
    {@rightPad

    ( '0' 
)	chars
f32a

    `say ""hi""`

,
int16  u8x ,

    @tag( 4294967296
	)

    @rightPad	// packet A { u8 x, }
	( 
)
u64

packetx
@calculatedFrom(""it's""

)	,

    @calculatedFrom( 
  // `tick` ""quote"" 'q'
  	""\n"" )
	o@calculatedFrom(
    ""a\""b"" 
)
	,
    Logon	@lengthOf(BodyLength),}
options 
{
} MetaData 
zchar  { u64
MetaDataX`// not a comment`,  }")).
Eval vm_compute in ("<<<M253>>>" ++ check (runes_of_ascii "packet // a // b
u8x  {// trailing space 
repeat roots{ zchar[ 42
]
// 50% %s
// a // b
u@lengthOf( i64_)  `line1
line2`
, f64 Packet
`` , zchar[
    4294967296 ]
msg_type ,
}, }root packet rootA{
    @calculatedFrom( ""// no comment""
)  @calculatedFrom(// " ++ [128512]%N ++ runes_of_ascii " emoji
""" ++ [233]%N ++ runes_of_ascii "t" ++ [233]%N ++ runes_of_ascii """ ) match	body
    as Foo
    /// triple
    {  10 :
a1} , @tag( 42 )@calculatedFrom( ""1"" )
repeat int64 float  `u8 x,` ,}
")).
Eval vm_compute in ("<<<M1463>>>" ++ check (runes_of_ascii "  MetaData // 50% %s

	body {Foo Packet
`a\`  , T float
	, 
int64
Logon`// not a comment` ,zchar[
0  ] i64_ /// triple

`" ++ [28040; 24687; 31867; 22411]%N ++ runes_of_ascii "` 
, 	 // `tick` ""quote"" 'q'
    char[	7  // @lengthOf(
]  calculatedFrom	,  int16 Logon

, }  MetaData
i64_{int	//
  leftPad

`// not a comment`

    , trueish
	Logon ,
    string	Header

    `doc`

,  // packet A { u8 x, }

}")).
Eval vm_compute in ("<<<M241>>>" ++ check (runes_of_ascii "MetaData A { u32 charz `doc` , // 50% %s
char[ 255 ] packetx ,uint64
f32a `" ++ [233]%N ++ runes_of_ascii "` ,
x Packet  `{ , }`
,}MetaData BodyLength {	zchar[ 007
] Packet ,
    BodyLength leftPad ,char	packetx , zchar[ 3 ]
    // @lengthOf(
    _x // trailing space 
, string i8i8 ,
} MetaData MetaDataX	{	metadata BodyLength
/// triple
// 50% %s
`doc` , }
")).
Eval vm_compute in ("<<<M298>>>" ++ check (runes_of_ascii "// trailing space 
options { MetaDataX =	zchar[	3
    ] ; packetx = true u128= ""\" ++ [233]%N ++ runes_of_ascii """
    // packet A { u8 x, }
    ; x = 1 x
= true;  } MetaData u8x  { float64 leftPad  , a1
As `it's` , int16 // a // b
metadata
, As Packet
    `100% of %d`, leftPad uint8x
`it's` , As
Foo, // 50% %s
}
")).
Eval vm_compute in ("<<<M1721>>>" ++ check (runes_of_ascii "packet P1 {
    u8 a,
}

packet P2 {
    P1,
}

packet P3 {
    P2,
    P1,
}

packet P4 {
    repeat P3,
    P2,
}

root packet P5 {
    P4,
    P3,
    P1,
    u8 K,
    match K as Body {
        4 : P4,
        3 : P3,
        2 : P2,
        1 : P1,
    },
}")).
Eval vm_compute in ("<<<M482>>>" ++ check (runes_of_ascii "packet
    asx { @calculatedFrom(
""""  ) @tag( 255 )repeat
// packet A { u8 x, }
// trailing space 
int16 u8x
,
@tag(
    //
    007 )
    @tag( 0
    /// triple
    ) @tag( @tag( 1) u
    @lengthOf( T ),
// `tick` ""quote"" 'q'
//x
} // " ++ [128512]%N ++ runes_of_ascii " emoji")).
Eval vm_compute in ("<<<M512>>>" ++ check (runes_of_ascii "packet
    asx { @calculatedFrom(
""""  ) @tag( 255 )repeat
// packet A { u8 x, }
// trailing space 
int16 u8x
,
@tag(
    //
    007 )
    @tag( 0
    /// triple
    ) @tag( 1) u
    @lengthOf( T ) ),
// `tick` ""quote"" 'q'
//x
} // " ++ [128512]%N ++ runes_of_ascii " emoji")).
Eval vm_compute in ("<<<M448>>>" ++ check (runes_of_ascii "packet
    asx { @calculatedFrom(
""""  ) @tag( 255 )repeat
// packet A { u8 x, }
// trailing space 
int16 u8x
@tag(
,
    //
    007 )
    @tag( 0
    /// triple
    ) @tag( 1) u
    @lengthOf( T ),
// `tick` ""quote"" 'q'
//x
} // " ++ [128512]%N ++ runes_of_ascii " emoji")).
Eval vm_compute in ("<<<M476>>>" ++ check (runes_of_ascii "packet
    asx { @calculatedFrom(
""""  ) @tag( 255 )repeat
// packet A { u8 x, }
// trailing space 
int16 u8x
,
@tag(
    //
    007 )
    @tag( 0
    /// triple
     @tag( 1) u
    @lengthOf( T ),
// `tick` ""quote"" 'q'
//x
} // " ++ [128512]%N ++ runes_of_ascii " emoji")).
Eval vm_compute in ("<<<M1302>>>" ++ check (runes_of_ascii "// top
root // c0
packet // c1
P // c2a
  // c2b
{ // c3a
  // c3b
u8 // c4a
  // c4b
s_u8 // c5a
  // c5b
, repeat
    // c7
u8 // c8a
  // c8b
r_u8 // c9a
  // c9b
,
    // c10
u16
    // c11
b_len // c12
, // c13a
  // c13b
} ")).
Eval vm_compute in ("<<<M1516>>>" ++ check (runes_of_ascii "  packet
    Pad{  /// triple
    trueish
    {
    uint16
    Packet	@lengthOf(
    i8i8
    )

`" ++ [28040; 24687; 31867; 22411]%N ++ runes_of_ascii "`
    , Logon	,

    repeat	// `tick` ""quote"" 'q'
zchar[	255 ]
	f32a
	`say ""hi""`
, }	,
	    //	t
	} ")).
Eval vm_compute in ("<<<M1322>>>" ++ check (runes_of_ascii "options {
    FixedStringPadChar = '0';
}
packet Q {
    zchar[4] z,
    @rightPad('\x00') char[3] n,
    char[5] d,
}
root packet R {
    Q,
    zchar[8] top,
    repeat zchar[2] zs,
}
")).
Eval vm_compute in ("<<<M1431>>>" ++ check (runes_of_ascii "MetaData u {
}

MetaData o {
    float uint8x `100% of %d`,
    repeatCount u8x,
    string_ leftPad,
    i32 Foo,
    int64 x `two words`,
    stringy calculatedFrom `a\`,
}")).
Eval vm_compute in ("<<<M1345>>>" ++ check (runes_of_ascii "  packet u128
{
	u8 a

,}
    root packet
Msg	{
    u8 k  ,
    u24
	{

u8 Hi
	, 
u16

    Lo
	,  }
    ,repeat i24{u32 q , } , u128  ,u16
	float32x
	, string
	s,	}
")).
Eval vm_compute in ("<<<M1483>>>" ++ check (runes_of_ascii "packet asx {
    @calculatedFrom("""")
    @tag(255)
    repeat int16 u8x,
    @tag(007)
    @tag(0)
    @tag(1)
    u @lengthOf(T),
    // `tick` ""quote"" 'q'
    //x
}")).
Eval vm_compute in ("<<<M628>>>" ++ check (runes_of_ascii "MetaData u
    { } MetaData o
{ float uint8x
`100% of %d` ,repeatCount u8x, string_ leftPad
i32 ,
    Foo , int64 x `two words` , calculatedFrom
stringy `a\` ,
}
")).
Eval vm_compute in ("<<<M721>>>" ++ check (runes_of_ascii "packet
crc
{repeat  Foo A  `u8 x,` ,	@lengthOf( uint8x ) string
matchKey @lengthOf( stringy ) `a\`
,
    // c
    }
MetaData chars{
leftPad
    //	t
    crc
`" ++ [233]%N ++ runes_of_ascii "`")).
Eval vm_compute in ("<<<M691>>>" ++ check (runes_of_ascii "MetaData u
    { } MetaData o
{ float uint8x
`100% of %d` ,repeatCount u8x, string_ leftPad
, i32
    Foo , int64 x `two words` , calculatedFrom
stringy `a")).
Eval vm_compute in ("<<<M1780>>>" ++ check (runes_of_ascii "packet Inner {
    // c2a
    // c2b
    u8 a,
    // c5
}// c6a

// c6b
root packet P {
    repeat Inner items,// c14a
    // c14b
    u8 x,
}
// c18")).
Eval vm_compute in ("<<<M1655>>>" ++ check (runes_of_ascii "MetaData uint8x {
    char msg_type `two words`,
    char[3] chars `say ""hi""`,
    zchar[007] zchar,
    // " ++ [128512]%N ++ runes_of_ascii " emoji
}// `tick` ""quote"" 'q'")).
Eval vm_compute in ("<<<M247>>>" ++ check (runes_of_ascii "root	packet
f32a { float32 // packet A { u8 x, }
pack`// not a comment`, // `tick` ""quote"" 'q'
}
packet
chars{
//	t
// " ++ [128512]%N ++ runes_of_ascii " emoji
}")).
Eval vm_compute in ("<<<M1426>>>" ++ check (runes_of_ascii "packet A {
    u16 len @lengthOf(body) `x
        `,
    u32 crc @calculatedFrom(""CRC32"") `x
        `,
    string body,
}")).
Eval vm_compute in ("<<<M1250>>>" ++ check (runes_of_ascii "options { } options { MetaDataX = char ; } MetaData Pad { i8 metadata , string stringy , int8 As `{ , }` , }
// c
")).
Eval vm_compute in ("<<<M1229>>>" ++ check (runes_of_ascii "options { } options { MetaDataX = char ; } MetaData Pad { i8 // c
metadata , string stringy , int8 As `{ , }` , }")).
Eval vm_compute in ("<<<M923>>>" ++ check (runes_of_ascii "packet A {
    u16 len @lengthOf(body) `a
b`,
    u32 crc @calculatedFrom(""CRC32"") `a
b`,
    string body,
}")).
Eval vm_compute in ("<<<M1287>>>" ++ check (runes_of_ascii "options {
    LittleEndian = true;
}
root packet P {
    u16 a,
    u32 Sum @calculatedFrom(""CRC32""),
}
")).
Eval vm_compute in ("<<<M948>>>" ++ check (runes_of_ascii "packet A {
    Inner {
        u8 x `x
`,
        Deep {
            u8 y `x
`,
        },
    },
}")).
Eval vm_compute in ("<<<M1822>>>" ++ check (runes_of_ascii "  packet Foo
    {
	float64
a1 , 
string

Z9_ @lengthOf( Logon)
`line1
line2` , } 
// " ++ [128512]%N ++ runes_of_ascii " emoji
")).
Eval vm_compute in ("<<<M1265>>>" ++ check (runes_of_ascii "

  packet 
Inner {u8  a	,  }  root

    packet
P  {  repeat
Inner

items
    ,	u8	x
, }
")).
Eval vm_compute in ("<<<M1882>>>" ++ check (runes_of_ascii "// `tick` ""quote"" 'q'
options {
    stringy = ""\" ++ [233]%N ++ runes_of_ascii """
    float = """ ++ [233]%N ++ runes_of_ascii "t" ++ [233]%N ++ runes_of_ascii """
    trueish = u8
}")).
Eval vm_compute in ("<<<M1286>>>" ++ check (runes_of_ascii "
options{
	FixedStringPadFromLeft =	true  ; }root 
packet
P
{  char[	4 ]
z
	,
}
")).
Eval vm_compute in ("<<<M837>>>" ++ check (runes_of_ascii "packet A {
  match k as n {
    [1, 22, 007, 4, 5, 66, 7] : B,
    2 : C
  },
}")).
Eval vm_compute in ("<<<M101>>>" ++ check (runes_of_ascii "MetaData
    u128
    {matchKey i64_
    , BodyLength T ,	msg_type body, }")).
Eval vm_compute in ("<<<M806>>>" ++ check (runes_of_ascii "packet A {
  match k as n {
    [1, 22, ""c c"", 4] : B,
    2 : C
  },
}")).
Eval vm_compute in ("<<<M785>>>" ++ check (runes_of_ascii "packet A {
  match k as n {
    [1, 22, 007] : B,
    2 : C
  },
}")).
Eval vm_compute in ("<<<M375>>>" ++ check (runes_of_ascii "// a // b
MetaData//x
repeatCount {
string uint8x ,
    } 	 ")).
Eval vm_compute in ("<<<M797>>>" ++ check (runes_of_ascii "packet A { Inner { match k as n { [1,22,007] : B, }, }, }")).
Eval vm_compute in ("<<<M1666>>>" ++ check (runes_of_ascii "MetaData M {
    u8 x `
    x`,
    T t `
    x`,
}")).
Eval vm_compute in ("<<<M595>>>" ++ check (runes_of_ascii "MetaData u
    { } MetaData o
{ float uint8x")).
Eval vm_compute in ("<<<M1409>>>" ++ check (runes_of_ascii "// top
MetaData tag {
    // c2
}
// c3")).
Eval vm_compute in ("<<<M1087>>>" ++ check (runes_of_ascii "options { a = 1 // c b = 2; // d}")).
Eval vm_compute in ("<<<M713>>>" ++ check (runes_of_ascii "packet
crc
{repeat  Foo A  `u8 x,`")).
Eval vm_compute in ("<<<M1801>>>" ++ check (runes_of_ascii "packet A {
    u8 x `d" ++ [8203]%N ++ runes_of_ascii "`,// c" ++ [8203]%N ++ runes_of_ascii "
}")).
Eval vm_compute in ("<<<M921>>>" ++ check (runes_of_ascii "packet A {
    u8 x `a
b`,
}")).
Eval vm_compute in ("<<<M1571>>>" ++ check (runes_of_ascii "// c
  root
packet a1{
	}")).
Eval vm_compute in ("<<<M335>>>" ++ check (runes_of_ascii "//	t
packet x {
    }
")).
Eval vm_compute in ("<<<M996>>>" ++ check (runes_of_ascii "// c 
packet A {
}")).
Eval vm_compute in ("<<<M1078>>>" ++ check (runes_of_ascii "packet A {
}// c x")).
Eval vm_compute in ("<<<M1171>>>" ++ check (runes_of_ascii "packet x { // c
}")).
Eval vm_compute in ("<<<M712>>>" ++ check (runes_of_ascii "packet
crc")).
Eval vm_compute in ("<<<M724>>>" ++ check (runes_of_ascii "
	 ")).
