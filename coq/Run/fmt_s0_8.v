From FP Require Import Lexer Parser ShowPT Digest Formatter.
From Coq Require Import String List NArith.
Import ListNotations.
Open Scope string_scope.
Set Printing Width 100000000.
Set Printing Depth 100000000.
Definition show_fres (r : fres) : string :=
  match r with
  | FOk s => "OK:" ++ sh_escaped s ""
  | FErr s => "ERR:" ++ sh_escaped s ""
  | FPanic p => "PANIC:" ++ p
  end.
Definition check (rs : list rune) : string := digest (show_fres (format_res rs)).
Definition full (rs : list rune) : string := show_fres (format_res rs).
Eval vm_compute in ("<<<M266>>>" ++ check (runes_of_ascii "packet metadata { repeat f64 // " ++ [128512]%N ++ runes_of_ascii " emoji
Foo , repeat
Logon
    f32a`
` , @calculatedFrom( ""1"" ) repeat
    uint8 // trailing space 
calculatedFrom `u8 x,`
, char[]
    packetx , // packet A { u8 x, }
@calculatedFrom(
""abc"" ) Pad
@lengthOf(msg_type  )`line1
line2` ,
@rightPad
(
' ' )
tag`" ++ [233]%N ++ runes_of_ascii "` ,@tag( 10
    /// triple
    )u8x
@calculatedFrom( ""CRC32"" ),match
// trailing space 
// trailing space 
metadata
as msg_type
//
// " ++ [27880; 37322]%N ++ runes_of_ascii "
{[
""\n"" //x
, 0123456789// c
] : options1
,
    ""\n""
    :
    float ,},} packet
// " ++ [128512]%N ++ runes_of_ascii " emoji
// " ++ [128512]%N ++ runes_of_ascii " emoji
MetaDataX {string string_ `doc`
,
@rightPad
    (
    '0' ) zchar[
// " ++ [128512]%N ++ runes_of_ascii " emoji
// `tick` ""quote"" 'q'
00 ]
zchar `a\`
,} options {leftPad = 0 float = 4294967296 ;
}// `tick` ""quote"" 'q'
root packet body{ @calculatedFrom( ""1"" ) @lengthOf( int ) match float as Z9_  {
// packet A { u8 x, }
// trailing space 
42
: x
""packet"" :// `tick` ""quote"" 'q'
matchKey	, """ ++ [28040; 24687]%N ++ runes_of_ascii """
/// triple
// packet A { u8 x, }
: o ,	255 :	float }
, @tag( 0123456789 ) match	calculatedFrom as // @lengthOf(
trueish { [ ""packet"" , ""`tick`"" //x
,	""" ++ [233]%N ++ runes_of_ascii "t" ++ [233]%N ++ runes_of_ascii """ ] : MetaDataX 4294967296 :trueish
, 3 :
// trailing space 
// packet A { u8 x, }
i64_ , 0123456789 :
f32a , [ 7, //	t
10	,	""CRC32"" ,	""x y"" , ""\n""
    // `tick` ""quote"" 'q'
    , ""CRC32""
    , ""`tick`""
    ]// `tick` ""quote"" 'q'
: body , }, char[ 1//
]Foo // " ++ [128512]%N ++ runes_of_ascii " emoji
, @rightPad( ' ' ) @calculatedFrom( // " ++ [27880; 37322]%N ++ runes_of_ascii "
""a	b""
) repeat string_ { repeat Logon // @lengthOf(
,	Z9_	i8i8 ,match Z9_ as
    A {[ 42
    ] :Logon , [ ""CRC32"" , 1 , ""a\""b"" , 4294967296 , 0, ""\" ++ [233]%N ++ runes_of_ascii """ ] : roots ""a\""b"" : MetaDataX , 255
: _x
,
    65535
    :
    rootA , }	,match _x as Foo {[ 255
    , """ ++ [28040; 24687]%N ++ runes_of_ascii """ ,// packet A { u8 x, }
""CRC32"" ,
    // c
    """ ++ [233]%N ++ runes_of_ascii "t" ++ [233]%N ++ runes_of_ascii """ ,
    ""abc"" ] : len""a\\""
: Pad  0
: falsey,3 :	u128
    ,
} ,// a // b
} , repeat // packet A { u8 x, }
options1 int `{ , }`
// packet A { u8 x, }
//
,
}")).
Eval vm_compute in ("<<<M1368>>>" ++ check (runes_of_ascii "// top
options
    // c0
{ // c1a
  // c1b
StringPrefixLenType // c2
= u8 // c4
; ArrayPrefixLenType = u8 ; FixedStringPadFromLeft
    // c10
= // c11
false // c12a
  // c12b
;
    // c13
FixedStringPadChar // c14
= // c15a
  // c15b
' ' ; // c17
} // c18
packet
    // c19
Ack // c20
{
    // c21
char[]
    // c22
tag7 // c23
, } packet Reject
    // c27
{
    // c28
InSym61 // c29
{
    // c30
repeat Ack
    // c32
,
    // c33
zchar[
    // c34
4 // c35a
  // c35b
] // c36
f1 // c37a
  // c37b
, // c38
} ,
    // c40
} // c41
packet Logout // c43a
  // c43b
{
    // c44
char[ // c45a
  // c45b
4
    // c46
] clOrdID ,
    // c49
} root // c51a
  // c51b
packet // c52a
  // c52b
Cancel { // c54a
  // c54b
@leftPad
    // c55
( ' ' // c57
)
    // c58
char[
    // c59
10
    // c60
] price
    // c62
, // c63
u8 x // c65a
  // c65b
, // c66
u32 venue @lengthOf( // c69a
  // c69b
Body )
    // c71
,
    // c72
match x // c74
as
    // c75
Body // c76
{ // c77a
  // c77b
[ // c78a
  // c78b
92 // c79
, 175 // c81
] // c82a
  // c82b
: // c83a
  // c83b
Logout // c84a
  // c84b
, // c85a
  // c85b
26 : Reject , 144 : Ack // c92a
  // c92b
, // c93
} // c94a
  // c94b
, u16 // c96a
  // c96b
count // c97
@calculatedFrom( ""CRC32"" // c99
) , // c101
} ")).
Eval vm_compute in ("<<<M1376>>>" ++ check (runes_of_ascii "// top
options
    // c0
{ // c1a
  // c1b
LittleEndian
    // c2
= true // c4a
  // c4b
; // c5a
  // c5b
StringPrefixLenType = u64 // c8a
  // c8b
; // c9a
  // c9b
ArrayPrefixLenType // c10
= u16 // c12
; // c13
FixedStringPadFromLeft =
    // c15
false ; // c17
FixedStringPadChar =
    // c19
' '
    // c20
; } // c22
packet Logon // c24
{ // c25
zchar[ // c26a
  // c26b
5 // c27
] Side2 , }
    // c31
root // c32a
  // c32b
packet Logout
    // c34
{ // c35
repeat
    // c36
i64 // c37
Tail , // c39
Logon
    // c40
,
    // c41
repeat i16 // c43a
  // c43b
OrderId // c44a
  // c44b
, // c45
char[] // c46
venue // c47
, uint64 // c49a
  // c49b
x ,
    // c51
repeat i16
    // c53
count
    // c54
, // c55
u8 Flags
    // c57
, // c58a
  // c58b
match // c59
Flags as // c61
Body
    // c62
{ 25
    // c64
: Logon // c66
, } // c68
, u16 // c70a
  // c70b
Qty // c71
@calculatedFrom( // c72a
  // c72b
""CRC32"" // c73
) // c74a
  // c74b
,
    // c75
}
    // c76
")).
Eval vm_compute in ("<<<M379>>>" ++ check (runes_of_ascii "root
    packet i64_ { trueish ,
@calculatedFrom(""abc"") @tag( 7 )
    // c
    int16
    asx
, @calculatedFrom( ""a\\"" ) float32 crc
@lengthOf(
Foo ) ,	@tag( // `tick` ""quote"" 'q'
42 // c
) zchar[
// c
// packet A { u8 x, }
7 ] asx @lengthOf( calculatedFrom) `// not a comment` , //
repeat zchar[ 1]// a // b
As ,	chars `two words` , @calculatedFrom( ""1"" )
@tag(
    // `tick` ""quote"" 'q'
    0123456789 ) @leftPad ('0')
    repeat
    char[] BodyLength `tab	here`, } MetaData u128 // packet A { u8 x, }
{
u16 i64_
,
    float32 asx//
`two words` ,//
i64
leftPad, zchar[ 00 // `tick` ""quote"" 'q'
] _x
    , //
} MetaData chars
    //
    {Foo crc
`say ""hi""` , uint8 u`two words` , // " ++ [128512]%N ++ runes_of_ascii " emoji
f32
pack
`crlf
line`, string _x `" ++ [233]%N ++ runes_of_ascii "`  , } packet x_y_z{ } options { calculatedFrom = ""CRC32"" crc
    = uint16 ; u =
false
    Foo
=
    char  } // " ++ [128512]%N ++ runes_of_ascii " emoji")).
Eval vm_compute in ("<<<M1515>>>" ++ check (runes_of_ascii "// top

	root 
        // c0
	  packet 

// c1

_x
    // c2

{
// c3

	match
	// c4
    Foo
        // c5
as
    // c6
Z9_
    // c7
  	{
// c8
""a	b""
// c9
  	:
    // c10
    Pad
// c11

,

// c12
		}
	// c13
  , 
        // c14
	  repeat 

    // c15
      x 

    // c16
    `line1
line2`
	// c17
  ,  
      // c18
  	@rightPad 
	    // c19
    (
// c20
  	' '
// c21

) 
	    // c22

  @calculatedFrom(  
  // c23

""a\\""

// c24
	  )
	// c25
		metadata
    // c26
	MetaDataX
    // c27
	,
    // c28
		@tag(  
      // c29
  0 
    // c30
    ) 
    // c31
  Logon
	// c32
    int
    // c33
    	`` 
	    // c34
		, 
      // c35
  	} 
    // c36
	  options

    // c37

{ 
// c38
  T 
    // c39
		= 
        // c40
	'\x00'
// c41

} 
// c42
")).
Eval vm_compute in ("<<<M52>>>" ++ check (runes_of_ascii "  MetaData
    // " ++ [27880; 37322]%N ++ runes_of_ascii "
    packetx { zchar[ 7 ] leftPad
`// not a comment` ,	}	packet i64_{@calculatedFrom(
"""" )
// trailing space 
// c
@lengthOf(
x_y_z ) @tag( 00
)
repeatCount
    // packet A { u8 x, }
    @calculatedFrom(""1"" ), } packet falsey { int16
_x
@calculatedFrom(	""it's"") , } // @lengthOf(
root
packet matchKey
    {repeat u32  Pad  `" ++ [233]%N ++ runes_of_ascii "`, zchar[ 7 ]
    leftPad
,match chars as lengthOf
{ 1 :
o
    42 : chars
// trailing space 
// c
,
}//x
, repeat
zchar[
    255]
a1, matchKey //
Packet
    // `tick` ""quote"" 'q'
    ,
f32
    tag
    ,
// @lengthOf(
// trailing space 
@calculatedFrom(  ""a\""b"" ) @leftPad( ' ' ) @lengthOf(
T) stringy
@lengthOf( o) ,packetx  i64_ ,}
/// triple
")).
Eval vm_compute in ("<<<M164>>>" ++ check (runes_of_ascii "//x
packet x { @lengthOf(
string_ )
// `tick` ""quote"" 'q'
// trailing space 
msg_type{
int // a // b
@lengthOf( chars
    )
//x
// " ++ [27880; 37322]%N ++ runes_of_ascii "
`" ++ [28040; 24687; 31867; 22411]%N ++ runes_of_ascii "` , int`a\`  , }
    ,uint32 chars  @calculatedFrom(
""`tick`""
    )
    `
` , @lengthOf( packetx // trailing space 
)
match
    metadata as x_y_z
{ 65535	: x ,007
// `tick` ""quote"" 'q'
// " ++ [128512]%N ++ runes_of_ascii " emoji
: u [ 7 ,
""// no comment""	,  """ ++ [28040; 24687]%N ++ runes_of_ascii """] :x ""a\\""
: MetaDataX,0123456789 : lengthOf
10 :
//
// `tick` ""quote"" 'q'
float  }
    ,
    u16 Logon@calculatedFrom(""x y"") `tab	here`
//	t
//
,@lengthOf(Foo ) zchar /// triple
, }  packet
    tag { } root packet
x_y_z{ } MetaData int {
    string
A `" ++ [233]%N ++ runes_of_ascii "` ,
}
")).
Eval vm_compute in ("<<<M1678>>>" ++ check (runes_of_ascii "// top
options {
    // c1a
    // c1b
    LittleEndian = true;
}

// c6
packet Logon {
    u8 x,// c12
}// c13a

// c13b
packet Logout {
    // c16a
    // c16b
    u16 reason,
}// c20

root packet Frame {
    u8 Kind,// c27a
    // c27b
    u8 Kind2,
    match Kind as Body {
        // c35
        1 : Logon,
        // c39
        [2, 3, 4] : Logout,
        // c49
        100 : Logon,
        // c53a
        // c53b
    },// c55
    match Kind2 as Trailer {
        // c60a
        // c60b
        0 : Logout,
        // c64a
        // c64b
    },// c66
}// c67")).
Eval vm_compute in ("<<<M163>>>" ++ check (runes_of_ascii "options { As = // trailing space 
zchar[ 4294967296] ; } //	t
packet len // packet A { u8 x, }
{ @lengthOf(
_x) match
    // c
    lengthOf
    as
//
// `tick` ""quote"" 'q'
string_// c
{
    [ 4294967296 ]: i64_ ""a	b"": o
,
}
, leftPad
    @calculatedFrom( ""`tick`""	)
// trailing space 
// `tick` ""quote"" 'q'
,@leftPad( '\x00' ) repeat charz /// triple
msg_type
,
repeat i8
Foo , }packet msg_type {
//x
// @lengthOf(
@leftPad (
'0'
)
u64 repeatCount @calculatedFrom(
""" ++ [28040; 24687]%N ++ runes_of_ascii """) ,// packet A { u8 x, }
}
")).
Eval vm_compute in ("<<<M307>>>" ++ check (runes_of_ascii "  packet	charz	{
// " ++ [27880; 37322]%N ++ runes_of_ascii "
/// triple
repeat // c
string int `" ++ [28040; 24687; 31867; 22411]%N ++ runes_of_ascii "` , @calculatedFrom( ""it's"" ) @tag(
255 )  f64 // a // b
asx
,
string
T `doc` ,zchar[
007 ]tag @lengthOf( //
Z9_ )`// not a comment` , }
options{ u= u16; }
MetaData
    chars
    { i16 falsey , f64 pack,
    char[  1
    ]
asx
`it's`, char[] body ,
// `tick` ""quote"" 'q'
//x
}packet leftPad { @rightPad
(
// @lengthOf(
//x
)
repeat Pad float
    `{ , }`
,
    }	options {
    roots= true;  }
")).
Eval vm_compute in ("<<<M1329>>>" ++ check (runes_of_ascii "packet Frame {
    u8 HK,
    u8 BK,
    u8 TK,
    match HK as Hdr {
        1 : HdrA,
        2 : HdrB,
    },
    match BK as Body {
        1 : BodyA,
        2 : BodyB,
    },
    match TK as Trl {
        1 : TrlA,
    },
}
packet HdrA {
    u8 a,
}
packet HdrB {
    u16 b,
}
packet BodyA {
    u32 c,
}
packet BodyB {
    u64 d,
}
packet TrlA {
    u8 e,
}
root packet Msg {
    Frame,
    u8 x,
}
")).
Eval vm_compute in ("<<<M1503>>>" ++ check (runes_of_ascii "packet leftPad {
    @tag(10)
    @tag(007)
    @lengthOf(a1)
    // a // b
    //
    repeat metadata,
}// " ++ [128512]%N ++ runes_of_ascii " emoji

options {
    lengthOf = """ ++ [128512]%N ++ runes_of_ascii """;
}

packet T {
    A {
        //
        // `tick` ""quote"" 'q'
        tag @calculatedFrom(""abc""),
    },
    @lengthOf(matchKey)
    string Header @lengthOf(metadata),
    leftPad @calculatedFrom(""a\""b"") `crlf
    line`,
}")).
Eval vm_compute in ("<<<M1817>>>" ++ check (runes_of_ascii "root packet a1 {
    tag Pad ``,
}

options {
}

root packet int {
    uint64 f32a,
}

packet MetaDataX {
    // c
    @leftPad(' ')
    /// triple
    repeat uint16 Header `{ , }`,
    // `tick` ""quote"" 'q'
    /// triple
}

options {
    Z9_ = false
    falsey = ""x y"";
    rootA = false
    // a // b
    Foo = true
    lengthOf = float64
}")).
Eval vm_compute in ("<<<M1510>>>" ++ check (runes_of_ascii "packet zchar {
    @calculatedFrom(""`tick`"")
    uint32 falsey,
}

MetaData packetx {
    string msg_type `u8 x,`,
}

packet i8i8 {
    zchar @lengthOf(uint8x),
}

packet As {
    zchar[4294967296] T @calculatedFrom(""abc""),
    @tag(007)
    repeat i16 u8x `say ""hi""`,
    @lengthOf(u)
    repeat uint16 u128,
}")).
Eval vm_compute in ("<<<M1316>>>" ++ check (runes_of_ascii "  packet

    MDSnapshotZZ	{	u8

a 
, }  packet
    OrderACK  { u16
b, }packet
	HTTPServerInfo	{
string
s

    ,
}	root
    packet  FIXMsg
    { u8
KType
,MDSnapshotZZ  , repeat

    OrderACK,  match 
KType as Body{1 :

HTTPServerInfo  ,	2

:OrderACK	,

}

    ,}")).
Eval vm_compute in ("<<<M1696>>>" ++ check (runes_of_ascii "packet Header {
    @calculatedFrom(""a	b"")
    char[255] falsey `tab	here`,
    int8 u `doc`,
    float32 lengthOf @calculatedFrom(""a	b""),
    @rightPad(' ')
    @tag(3)
    float64 asx,
    int8 metadata @lengthOf(zchar),
    Pad f32a,
}")).
Eval vm_compute in ("<<<M1303>>>" ++ check (runes_of_ascii "// top
packet
    // c0
order_item // c1
{ u8 // c3
a // c4a
  // c4b
, // c5
} root // c7
packet
    // c8
new_order
    // c9
{ // c10
order_item
    // c11
,
    // c12
u8 // c13a
  // c13b
x ,
    // c15
} ")).
Eval vm_compute in ("<<<M1516>>>" ++ check (runes_of_ascii "  packet msg_type
{ zchar[ 65535
        /// triple
	]  stringy 	 // `tick` ""quote"" 'q'

@calculatedFrom( """ ++ [233]%N ++ runes_of_ascii "t" ++ [233]%N ++ runes_of_ascii """ 
)
, @tag(
0)
    repeat

    i64_	,	}
	    // packet A { u8 x, }")).
Eval vm_compute in ("<<<M1786>>>" ++ check (runes_of_ascii "  MetaData

    leftPad{
chars MetaDataX

,
    }
    packet
	repeatCount  {char[

255

    ]
uint8x 
    // c
  	`" ++ [233]%N ++ runes_of_ascii "` 
, 
}

    MetaData pack

{
	As Foo ,  } ")).
Eval vm_compute in ("<<<M501>>>" ++ check (runes_of_ascii "packet uint8x
{ match pack
    as msg_type	{
    0123456789 :	float
}
,
} packet //	t
a1
    { } options {packetx
    = '\x00' '\x00'	; u128= ""a	b""  ; }
")).
Eval vm_compute in ("<<<M401>>>" ++ check (runes_of_ascii "packet uint8x
{ { match pack
    as msg_type	{
    0123456789 :	float
}
,
} packet //	t
a1
    { } options {packetx
    = '\x00'	; u128= ""a	b""  ; }
")).
Eval vm_compute in ("<<<M549>>>" ++ check (runes_of_ascii "pa\cket uint8x
{ match pack
    as msg_type	{
    0123456789 :	float
}
,
} packet //	t
a1
    { } options {packetx
    = '\x00'	; u128= ""a	b""  ; }
")).
Eval vm_compute in ("<<<M507>>>" ++ check (runes_of_ascii "packet uint8x
{ match pack
    as msg_type	{
    0123456789 :	float
}
,
} packet //	t
a1
    { } options {packetx
    = '\x00'	u128 ;= ""a	b""  ; }
")).
Eval vm_compute in ("<<<M465>>>" ++ check (runes_of_ascii "packet uint8x
{ match pack
    as msg_type	{
    0123456789 :	float
}
,
} packet //	t

    { } options {packetx
    = '\x00'	; u128= ""a	b""  ; }
")).
Eval vm_compute in ("<<<M687>>>" ++ check (runes_of_ascii "// @lengthOf(
packet i8i8 { u128 o , , }
options { MetaDataX = true;
    BodyLength =""packet"" x_y_z= 007
crc //x
= ""abc"" ;
    msg_type =
i16 }")).
Eval vm_compute in ("<<<M707>>>" ++ check (runes_of_ascii "// @lengthOf(
packet i8i8 { u128 o , }
options { MetaDataX = true;
    BodyLength =MetaData x_y_z= 007
crc //x
= ""abc"" ;
    msg_type =
i16 }")).
Eval vm_compute in ("<<<M1825>>>" ++ check (runes_of_ascii "
packet
	A {
u16
	len
@lengthOf( 
body)

    `a
    b
  c` ,
u32 crc  @calculatedFrom(
    ""CRC32""
	)
	`a
    b
  c`,string body
, 
} ")).
Eval vm_compute in ("<<<M1270>>>" ++ check (runes_of_ascii "options {
    LittleEndian = true;
}
packet B {
    u8 a,
    string s,
}
root packet P {
    u16 L @lengthOf(B),
    B,
    u8 t,
}
")).
Eval vm_compute in ("<<<M1857>>>" ++ check (runes_of_ascii "MetaData leftPad {
    chars MetaDataX,
}

packet repeatCount {
    char[255] uint8x `" ++ [233]%N ++ runes_of_ascii "`,
}

MetaData pack {
    As Foo,
}
// c")).
Eval vm_compute in ("<<<M1517>>>" ++ check (runes_of_ascii "MetaData 
zchar
    {roots
	A 
, char[]
falsey `line1
line2`
	, 

    // " ++ [128512]%N ++ runes_of_ascii " emoji
// @lengthOf(
int

crc

    , }//	t")).
Eval vm_compute in ("<<<M1170>>>" ++ check (runes_of_ascii "MetaData leftPad { chars MetaDataX , } packet repeatCount { char[ 255 ] uint8x
// c
`" ++ [233]%N ++ runes_of_ascii "` , } MetaData pack { As Foo , }")).
Eval vm_compute in ("<<<M1820>>>" ++ check (runes_of_ascii "packet

    FooBar{
	u8
	a

    ,

}packet

foo_bar
{  u16
	b 
, } root packet R {FooBar, foo_bar

    , }
")).
Eval vm_compute in ("<<<M489>>>" ++ check (runes_of_ascii "packet uint8x
{ match pack
    as msg_type	{
    0123456789 :	float
}
,
} packet //	t
a1
    { } options")).
Eval vm_compute in ("<<<M1708>>>" ++ check (runes_of_ascii "root packet
    SimpleMessage	{

    uint16
MsgType 
`" ++ [28040; 24687; 31867; 22411]%N ++ runes_of_ascii "`

    , string

JsonBody	`Json" ++ [23383; 31526; 20018; 28040; 24687; 20307]%N ++ runes_of_ascii "`,}")).
Eval vm_compute in ("<<<M1304>>>" ++ check (runes_of_ascii "
packet order_item

{  u8
a

    , } root
packet

    new_order{ order_item
	,  u8
x ,

}

")).
Eval vm_compute in ("<<<M624>>>" ++ check (runes_of_ascii "
packet
    asx {match u128 as lengthOf
{
//	t
// `tick` ""quote"" 'q'
255 : x ,
    } ,	repeat")).
Eval vm_compute in ("<<<M588>>>" ++ check (runes_of_ascii "
packet
    asx {match u128 as lengthOf
{ {
//	t
// `tick` ""quote"" 'q'
255 : x ,
    } ,	}")).
Eval vm_compute in ("<<<M281>>>" ++ check (runes_of_ascii "
packet
    o	{  }
packet
Pad {
BodyLength // trailing space 
, } packet metadata //x
{}")).
Eval vm_compute in ("<<<M850>>>" ++ check (runes_of_ascii "packet A {
  match k as n {
    [""a"", ""bb"", 007, ""d"", ""e"", 66, ""g""] : B
    2 : C
  },
}")).
Eval vm_compute in ("<<<M1544>>>" ++ check (runes_of_ascii "
// top
  MetaData 
	// c0
    tag 
    // c1
      {
// c2
      }
        // c3
")).
Eval vm_compute in ("<<<M848>>>" ++ check (runes_of_ascii "packet A {
  match k as n {
    [1, 22, ""c c"", 4, 5, ""f"", 7] : B
    2 : C
  },
}")).
Eval vm_compute in ("<<<M125>>>" ++ check (runes_of_ascii "//	t
options {
    roots  =  ""\n""	; o
    //
    = '0' ;
tag
    =true
    }")).
Eval vm_compute in ("<<<M806>>>" ++ check (runes_of_ascii "packet A {
  match k as n {
    [""a"", 22, ""c c"", 4] : B,
    2 : C
  },
}")).
Eval vm_compute in ("<<<M449>>>" ++ check (runes_of_ascii "packet uint8x
{ match pack
    as msg_type	{
    0123456789 :	float")).
Eval vm_compute in ("<<<M1955>>>" ++ check (runes_of_ascii "
packet	A

{ u8 
x ,

}// a
	// b
packet	B{
}	// c
      // d
")).
Eval vm_compute in ("<<<M1222>>>" ++ check (runes_of_ascii "// top
packet
    // c0
x
    // c1
{
    // c2
}
    // c3
")).
Eval vm_compute in ("<<<M1752>>>" ++ check (runes_of_ascii "root
packet
	P {
    char
	c

, 
u8

    x  ,
    }
")).
Eval vm_compute in ("<<<M1210>>>" ++ check (runes_of_ascii "packet body { i32 f32a `{ , }`
// c
, } options { }")).
Eval vm_compute in ("<<<M756>>>" ++ check (runes_of_ascii "zchar ( : f64 ) , repeat f32 u16 float64 , ; :")).
Eval vm_compute in ("<<<M337>>>" ++ check (runes_of_ascii "//	t
options
// c
// " ++ [128512]%N ++ runes_of_ascii " emoji
{
    } // c")).
Eval vm_compute in ("<<<M1068>>>" ++ check (runes_of_ascii "options { a = 1 // c b = 2; // d}")).
Eval vm_compute in ("<<<M85>>>" ++ check (runes_of_ascii "options// c
{MetaDataX =int16 }
")).
Eval vm_compute in ("<<<M983>>>" ++ check (runes_of_ascii "packet A {
 u8 x `d" ++ [12288]%N ++ runes_of_ascii "`, // c" ++ [12288]%N ++ runes_of_ascii "
}")).
Eval vm_compute in ("<<<M419>>>" ++ check (runes_of_ascii "packet uint8x
{ match pack")).
Eval vm_compute in ("<<<M326>>>" ++ check (runes_of_ascii "  options{// a // b
}

")).
Eval vm_compute in ("<<<M1108>>>" ++ check (runes_of_ascii "MetaData tag
// c
{ }")).
Eval vm_compute in ("<<<M112>>>" ++ check (runes_of_ascii "packet falsey { }
")).
Eval vm_compute in ("<<<M1051>>>" ++ check (runes_of_ascii "packet A {
}
// c" ++ [65279]%N)).
Eval vm_compute in ("<<<M1082>>>" ++ check (runes_of_ascii "options { // a
 }")).
Eval vm_compute in ("<<<M740>>>" ++ check (runes_of_ascii ", = , ; int16")).
Eval vm_compute in ("<<<M1000>>>" ++ check (runes_of_ascii "// c" ++ [8192]%N)).
Eval vm_compute in ("<<<M731>>>" ++ check (runes_of_ascii "/")).
