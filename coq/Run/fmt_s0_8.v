From FP Require Import Lexer Parser ShowPT Digest Formatter.
From Coq Require Import String List NArith.
Import ListNotations.
Open Scope string_scope.
Set Printing Width 100000000.
Set Printing Depth 100000000.
Definition show_fres (r : fres) : string :=
  match r with
  | FOk s => "OK:" ++ sh_escaped s ""
  | FErr s => "ERR:" ++ sh_escaped s ""
  | FPanic p => "PANIC:" ++ p
  end.
Definition check (rs : list rune) : string := digest (show_fres (format_res rs)).
Definition full (rs : list rune) : string := show_fres (format_res rs).
Eval vm_compute in ("<<<M1832>>>" ++ check (runes_of_ascii "packet Z9_ {
    @calculatedFrom(""1"")
    match body as u8x {
        [7] : u,
        [
            7, 00, ""a\""b"", """", ""\n"",
            00
        ] : charz,
        1 : Packet,
        """ ++ [28040; 24687]%N ++ runes_of_ascii """ : f32a,
        00 : len,
    },
    @lengthOf(calculatedFrom)
    MetaDataX,
    Packet @lengthOf(int),
    repeat char[7] calculatedFrom,
    @calculatedFrom(""a\\"")
    zchar[255] f32a @calculatedFrom(""" ++ [233]%N ++ runes_of_ascii "t" ++ [233]%N ++ runes_of_ascii """),
    @calculatedFrom(""a\""b"")
    char[7] i8i8 @calculatedFrom(""a\\"") `crlf
    line`,
    zchar[0123456789] x `line1
    line2`,
    @leftPad()
    repeat u64 stringy,
    @lengthOf(x)
    repeat body {
        //	t
        Z9_ {
            repeat asx,
            repeat crc i64_,
            repeat rootA {
                repeat rootA MetaDataX `line1
                line2`,
                match i64_ as calculatedFrom {
                    7 : x,
                    [7] : stringy,
                    ""1"" : i8i8,
                    [
                        ""1"", 42, """ ++ [233]%N ++ runes_of_ascii "t" ++ [233]%N ++ runes_of_ascii """, 10, 255,
                        0, 10
                    ] : u,
                    ""x y"" : i8i8,
                },
                uint64 _x `
                `,
                char[0] i64_ @calculatedFrom(""CRC32""),
            },
            x_y_z {
                char[] T,
            },
        },
        repeat u64 Foo `a\`,
        uint8 uint8x,
        match roots as chars {
            1 : _x,
            ""a\""b"" : uint8x,
            42 : metadata,
            // `tick` ""quote"" 'q'
            [""\n"", 255] : zchar,
            [""" ++ [233]%N ++ runes_of_ascii "t" ++ [233]%N ++ runes_of_ascii """, 3, 4294967296, 0123456789, ""x y""] : metadata,
            [""it's"", ""// no comment""] : Z9_,
        },
    },
}// a // b

MetaData rootA {
    char[4294967296] msg_type,// @lengthOf(
    char[] u128,
    uint64 a1,
    int8 crc,
    Pad msg_type `doc`,
}

//	t
/// triple
packet x_y_z {
    @lengthOf(crc)
    match packetx as f32a {
        0123456789 : A,
        00 : u,
        // @lengthOf(
    },
}")).
Eval vm_compute in ("<<<M313>>>" ++ check (runes_of_ascii "options { BodyLength = char[ 7] ;	}
// c
// @lengthOf(
packet asx// " ++ [128512]%N ++ runes_of_ascii " emoji
{ int16
    x_y_z , @calculatedFrom(
    """" ) @lengthOf(
    /// triple
    chars) //
repeat repeatCount
charz
/// triple
// " ++ [27880; 37322]%N ++ runes_of_ascii "
, @leftPad ( ) i64_@calculatedFrom(
""\" ++ [233]%N ++ runes_of_ascii """	) `// not a comment` , tag Z9_
`two words` ,
@lengthOf( asx
)@calculatedFrom(
""`tick`""
    )match uint8x as
matchKey
    {0123456789
// packet A { u8 x, }
// a // b
: u8x ,1 : zchar , } ,u128 @lengthOf( u128 // packet A { u8 x, }
)// " ++ [128512]%N ++ runes_of_ascii " emoji
, } MetaData	msg_type  {
string
BodyLength  `two words` , options1// " ++ [128512]%N ++ runes_of_ascii " emoji
i64_ ,
    }// " ++ [128512]%N ++ runes_of_ascii " emoji
packet roots { u `` , @calculatedFrom( ""a	b"")match len as	msg_type{
    // c
    """ ++ [28040; 24687]%N ++ runes_of_ascii """
:
charz}, crc @calculatedFrom(
// packet A { u8 x, }
// packet A { u8 x, }
""it's"" ) `a\`
,@leftPad
( '0' )@tag( 007	) zchar[// trailing space 
3
    // trailing space 
    ] falsey ,  @calculatedFrom(// `tick` ""quote"" 'q'
""\n""
    )@calculatedFrom(""CRC32""// c
)
    // trailing space 
    match
    //x
    Packet as // @lengthOf(
stringy	{ 1:
Pad
, ""it's"" :f32a ,
} , @leftPad (
' '
)
    match // " ++ [27880; 37322]%N ++ runes_of_ascii "
int as	a1 { [ 0123456789 ,255]
    :
    options1
//x
//x
}
    ,BodyLength
    //
    @calculatedFrom( """ ++ [28040; 24687]%N ++ runes_of_ascii """ ),
float32
    zchar
@calculatedFrom( ""// no comment""
)
,	@tag( 10 ) zchar[
    // packet A { u8 x, }
    1  ] rootA , }
")).
Eval vm_compute in ("<<<M1695>>>" ++ check (runes_of_ascii "
root packet  asx 
{

    leftPad{ u128@calculatedFrom(
    ""1""  ) 
, 	 //x
	}
,

lengthOf// packet A { u8 x, }
      @calculatedFrom(
""" ++ [128512]%N ++ runes_of_ascii """ )  `a\` ,
i64 	 // `tick` ""quote"" 'q'
Packet

@lengthOf( calculatedFrom )

, @calculatedFrom(  """ ++ [233]%N ++ runes_of_ascii "t" ++ [233]%N ++ runes_of_ascii """

    ) stringy a1

`doc`  // `tick` ""quote"" 'q'
	,

    @rightPad
	(

    // a // b
  )  
      // c
    a1
`a\`
,
    char	Header
@lengthOf(

x  ) `say ""hi""`

    , 
uint8x
    Z9_ `tab	here`  , }

    options
    {  calculatedFrom	// packet A { u8 x, }

	=
0
}
packet metadata  {@leftPad (

'\x00')

f32

    pack 
//	t

  //
,

@tag(65535)

    u32
    uint8x @lengthOf(

    repeatCount 
) ``	,	MetaDataX {
	repeat 
options1
,match

matchKey

as

    len { 
""" ++ [128512]%N ++ runes_of_ascii """:  u8x
	,1
    :zchar, /// triple
	[
""a\\""	, ""x y""]
:charz

    0 :  x_y_z
    //
	,
[// trailing space 
    4294967296// `tick` ""quote"" 'q'
	  ]

    : 
asx
,	[	/// triple
    ""a\""b""
	,

    ""\n"" , ""\" ++ [233]%N ++ runes_of_ascii """
,
    10 
]

:  _x,
    } 
,uint8

metadata 
@lengthOf(
float )

    ,zchar[
	255
]i8i8
	, }

    , 
} root	packet
f32a{ }
")).
Eval vm_compute in ("<<<M1338>>>" ++ check (runes_of_ascii "options {
    FixedStringPadFromLeft = true;
    FixedStringPadChar = '0';
}
packet Leg {
    InPrice0 {
        repeat string clOrdID,
        int16 msgKind,
        zchar[5] Px,
    },
    i16 f1,
    repeat f64 Side2,
    string Acct,
}
packet Cancel {
    zchar[4] clOrdID,
    string seqNo,
    Leg,
    @leftPad('0') char[11] OrderId,
}
packet Quote {
    repeat char[4] sym,
    f64 OrderId,
    repeat Leg,
    repeat i64 f1,
    int16 Note,
    zchar[3] count,
}
root packet Ack {
    @leftPad(' ') char[10] sym,
    InPx60 {
        Cancel,
        repeat char[1] f1,
        string Tail,
        repeat InNote55 {
            int8 count,
            f64 f1,
            repeat Cancel,
        },
        char[] tag7,
        repeat string msgKind,
    },
    u8 lastPx,
    match lastPx as Body {
        152 : Quote,
        173 : Cancel,
        4 : Leg,
    },
    u16 Ref @calculatedFrom(""CRC32""),
}
")).
Eval vm_compute in ("<<<M1371>>>" ++ check (runes_of_ascii "options {
    FixedStringPadFromLeft = true;
    FixedStringPadChar = '0';
}
packet Leg {
    repeat InSym93 {
        zchar[3] Acct,
        string Side2,
        i32 Flags,
        f32 Note,
        i32 msgKind,
    },
    f64 Note,
    uint16 Px,
}
packet Quote {
    zchar[2] OrderId,
}
packet Ack {
    repeat string lastPx,
    zchar[4] price,
    uint32 OrderId,
    Quote,
    int8 Acct,
}
packet Fill {
    repeat Leg,
    @rightPad('0') char[11] Note,
    f64 Px,
    @rightPad('\x00') char[5] Flags,
    zchar[9] x,
    string msgKind,
}
root packet Order {
    Leg,
    repeat Ack,
    @rightPad('\x00') char[3] Side2,
    repeat char[1] seqNo,
    u16 clOrdID,
    match clOrdID as Body {
        198 : Leg,
        23 : Quote,
        13 : Ack,
        159 : Fill,
    },
    u32 venue @calculatedFrom(""CR\
C32""),
}
")).
Eval vm_compute in ("<<<M1355>>>" ++ check (runes_of_ascii "options	{StringPrefixLenType 
= 
u16

;ArrayPrefixLenType = u32
;FixedStringPadFromLeft

= true; 
FixedStringPadChar 
='0'
	;  }  packet
    Cancel { }	packet

Party
{  }packet Logon
{ }
    packet	Ack { 
}
    packet Logout	{

    repeat InSym87{

    InClordid94
{
string clOrdID
	,

}  ,string

Px ,	i16

Qty,

repeat
	InCount71
	{ repeat Cancel ,
	uint16

    Tail , char[ 2  ] x  ,
repeat

    string Ref,
    }	,Cancel
    ,},
    }

root
	packet Order  {repeat

    string

    tag7

    ,
@leftPad

    (

' '
	)
    char[3
] 
Px
,	u8

    Qty ,  match Qty 
as

    Body
    {
[

28 
,62 ]
    : Logon,148 : Ack , 88
	:  Party ,

184: Cancel ,
    } , 
u16

    Note
    @calculatedFrom(	""CRC32"") 
,
	}")).
Eval vm_compute in ("<<<M1120>>>" ++ check (runes_of_ascii "// top
root
    // c0
packet
    // c1
_x
    // c2
{
    // c3
match
    // c4
Foo
    // c5
as
    // c6
Z9_
    // c7
{
    // c8
""a	b""
    // c9
:
    // c10
Pad
    // c11
,
    // c12
}
    // c13
,
    // c14
repeat
    // c15
x
    // c16
`line1
line2`
    // c17
,
    // c18
@rightPad
    // c19
(
    // c20
' '
    // c21
)
    // c22
@calculatedFrom(
    // c23
""a\\""
    // c24
)
    // c25
metadata
    // c26
MetaDataX
    // c27
,
    // c28
@tag(
    // c29
0
    // c30
)
    // c31
Logon
    // c32
int
    // c33
``
    // c34
,
    // c35
}
    // c36
options
    // c37
{
    // c38
T
    // c39
=
    // c40
'\x00'
    // c41
}
    // c42
")).
Eval vm_compute in ("<<<M208>>>" ++ check (runes_of_ascii "packet // packet A { u8 x, }
u8x {}root packet
    matchKey{
repeat zchar[ 0123456789 ] // packet A { u8 x, }
int , char[
// `tick` ""quote"" 'q'
// a // b
4294967296 ]
asx `{ , }`
    ,
repeat i8i8, repeat Packet { repeat
    leftPad {	f32 u128
@lengthOf(As ), body`two words` ,// packet A { u8 x, }
rootA Pad , } , char[ 00
] msg_type `tab	here` // " ++ [128512]%N ++ runes_of_ascii " emoji
,
    repeat
    //x
    i64_ `doc` , zchar x_y_z ,}
,
}
root
packet int {
repeat f32a {repeat f32a  asx
`u8 x,` ,} ,@lengthOf(
// @lengthOf(
//	t
msg_type// packet A { u8 x, }
) body ,
// c
//
Z9_ // c
zchar `a\` //x
, } //x")).
Eval vm_compute in ("<<<M64>>>" ++ check (runes_of_ascii "
MetaData //	t
body { T
    calculatedFrom, string f32a `line1
line2`, leftPad BodyLength
`tab	here` ,
}options {
}
MetaData
    options1	{
char[ 3 ] MetaDataX
// " ++ [128512]%N ++ runes_of_ascii " emoji
/// triple
`" ++ [28040; 24687; 31867; 22411]%N ++ runes_of_ascii "` ,  BodyLength x	`
`,u16 tag	`say ""hi""`, u8
float ,float32 As `
`
    ,
    i8i8 Z9_ `
`, } packet u { @tag( 42
) options1 // c
o `crlf
line` ,@calculatedFrom( ""`tick`""
// packet A { u8 x, }
// a // b
) repeat
    char[]	a1
    //x
    ,	} options
    { uint8x=
true
    A
= // `tick` ""quote"" 'q'
7 ; // packet A { u8 x, }
len=	""" ++ [128512]%N ++ runes_of_ascii """
    }")).
Eval vm_compute in ("<<<M328>>>" ++ check (runes_of_ascii "
packet
Logon { repeatCount { BodyLength
    `crlf
line`, }
    , zchar a1 `u8 x,`  ,
match Foo as Foo { ""\n"" :i8i8,[
""abc""
    , // trailing space 
""CRC32"" ]
/// triple
// " ++ [128512]%N ++ runes_of_ascii " emoji
: // @lengthOf(
crc
    [ 3 ,
//
// " ++ [128512]%N ++ runes_of_ascii " emoji
""x y"", 42 , ""`tick`""
, 1 , ""a\""b"",
    ""CRC32"" , 255 ]:repeatCount , [// " ++ [128512]%N ++ runes_of_ascii " emoji
1
// a // b
// " ++ [27880; 37322]%N ++ runes_of_ascii "
,007 ,
""\n"",007 , 7 , ""// no comment"" ,
255 ] :
    uint8x 00
: f32a , } ,
    // a // b
    uint16 Pad @lengthOf( uint8x)// packet A { u8 x, }
`doc`  ,
}")).
Eval vm_compute in ("<<<M335>>>" ++ check (runes_of_ascii "//	t
packet u8x  {
u8x { body
@calculatedFrom(	""`tick`"") `say ""hi""`
,match a1	as
    asx // c
{
    //	t
    0
    :
// " ++ [27880; 37322]%N ++ runes_of_ascii "
// @lengthOf(
asx }
    ,}
, @rightPad ( )
    match Logon as	x { [
    00 , ""// no comment"" , ""a\\"",0123456789
    // trailing space 
    ,
    4294967296 ] : crc , 00:options1 , // " ++ [27880; 37322]%N ++ runes_of_ascii "
42
    :i8i8,0 : o 0123456789
: body , } ,@tag(
7 )float
    @lengthOf(
stringy) `" ++ [233]%N ++ runes_of_ascii "`,
u
    // c
    @lengthOf( msg_type )
,
    }")).
Eval vm_compute in ("<<<M101>>>" ++ check (runes_of_ascii "MetaData T {  a1 Packet,// " ++ [128512]%N ++ runes_of_ascii " emoji
uint8x
// @lengthOf(
//x
Pad `" ++ [233]%N ++ runes_of_ascii "` , a1
    // " ++ [27880; 37322]%N ++ runes_of_ascii "
    MetaDataX ,	zchar[00]metadata`u8 x,` ,Pad// trailing space 
x `
` ,
    i8
u8x ,
}  options { As =
    false;}root packet options1 { @calculatedFrom( ""// no comment"" ) @lengthOf( _x	)
    @tag(007 ) repeat
// trailing space 
// @lengthOf(
f32 i8i8
    `" ++ [233]%N ++ runes_of_ascii "` ,
    @rightPad	( ' '// " ++ [27880; 37322]%N ++ runes_of_ascii "
) repeat Pad , }
")).
Eval vm_compute in ("<<<M245>>>" ++ check (runes_of_ascii "MetaData float{ int16
// c
// " ++ [128512]%N ++ runes_of_ascii " emoji
chars , int8 _x
, char	charz ,
Header  u8x
    , u16 _x
,
    // @lengthOf(
    x_y_z repeatCount ,}	packet Foo
{ @tag(//	t
1  )
string Logon	`
`
, }//x
options{ zchar =  ' ' trueish = //x
""""
    leftPad =255 ;
}	root packet options1 {u64 packetx// `tick` ""quote"" 'q'
@calculatedFrom(""// no comment""  ) ``,}
")).
Eval vm_compute in ("<<<M1713>>>" ++ check (runes_of_ascii "packet BodyLength {
    repeatCount `// not a comment`,
    @lengthOf(lengthOf)
    @tag(65535)
    @rightPad('0')
    /// triple
    u8 Logon,
}

packet chars {
    o msg_type,
    @tag(10)
    zchar[65535] f32a,
    repeat char[] i64_ `
    `,
}

root packet f32a {
    @tag(255)
    repeat u8 stringy,
}")).
Eval vm_compute in ("<<<M222>>>" ++ check (runes_of_ascii "packet
body// @lengthOf(
{ @lengthOf(
T
    // " ++ [27880; 37322]%N ++ runes_of_ascii "
    ) @lengthOf(
int ) @leftPad ( '\x00')
asx//x
len
,
repeat	zchar[ 3] int `" ++ [28040; 24687; 31867; 22411]%N ++ runes_of_ascii "` ,@lengthOf(
    // @lengthOf(
    options1)match
    x
    as //x
leftPad // @lengthOf(
{
7
:
x_y_z , 65535:  u128 , 42 : x ,} , //
}")).
Eval vm_compute in ("<<<M308>>>" ++ check (runes_of_ascii "options { pack// `tick` ""quote"" 'q'
= 0123456789
}
packet metadata { @leftPad ( ' ' ) stringy
@lengthOf( _x )
    , repeat	u8
int
    `{ , }` ,
@leftPad //	t
('0' ) repeat char msg_type `it's`,
} MetaData x_y_z { // trailing space 
}")).
Eval vm_compute in ("<<<M350>>>" ++ check (runes_of_ascii "MetaData Pad
{ i64 Packet `{ , }`
    , // `tick` ""quote"" 'q'
repeatCount  trueish // packet A { u8 x, }
`say ""hi""`	, f32 pack`// not a comment` ,// `tick` ""quote"" 'q'
u32
calculatedFrom ,char //	t
zchar
,}
")).
Eval vm_compute in ("<<<M1632>>>" ++ check (runes_of_ascii "options {
    Z9_ = ""packet"";
    float = false;
    A = ' '
}

// c
MetaData pack {
    zchar[3] leftPad,
    zchar falsey `it's`,
    char[] repeatCount,
    char[65535] Z9_,
}
//	t")).
Eval vm_compute in ("<<<M1196>>>" ++ check (runes_of_ascii "// top
packet // c0a
  // c0b
body
    // c1
{ i32 // c3
f32a
    // c4
`{ , }` // c5a
  // c5b
, }
    // c7
options // c8a
  // c8b
{ // c9
} // c10a
  // c10b
")).
Eval vm_compute in ("<<<M1564>>>" ++ check (runes_of_ascii "packet A {
    match k as n {
        [
            1, 22, 007, 4, 5,
            66, 7, 8, 9, 10,
            11, 12
        ] : B,
        2 : C,
    },
}")).
Eval vm_compute in ("<<<M446>>>" ++ check (runes_of_ascii "packet uint8x
{ match pack
    as msg_type	{
    0123456789 :	float
} }
,
} packet //	t
a1
    { } options {packetx
    = '\x00'	; u128= ""a	b""  ; }
")).
Eval vm_compute in ("<<<M1782>>>" ++ check (runes_of_ascii "

  MetaData	leftPad
{ chars  MetaDataX// c
  , }	packet
repeatCount
    {
char[ 
255]
uint8x  `" ++ [233]%N ++ runes_of_ascii "`
    ,

    }

    MetaData pack
{As Foo	,
}

")).
Eval vm_compute in ("<<<M527>>>" ++ check (runes_of_ascii "packet uint8x
{ match pack
    as msg_type	{
    0123456789 :	float
}
,
} packet //	t
a1
    { } options {packetx
    = '\x00'	; u128= ""a	b""  } ;
")).
Eval vm_compute in ("<<<M1747>>>" ++ check (runes_of_ascii "
packet

A { match  k
    as
n  {
[  ""a""
	,  ""bb""
,
""c c"" ,
    ""d""	,	""e""

,

""f"" ,""g"" ,

""h"" ,
""i"",
    ""j""
    ,""k""]:
B
	,

2
	:C }

,

    }
")).
Eval vm_compute in ("<<<M696>>>" ++ check (runes_of_ascii "// @lengthOf(
packet i8i8 { u128 o , } }
options { MetaDataX = true;
    BodyLength =""packet"" x_y_z= 007
crc //x
= ""abc"" ;
    msg_type =
i16 }")).
Eval vm_compute in ("<<<M720>>>" ++ check (runes_of_ascii "// @lengthOf(
packet i8i8 { u128 o , }
options { MetaDataX = true;
    BodyLength =""packet"" =x_y_z 007
crc //x
= ""abc"" ;
    msg_type =
i16 }")).
Eval vm_compute in ("<<<M650>>>" ++ check (runes_of_ascii "// @lengthOf(
packet i8i8 { u128 o , }
options { MetaDataX = true;
    BodyLength =""packet"" x_y_z= 007
crc //x
=  ;
    msg_type =
i16 }")).
Eval vm_compute in ("<<<M1565>>>" ++ check (runes_of_ascii "MetaData
leftPad
{	chars
MetaDataX, }	packet 
repeatCount{ char[

    255 ] uint8x	`" ++ [233]%N ++ runes_of_ascii "`
,  }
// c
	  MetaData
pack
{ As

Foo 
, }
")).
Eval vm_compute in ("<<<M1529>>>" ++ check (runes_of_ascii "

  packet
u

{ repeat 
// " ++ [128512]%N ++ runes_of_ascii " emoji
  A
	,
	@lengthOf( lengthOf)
repeat
	i64 
i64_
,//

	zchar[
3// a // b
    ]
body 
, }")).
Eval vm_compute in ("<<<M1143>>>" ++ check (runes_of_ascii "MetaData // c
leftPad { chars MetaDataX , } packet repeatCount { char[ 255 ] uint8x `" ++ [233]%N ++ runes_of_ascii "` , } MetaData pack { As Foo , }")).
Eval vm_compute in ("<<<M1175>>>" ++ check (runes_of_ascii "MetaData leftPad { chars MetaDataX , } packet repeatCount { char[ 255 ] uint8x `" ++ [233]%N ++ runes_of_ascii "` , } // c
MetaData pack { As Foo , }")).
Eval vm_compute in ("<<<M1643>>>" ++ check (runes_of_ascii "
packet A
{ u16 len @lengthOf(body ) 
`tab
	x`

, u32	crc@calculatedFrom(""CRC32"")	`tab
	x`
,  string body
,
    }")).
Eval vm_compute in ("<<<M901>>>" ++ check (runes_of_ascii "packet A {
  match k as n {
    [""a"", ""bb"", 007, ""d"", ""e"", 66, ""g"", ""h"", 9, ""j"", ""k""] : B,
    2 : C
  },
}")).
Eval vm_compute in ("<<<M888>>>" ++ check (runes_of_ascii "packet A {
  match k as n {
    [""a"", ""bb"", 007, ""d"", ""e"", 66, ""g"", ""h"", 9, ""j""] : B,
    2 : C
  },
}")).
Eval vm_compute in ("<<<M854>>>" ++ check (runes_of_ascii "packet A {
  match k as n {
    [""a"", ""bb"", ""c c"", ""d"", ""e"", ""f"", ""g"", ""h""] : B,
    2 : C
  },
}")).
Eval vm_compute in ("<<<M119>>>" ++ check (runes_of_ascii "packet u{ @tag(10 // a // b
) tag  @lengthOf( A
// " ++ [128512]%N ++ runes_of_ascii " emoji
// a // b
) , repeat options1 ,  }")).
Eval vm_compute in ("<<<M623>>>" ++ check (runes_of_ascii "
packet
    asx {match u128 as lengthOf
{
//	t
// `tick` ""quote"" 'q'
255 : x ,
    } ,	} }")).
Eval vm_compute in ("<<<M594>>>" ++ check (runes_of_ascii "
packet
    asx {match u128 as lengthOf
{
//	t
// `tick` ""quote"" 'q'
: 255 x ,
    } ,	}")).
Eval vm_compute in ("<<<M1086>>>" ++ check (runes_of_ascii "packet A { match k as n // a
 { // b
 1 // c
 : // d
 B // e
 , // f
 } // g
 , // h
 }")).
Eval vm_compute in ("<<<M1610>>>" ++ check (runes_of_ascii "packet A {
    match k as n {
        [1, 22, ""c c"", 4] : B,
        2 : C,
    },
}")).
Eval vm_compute in ("<<<M1589>>>" ++ check (runes_of_ascii "options {
    FixedStringPadFromLeft = true;
}

root packet P {
    char[4] z,
}")).
Eval vm_compute in ("<<<M464>>>" ++ check (runes_of_ascii "packet uint8x
{ match pack
    as msg_type	{
    0123456789 :	float
}
,
}")).
Eval vm_compute in ("<<<M1762>>>" ++ check (runes_of_ascii "  options {  // " ++ [128512]%N ++ runes_of_ascii " emoji

	Packet = // `tick` ""quote"" 'q'

char[
3 ]

}
")).
Eval vm_compute in ("<<<M796>>>" ++ check (runes_of_ascii "packet A {
  match k as n {
    [1, 22, ""c c""] : B
    2 : C
  },
}")).
Eval vm_compute in ("<<<M785>>>" ++ check (runes_of_ascii "packet A {
  match k as n {
    [""a"", 22] : B
    2 : C
  },
}")).
Eval vm_compute in ("<<<M1550>>>" ++ check (runes_of_ascii "root packet P {
    repeat string ss,
    repeat u16 ns,
}")).
Eval vm_compute in ("<<<M1242>>>" ++ check (runes_of_ascii "root packet
    P {

    char
	c
    , u8  x 
,

}
")).
Eval vm_compute in ("<<<M181>>>" ++ check (runes_of_ascii "options{ packetx=// " ++ [27880; 37322]%N ++ runes_of_ascii "
string Logon // " ++ [27880; 37322]%N ++ runes_of_ascii "
=  int8}")).
Eval vm_compute in ("<<<M1125>>>" ++ check (runes_of_ascii "// top
MetaData // c0
u // c1
{ // c2
} // c3
")).
Eval vm_compute in ("<<<M31>>>" ++ check (runes_of_ascii "options {
x=
""{,}""
matchKey=  true	; }
")).
Eval vm_compute in ("<<<M964>>>" ++ check (runes_of_ascii "root packet A {
    u8 x `tab
	x`,
}")).
Eval vm_compute in ("<<<M1284>>>" ++ check (runes_of_ascii "root packet P {
    string s,
}
")).
Eval vm_compute in ("<<<M1028>>>" ++ check (runes_of_ascii "packet A {
 u8 x `d" ++ [8287]%N ++ runes_of_ascii "`, // c" ++ [8287]%N ++ runes_of_ascii "
}")).
Eval vm_compute in ("<<<M1065>>>" ++ check (runes_of_ascii "packet A {
}// a// b// c
")).
Eval vm_compute in ("<<<M1481>>>" ++ check (runes_of_ascii "
packet
	A	{	// a

}
")).
Eval vm_compute in ("<<<M1526>>>" ++ check (runes_of_ascii "options {
    // a
}")).
Eval vm_compute in ("<<<M992>>>" ++ check (runes_of_ascii "// c" ++ [133]%N ++ runes_of_ascii "
packet A {
}")).
Eval vm_compute in ("<<<M1465>>>" ++ check (runes_of_ascii "MetaData roots {
}")).
Eval vm_compute in ("<<<M1650>>>" ++ check (runes_of_ascii "root packet A {
}")).
Eval vm_compute in ("<<<M376>>>" ++ check (runes_of_ascii "
// " ++ [128512]%N ++ runes_of_ascii " emoji
")).
Eval vm_compute in ("<<<M1020>>>" ++ check (runes_of_ascii "// c" ++ [8239]%N)).
