From FP Require Import Lexer Parser ShowPT Digest Formatter.
From Coq Require Import String List NArith.
Import ListNotations.
Open Scope string_scope.
Set Printing Width 100000000.
Set Printing Depth 100000000.
Definition show_fres (r : fres) : string :=
  match r with
  | FOk s => "OK:" ++ sh_escaped s ""
  | FErr s => "ERR:" ++ sh_escaped s ""
  | FPanic p => "PANIC:" ++ p
  end.
Definition check (rs : list rune) : string := digest (show_fres (format_res rs)).
Definition full (rs : list rune) : string := show_fres (format_res rs).
Eval vm_compute in ("<<<M1705>>>" ++ check (runes_of_ascii "
MetaData

    asx
    { char[] MetaDataX
    ,
    lengthOf
Z9_ , crc Foo,
	char[
4294967296  ] BodyLength
,

Foo

    leftPad `doc`

    ,
    tag // a // b

  u128

    ,
    }

root

    packet 
stringy
{ 	 // trailing space 
	match
Header  as repeatCount

{ [

    ""{,}""] :

    Header  
      /// triple
	//
  ,

    255 
:

    repeatCount,

    00
: 
pack  , 1
	: trueish ,

    7
	:

A
    } ,T
{Z9_`
` ,	}, int16 o
    @calculatedFrom( ""it's"" )
`line1
line2`
, match 
zchar as

    As { ""CRC32""
:a1  ,42
	:	Header

[
10
	//
]
:
zchar // trailing space 
,
} 	 // " ++ [128512]%N ++ runes_of_ascii " emoji
	,	@tag( 
42
    )

repeat
    i64_  { 

    // c
  char[
	00

]  _x 
`{ , }` 
, }

,repeat //x

	char[]uint8x

    `crlf
line`

,@leftPad(
    '\x00') @tag( 
7 
)

int32

// a // b
// @lengthOf(

	repeatCount@calculatedFrom(

    ""x y""
    ) `// not a comment`
	,u32
zchar `
`	,	repeat  stringy	{ 
i8i8
    lengthOf ,}

    ,// packet A { u8 x, }
  @calculatedFrom(
    ""abc"")

@lengthOf( tag  )@lengthOf( /// triple
      rootA)	char[
3
]  // c

	rootA
`" ++ [233]%N ++ runes_of_ascii "` ,	// c
}  MetaData crc	{

float32
asx
	`" ++ [233]%N ++ runes_of_ascii "` ,

string
i64_ // " ++ [128512]%N ++ runes_of_ascii " emoji

, }
root
packet

Packet

//
{
charz
@lengthOf(
    zchar  )  ,f32  f32a
`{ , }` 	 // a // b
		,
i64
matchKey @lengthOf(
leftPad  )

,	string trueish ,
    @leftPad

( 
'0'  )
        // trailing space 
		tag
	@lengthOf(// a // b

string_
)`doc`
,match	stringy 
        // @lengthOf(
    // @lengthOf(
	as 
calculatedFrom

    {[ 0123456789
	] :repeatCount 
	    //	t
  	//
  ,
}  ,// trailing space 
	  char[3
] 
Header,

int64
MetaDataX 
, @leftPad

(
    )len

    {  packetx  @lengthOf(	chars 
)

    ``	,	}
, @rightPad (
	'0'

) x_y_z ,

    }	options

    { rootA 
    // packet A { u8 x, }

  //x
  ='0'  ;
	Foo=char;

A=
    zchar[0123456789

] 
// " ++ [27880; 37322]%N ++ runes_of_ascii "
	//x
    	;  packetx =

    """ ++ [233]%N ++ runes_of_ascii "t" ++ [233]%N ++ runes_of_ascii """
float =

    true } 	 //x
")).
Eval vm_compute in ("<<<M1604>>>" ++ check (runes_of_ascii "packet asx {
    leftPad @calculatedFrom(""" ++ [233]%N ++ runes_of_ascii "t" ++ [233]%N ++ runes_of_ascii """),
    @leftPad('0')
    // trailing space 
    u8x As `crlf
    line`,
    char[3] asx @calculatedFrom(""{,}""),
    // @lengthOf(
    // trailing space 
    repeat u128 {
        int {
            packetx @calculatedFrom(""packet""),
            match T as T {
                ""a	b"" : o,
            },
            zchar[00] lengthOf `{ , }`,
            /// triple
            // trailing space 
            char[] crc @calculatedFrom(""abc""),
        },
        Header @calculatedFrom(""" ++ [233]%N ++ runes_of_ascii "t" ++ [233]%N ++ runes_of_ascii """) `two words`,
        repeat uint8 uint8x,
        repeat char[0123456789] float `u8 x,`,
    },
    packetx x `say ""hi""`,
    @rightPad()
    i8i8 @calculatedFrom(""x y""),
    @leftPad()
    BodyLength {
        repeat int32 _x ``,
        i8 msg_type `doc`,
    },
}

// `tick` ""quote"" 'q'
// packet A { u8 x, }
packet body {
}

packet repeatCount {
    zchar[3] Packet,
    @lengthOf(Header)
    i64 Packet `two words`,
    zchar[65535] calculatedFrom `tab	here`,
    match x as leftPad {
        ""// no comment"" : rootA,
        ""`tick`"" : o,
    },// " ++ [128512]%N ++ runes_of_ascii " emoji
    zchar[3] u128 @calculatedFrom(""{,}"") `{ , }`,
}

//	t
options {
    u = char[42]// " ++ [27880; 37322]%N ++ runes_of_ascii "
    metadata = ""a\\"";
    Logon = string;
    Z9_ = u16;
}")).
Eval vm_compute in ("<<<M1364>>>" ++ check (runes_of_ascii "options { // c1
LittleEndian = // c3
true ; // c5a
  // c5b
StringPrefixLenType = // c7
u64 // c8a
  // c8b
; // c9a
  // c9b
ArrayPrefixLenType // c10
= // c11
u16 // c12
; // c13a
  // c13b
FixedStringPadFromLeft
    // c14
= // c15a
  // c15b
false // c16
; FixedStringPadChar = ' ' // c20a
  // c20b
; } packet // c23a
  // c23b
Logon // c24a
  // c24b
{ // c25a
  // c25b
zchar[ 5 // c27
] // c28a
  // c28b
Side2 // c29
, // c30
} root
    // c32
packet Logout
    // c34
{ // c35
repeat i64 // c37a
  // c37b
Tail , // c39a
  // c39b
Logon // c40
, // c41a
  // c41b
repeat i16 // c43
OrderId
    // c44
,
    // c45
char[] venue
    // c47
,
    // c48
uint64 x // c50
, // c51a
  // c51b
repeat
    // c52
i16 // c53
count // c54a
  // c54b
, u8
    // c56
Flags // c57
, // c58
match // c59a
  // c59b
Flags // c60
as // c61
Body // c62
{ // c63a
  // c63b
25
    // c64
: // c65a
  // c65b
Logon , // c67
} , // c69
u16 // c70
Qty // c71a
  // c71b
@calculatedFrom( // c72
""CRC32"" ) , // c75
} // c76
")).
Eval vm_compute in ("<<<M1445>>>" ++ check (runes_of_ascii "

  options {
	FixedStringPadFromLeft
    = true;
    FixedStringPadChar= '0' 
;	}
packet
Leg
{ 
repeat

    InSym93 
{
	zchar[ 
3 ]

    Acct
	,
string
Side2
, i32
Flags
,  f32 Note
	,
i32
	msgKind	,},

    f64
Note , uint16
Px
	,

} packet  Quote	{  zchar[  2
]

OrderId ,  }packet

    Ack{  repeat

    string lastPx ,

zchar[
    4  ]price
,  uint32 OrderId ,
	Quote, int8
Acct
, 
} packet Fill

    { repeat	Leg  ,

@rightPad (  '0')	char[ 11	] Note ,	f64

    Px
    ,

    @rightPad  (
    '\x00'	)  char[
    5

    ]
Flags , zchar[ 9 
]	x  ,

string msgKind
    ,
    } root packet Order  { 
Leg 
, repeat

    Ack
, @rightPad
(	'\x00'	) char[
	3
]Side2
,
	repeat  char[
	1]
seqNo
,

    u16  clOrdID
,

match  clOrdID as Body {

    198:	Leg

    ,
23
: 
Quote 
,	13 
: Ack, 
159:Fill,
    } ,	u32

    venue
	@calculatedFrom(""CRC32"") 
,
} ")).
Eval vm_compute in ("<<<M1419>>>" ++ check (runes_of_ascii "
// " ++ [27880; 37322]%N ++ runes_of_ascii "
    packet

    chars  { 
match charz  as 

    // trailing space 

A  // trailing space 
{

    0123456789 : rootA ,	42  :
x
,""1"" :
	Logon

,
7 :	u

,

    ""\n""	:
packetx,
	} ,
char[]  MetaDataX  @calculatedFrom("""" ) `" ++ [233]%N ++ runes_of_ascii "`
// trailing space 
	,
    @leftPad ( ' ' )  char[]

    Foo  , crc

    ,f64

string_  , // " ++ [128512]%N ++ runes_of_ascii " emoji
    	char[]  packetx
	,  i64
u8x  @lengthOf(
stringy

    ) `// not a comment`  ,	repeat

    zchar

{
repeat
A
    _x
,

    lengthOf @lengthOf(u8x
),

    match
    A
as  matchKey

    {3

    : 
Z9_ 
,
    ""// no comment""	:
	As 
00//x
:
i64_, 
    // a // b
    	// " ++ [128512]%N ++ runes_of_ascii " emoji
	  ""a\\""  : i64_ ,
    [

    ""`tick`""  /// triple
  ] :
	T ,  } , 
        // a // b
    // packet A { u8 x, }
    	uint32
	T `" ++ [28040; 24687; 31867; 22411]%N ++ runes_of_ascii "`

,
	} ,uint64 
/// triple
  charz

    ,}
")).
Eval vm_compute in ("<<<M1739>>>" ++ check (runes_of_ascii "options
    {	StringPrefixLenType= u8

;

    ArrayPrefixLenType
    = u32 ; FixedStringPadFromLeft =  true ;

    FixedStringPadChar =' '

; 
}  packet 
Leg { 
}
packet
	Heartbeat

    {
	zchar[

    6

]
msgKind
	, @rightPad ( 
'0'
)char[  3  ]Qty,zchar[
9 ]

    Side2
,  i8	Acct

,
}packet Logout
{
int8
	x  ,  }
packet Order { char[]
Acct	,
zchar[ 8
]
count  ,  u32
	OrderId,
uint8

    lastPx,
	u16 clOrdID	, 
zchar[
7 
]

Note,
    }
root
	packet
    Reject

    {@leftPad	(	' '
	)
char[ 8 ] 
Side2  , i8
clOrdID,
repeat 
f32 x	, u32 lastPx  ,
    match lastPx as
Body 
{
    [
    30
,
147  ]: Heartbeat
,	134  :
	Leg 
,  183

    :	Logout
,40	: Order
,}	, u16  Ref@calculatedFrom(
""CRC32""
    ), }
")).
Eval vm_compute in ("<<<M1786>>>" ++ check (runes_of_ascii "MetaData	u128

{ 
zchar[
	3 ]matchKey
	`crlf
line` //
  , }// packet A { u8 x, }

options
{	//x

}

    root
packet

    rootA{ @calculatedFrom(	""{,}""

    )	repeat
    u16
	len
    ,repeat
    body 
, i8i8
@lengthOf(
	packetx ),
    metadata
    int
	`line1
line2` ,

uint8x
    `two words` 	 // c
    	,

int16 //
    	x_y_z

,  repeatCount	, 
Logon 
{	repeat  // trailing space 
	  i8
Packet `line1
line2`	,
}
	,

    }options

    {// " ++ [128512]%N ++ runes_of_ascii " emoji
    	lengthOf 
//
  // trailing space 
	=
' '

    ;
i64_

= ""{,}"" ;
    msg_type
=
	'0'

    ; 
u
    =
// packet A { u8 x, }
    // " ++ [27880; 37322]%N ++ runes_of_ascii "
  i32
    ;	_x
	=
""abc"" 
	// packet A { u8 x, }

	;
    } ")).
Eval vm_compute in ("<<<M1861>>>" ++ check (runes_of_ascii "root packet falsey {
    @tag(255)
    len @calculatedFrom(""`tick`""),
    match MetaDataX as crc {
        [7] : roots,
    },
    @tag(10)
    @tag(10)
    @tag(255)
    repeat uint64 rootA,
    tag `" ++ [28040; 24687; 31867; 22411]%N ++ runes_of_ascii "`,
    float32 i64_,
    int64 _x `doc`,
    @leftPad(' ')
    match i8i8 as pack {
        // `tick` ""quote"" 'q'
        7 : Logon,
        ""x y"" : lengthOf,
    },// trailing space 
    match x_y_z as u {
        // `tick` ""quote"" 'q'
        // " ++ [27880; 37322]%N ++ runes_of_ascii "
        [0123456789] : packetx,
        007 : x_y_z,
        10 : rootA,
        7 : u,
        0123456789 : falsey,
    },// packet A { u8 x, }
}")).
Eval vm_compute in ("<<<M1754>>>" ++ check (runes_of_ascii "options {
    StringPrefixLenType = u8;
    ArrayPrefixLenType = u8;
    FixedStringPadFromLeft = false;
    FixedStringPadChar = ' ';
}

packet Ack {
    char[] tag7,
}

packet Reject {
    InSym61 {
        repeat Ack,
        zchar[4] f1,
    },
}

packet Logout {
    char[4] clOrdID,
}

root packet Cancel {
    @leftPad(' ')
    char[10] price,
    u8 x,
    u32 venue @lengthOf(Body),
    match x as Body {
        [92, 175] : Logout,
        26 : Reject,
        144 : Ack,
    },
    u16 count @calculatedFrom(""CR\
        C32""),
}")).
Eval vm_compute in ("<<<M294>>>" ++ check (runes_of_ascii "options { rootA = 4294967296 ; falsey = ""a\""b""
;
As =
// @lengthOf(
/// triple
""""
;packetx
    = ""packet"" i8i8 =true ;
} // `tick` ""quote"" 'q'
packet x  { repeat zchar
rootA , char[]
    pack  `// not a comment`
,@tag( 00 )
@tag( 0123456789)
u @calculatedFrom( ""packet"" )`u8 x,` , Header{
    zchar[ 00
    ] body
,
    a1	@calculatedFrom( // " ++ [128512]%N ++ runes_of_ascii " emoji
""it's"" )
`" ++ [233]%N ++ runes_of_ascii "`, }, } // " ++ [27880; 37322]%N ++ runes_of_ascii "
MetaData
    A // a // b
{zchar /// triple
matchKey
    `` , int64 metadata ,char[] _x //	t
, }
")).
Eval vm_compute in ("<<<M1848>>>" ++ check (runes_of_ascii "
packet	crc
	    // a // b
    	//x
	  {u128
    packetx, // " ++ [128512]%N ++ runes_of_ascii " emoji

match
	roots
as
//

	falsey
    {

0123456789// a // b
    :
Header  ""packet"" 	 // a // b
  	: // a // b
  Z9_
3: A 
, 
    // trailing space 
// a // b
  ""a	b"" 
: 
roots
10

:  _x	,  }	,@tag( 255 	 // a // b
  ) match
calculatedFrom
as
o
{  255  : string_
""" ++ [28040; 24687]%N ++ runes_of_ascii """
:
    i64_  ,

    } ,}
MetaData
T
    {
    float64 u ,	}
packet Pad
	{/// triple
  } ")).
Eval vm_compute in ("<<<M1262>>>" ++ check (runes_of_ascii "// top
packet // c0
B // c1
{
    // c2
u8
    // c3
a , } root packet // c8a
  // c8b
P // c9a
  // c9b
{
    // c10
u8 // c11
K , // c13
u64 // c14a
  // c14b
L @lengthOf( // c16a
  // c16b
Body
    // c17
) , match // c20a
  // c20b
K as // c22a
  // c22b
Body // c23
{ // c24a
  // c24b
1 : // c26a
  // c26b
B // c27a
  // c27b
,
    // c28
} // c29
, // c30
}
    // c31
")).
Eval vm_compute in ("<<<M1393>>>" ++ check (runes_of_ascii "packet a1 {
    char[] charz @calculatedFrom(""" ++ [28040; 24687]%N ++ runes_of_ascii """),
    uint8x `crlf
        line`,
    uint64 T `line1
        line2`,
    @leftPad('0')
    @calculatedFrom(""abc"")
    @tag(3)
    match int as len {
        0 : chars,
        [
            10, 1, 0, 10, 0,
            ""a\\""
        ] : body,
        007 : rootA,
    },
    falsey options1,
}")).
Eval vm_compute in ("<<<M1777>>>" ++ check (runes_of_ascii "packet BodyLength {
    repeatCount `// not a comment`,
    @lengthOf(lengthOf)
    @tag(65535)
    @rightPad('0')
    /// triple
    u8 Logon,
}

packet chars {
    o msg_type,
    @tag(10)
    zchar[65535] f32a,
    repeat char[] i64_ `
    `,
}

root packet f32a {
    @tag(255)
    repeat u8 stringy,
}")).
Eval vm_compute in ("<<<M215>>>" ++ check (runes_of_ascii "root	packet
    i8i8 { @tag( // c
4294967296 )
    // packet A { u8 x, }
    Header  calculatedFrom `
`
, @tag(4294967296 )
@rightPad ( ' '
    )
@lengthOf( float )
    options1 zchar `" ++ [233]%N ++ runes_of_ascii "`
//x
/// triple
,}	root packet
    // " ++ [128512]%N ++ runes_of_ascii " emoji
    x {repeat
zchar[  10 ]	x`u8 x,`,
    }")).
Eval vm_compute in ("<<<M1631>>>" ++ check (runes_of_ascii "packet Foo {
    @lengthOf(f32a)
    char[0123456789] float `u8 x,`,
}

packet i64_ {
    @lengthOf(stringy)
    char[] int @calculatedFrom(""{,}""),
    @tag(007)
    //
    int64 stringy `" ++ [233]%N ++ runes_of_ascii "`,
    char[] A @calculatedFrom(""\" ++ [233]%N ++ runes_of_ascii """) `doc`,// " ++ [27880; 37322]%N ++ runes_of_ascii "
}")).
Eval vm_compute in ("<<<M273>>>" ++ check (runes_of_ascii "root packet string_ { @leftPad (
    ' ' )  chars { repeat
zchar[ 0
]  tag ,string falsey,// " ++ [128512]%N ++ runes_of_ascii " emoji
repeat  char[ 007] body  `two words`
    , } , @calculatedFrom(
""// no comment"" ) Foo T
    , // " ++ [128512]%N ++ runes_of_ascii " emoji
}
")).
Eval vm_compute in ("<<<M169>>>" ++ check (runes_of_ascii "root packet
    // `tick` ""quote"" 'q'
    string_ { repeat
char[00]  rootA
    ,
// " ++ [128512]%N ++ runes_of_ascii " emoji
// " ++ [27880; 37322]%N ++ runes_of_ascii "
}
    MetaData u {i32 options1,
}MetaData
rootA
{
u16  chars	,
/// triple
//x
}
")).
Eval vm_compute in ("<<<M1196>>>" ++ check (runes_of_ascii "// top
packet // c0a
  // c0b
body
    // c1
{ i32 // c3
f32a
    // c4
`{ , }` // c5a
  // c5b
, }
    // c7
options // c8a
  // c8b
{ // c9
} // c10a
  // c10b
")).
Eval vm_compute in ("<<<M1384>>>" ++ check (runes_of_ascii "packet 
uint8x
    { match
pack as
msg_type{

    0123456789
:float
    }

, }packet 	 //	t
      a1
	{ }	options
	{  packetx
=

char
	;

u128 =""a	b"";  }")).
Eval vm_compute in ("<<<M446>>>" ++ check (runes_of_ascii "packet uint8x
{ match pack
    as msg_type	{
    0123456789 :	float
} }
,
} packet //	t
a1
    { } options {packetx
    = '\x00'	; u128= ""a	b""  ; }
")).
Eval vm_compute in ("<<<M1702>>>" ++ check (runes_of_ascii "packet
stringy {}  MetaData u8x  {
zchar[
65535
	// a // b
	  ]
Pad

, stringy
    string_
`u8 x,`

    , 
u8
lengthOf 
`
`,

char[255 ] 
pack,
}")).
Eval vm_compute in ("<<<M522>>>" ++ check (runes_of_ascii "packet uint8x
{ match pack
    as msg_type	{
    0123456789 :	float
}
,
} packet //	t
a1
    { } options {packetx
    = '\x00'	; u128= ;  ""a	b"" }
")).
Eval vm_compute in ("<<<M666>>>" ++ check (runes_of_ascii "// @lengthOf(
packet i8i8 { u128 u128 o , }
options { MetaDataX = true;
    BodyLength =""packet"" x_y_z= 007
crc //x
= ""abc"" ;
    msg_type =
i16 }")).
Eval vm_compute in ("<<<M695>>>" ++ check (runes_of_ascii "// @lengthOf(
packet i8i8 { u128 o , }
options { MetaDataX = true;
    BodyLe@xngth =""packet"" x_y_z= 007
crc //x
= ""abc"" ;
    msg_type =
i16 }")).
Eval vm_compute in ("<<<M707>>>" ++ check (runes_of_ascii "// @lengthOf(
packet i8i8 { u128 o , }
options { MetaDataX = true;
    BodyLength =MetaData x_y_z= 007
crc //x
= ""abc"" ;
    msg_type =
i16 }")).
Eval vm_compute in ("<<<M1428>>>" ++ check (runes_of_ascii "
packet
    A
{ 
match 
k

    as  n

{
	[

    ""a""	,22 ,	""c c""

    , 4

    ,	""e""
,66
, ""g""  ]	:B
, 2

    :
	C}
,

    }
")).
Eval vm_compute in ("<<<M1266>>>" ++ check (runes_of_ascii "  packet B
    {
u8 a
	,
    } 
root  packet

P {
u8
    K  ,
	match
    K as Body

{
1

:  B,
}  ,
	u16	L@lengthOf(	Body

) ,
	}
")).
Eval vm_compute in ("<<<M1261>>>" ++ check (runes_of_ascii "packet B {
    u8 a,
}
root packet P {
    u8 K,
    u64 L @lengthOf(Body),
    match K as Body {
        1 : B,
    },
}
")).
Eval vm_compute in ("<<<M1155>>>" ++ check (runes_of_ascii "MetaData leftPad { chars MetaDataX , } // c
packet repeatCount { char[ 255 ] uint8x `" ++ [233]%N ++ runes_of_ascii "` , } MetaData pack { As Foo , }")).
Eval vm_compute in ("<<<M1187>>>" ++ check (runes_of_ascii "MetaData leftPad { chars MetaDataX , } packet repeatCount { char[ 255 ] uint8x `" ++ [233]%N ++ runes_of_ascii "` , } MetaData pack { As Foo , // c
}")).
Eval vm_compute in ("<<<M894>>>" ++ check (runes_of_ascii "packet A {
  match k as n {
    [""a"", ""bb"", ""c c"", ""d"", ""e"", ""f"", ""g"", ""h"", ""i"", ""j"", ""k""] : B
    2 : C
  },
}")).
Eval vm_compute in ("<<<M1932>>>" ++ check (runes_of_ascii "  packet  A { match k
    as 
n 
{ [ 1 , 22

    , 007

    ,4
,	5

, 
66 ,
    7	] :B , 2
:C

}
,
}")).
Eval vm_compute in ("<<<M1317>>>" ++ check (runes_of_ascii "packet FooBar {
    u8 a,
}
packet foo_bar {
    u16 b,
}
root packet R {
    FooBar,
    foo_bar,
}
")).
Eval vm_compute in ("<<<M932>>>" ++ check (runes_of_ascii "packet A {
    Inner {
        u8 x `
`,
        Deep {
            u8 y `
`,
        },
    },
}")).
Eval vm_compute in ("<<<M891>>>" ++ check (runes_of_ascii "packet A {
  match k as n {
    [1, 22, 007, 4, 5, 66, 7, 8, 9, 10, 11] : B,
    2 : C
  },
}")).
Eval vm_compute in ("<<<M229>>>" ++ check (runes_of_ascii "// a // b
options{
Foo
= '\x00'
    pack
= zchar[ 65535]
// " ++ [128512]%N ++ runes_of_ascii " emoji
//x
;	int = ""\n"" ;	}
")).
Eval vm_compute in ("<<<M874>>>" ++ check (runes_of_ascii "packet A {
  match k as n {
    [1, 22, ""c c"", 4, 5, ""f"", 7, 8, ""i""] : B
    2 : C
  },
}")).
Eval vm_compute in ("<<<M771>>>" ++ check (runes_of_ascii "true @tag( root : repeat @calculatedFrom( match f64 int32 ] { zchar[ packet @lengthOf(")).
Eval vm_compute in ("<<<M837>>>" ++ check (runes_of_ascii "packet A {
  match k as n {
    [""a"", ""bb"", 007, ""d"", ""e"", 66] : B
    2 : C
  },
}")).
Eval vm_compute in ("<<<M839>>>" ++ check (runes_of_ascii "packet A {
  match k as n {
    [1, 22, 007, 4, 5, 66, 7] : B,
    2 : C
  },
}")).
Eval vm_compute in ("<<<M810>>>" ++ check (runes_of_ascii "packet A {
  match k as n {
    [""a"", ""bb"", 007, ""d""] : B,
    2 : C
  },
}")).
Eval vm_compute in ("<<<M1386>>>" ++ check (runes_of_ascii "packet roots {
    len leftPad `// not a comment`,
}

packet packetx {
}")).
Eval vm_compute in ("<<<M768>>>" ++ check (runes_of_ascii "char = char[] options char[] ] uint64 metadata match 1 zchar[ int16")).
Eval vm_compute in ("<<<M1444>>>" ++ check (runes_of_ascii "
packet
	body { i32 
    // c

  f32a`{ , }` 
, } 
options{
}
")).
Eval vm_compute in ("<<<M1091>>>" ++ check (runes_of_ascii "packet A { @leftPad() char[4] x, @rightPad( ) zchar[2] y, }")).
Eval vm_compute in ("<<<M1506>>>" ++ check (runes_of_ascii "root packet A
	{

    u8

    x
`a
b` ,

    }")).
Eval vm_compute in ("<<<M341>>>" ++ check (runes_of_ascii "options  { len = // " ++ [128512]%N ++ runes_of_ascii " emoji
""packet"" int
= ""abc""}")).
Eval vm_compute in ("<<<M968>>>" ++ check (runes_of_ascii "options {
    a = ""x\
y"";
    b = ""x\
y""
}")).
Eval vm_compute in ("<<<M1388>>>" ++ check (runes_of_ascii "options {
    a = 1// c
    b = 2;// d
}")).
Eval vm_compute in ("<<<M1687>>>" ++ check (runes_of_ascii "packet A {u8

x`d" ++ [11]%N ++ runes_of_ascii "`

, // c" ++ [11]%N ++ runes_of_ascii "
  }

")).
Eval vm_compute in ("<<<M959>>>" ++ check (runes_of_ascii "packet A {
    u8 x `tab
	x`,
}")).
Eval vm_compute in ("<<<M1934>>>" ++ check (runes_of_ascii "// c
packet asx {
}/// triple")).
Eval vm_compute in ("<<<M1830>>>" ++ check (runes_of_ascii "root packet msg_type {
}")).
Eval vm_compute in ("<<<M1105>>>" ++ check (runes_of_ascii "MetaData // c
tag { }")).
Eval vm_compute in ("<<<M1135>>>" ++ check (runes_of_ascii "MetaData u {
// c
}")).
Eval vm_compute in ("<<<M1036>>>" ++ check (runes_of_ascii "packet A {
}
// c" ++ [12]%N)).
Eval vm_compute in ("<<<M1024>>>" ++ check (runes_of_ascii "packet A {
}// c" ++ [8287]%N)).
Eval vm_compute in ("<<<M1586>>>" ++ check (runes_of_ascii "  /// triple
")).
Eval vm_compute in ("<<<M252>>>" ++ check (runes_of_ascii " // c")).
Eval vm_compute in ("<<<M86>>>" ++ check (runes_of_ascii "  ")).
