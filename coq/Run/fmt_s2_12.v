From FP Require Import Lexer Parser ShowPT Digest Formatter.
From Coq Require Import String List NArith.
Import ListNotations.
Open Scope string_scope.
Set Printing Width 100000000.
Set Printing Depth 100000000.
Definition show_fres (r : fres) : string :=
  match r with
  | FOk s => "OK:" ++ sh_escaped s ""
  | FErr s => "ERR:" ++ sh_escaped s ""
  | FPanic p => "PANIC:" ++ p
  end.
Definition check (rs : list rune) : string := digest (show_fres (format_res rs)).
Definition full (rs : list rune) : string := show_fres (format_res rs).
Eval vm_compute in ("<<<M3891>>>" ++ check (runes_of_ascii "MetaData string_ {
}

packet Packet {
    // @lengthOf(
    zchar[65535] metadata,
}

MetaData body {
    u packetx,
    char[] roots `" ++ [233]%N ++ runes_of_ascii "`,
    i32 Header,
    uint32 packetx,
}

packet Foo {
    @rightPad()
    match crc as u128 {
        // c
        ""it's"" : As,
        0 : x_y_z,
        """" : msg_type,
    },
    match pack as x_y_z {
        255 : msg_type,
    },
    i8 A,
    int8 BodyLength @lengthOf(tag),
    @calculatedFrom(""CRC32"")
    match int as Header {
        4294967296 : x_y_z,
        // @lengthOf(
    },
    match chars as calculatedFrom {
        [
            0, 0, 1, 0123456789, 00,
            ""a\""b"", 4294967296
        ] : stringy,
        ""`tick`"" : T,
    },
    @tag(0)
    @tag(1)
    @lengthOf(u8x)
    u8x {
        body,
        repeat calculatedFrom x_y_z `two words`,
    },
    match falsey as leftPad {
        007 : A,
        [""" ++ [28040; 24687]%N ++ runes_of_ascii """] : tag,
        1 : Pad,
    },// c
    float64 repeatCount,
    @tag(10)
    match stringy as Logon {
        7 : Pad,
    },
}

packet Packet {
    @calculatedFrom(""\n"")
    @calculatedFrom(""`tick`"")
    matchKey,
    @lengthOf(zchar)
    roots {
        repeat i16 Z9_,
        match repeatCount as stringy {
            [""x y""] : packetx,
            [""" ++ [128512]%N ++ runes_of_ascii """, ""x y"", ""\n""] : crc,
        },
    },// packet A { u8 x, }
    match tag as a1 {
        ""abc"" : packetx,
        1 : u8x,
        1 : body,
        007 : leftPad,
        0123456789 : Header,
    },
    i16 x_y_z,
    @calculatedFrom(""{,}"")
    o `it's`,
    string_ @calculatedFrom(""it's"") `crlf
    line`,
    match i8i8 as lengthOf {
        [1, ""a\\"", 42, """", ""a\\""] : o,
        10 : Foo,
        //x
        [7] : lengthOf,
    },
    repeat A {
        repeat T {
            char[007] i64_ @lengthOf(Packet),
            match T as repeatCount {
                ""x y"" : As,
            },
            repeat metadata,
            msg_type {
                float64 float,
                i8 o `u8 x,`,
                char[0] A @calculatedFrom(""1"") `two words`,
                i8 body @lengthOf(Packet),
            },//
        },
        rootA {
            f32a @lengthOf(pack),
        },
        repeat char[] u,
    },
}")).
Eval vm_compute in ("<<<M4243>>>" ++ check (runes_of_ascii "MetaData BodyLength {
    zchar[42] falsey,
    x_y_z trueish `{ , }`,
    options1 Header `
    `,
    uint8 Header `tab	here`,
    uint8 zchar,
    float64 len,
}

packet chars {
    zchar[00] options1,
    zchar[7] Header,
    @tag(0)
    char[] MetaDataX `line1
    line2`,
    repeat metadata {
        i64 MetaDataX,
        int8 o,
        leftPad Pad,
        string Z9_ `u8 x,`,
    },
    @leftPad('0')
    u64 calculatedFrom @calculatedFrom(""a\""b""),
    @lengthOf(leftPad)
    repeat Foo `line1
    line2`,
}

packet options1 {
    @tag(00)
    body asx,
    // a // b
    // " ++ [128512]%N ++ runes_of_ascii " emoji
    repeat MetaDataX {
        repeat i64 u8x `" ++ [233]%N ++ runes_of_ascii "`,
    },
    pack @calculatedFrom(""CRC32"") `
    `,
    repeat Pad {
        Foo {
            repeat i8i8,
            MetaDataX,
            // @lengthOf(
            lengthOf @calculatedFrom(""abc"") `// not a comment`,/// triple
        },
    },
    float64 string_ @calculatedFrom(""it's"") `u8 x,`,
    i8 Z9_ @lengthOf(_x),
    BodyLength matchKey `tab	here`,
    uint64 As @calculatedFrom(""// no comment""),
}

packet leftPad {
    match packetx as Foo {
        [""x y"", 3] : As,
        00 : leftPad,
        [""\n"", """"] : MetaDataX,
        00 : x,
        """" : int,
    },
    i32 Foo,
    repeat string roots,
    repeat body chars `" ++ [28040; 24687; 31867; 22411]%N ++ runes_of_ascii "`,
    int `" ++ [233]%N ++ runes_of_ascii "`,
    @rightPad(' ')
    string BodyLength,
    @lengthOf(lengthOf)
    char uint8x `line1
    line2`,
    zchar[00] repeatCount @calculatedFrom(""" ++ [28040; 24687]%N ++ runes_of_ascii """),
    @calculatedFrom(""a	b"")
    falsey @calculatedFrom(""1"") `crlf
    line`,
}//x

packet Header {
    // trailing space 
    @calculatedFrom(""" ++ [28040; 24687]%N ++ runes_of_ascii """)
    int64 u `crlf
    line`,
    @calculatedFrom(""CRC32"")
    // packet A { u8 x, }
    int64 uint8x,
    char[255] Foo `
    `,
}")).
Eval vm_compute in ("<<<M3909>>>" ++ check (runes_of_ascii "packet a1 {
    repeat uint8x {
        zchar[3] metadata @lengthOf(chars) `it's`,
        u8 packetx @calculatedFrom(""CRC32"") `two words`,
        repeat leftPad {
            match MetaDataX as f32a {
                [4294967296] : packetx,
                255 : As,
                [""\n"", ""\" ++ [233]%N ++ runes_of_ascii """, 007, """ ++ [128512]%N ++ runes_of_ascii """, 7] : float,
                0123456789 : u128,
                ""a\""b"" : calculatedFrom,
            },
            match len as u {
                [42, 4294967296] : a1,
                ""it's"" : rootA,
                7 : lengthOf,
                ""`tick`"" : rootA,
                4294967296 : calculatedFrom,
            },
            repeat string MetaDataX `it's`,
        },
        uint16 uint8x,
    },
    string_ @lengthOf(u),
    zchar[0123456789] pack @calculatedFrom("""") `u8 x,`,
    @lengthOf(x_y_z)
    @lengthOf(u128)
    @tag(007)
    zchar[10] _x `doc`,
    string BodyLength,
    // `tick` ""quote"" 'q'
    // `tick` ""quote"" 'q'
    i64 msg_type `u8 x,`,
    f64 Pad `say ""hi""`,
    string float,
    f64 lengthOf @calculatedFrom(""" ++ [28040; 24687]%N ++ runes_of_ascii """),// " ++ [128512]%N ++ runes_of_ascii " emoji
}

options {
    // packet A { u8 x, }
    matchKey = f32;
}

packet Foo {
    repeat T,
    repeat string_ {
        i16 uint8x,
    },
    repeat falsey A `doc`,
    repeat lengthOf i8i8 `tab	here`,
    repeat char[10] x_y_z ``,//	t
    @leftPad()
    @rightPad()
    options1 `doc`,
    u32 packetx,
    u8 float `crlf
    line`,
}

packet tag {
}
// " ++ [128512]%N ++ runes_of_ascii " emoji")).
Eval vm_compute in ("<<<M1001>>>" ++ check (runes_of_ascii "packet zchar{uint32 msg_type `a\`	,	char[ // " ++ [27880; 37322]%N ++ runes_of_ascii "
255 // @lengthOf(
]packetx `doc`	, @calculatedFrom("""" ) char[] MetaDataX @lengthOf(	A
)
    , @calculatedFrom(""it's""
    ) // @lengthOf(
string_
@calculatedFrom( ""a\""b"" )
`crlf
line` , char[ 0123456789 ]A `u8 x,`,// trailing space 
}
// @lengthOf(
// `tick` ""quote"" 'q'
packet chars { @calculatedFrom( ""{,}"" )
    match i64_ as MetaDataX { // `tick` ""quote"" 'q'
""`tick`""
:
    roots, [ 4294967296	,
// " ++ [128512]%N ++ runes_of_ascii " emoji
// trailing space 
""1""  ] :u  ,// trailing space 
},
f32a {
    pack
,
packetx @calculatedFrom( ""a\\"" ) , float64 stringy @calculatedFrom(""// no comment""
    )`{ , }`	,char[ 4294967296 ]Packet
@calculatedFrom( ""a\""b"") , } , }  packet Packet
    { repeatCount
tag, char[ 1
] crc `{ , }` , @leftPad( )
    zchar[ 0	]Logon
    @calculatedFrom( """ ++ [233]%N ++ runes_of_ascii "t" ++ [233]%N ++ runes_of_ascii """ // c
) ,
    leftPad
// `tick` ""quote"" 'q'
// " ++ [128512]%N ++ runes_of_ascii " emoji
{
    //	t
    repeat
    uint32 stringy , string Foo	@calculatedFrom( ""it's"")`doc`, string  Foo @lengthOf(zchar /// triple
)
, } //x
, i64 body,repeat string x_y_z , zchar[ //x
007]Packet`doc`
    ,@tag( 65535 ) char[
    0 ] float  , } packet
// " ++ [128512]%N ++ runes_of_ascii " emoji
// `tick` ""quote"" 'q'
i8i8 { repeat
    falsey`two words`, }
options{roots =
    ""\" ++ [233]%N ++ runes_of_ascii """
o = '\x00' ;u = char[ 7
]
    metadata = true // trailing space 
float
=""\n"" ; }")).
Eval vm_compute in ("<<<M673>>>" ++ check (runes_of_ascii "options
    {  asx= true ; matchKey
= ' '// packet A { u8 x, }
;
    Z9_  =int8 BodyLength=
char[]
}MetaData
    calculatedFrom {
float32 tag,  char[]Header , float64 charz
, falsey
Z9_ ,
string
    A, char[
    65535] leftPad, }
    packet BodyLength { i16
    Foo , @tag( 65535 ) @lengthOf( lengthOf )@tag( 007)
x@calculatedFrom( ""packet""  )	`u8 x,` , Logon	@calculatedFrom( ""1"" )
`two words`, }	MetaData options1 // packet A { u8 x, }
{ }
packet Packet { pack// a // b
,repeat char[] o ,@lengthOf(
    // c
    uint8x ) string_ //
@calculatedFrom(""a\""b""
),
    @tag(
0 )
u16 repeatCount `
`  , string
Packet
    , @tag(
0123456789 //
)  match x
as zchar
    { 42: msg_type , [ 3 ,""{,}"" ] :
// " ++ [27880; 37322]%N ++ runes_of_ascii "
//
u,//
4294967296: repeatCount , [ ""a\\"" ,	""`tick`"" , ""// no comment"" ,
//	t
// a // b
3 ,
""""	,
    // packet A { u8 x, }
    ""a\\"" ] :
    i64_	, ""`tick`""/// triple
: zchar, [
    ""// no comment"" ]	:MetaDataX } // packet A { u8 x, }
,
    Foo @lengthOf( A
    ) , char[65535
] Pad `it's` , match
    matchKey
as
x { [""" ++ [128512]%N ++ runes_of_ascii """  ,
""\" ++ [233]%N ++ runes_of_ascii """ ,
0123456789,//
""CRC32""// @lengthOf(
,
""`tick`""
    ,	""a\""b"",
""a	b"" ] :stringy
, } ,
// " ++ [128512]%N ++ runes_of_ascii " emoji
//	t
repeat uint16 Logon
//
/// triple
, }
")).
Eval vm_compute in ("<<<M238>>>" ++ check (runes_of_ascii "
packet
    tag{repeat
    stringy {	repeat
i32 lengthOf
, // trailing space 
string msg_type // " ++ [27880; 37322]%N ++ runes_of_ascii "
@calculatedFrom( // " ++ [128512]%N ++ runes_of_ascii " emoji
""// no comment"" ) `" ++ [233]%N ++ runes_of_ascii "` ,
    zchar
    { x @calculatedFrom( """ ++ [28040; 24687]%N ++ runes_of_ascii """ )
    ,repeat u8x len , zchar[ 255 ] i8i8 , } ,
x @calculatedFrom( ""CRC32"")
`` ,} , packetx
//	t
//	t
u8x, @calculatedFrom( ""packet"" )
zchar[  007] body
@calculatedFrom( ""CRC32"" )
    , @lengthOf( x_y_z/// triple
) char[]
int
    `" ++ [28040; 24687; 31867; 22411]%N ++ runes_of_ascii "` , zchar[ 42 ]
Logon@calculatedFrom( ""// no comment""
    ) ,
    int8
f32a , }packet  As { @calculatedFrom(
""it's""
)  int64 msg_type	@calculatedFrom( ""a\""b"" )`it's`, i8i8 pack , tag {i64 _x ,match As as f32a { // trailing space 
007 : _x ,0123456789 : metadata
    , }
, }, @lengthOf( body )repeat
u8
f32a
    `` , char[] Pad `line1
line2` ,
    @lengthOf(msg_type)  string len , @lengthOf(	a1) @tag(00
) @rightPad('\x00' ) char[ 65535 ] Header ,// trailing space 
@calculatedFrom(
    // a // b
    ""1""
) @calculatedFrom(
""a\\""  )
    // @lengthOf(
    @lengthOf( body
//
// " ++ [27880; 37322]%N ++ runes_of_ascii "
)
    i8
x_y_z
, }
root packet a1 {
    }
    packet A{
}
    // " ++ [128512]%N ++ runes_of_ascii " emoji
    packet calculatedFrom {}")).
Eval vm_compute in ("<<<M3570>>>" ++ check (runes_of_ascii "
packet i8i8 { options1

    @calculatedFrom(

    ""packet""
// trailing space 
  /// triple
  )`crlf
line`
,@rightPad ( ' ' 	 //x
)
	string lengthOf  `" ++ [233]%N ++ runes_of_ascii "` 
,

    u64
string_

    ,  }

options {
options1=
	false
	;

    } 
MetaData

    u {
	a1	options1,lengthOf
	// trailing space 
    	//	t
	x_y_z
    `line1
line2` , // c

  MetaDataX

rootA
,
zchar[ 255

]

len  ,

    char[
    007]int	//x

`say ""hi""`, 
    // @lengthOf(
    //
	  char[4294967296

    ]// `tick` ""quote"" 'q'
  stringy

, 	 //	t
    	}
    root

    packet
u8x { Z9_ @lengthOf(
Packet
)

    ,
	@calculatedFrom(""packet"" ) // a // b
    @rightPad
	(
'0'//
) 
@calculatedFrom(
""it's""

) 
packetx
`" ++ [28040; 24687; 31867; 22411]%N ++ runes_of_ascii "`,
float64
    Packet @calculatedFrom( ""`tick`""
    )

`a\`, 
@leftPad(

    '0'

)
    match
len

    as
    rootA

    { 
    // `tick` ""quote"" 'q'
	""x y"" : 
uint8x ""1""

:asx	,

""a\""b"" 
:u8x ,
	}
    , 	 // " ++ [27880; 37322]%N ++ runes_of_ascii "

	@lengthOf(  tag

    ) trueish 
As,
@lengthOf( falsey
    )  zchar[ 
1]
a1

    , }
    root
packet 
body	{
	}

")).
Eval vm_compute in ("<<<M354>>>" ++ check (runes_of_ascii "// a // b
packet chars {
    i64_ tag `say ""hi""` , }
// " ++ [128512]%N ++ runes_of_ascii " emoji
// `tick` ""quote"" 'q'
packet tag {
}// c
packet roots
    { repeat //x
x_y_z `
`	, } packet lengthOf { // c
i64 int`{ , }` , @lengthOf( trueish
    ) @lengthOf( stringy // packet A { u8 x, }
) // @lengthOf(
repeat
x repeatCount`u8 x,`,
    char[]
rootA ,uint16 int @calculatedFrom( // " ++ [128512]%N ++ runes_of_ascii " emoji
""\" ++ [233]%N ++ runes_of_ascii """ ) `say ""hi""`/// triple
,@lengthOf(
string_
    // a // b
    )char[]
    int @calculatedFrom(
""a\\"" )  , @tag( 0 )@calculatedFrom(""\n""  )// " ++ [128512]%N ++ runes_of_ascii " emoji
i32
string_  @lengthOf(
    falsey ) `say ""hi""` ,@tag(3
) @lengthOf( BodyLength
) repeat Z9_ {match// " ++ [27880; 37322]%N ++ runes_of_ascii "
T // @lengthOf(
as charz { // packet A { u8 x, }
[ 255
, ""a\""b"" ,
    """" , 00
    , 0123456789 ,""\n"" , ""\" ++ [233]%N ++ runes_of_ascii """//x
]:
x_y_z
3 : Foo ,
    // @lengthOf(
    }
    ,char[ 4294967296 ] calculatedFrom@lengthOf( Z9_ )	, } , i64
    trueish
    @lengthOf( /// triple
T) `" ++ [233]%N ++ runes_of_ascii "` , @lengthOf( body
)
@lengthOf(
matchKey // `tick` ""quote"" 'q'
) tag trueish `` , } packet Foo {
}")).
Eval vm_compute in ("<<<M4287>>>" ++ check (runes_of_ascii "
// @lengthOf(

MetaData

uint8x  { 
char[
42] 
packetx  , }
	packet
    len

    {
}
	MetaData Logon { 
matchKey 
u128

    `
`
    , string
	MetaDataX	`" ++ [233]%N ++ runes_of_ascii "`
,

    }MetaData

    //
    	//	t

rootA
{u32
	i8i8

,

}
root
packet i64_ // `tick` ""quote"" 'q'
    	{

u32 calculatedFrom

    // trailing space 
/// triple
	,

@tag(
    10	)  @rightPad  () @leftPad

(
' ')	uint16
// c
	// " ++ [128512]%N ++ runes_of_ascii " emoji
rootA , @lengthOf(
    //x
Pad
	)
	pack
@calculatedFrom(
""x y""

    ) `it's`, uint8
matchKey 
,@tag(
1	// " ++ [128512]%N ++ runes_of_ascii " emoji
	  )match Pad

as 
calculatedFrom  {	[
    ""\n""

,

    7
	,	1
, """ ++ [233]%N ++ runes_of_ascii "t" ++ [233]%N ++ runes_of_ascii """
	]
	: len

    00:
Packet

    ,
}

    ,

    @lengthOf(	string_  
  // @lengthOf(
    )

match	matchKey
as MetaDataX
{ [ ""`tick`""
    , 42  ,
    ""x y""

    ,
    """ ++ [233]%N ++ runes_of_ascii "t" ++ [233]%N ++ runes_of_ascii """ ,

4294967296]	:	o // packet A { u8 x, }

  , }

    ,uint8	charz

@calculatedFrom(""a	b""
    ),@calculatedFrom(""a\""b""	) repeat

u8x
{	pack  ,

    }
    , } ")).
Eval vm_compute in ("<<<M1096>>>" ++ check (runes_of_ascii "
MetaData T { char[
    007] x	`// not a comment` , u8 x_y_z
`// not a comment`
//	t
// trailing space 
, As body // " ++ [27880; 37322]%N ++ runes_of_ascii "
, T chars `tab	here`
    , }	root packet
len { A  , @calculatedFrom(""" ++ [128512]%N ++ runes_of_ascii """ )
crc ,x_y_z {falsey { Foo {x@lengthOf(
MetaDataX)`u8 x,` , u64 As
    `// not a comment`	,} , u32 //x
lengthOf `two words` , char[ 42 ]
x_y_z
    // `tick` ""quote"" 'q'
    @lengthOf(Z9_ )
,} ,uint64 asx `it's` , pack	packetx ,
}
    , @rightPad	( ) match
    Foo
    as Packet
{3:
float
// a // b
// " ++ [27880; 37322]%N ++ runes_of_ascii "
, ""x y""  : chars
, [ 7 ] :	trueish	,
    ""`tick`""
:
    x ,
    ""\" ++ [233]%N ++ runes_of_ascii """ : Pad ""// no comment"" : MetaDataX , } , x repeatCount
    //
    `" ++ [28040; 24687; 31867; 22411]%N ++ runes_of_ascii "` , repeat char[
7
] falsey ,
    @lengthOf(int ) @calculatedFrom(
    //
    """"
    /// triple
    ) @tag( 255
)match
u as chars{ 0: Pad 0 : charz,
    ""a\""b"" :	matchKey
    , 42 /// triple
: x}
, @calculatedFrom(
""abc""	) repeat
int64
len  , }")).
Eval vm_compute in ("<<<M4066>>>" ++ check (runes_of_ascii "options{ LittleEndian
=
true; StringPrefixLenType

=u64; 
ArrayPrefixLenType
    = u8 
;FixedStringPadChar
= '0'
;
}
	packet
    Reject 
{ 
i32
    Ref
    ,
	repeat

f64	OrderId, repeat
	InNote12
	{

u8

    pad0,  }

, @leftPad
(

    ' ' 
)char[ 6
    ] 
count	,  }  packet
    Logout	{	zchar[ 6
	]	Tail  ,
	repeat
string

venue
	,
	}
packet
	Cancel 
{

u64	count ,

repeat  char[
    5

]
lastPx
,
    i64

Tail
,
repeat InF140 {
	repeat
Logout
,  repeat
Reject
    ,
	}
    ,
    } root
packet
Trade	{
repeat

    InMsgkind39 { repeat

Reject,

    char[  4 
]
	Px  , }
	,
string
    Acct,
	uint16 price	, 
f32 
OrderId,u16 x,
    u16
clOrdID
	@lengthOf(
Body 
) 
,
    match
    x
as 
Body { 178 :Logout
	, 
13 :	Cancel ,

    174

:
    Reject
,
	}
	,

    u16

    Flags
	@calculatedFrom( ""CR\
C32""  )  ,
}
")).
Eval vm_compute in ("<<<M679>>>" ++ check (runes_of_ascii "root packet
body { @tag( 255) chars calculatedFrom ,
    //	t
    @rightPad ( '0' )
    @calculatedFrom(
    ""a	b"" // " ++ [128512]%N ++ runes_of_ascii " emoji
) @rightPad ( )
stringy @calculatedFrom( ""it's""  )// " ++ [128512]%N ++ runes_of_ascii " emoji
, repeat string trueish /// triple
,  @calculatedFrom(
    // `tick` ""quote"" 'q'
    """"
    ) asx
@lengthOf(	options1 ) `doc`  , u32 Logon ,float64// packet A { u8 x, }
i64_
    @lengthOf( metadata ) , @calculatedFrom( ""`tick`"") chars @lengthOf(len ) `line1
line2`
,f32a
    /// triple
    {match trueish
as roots{ ""1"" :
    body""// no comment"" : Packet,[ 42 , ""it's"" ,
    0, // " ++ [128512]%N ++ runes_of_ascii " emoji
""it's"" ] : charz,""a\""b"" : stringy,
// a // b
//x
}
    , } ,
uint8x { zchar[ 10 ]
    As ,}// trailing space 
, @tag( 0123456789) @rightPad (
    '0' ) @calculatedFrom("""") asx@lengthOf(	trueish ) ,} root
packet trueish{ }
")).
Eval vm_compute in ("<<<M1239>>>" ++ check (runes_of_ascii "
MetaData
    //	t
    zchar { BodyLength rootA , //x
u8x Z9_
, zchar[
    10 ] string_ , char[4294967296]i8i8 ,
    } root packet
    u{chars
    , packetx @calculatedFrom(""" ++ [128512]%N ++ runes_of_ascii """ ) /// triple
, f32	trueish // packet A { u8 x, }
`` ,  uint8	Z9_
    @calculatedFrom(
    ""abc"" ) `line1
line2`
    , repeat MetaDataX { float64 crc`// not a comment` ,zchar[
    0 ]Z9_ ,
zchar[
10 ] string_ ``
, match
    pack as
    a1
{ //	t
""a	b""
: falsey
// " ++ [128512]%N ++ runes_of_ascii " emoji
// " ++ [27880; 37322]%N ++ runes_of_ascii "
, } ,
// @lengthOf(
// `tick` ""quote"" 'q'
} , // " ++ [128512]%N ++ runes_of_ascii " emoji
repeat
char
    As// `tick` ""quote"" 'q'
, /// triple
repeat// c
Z9_// packet A { u8 x, }
{ string Packet	@calculatedFrom(
""packet"")
    , } ,@calculatedFrom( //	t
""`tick`""
    ) repeat	i64 f32a `u8 x,` ,  matchKey@lengthOf(BodyLength)`line1
line2`//x
,}")).
Eval vm_compute in ("<<<M3521>>>" ++ check (runes_of_ascii "options {
    LittleEndian = false;
    StringPrefixLenType = u16;
    ArrayPrefixLenType = u32;
}
packet Order {
    uint8 x,
    repeat string venue,
}
packet Heartbeat {
    i64 count,
    zchar[1] Qty,
    repeat InX29 {
        InSeqno26 {
            int64 f1,
            char[5] Acct,
            Order,
        },
        repeat InSide285 {
            repeat Order,
            char[10] Px,
            zchar[9] OrderId,
        },
        char[] venue,
        Order,
    },
    @rightPad('\x00') char[4] clOrdID,
}
root packet Party {
    zchar[3] f1,
    u32 clOrdID,
    u32 Px @lengthOf(Body),
    match clOrdID as Body {
        [180, 64] : Heartbeat,
        11 : Order,
    },
    u32 Side2 @calculatedFrom(""CRC32""),
}
")).
Eval vm_compute in ("<<<M3952>>>" ++ check (runes_of_ascii "options { 
LittleEndian
	=
false; 
StringPrefixLenType 
= u16  ;
ArrayPrefixLenType	= u32	;	}

packet
	Order { uint8 x  , repeat string
    venue

,
	}
packet Heartbeat
{ i64
count ,
    zchar[
1 ]Qty

    ,
	repeat
InX29 { InSeqno26
{	int64

f1
, char[	5]  Acct
,Order  , }	,	repeat

    InSide285 {repeat

    Order

, 
char[
	10]

    Px
,

zchar[
    9 ]
OrderId , 
},

    char[] venue, Order
,}	,
@rightPad

(
	'\x00' )char[  4 ] clOrdID
	, } root packet
    Party	{ zchar[ 3 
]
	f1 
, 
u32

clOrdID 
,u32
    Px
	@lengthOf(
    Body )  ,

match
clOrdID
	as
	Body
    {
[  180	,	64 ]
	:	Heartbeat

,
	11
	:Order , }

    ,
u32 Side2 
@calculatedFrom( ""CRC32""
    )	,  }
")).
Eval vm_compute in ("<<<M1236>>>" ++ check (runes_of_ascii "MetaData
o { u128 a1 , _x	trueish `it's`
,	zchar[
42]
    repeatCount,char[] T ,
    float32 charz ,u16  falsey
    , }	packet
    Logon{
}packet Header
{ }	root packet
rootA
    //
    {@calculatedFrom( ""{,}""
)match Logon
as x
    //x
    { 007 /// triple
:Packet, } ,
    } root
packet msg_type { @tag( 42
) char[] crc , @rightPad( //	t
) trueish `tab	here`
,len , As @calculatedFrom(
""x y"" //
)
, @calculatedFrom(
    //
    ""`tick`"")
// `tick` ""quote"" 'q'
//	t
@calculatedFrom(	""""
// packet A { u8 x, }
//	t
)@calculatedFrom( ""x y"" )match Packet as
    /// triple
    BodyLength{	""\n""
: u
    ,
} ,@calculatedFrom(  """"  ) repeat Logon `// not a comment` , }")).
Eval vm_compute in ("<<<M4294>>>" ++ check (runes_of_ascii "packet Logon {
    repeat char MetaDataX `say ""hi""`,
    @lengthOf(packetx)
    char[] repeatCount `doc`,
    @leftPad('0')
    @tag(7)
    Header @calculatedFrom(""""),
    @lengthOf(MetaDataX)
    match x as Header {
        ""x y"" : u8x,
        """ ++ [128512]%N ++ runes_of_ascii """ : charz,
        """ ++ [233]%N ++ runes_of_ascii "t" ++ [233]%N ++ runes_of_ascii """ : _x,
        [3, 00] : uint8x,
        ""it's"" : rootA,
        [00, 65535] : zchar,
    },
    @calculatedFrom(""// no comment"")
    int32 i64_,
    repeat body {
        zchar[10] BodyLength `line1
        line2`,
        lengthOf Logon,// @lengthOf(
        repeat float64 i8i8,
        char[0123456789] leftPad `
        `,
    },
    repeat char[255] a1 `" ++ [28040; 24687; 31867; 22411]%N ++ runes_of_ascii "`,
}")).
Eval vm_compute in ("<<<M4264>>>" ++ check (runes_of_ascii "options {
    LittleEndian = true;
    FixedStringPadFromLeft = true;
    FixedStringPadChar = '0';
}

packet Trade {
    string clOrdID,
    char[] Px,
    u32 x,
}

packet Reject {
    int32 Side2,
    repeat char[3] clOrdID,
    i32 tag7,
}

packet Leg {
}

root packet Quote {
    string Side2,
    string lastPx,
    InSym58 {
        int16 OrderId,
        Reject,
        i8 Qty,
        i64 venue,
        f32 Note,
    },
    char[] count,
    zchar[9] price,
    u16 Qty,
    match Qty as Body {
        69 : Leg,
        48 : Trade,
        51 : Reject,
    },
    u16 Acct @calculatedFrom(""CRC32""),
}")).
Eval vm_compute in ("<<<M4508>>>" ++ check (runes_of_ascii "  packet	BodyLength
	{ 
repeat	string As	`{ , }`

,@tag(

4294967296  )

    match
	Pad
    as

lengthOf
    { //	t
	007 : // `tick` ""quote"" 'q'

	i8i8/// triple

, 
""a\""b""  ://x
      msg_type ,
} ,repeat 
uint32

Z9_ 
,
    @tag(
    00)	// `tick` ""quote"" 'q'
charz
    , string 
	// trailing space 
  	i8i8	// packet A { u8 x, }
		@lengthOf( BodyLength)	,
@calculatedFrom(

""{,}"" )
    // a // b
    @leftPad 	 // " ++ [27880; 37322]%N ++ runes_of_ascii "
    	( 
)
leftPad

metadata

,

    //
    // " ++ [128512]%N ++ runes_of_ascii " emoji
string i8i8

    ``, uint64 trueish
@calculatedFrom(""1"" 
/// triple

// " ++ [27880; 37322]%N ++ runes_of_ascii "
    )
	`
`
,}
")).
Eval vm_compute in ("<<<M1099>>>" ++ check (runes_of_ascii "packet
    trueish {
    repeat
chars
    ``
,
match
    // trailing space 
    u128
as leftPad { """ ++ [233]%N ++ runes_of_ascii "t" ++ [233]%N ++ runes_of_ascii """ : msg_type , } ,	string metadata ,zchar[ 10 ] pack `a\`,u8x {match u128
as
    Pad
{
    [ ""\n"" , 0 ] : len }
    // @lengthOf(
    , // trailing space 
char[] Logon	@lengthOf(  Foo ) ,	uint64 metadata ,}
,
    u16 repeatCount
@lengthOf( T
    // trailing space 
    ) , @lengthOf(u128 )T
    @lengthOf(
    f32a ),int8// `tick` ""quote"" 'q'
i64_ `" ++ [233]%N ++ runes_of_ascii "`, @lengthOf(uint8x ) uint8 charz @calculatedFrom( """"	) , rootA
    tag
    ,
}
")).
Eval vm_compute in ("<<<M3499>>>" ++ check (runes_of_ascii "// top
root // c0
packet Frame
    // c2
{ // c3a
  // c3b
u8
    // c4
K // c5
, // c6a
  // c6b
Logon // c7
first
    // c8
,
    // c9
match // c10a
  // c10b
K as
    // c12
Body { // c14
1 : Logon
    // c17
, // c18
2 : Logout ,
    // c22
} , // c24
} packet // c26
Logon // c27a
  // c27b
{ // c28a
  // c28b
string // c29a
  // c29b
user
    // c30
, // c31a
  // c31b
} // c32a
  // c32b
packet // c33
Logout
    // c34
{ // c35a
  // c35b
u16 // c36a
  // c36b
reason ,
    // c38
}
    // c39
")).
Eval vm_compute in ("<<<M1087>>>" ++ check (runes_of_ascii "packet x { repeat
float32 Foo `{ , }` ,
    float64 i8i8	,@lengthOf(chars
    // @lengthOf(
    ) @tag( 65535)
    // @lengthOf(
    string_ , @leftPad( '0' ) repeat A charz ,
    } root packet
    Header{ @calculatedFrom(""// no comment""
    ) repeat metadata
    { repeat u64 o// c
,T
    `` //	t
,	},  } MetaData A {
    zchar[ // a // b
4294967296 ] asx ,int8 pack  , char[
    //
    65535 ]  Packet, uint8 lengthOf `" ++ [28040; 24687; 31867; 22411]%N ++ runes_of_ascii "`
    ,
char[ 10 // @lengthOf(
] i64_  `" ++ [233]%N ++ runes_of_ascii "`
    ,
    }")).
Eval vm_compute in ("<<<M379>>>" ++ check (runes_of_ascii "
root
packet
falsey	{ @tag( 0123456789
    ) @tag( 3 )
Pad { rootA ,
//x
// a // b
x { repeat int {
// " ++ [128512]%N ++ runes_of_ascii " emoji
// @lengthOf(
match f32a as crc
{
[ """ ++ [128512]%N ++ runes_of_ascii """ ,""packet""] : metadata ,//	t
[ 42,  ""abc"" , 00
    ,""a\\""
]
    // a // b
    ://x
metadata ,
[""a\""b""
] : Header , ""\n""
: asx } , } ,
    x_y_z @calculatedFrom(""1""// " ++ [128512]%N ++ runes_of_ascii " emoji
),
zchar[ 42
    ]
    string_ `` // packet A { u8 x, }
,	matchKey	pack ,} ,
}
, @lengthOf( Logon )
@leftPad
    ('\x00' )
As u8x , }")).
Eval vm_compute in ("<<<M636>>>" ++ check (runes_of_ascii "options { }// " ++ [27880; 37322]%N ++ runes_of_ascii "
root
    packet leftPad {match T as u8x{ // trailing space 
4294967296
// packet A { u8 x, }
//x
: Logon, ""1"" :i8i8 ,
0123456789 : tag, ""a\""b"" // @lengthOf(
: //x
options1 , 4294967296  : T
    }
    , repeat matchKey {
repeat string rootA ,  repeat
    // @lengthOf(
    int64
    zchar `
` , } , i32 x_y_z ,
zchar[ 007 ] packetx `it's`,
// a // b
// `tick` ""quote"" 'q'
repeat
    // " ++ [128512]%N ++ runes_of_ascii " emoji
    zchar[	255 ] falsey , } // " ++ [27880; 37322]%N)).
Eval vm_compute in ("<<<M455>>>" ++ check (runes_of_ascii "root packet
// " ++ [27880; 37322]%N ++ runes_of_ascii "
// c
Pad { @leftPad ( '\x00') @leftPad ( ' ' )
    calculatedFrom
    // packet A { u8 x, }
    rootA `it's` , T`line1
line2` ,
    match pack as  int{
    //
    0: x_y_z [""1"", 0 ,10
// c
//
,
""" ++ [128512]%N ++ runes_of_ascii """
,
    65535 ,""CRC32"" ,
7] : string_ , [ 255  , ""abc""	, ""CRC32"", ""abc""
    ]: i8i8 10 :
Z9_
    , // " ++ [128512]%N ++ runes_of_ascii " emoji
}
    ,
    } options { }	MetaData T { //x
u uint8x,string_ _x , uint16 body`doc`
, uint32 tag `a\` , }")).
Eval vm_compute in ("<<<M4130>>>" ++ check (runes_of_ascii "  options	{  charz=char[	0123456789 
] zchar  =
float32
	;
    }
packet
As {

x_y_z
	crc

    `{ , }` 
, 
}root
packet
body	{ @lengthOf(

    Logon )

    Header

    repeatCount	`it's`
,
char[	/// triple
	255] 
u128  @lengthOf(
uint8x 
        // " ++ [128512]%N ++ runes_of_ascii " emoji
      // a // b
  )  ,
    // a // b
repeat

    repeatCount`doc` //x
, @lengthOf(packetx

    )  Z9_
	x_y_z 
    // " ++ [27880; 37322]%N ++ runes_of_ascii "
    `" ++ [28040; 24687; 31867; 22411]%N ++ runes_of_ascii "`
	,	}
")).
Eval vm_compute in ("<<<M4386>>>" ++ check (runes_of_ascii "root packet i64_ {
    @leftPad('\x00')
    match roots as A {
        [""\n"", 10, 00] : asx,
    },
    zchar[1] body @calculatedFrom(""abc"") `line1
        line2`,
    int8 Z9_,
    u {
        falsey zchar,
        repeat uint16 a1,
    },
    repeat uint16 i64_ `crlf
        line`,
    pack `crlf
        line`,
    roots,
    match u128 as o {
        00 : Header,
    },
    repeat u A,
}")).
Eval vm_compute in ("<<<M1325>>>" ++ check (runes_of_ascii "
MetaData
MetaDataX { zchar[//
42 ] charz`` ,Packet
    stringy	`two words` , u32 // a // b
uint8x
    // packet A { u8 x, }
    ,int chars`
` ,	f32 metadata ,
    char[]
    string_
    ,} packet roots
{ char[
    7
    ]
    leftPad
    ,	@tag( 1 )uint8x@calculatedFrom( ""`tick`"" ) ,@lengthOf(x )lengthOf { repeat
    // " ++ [27880; 37322]%N ++ runes_of_ascii "
    uint8x  u, char
zchar , zchar[ 10
] tag
, }
,}")).
Eval vm_compute in ("<<<M580>>>" ++ check (runes_of_ascii "packet // `tick` ""quote"" 'q'
i8i8	{ } packet
    //	t
    i64_// packet A { u8 x, }
{repeat int8 crc `
`
    // a // b
    , // a // b
As,
    }
MetaData
    roots { roots roots `" ++ [233]%N ++ runes_of_ascii "` ,
    }  packet tag
    { @calculatedFrom( """ ++ [233]%N ++ runes_of_ascii "t" ++ [233]%N ++ runes_of_ascii """  ) @lengthOf( Packet
) repeat float64
asx`two words`
,  BodyLength
@calculatedFrom(
// packet A { u8 x, }
// c
""a	b""	), }
// c
")).
Eval vm_compute in ("<<<M668>>>" ++ check (runes_of_ascii "root packet options1 { repeat
    Packet { match // `tick` ""quote"" 'q'
u8x as  metadata { ""packet"" : packetx
,
[
""// no comment"" ,
    // packet A { u8 x, }
    ""a\\"" ]
    : uint8x 1 // c
: Foo , 0123456789 :	falsey
, ""abc"":
    x_y_z
    , },}
,
    @rightPad (// a // b
' ' )
    f32a crc , @tag( 3 ) repeat char[0 ] pack // c
`say ""hi""`, }
")).
Eval vm_compute in ("<<<M457>>>" ++ check (runes_of_ascii "root packet float  { char[]
    metadata`two words` ,match u128 as leftPad // packet A { u8 x, }
{""packet"" // c
: f32a , }
    , i64 MetaDataX @lengthOf(options1
) ,
    zchar[ 00 ]
// @lengthOf(
//
Logon , @lengthOf( falsey) char[00] i64_ ,
    @lengthOf( Pad ) u32
Pad	`tab	here`
, uint8 metadata
    ,// packet A { u8 x, }
}
")).
Eval vm_compute in ("<<<M593>>>" ++ check (runes_of_ascii "
options {trueish
    = uint64 lengthOf
    = u32; matchKey
    =
""""
// trailing space 
//	t
; } options
    { Packet = string charz=uint16 MetaDataX = ""abc"" }
    root packet tag { options1 // " ++ [27880; 37322]%N ++ runes_of_ascii "
i8i8 //
, @calculatedFrom(	""" ++ [28040; 24687]%N ++ runes_of_ascii """
)
match falsey as BodyLength {
10  : u8x , }, Z9_ len , msg_type `// not a comment` ,
}
")).
Eval vm_compute in ("<<<M1467>>>" ++ check (runes_of_ascii "root packet Foo // " ++ [128512]%N ++ runes_of_ascii " emoji
{ } options {
    // a // b
    tag // `tick` ""quote"" 'q'
= //	t
""""
    ; @calculatedFrom( = zchar[0  ] }
MetaData
    int {zchar[ 10]
lengthOf	`` , i64 u8x`// not a comment` ,MetaDataX pack// `tick` ""quote"" 'q'
`crlf
line`
, Logon charz `crlf
line`
    ,
    // a // b
    }
")).
Eval vm_compute in ("<<<M1411>>>" ++ check (runes_of_ascii "root root packet Foo // " ++ [128512]%N ++ runes_of_ascii " emoji
{ } options {
    // a // b
    tag // `tick` ""quote"" 'q'
= //	t
""""
    ; u8x = zchar[0  ] }
MetaData
    int {zchar[ 10]
lengthOf	`` , i64 u8x`// not a comment` ,MetaDataX pack// `tick` ""quote"" 'q'
`crlf
line`
, Logon charz `crlf
line`
    ,
    // a // b
    }
")).
Eval vm_compute in ("<<<M627>>>" ++ check (runes_of_ascii "packet Foo {asx {falsey
    ,  }
, @calculatedFrom(
// " ++ [128512]%N ++ runes_of_ascii " emoji
/// triple
""CRC32"" ) repeat char[ 007 ] rootA ,
A , repeat// packet A { u8 x, }
i8i8 pack
`two words`
// c
// a // b
,
} options {
    }packet uint8x // @lengthOf(
{ string Foo
@lengthOf( u
    ) `u8 x,`  ,  i32 BodyLength ,
}

")).
Eval vm_compute in ("<<<M1521>>>" ++ check (runes_of_ascii "root packet Foo // " ++ [128512]%N ++ runes_of_ascii " emoji
{ } options {
    // a // b
    tag // `tick` ""quote"" 'q'
= //	t
""""
    ; u8x = zchar[0  ] }
MetaData
    int {zchar[ 10 lengthOf
]	`` , i64 u8x`// not a comment` ,MetaDataX pack// `tick` ""quote"" 'q'
`crlf
line`
, Logon charz `crlf
line`
    ,
    // a // b
    }
")).
Eval vm_compute in ("<<<M1531>>>" ++ check (runes_of_ascii "root packet Foo // " ++ [128512]%N ++ runes_of_ascii " emoji
{ } options {
    // a // b
    tag // `tick` ""quote"" 'q'
= //	t
""""
    ; u8x = zchar[0  ] }
MetaData
    int {zchar[ 10]
lengthOf	, `` i64 u8x`// not a comment` ,MetaDataX pack// `tick` ""quote"" 'q'
`crlf
line`
, Logon charz `crlf
line`
    ,
    // a // b
    }
")).
Eval vm_compute in ("<<<M1532>>>" ++ check (runes_of_ascii "root packet Foo // " ++ [128512]%N ++ runes_of_ascii " emoji
{ } options {
    // a // b
    tag // `tick` ""quote"" 'q'
= //	t
""""
    ; u8x = zchar[0  ] }
MetaData
    int {zchar[ 10]
lengthOf	} , i64 u8x`// not a comment` ,MetaDataX pack// `tick` ""quote"" 'q'
`crlf
line`
, Logon charz `crlf
line`
    ,
    // a // b
    }
")).
Eval vm_compute in ("<<<M1527>>>" ++ check (runes_of_ascii "root packet Foo // " ++ [128512]%N ++ runes_of_ascii " emoji
{ } options {
    // a // b
    tag // `tick` ""quote"" 'q'
= //	t
""""
    ; u8x = zchar[0  ] }
MetaData
    int {zchar[ 10]
int8	`` , i64 u8x`// not a comment` ,MetaDataX pack// `tick` ""quote"" 'q'
`crlf
line`
, Logon charz `crlf
line`
    ,
    // a // b
    }
")).
Eval vm_compute in ("<<<M1552>>>" ++ check (runes_of_ascii "root packet Foo // " ++ [128512]%N ++ runes_of_ascii " emoji
{ } options {
    // a // b
    tag // `tick` ""quote"" 'q'
= //	t
""""
    ; u8x = zchar[0  ] }
MetaData
    int {zchar[ 10]
lengthOf	`` , i64 u8x char[] ,MetaDataX pack// `tick` ""quote"" 'q'
`crlf
line`
, Logon charz `crlf
line`
    ,
    // a // b
    }
")).
Eval vm_compute in ("<<<M3562>>>" ++ check (runes_of_ascii "options
    { LittleEndian= true

    ;
    }

packet Logon
	{	u8
	x	, string user	,

    }
	packet
Logout {
u16 reason ,

}

packet
	Empty {
}

root
	packet
Frame { u16	MsgType

    ,
@lengthOf(
Body) u8

    BodyLen ,

u8 flags	,
Logon Body ,u32

trailer ,}")).
Eval vm_compute in ("<<<M765>>>" ++ check (runes_of_ascii "
packet
    msg_type // trailing space 
{ match leftPad as float { 3 // packet A { u8 x, }
: repeatCount// trailing space 
,
[ 0123456789 ,
    // a // b
    3
    ,10	,65535 , // c
1 ] : Header	, ""{,}"" : packetx	,
    0 // @lengthOf(
: _x//	t
,  } , }
")).
Eval vm_compute in ("<<<M3553>>>" ++ check (runes_of_ascii "
packet Sub

    {u8  a , u32

SubSum@calculatedFrom(  ""CRC16"" )
	, }
root packet
    Frame 
{ u16  MsgType
,u16

    BodyLen@lengthOf(
    Body)
,Sub Body ,
    string note, 
u32 
Checksum
    @calculatedFrom(
""CRC16""
	)
,
	u8

tail ,
    }
")).
Eval vm_compute in ("<<<M1350>>>" ++ check (runes_of_ascii "packet charz
    //	t
    {
@tag( 7 )@leftPad ( '0' ) @rightPad( '0'
)repeat Logon
, }  options // trailing space 
{}
    options {} MetaData  roots { float a1 `" ++ [233]%N ++ runes_of_ascii "`
    // " ++ [27880; 37322]%N ++ runes_of_ascii "
    ,  zchar[
255 ]  calculatedFrom , u32 // " ++ [27880; 37322]%N ++ runes_of_ascii "
Packet ,} //x")).
Eval vm_compute in ("<<<M4466>>>" ++ check (runes_of_ascii "

  packet

pack{  @calculatedFrom( 
""CRC32"")

i8i8{
	MetaDataX

    @lengthOf(x  
  //x
	// packet A { u8 x, }
	) ,char	As  @lengthOf(	len) ,
    // " ++ [128512]%N ++ runes_of_ascii " emoji
      //x
  	chars metadata
`say ""hi""`
,  char[ 0]
int,
    } ,	}")).
Eval vm_compute in ("<<<M2217>>>" ++ check (runes_of_ascii "MetaData Packet Packet { }packet	asx  { @lengthOf( asx) falsey`crlf
line`
,
    }
    packet x	{uint32// @lengthOf(
rootA	,u32 options1 `say ""hi""` , @tag( 7
    )// packet A { u8 x, }
msg_type @lengthOf(
stringy	)	, }

")).
Eval vm_compute in ("<<<M3954>>>" ++ check (runes_of_ascii "options
{ FixedStringPadChar =
	'0'  ; } packet

Q 
{ zchar[ 4
    ] z
	,@rightPad  (	'\x00' ) char[

3
    ]  n ,
	char[5 ]
	d , }
	root packet

    R{
Q
    ,

    zchar[
8
    ] 
top 
, repeat
zchar[2
]zs, }")).
Eval vm_compute in ("<<<M2383>>>" ++ check (runes_of_ascii "MetaData Packet { }packet	asx  { @lengthOf( asx) falsey`crlf
line`
,
    " ++ [233]%N ++ runes_of_ascii "}
    packet x	{uint32// @lengthOf(
rootA	,u32 options1 `say ""hi""` , @tag( 7
    )// packet A { u8 x, }
msg_type @lengthOf(
stringy	)	, }

")).
Eval vm_compute in ("<<<M2327>>>" ++ check (runes_of_ascii "MetaData Packet { }packet	asx  { @lengthOf( asx) falsey`crlf
line`
,
    }
    packet x	{uint32// @lengthOf(
rootA	,u32 options1 `say ""hi""` @tag( , 7
    )// packet A { u8 x, }
msg_type @lengthOf(
stringy	)	, }

")).
Eval vm_compute in ("<<<M3488>>>" ++ check (runes_of_ascii "

  options	{	FixedStringPadChar

    = '0';
	}packet
    Q
{  zchar[

4	]	z

    , @rightPad
(
'\x00'

)

char[3] n,char[ 
5  ]

d
	, }root	packet
R
    { Q
    ,
zchar[
8  ]top
	,	repeat 
zchar[
2 
] zs,
	}")).
Eval vm_compute in ("<<<M2369>>>" ++ check (runes_of_ascii "MetaData Packet { }packet	asx  { @lengthOf( asx) falsey`crlf
line`
,
    }
    packet x	{uint32// @lengthOf(
rootA	,u32 options1 `say ""hi""` , @tag( 7
    )// packet A { u8 x, }
msg_type @lengthOf(
stringy	)")).
Eval vm_compute in ("<<<M3944>>>" ++ check (runes_of_ascii "options {
    packetx = ' '
    chars = ""a\""b"";
    BodyLength = false
}

options {
}

// " ++ [128512]%N ++ runes_of_ascii " emoji
// c
root packet A {
    @rightPad('0')
    crc {
        i16 calculatedFrom,
    },
    repeat i8 Foo,
}")).
Eval vm_compute in ("<<<M67>>>" ++ check (runes_of_ascii "MetaData Pad { Z9_
    // c
    pack ,u8 asx
    , i32
    MetaDataX , int8 // `tick` ""quote"" 'q'
x_y_z ,u128 f32a, calculatedFrom calculatedFrom
    `say ""hi""`  ,
    // trailing space 
    }
")).
Eval vm_compute in ("<<<M3949>>>" ++ check (runes_of_ascii "packet falsey {
}

MetaData x {
    body len,
    lengthOf trueish `two words`,
    zchar[65535] Header `it's`,
    packetx uint8x `
    `,
    int32 As,
}

// " ++ [128512]%N ++ runes_of_ascii " emoji
root packet i8i8 {
}")).
Eval vm_compute in ("<<<M1197>>>" ++ check (runes_of_ascii "
options  { Z9_ =
""\n"" ;calculatedFrom = ""packet"" ;zchar
= ' ' ; } MetaData
    asx { repeatCount	uint8x  `two words`
    ,  a1 A `u8 x,`,
Packet Z9_`crlf
line`
, } options { }
")).
Eval vm_compute in ("<<<M958>>>" ++ check (runes_of_ascii "packet trueish { @calculatedFrom( """ ++ [128512]%N ++ runes_of_ascii """ ) char[42 ] leftPad , pack ,@tag(	10	) packetx BodyLength , }	options { metadata
    = ""it's""charz= u64; // " ++ [128512]%N ++ runes_of_ascii " emoji
metadata= ' '
;}
")).
Eval vm_compute in ("<<<M1131>>>" ++ check (runes_of_ascii "packet matchKey
    {@calculatedFrom(	""" ++ [28040; 24687]%N ++ runes_of_ascii """
    ) // " ++ [128512]%N ++ runes_of_ascii " emoji
match  tag/// triple
as// c
Foo {
[ ""a\""b""	, 255 //x
]:trueish
// c
// " ++ [27880; 37322]%N ++ runes_of_ascii "
,  } , // a // b
}options{
}
")).
Eval vm_compute in ("<<<M447>>>" ++ check (runes_of_ascii "root  packet msg_type
// " ++ [27880; 37322]%N ++ runes_of_ascii "
//	t
{ string lengthOf `a\`
,
    @tag( 65535) rootA calculatedFrom , char[]	crc `{ , }`  ,
zchar[
// c
//	t
65535 ]msg_type , }
")).
Eval vm_compute in ("<<<M4379>>>" ++ check (runes_of_ascii "MetaData i64_ {
    float32 BodyLength,
    int8 tag `two words`,
    roots a1 `crlf
    line`,
}

MetaData f32a {
    int64 o `tab	here`,
    i32 A,
}")).
Eval vm_compute in ("<<<M4274>>>" ++ check (runes_of_ascii "// top
packet calculatedFrom {
    // c2
    @tag(4294967296)
    // c5
    u msg_type,// c8
    char[3] crc @lengthOf(len) `u8 x,`,// c17
}// c18")).
Eval vm_compute in ("<<<M4019>>>" ++ check (runes_of_ascii "packet 
A{ match

k
as	n { [1, 
22 
,  ""c c"" ,

    4,

5
    , 
""f""  ,

7  , 8,""i""
    ,  10

    ,	11 
]:
	B
,  2
:
	C

    } ,
	}

")).
Eval vm_compute in ("<<<M4075>>>" ++ check (runes_of_ascii "options

{ Header

=  4294967296

    charz=
    true Pad 
=

'\x00'
charz =
// `tick` ""quote"" 'q'
  """"
;}
	MetaData
	MetaDataX

{}")).
Eval vm_compute in ("<<<M1643>>>" ++ check (runes_of_ascii "root packet /// triple
rootA {	i32 i32
MetaDataX@calculatedFrom( ""CRC32"" ) `line1
line2` , } MetaData BodyLength {
u8
rootA, } // c")).
Eval vm_compute in ("<<<M2324>>>" ++ check (runes_of_ascii "MetaData Packet { }packet	asx  { @lengthOf( asx) falsey`crlf
line`
,
    }
    packet x	{uint32// @lengthOf(
rootA	,u32 options1")).
Eval vm_compute in ("<<<M1694>>>" ++ check (runes_of_ascii "root packet /// triple
rootA {	i32
MetaDataX@calculatedFrom( ""CRC32"" ) `line1
line2` , } MetaData BodyLength u8
{
rootA, } // c")).
Eval vm_compute in ("<<<M612>>>" ++ check (runes_of_ascii "options
{Header =
4294967296 charz =true Pad =	'\x00'charz=
    // `tick` ""quote"" 'q'
    """"
    ; } MetaData MetaDataX { }")).
Eval vm_compute in ("<<<M526>>>" ++ check (runes_of_ascii "packet options1 { @calculatedFrom( ""a\\""
)  Logon	@calculatedFrom(
""" ++ [233]%N ++ runes_of_ascii "t" ++ [233]%N ++ runes_of_ascii """ // c
)`a\` ,
float32 packetx
    `
` ,} // a // b")).
Eval vm_compute in ("<<<M1808>>>" ++ check (runes_of_ascii "packet
    Pad // a // b
{ i8i8 @calculatedFrom( @rightPad) `u8 x,` ,
} options{ float// " ++ [128512]%N ++ runes_of_ascii " emoji
= f64 i64_
=//	t
00 }
")).
Eval vm_compute in ("<<<M1821>>>" ++ check (runes_of_ascii "packet
    Pad // a // b
{ i8i8 @calculatedFrom( ""a	b"") `u8 x,` , ,
} options{ float// " ++ [128512]%N ++ runes_of_ascii " emoji
= f64 i64_
=//	t
00 }
")).
Eval vm_compute in ("<<<M3717>>>" ++ check (runes_of_ascii "packet repeatCount {
}

packet charz {
    @calculatedFrom(""// no comment"")
    int32 msg_type @lengthOf(f32a),
}// " ++ [27880; 37322]%N)).
Eval vm_compute in ("<<<M2991>>>" ++ check (runes_of_ascii "packet A {
  match k as n {
    [""a"", ""bb"", ""c c"", ""d"", ""e"", ""f"", ""g"", ""h"", ""i"", ""j"", ""k"", ""l""] : B,
    2 : C
  },
}")).
Eval vm_compute in ("<<<M1875>>>" ++ check (runes_of_ascii "packet
    Pad // a // b
{ i8i8 @calculatedFrom( ""a	b"") `u8 x,` ,
} options{ float// " ++ [128512]%N ++ runes_of_ascii " emoji
= f64 i64_
=//	t
00 ")).
Eval vm_compute in ("<<<M1805>>>" ++ check (runes_of_ascii "packet
    Pad // a // b
{ i8i8 @calculatedFrom( ) `u8 x,` ,
} options{ float// " ++ [128512]%N ++ runes_of_ascii " emoji
= f64 i64_
=//	t
00 }
")).
Eval vm_compute in ("<<<M4474>>>" ++ check (runes_of_ascii "  packet
    Logon  {

@tag(
42)

@rightPad( 
  // c
' '
) @leftPad()  repeat

trueish
{
	string 
T, } 
, }
")).
Eval vm_compute in ("<<<M1803>>>" ++ check (runes_of_ascii "packet
    Pad // a // b
{ i8i8 int16 ""a	b"") `u8 x,` ,
} options{ float// " ++ [128512]%N ++ runes_of_ascii " emoji
= f64 i64_
=//	t
00 }
")).
Eval vm_compute in ("<<<M4374>>>" ++ check (runes_of_ascii "  packet charz
{ 	 // trailing space 
	@tag(255 )  @calculatedFrom(
""packet"" ) u32 repeatCount ,// c
	}
")).
Eval vm_compute in ("<<<M3361>>>" ++ check (runes_of_ascii "packet calculatedFrom { @tag( 4294967296 ) u msg_type , char[ 3 ] // c
crc @lengthOf( len ) `u8 x,` , }")).
Eval vm_compute in ("<<<M2974>>>" ++ check (runes_of_ascii "packet A {
  match k as n {
    [""a"", ""bb"", 007, ""d"", ""e"", 66, ""g"", ""h"", 9, ""j""] : B
    2 : C
  },
}")).
Eval vm_compute in ("<<<M3696>>>" ++ check (runes_of_ascii "
packet A
    { match  k 
as n	{ [

    1 ,22,	007 ,  4 , 5 ]:  B 
2:

    C 
}

,

    }

")).
Eval vm_compute in ("<<<M327>>>" ++ check (runes_of_ascii "MetaData
    // " ++ [128512]%N ++ runes_of_ascii " emoji
    msg_type { As  roots , i32  rootA, f64 falsey  ,
char[]
rootA ,}
")).
Eval vm_compute in ("<<<M3237>>>" ++ check (runes_of_ascii "packet Logon { @tag( 42 ) @rightPad ( ' ' ) @leftPad
// c
( ) repeat trueish { string T , } , }")).
Eval vm_compute in ("<<<M2957>>>" ++ check (runes_of_ascii "packet A {
  match k as n {
    [""a"", 22, ""c c"", 4, ""e"", 66, ""g"", 8, ""i""] : B
    2 : C
  },
}")).
Eval vm_compute in ("<<<M1987>>>" ++ check (runes_of_ascii "root
packet crc
    { f32a @calculatedFrom( """ ++ [233]%N ++ runes_of_ascii "t" ++ [233]%N ++ runes_of_ascii """ """ ++ [233]%N ++ runes_of_ascii "t" ++ [233]%N ++ runes_of_ascii """ )
    `say ""hi""`, lengthOf `` ,  }")).
Eval vm_compute in ("<<<M2944>>>" ++ check (runes_of_ascii "packet A {
  match k as n {
    [""a"", 22, ""c c"", 4, ""e"", 66, ""g"", 8] : B
    2 : C
  },
}")).
Eval vm_compute in ("<<<M2930>>>" ++ check (runes_of_ascii "packet A {
  match k as n {
    [""a"", 22, ""c c"", 4, ""e"", 66, ""g""] : B,
    2 : C
  },
}")).
Eval vm_compute in ("<<<M4111>>>" ++ check (runes_of_ascii "

  root
packet  f32a  {
packetx  @calculatedFrom( ""CRC32"")
    // a // b

//x
	, } ")).
Eval vm_compute in ("<<<M1991>>>" ++ check (runes_of_ascii "root
packet crc
    { f32a @calculatedFrom( """ ++ [233]%N ++ runes_of_ascii "t" ++ [233]%N ++ runes_of_ascii """ 
    `say ""hi""`, lengthOf `` ,  }")).
Eval vm_compute in ("<<<M1966>>>" ++ check (runes_of_ascii "root
packet 
    { f32a @calculatedFrom( """ ++ [233]%N ++ runes_of_ascii "t" ++ [233]%N ++ runes_of_ascii """ )
    `say ""hi""`, lengthOf `` ,  }")).
Eval vm_compute in ("<<<M3304>>>" ++ check (runes_of_ascii "packet o { @tag( 42 ) // c
repeat x { char[ 0123456789 ] i64_ , } , } options { }")).
Eval vm_compute in ("<<<M4030>>>" ++ check (runes_of_ascii "packet orderItem {
    u8 a,
}

root packet newOrder {
    orderItem,
    u8 x,
}")).
Eval vm_compute in ("<<<M3607>>>" ++ check (runes_of_ascii "packet
As {	char[ 42
    ]

    o`it's`  
      // @lengthOf(
		,

    }
")).
Eval vm_compute in ("<<<M859>>>" ++ check (runes_of_ascii "
options // `tick` ""quote"" 'q'
{ Packet =
'0' ;
// " ++ [27880; 37322]%N ++ runes_of_ascii "
// " ++ [27880; 37322]%N ++ runes_of_ascii "
x	=
    42 ; }
")).
Eval vm_compute in ("<<<M2896>>>" ++ check (runes_of_ascii "packet A {
  match k as n {
    [""a"", ""bb"", 007, ""d""] : B
    2 : C
  },
}")).
Eval vm_compute in ("<<<M3661>>>" ++ check (runes_of_ascii "packet A {
    match
    k

as
    n
{[ 1 , ""a""
,2 ] : B
	,} 
,
    }
")).
Eval vm_compute in ("<<<M3396>>>" ++ check (runes_of_ascii "MetaData
// c
_x { zchar[ 4294967296 ] lengthOf `// not a comment` , }")).
Eval vm_compute in ("<<<M3458>>>" ++ check (runes_of_ascii "root packet P {
    u16 a,
    u32 Sum @calculatedFrom(""CR\
C32""),
}
")).
Eval vm_compute in ("<<<M930>>>" ++ check (runes_of_ascii "MetaData u8x{  char[ 0123456789 ]T  ,} options
    {roots =
u64 ; }")).
Eval vm_compute in ("<<<M2936>>>" ++ check (runes_of_ascii "packet A { Inner { match k as n { [1,22,007,4,5,66,7] : B, }, }, }")).
Eval vm_compute in ("<<<M2923>>>" ++ check (runes_of_ascii "packet A { Inner { match k as n { [1,22,007,4,5,66] : B, }, }, }")).
Eval vm_compute in ("<<<M214>>>" ++ check (runes_of_ascii "
MetaData string_ {Header
    roots ,} MetaData
MetaDataX	{ }")).
Eval vm_compute in ("<<<M634>>>" ++ check (runes_of_ascii "  packet	As {char[ 42
]	o
`it's`
    // @lengthOf(
    ,  }")).
Eval vm_compute in ("<<<M1254>>>" ++ check (runes_of_ascii "MetaData int {	i32 calculatedFrom
`// not a comment` , }
")).
Eval vm_compute in ("<<<M1952>>>" ++ check (runes_of_ascii "
packet	As { @calculatedFrom(//x
""{,}""	)lengthOf" ++ [0]%N ++ runes_of_ascii " , } 	 ")).
Eval vm_compute in ("<<<M3868>>>" ++ check (runes_of_ascii "

  options
	    // a // b
    	// @lengthOf(
  { }
")).
Eval vm_compute in ("<<<M2409>>>" ++ check (runes_of_ascii "MetaData A
{
string
chars	, } // `tick` ""quote"" 'q'")).
Eval vm_compute in ("<<<M620>>>" ++ check (runes_of_ascii "MetaData //
body{
    } // c
options { // " ++ [27880; 37322]%N ++ runes_of_ascii "
}
")).
Eval vm_compute in ("<<<M3750>>>" ++ check (runes_of_ascii "options {
    float = 4294967296;
}

options {
}")).
Eval vm_compute in ("<<<M4143>>>" ++ check (runes_of_ascii "
// packet A { u8 x, }
	// `tick` ""quote"" 'q'
")).
Eval vm_compute in ("<<<M2608>>>" ++ check (runes_of_ascii "packet A { match k as n { [1,""a"",2] : B, }, }")).
Eval vm_compute in ("<<<M1091>>>" ++ check (runes_of_ascii "// " ++ [128512]%N ++ runes_of_ascii " emoji
MetaData
    tag
{ /// triple
}")).
Eval vm_compute in ("<<<M60>>>" ++ check (runes_of_ascii "root packet u
    /// triple
    {
    }
")).
Eval vm_compute in ("<<<M2106>>>" ++ check (runes_of_ascii "MetaData x x
{// " ++ [128512]%N ++ runes_of_ascii " emoji
i16 stringy , }")).
Eval vm_compute in ("<<<M3204>>>" ++ check (runes_of_ascii "MetaData zchar { zchar[ 3 ] Pad , // c
}")).
Eval vm_compute in ("<<<M1443>>>" ++ check (runes_of_ascii "root packet Foo // " ++ [128512]%N ++ runes_of_ascii " emoji
{ } options")).
Eval vm_compute in ("<<<M2105>>>" ++ check (runes_of_ascii "MetaData 
{// " ++ [128512]%N ++ runes_of_ascii " emoji
i16 stringy , }")).
Eval vm_compute in ("<<<M4120>>>" ++ check (runes_of_ascii "MetaData zchar {
    zchar[3] Pad,
}")).
Eval vm_compute in ("<<<M3175>>>" ++ check (runes_of_ascii "packet A { @tag( // a
 1 ) u8 x, }")).
Eval vm_compute in ("<<<M3043>>>" ++ check (runes_of_ascii "root packet A {
    u8 x `
x`,
}")).
Eval vm_compute in ("<<<M2054>>>" ++ check (runes_of_ascii "MetaData options { u64 pack, }")).
Eval vm_compute in ("<<<M937>>>" ++ check (runes_of_ascii "packet  f32a {stringy
`` , }
")).
Eval vm_compute in ("<<<M2839>>>" ++ check (runes_of_ascii """{,}"" uint32 MetaData packet")).
Eval vm_compute in ("<<<M4479>>>" ++ check (runes_of_ascii "  options

{ int	= i16 
;
}")).
Eval vm_compute in ("<<<M1308>>>" ++ check (runes_of_ascii "
root
packet len
{
    }
")).
Eval vm_compute in ("<<<M1003>>>" ++ check (runes_of_ascii "packet repeatCount {} //")).
Eval vm_compute in ("<<<M3385>>>" ++ check (runes_of_ascii "packet lengthOf
// c
{ }")).
Eval vm_compute in ("<<<M227>>>" ++ check (runes_of_ascii " // packet A { u8 x, }")).
Eval vm_compute in ("<<<M2069>>>" ++ check (runes_of_ascii "MetaData A { u64 ,, }")).
Eval vm_compute in ("<<<M2699>>>" ++ check ([65533; 65533]%N ++ runes_of_ascii "0" ++ [65533; 5; 65533]%N ++ runes_of_ascii "b_" ++ [65533]%N ++ runes_of_ascii "!" ++ [11; 65533; 65533; 65533; 29; 65533]%N ++ runes_of_ascii "XR" ++ [65533]%N ++ runes_of_ascii ";")).
Eval vm_compute in ("<<<M3628>>>" ++ check (runes_of_ascii "packet A {
    x,
}")).
Eval vm_compute in ("<<<M3072>>>" ++ check (runes_of_ascii "// c" ++ [160]%N ++ runes_of_ascii "
packet A {
}")).
Eval vm_compute in ("<<<M37>>>" ++ check (runes_of_ascii "MetaData charz{ }")).
Eval vm_compute in ("<<<M3119>>>" ++ check (runes_of_ascii "packet A {
}// c" ++ [12]%N)).
Eval vm_compute in ("<<<M2224>>>" ++ check (runes_of_ascii "MetaData Packet")).
Eval vm_compute in ("<<<M2751>>>" ++ check ([26; 21]%N ++ runes_of_ascii "G" ++ [65533]%N ++ runes_of_ascii "t~" ++ [28]%N ++ runes_of_ascii "?" ++ [65533]%N ++ runes_of_ascii "w" ++ [65533; 65533]%N)).
Eval vm_compute in ("<<<M2113>>>" ++ check (runes_of_ascii "MetaData x")).
Eval vm_compute in ("<<<M1746>>>" ++ check (runes_of_ascii "options")).
Eval vm_compute in ("<<<M2512>>>" ++ check (runes_of_ascii """a\b""")).
Eval vm_compute in ("<<<M2724>>>" ++ check (runes_of_ascii "d=hM_")).
Eval vm_compute in ("<<<M2476>>>" ++ check (runes_of_ascii "'  '")).
Eval vm_compute in ("<<<M2515>>>" ++ check (runes_of_ascii """`""")).
Eval vm_compute in ("<<<M2517>>>" ++ check (runes_of_ascii "``")).
Eval vm_compute in ("<<<M2702>>>" ++ check (runes_of_ascii "{")).
