From FP Require Import Lexer Parser ShowPT Digest Formatter.
From Coq Require Import String List NArith.
Import ListNotations.
Open Scope string_scope.
Set Printing Width 100000000.
Set Printing Depth 100000000.
Definition show_fres (r : fres) : string :=
  match r with
  | FOk s => "OK:" ++ sh_escaped s ""
  | FErr s => "ERR:" ++ sh_escaped s ""
  | FPanic p => "PANIC:" ++ p
  end.
Definition check (rs : list rune) : string := digest (show_fres (format_res rs)).
Definition full (rs : list rune) : string := show_fres (format_res rs).
Eval vm_compute in ("<<<M3813>>>" ++ check (runes_of_ascii "
options{ 
BodyLength

    =

    string; trueish	= ""it's"" i8i8  =""// no comment"" 
      // trailing space 
  	roots

    // a // b
    // packet A { u8 x, }
	=	// `tick` ""quote"" 'q'
    """ ++ [28040; 24687]%N ++ runes_of_ascii """
;	// a // b
	falsey
= 
'\x00'  ;
    }
packet 
metadata { packetx
    {repeat 
rootA
x_y_z `tab	here`,
repeat
pack
    ,
Logon{ u16  msg_type

,
	u8  BodyLength
	`
`

    , 
zchar[ 3
]int,

}
,
a1
	T	,
	}
,	// `tick` ""quote"" 'q'
	repeat

    f32
o`crlf
line`,
    i32
rootA ,
	int32 matchKey	, @leftPad 

    // a // b
	// @lengthOf(
  (
    )
x_y_z  {  match	body  as u8x
	{
	[
	""{,}""
]

:
u8x
, 
3:
	u8x
	,

    4294967296: As

    ,

[	""CRC32""
]	:
	A, 255	// packet A { u8 x, }
	  : body
    //

, 	 // c
42

    :
x_y_z}
, }

    ,
	repeat	body float

    ,

}// trailing space 
		packet trueish	{stringy

    @lengthOf(	float  )

    `{ , }` , repeat	// packet A { u8 x, }

i64_  ,
uint16 string_ 
	// `tick` ""quote"" 'q'
  	@calculatedFrom(
    ""\" ++ [233]%N ++ runes_of_ascii """) `
`
    ,// a // b

	@tag( 0123456789 
) 
char[ 
  //x
    4294967296 ]calculatedFrom@lengthOf(int

)`line1
line2`

    ,// packet A { u8 x, }
match	rootA
as
    asx	{ ""\" ++ [233]%N ++ runes_of_ascii """
:

    f32a
    ,  ""\n"":

rootA[""a\\"" 
    //
  //
    ,
0123456789]	: crc , 1	: msg_type
    ,	""a	b"" 
:

    stringy  // packet A { u8 x, }

  ,
    }
// " ++ [27880; 37322]%N ++ runes_of_ascii "
		,	repeat  len { 
string_ {	i16
	_x, 
_x {

repeat
uint8x
a1 
,

char[ 42

]zchar

`say ""hi""`	,

    zchar[ 7

    ]
uint8x ,	}
, repeat
i8i8
body ,  } 
	// " ++ [128512]%N ++ runes_of_ascii " emoji
	, uint8
T	@lengthOf( repeatCount

    )
    ,}	, 
}

    root	packet

    asx
{
@calculatedFrom(	""x y""  )
	repeat
pack, repeat
string_{u8 metadata
    ,	} , @calculatedFrom(""abc""

) roots 
@lengthOf(

    T	) `` 
,	match
asx as uint8x	{  3

    :
u8x
	,	} 
	// a // b
	  ,  // trailing space 
  u8x  @calculatedFrom(""{,}""

)

, }	packet 
o// " ++ [128512]%N ++ runes_of_ascii " emoji
  	{
	string
Logon	,

    charz 
metadata

    ,

match // c

	len as
    float  {

255
: 
      //	t
	uint8x,

""CRC32""	: 
As,  1
:
body

    ,
	7 
: options1	,
	[
""" ++ [128512]%N ++ runes_of_ascii """

    , ""it's""//
    ]

    :repeatCount

    } ,

@leftPad ( ) 
@calculatedFrom( ""x y""  )	@leftPad  ( ' '

) repeat	lengthOf

,zchar[42 
]
	Logon@calculatedFrom( 	 // packet A { u8 x, }

  """" )  ,  } 
//x
")).
Eval vm_compute in ("<<<M1268>>>" ++ check (runes_of_ascii "options { Logon = ""abc""
    ;options1
=  0
;
len ='0' ; tag = float64;
}packet options1 { @lengthOf( Header) int16 BodyLength , //
@tag(
7 ) @calculatedFrom( """ ++ [233]%N ++ runes_of_ascii "t" ++ [233]%N ++ runes_of_ascii """ ) @lengthOf(
    //	t
    i8i8 ) char[3 ]
// " ++ [27880; 37322]%N ++ runes_of_ascii "
//x
tag `// not a comment`  , match
    // trailing space 
    body  as f32a { 3
    :As } ,
@lengthOf( a1
    )	zchar[
00 ] pack @calculatedFrom( ""x y""
    ) , @lengthOf(
// packet A { u8 x, }
/// triple
msg_type ) @calculatedFrom(
    ""a	b"") @calculatedFrom( """ ++ [128512]%N ++ runes_of_ascii """  )
    repeatCount
{
    char[]//	t
string_
,
    match
x as repeatCount { 10 // " ++ [128512]%N ++ runes_of_ascii " emoji
:a1 ,
    65535
    // packet A { u8 x, }
    : // c
u8x , 10: T  ,""// no comment"" : i8i8
, 3:lengthOf , 0: chars	, } , match x
as pack	{ 7:Foo	1 :msg_type ,
0123456789 :
    o,	007	:	MetaDataX ""1"" :falsey ,
    }
,	repeat
    int8
    Header`say ""hi""` ,  } ,
    BodyLength @calculatedFrom( """ ++ [28040; 24687]%N ++ runes_of_ascii """
    ) /// triple
, //x
lengthOf`crlf
line` , @lengthOf( matchKey ) @calculatedFrom( ""a	b""
)@tag(0  )
    repeat
    MetaDataX // packet A { u8 x, }
{ //
stringy string_ ,
    Packet @lengthOf( // " ++ [128512]%N ++ runes_of_ascii " emoji
rootA ) ,} , @lengthOf( a1	) repeat chars {
metadata
// " ++ [128512]%N ++ runes_of_ascii " emoji
//	t
@lengthOf(	calculatedFrom
// c
// trailing space 
)
    `say ""hi""` ,
    options1@lengthOf( charz  )  `line1
line2` ,
repeat
MetaDataX{ repeat uint8
falsey ,  zchar[
0123456789 ]
rootA @calculatedFrom( """ ++ [128512]%N ++ runes_of_ascii """
    )
    `say ""hi""`
, }
    ,} //	t
, } MetaData charz /// triple
{ uint32
_x , matchKey float
,  stringy a1 ,
}packet
Header { } packet	T
    {
    @tag(
    7 )
//x
// trailing space 
zchar[ 00	]
    falsey
`it's`, char[] MetaDataX ,
BodyLength
    { packetx// " ++ [27880; 37322]%N ++ runes_of_ascii "
int ,} ,@lengthOf(  Header
    ) A , charz@lengthOf(	x_y_z ), int64
charz, // " ++ [128512]%N ++ runes_of_ascii " emoji
repeat
    //
    int64
leftPad,@tag( 7)@calculatedFrom( ""{,}"" )
pack
    // trailing space 
    ,
}")).
Eval vm_compute in ("<<<M510>>>" ++ check (runes_of_ascii "root
packet
Foo  {
chars
{ falsey body  , zchar[ 3	] repeatCount
    `{ , }` , } ,
@lengthOf(BodyLength ) i8 //	t
Z9_
    @lengthOf( trueish ) , // " ++ [128512]%N ++ runes_of_ascii " emoji
@rightPad (
) repeat Pad { _x@calculatedFrom( // `tick` ""quote"" 'q'
""\" ++ [233]%N ++ runes_of_ascii """
    )	, match msg_type as // @lengthOf(
uint8x
    { [ 1 , ""\n""
    ,0, ""\n""] : Packet ""CRC32"":
pack,} , } ,  @calculatedFrom( ""a\""b"" ) repeat body {
char[ 007 ] i64_ // `tick` ""quote"" 'q'
`
` ,
    match charz
    as pack{ 65535 :
    u8x 65535 :	zchar
    ,[ 255 ] // trailing space 
:	chars
// `tick` ""quote"" 'q'
// " ++ [128512]%N ++ runes_of_ascii " emoji
,1
:
    stringy, [ """ ++ [28040; 24687]%N ++ runes_of_ascii """] : int	,0
    :// " ++ [128512]%N ++ runes_of_ascii " emoji
asx , } // " ++ [27880; 37322]%N ++ runes_of_ascii "
, }
,  match // c
o
    as
// " ++ [128512]%N ++ runes_of_ascii " emoji
// `tick` ""quote"" 'q'
A
    { 007
    :
calculatedFrom ,	""abc""
:roots
// packet A { u8 x, }
// packet A { u8 x, }
, ""`tick`"":Foo
    ,
    ""it's"":Foo , 007 :
//	t
// packet A { u8 x, }
float,
} ,@leftPad
(' '
// trailing space 
// `tick` ""quote"" 'q'
)
// `tick` ""quote"" 'q'
// trailing space 
repeat repeatCount	, char[ 007 ]
u128
// `tick` ""quote"" 'q'
// packet A { u8 x, }
`crlf
line`,} //
packet asx {
charz { rootA
//	t
// trailing space 
@calculatedFrom( """ ++ [233]%N ++ runes_of_ascii "t" ++ [233]%N ++ runes_of_ascii """
) ,  }, }
packet msg_type
{
}MetaData  o{ f32
msg_type,
    int64 body
    , } root packet body {  @tag(1
    ) @calculatedFrom(	""`tick`""
)
    @tag(
    0123456789
) metadata
    {pack i64_ , } ,  repeat zchar[ 7
    // trailing space 
    ] asx ,
chars @calculatedFrom(""\n"" ) , repeat zchar[
    4294967296 ]
    x  ,@rightPad (
'\x00' )u8
    msg_type `" ++ [233]%N ++ runes_of_ascii "`
    ,
float64
pack @lengthOf(
    MetaDataX
    )
,	}")).
Eval vm_compute in ("<<<M239>>>" ++ check (runes_of_ascii "packet x_y_z {
packetx { i16 pack `doc` ,
    repeat char[
    255
]leftPad
    ,
} , u8x , match o as roots {
[ // a // b
0123456789 ]
    // packet A { u8 x, }
    : x_y_z [""a\\""
    ] : packetx
    , }
,  repeat charz{	int32 i64_ `{ , }`,
}  ,  }
    packet x_y_z { @calculatedFrom(
""CRC32""
    )
@tag( 00 ) @lengthOf(x ) match As as
stringy
    { 1	: i64_
    ,// " ++ [27880; 37322]%N ++ runes_of_ascii "
[""it's""
,
""1"" ,
""x y"" //
, 4294967296
    ,
""\n"" , ""x y"" ] :
u128 ,00 : calculatedFrom
,	[ // " ++ [128512]%N ++ runes_of_ascii " emoji
4294967296
    , ""// no comment""
    , 42
    ,
3,""{,}""
    // packet A { u8 x, }
    ]  :	charz} ,
@calculatedFrom( ""a\\""
)  Logon A ,chars  @lengthOf(Logon
), @rightPad
('0' )@tag(	0 ) @rightPad  ( '0' ) string Foo // trailing space 
`a\`
    ,
}  packet packetx
{repeat i64_
    {  o @lengthOf(A) ,
    },@tag(
    42
    ) repeat char[]
    crc ,
    @leftPad ( ) u16 roots , falsey @lengthOf( As) , repeat  Foo{ float32 f32a@calculatedFrom( ""`tick`"" )
, len
`
`
// a // b
/// triple
,
    // packet A { u8 x, }
    }, @leftPad
('\x00' )	T@calculatedFrom( ""a	b"" ) `" ++ [28040; 24687; 31867; 22411]%N ++ runes_of_ascii "`,  char[]
// c
// " ++ [128512]%N ++ runes_of_ascii " emoji
trueish `u8 x,` , @lengthOf(falsey
    )
    match
    // " ++ [27880; 37322]%N ++ runes_of_ascii "
    rootA
    as BodyLength { // " ++ [128512]%N ++ runes_of_ascii " emoji
[
""CRC32"" ]: x ,
// @lengthOf(
// c
42
:
// packet A { u8 x, }
// `tick` ""quote"" 'q'
BodyLength , // trailing space 
} ,
    }")).
Eval vm_compute in ("<<<M4270>>>" ++ check (runes_of_ascii "
root
	packet 
body {
// `tick` ""quote"" 'q'
  	@tag(

10
    )

repeat	// trailing space 
    len
	{ // c

repeat
i32
BodyLength ,

    zchar[0123456789]trueish @lengthOf(
    tag) 	 /// triple
	,	}  ,
u64

rootA ,@tag(	0123456789//
    	) char[ 1]i64_ `
` 
,  @tag(//	t
0123456789  ) repeat

char[]

    _x
    ,@tag(

    7
) 
zchar[	// packet A { u8 x, }
    0 ]	calculatedFrom @lengthOf(
	repeatCount

    )
,
    match i64_  
  // a // b
	//
    	as
Packet  {3 : charz
    ,[	""a\\""
	]	:  options1,
    [ ""`tick`"" ,
	0123456789 
,

    4294967296, ""a	b""	,	0123456789 , ""x y""

, """ ++ [128512]%N ++ runes_of_ascii """
, ""x y""
    ]  :
_x
    ,
""a\""b"" :
    pack,	""it's""  :	crc	,
    } ,}

MetaData i8i8 {f32

u

    ,
	} packet A
    { zchar[	42 ]

Pad  ,
    u128  ,
    @calculatedFrom(""x y""
	)
repeat  // `tick` ""quote"" 'q'
	u16
	u  ,

char[

00

]	/// triple
	u128,//	t
  repeat
    char[] u8x  `doc`	, }
    packet  _x {
	@lengthOf(
rootA )

    @tag(

3) uint32

msg_type
, options1

u128,char[]

Pad,

    @tag(007 
)

    f32a@lengthOf(
    lengthOf	)
	`// not a comment`,

} 
packet 	 // @lengthOf(
	  metadata
{ @leftPad

    (
'0'
	)
@tag( 0123456789) 
@rightPad
( )

f32a  ,
}
")).
Eval vm_compute in ("<<<M1344>>>" ++ check (runes_of_ascii "packet As { }
MetaData
    // " ++ [128512]%N ++ runes_of_ascii " emoji
    BodyLength { uint32
Z9_ `// not a comment` , }
    packet f32a
    //x
    { f64 T @lengthOf(	As	)`u8 x,` ,repeat
i16 i64_ `" ++ [28040; 24687; 31867; 22411]%N ++ runes_of_ascii "` , char[
007] falsey
@lengthOf(  Pad )	,
repeat
leftPad
{	u64 u8x
,
    char[]tag
    ,	}// " ++ [128512]%N ++ runes_of_ascii " emoji
, match As as len{ ""1"" :
x_y_z ,	255 :
    // c
    len , 007: charz,
    [ ""abc"" , 42, 10	, """ ++ [28040; 24687]%N ++ runes_of_ascii """ ,  ""it's""
    ,//	t
3
    ] : // " ++ [27880; 37322]%N ++ runes_of_ascii "
matchKey //	t
, // `tick` ""quote"" 'q'
} , // @lengthOf(
} packet
BodyLength { @calculatedFrom( ""// no comment""
)@lengthOf( Logon ) @tag( 42 )
//
// " ++ [128512]%N ++ runes_of_ascii " emoji
repeat rootA metadata
,@tag(	4294967296)  repeat matchKey // @lengthOf(
{ int8
    pack
,} ,
    @tag(
65535
) @rightPad ( ) //
@lengthOf( // " ++ [27880; 37322]%N ++ runes_of_ascii "
Pad
)uint8x `{ , }` ,  match  Foo
as As {10 :
    uint8x
    ,0
    : rootA // " ++ [128512]%N ++ runes_of_ascii " emoji
, 007 : matchKey , [
""x y"" ] :
    u8x,}, float64 i64_
@calculatedFrom( ""// no comment""// `tick` ""quote"" 'q'
) , match
    trueish as matchKey {
// trailing space 
// trailing space 
""" ++ [233]%N ++ runes_of_ascii "t" ++ [233]%N ++ runes_of_ascii """:// trailing space 
_x
    , } ,
chars @lengthOf( Packet) `crlf
line` ,
char[] x , } MetaData
falsey //
{ Z9_ options1
``
, } 	 ")).
Eval vm_compute in ("<<<M4455>>>" ++ check (runes_of_ascii "packet zchar {
    i8 uint8x `a\`,
    match leftPad as matchKey {
        007 : f32a,
        7 : falsey,
        3 : _x,
        [""1""] : u8x,
        //	t
        ""it's"" : i8i8,
        10 : pack,
    },
    repeat string rootA `say ""hi""`,
    repeat int32 repeatCount `" ++ [233]%N ++ runes_of_ascii "`,
    @lengthOf(calculatedFrom)
    zchar[4294967296] T,
    @tag(4294967296)
    crc @calculatedFrom(""""),
    @calculatedFrom(""abc"")
    u8x @lengthOf(o) `crlf
    line`,
}

packet T {
    i64 repeatCount,
    calculatedFrom pack,
    @calculatedFrom(""`tick`"")
    f32a Foo,
    match body as string_ {
        ""packet"" : uint8x,
        // @lengthOf(
        """ ++ [128512]%N ++ runes_of_ascii """ : body,
        007 : Logon,
        ""it's"" : leftPad,
        [255, 1, 0123456789, ""x y"", ""\" ++ [233]%N ++ runes_of_ascii """] : options1,
    },
    @rightPad('\x00')
    // packet A { u8 x, }
    match As as roots {
        4294967296 : len,
        """ ++ [28040; 24687]%N ++ runes_of_ascii """ : msg_type,
    },
    f32 chars,
    // `tick` ""quote"" 'q'
    // @lengthOf(
    repeat calculatedFrom,
    @calculatedFrom(""x y"")
    f32 roots `{ , }`,
}

root packet calculatedFrom {
}")).
Eval vm_compute in ("<<<M165>>>" ++ check (runes_of_ascii "packet uint8x { @lengthOf( Pad )
    Foo ,} root packet Foo  {
char[] i64_
    @calculatedFrom( ""a	b"" ) `u8 x,`
    // @lengthOf(
    , zchar[
    // trailing space 
    3]
    tag
@lengthOf( tag ), @lengthOf(	falsey) options1
//x
/// triple
@lengthOf(  repeatCount ) ,
string
matchKey `crlf
line` ,} packet metadata { //	t
uint32
    i8i8 , }
root packet
Header {
@lengthOf( _x ) @lengthOf(
A )metadata
    tag
    // trailing space 
    `
` ,x_y_z `tab	here`
    ,
    Pad // " ++ [128512]%N ++ runes_of_ascii " emoji
, @calculatedFrom(
    """ ++ [128512]%N ++ runes_of_ascii """ )
    //x
    repeat string f32a`crlf
line`, string packetx	@calculatedFrom( ""a\\""
)
    , }  packet
    // packet A { u8 x, }
    u8x { pack, @calculatedFrom( ""// no comment"" // `tick` ""quote"" 'q'
)packetx, match options1// trailing space 
as chars { ""1"" :
Logon
// a // b
// a // b
, 7 :
trueish } ,
match asx  as
    /// triple
    Logon {	[ 3 ]: _x , [
    ""// no comment"" , 7 , """ ++ [233]%N ++ runes_of_ascii "t" ++ [233]%N ++ runes_of_ascii """  ,""it's""
,1 ]
    : i8i8 // " ++ [27880; 37322]%N ++ runes_of_ascii "
[
/// triple
// " ++ [27880; 37322]%N ++ runes_of_ascii "
""1"" ] : T , } , } // a // b")).
Eval vm_compute in ("<<<M1281>>>" ++ check (runes_of_ascii "MetaData Packet  { string leftPad
,metadata float
    // `tick` ""quote"" 'q'
    `` , char[ //x
1] u `
`
    , matchKey
u128
`" ++ [28040; 24687; 31867; 22411]%N ++ runes_of_ascii "` , matchKey
msg_type
    `say ""hi""` ,
}
root
    packet string_{ @tag(
1 )
    //x
    char[]
    lengthOf`// not a comment` , @calculatedFrom( ""{,}""//
)
    // " ++ [128512]%N ++ runes_of_ascii " emoji
    match string_ as T { 7 // a // b
: leftPad, },
    Logon @lengthOf(
    stringy ) `crlf
line` // c
,@lengthOf( body
) @tag( 255	)
//
// trailing space 
repeat f32a	, uint32 f32a// c
@lengthOf( asx
)
,
    repeat char Packet , @leftPad (	' ' ) f32 leftPad ,  @tag(7
) repeat Header , } packet x_y_z{ match /// triple
u8x as leftPad
    {
4294967296 :crc
    , ""\" ++ [233]%N ++ runes_of_ascii """ :
matchKey , } ,
    // " ++ [128512]%N ++ runes_of_ascii " emoji
    @calculatedFrom(
// `tick` ""quote"" 'q'
// " ++ [27880; 37322]%N ++ runes_of_ascii "
""1"" ) @tag(	00 )	@rightPad ( //
' ' )
BodyLength @lengthOf( uint8x ) ,
Header `line1
line2` ,	@calculatedFrom(
    """" ) repeat	int32 As
, } packet uint8x {
i16 Header
@lengthOf(calculatedFrom )
, }
")).
Eval vm_compute in ("<<<M493>>>" ++ check (runes_of_ascii "packet
    chars {// c
string // " ++ [27880; 37322]%N ++ runes_of_ascii "
metadata , i32 u8x @calculatedFrom( ""`tick`"" ) ,
    repeat char[] stringy
,
char[ 10 ] pack
    `u8 x,` // a // b
,o ,
falsey  @calculatedFrom(
    //
    ""`tick`""// c
)
    `it's`,
    @leftPad
// `tick` ""quote"" 'q'
// a // b
( )u32 body `u8 x,`,	@calculatedFrom(""packet"" // " ++ [128512]%N ++ runes_of_ascii " emoji
)  char metadata
`// not a comment`,
    // " ++ [27880; 37322]%N ++ runes_of_ascii "
    @lengthOf( A )
    float64 _x @lengthOf(
Header
// " ++ [27880; 37322]%N ++ runes_of_ascii "
// trailing space 
) , body ,}
    packet Header// trailing space 
{ falsey
// c
// c
,
    match trueish as lengthOf { ""packet"" : i8i8 ""x y""  :
falsey [
""\" ++ [233]%N ++ runes_of_ascii """
    ]: zchar	, 00 :
    float ,
""\n""	: f32a	, } , string A `two words`  ,repeat char[ 0
    ] Z9_
// c
//
`two words`,repeat Z9_ x , char
    // `tick` ""quote"" 'q'
    trueish,}MetaData x_y_z
    { float32  x `a\` ,u128 i64_`a\`,
    x_y_z trueish
, u16 i64_ , }root
packet pack { }options  { msg_type = 007 ; }")).
Eval vm_compute in ("<<<M3590>>>" ++ check (runes_of_ascii "packet chars {
    @leftPad('0')
    char[] MetaDataX @lengthOf(Foo),
    @lengthOf(chars)
    repeat BodyLength,
    @lengthOf(MetaDataX)
    @lengthOf(A)
    uint8x {
        u16 Pad @lengthOf(charz) `line1
        line2`,
        i64_ {
            match i8i8 as i8i8 {
                7 : calculatedFrom,
                255 : x_y_z,
                0123456789 : rootA,
                ""packet"" : string_,
                0123456789 : chars,
            },
        },
    },
    zchar[3] Header `two words`,
    i32 o,
    @tag(4294967296)
    pack ``,
    repeatCount {
        i8 i64_ `
        `,
        asx i64_,
        crc {
            repeat zchar[255] repeatCount,
            repeat uint8 Packet,
            char leftPad,
            uint32 lengthOf @lengthOf(charz),
        },
    },
    leftPad ``,
    repeat int16 Pad,
    repeat u matchKey,
}")).
Eval vm_compute in ("<<<M826>>>" ++ check (runes_of_ascii "packet i8i8
{
    @leftPad
    // c
    (// " ++ [128512]%N ++ runes_of_ascii " emoji
'0'
    // @lengthOf(
    ) i16 int ,@calculatedFrom( ""\n"" ) crc @calculatedFrom(""abc"" //	t
) ,
    // packet A { u8 x, }
    int16 trueish `it's`  , // trailing space 
@rightPad (' ' )@tag(
3 ) @calculatedFrom( """" ) pack
{ i64_ falsey  ,
i8i8  repeatCount , repeat u16 pack  , u128
//x
// " ++ [27880; 37322]%N ++ runes_of_ascii "
@calculatedFrom( ""it's""
    ) `" ++ [233]%N ++ runes_of_ascii "`
, },
@calculatedFrom( ""1"")
match i64_ as a1{ 42
:MetaDataX,[ ""{,}"",""abc""
    , ""`tick`"",
10
    ]
    : asx ,//
65535
: string_ }//x
, @calculatedFrom(	""" ++ [128512]%N ++ runes_of_ascii """ )  @lengthOf( _x ) @rightPad ( ' '
    ) x
    {// packet A { u8 x, }
f32 tag
    @lengthOf(	calculatedFrom) ,	u32 Logon
    `" ++ [28040; 24687; 31867; 22411]%N ++ runes_of_ascii "`, } , @lengthOf( // " ++ [128512]%N ++ runes_of_ascii " emoji
zchar ) Packet matchKey ,@leftPad/// triple
( '0') f32 charz
`
`//x
, @rightPad
    ('0'
) char[3 ] stringy `tab	here`
, }")).
Eval vm_compute in ("<<<M1025>>>" ++ check (runes_of_ascii "  packet f32a {
    @leftPad
(/// triple
)
i32 repeatCount
@calculatedFrom(
    ""`tick`""	) `two words`
,	repeat
i32
int
    //x
    ,
char[ 00 ] Header
    , repeat
    zchar[ 10 ]	a1
    ,string_ @calculatedFrom( ""// no comment""
    ) , @leftPad
    ( // `tick` ""quote"" 'q'
)
// trailing space 
// c
@tag(00	) @lengthOf( // packet A { u8 x, }
string_
)
repeat
    zchar[ 3]
    x_y_z , repeat
uint16 rootA`line1
line2`, u8 roots @lengthOf( tag ) ,T@lengthOf(	A) `// not a comment`	,// a // b
} MetaData
    rootA//	t
{
pack
    calculatedFrom , trueish packetx `` , Packet
msg_type `it's` //x
,	u64 repeatCount
, uint8
Z9_
    `" ++ [28040; 24687; 31867; 22411]%N ++ runes_of_ascii "` , } options { chars  = u8 falsey
=
'\x00' MetaDataX
=
    char[] ; repeatCount =char[]
} MetaData string_
{ // @lengthOf(
string chars , } 	 ")).
Eval vm_compute in ("<<<M145>>>" ++ check (runes_of_ascii "
packet
// `tick` ""quote"" 'q'
// `tick` ""quote"" 'q'
rootA{ @tag( 3  ) zchar[
00 ] // trailing space 
x_y_z
    `" ++ [28040; 24687; 31867; 22411]%N ++ runes_of_ascii "`  , _x ,
    // a // b
    float64
    A
@lengthOf( //
u8x ) , u8 rootA`line1
line2`	, zchar[ 7
    ] // c
stringy,
match Header as f32a { ""\" ++ [233]%N ++ runes_of_ascii """:	o ,[
    // `tick` ""quote"" 'q'
    4294967296
, 7 ,// c
4294967296
, ""packet"" , ""a	b"" , ""CRC32"" ,	7 ,
""a	b""// trailing space 
]	: // packet A { u8 x, }
repeatCount, ""a\""b"" :
    Header  [""a\""b"" ] :
crc  ,	[  007
,
007, ""abc"" ] :
    metadata, 4294967296 : chars ,
} // " ++ [128512]%N ++ runes_of_ascii " emoji
, @tag( 1 ) i8 matchKey	`a\` ,
// @lengthOf(
// " ++ [128512]%N ++ runes_of_ascii " emoji
@lengthOf(
    body ) tag ,@lengthOf( matchKey
)
    @lengthOf(  o	)  @lengthOf( pack
    ) repeat u {
calculatedFrom @lengthOf( falsey  ), } , }
")).
Eval vm_compute in ("<<<M137>>>" ++ check (runes_of_ascii "root packet x_y_z{
    }packet calculatedFrom {char[] Foo @lengthOf( Pad
    ) ,} root packet // @lengthOf(
u128 // @lengthOf(
{} packet u8x { @lengthOf(asx ) match charz
    as msg_type { // @lengthOf(
[ 0123456789
    ] : i64_	,
    [ 0]
: a1  }
,f32 Pad , //x
match /// triple
falsey as BodyLength
    { """ ++ [233]%N ++ runes_of_ascii "t" ++ [233]%N ++ runes_of_ascii """
:// trailing space 
charz 10 :
    roots ,
10
: x_y_z// " ++ [27880; 37322]%N ++ runes_of_ascii "
,
    ""`tick`"" :_x ,""// no comment""
: chars [
    10,
    1
]:	Foo ,	}	, repeat u64	u8x
    `doc`
,
    @lengthOf(
body) uint64 options1  `` ,
@calculatedFrom(
""a\""b"")
    // trailing space 
    match  Packet as x_y_z{[ 007 ]
    // a // b
    :
tag  ,[ ""a\""b"" ] : rootA , //	t
"""" : x_y_z // " ++ [27880; 37322]%N ++ runes_of_ascii "
65535 :
asx  ,	""" ++ [233]%N ++ runes_of_ascii "t" ++ [233]%N ++ runes_of_ascii """ : o  , } , }
")).
Eval vm_compute in ("<<<M21>>>" ++ check (runes_of_ascii "packet	Z9_ {repeat options1 {
    repeat i16 o
// a // b
/// triple
`two words`
, match charz
as o { [ 4294967296 ,
""// no comment""	]:
// `tick` ""quote"" 'q'
// packet A { u8 x, }
u
    , } , match float
    as
    tag
{ [
00] : leftPad ,	[
""" ++ [233]%N ++ runes_of_ascii "t" ++ [233]%N ++ runes_of_ascii """ ,
""\n""
, 0 //
, ""CRC32"" ,
    1
    , """ ++ [28040; 24687]%N ++ runes_of_ascii """ , 255
    , 1]
: options1, 255	: x  , 00 : x ,
    } , repeat
string asx `u8 x,` , } ,
// " ++ [27880; 37322]%N ++ runes_of_ascii "
// a // b
zchar[ 3	] falsey ,}
    packet u
{
//x
// trailing space 
zchar[ 0 ]asx ,
    @tag(
    10
)
    @rightPad (' ' ) @rightPad
    //x
    ( '\x00') Logon
    @calculatedFrom( """ ++ [128512]%N ++ runes_of_ascii """ ) , repeat char[255 ] calculatedFrom	, uint16 lengthOf,
    }root /// triple
packet  pack { }
")).
Eval vm_compute in ("<<<M1116>>>" ++ check (runes_of_ascii "packet MetaDataX { Foo , @rightPad( ' '
// " ++ [128512]%N ++ runes_of_ascii " emoji
// c
) match options1 as
    o { ""a\""b""
// c
// packet A { u8 x, }
:
T[7 , ""// no comment""
//	t
//
, ""{,}"" ,
7 ,	0 , 0 ,	""packet"" , 1 ] :
u128 , }	,@calculatedFrom( ""x y"" )// @lengthOf(
zchar[ 0123456789] Packet	,
    @rightPad ( '\x00'
    // packet A { u8 x, }
    )  repeat chars	x_y_z , repeat packetx leftPad , match uint8x as crc
{ [ """ ++ [233]%N ++ runes_of_ascii "t" ++ [233]%N ++ runes_of_ascii """  , ""CRC32"" ]
// packet A { u8 x, }
//
: body
, }
,@calculatedFrom(
""it's"" ) i8 zchar ,@lengthOf( MetaDataX )@rightPad ( ) @lengthOf( falsey) int , i8
trueish `say ""hi""` ,
@lengthOf(
matchKey	)repeat A // trailing space 
`a\` ,//x
}
")).
Eval vm_compute in ("<<<M774>>>" ++ check (runes_of_ascii "MetaData
chars{ } root packet
leftPad
{
@calculatedFrom(// " ++ [128512]%N ++ runes_of_ascii " emoji
""it's"" ) @calculatedFrom( ""\n"")@leftPad
( '\x00' )
repeat zchar[10
]Z9_ `" ++ [28040; 24687; 31867; 22411]%N ++ runes_of_ascii "`
, } root // @lengthOf(
packet matchKey
{ @leftPad
( '0' ) zchar[ 3
    // trailing space 
    ]
As,
A
    asx ,
@lengthOf(
    // packet A { u8 x, }
    int
)
    @leftPad ( ) repeat string	chars	, @tag( 0123456789
)@tag( 007
) match
    MetaDataX
    as	charz {
7 :	x_y_z
, [
    ""packet""
    // @lengthOf(
    ]: //x
roots , [""\n"" ]	:
A
, 7 :T , 42  : matchKey  ""x y""
: i64_ , } , } // " ++ [27880; 37322]%N ++ runes_of_ascii "
options {body
    = ""1""  ; x =char[/// triple
10
] ; } 	 ")).
Eval vm_compute in ("<<<M1053>>>" ++ check (runes_of_ascii "//	t
packet len {repeat
Logon
    { i16 leftPad, }
    ,
@calculatedFrom( ""a\""b"" ) repeat/// triple
u16
// trailing space 
//x
u,
@calculatedFrom(
    // a // b
    ""abc""
)
Header `two words` , u8	pack@calculatedFrom(""" ++ [233]%N ++ runes_of_ascii "t" ++ [233]%N ++ runes_of_ascii """
    // " ++ [128512]%N ++ runes_of_ascii " emoji
    )  , } // @lengthOf(
packet string_
{ stringy @calculatedFrom( // " ++ [128512]%N ++ runes_of_ascii " emoji
""it's"" )
    ,	}packet
chars
{
    // `tick` ""quote"" 'q'
    match
matchKey as _x
{
    ""abc"" :
Packet// " ++ [128512]%N ++ runes_of_ascii " emoji
} , // @lengthOf(
char Foo `doc` ,match
    charz as
    Foo
    {[ 1  , ""\" ++ [233]%N ++ runes_of_ascii """ ]	: Logon ,}	,@lengthOf(
pack)/// triple
Packet ,	} // a // b")).
Eval vm_compute in ("<<<M4438>>>" ++ check (runes_of_ascii "
root 
packet 
falsey {  @tag(
0123456789 
)
@tag(	3 )Pad

    {
	rootA
	, 
	    //x
// a // b
  x	{
    repeat	int {

    // " ++ [128512]%N ++ runes_of_ascii " emoji

	// @lengthOf(
    	match
	f32a 
as crc {

[

    """ ++ [128512]%N ++ runes_of_ascii """ , 
""packet""

    ]  :
	metadata 
, 	 //	t
[42  , ""abc""	, 00 
,

""a\\""

] 
        // a // b
	: 	 //x
		metadata
	,[ ""a\""b""	]:

    Header , 
""\n""  :
asx
	},} 
, x_y_z 
@calculatedFrom(
""1"" 	 // " ++ [128512]%N ++ runes_of_ascii " emoji

) ,zchar[
	42 ]
	string_ 
``  // packet A { u8 x, }
,  matchKey	pack	, 
}, }
    , @lengthOf(Logon	)  @leftPad ('\x00' 
) As	u8x , }
")).
Eval vm_compute in ("<<<M442>>>" ++ check (runes_of_ascii "packet u8x {match BodyLength	as // c
string_{ // c
""\" ++ [233]%N ++ runes_of_ascii """	:
zchar
}
    ,}  packet// trailing space 
metadata
    {// `tick` ""quote"" 'q'
@tag( //
0123456789	) /// triple
@leftPad // `tick` ""quote"" 'q'
( '\x00' )repeat	char[] trueish , repeat metadata {
char[]
    float `line1
line2`
, char[// " ++ [128512]%N ++ runes_of_ascii " emoji
00] T,
uint8x {repeat len string_
    `doc` , }
    // @lengthOf(
    , options1 @lengthOf(
    T
)`say ""hi""` , } , @calculatedFrom(
    ""CRC32"" //
) uint16 BodyLength  @calculatedFrom( """ ++ [28040; 24687]%N ++ runes_of_ascii """ )
, } //	t")).
Eval vm_compute in ("<<<M1087>>>" ++ check (runes_of_ascii "packet x { repeat
float32 Foo `{ , }` ,
    float64 i8i8	,@lengthOf(chars
    // @lengthOf(
    ) @tag( 65535)
    // @lengthOf(
    string_ , @leftPad( '0' ) repeat A charz ,
    } root packet
    Header{ @calculatedFrom(""// no comment""
    ) repeat metadata
    { repeat u64 o// c
,T
    `` //	t
,	},  } MetaData A {
    zchar[ // a // b
4294967296 ] asx ,int8 pack  , char[
    //
    65535 ]  Packet, uint8 lengthOf `" ++ [28040; 24687; 31867; 22411]%N ++ runes_of_ascii "`
    ,
char[ 10 // @lengthOf(
] i64_  `" ++ [233]%N ++ runes_of_ascii "`
    ,
    }")).
Eval vm_compute in ("<<<M1017>>>" ++ check (runes_of_ascii "  MetaData// `tick` ""quote"" 'q'
zchar {packetx calculatedFrom `doc` , zchar[ 3	]
    Z9_
, char[ 65535 ]i64_	,
    u64
lengthOf `
`, zchar[
    // " ++ [128512]%N ++ runes_of_ascii " emoji
    00
    ] Pad
`{ , }` ,
A lengthOf
`two words`
    ,}  MetaData BodyLength
// c
// " ++ [128512]%N ++ runes_of_ascii " emoji
{  char[
3 // " ++ [27880; 37322]%N ++ runes_of_ascii "
] u128
    ,
// `tick` ""quote"" 'q'
/// triple
string MetaDataX,
u8x // " ++ [128512]%N ++ runes_of_ascii " emoji
i64_
`u8 x,`,/// triple
} MetaData
chars
    { string Logon `{ , }`
    ,char[
    10] u ,
len  repeatCount,	} 	 ")).
Eval vm_compute in ("<<<M981>>>" ++ check (runes_of_ascii "packet
    BodyLength
    //x
    {
//	t
//	t
@lengthOf( tag)
    // " ++ [27880; 37322]%N ++ runes_of_ascii "
    len `{ , }`,
    @calculatedFrom(
""\n"" )
    zchar[ 00]
i64_, repeat
A{ char rootA , MetaDataX
    @calculatedFrom(
    ""\" ++ [233]%N ++ runes_of_ascii """
    ) , }//x
, } packet	Packet
    {	uint64 Packet @calculatedFrom( /// triple
""" ++ [28040; 24687]%N ++ runes_of_ascii """ )
,
char[007
// " ++ [128512]%N ++ runes_of_ascii " emoji
// a // b
]
x ,float64 uint8x // " ++ [128512]%N ++ runes_of_ascii " emoji
@calculatedFrom(
// " ++ [27880; 37322]%N ++ runes_of_ascii "
// a // b
""" ++ [233]%N ++ runes_of_ascii "t" ++ [233]%N ++ runes_of_ascii """ )  , } packet
    float
    {u128
    , } // @lengthOf(")).
Eval vm_compute in ("<<<M1024>>>" ++ check (runes_of_ascii "// @lengthOf(
packet // trailing space 
falsey{
    a1 , //
int8 chars
//	t
//	t
``,	match Packet //x
as Z9_ { 42 :	metadata ,	}
    ,} MetaData pack{}root packet MetaDataX {
    @lengthOf(
    //
    MetaDataX )
    repeat As{
    match As as MetaDataX
{
[	""CRC32""
    //x
    ]:  i64_ ,	[	42 // packet A { u8 x, }
,// " ++ [27880; 37322]%N ++ runes_of_ascii "
65535  , 3
// `tick` ""quote"" 'q'
//x
]: // packet A { u8 x, }
Packet, 0	:
    Z9_ 10: i8i8 //
, } , } , }")).
Eval vm_compute in ("<<<M3828>>>" ++ check (runes_of_ascii "// top
packet P1 {
    // c2
    u8 a,// c5
}

// c6
packet P2 {
    // c9
    P1,// c11
}

packet P3 {
    P2,
    P1,
}

// c20
packet P4 {
    repeat P3,
    // c26
    P2,// c28
}

// c29
root packet P5 {
    // c33
    P4,// c35a
    // c35b
    P3,// c37
    P1,
    u8 K,// c42
    match K as Body {
        // c47
        4 : P4,
        3 : P3,
        2 : P2,
        // c59
        1 : P1,
    },// c65
}")).
Eval vm_compute in ("<<<M934>>>" ++ check (runes_of_ascii "// trailing space 
packet asx
{ // @lengthOf(
} root packet Logon{ char // " ++ [128512]%N ++ runes_of_ascii " emoji
stringy
    @calculatedFrom( //	t
""abc""
)`say ""hi""` ,
//	t
//x
f64	tag ,// " ++ [27880; 37322]%N ++ runes_of_ascii "
char[ 0123456789
    ]
    packetx , match x	as pack// c
{ ""\n"" :BodyLength ,
    // packet A { u8 x, }
    007 :
    body/// triple
, [ 255 ,
255
,255  ] //	t
: A
    , 0 : o	,[
    ""abc"" , 1] :crc , [
""a	b"" ]
    :charz , } , }
")).
Eval vm_compute in ("<<<M893>>>" ++ check (runes_of_ascii "
packet repeatCount{}packet pack
{ _x @lengthOf(Pad )	, } options // c
{ // " ++ [128512]%N ++ runes_of_ascii " emoji
Foo=
255 ;
    // trailing space 
    }packet tag { @tag( 0123456789 ) @calculatedFrom(// `tick` ""quote"" 'q'
""a\""b"" )uint32 a1 ,repeat string_ {  zchar[ 255 ]T , // @lengthOf(
},
    @rightPad(
) roots@lengthOf( trueish ) `// not a comment` ,	float // c
, uint8x lengthOf	`two words`,}
")).
Eval vm_compute in ("<<<M1048>>>" ++ check (runes_of_ascii "
packet i64_	{
    @rightPad(	'\x00' ) char[] zchar, repeat string stringy ,repeat stringy // @lengthOf(
`{ , }`  , MetaDataX metadata , char[
    42 // c
]calculatedFrom `doc`
    ,zchar[ 4294967296	] repeatCount , }	MetaData msg_type { } packet
body
{ zchar[ 00] string_ @calculatedFrom( ""\" ++ [233]%N ++ runes_of_ascii """
    ) `two words`
, string_ @lengthOf( A ) `line1
line2`
,
    }")).
Eval vm_compute in ("<<<M1253>>>" ++ check (runes_of_ascii "// @lengthOf(
options { u128  = uint32
}  packet	T {// packet A { u8 x, }
}
options {} MetaData // " ++ [27880; 37322]%N ++ runes_of_ascii "
pack// " ++ [128512]%N ++ runes_of_ascii " emoji
{
    }packet _x
{	@tag( 1) char[ 00
    ] x_y_z
    @calculatedFrom( ""\" ++ [233]%N ++ runes_of_ascii """ ) ,
    f32 a1 , @rightPad
(  '0'	) zchar[ 00
]  u
    `u8 x,` ,@lengthOf(msg_type )x  {metadata , } ,
    // packet A { u8 x, }
    char[]
    float , }")).
Eval vm_compute in ("<<<M58>>>" ++ check (runes_of_ascii "
MetaData// `tick` ""quote"" 'q'
asx
{
    // packet A { u8 x, }
    char
// @lengthOf(
//x
Z9_ , } options{ Pad
= '0' /// triple
} options { trueish = ""it's"" matchKey =
    false
    ; T = float32 ;
    /// triple
    len= ' ' ; string_
=
    i16 ; } root// `tick` ""quote"" 'q'
packet f32a{char[]
    // trailing space 
    u8x
    , }")).
Eval vm_compute in ("<<<M593>>>" ++ check (runes_of_ascii "
options {trueish
    = uint64 lengthOf
    = u32; matchKey
    =
""""
// trailing space 
//	t
; } options
    { Packet = string charz=uint16 MetaDataX = ""abc"" }
    root packet tag { options1 // " ++ [27880; 37322]%N ++ runes_of_ascii "
i8i8 //
, @calculatedFrom(	""" ++ [28040; 24687]%N ++ runes_of_ascii """
)
match falsey as BodyLength {
10  : u8x , }, Z9_ len , msg_type `// not a comment` ,
}
")).
Eval vm_compute in ("<<<M329>>>" ++ check (runes_of_ascii "
options{MetaDataX =
    char }packet packetx {match // packet A { u8 x, }
string_
    as trueish {""a\""b"" : crc // trailing space 
,
1 : calculatedFrom [
1 ]  : u8x	, }
, }options {}
    MetaData Z9_
    // " ++ [128512]%N ++ runes_of_ascii " emoji
    {
    string MetaDataX `` // trailing space 
, }options{ o= '\x00';// trailing space 
}")).
Eval vm_compute in ("<<<M1435>>>" ++ check (runes_of_ascii "root packet Foo // " ++ [128512]%N ++ runes_of_ascii " emoji
{ } options options {
    // a // b
    tag // `tick` ""quote"" 'q'
= //	t
""""
    ; u8x = zchar[0  ] }
MetaData
    int {zchar[ 10]
lengthOf	`` , i64 u8x`// not a comment` ,MetaDataX pack// `tick` ""quote"" 'q'
`crlf
line`
, Logon charz `crlf
line`
    ,
    // a // b
    }
")).
Eval vm_compute in ("<<<M1457>>>" ++ check (runes_of_ascii "root packet Foo // " ++ [128512]%N ++ runes_of_ascii " emoji
{ } options {
    // a // b
    tag // `tick` ""quote"" 'q'
= //	t
false
    ; u8x = zchar[0  ] }
MetaData
    int {zchar[ 10]
lengthOf	`` , i64 u8x`// not a comment` ,MetaDataX pack// `tick` ""quote"" 'q'
`crlf
line`
, Logon charz `crlf
line`
    ,
    // a // b
    }
")).
Eval vm_compute in ("<<<M1608>>>" ++ check (runes_of_ascii "root packet Foo // " ++ [128512]%N ++ runes_of_ascii " emoji
{ } options {
    // a // b
    tag // `tick` ""quote"" 'q'
= //	t
""""
    ; u8x = ? zchar[0  ] }
MetaData
    int {zchar[ 10]
lengthOf	`` , i64 u8x`// not a comment` ,MetaDataX pack// `tick` ""quote"" 'q'
`crlf
line`
, Logon charz `crlf
line`
    ,
    // a // b
    }
")).
Eval vm_compute in ("<<<M1461>>>" ++ check (runes_of_ascii "root packet Foo // " ++ [128512]%N ++ runes_of_ascii " emoji
{ } options {
    // a // b
    tag // `tick` ""quote"" 'q'
= //	t
""""
    u8x ; = zchar[0  ] }
MetaData
    int {zchar[ 10]
lengthOf	`` , i64 u8x`// not a comment` ,MetaDataX pack// `tick` ""quote"" 'q'
`crlf
line`
, Logon charz `crlf
line`
    ,
    // a // b
    }
")).
Eval vm_compute in ("<<<M1429>>>" ++ check (runes_of_ascii "root packet Foo // " ++ [128512]%N ++ runes_of_ascii " emoji
{  options {
    // a // b
    tag // `tick` ""quote"" 'q'
= //	t
""""
    ; u8x = zchar[0  ] }
MetaData
    int {zchar[ 10]
lengthOf	`` , i64 u8x`// not a comment` ,MetaDataX pack// `tick` ""quote"" 'q'
`crlf
line`
, Logon charz `crlf
line`
    ,
    // a // b
    }
")).
Eval vm_compute in ("<<<M1499>>>" ++ check (runes_of_ascii "root packet Foo // " ++ [128512]%N ++ runes_of_ascii " emoji
{ } options {
    // a // b
    tag // `tick` ""quote"" 'q'
= //	t
""""
    ; u8x = zchar[0  ] }
MetaData
     {zchar[ 10]
lengthOf	`` , i64 u8x`// not a comment` ,MetaDataX pack// `tick` ""quote"" 'q'
`crlf
line`
, Logon charz `crlf
line`
    ,
    // a // b
    }
")).
Eval vm_compute in ("<<<M3585>>>" ++ check (runes_of_ascii "  packet lengthOf { repeat

    zchar[	10	]x	, @tag(	0123456789

) 
char[	3

] charz ,

    }
root
packet 
i64_

{ 
i64_	`say ""hi""`

,
string Logon
	`tab	here` , uint64 
      //x
  	//	t
  pack@calculatedFrom(

""\" ++ [233]%N ++ runes_of_ascii """
)
    `two words`,

    } options
{ uint8x

    =
'0' ;
}
")).
Eval vm_compute in ("<<<M988>>>" ++ check (runes_of_ascii "root packet pack { zchar[00	] falsey
// trailing space 
// " ++ [27880; 37322]%N ++ runes_of_ascii "
, // " ++ [27880; 37322]%N ++ runes_of_ascii "
leftPad, uint64 stringy @calculatedFrom(""\n"") // " ++ [27880; 37322]%N ++ runes_of_ascii "
`" ++ [28040; 24687; 31867; 22411]%N ++ runes_of_ascii "` ,}
root packet
    pack {@tag(
    65535
    // " ++ [27880; 37322]%N ++ runes_of_ascii "
    ) zchar[  007//x
]
    uint8x `crlf
line`
, }
options { Header
    =//	t
""CRC32"" ;
}")).
Eval vm_compute in ("<<<M4120>>>" ++ check (runes_of_ascii "packet P1 {
    u8 a,
}

packet P2 {
    P1,
}

packet P3 {
    P2,
    P1,
}

packet P4 {
    repeat P3,
    P2,
}

root packet P5 {
    P4,
    P3,
    P1,
    u8 K,
    match K as Body {
        4 : P4,
        3 : P3,
        2 : P2,
        1 : P1,
    },
}")).
Eval vm_compute in ("<<<M344>>>" ++ check (runes_of_ascii "packet
chars {repeat float32  x_y_z
    , @tag( 0123456789
    )	char[
255	] rootA `{ , }` , } options  { x= zchar[
    00
] ;
Packet= '\x00' ; }
    options{Z9_ =// packet A { u8 x, }
""CRC32"" ;
    As = // `tick` ""quote"" 'q'
uint32 ; } // a // b")).
Eval vm_compute in ("<<<M297>>>" ++ check (runes_of_ascii "
packet As
{
} MetaData Logon { i16 falsey
`a\` // `tick` ""quote"" 'q'
, } MetaData T { f64 uint8x `u8 x,` , // " ++ [128512]%N ++ runes_of_ascii " emoji
char[	00 // @lengthOf(
] T , char[
    0
    ]
Pad
// c
// c
`crlf
line` , char[]
    f32a ,
char[] asx
    , } //	t")).
Eval vm_compute in ("<<<M581>>>" ++ check (runes_of_ascii "/// triple
MetaData zchar {As
As ,
    // a // b
    int32 crc , trueish string_ `two words` , } // `tick` ""quote"" 'q'
options { rootA =	'0' // " ++ [128512]%N ++ runes_of_ascii " emoji
string_
    =10	; }
options //	t
{ // a // b
tag = 0
;  i64_
=	0
;}
// " ++ [27880; 37322]%N ++ runes_of_ascii "
")).
Eval vm_compute in ("<<<M695>>>" ++ check (runes_of_ascii "  packet
    int // trailing space 
{ } // a // b
root packet uint8x {
repeat
zchar[42
    ]asx`it's` , @calculatedFrom(""CRC32"" ) float64  options1
    `{ , }`, } options { string_// trailing space 
=
    char[] ; } // c")).
Eval vm_compute in ("<<<M4175>>>" ++ check (runes_of_ascii "
root
    packet
    packetx
{ trueish @lengthOf( repeatCount )	,	@lengthOf(

    u 
)	// `tick` ""quote"" 'q'
    	Packet
u	// trailing space 
    `" ++ [233]%N ++ runes_of_ascii "` ,
}options{
leftPad
=0123456789;  u=
    65535 ; }	// " ++ [128512]%N ++ runes_of_ascii " emoji
 
")).
Eval vm_compute in ("<<<M2366>>>" ++ check (runes_of_ascii "MetaData Packet { }packet	asx  { @lengthOf( asx) falsey`crlf
line`
,
    }
    packet x	{uint32// @lengthOf(
rootA	,u32 options1 `say ""hi""` , @tag( 7
    )// packet A { u8 x, }
msg_type @lengthOf(
stringy	)	, , }

")).
Eval vm_compute in ("<<<M2252>>>" ++ check (runes_of_ascii "MetaData Packet { }packet	asx  { @lengthOf( )asx falsey`crlf
line`
,
    }
    packet x	{uint32// @lengthOf(
rootA	,u32 options1 `say ""hi""` , @tag( 7
    )// packet A { u8 x, }
msg_type @lengthOf(
stringy	)	, }

")).
Eval vm_compute in ("<<<M2270>>>" ++ check (runes_of_ascii "MetaData Packet { }packet	asx  { @lengthOf( asx) falsey`crlf
line`

    }
    packet x	{uint32// @lengthOf(
rootA	,u32 options1 `say ""hi""` , @tag( 7
    )// packet A { u8 x, }
msg_type @lengthOf(
stringy	)	, }

")).
Eval vm_compute in ("<<<M4308>>>" ++ check (runes_of_ascii "root packet Foo {
}

options {
    // a // b
    tag = """";
    u8x = zchar[0]
}

MetaData int {
    zchar[10] lengthOf ``,
    i64 u8x `// not a comment`,
    MetaDataX pack,
    Logon charz `crlf
    line`,
}")).
Eval vm_compute in ("<<<M3795>>>" ++ check (runes_of_ascii "packet a1 {
    @calculatedFrom(""// no comment"")
    repeat f32a {
        body `// not a comment`,
    },
    o @calculatedFrom(""a	b"") `line1
        line2`,
    @calculatedFrom(""`tick`"")
    repeat tag,
}")).
Eval vm_compute in ("<<<M936>>>" ++ check (runes_of_ascii "packet As {	_x  @lengthOf( f32a)
    `tab	here`
    , match chars as chars
// " ++ [27880; 37322]%N ++ runes_of_ascii "
//	t
{ """ ++ [233]%N ++ runes_of_ascii "t" ++ [233]%N ++ runes_of_ascii """ :stringy , ""1"" :
options1
    , 255: repeatCount, ""CRC32""
:float , },
Logon int `` , uint8x metadata , }
")).
Eval vm_compute in ("<<<M315>>>" ++ check (runes_of_ascii "packet// " ++ [27880; 37322]%N ++ runes_of_ascii "
trueish { match f32a
as stringy	{ """ ++ [28040; 24687]%N ++ runes_of_ascii """ : _x ,
1 : //x
stringy
    ,
    65535 :u8x 65535: // trailing space 
asx
// packet A { u8 x, }
// c
,  }
    // packet A { u8 x, }
    , }")).
Eval vm_compute in ("<<<M1231>>>" ++ check (runes_of_ascii "packet
    T { @leftPad
( ' ' )
    // " ++ [27880; 37322]%N ++ runes_of_ascii "
    int32
// " ++ [27880; 37322]%N ++ runes_of_ascii "
// @lengthOf(
packetx
`" ++ [233]%N ++ runes_of_ascii "`
    ,uint16 MetaDataX
@lengthOf( asx
// packet A { u8 x, }
// a // b
)// `tick` ""quote"" 'q'
,
    }")).
Eval vm_compute in ("<<<M4202>>>" ++ check (runes_of_ascii "//
packet u {
}

packet u8x {
}

options {
    Logon = string;
    calculatedFrom = '\x00';
    BodyLength = 1;//	t
    _x = ""CRC32"";
}

root packet Z9_ {
}

MetaData chars {
}")).
Eval vm_compute in ("<<<M3770>>>" ++ check (runes_of_ascii "

  packet
A

    {Inner {

    match	k

    as
n

{[ 1
,

    22	, 
007

,

4
,5
,66,

7

    ,
    8

    ,
	9 ,10
	, 11

, 12

    ]
:B , 
} , },  }
")).
Eval vm_compute in ("<<<M1237>>>" ++ check (runes_of_ascii "
MetaData
    int {
    string Z9_  `say ""hi""`, char[]// @lengthOf(
uint8x // packet A { u8 x, }
`// not a comment` , char[]Foo , trueish T , // " ++ [27880; 37322]%N ++ runes_of_ascii "
asx asx , }
")).
Eval vm_compute in ("<<<M683>>>" ++ check (runes_of_ascii "root
    packet
    Packet// packet A { u8 x, }
{leftPad
    As , char[]	string_ ,
} MetaData
x {
a1 u128 `u8 x,`	,
// a // b
// packet A { u8 x, }
}

")).
Eval vm_compute in ("<<<M186>>>" ++ check (runes_of_ascii "//	t
MetaData asx { char[]asx , x
_x , } root packet lengthOf{ @tag(
10
)@rightPad ( '0' )
    @rightPad('0' ) // " ++ [128512]%N ++ runes_of_ascii " emoji
u32
BodyLength, //	t
}
")).
Eval vm_compute in ("<<<M516>>>" ++ check (runes_of_ascii "packet i8i8
// packet A { u8 x, }
//x
{@rightPad
    () msg_type{ rootA
len , }
    // trailing space 
    , } root packet  options1
    {  }
")).
Eval vm_compute in ("<<<M3571>>>" ++ check (runes_of_ascii "packet

A {
match

k

as
    n {[

1,
""bb"" ,  007 
, ""d"" ,
5

, ""f""
,7

,
""h""

    ,
	9
	,
    ""j""
	,
11
,""l""]	:B 
,
	2
:  C} ,  }
")).
Eval vm_compute in ("<<<M3662>>>" ++ check (runes_of_ascii "
packet

    A
	{
match k
    as  n {[  ""a""
, ""bb"",
	007,
""d""
,""e""
, 
66
,

""g""	, ""h"" ,
    9 
]

    : 
B 2
:
    C 
}
, 
}
")).
Eval vm_compute in ("<<<M1734>>>" ++ check (runes_of_ascii "root packet /// triple
rootA {	i32
MetaDataX@calculatedFrom( ""CRC32"" ) `line1
line2` , } MetaData BodyLength {
u8
roo'1'tA, } // c")).
Eval vm_compute in ("<<<M1149>>>" ++ check (runes_of_ascii "
MetaData matchKey {crc
Pad
`{ , }`, string
    roots `tab	here`
    , stringy u,  uint64 u8x `{ , }`
    ,int A//
`u8 x,`
, }
")).
Eval vm_compute in ("<<<M1692>>>" ++ check (runes_of_ascii "root packet /// triple
rootA {	i32
MetaDataX@calculatedFrom( ""CRC32"" ) `line1
line2` , } MetaData BodyLength 
u8
rootA, } // c")).
Eval vm_compute in ("<<<M1816>>>" ++ check (runes_of_ascii "packet
    Pad // a // b
{ i8i8 @calculatedFrom( ""a	b"") `u8 x,` `u8 x,` ,
} options{ float// " ++ [128512]%N ++ runes_of_ascii " emoji
= f64 i64_
=//	t
00 }
")).
Eval vm_compute in ("<<<M491>>>" ++ check (runes_of_ascii "packet crc
{	}options { a1 = char[ 3] ;
} root
packet Pad{ }	packet	crc { int32
zchar // @lengthOf(
, } packet pack
{ }
")).
Eval vm_compute in ("<<<M1823>>>" ++ check (runes_of_ascii "packet
    Pad // a // b
{ i8i8 @calculatedFrom( ""a	b"") `u8 x,` int8
} options{ float// " ++ [128512]%N ++ runes_of_ascii " emoji
= f64 i64_
=//	t
00 }
")).
Eval vm_compute in ("<<<M1793>>>" ++ check (runes_of_ascii "packet
    Pad // a // b
42 i8i8 @calculatedFrom( ""a	b"") `u8 x,` ,
} options{ float// " ++ [128512]%N ++ runes_of_ascii " emoji
= f64 i64_
=//	t
00 }
")).
Eval vm_compute in ("<<<M1827>>>" ++ check (runes_of_ascii "packet
    Pad // a // b
{ i8i8 @calculatedFrom( ""a	b"") `u8 x,` ,
options }{ float// " ++ [128512]%N ++ runes_of_ascii " emoji
= f64 i64_
=//	t
00 }
")).
Eval vm_compute in ("<<<M4086>>>" ++ check (runes_of_ascii "packet A {
    u16 len @lengthOf(body) `a
    b`,
    u32 crc @calculatedFrom(""CRC32"") `a
    b`,
    string body,
}")).
Eval vm_compute in ("<<<M4358>>>" ++ check (runes_of_ascii "// c
packet Logon {
    @tag(42)
    @rightPad(' ')
    @leftPad()
    repeat trueish {
        string T,
    },
}")).
Eval vm_compute in ("<<<M4414>>>" ++ check (runes_of_ascii "options {
    pack = 0
}

MetaData int {
    char[00] T `crlf
    line`,
    i8 string_,
    int16 matchKey,
}")).
Eval vm_compute in ("<<<M4084>>>" ++ check (runes_of_ascii "packet

Logon{@tag( 42)
	@rightPad (

' ' )
	@leftPad

// c
	(	)
repeat	trueish {
    string
	T

,  }

,  }")).
Eval vm_compute in ("<<<M2982>>>" ++ check (runes_of_ascii "packet A {
  match k as n {
    [""a"", 22, ""c c"", 4, ""e"", 66, ""g"", 8, ""i"", 10, ""k""] : B,
    2 : C
  },
}")).
Eval vm_compute in ("<<<M3354>>>" ++ check (runes_of_ascii "packet calculatedFrom { @tag( 4294967296 ) u msg_type
// c
, char[ 3 ] crc @lengthOf( len ) `u8 x,` , }")).
Eval vm_compute in ("<<<M3569>>>" ++ check (runes_of_ascii "packet calculatedFrom {
    @tag(4294967296)
    u msg_type,
    char[3] crc @lengthOf(len) `u8 x,`,
}")).
Eval vm_compute in ("<<<M2970>>>" ++ check (runes_of_ascii "packet A {
  match k as n {
    [""a"", 22, ""c c"", 4, ""e"", 66, ""g"", 8, ""i"", 10] : B
    2 : C
  },
}")).
Eval vm_compute in ("<<<M176>>>" ++ check (runes_of_ascii "MetaData
x_y_z
{
Logon
    repeatCount `say ""hi""`,  crc
    x_y_z
,
    char[	10 ] Foo  ,
}
")).
Eval vm_compute in ("<<<M3236>>>" ++ check (runes_of_ascii "packet Logon { @tag( 42 ) @rightPad ( ' ' ) @leftPad // c
( ) repeat trueish { string T , } , }")).
Eval vm_compute in ("<<<M2035>>>" ++ check (runes_of_ascii "root
packet crc
    { f32a @c@lengthOfalculatedFrom( """ ++ [233]%N ++ runes_of_ascii "t" ++ [233]%N ++ runes_of_ascii """ )
    `say ""hi""`, lengthOf `` ,  }")).
Eval vm_compute in ("<<<M2955>>>" ++ check (runes_of_ascii "packet A {
  match k as n {
    [1, ""bb"", 007, ""d"", 5, ""f"", 7, ""h"", 9] : B
    2 : C
  },
}")).
Eval vm_compute in ("<<<M4163>>>" ++ check (runes_of_ascii "packet

A {
match

k as
n

    { [""a"",  ""bb""

, 007]
:

    B
    2
	:	C
    }, } ")).
Eval vm_compute in ("<<<M1458>>>" ++ check (runes_of_ascii "root packet Foo // " ++ [128512]%N ++ runes_of_ascii " emoji
{ } options {
    // a // b
    tag // `tick` ""quote"" 'q'
=")).
Eval vm_compute in ("<<<M2004>>>" ++ check (runes_of_ascii "root
packet crc
    { f32a @calculatedFrom( """ ++ [233]%N ++ runes_of_ascii "t" ++ [233]%N ++ runes_of_ascii """ )
    `say ""hi""`] lengthOf `` ,  }")).
Eval vm_compute in ("<<<M2011>>>" ++ check (runes_of_ascii "root
packet crc
    { f32a @calculatedFrom( """ ++ [233]%N ++ runes_of_ascii "t" ++ [233]%N ++ runes_of_ascii """ )
    `say ""hi""`, lengthOf  ,  }")).
Eval vm_compute in ("<<<M3295>>>" ++ check (runes_of_ascii "packet
// c
o { @tag( 42 ) repeat x { char[ 0123456789 ] i64_ , } , } options { }")).
Eval vm_compute in ("<<<M3327>>>" ++ check (runes_of_ascii "packet o { @tag( 42 ) repeat x { char[ 0123456789 ] i64_ , } , }
// c
options { }")).
Eval vm_compute in ("<<<M2909>>>" ++ check (runes_of_ascii "packet A {
  match k as n {
    [""a"", ""bb"", 007, ""d"", ""e""] : B
    2 : C
  },
}")).
Eval vm_compute in ("<<<M1839>>>" ++ check (runes_of_ascii "packet
    Pad // a // b
{ i8i8 @calculatedFrom( ""a	b"") `u8 x,` ,
} options")).
Eval vm_compute in ("<<<M2906>>>" ++ check (runes_of_ascii "packet A {
  match k as n {
    [1, 22, ""c c"", 4, 5] : B,
    2 : C
  },
}")).
Eval vm_compute in ("<<<M417>>>" ++ check (runes_of_ascii "MetaData uint8x
{ zchar[ 10]
//x
// trailing space 
Foo `tab	here` , }
")).
Eval vm_compute in ("<<<M3399>>>" ++ check (runes_of_ascii "MetaData _x { // c
zchar[ 4294967296 ] lengthOf `// not a comment` , }")).
Eval vm_compute in ("<<<M4367>>>" ++ check (runes_of_ascii "packet A {
    B b `
    `,
    B `
    `,
    repeat B bs `
    `,
}")).
Eval vm_compute in ("<<<M2200>>>" ++ check (runes_of_ascii "root
    // `tick` ""quote"" 'q'
    packet As { trueish` Packet , }
")).
Eval vm_compute in ("<<<M3183>>>" ++ check (runes_of_ascii "packet A {
    match k as n {
        1 : B,
        // c
    },
}")).
Eval vm_compute in ("<<<M4195>>>" ++ check (runes_of_ascii "packet i64_ {
    @leftPad('0')
    u8 MetaDataX,
    i16 Pad,
}")).
Eval vm_compute in ("<<<M1661>>>" ++ check (runes_of_ascii "root packet /// triple
rootA {	i32
MetaDataX@calculatedFrom(")).
Eval vm_compute in ("<<<M228>>>" ++ check (runes_of_ascii "packet Z9_
    { body MetaDataX , } MetaData asx  {
} //	t")).
Eval vm_compute in ("<<<M1254>>>" ++ check (runes_of_ascii "MetaData int {	i32 calculatedFrom
`// not a comment` , }
")).
Eval vm_compute in ("<<<M2421>>>" ++ check (runes_of_ascii "MetaData A
@leftpad{
i64
chars	, } // `tick` ""quote"" 'q'")).
Eval vm_compute in ("<<<M2180>>>" ++ check (runes_of_ascii "root
    // `tick` ""quote"" 'q'
    packet As { trueish")).
Eval vm_compute in ("<<<M1918>>>" ++ check (runes_of_ascii "
packet	As { @calculatedFrom(//x
:	)lengthOf , } 	 ")).
Eval vm_compute in ("<<<M520>>>" ++ check (runes_of_ascii "MetaData	float
{
    //
    i8
T, } // @lengthOf(")).
Eval vm_compute in ("<<<M3158>>>" ++ check (runes_of_ascii "packet A {} packet B {} MetaData M {} options {}")).
Eval vm_compute in ("<<<M430>>>" ++ check (runes_of_ascii "// a // b
packet calculatedFrom{ i32
    _x, }")).
Eval vm_compute in ("<<<M2737>>>" ++ check (runes_of_ascii "65535 MetaData [ repeat u64 zchar[ false char")).
Eval vm_compute in ("<<<M2560>>>" ++ check (runes_of_ascii "packet A { repeat x @calculatedFrom(""c""), }")).
Eval vm_compute in ("<<<M824>>>" ++ check (runes_of_ascii "MetaData trueish {i8 MetaDataX // " ++ [27880; 37322]%N ++ runes_of_ascii "
, }")).
Eval vm_compute in ("<<<M2110>>>" ++ check (runes_of_ascii "MetaData x
{ {// " ++ [128512]%N ++ runes_of_ascii " emoji
i16 stringy , }")).
Eval vm_compute in ("<<<M3205>>>" ++ check (runes_of_ascii "MetaData zchar { zchar[ 3 ] Pad ,
// c
}")).
Eval vm_compute in ("<<<M1443>>>" ++ check (runes_of_ascii "root packet Foo // " ++ [128512]%N ++ runes_of_ascii " emoji
{ } options")).
Eval vm_compute in ("<<<M2129>>>" ++ check (runes_of_ascii "MetaData x
{// " ++ [128512]%N ++ runes_of_ascii " emoji
i16 stringy , ")).
Eval vm_compute in ("<<<M3973>>>" ++ check (runes_of_ascii "
options
	{

    Z9_
= '\x00'
}

")).
Eval vm_compute in ("<<<M2787>>>" ++ check (runes_of_ascii ";/,8.Dx&ZOZt4UM$f5a6\qFvu)[+P_;Nc*")).
Eval vm_compute in ("<<<M2714>>>" ++ check (runes_of_ascii "( char[] ] zchar[ Foo int32 int8")).
Eval vm_compute in ("<<<M328>>>" ++ check (runes_of_ascii "root packet roots
//x
// " ++ [27880; 37322]%N ++ runes_of_ascii "
{}")).
Eval vm_compute in ("<<<M3161>>>" ++ check (runes_of_ascii "MetaData M {
}// c
packet A {}")).
Eval vm_compute in ("<<<M2648>>>" ++ check (runes_of_ascii "MetaData M { @tag(1) u8 x, }")).
Eval vm_compute in ("<<<M3150>>>" ++ check (runes_of_ascii "packet A {
}// a// b// c
")).
Eval vm_compute in ("<<<M614>>>" ++ check (runes_of_ascii "MetaData repeatCount {
}")).
Eval vm_compute in ("<<<M722>>>" ++ check (runes_of_ascii "packet
MetaDataX
    { }")).
Eval vm_compute in ("<<<M3382>>>" ++ check (runes_of_ascii "packet // c
lengthOf { }")).
Eval vm_compute in ("<<<M413>>>" ++ check (runes_of_ascii "
packet msg_type {
}
")).
Eval vm_compute in ("<<<M2050>>>" ++ check (runes_of_ascii "@tag( A { u64 pack, }")).
Eval vm_compute in ("<<<M2697>>>" ++ check (runes_of_ascii "options """ ++ [128512]%N ++ runes_of_ascii """ `" ++ [28040; 24687; 31867; 22411]%N ++ runes_of_ascii "` }")).
Eval vm_compute in ("<<<M3147>>>" ++ check (runes_of_ascii "// c x
packet A {
}")).
Eval vm_compute in ("<<<M3082>>>" ++ check (runes_of_ascii "// c" ++ [5760]%N ++ runes_of_ascii "
packet A {
}")).
Eval vm_compute in ("<<<M2027>>>" ++ check (runes_of_ascii "root
packet crc
")).
Eval vm_compute in ("<<<M3139>>>" ++ check (runes_of_ascii "packet A {
}// c" ++ [6158]%N)).
Eval vm_compute in ("<<<M2491>>>" ++ check (runes_of_ascii "@calculatedFrom")).
Eval vm_compute in ("<<<M2746>>>" ++ check (runes_of_ascii "uint16 = int8")).
Eval vm_compute in ("<<<M2060>>>" ++ check (runes_of_ascii "MetaData A")).
Eval vm_compute in ("<<<M2752>>>" ++ check (runes_of_ascii "nz:c/H>Q")).
Eval vm_compute in ("<<<M2450>>>" ++ check (runes_of_ascii "falsey")).
Eval vm_compute in ("<<<M2482>>>" ++ check (runes_of_ascii "@left")).
Eval vm_compute in ("<<<M1418>>>" ++ check (runes_of_ascii "root")).
Eval vm_compute in ("<<<M2468>>>" ++ check (runes_of_ascii "'0'")).
Eval vm_compute in ("<<<M2451>>>" ++ check (runes_of_ascii "as")).
Eval vm_compute in ("<<<M2671>>>" ++ check (runes_of_ascii "}")).
