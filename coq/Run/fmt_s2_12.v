From FP Require Import Lexer Parser ShowPT Digest Formatter.
From Coq Require Import String List NArith.
Import ListNotations.
Open Scope string_scope.
Set Printing Width 100000000.
Set Printing Depth 100000000.
Definition show_fres (r : fres) : string :=
  match r with
  | FOk s => "OK:" ++ sh_escaped s ""
  | FErr s => "ERR:" ++ sh_escaped s ""
  | FPanic p => "PANIC:" ++ p
  end.
Definition check (rs : list rune) : string := digest (show_fres (format_res rs)).
Definition full (rs : list rune) : string := show_fres (format_res rs).
Eval vm_compute in ("<<<M4482>>>" ++ check (runes_of_ascii "  options
	{

LittleEndian = true
	; ArrayPrefixLenType =

    u8
;
FixedStringPadChar

    ='0'
    ;
	JavaPackage =""com.example.msg""
	;  GoPackage
	=
	""msg""	; GoModule= ""example.com/msg""

    ;
}MetaData Meta

    { 
u32
    SeqNum
    `sequence number` ,

    char[
8]  Symbol  `symbol`,

    zchar[5 ]
ZSym
`z symbol`
    , string

Note ,
Symbol	AltSymbol
	`alias of symbol`, f64
	Price

,

}
packet  Inner

    { 
u8	a
    ,  i16
	b

, string

c
	,
}packet

    Inner2{u8

a2 ,	char[
	3  ]

    c2  , }
packet
Logon { u8 x , 
string user ,
    repeat	u16	codes	, }
packet  Logout{u16
reason , }	packet
	Empty { }root

packet Msg{
u8
	su8
,uint8

luint8

    ,
u16 su16 , uint16

luint16
,  u32	su32,
	uint32
    luint32,
	u64
su64 
, 
uint64

    luint64
,

    i8 si8 
,

int8
	lint8	,i16
    si16

,	int16

lint16

,
    i32
si32 ,	int32
    lint32
    , i64
	si64,
int64
lint64 ,
	f32

    sf32,  float32
lfloat32,
f64  sf64,

float64  lfloat64 ,
	char[ 6 ]fsplain 
,
@leftPad  (
'0' 
)char[
	4	] fs0
,@rightPad( '0'
    ) char[ 5 ]
fs1
,@leftPad (
	' ')
	char[
6
	] 
fs2
    , @rightPad (
    ' '  )char[7
	]
fs3	,@leftPad	(
	'\x00'
    ) 
char[ 8 ] fs4
,
	@rightPad ('\x00')char[	9]

fs5
	,

    @leftPad

(
	)
    char[ 10

    ]  fs6
,  @rightPad

(  )	char[

11 
]
fs7

, zchar[
7

    ] fz  , 
@leftPad  ('0' 
)  zchar[
3 ]

    fzl0 , 
string  s1  `doc`,  char[]
    s2
	,  Inner,  Sub	{	u8
q

    ,string
w
    , Deep{  u16 z ,
repeat  i32	zs 
,
},
}	,
	repeat  u8 
ru8
,
	repeat
    u16
    ru16 
,repeat u32
	ru32,
	repeat

    u64

ru64 , repeat
	i8

ri8
,
	repeat i16
ri16
,

repeat i32 ri32
    , 
repeat
i64
	ri64

    ,
	repeat

f32 rf32
, 
repeat
f64
    rf64

, repeat
string
	rstr

    ,
	repeat

char[]
rstr2 
,

repeat 
char[  3
    ]
rfs , repeat
zchar[ 
3  ]

rfz,  repeat
    Inner2 
,
    repeat	Grp {

u8 k,
char[	2	] v, }  ,

SeqNum 
, 
SeqNum
	seq2 , repeat	SeqNum	seqs
,Symbol

,
AltSymbol
	alt ,ZSym

, Note

, 
repeat
Symbol 
syms
	,Price 
px ,

u16
MsgType , u32 
BodyLen	@lengthOf(Body)
	,match 
MsgType
as	Body{
    1:

    Logon ,[ 2
	,
3
	]:
	Logout
, 7	:Logon 
,9 :  Empty
	,

}  ,
u32 Checksum 
@calculatedFrom(""CRC32""
	),

    }
")).
Eval vm_compute in ("<<<M1123>>>" ++ check (runes_of_ascii "packet packetx
{ @tag( 00)
    float32
// `tick` ""quote"" 'q'
//
calculatedFrom ,packetx ,BodyLength , @calculatedFrom( ""1"" )
//
//	t
char[65535 ]Foo ,
    repeat char[ 3 ] x_y_z,
@calculatedFrom( """ ++ [128512]%N ++ runes_of_ascii """ ) repeat// " ++ [128512]%N ++ runes_of_ascii " emoji
Pad ,	@rightPad
( ' ') char[]
pack
    `line1
line2`,u8x
, // c
int32 packetx , falsey, }
    packet asx//	t
{} packet i8i8 { char[ //
0123456789]charz @lengthOf(_x	)
, repeat repeatCount`u8 x,` , repeat options1 ,
x , @lengthOf( As	) match pack // 50% %s
as BodyLength{ /// triple
""1"" :
    tag , [ 65535 ] : msg_type ,
[
    // @lengthOf(
    ""`tick`"" // 50% %s
]
:falsey
    ,""// no comment""// " ++ [128512]%N ++ runes_of_ascii " emoji
: u128 , },match
len
as	Z9_ { [ ""a	b"" ,	10 ]
:
    Foo
,255
: int ,
    0123456789
: tag , 1
/// triple
// c
:metadata,
[ 00
, 4294967296,
    """ ++ [28040; 24687]%N ++ runes_of_ascii """
    ] : // " ++ [128512]%N ++ runes_of_ascii " emoji
roots,[ 42,4294967296 ,10 , 00 , 4294967296]	: int,} ,@calculatedFrom( ""{,}""
) // 50% %s
repeat // " ++ [27880; 37322]%N ++ runes_of_ascii "
_x {tag `` // @lengthOf(
, // a // b
}
, @lengthOf(  BodyLength )zchar
    @lengthOf(msg_type) `" ++ [233]%N ++ runes_of_ascii "` , match string_
as zchar { 42 : MetaDataX	, [ ""abc"" ,
""\" ++ [233]%N ++ runes_of_ascii """]
//	t
// a // b
:tag 007 : charz// 50% %s
, [ """"
    ,
""// no comment"" ] : u128 , [ ""1"", """ ++ [128512]%N ++ runes_of_ascii """ ]
    // packet A { u8 x, }
    : Foo , } ,
} packet _x { A {
    Z9_
    // trailing space 
    @lengthOf(
    u) , },@lengthOf(	T
// packet A { u8 x, }
// " ++ [27880; 37322]%N ++ runes_of_ascii "
) @tag( 00 // trailing space 
)
    char[] i8i8
    @lengthOf( f32a )
, repeat Z9_{
lengthOf { rootA ,	repeat len i8i8	`// not a comment` , // packet A { u8 x, }
i8i8 @lengthOf( string_  )
/// triple
// " ++ [27880; 37322]%N ++ runes_of_ascii "
`" ++ [28040; 24687; 31867; 22411]%N ++ runes_of_ascii "` // 50% %s
, char[ 10 ] chars`two words`
, },repeat string o//	t
, }
,  crc@calculatedFrom(""1"" ) , //
} packet Foo { @calculatedFrom(//x
""\" ++ [233]%N ++ runes_of_ascii """ )
pack u128 // 50% %s
`tab	here`,
    /// triple
    int64 lengthOf
@calculatedFrom( ""// no comment""	) `a\` , match// `tick` ""quote"" 'q'
MetaDataX
    as roots
{
    0 : a1 , } , }
")).
Eval vm_compute in ("<<<M821>>>" ++ check (runes_of_ascii "
packet trueish { pack@calculatedFrom( ""1""), zchar[
    0 ]
u8x@calculatedFrom( """ ++ [128512]%N ++ runes_of_ascii """ ) , options1
@lengthOf( stringy )  `// not a comment` , @calculatedFrom( ""1"" )
char[ 4294967296 ] uint8x@lengthOf( int	) `
`// `tick` ""quote"" 'q'
,@calculatedFrom(""\" ++ [233]%N ++ runes_of_ascii """ )	uint8
Pad `say ""hi""` ,	crc
    Z9_  , @calculatedFrom(
    ""`tick`""
)repeat zchar[
1] u
`
` ,  match BodyLength
as uint8x { ""CRC32""//x
: a1
, }
,
@calculatedFrom( ""`tick`"" )
// c
// " ++ [128512]%N ++ runes_of_ascii " emoji
@rightPad
(
    ) u32
len ,
    @calculatedFrom( ""1"" )MetaDataX Header `// not a comment`
    , }
MetaData uint8x
    // `tick` ""quote"" 'q'
    { } packet
Logon { match //x
int // @lengthOf(
as string_ {
    00 : leftPad , }	, @lengthOf(repeatCount )
    i64_ @calculatedFrom(
//x
//	t
""\n""	) `tab	here` ,lengthOf @calculatedFrom(
""it's""	) `line1
line2` ,T { repeat zchar[ 3]
    string_, match T as	stringy {
    // @lengthOf(
    4294967296:
A
    //	t
    ,  4294967296
:	msg_type
    , 7 :msg_type
,
    // trailing space 
    0 : chars,
1  :
asx , 0 :
// 50% %s
// a // b
float
    , } ,
// a // b
// c
Pad @lengthOf( len )
, }	, BodyLength
    @calculatedFrom(
// " ++ [27880; 37322]%N ++ runes_of_ascii "
//x
""" ++ [128512]%N ++ runes_of_ascii """ ) , repeat // a // b
Logon , x {
match  stringy as Header {
    // c
    [ ""abc"" ] :i64_ ,255: f32a }
// " ++ [128512]%N ++ runes_of_ascii " emoji
// `tick` ""quote"" 'q'
,
} , uint32
u8x ,  uint32 int , } MetaData
BodyLength  { i8i8 Logon `crlf
line`
,int
// " ++ [128512]%N ++ runes_of_ascii " emoji
// @lengthOf(
options1 `say ""hi""`, Foo
tag
//	t
// `tick` ""quote"" 'q'
, }root
    packet lengthOf{repeat zchar[ 255 ] lengthOf`// not a comment` // " ++ [128512]%N ++ runes_of_ascii " emoji
, }
")).
Eval vm_compute in ("<<<M1257>>>" ++ check (runes_of_ascii "MetaData matchKey { // packet A { u8 x, }
asx Packet , roots	u128	, rootA options1 ,
char[ 007 ]
    // `tick` ""quote"" 'q'
    chars
    `line1
line2` ,x_y_z metadata
    /// triple
    , zchar[/// triple
00// " ++ [27880; 37322]%N ++ runes_of_ascii "
]
Foo  `line1
line2`,} packet
lengthOf
    { }packet Packet // packet A { u8 x, }
{@lengthOf(MetaDataX )repeat rootA
    // " ++ [128512]%N ++ runes_of_ascii " emoji
    { tag
{ match
charz as pack { ""abc""
    : lengthOf , } , string
options1	, T
{ repeat char[ 1 ] Header`tab	here` , Packet
, i64
crc @calculatedFrom(  ""a\\"")`doc`
    // a // b
    , string x// a // b
, //
} ,	i8 lengthOf
    `100% of %d`, } ,
} , u32 stringy , u128 { zchar[ 0123456789] falsey , packetx `// not a comment` ,
}
, @calculatedFrom( ""x y"" )
repeat	int T	`u8 x,` , zchar[ 255 ]
zchar `" ++ [28040; 24687; 31867; 22411]%N ++ runes_of_ascii "` // packet A { u8 x, }
, @tag(
0 ) match Packet as a1
{ [  10 ,
    ""x y""
    , 007 // " ++ [128512]%N ++ runes_of_ascii " emoji
,
7
    // @lengthOf(
    ,0 ] : rootA, ""a\""b""  :rootA , """ ++ [28040; 24687]%N ++ runes_of_ascii """
    : calculatedFrom
,
""\n"" : u8x
[
    0123456789 ,
""" ++ [233]%N ++ runes_of_ascii "t" ++ [233]%N ++ runes_of_ascii """
,
    10 ,""{,}"" ,
""\n"" ,
    //x
    0
    ]: options1 , }//
,
    // " ++ [128512]%N ++ runes_of_ascii " emoji
    i64_ { char[7 ] A // a // b
, repeat msg_type ,}
    , repeat
    i32 int , // c
repeat As ,
float Logon `100% of %d`	,
//
// trailing space 
} packet	T { f64// c
len ,
@lengthOf(
x_y_z
    ) repeat char[ 0 ] i8i8	`100% of %d` , @calculatedFrom( ""abc"" )  repeat i16
u , }")).
Eval vm_compute in ("<<<M1405>>>" ++ check (runes_of_ascii "options {
	StringPrefixLenType = u16;
	ArrayPrefixLenType = u16;
}

packet SampleBinary {
    uint16 MsgType `" ++ [28040; 24687; 31867; 22411]%N ++ runes_of_ascii "`,
    u16 BodyLenght @lengthOf(Body) `" ++ [28040; 24687; 20307; 38271; 24230]%N ++ runes_of_ascii "`,
    match MsgType as Body {
        1 : Logon,
        2 : Logout,
        3 : Heartbeat,
        4 : RiskControlRequest,
        5 : RiskControlResponse,
    },
        @calculatedFrom(""CRC32"")
    u32 Ckecksum `" ++ [26657; 39564; 21644]%N ++ runes_of_ascii "`,
}

packet Logon {
     @leftPad('0')
    char[10] UserName `" ++ [29992; 25143; 21517]%N ++ runes_of_ascii "`,
    string Password `" ++ [23494; 30721]%N ++ runes_of_ascii "`,
    uint64 ClientId `" ++ [23458; 25143; 31471]%N ++ runes_of_ascii "ID`,
    u16 HeartbeatInterval `" ++ [24515; 36339; 38388; 38548]%N ++ runes_of_ascii "`,
}

packet Logout {
      @rightPad('0')
    char[10] UserName `" ++ [29992; 25143; 21517]%N ++ runes_of_ascii "`,
    uint64 ClientId `" ++ [23458; 25143; 31471]%N ++ runes_of_ascii "ID`,
}

packet Heartbeat {
}

packet RiskControlRequest {
    string UniqueOrderId `" ++ [21807; 19968; 35746; 21333; 21495]%N ++ runes_of_ascii "`,
    char[16] ClOrdID `" ++ [23458; 25143; 35746; 21333; 21495]%N ++ runes_of_ascii "`,
    char[3] MarketID `" ++ [24066; 22330]%N ++ runes_of_ascii "id`,
    char[12] SecurityID `" ++ [35777; 21048; 20195; 30721]%N ++ runes_of_ascii "`,
    char Side `" ++ [20080; 21334; 26041; 21521]%N ++ runes_of_ascii "`,
    char OrderType `" ++ [35746; 21333; 31867; 22411]%N ++ runes_of_ascii "`,
    u64 Price `" ++ [20215; 26684]%N ++ runes_of_ascii "`,
    u32 Qty `" ++ [25968; 37327]%N ++ runes_of_ascii "`,
    repeat string ExtraInfo `" ++ [38468; 21152; 20449; 24687]%N ++ runes_of_ascii "`,
    repeat SubOrder {
    		char[16] ClOrdID `" ++ [23376; 35746; 21333; 21495]%N ++ runes_of_ascii "`,
    		u64 Price `" ++ [23376; 35746; 21333; 20215; 26684]%N ++ runes_of_ascii "`,
    		u32 Qty `" ++ [23376; 35746; 21333; 25968; 37327]%N ++ runes_of_ascii "`,
    	},
}

packet RiskControlResponse {
    string UniqueOrderId `" ++ [21807; 19968; 35746; 21333; 21495]%N ++ runes_of_ascii "`,
    i32 Status `" ++ [29366; 24577]%N ++ runes_of_ascii "`,
    string Msg `" ++ [32467; 26524; 20449; 24687]%N ++ runes_of_ascii "`,
    repeat Detail,
}

packet Detail {
    string RuleName `" ++ [35268; 21017; 21517; 31216]%N ++ runes_of_ascii "`,
    u16 Code `" ++ [21407; 22240; 20195; 30721]%N ++ runes_of_ascii "`,
}")).
Eval vm_compute in ("<<<M4233>>>" ++ check (runes_of_ascii "root packet uint8x {
}

packet i8i8 {
    @lengthOf(x_y_z)
    // 50% %s
    //x
    char[] BodyLength @calculatedFrom(""a\\"") `crlf
        line`,
    @tag(1)
    tag {
        match repeatCount as repeatCount {
            ""a	b"" : body,
        },
    },
    x_y_z @lengthOf(trueish),
    // a // b
    f64 crc,
    @calculatedFrom(""x y"")
    @tag(0)
    @tag(65535)
    int16 u128 @lengthOf(string_) `tab	here`,
    char[0123456789] Foo @calculatedFrom(""CRC32""),
    @calculatedFrom(""a\\"")
    match T as msg_type {
        [65535, ""x y"", 3, 255, 0] : T,
        [""CRC32"", ""1"", 3, 10, 65535] : u,
        4294967296 : a1,
    },
    crc `doc`,
    @calculatedFrom(""" ++ [28040; 24687]%N ++ runes_of_ascii """)
    // c
    @tag(42)
    uint16 Foo,
}

// " ++ [27880; 37322]%N ++ runes_of_ascii "
// c
root packet tag {
    calculatedFrom `tab	here`,
}

packet metadata {
    u64 uint8x @calculatedFrom(""// no comment""),
}

root packet chars {
    @tag(255)
    @calculatedFrom(""\n"")
    @lengthOf(Packet)
    repeat options1 {
        f32 MetaDataX @calculatedFrom(""a\""b""),
        // c
        /// triple
        repeat char[0123456789] Foo,// packet A { u8 x, }
        float32 charz @lengthOf(msg_type) `a\`,
    },
}")).
Eval vm_compute in ("<<<M4305>>>" ++ check (runes_of_ascii "MetaData i64_ {
    i32 lengthOf,
}

options {
    Header = ' ';
    MetaDataX = int16
}

options {
    len = ' ';
    f32a = ' ';
    packetx = char[0123456789]
    rootA = 00;
    body = true;
}

packet x {
    Z9_,
    @rightPad()
    @lengthOf(As)
    int64 MetaDataX @calculatedFrom(""" ++ [233]%N ++ runes_of_ascii "t" ++ [233]%N ++ runes_of_ascii """),
    Header @calculatedFrom(""{,}"") `crlf
    line`,
    @tag(3)
    repeat x {
        match u128 as options1 {
            ""a\\"" : calculatedFrom,
            [007, ""\n"", 0] : Z9_,
            4294967296 : a1,
            [
                ""it's"", ""CRC32"", """ ++ [28040; 24687]%N ++ runes_of_ascii """, ""x y"", 65535,
                7, 10, 007
            ] : Z9_,
            ["""", 3] : x_y_z,
        },
        f64 repeatCount @lengthOf(A) `tab	here`,// packet A { u8 x, }
        charz `
        `,
    },
    @calculatedFrom(""{,}"")
    // 50% %s
    // trailing space 
    @tag(1)
    char[] Header,
    @lengthOf(falsey)
    char[] Header,
}

packet a1 {
    @calculatedFrom(""CRC32"")
    uint16 A,
    int8 packetx @calculatedFrom(""\n""),
    T @calculatedFrom(""// no comment""),
    repeat char[3] calculatedFrom,
}")).
Eval vm_compute in ("<<<M1212>>>" ++ check (runes_of_ascii "
packet x_y_z {//x
repeat Foo `crlf
line` ,int64 f32a , match falsey as
int  {// " ++ [27880; 37322]%N ++ runes_of_ascii "
[
    1
    ]// 50% %s
: Logon,  [
    ""\n"" , ""// no comment"" ] : repeatCount , [ ""\" ++ [233]%N ++ runes_of_ascii """ ,""it's"", 3 ] : o	, 65535:repeatCount ,[ ""abc""
    , ""abc""
]
    :
    charz} , chars { repeat char[]
    i64_, }, repeat i64_ o `" ++ [233]%N ++ runes_of_ascii "`
    //x
    ,	match uint8x as // a // b
_x
{
    """ ++ [233]%N ++ runes_of_ascii "t" ++ [233]%N ++ runes_of_ascii """:BodyLength // 50% %s
, ""x y""
    : charz ,  [007
]// 50% %s
: charz
,
""it's""
:// " ++ [128512]%N ++ runes_of_ascii " emoji
MetaDataX  007
    : u128	, /// triple
[ 1	, // 50% %s
""a\\"" ,65535 ,// 50% %s
42 ,""a\""b""] : i8i8
, }, //
@leftPad(
    ) match repeatCount as
u8x
{ [ ""it's"" ]
: trueish
    ,}
    ,
@lengthOf( //	t
i8i8
) int8
// " ++ [128512]%N ++ runes_of_ascii " emoji
// " ++ [27880; 37322]%N ++ runes_of_ascii "
f32a @lengthOf( Header
// @lengthOf(
// `tick` ""quote"" 'q'
) `u8 x,` // " ++ [128512]%N ++ runes_of_ascii " emoji
,
@lengthOf(
    lengthOf// `tick` ""quote"" 'q'
) /// triple
@calculatedFrom(// c
""" ++ [128512]%N ++ runes_of_ascii """// packet A { u8 x, }
) char[] roots	,
@calculatedFrom(""a	b""
    ) @lengthOf( trueish) //	t
@calculatedFrom(
    ""CRC32"" )	repeat T { repeat  x T,},//x
}")).
Eval vm_compute in ("<<<M455>>>" ++ check (runes_of_ascii "MetaData
    _x
    { i32 leftPad `tab	here`,
/// triple
// a // b
i16 x_y_z, i8 matchKey `
` ,
u16 options1 `a\` , Packet float
, crc
    As,}root
    packet metadata { @tag(
3 )
    repeat char
Packet
    ,
@tag( // @lengthOf(
255
) match u8x as
leftPad {
    [ 1 ,
""\n""
    ,
""a\""b"" ]
: stringy }
, float @calculatedFrom(""\n""
    ) `two words` ,repeat char[ 0123456789] Header, body {
f32a`{ , }` , char[ 10 ]Pad
    // 50% %s
    @lengthOf( packetx )	`// not a comment` // `tick` ""quote"" 'q'
,	match Header as crc {	[7 ]
    : roots ,
//x
// a // b
4294967296
/// triple
// " ++ [27880; 37322]%N ++ runes_of_ascii "
:
Header ,
    255 :
crc, 00
: Z9_, 255
    : Z9_ // a // b
,
[ 42,  255]  : repeatCount , } , leftPad // " ++ [128512]%N ++ runes_of_ascii " emoji
{ repeat asx `
`,
float	, } ,/// triple
} , }options {o = string	; }// a // b
packet uint8x{ i16 A`// not a comment`	, float64 //x
rootA `" ++ [233]%N ++ runes_of_ascii "` ,float64 // packet A { u8 x, }
T @lengthOf( trueish )
    , //x
} // `tick` ""quote"" 'q'
options{
}")).
Eval vm_compute in ("<<<M267>>>" ++ check (runes_of_ascii "packet i64_{ char[ 65535] _x , Logon @lengthOf(roots
),
char[ 7 ] len
, @calculatedFrom(
    ""packet"" )@tag(
    00
)
match zchar as leftPad
{
255// c
:MetaDataX """"
:x ,
[0123456789 ,// `tick` ""quote"" 'q'
""x y"" ] :
_x,
    } , uint64 chars @lengthOf( // c
roots ) ,
    @calculatedFrom(
    ""it's""
    // c
    )	@leftPad ( ) @lengthOf( leftPad ) match
int
as //	t
zchar {
[
    4294967296
    ]
    :	len	1
// a // b
// " ++ [27880; 37322]%N ++ runes_of_ascii "
: _x ,
255
:
A
// a // b
/// triple
,
} ,
@lengthOf(
// a // b
//	t
int )
char[] rootA /// triple
,
repeat _x // packet A { u8 x, }
_x `{ , }` ,
    // @lengthOf(
    @lengthOf( Z9_ ) float64 string_ @lengthOf( crc ) ,	zchar[ 0
] T `u8 x,`	, } root packet x
{ T
    // @lengthOf(
    ,}
    MetaData calculatedFrom// 50% %s
{ char[]
stringy
,} options{ tag// packet A { u8 x, }
= ""// no comment""
Packet = zchar[
7]
    ;
// a // b
// a // b
f32a  = '0'
    ; }")).
Eval vm_compute in ("<<<M1359>>>" ++ check (runes_of_ascii "packet chars
    { // packet A { u8 x, }
@lengthOf(
T )
    // trailing space 
    zchar[ 1 ]
    int `{ , }` ,
@tag( 0 )
    i8 //
Packet
,
    } root packet
trueish //x
{	@calculatedFrom("""" )Z9_ Z9_ ,
@rightPad (' ' // a // b
)@calculatedFrom( // trailing space 
""// no comment"" )
@lengthOf( chars ) calculatedFrom , @lengthOf(
falsey
    )i8 A `" ++ [233]%N ++ runes_of_ascii "` ,match charz as Z9_ { 3 : o ,
""\n"" : Logon ,7 : //x
metadata , ""a\\"" : MetaDataX ""it's""
//
// @lengthOf(
:// a // b
leftPad, } , @lengthOf( leftPad)  string falsey // trailing space 
,
@lengthOf(
    float ) pack rootA//	t
, _x @calculatedFrom( ""\n"" )
,@leftPad
    ('\x00'  ) repeat
    zchar[
    3 ]  _x ,
match
    /// triple
    a1
    /// triple
    as msg_type {
0
    :Pad
} ,
}options { _x
= ""`tick`""
    // packet A { u8 x, }
    ;
pack
=
string}root packet string_{ } // `tick` ""quote"" 'q'")).
Eval vm_compute in ("<<<M4048>>>" ++ check (runes_of_ascii "packet uint8x {
}

packet metadata {
}

root packet float {
    @tag(255)
    uint8 u128 @calculatedFrom(""{,}"") `line1
    line2`,
    A @lengthOf(repeatCount),
    A @calculatedFrom(""" ++ [28040; 24687]%N ++ runes_of_ascii """),
    repeat Header {
        repeat zchar[0] a1 `
        `,
        u8 calculatedFrom,
        i8i8 {
            // trailing space 
            crc roots,
            x_y_z,
        },
        repeat u32 A,
    },
    char[] float `a\`,
    @lengthOf(string_)
    match Foo as asx {
        [0123456789, 65535, ""\" ++ [233]%N ++ runes_of_ascii """] : string_,
        1 : int,
        ""it's"" : packetx,
        255 : Logon,
        1 : i64_,
        1 : calculatedFrom,
    },
    zchar[4294967296] metadata `// not a comment`,
    // " ++ [128512]%N ++ runes_of_ascii " emoji
    // a // b
}

options {
    stringy = true;
    matchKey = 00;
    rootA = '0'
    msg_type = '\x00';// a // b
}")).
Eval vm_compute in ("<<<M1027>>>" ++ check (runes_of_ascii "options
{ u8x =
    '0'  ; stringy = ""x y""	lengthOf= true //
; //x
_x = 007
// trailing space 
//
A ='0'
;
} root packet
stringy { repeat uint16
    len `tab	here` , @tag( 7 )
@calculatedFrom(	""" ++ [28040; 24687]%N ++ runes_of_ascii """ )i16
// @lengthOf(
// " ++ [128512]%N ++ runes_of_ascii " emoji
msg_type
    `
`
    , // a // b
repeat repeatCount // trailing space 
{ repeat pack // trailing space 
msg_type `tab	here` , match
repeatCount
    as // trailing space 
_x
    { ""`tick`"" : trueish ,  [ ""\n"" ,
65535 ,	255  , ""abc"" , 0123456789
    ] :
// c
// " ++ [27880; 37322]%N ++ runes_of_ascii "
options1 // c
, } ,} ,@rightPad // @lengthOf(
( ' '
    )
f64 Z9_,
    int32 BodyLength// c
`two words` ,	@calculatedFrom(""a\\""
    )
    char[
255 ]// `tick` ""quote"" 'q'
lengthOf	, f64 Foo ,char[1 ] // c
Z9_	, repeat roots // packet A { u8 x, }
uint8x	, } packet Header/// triple
{ }
")).
Eval vm_compute in ("<<<M1046>>>" ++ check (runes_of_ascii "options { len= true; asx = 4294967296 Packet  = """ ++ [28040; 24687]%N ++ runes_of_ascii """ ;
    o // " ++ [128512]%N ++ runes_of_ascii " emoji
=' ' MetaDataX =true }
    // packet A { u8 x, }
    root// @lengthOf(
packet body
    { Packet{ repeat Logon T `u8 x,`
, repeat
char[00]
metadata ,
    } ,
@lengthOf( i64_) repeat char[] tag
, @tag(	7	)	f64 calculatedFrom ,// trailing space 
T x
    // " ++ [27880; 37322]%N ++ runes_of_ascii "
    `crlf
line`
, float32 BodyLength
@lengthOf(  falsey ) `two words` ,	@lengthOf(	u ) repeat
    // a // b
    char[]
    body , // 50% %s
@calculatedFrom( ""a\""b"" )
    match u128 as Pad{ // trailing space 
""\" ++ [233]%N ++ runes_of_ascii """ : float[7	] :Packet,
// " ++ [27880; 37322]%N ++ runes_of_ascii "
// " ++ [128512]%N ++ runes_of_ascii " emoji
10 :i8i8
    ,
} , } MetaData packetx //	t
{ // a // b
matchKey i64_ `line1
line2`,char[7] Foo `a\` , float32	Packet `a\`
,float32 i8i8  `it's`
, asx i8i8 ,	}
")).
Eval vm_compute in ("<<<M592>>>" ++ check (runes_of_ascii "packet
options1
    { }// c
options { x_y_z = char[ 3
]	; string_=
    ""x y""
    packetx = """ ++ [233]%N ++ runes_of_ascii "t" ++ [233]%N ++ runes_of_ascii """
; }  packet len { // " ++ [128512]%N ++ runes_of_ascii " emoji
repeat
zchar[ 00 ]matchKey `u8 x,`, uint64 i8i8 ,
rootA {match repeatCount
as rootA {[
0123456789 , 7
    // 50% %s
    ]	: u8x , } ,}
//
// `tick` ""quote"" 'q'
, @calculatedFrom( """ ++ [28040; 24687]%N ++ runes_of_ascii """
    )@calculatedFrom(	""abc"" )
    char[ //
10
]
    string_ @calculatedFrom(
""\" ++ [233]%N ++ runes_of_ascii """ ) `doc` ,	@rightPad (
'0' ) string
    chars
    @lengthOf(matchKey	),
    repeat//	t
u8
    x_y_z	`line1
line2` , }packet crc	{@lengthOf(
tag
//
/// triple
) match Header as float {
    [ 0 , ""it's""  ,
1, """ ++ [28040; 24687]%N ++ runes_of_ascii """
, ""a	b"",
3 ] :  lengthOf , 0123456789 :Z9_
    ,} ,
@calculatedFrom( ""1""	) i64_ u128 `
`,
}")).
Eval vm_compute in ("<<<M1191>>>" ++ check (runes_of_ascii "packet pack	{ } root// `tick` ""quote"" 'q'
packet msg_type { @calculatedFrom( ""abc""
    ) //
u8 Packet // `tick` ""quote"" 'q'
@lengthOf(
    body
)
    // a // b
    , repeat u128	stringy ,
    //
    repeat
// trailing space 
//x
float64 u8x
``  , match metadata as//
int{[ 4294967296 ,0123456789 ,	007
,""" ++ [128512]%N ++ runes_of_ascii """
,""1""
    // packet A { u8 x, }
    ] : x_y_z , 7
    /// triple
    : int , 007  :len """ ++ [28040; 24687]%N ++ runes_of_ascii """ : // 50% %s
string_ ,}, repeat zchar[ 3
    ] pack`two words`, @calculatedFrom(""x y"" ) char[007 ] x_y_z
, zchar[ 10 ]
// `tick` ""quote"" 'q'
// " ++ [27880; 37322]%N ++ runes_of_ascii "
u
    @lengthOf( x
    ) ,}  packet repeatCount{ string charz`it's`, }
options { A
= ""a\\""
    crc =// c
true ;
crc =
' '
}
")).
Eval vm_compute in ("<<<M410>>>" ++ check (runes_of_ascii "MetaData x// a // b
{ zchar[
65535 ]
    Pad /// triple
, int16 chars`
` ,
char[]
    // " ++ [27880; 37322]%N ++ runes_of_ascii "
    pack
,
    BodyLength x
,
u8 metadata // `tick` ""quote"" 'q'
,// " ++ [27880; 37322]%N ++ runes_of_ascii "
f32 options1
, } MetaData _x { f32a len , string u ,
} packet body // packet A { u8 x, }
{ @tag( 7) @rightPad( '\x00'
) @lengthOf( uint8x  )
    match
float
as string_
    { ""abc""
// a // b
//x
: stringy ,
10: i8i8
    ,
}, @leftPad ( ' ' ) uint8 calculatedFrom @calculatedFrom( ""CRC32"" ) ,	@lengthOf( crc )u { match	chars as
rootA
// trailing space 
/// triple
{
// `tick` ""quote"" 'q'
// 50% %s
007	: // " ++ [128512]%N ++ runes_of_ascii " emoji
_x , ""\n"" : u
,""abc""
:
calculatedFrom , }
,} ,leftPad f32a , } 	 ")).
Eval vm_compute in ("<<<M154>>>" ++ check (runes_of_ascii "//
options	{}options { stringy
    =  char[0123456789 ] stringy
=  true	;  rootA
=
'0'; o = ""\n""
    i8i8= char[] ; } root
packet // " ++ [128512]%N ++ runes_of_ascii " emoji
As { @calculatedFrom( """ ++ [233]%N ++ runes_of_ascii "t" ++ [233]%N ++ runes_of_ascii """ )@lengthOf(	packetx )
// @lengthOf(
// " ++ [128512]%N ++ runes_of_ascii " emoji
u8
    BodyLength @lengthOf( o )`two words` ,
tag
    ,  }	options  { matchKey
    = char[ 1 ]
} root packet  lengthOf{ @leftPad ( )int8	Z9_ ,  string float @lengthOf(// a // b
i8i8 ) ,
match
lengthOf as chars
{ [
"""" ]	: x
,1 :
    roots
, } , repeat  uint8 Foo , @tag( 007 ) u8x
    { repeat chars falsey`line1
line2`  ,
msg_type @lengthOf( tag ), leftPad
    Logon , }
    ,
string
chars
    , }")).
Eval vm_compute in ("<<<M68>>>" ++ check (runes_of_ascii "packet// 50% %s
Z9_ { roots @lengthOf(x_y_z) `tab	here` ,match u
as
i64_ { 007  : // " ++ [27880; 37322]%N ++ runes_of_ascii "
a1 , 1
/// triple
// packet A { u8 x, }
: asx , [ // `tick` ""quote"" 'q'
""`tick`""  ,	""abc"" ,""it's""
    , 42 ,""" ++ [233]%N ++ runes_of_ascii "t" ++ [233]%N ++ runes_of_ascii """
    , ""it's""  , """"
]
    : u128 // " ++ [27880; 37322]%N ++ runes_of_ascii "
, // packet A { u8 x, }
1	: Logon // a // b
, }
,}
packet
//	t
// packet A { u8 x, }
Pad { //x
@calculatedFrom( //x
""`tick`""
    ) u32 A @calculatedFrom( ""x y"" ) `two words` ,@tag( 007
    )  @lengthOf( Pad) repeat
asx
,@lengthOf( Logon )@calculatedFrom( ""{,}"") @calculatedFrom(
""abc"")
u128,zchar[
0
]
options1`" ++ [28040; 24687; 31867; 22411]%N ++ runes_of_ascii "`, } packet MetaDataX { }")).
Eval vm_compute in ("<<<M1318>>>" ++ check (runes_of_ascii "packet f32a
    { @leftPad (  '0')repeat  zchar[ //
10 ] zchar //	t
``
, } MetaData u {
    i32
    // packet A { u8 x, }
    asx, i64
    /// triple
    string_
    `it's` , Pad
metadata
, } packet As {
@tag( // " ++ [128512]%N ++ runes_of_ascii " emoji
10
    )zchar[ 10
]leftPad , @calculatedFrom( ""a\""b"" )
    // trailing space 
    @lengthOf(
// trailing space 
//	t
Header )
@calculatedFrom(
    ""\" ++ [233]%N ++ runes_of_ascii """
)char[
// @lengthOf(
//
007
] matchKey @lengthOf(u128 )
    `100% of %d`
    ,int
@calculatedFrom( ""`tick`"") `a\`//x
,f64 o ,
    } MetaData	o { uint16
    // " ++ [128512]%N ++ runes_of_ascii " emoji
    matchKey ,
}")).
Eval vm_compute in ("<<<M1367>>>" ++ check (runes_of_ascii "// packet A { u8 x, }
packet MetaDataX { @lengthOf(  packetx
//x
// a // b
)
u32 float
, @tag(
3  ) @calculatedFrom( ""a\\""
)
    @lengthOf(// packet A { u8 x, }
zchar ) asx
@lengthOf(
x )
    , match
    // a // b
    int
as
falsey {[// 50% %s
10,  4294967296
,  ""{,}"" ,
    ""// no comment""
    ] : Pad , ""`tick`"" : msg_type
    ,
    4294967296:
u128 ,
    ""// no comment""	: trueish , [ 3
    ] :
Foo  }
, }
    root packet Logon { @lengthOf(	x  ) @rightPad ( ' ' ) // trailing space 
string asx @lengthOf(	packetx
    )
,  stringy ,}
")).
Eval vm_compute in ("<<<M344>>>" ++ check (runes_of_ascii "options { a1 = false  ; }packet tag
    {
@tag( 3
)i8 chars , }
    options{Foo =// packet A { u8 x, }
int8 ;
    } packet // `tick` ""quote"" 'q'
uint8x { float64 i64_
    @calculatedFrom( ""\n"") ,@rightPad (
    )zchar[ 0]
string_ , match // 50% %s
x /// triple
as metadata
    // @lengthOf(
    { 42 : u128 , [""`tick`"" ,10] :tag
    ""CRC32"": x, ""{,}""
: matchKey
, }	, }
packet roots {  @rightPad ( '0' ) uint32
u8x @calculatedFrom(// `tick` ""quote"" 'q'
""abc"" ) , match
// `tick` ""quote"" 'q'
// c
i8i8 as i64_ {0 :T ,
},
}
")).
Eval vm_compute in ("<<<M191>>>" ++ check (runes_of_ascii "
root packet lengthOf
{ @tag( 007 )	@leftPad ( ' ' ) @tag( 10 ) i64_ @calculatedFrom( ""it's"" ) `it's`
    // `tick` ""quote"" 'q'
    , @lengthOf( i8i8
    // `tick` ""quote"" 'q'
    ) @tag(
    3) @tag(
    1
    // 50% %s
    ) zchar[ 7 ]
    _x @lengthOf(trueish )  `// not a comment`
    , zchar[  65535] trueish ,
@lengthOf(MetaDataX ) @calculatedFrom( ""CRC32"" )int64 rootA ,
    } options{ falsey
    =
    // `tick` ""quote"" 'q'
    '0' ; } options { Header
    =zchar[
255 ] ; matchKey = 7 ; }
")).
Eval vm_compute in ("<<<M452>>>" ++ check (runes_of_ascii "packet
    Logon {
match len as u { [ ""{,}""
,0] :Pad , [ 7 , ""1""	]
:calculatedFrom [ // trailing space 
4294967296, // 50% %s
""abc"",0 , ""CRC32""	, ""abc"" ] : chars
// c
// `tick` ""quote"" 'q'
, """"  :
repeatCount,
}
/// triple
// " ++ [27880; 37322]%N ++ runes_of_ascii "
, @rightPad
( '\x00' )msg_type	{ match
len as Pad
    // " ++ [27880; 37322]%N ++ runes_of_ascii "
    { [
""packet"" ] :string_
    ,	} ,
    char[0 ] int ,
}
    , }
    packet trueish// " ++ [27880; 37322]%N ++ runes_of_ascii "
{	@calculatedFrom( """ ++ [28040; 24687]%N ++ runes_of_ascii """ )  @leftPad( ) @leftPad (
    ' '
    ) repeat char Logon , }")).
Eval vm_compute in ("<<<M198>>>" ++ check (runes_of_ascii "// " ++ [27880; 37322]%N ++ runes_of_ascii "
MetaData body
{}packet charz {
    char[] packetx @calculatedFrom(""\n"" ) `" ++ [28040; 24687; 31867; 22411]%N ++ runes_of_ascii "` ,
@leftPad (  ' ')metadata`// not a comment`
    // 50% %s
    , //	t
@lengthOf(/// triple
chars )
// c
//x
@tag( 007 ) @rightPad ( // trailing space 
' ' )
    A chars, calculatedFrom @calculatedFrom(
    ""a\\"" ), @rightPad (  '\x00' )
i64
    i8i8 `say ""hi""`
// packet A { u8 x, }
// " ++ [128512]%N ++ runes_of_ascii " emoji
,
i8 crc @calculatedFrom( ""abc"" )
`// not a comment`
    ,
}
// " ++ [27880; 37322]%N ++ runes_of_ascii "
")).
Eval vm_compute in ("<<<M744>>>" ++ check (runes_of_ascii "root packet int { repeat float64 // " ++ [27880; 37322]%N ++ runes_of_ascii "
string_ , @leftPad(
    '\x00' ) char[1	] crc ,
As , u16 float
`{ , }`// @lengthOf(
,
@calculatedFrom(	""x y""  )
// packet A { u8 x, }
//
float32 zchar,	len	{asx @calculatedFrom( ""`tick`""	)`line1
line2`,}
,
match Header
as u { [ // trailing space 
""" ++ [233]%N ++ runes_of_ascii "t" ++ [233]%N ++ runes_of_ascii """, 007
    ] : repeatCount ,
// 50% %s
// a // b
}
    ,
string
calculatedFrom
@lengthOf(matchKey ) // packet A { u8 x, }
,
} // @lengthOf(")).
Eval vm_compute in ("<<<M1200>>>" ++ check (runes_of_ascii "packet matchKey { } packet //	t
chars { @lengthOf(	calculatedFrom
)
@lengthOf( T ) metadata { matchKey @lengthOf( packetx )`say ""hi""`	, repeat string o ,
float  {
    repeat u128
// @lengthOf(
// packet A { u8 x, }
{chars	`100% of %d` , i64
    //x
    falsey @calculatedFrom( ""packet""
    ) , metadata@calculatedFrom( """ ++ [28040; 24687]%N ++ runes_of_ascii """ ) `u8 x,`//x
, zchar[ 007 ] trueish , } ,} // `tick` ""quote"" 'q'
,// @lengthOf(
} ,
    //
    }")).
Eval vm_compute in ("<<<M376>>>" ++ check (runes_of_ascii "// " ++ [128512]%N ++ runes_of_ascii " emoji
packet
    uint8x {}options { T
= false ; }	packet MetaDataX {int64 string_
, char[
    // packet A { u8 x, }
    00 ] Foo `line1
line2`
// trailing space 
// trailing space 
, _x Packet`u8 x,`
    /// triple
    ,
    @leftPad
()// c
repeat zchar[0 ]
pack
//
// @lengthOf(
, @lengthOf(
falsey) // c
uint8
    metadata , }
packet
pack
    { char[ 0123456789 ] T@calculatedFrom(	""\" ++ [233]%N ++ runes_of_ascii """ ) ,
    }
")).
Eval vm_compute in ("<<<M3699>>>" ++ check (runes_of_ascii "
MetaData 
stringy{zchar[  7
    ] x_y_z

    , zchar[ 007
	]
	A ,

string  As  `
` , }
root packet
    tag{
	@leftPad
	(
)

    match // " ++ [27880; 37322]%N ++ runes_of_ascii "
	_x
	as
    _x

{ 255: 
    // a // b
	  // " ++ [27880; 37322]%N ++ runes_of_ascii "
	  chars , 10:

    roots

    ,3
:
	Foo

    ,
[  ""{,}""
    , 
    //x
// @lengthOf(
	  ""packet""]  :  u
,
        //x

//
00:

    x_y_z
	,
	1	:

i64_	,
	} 

    // 50% %s

  ,}
")).
Eval vm_compute in ("<<<M4031>>>" ++ check (runes_of_ascii "packet chars {
    @rightPad(' ')
    uint8 Foo,
    @lengthOf(uint8x)
    string string_,
    int16 MetaDataX,
}

packet body {
    i64_ @calculatedFrom(""" ++ [128512]%N ++ runes_of_ascii """) `tab	here`,
    repeat char[00] int `crlf
        line`,
    @calculatedFrom(""`tick`"")
    i8 i8i8 @calculatedFrom(""a	b""),
    uint32 chars,
}// " ++ [27880; 37322]%N ++ runes_of_ascii "

MetaData packetx {
    calculatedFrom Header,
}

packet x_y_z {
}")).
Eval vm_compute in ("<<<M1291>>>" ++ check (runes_of_ascii "root packet lengthOf{	@calculatedFrom(
""`tick`"" )
    char[
7]rootA@lengthOf(// trailing space 
msg_type ) `line1
line2` , }
    packet Pad{ f32	i64_
, @calculatedFrom( //x
""{,}""
) char[] leftPad @calculatedFrom( ""CRC32""
    ) ,}MetaData Pad{ f32
x , float32 rootA , _x
    A `line1
line2`
    ,zchar[ // 50% %s
10] // trailing space 
u128
, u Header,} // c")).
Eval vm_compute in ("<<<M797>>>" ++ check (runes_of_ascii "MetaData T { char[]	options1`say ""hi""` ,
    } MetaData lengthOf
    { zchar[ 7] _x
,
} options { len
=
i32 ; //x
pack = '\x00' ;
// `tick` ""quote"" 'q'
// `tick` ""quote"" 'q'
tag  = true;
    u8x = 00
; msg_type
    =	""a\\"" }
    packet
trueish
{ calculatedFrom `tab	here`
, } packet crc
{ repeat falsey {repeat // " ++ [27880; 37322]%N ++ runes_of_ascii "
chars`crlf
line`
    ,} , }
")).
Eval vm_compute in ("<<<M4291>>>" ++ check (runes_of_ascii "  root  packet zchar
{ @calculatedFrom( 
""x y"")
f32 u// @lengthOf(

	@lengthOf( _x) ,} options
{
Foo
= string	falsey =
""\n""//x

  ;	calculatedFrom

=
	char[
42
] roots
	=	string ;
}
packet
    int
{ @tag(	10 ) 
@calculatedFrom( """"
) 
metadata,  }

    options
	{ 
packetx=

    '\x00';_x 
=

    ""packet""

    ;
    }
")).
Eval vm_compute in ("<<<M122>>>" ++ check (runes_of_ascii "options {
Header
    = float32
; charz =true ;
falsey =
// a // b
// 50% %s
""// no comment"" len=// @lengthOf(
' ' A
    = true
; }packet
i64_
{
    repeat string float  `" ++ [233]%N ++ runes_of_ascii "`// a // b
, f64 T
    @lengthOf(chars // packet A { u8 x, }
) `100% of %d` , msg_type @lengthOf( calculatedFrom
) `{ , }`
// " ++ [128512]%N ++ runes_of_ascii " emoji
// " ++ [27880; 37322]%N ++ runes_of_ascii "
, }
")).
Eval vm_compute in ("<<<M1068>>>" ++ check (runes_of_ascii "root packet tag  {
    u32// @lengthOf(
charz , @tag( 65535 ) @calculatedFrom(
""`tick`""  ) T @lengthOf(
chars) // 50% %s
, @tag( 4294967296 )
    // @lengthOf(
    match
    calculatedFrom as BodyLength  {
    4294967296 :
uint8x , [ ""abc""
    , ""a\""b"" //	t
,""{,}""
,
3] : u8x , """ ++ [28040; 24687]%N ++ runes_of_ascii """
    : x
    , } , }
")).
Eval vm_compute in ("<<<M4071>>>" ++ check (runes_of_ascii "root packet zchar {
    @calculatedFrom(""x y"")
    f32 u @lengthOf(_x),
}

options {
    Foo = string
    falsey = ""\n"";
    calculatedFrom = char[42]
    roots = string;
}

packet int {
    @tag(10)
    @calculatedFrom("""")
    metadata,
}

options {
    packetx = '\x00';
    _x = ""packet"";
}")).
Eval vm_compute in ("<<<M1246>>>" ++ check (runes_of_ascii "packet falsey {  @lengthOf( lengthOf ) a1 , }  packet int
    { }packet stringy
    //x
    { } root
packet
    i8i8 { @rightPad// `tick` ""quote"" 'q'
('\x00'  )
@lengthOf(string_
) @lengthOf( matchKey
/// triple
// c
) zchar[
    255 ]/// triple
x_y_z	@lengthOf( float ) `tab	here` , }")).
Eval vm_compute in ("<<<M1997>>>" ++ check (runes_of_ascii "packet	packetx { // trailing space 
x_y_z
{
string
charz ,
string x// @lengthOf(
`two words`
    ,  u8x { // `tick` ""quote"" 'q'
charz `100% of %d` // packet A { u8 x, }
,}// " ++ [27880; 37322]%N ++ runes_of_ascii "
,} , }
    // a // b
    packet metadata {  @leftPad ( '0') repeat i32 i32 options1 ,u64 uint8x , }
")).
Eval vm_compute in ("<<<M1987>>>" ++ check (runes_of_ascii "packet	packetx { // trailing space 
x_y_z
{
string
charz ,
string x// @lengthOf(
`two words`
    ,  u8x { // `tick` ""quote"" 'q'
charz `100% of %d` // packet A { u8 x, }
,}// " ++ [27880; 37322]%N ++ runes_of_ascii "
,} , }
    // a // b
    packet metadata {  @leftPad ( '0') ) repeat i32 options1 ,u64 uint8x , }
")).
Eval vm_compute in ("<<<M1913>>>" ++ check (runes_of_ascii "packet	packetx { // trailing space 
x_y_z
{
string
charz ,
string x// @lengthOf(
`two words`
    ,  u8x charz // `tick` ""quote"" 'q'
{ `100% of %d` // packet A { u8 x, }
,}// " ++ [27880; 37322]%N ++ runes_of_ascii "
,} , }
    // a // b
    packet metadata {  @leftPad ( '0') repeat i32 options1 ,u64 uint8x , }
")).
Eval vm_compute in ("<<<M1891>>>" ++ check (runes_of_ascii "packet	packetx { // trailing space 
x_y_z
{
string
charz ,
string // @lengthOf(
`two words`
    ,  u8x { // `tick` ""quote"" 'q'
charz `100% of %d` // packet A { u8 x, }
,}// " ++ [27880; 37322]%N ++ runes_of_ascii "
,} , }
    // a // b
    packet metadata {  @leftPad ( '0') repeat i32 options1 ,u64 uint8x , }
")).
Eval vm_compute in ("<<<M2019>>>" ++ check (runes_of_ascii "packet	packetx { // trailing space 
x_y_z
{
string
charz ,
string x// @lengthOf(
`two words`
    ,  u8x { // `tick` ""quote"" 'q'
charz `100% of %d` // packet A { u8 x, }
,}// " ++ [27880; 37322]%N ++ runes_of_ascii "
,} , }
    // a // b
    packet metadata {  @leftPad ( '0') repeat i32 options1 ,u64 i32 , }
")).
Eval vm_compute in ("<<<M3972>>>" ++ check (runes_of_ascii "// top
MetaData body {
    // c2
}

// c3
root packet chars {
    // c7
    @lengthOf(i64_)
    // c10
    chars,
    // c12
    i8i8 {
        // c14
        falsey @lengthOf(stringy) ``,
        // c20
    },
    // c22
    x @lengthOf(A) `tab	here`,
    // c28
}
// c29")).
Eval vm_compute in ("<<<M2135>>>" ++ check (runes_of_ascii "packet// packet A { u8 x, }
repeatCount	{// packet A { u8 x, }
@leftPad ( '\x00'
) repeat u8x MetaDataX `crlf
line`,
    repeat
    char[] MetaDataX
    ,
u64	uint8x uint8x@calculatedFrom(""a\""b""
// c
// packet A { u8 x, }
) `tab	here`
,//
}MetaData pack
    {
    }
")).
Eval vm_compute in ("<<<M1504>>>" ++ check (runes_of_ascii "packet calculatedFrom
{ @calculatedFrom( ""a\\"" ) zchar[ 4294967296 ]
calculatedFrom@lengthOf( pack )	`100% of %d` ,char[]body@calculatedFrom( ""// no comment"" ""// no comment"" )  ,
@tag( 007) //x
int8
leftPad`it's` , repeat pack
    { repeat char[ 3] body
,},
}")).
Eval vm_compute in ("<<<M2200>>>" ++ check (runes_of_ascii "packet// packet A { u8 x, }
repeatCount	{// packet A { u8 x, }
@leftPad ( '\x00'
) repeat u8x MetaDataX `crlf
line`,?
    repeat
    char[] MetaDataX
    ,
u64	uint8x@calculatedFrom(""a\""b""
// c
// packet A { u8 x, }
) `tab	here`
,//
}MetaData pack
    {
    }
")).
Eval vm_compute in ("<<<M2116>>>" ++ check (runes_of_ascii "packet// packet A { u8 x, }
repeatCount	{// packet A { u8 x, }
@leftPad ( '\x00'
) repeat u8x MetaDataX `crlf
line`,
    repeat
    MetaDataX char[]
    ,
u64	uint8x@calculatedFrom(""a\""b""
// c
// packet A { u8 x, }
) `tab	here`
,//
}MetaData pack
    {
    }
")).
Eval vm_compute in ("<<<M1464>>>" ++ check (runes_of_ascii "packet calculatedFrom
{ @calculatedFrom( ""a\\"" ) zchar[ 4294967296 ]
calculatedFrom@lengthOf( @lengthOf( pack )	`100% of %d` ,char[]body@calculatedFrom( ""// no comment"" )  ,
@tag( 007) //x
int8
leftPad`it's` , repeat pack
    { repeat char[ 3] body
,},
}")).
Eval vm_compute in ("<<<M2114>>>" ++ check (runes_of_ascii "packet// packet A { u8 x, }
repeatCount	{// packet A { u8 x, }
@leftPad ( '\x00'
) repeat u8x MetaDataX `crlf
line`,
    repeat
     MetaDataX
    ,
u64	uint8x@calculatedFrom(""a\""b""
// c
// packet A { u8 x, }
) `tab	here`
,//
}MetaData pack
    {
    }
")).
Eval vm_compute in ("<<<M1524>>>" ++ check (runes_of_ascii "packet calculatedFrom
{ @calculatedFrom( ""a\\"" ) zchar[ 4294967296 ]
calculatedFrom@lengthOf( pack )	`100% of %d` ,char[]body@calculatedFrom( ""// no comment"" )  ,
@tag( 007 007) //x
int8
leftPad`it's` , repeat pack
    { repeat char[ 3] body
,},
}")).
Eval vm_compute in ("<<<M1596>>>" ++ check (runes_of_ascii "packet calculatedFrom
{ @calculatedFrom( ""a\\"" ) zchar[ 4294967296 ]
calculatedFrom@lengthOf( pack )	`100% of %d` ,char[]body@calculatedFrom( ""// no comment"" )  ,
@tag( 007) //x
int8
leftPad`it's` , repeat pack
    { repeat char[ 3] body
' '},
}")).
Eval vm_compute in ("<<<M4284>>>" ++ check (runes_of_ascii "MetaData

string_
    {char[ 255
	] msg_type	`crlf
line` ,

}	packet As{
	a1

`u8 x,`
    ,
i8i8
    , 
@tag(
00)

    char[ // c
  0
    ]
stringy

,
    }// @lengthOf(
options
{
    lengthOf 
//
	//	t
      =
int64
} MetaData	u128

{  }

")).
Eval vm_compute in ("<<<M1550>>>" ++ check (runes_of_ascii "packet calculatedFrom
{ @calculatedFrom( ""a\\"" ) zchar[ 4294967296 ]
calculatedFrom@lengthOf( pack )	`100% of %d` ,char[]body@calculatedFrom( ""// no comment"" )  ,
@tag( 007) //x
int8
leftPad`it's` repeat , pack
    { repeat char[ 3] body
,},
}")).
Eval vm_compute in ("<<<M1608>>>" ++ check (runes_of_ascii "packet calculatedFrom
{ @calculatedFrom( ""a\\"" ) zchar[ 4294967296 ]
calculatedFrom@lengthOf( pack )	`100% of %d` ,char[]body@calculatedFrom( ""// no comment"" )  ,
@tag( 007) //x
int8
leftPad`it's` , repeat pack
    { repeat char[ 3] body
,},
")).
Eval vm_compute in ("<<<M1546>>>" ++ check (runes_of_ascii "packet calculatedFrom
{ @calculatedFrom( ""a\\"" ) zchar[ 4294967296 ]
calculatedFrom@lengthOf( pack )	`100% of %d` ,char[]body@calculatedFrom( ""// no comment"" )  ,
@tag( 007) //x
int8
leftPad{ , repeat pack
    { repeat char[ 3] body
,},
}")).
Eval vm_compute in ("<<<M1501>>>" ++ check (runes_of_ascii "packet calculatedFrom
{ @calculatedFrom( ""a\\"" ) zchar[ 4294967296 ]
calculatedFrom@lengthOf( pack )	`100% of %d` ,char[]body f32 ""// no comment"" )  ,
@tag( 007) //x
int8
leftPad`it's` , repeat pack
    { repeat char[ 3] body
,},
}")).
Eval vm_compute in ("<<<M1403>>>" ++ check (runes_of_ascii "MetaData MetaDataX {string_
    body`crlf
line`,uint8//x
int , zchar[
    // `tick` ""quote"" 'q'
    3
// `tick` ""quote"" 'q'
//	t
] body ,
    } MetaData
    x_y_z //	t
{
lengthOf rootA`" ++ [28040; 24687; 31867; 22411]%N ++ runes_of_ascii "`
,
    zchar[ 4294967296 ]_x ,	}
")).
Eval vm_compute in ("<<<M2030>>>" ++ check (runes_of_ascii "packet	packetx { // trailing space 
x_y_z
{
string
charz ,
string x// @lengthOf(
`two words`
    ,  u8x { // `tick` ""quote"" 'q'
charz `100% of %d` // packet A { u8 x, }
,}// " ++ [27880; 37322]%N ++ runes_of_ascii "
,} , }
    // a // b
    packet m")).
Eval vm_compute in ("<<<M3825>>>" ++ check (runes_of_ascii "packet repeatCount {
    // packet A { u8 x, }
    @leftPad('\x00')
    u8x MetaDataX `crlf
    line`,
    repeat char[] MetaDataX,
    u64 uint8x @calculatedFrom(""a\""b"") `tab	here`,//
}

MetaData pack {
}")).
Eval vm_compute in ("<<<M977>>>" ++ check (runes_of_ascii "root
    packet
MetaDataX	{ @lengthOf( falsey)repeat
    asx //x
,  matchKey `` , //x
repeat float64 BodyLength `` ,	string packetx , repeat	uint16 // " ++ [27880; 37322]%N ++ runes_of_ascii "
matchKey	,
    zchar[ 42
    ] crc ,	}
")).
Eval vm_compute in ("<<<M3485>>>" ++ check (runes_of_ascii "// top
root
    // c0
packet // c1
P
    // c2
{ u8 // c4
s_u8 // c5
, // c6a
  // c6b
repeat
    // c7
u8 // c8a
  // c8b
r_u8 // c9
, // c10a
  // c10b
u16 // c11
b_len , // c13
} // c14
")).
Eval vm_compute in ("<<<M759>>>" ++ check (runes_of_ascii "
MetaData
/// triple
//
falsey {
u64// c
stringy ,  asx
    T
, u16 f32a
// " ++ [27880; 37322]%N ++ runes_of_ascii "
// " ++ [128512]%N ++ runes_of_ascii " emoji
, BodyLength tag`line1
line2` ,
    u T , // 50% %s
int64
    repeatCount ,// @lengthOf(
}
")).
Eval vm_compute in ("<<<M4342>>>" ++ check (runes_of_ascii "packet
	msg_type
    {

    a1	@lengthOf( body

    )	`crlf
line`
,zchar[ 
7
    ] BodyLength
// 50% %s
	// @lengthOf(
	  @lengthOf(
Logon
	) , 
i16 
charz//	t
  ,
}
")).
Eval vm_compute in ("<<<M3775>>>" ++ check (runes_of_ascii "options {
    // trailing space 
    // `tick` ""quote"" 'q'
    u128 = false;
    Pad = false;
    BodyLength = char[]
    body = true
    u = ' '
}// packet A { u8 x, }")).
Eval vm_compute in ("<<<M1522>>>" ++ check (runes_of_ascii "packet calculatedFrom
{ @calculatedFrom( ""a\\"" ) zchar[ 4294967296 ]
calculatedFrom@lengthOf( pack )	`100% of %d` ,char[]body@calculatedFrom( ""// no comment"" )  ,")).
Eval vm_compute in ("<<<M1675>>>" ++ check (runes_of_ascii "options { } packet Packet{char[] i64_ string_
@tag(
    255) match
crc as i8i8{""{,}"" : trueish """" : Pad , ""a\\"" :
Foo ,
    1 :packetx
, """ ++ [128512]%N ++ runes_of_ascii """ : trueish , } , }")).
Eval vm_compute in ("<<<M2415>>>" ++ check (runes_of_ascii "
packet MetaDataX
{
    @leftPad
( // a // b
'0'
) i8 u @lengthOf(
MetaDataX
    ) `say ""hi""` ,	} MetaData BodyLength {
    asx
x_y_z `" ++ [233]%N ++ runes_of_ascii "`
, uint64 u128 , , }
")).
Eval vm_compute in ("<<<M1780>>>" ++ check (runes_of_ascii "options { } packet Packet{char[] i64_ ,
@tag(
    255) match
crc as i8i8{""{,}"" : trueish """" : Pad , ""a\\"" :
Foo ,
    1 f32 packetx
, """ ++ [128512]%N ++ runes_of_ascii """ : trueish , } , }")).
Eval vm_compute in ("<<<M1730>>>" ++ check (runes_of_ascii "options { } packet Packet{char[] i64_ ,
@tag(
    255) match
crc as i8i8{""{,}"" : @rightPad """" : Pad , ""a\\"" :
Foo ,
    1 :packetx
, """ ++ [128512]%N ++ runes_of_ascii """ : trueish , } , }")).
Eval vm_compute in ("<<<M406>>>" ++ check (runes_of_ascii "MetaData metadata {f32 crc `" ++ [233]%N ++ runes_of_ascii "`
, f64 Pad ,
    //	t
    zchar asx
,
    }
root packet
uint8x { }packet
Logon { // trailing space 
} packet float {
    }
")).
Eval vm_compute in ("<<<M1674>>>" ++ check (runes_of_ascii "options { } packet Packet{char[] i64_ @tag(
,
    255) match
crc as i8i8{""{,}"" : trueish """" : Pad , ""a\\"" :
Foo ,
    1 :packetx
, """ ++ [128512]%N ++ runes_of_ascii """ : trueish , } , }")).
Eval vm_compute in ("<<<M1824>>>" ++ check (runes_of_ascii "options { } packet Packet{char[] i64_ ,
@tag(
    255) match
crc as i8i8{""{,}"" : trueish """" : Pad , ""a\\"" :
Foo ,
    1 :packetx
, """ ++ [128512]%N ++ runes_of_ascii """ : trueish , } , ;")).
Eval vm_compute in ("<<<M2350>>>" ++ check (runes_of_ascii "
packet char[
{
    @leftPad
( // a // b
'0'
) i8 u @lengthOf(
MetaDataX
    ) `say ""hi""` ,	} MetaData BodyLength {
    asx
x_y_z `" ++ [233]%N ++ runes_of_ascii "`
, uint64 u128 , }
")).
Eval vm_compute in ("<<<M1697>>>" ++ check (runes_of_ascii "options { } packet Packet{char[] i64_ ,
@tag(
    255) match
 as i8i8{""{,}"" : trueish """" : Pad , ""a\\"" :
Foo ,
    1 :packetx
, """ ++ [128512]%N ++ runes_of_ascii """ : trueish , } , }")).
Eval vm_compute in ("<<<M250>>>" ++ check (runes_of_ascii "packet
    BodyLength{zchar[
007 ] rootA ``,repeat string // " ++ [128512]%N ++ runes_of_ascii " emoji
u128 `say ""hi""` , As {
    int32
    //x
    options1 @lengthOf(Logon) ,
} , }")).
Eval vm_compute in ("<<<M1211>>>" ++ check (runes_of_ascii "options
    // a // b
    {
string_='0' ; Foo// @lengthOf(
=true
lengthOf = """" ;	string_ =u16 } options { body
    =' '	} options { chars =	42 }")).
Eval vm_compute in ("<<<M373>>>" ++ check (runes_of_ascii "MetaData // " ++ [27880; 37322]%N ++ runes_of_ascii "
u8x { trueish
int ,} MetaData o { char[ 1	]	trueish ,zchar[ 255
    ]
    Pad ,	int16 MetaDataX  ,
    } packet packetx{	}

")).
Eval vm_compute in ("<<<M4537>>>" ++ check (runes_of_ascii "
// c
  MetaData
float
    {
uint8	BodyLength  ,}
	MetaData 
charz {
float32
    trueish `a\` 
, i16 metadata

    `say ""hi""`
,}
")).
Eval vm_compute in ("<<<M1079>>>" ++ check (runes_of_ascii "options{// 50% %s
roots =3 _x
=
    false
    len  = """ ++ [28040; 24687]%N ++ runes_of_ascii """
// " ++ [27880; 37322]%N ++ runes_of_ascii "
// " ++ [128512]%N ++ runes_of_ascii " emoji
rootA  =
    true  ; } MetaData chars { }
    options {}")).
Eval vm_compute in ("<<<M3075>>>" ++ check (runes_of_ascii "packet A {
    Inner {
        u8 x `100% of %s %d %v`,
        Deep {
            u8 y `100% of %s %d %v`,
        },
    },
}")).
Eval vm_compute in ("<<<M3276>>>" ++ check (runes_of_ascii "MetaData metadata { } MetaData rootA { i8 // c
i64_ , roots options1 `a\` , lengthOf Header , Z9_ Foo , int16 BodyLength , }")).
Eval vm_compute in ("<<<M3822>>>" ++ check (runes_of_ascii "options {
    FixedStringPadFromLeft = true;
}// c6a

// c6b
root packet P {
    // c10a
    // c10b
    char[4] z,
}
// c16")).
Eval vm_compute in ("<<<M276>>>" ++ check (runes_of_ascii "options
{x =
    true ;rootA
// " ++ [128512]%N ++ runes_of_ascii " emoji
//x
=float32;
    } // @lengthOf(
MetaData
    u8x	{ } // packet A { u8 x, }")).
Eval vm_compute in ("<<<M1487>>>" ++ check (runes_of_ascii "packet calculatedFrom
{ @calculatedFrom( ""a\\"" ) zchar[ 4294967296 ]
calculatedFrom@lengthOf( pack )	`100% of %d`")).
Eval vm_compute in ("<<<M3032>>>" ++ check (runes_of_ascii "packet A {
    u16 len @lengthOf(body) `a
b`,
    u32 crc @calculatedFrom(""CRC32"") `a
b`,
    string body,
}")).
Eval vm_compute in ("<<<M3347>>>" ++ check (runes_of_ascii "MetaData float { uint8 BodyLength , } MetaData charz { float32 trueish `a\` , i16
// c
metadata `say ""hi""` , }")).
Eval vm_compute in ("<<<M2235>>>" ++ check (runes_of_ascii "MetaData _x {string x `// not a comment` `// not a comment` , string
i64_ // trailing space 
`a\` ,
    }
")).
Eval vm_compute in ("<<<M2103>>>" ++ check (runes_of_ascii "packet// packet A { u8 x, }
repeatCount	{// packet A { u8 x, }
@leftPad ( '\x00'
) repeat u8x MetaDataX")).
Eval vm_compute in ("<<<M2975>>>" ++ check (runes_of_ascii "packet A {
  match k as n {
    [""a"", ""bb"", ""c c"", ""d"", ""e"", ""f"", ""g"", ""h"", ""i""] : B
    2 : C
  },
}")).
Eval vm_compute in ("<<<M1014>>>" ++ check (runes_of_ascii "
packet i64_{
    // packet A { u8 x, }
    } MetaData
zchar
    { _x msg_type
, // @lengthOf(
}")).
Eval vm_compute in ("<<<M1905>>>" ++ check (runes_of_ascii "packet	packetx { // trailing space 
x_y_z
{
string
charz ,
string x// @lengthOf(
`two words`")).
Eval vm_compute in ("<<<M2287>>>" ++ check (runes_of_ascii "MetaData _x {string caf" ++ [233]%N ++ runes_of_ascii "_1 `// not a comment` , string
i64_ // trailing space 
`a\` ,
    }
")).
Eval vm_compute in ("<<<M1736>>>" ++ check (runes_of_ascii "options { } packet Packet{char[] i64_ ,
@tag(
    255) match
crc as i8i8{""{,}"" : trueish")).
Eval vm_compute in ("<<<M2283>>>" ++ check (runes_of_ascii "MetaData _x {string x `// not a comment` , string
i64_ // trailing space 
`a\` ,
  ?  }
")).
Eval vm_compute in ("<<<M2986>>>" ++ check (runes_of_ascii "packet A {
  match k as n {
    [1, 22, 007, 4, 5, 66, 7, 8, 9, 10] : B
    2 : C
  },
}")).
Eval vm_compute in ("<<<M58>>>" ++ check (runes_of_ascii "
packet falsey { @lengthOf(
MetaDataX ) @tag( 65535) repeat _x
    { Logon ,	}
, }
")).
Eval vm_compute in ("<<<M694>>>" ++ check (runes_of_ascii "MetaData x
    { u16
Header`` , char[]charz , float32 o, matchKey f32a
`{ , }` ,}")).
Eval vm_compute in ("<<<M2955>>>" ++ check (runes_of_ascii "packet A {
  match k as n {
    [1, 22, ""c c"", 4, 5, ""f"", 7] : B
    2 : C
  },
}")).
Eval vm_compute in ("<<<M1322>>>" ++ check (runes_of_ascii "  options { Foo	= u64
A = """"
; packetx
=
    ""`tick`"" float = ' '
} /// triple")).
Eval vm_compute in ("<<<M3392>>>" ++ check (runes_of_ascii "MetaData _x { f64 charz `tab	here` , } options { BodyLength = """ ++ [233]%N ++ runes_of_ascii "t" ++ [233]%N ++ runes_of_ascii """ ; } // c
")).
Eval vm_compute in ("<<<M3380>>>" ++ check (runes_of_ascii "MetaData _x { f64 charz `tab	here` , } options // c
{ BodyLength = """ ++ [233]%N ++ runes_of_ascii "t" ++ [233]%N ++ runes_of_ascii """ ; }")).
Eval vm_compute in ("<<<M2928>>>" ++ check (runes_of_ascii "packet A {
  match k as n {
    [1, 22, ""c c"", 4, 5] : B,
    2 : C
  },
}")).
Eval vm_compute in ("<<<M2915>>>" ++ check (runes_of_ascii "packet A {
  match k as n {
    [1, 22, ""c c"", 4] : B,
    2 : C
  },
}")).
Eval vm_compute in ("<<<M2810>>>" ++ check (runes_of_ascii "zchar[ i64 } match uint64 f64 { u8 @leftPad root @rightPad ] options")).
Eval vm_compute in ("<<<M3616>>>" ++ check (runes_of_ascii "  packet 
A 
{match
k	as n{
[
""a""	, ""bb""] : B,

    2: C

},  } ")).
Eval vm_compute in ("<<<M3031>>>" ++ check (runes_of_ascii "packet A {
    B b `a
b`,
    B `a
b`,
    repeat B bs `a
b`,
}")).
Eval vm_compute in ("<<<M815>>>" ++ check (runes_of_ascii "root// `tick` ""quote"" 'q'
packet Z9_
{	repeat
    Foo
A `
`	,}")).
Eval vm_compute in ("<<<M360>>>" ++ check (runes_of_ascii "packet //	t
i64_ {
    @tag( 0123456789	) repeat zchar ,
}")).
Eval vm_compute in ("<<<M2850>>>" ++ check (runes_of_ascii "char[] ""a	b"" @lengthOf( u64 ' ' ; ; ""1"" int16 @leftPad u64")).
Eval vm_compute in ("<<<M412>>>" ++ check (runes_of_ascii "  packet u128 {
zchar[
10 ] Z9_
    // " ++ [128512]%N ++ runes_of_ascii " emoji
    , }
")).
Eval vm_compute in ("<<<M2325>>>" ++ check (runes_of_ascii "
MetaData Pad{
u32 rootA `line1
line2` ,
    repeat
")).
Eval vm_compute in ("<<<M3985>>>" ++ check (runes_of_ascii "MetaData T {
    zchar[0] u,
    int16 float,
}// c")).
Eval vm_compute in ("<<<M2343>>>" ++ check (runes_of_ascii "
MetaDat?a Pad{
u32 rootA `line1
line2` ,
    }
")).
Eval vm_compute in ("<<<M720>>>" ++ check (runes_of_ascii "MetaData metadata { char[ 007	]u128
`it's` , }
")).
Eval vm_compute in ("<<<M2401>>>" ++ check (runes_of_ascii "
packet MetaDataX
{
    @leftPad
( // a // b")).
Eval vm_compute in ("<<<M2730>>>" ++ check (runes_of_ascii "@lengthOf( 65535 i8i8 match ""CRC32"" ( { i16")).
Eval vm_compute in ("<<<M3194>>>" ++ check (runes_of_ascii "packet A {
    u8 x,    // c    u8 y,
}")).
Eval vm_compute in ("<<<M3248>>>" ++ check (runes_of_ascii "MetaData zchar { zchar[ 3 ] Pad ,
// c
}")).
Eval vm_compute in ("<<<M829>>>" ++ check (runes_of_ascii "MetaData o {	char[]	trueish
    ,
}
")).
Eval vm_compute in ("<<<M3209>>>" ++ check (runes_of_ascii "options { a = 1; // a
 b = 2 // b
 }")).
Eval vm_compute in ("<<<M2611>>>" ++ check (runes_of_ascii "packet A { x @calculatedFrom(c), }")).
Eval vm_compute in ("<<<M3609>>>" ++ check (runes_of_ascii "

  // c 	
		packet  A
	{
    }
")).
Eval vm_compute in ("<<<M3858>>>" ++ check (runes_of_ascii "

  options {
zchar=
	int16	}
")).
Eval vm_compute in ("<<<M2813>>>" ++ check (runes_of_ascii "rMUk*A>l`;2<.8)t3:<`;p_.3=FP+")).
Eval vm_compute in ("<<<M2777>>>" ++ check (runes_of_ascii "ZpPv$s#MrAf![OE.=2y';iR )8<")).
Eval vm_compute in ("<<<M146>>>" ++ check (runes_of_ascii "root packet  len { }
//x
")).
Eval vm_compute in ("<<<M2725>>>" ++ check (runes_of_ascii "ANbn)|=FCixSWaV'0rWXX#|z")).
Eval vm_compute in ("<<<M51>>>" ++ check (runes_of_ascii "// " ++ [128512]%N ++ runes_of_ascii " emoji
 // 50% %s")).
Eval vm_compute in ("<<<M4426>>>" ++ check (runes_of_ascii "// trailing space 
")).
Eval vm_compute in ("<<<M220>>>" ++ check (runes_of_ascii "packet As {
    }
")).
Eval vm_compute in ("<<<M3164>>>" ++ check (runes_of_ascii "packet A {
}
// c" ++ [12]%N)).
Eval vm_compute in ("<<<M2809>>>" ++ check (runes_of_ascii "tK@iBN>|GC|wnb}Pz")).
Eval vm_compute in ("<<<M2680>>>" ++ check (runes_of_ascii "options { = 1; }")).
Eval vm_compute in ("<<<M2650>>>" ++ check (runes_of_ascii "packet A { } ;")).
Eval vm_compute in ("<<<M87>>>" ++ check (runes_of_ascii "
// a // b
")).
Eval vm_compute in ("<<<M2501>>>" ++ check (runes_of_ascii "@leftPad(")).
Eval vm_compute in ("<<<M2478>>>" ++ check (runes_of_ascii "strings")).
Eval vm_compute in ("<<<M3188>>>" ++ check (runes_of_ascii "// c x")).
Eval vm_compute in ("<<<M3128>>>" ++ check (runes_of_ascii "// c" ++ [8192]%N)).
Eval vm_compute in ("<<<M2562>>>" ++ check (runes_of_ascii "[[]]")).
Eval vm_compute in ("<<<M2553>>>" ++ check (runes_of_ascii "a_b")).
Eval vm_compute in ("<<<M2703>>>" ++ check (runes_of_ascii "		")).
