From FP Require Import Lexer Parser ShowPT Digest Formatter.
From Coq Require Import String List NArith.
Import ListNotations.
Open Scope string_scope.
Set Printing Width 100000000.
Set Printing Depth 100000000.
Definition show_fres (r : fres) : string :=
  match r with
  | FOk s => "OK:" ++ sh_escaped s ""
  | FErr s => "ERR:" ++ sh_escaped s ""
  | FPanic p => "PANIC:" ++ p
  end.
Definition check (rs : list rune) : string := digest (show_fres (format_res rs)).
Definition full (rs : list rune) : string := show_fres (format_res rs).
Eval vm_compute in ("<<<M8>>>" ++ check (runes_of_ascii "MetaData string_{
} packet
    Packet
// c
// c
{
    // @lengthOf(
    zchar[ 65535 ]	metadata  ,} MetaData  body { u
    packetx ,
char[] roots `" ++ [233]%N ++ runes_of_ascii "`,
i32 Header , uint32
    packetx /// triple
,	} packet Foo  { @rightPad ()
match crc
    as u128{ // c
""it's"":	As , 0
    :x_y_z , """"
:
msg_type } // @lengthOf(
, match pack
as	x_y_z {255: msg_type , } , i8 A , int8 BodyLength
@lengthOf( tag ) , @calculatedFrom( ""CRC32""
) match int as Header {
4294967296	: x_y_z ,
    // @lengthOf(
    }	, match
chars	as // a // b
calculatedFrom {  [0 ,
0
, // c
1 , 0123456789 , 00 // c
, ""a\""b""	,// `tick` ""quote"" 'q'
4294967296 ]:
stringy
    ,""`tick`"" : T }, @tag( 0 )@tag(
    1 )
@lengthOf(u8x ) u8x {  body
    , repeat// trailing space 
calculatedFrom x_y_z `two words` ,  } , match  falsey
as leftPad {	007	:  A, [""" ++ [28040; 24687]%N ++ runes_of_ascii """ ] : tag ,
1:
    //
    Pad ,}
    , // c
float64
repeatCount , @tag(10 ) match stringy
    as
Logon {7:
Pad, }	, }
    packet Packet {
@calculatedFrom( ""\n"" ) @calculatedFrom( ""`tick`"" ) matchKey
, @lengthOf( zchar )
roots	{repeat i16 Z9_, match
    repeatCount as
stringy { [ ""x y""
    ]:packetx	, [""" ++ [128512]%N ++ runes_of_ascii """ , ""x y""	, ""\n"" ] : crc , },}
// `tick` ""quote"" 'q'
//x
, // packet A { u8 x, }
match // trailing space 
tag as
a1 // " ++ [128512]%N ++ runes_of_ascii " emoji
{ ""abc"": packetx 1
: u8x 1 : body
007 : leftPad
0123456789
    :Header} ,
i16 x_y_z
    ,@calculatedFrom( ""{,}""
    )o `it's` , string_@calculatedFrom( ""it's"" ) `crlf
line` , match i8i8 as lengthOf
    { [ 1 , ""a\\"" ,
    42 ,""""  ,
""a\\"" ]
    // " ++ [128512]%N ++ runes_of_ascii " emoji
    : o , 10
    :
Foo //x
[7 ]:// trailing space 
lengthOf , } ,repeat
    A { repeat T { char[
    007
    //x
    ] i64_ @lengthOf( Packet
    // a // b
    ) ,
    match T as repeatCount // " ++ [27880; 37322]%N ++ runes_of_ascii "
{  ""x y"" :
As
,
    } , repeat metadata, msg_type
{
float64//
float , i8 o`u8 x,` // " ++ [27880; 37322]%N ++ runes_of_ascii "
,char[
0 ]	A @calculatedFrom(
""1""
    )
    `two words` //	t
, i8 body
    @lengthOf( Packet), } ,//
} ,rootA{
f32a
@lengthOf( pack
    ), }, repeat char[] u , }
, }
")).
Eval vm_compute in ("<<<M379>>>" ++ check (runes_of_ascii "options {
	StringPrefixLenType = u16;
	ArrayPrefixLenType = u16;
}

packet SampleBinary {
    uint16 MsgType `" ++ [28040; 24687; 31867; 22411]%N ++ runes_of_ascii "`,
    u16 BodyLenght @lengthOf(Body) `" ++ [28040; 24687; 20307; 38271; 24230]%N ++ runes_of_ascii "`,
    match MsgType as Body {
        1 : Logon,
        2 : Logout,
        3 : Heartbeat,
        4 : RiskControlRequest,
        5 : RiskControlResponse,
    },
        @calculatedFrom(""CRC32"")
    u32 Ckecksum `" ++ [26657; 39564; 21644]%N ++ runes_of_ascii "`,
}

packet Logon {
     @leftPad('0')
    char[10] UserName `" ++ [29992; 25143; 21517]%N ++ runes_of_ascii "`,
    string Password `" ++ [23494; 30721]%N ++ runes_of_ascii "`,
    uint64 ClientId `" ++ [23458; 25143; 31471]%N ++ runes_of_ascii "ID`,
    u16 HeartbeatInterval `" ++ [24515; 36339; 38388; 38548]%N ++ runes_of_ascii "`,
}

packet Logout {
      @rightPad('0')
    char[10] UserName `" ++ [29992; 25143; 21517]%N ++ runes_of_ascii "`,
    uint64 ClientId `" ++ [23458; 25143; 31471]%N ++ runes_of_ascii "ID`,
}

packet Heartbeat {
}

packet RiskControlRequest {
    string UniqueOrderId `" ++ [21807; 19968; 35746; 21333; 21495]%N ++ runes_of_ascii "`,
    char[16] ClOrdID `" ++ [23458; 25143; 35746; 21333; 21495]%N ++ runes_of_ascii "`,
    char[3] MarketID `" ++ [24066; 22330]%N ++ runes_of_ascii "id`,
    char[12] SecurityID `" ++ [35777; 21048; 20195; 30721]%N ++ runes_of_ascii "`,
    char Side `" ++ [20080; 21334; 26041; 21521]%N ++ runes_of_ascii "`,
    char OrderType `" ++ [35746; 21333; 31867; 22411]%N ++ runes_of_ascii "`,
    u64 Price `" ++ [20215; 26684]%N ++ runes_of_ascii "`,
    u32 Qty `" ++ [25968; 37327]%N ++ runes_of_ascii "`,
    repeat string ExtraInfo `" ++ [38468; 21152; 20449; 24687]%N ++ runes_of_ascii "`,
    repeat SubOrder {
    		char[16] ClOrdID `" ++ [23376; 35746; 21333; 21495]%N ++ runes_of_ascii "`,
    		u64 Price `" ++ [23376; 35746; 21333; 20215; 26684]%N ++ runes_of_ascii "`,
    		u32 Qty `" ++ [23376; 35746; 21333; 25968; 37327]%N ++ runes_of_ascii "`,
    	},
}

packet RiskControlResponse {
    string UniqueOrderId `" ++ [21807; 19968; 35746; 21333; 21495]%N ++ runes_of_ascii "`,
    i32 Status `" ++ [29366; 24577]%N ++ runes_of_ascii "`,
    string Msg `" ++ [32467; 26524; 20449; 24687]%N ++ runes_of_ascii "`,
    repeat Detail,
}

packet Detail {
    string RuleName `" ++ [35268; 21017; 21517; 31216]%N ++ runes_of_ascii "`,
    u16 Code `" ++ [21407; 22240; 20195; 30721]%N ++ runes_of_ascii "`,
}")).
Eval vm_compute in ("<<<M110>>>" ++ check (runes_of_ascii "//	t
packet// `tick` ""quote"" 'q'
crc {@tag( /// triple
10
) uint16/// triple
matchKey @calculatedFrom( ""\" ++ [233]%N ++ runes_of_ascii """ ) , @calculatedFrom(
""x y"" )
u16
    // a // b
    Packet  @calculatedFrom(""" ++ [233]%N ++ runes_of_ascii "t" ++ [233]%N ++ runes_of_ascii """) ,string Pad
    // @lengthOf(
    @lengthOf(  roots) ,//x
@tag( 42 ) repeat float{
    match
    // @lengthOf(
    roots
//	t
//
as Z9_
    { 42: packetx // c
, } // a // b
, Pad { pack , uint32 u, repeat Z9_ {
    packetx
float ,
    } , uint64 msg_type
    `it's` ,
} ,Header`" ++ [233]%N ++ runes_of_ascii "`
    , //	t
char[]stringy ,}	, match // packet A { u8 x, }
u as a1 //	t
{ [ 7
]// " ++ [27880; 37322]%N ++ runes_of_ascii "
:	zchar
    ,[255,""a\""b"",  0123456789 , 4294967296
    ,
1
,
    42, 0 ]
:Foo
    [  ""{,}"" ] : a1 , ""// no comment""
    :
A ,0
    : u8x, 255 : Packet
}	, repeat i64 chars ,
repeat char[ 0123456789 ]repeatCount
,
body  Foo, @calculatedFrom(
""\n""
    )char[]
int
    @lengthOf(	len
    )  , @tag( 3) char[]
A
`doc`
    ,
}
packet a1  { @rightPad( '0'  )
    // `tick` ""quote"" 'q'
    float // a // b
@lengthOf(
stringy
    ) `doc`
,} options
    {	As	= 7 crc = ""{,}""
    u =""it's"" zchar= '\x00'
}
")).
Eval vm_compute in ("<<<M1451>>>" ++ check (runes_of_ascii "  options

    {	StringPrefixLenType  = 
u32 
;
    ArrayPrefixLenType

    =
	u8

    ; 
FixedStringPadFromLeft = false

    ;	}  packet

    Logon
	{ i8 venue
,	int16

f1	,	zchar[  8]

Acct

,
repeat

    InNote16{ InQty73

{

float32 tag7,
    }

    ,f32 Acct
,

    zchar[

    5 ]

sym 
,}

    ,uint16

    Side2,

i32

lastPx  ,  }
    packet Fill

{repeat  InOrderid15 {

    zchar[8]	sym  , repeat
char[2 ]

    OrderId,repeat  Logon ,
	InQty82

{ char[]
Tail  , repeat Logon  ,  float64 
price  ,f64 Side2,	}
, char[  12
	] venue
, char[
    4

]	Px  ,
    }
	,@rightPad 
('0'
    )
    char[2	]

venue ,InPrice99{
InAcct72 {
u8
pad0 
, 
},  u32 OrderId
	, Logon

,

    }
,

    }root

packet Reject
{
    zchar[

9]
    msgKind ,
u32
venue ,	u16
seqNo  @lengthOf( 
Body )
,
match	venue
as Body{

57 :  Fill 
, 
8 :

    Logon ,} ,
u16
Tail @calculatedFrom(
""CRC32""
    ) , }
")).
Eval vm_compute in ("<<<M61>>>" ++ check (runes_of_ascii "  root packet pack {zchar[	255
    ] T`a\`
    , char[] Z9_ @lengthOf(
// c
//x
u8x  )
    `two words` , A
{ repeat  char[]
    x  ``,
// @lengthOf(
/// triple
repeat zchar[ //
007  ] i64_
    ,  } , uint8x @lengthOf(
    i64_
    )	``,
}
packet	calculatedFrom{ @leftPad ( )
u32	calculatedFrom``
,
@tag(0123456789 // " ++ [27880; 37322]%N ++ runes_of_ascii "
)@leftPad ( ) int8 _x
``
,
match rootA as  u { // c
10
: Z9_ , 0123456789: float
//
// c
0: float ,
[ ""it's""/// triple
]
:
packetx , } ,// `tick` ""quote"" 'q'
@lengthOf( string_ ) zchar[ 0123456789
    ] body @lengthOf(
repeatCount	) ,
    @calculatedFrom( ""\n"" ) match // `tick` ""quote"" 'q'
body as u8x{ ""a\""b""
    :T , [ ""\n"" ,// " ++ [27880; 37322]%N ++ runes_of_ascii "
""" ++ [233]%N ++ runes_of_ascii "t" ++ [233]%N ++ runes_of_ascii """, ""CRC32"", 255 ,7
, ""// no comment""
,
    """ ++ [28040; 24687]%N ++ runes_of_ascii """] : x , 255	: packetx } , @tag(65535 ) repeat
    // a // b
    Header
zchar , } MetaData Logon { }
")).
Eval vm_compute in ("<<<M1600>>>" ++ check (runes_of_ascii "
// top
packet 	 // c0
	  MDSnapshotZZ {  // c2a

// c2b
	u8

a
	    // c4

	,
}  // c6

packet  // c7a
  // c7b

OrderACK	// c8a

// c8b
    {	u16 b 
// c11
  ,  // c12a

// c12b
}	// c13
    	packet 
      // c14
	HTTPServerInfo 
{
	// c16
	string	s
	    // c18
  	,}
root// c21a
  // c21b
  packet  // c22
  FIXMsg// c23
  {	// c24
u8  // c25

  KType
    ,  MDSnapshotZZ
	,

    repeat	// c30a

// c30b
    OrderACK

// c31

  ,	// c32a
  // c32b
	match  
  // c33
  	KType 	 // c34a
// c34b
  as 
    // c35
	Body	// c36
	{1
    :  // c39

HTTPServerInfo 	 // c40
	, // c41
    2 // c42
	:	// c43
  OrderACK  // c44a
	// c44b
    ,  // c45

  } 	 // c46a
    	// c46b
  ,// c47a
	// c47b
    }	// c48a
    // c48b
 
")).
Eval vm_compute in ("<<<M193>>>" ++ check (runes_of_ascii "options {
// c
//x
u128 = true ; Header // trailing space 
= ""packet""
    stringy =""CRC32"" A =
    '0' ;} packet calculatedFrom  { repeat
u128
    Logon ,
// packet A { u8 x, }
// " ++ [128512]%N ++ runes_of_ascii " emoji
}
packet body { @calculatedFrom( ""\" ++ [233]%N ++ runes_of_ascii """
)
    metadata
`a\`  ,
// c
// c
stringy{
    //	t
    uint8 A `tab	here` , repeat
    u
    // `tick` ""quote"" 'q'
    As
, /// triple
zchar[
65535]x_y_z@lengthOf(
crc ) //
, }  , @calculatedFrom(
    ""{,}"" )len /// triple
@lengthOf(	roots ) ,char[  7 ]BodyLength`{ , }` ,
    // c
    int64
    _x , @calculatedFrom(""it's""// " ++ [27880; 37322]%N ++ runes_of_ascii "
) match
pack as As { ""CRC32"": o
    ,
    } , zchar[ 4294967296]i64_@calculatedFrom( ""// no comment"" ) ,
}
")).
Eval vm_compute in ("<<<M124>>>" ++ check (runes_of_ascii "packet
crc// @lengthOf(
{ @rightPad ( '0' ) char[7
    // c
    ]
matchKey  @calculatedFrom( ""{,}"") , } packet x_y_z  {  @calculatedFrom( ""a\""b"" )
T
{ Header
{
    // packet A { u8 x, }
    lengthOf
packetx
`// not a comment` ,A
    i8i8 `crlf
line` , string o `line1
line2` ,
string_ @lengthOf( tag ) `line1
line2` , },
    } ,
match
lengthOf as	Z9_ {
""\" ++ [233]%N ++ runes_of_ascii """
: A , }
, match rootA as
matchKey// `tick` ""quote"" 'q'
{	[""`tick`""// @lengthOf(
,""x y""
] :  Packet, }
, //x
repeat zchar[
    1 ]// a // b
_x
// " ++ [128512]%N ++ runes_of_ascii " emoji
/// triple
, char[]
    msg_type , A rootA , } //")).
Eval vm_compute in ("<<<M84>>>" ++ check (runes_of_ascii "MetaData
    /// triple
    Logon
{zchar[
    3 ] a1
    `" ++ [28040; 24687; 31867; 22411]%N ++ runes_of_ascii "`
    , char[ 007 ]
MetaDataX `a\` ,
}  root packet
    pack { }
packet
    // trailing space 
    i64_
{  @lengthOf(chars
)
    len	{ uint8 rootA`doc` ,
string_ `crlf
line` //x
, //	t
match charz as
Foo
{
    42 : options1 , [255
    ]:charz
    } , }, roots repeatCount
    `two words` /// triple
,
    //	t
    string Logon @calculatedFrom( ""a\""b"") , @calculatedFrom(// `tick` ""quote"" 'q'
""a\\""	) Z9_
    ,
} //x")).
Eval vm_compute in ("<<<M369>>>" ++ check (runes_of_ascii "
MetaData
// packet A { u8 x, }
// @lengthOf(
calculatedFrom {  zchar[
    3 ] u8x
, i32 o
,
    zchar[42
//x
// @lengthOf(
]
leftPad ,roots u
//x
//
, }
packet
    trueish{ @leftPad
    ( )asx
    //	t
    @lengthOf(
i8i8
) ,
    @rightPad ( '\x00' )tag
@lengthOf( Packet ) , Pad
    // `tick` ""quote"" 'q'
    options1 `doc` ,	@lengthOf(
Header) match Z9_
// c
/// triple
as zchar
{ 4294967296 : o ,
    } ,  } /// triple")).
Eval vm_compute in ("<<<M1202>>>" ++ check (runes_of_ascii "// top
packet
    // c0
u128 // c1
{ // c2
@lengthOf(
    // c3
body // c4a
  // c4b
) // c5
match // c6
x_y_z // c7
as
    // c8
u // c9
{ // c10a
  // c10b
""x y"" : // c12a
  // c12b
i8i8 , // c14a
  // c14b
} // c15a
  // c15b
,
    // c16
@tag(
    // c17
255 // c18
)
    // c19
char[] // c20
roots // c21a
  // c21b
@lengthOf( int
    // c23
)
    // c24
, // c25
} // c26
")).
Eval vm_compute in ("<<<M1911>>>" ++ check (runes_of_ascii "// top
MetaData x_y_z {
    // c2
    char body,// c5
    f64 i8i8 `two words`,// c9
    body body `" ++ [28040; 24687; 31867; 22411]%N ++ runes_of_ascii "`,// c13
}// c14

root packet chars {
    // c18
    @lengthOf(i64_)
    // c21
    chars,// c23
    i8i8 {
        // c25
        falsey @lengthOf(stringy) `doc`,// c31
    },// c33
    x @lengthOf(A) `crlf
    line`,// c39
}// c40")).
Eval vm_compute in ("<<<M314>>>" ++ check (runes_of_ascii "options
{roots =3 leftPad
/// triple
// c
= string	; packetx =	false ; zchar
= true options1 = false ;
    } MetaData
    string_ {i32 x_y_z
    ,char[ 4294967296
] zchar`two words`
, // c
char[ 42 ] metadata
, }packet _x {
    int8 rootA`doc` ,
    } options
{ lengthOf =
    ""// no comment"" } 	 ")).
Eval vm_compute in ("<<<M1407>>>" ++ check (runes_of_ascii "packet FooBar
    // c1
{
    // c2
u8 // c3
a
    // c4
, } // c6
packet // c7
foo_bar {
    // c9
u16 // c10a
  // c10b
b // c11a
  // c11b
, // c12a
  // c12b
} root // c14a
  // c14b
packet // c15
R
    // c16
{ FooBar // c18
, // c19
foo_bar , // c21
} // c22
")).
Eval vm_compute in ("<<<M297>>>" ++ check (runes_of_ascii "
packet As
{
} MetaData Logon { i16 falsey
`a\` // `tick` ""quote"" 'q'
, } MetaData T { f64 uint8x `u8 x,` , // " ++ [128512]%N ++ runes_of_ascii " emoji
char[	00 // @lengthOf(
] T , char[
    0
    ]
Pad
// c
// c
`crlf
line` , char[]
    f32a ,
char[] asx
    , } //	t")).
Eval vm_compute in ("<<<M432>>>" ++ check (runes_of_ascii "options
{
matchKey = 42/// triple
x='0' ;
// packet A { u8 x, }
//
charz charz
=
// packet A { u8 x, }
// trailing space 
true  ; } MetaData BodyLength
{
uint8
pack,zchar[ 1]float ,  float32 x_y_z `` ,u32
_x,i16 body  , }
")).
Eval vm_compute in ("<<<M392>>>" ++ check (runes_of_ascii "options
{ {
matchKey = 42/// triple
x='0' ;
// packet A { u8 x, }
//
charz
=
// packet A { u8 x, }
// trailing space 
true  ; } MetaData BodyLength
{
uint8
pack,zchar[ 1]float ,  float32 x_y_z `` ,u32
_x,i16 body  , }
")).
Eval vm_compute in ("<<<M498>>>" ++ check (runes_of_ascii "options
{
matchKey = 42/// triple
x='0' ;
// packet A { u8 x, }
//
charz
=
// packet A { u8 x, }
// trailing space 
true  ; } MetaData BodyLength
{
uint8
pack,zchar[ 1 float] ,  float32 x_y_z `` ,u32
_x,i16 body  , }
")).
Eval vm_compute in ("<<<M473>>>" ++ check (runes_of_ascii "options
{
matchKey = 42/// triple
x='0' ;
// packet A { u8 x, }
//
charz
=
// packet A { u8 x, }
// trailing space 
true  ; } MetaData BodyLength
{
pack
uint8,zchar[ 1]float ,  float32 x_y_z `` ,u32
_x,i16 body  , }
")).
Eval vm_compute in ("<<<M561>>>" ++ check (runes_of_ascii "options
{
matchKey = 42/// triple
x='0' ;
// packet A { u8 x, }
//
charz
=
// packet A { u8 x, }
// trailing space 
true  ; } MetaData BodyLength
{
uint8
pack,zchar[ 1]float ,  float32 x_y_z `` ,u32
_x,i16 body  , 
")).
Eval vm_compute in ("<<<M1879>>>" ++ check (runes_of_ascii "options {
    matchKey = 42/// triple
    x = '0';
    // packet A { u8 x, }
    //
    charz = true;
}

MetaData BodyLength {
    uint8 pack,
    zchar[1] float,
    float32 x_y_z ``,
    u32 _x,
    i16 body,
}")).
Eval vm_compute in ("<<<M155>>>" ++ check (runes_of_ascii "packet pack
    { @calculatedFrom(
""CRC32""
) i8i8 { MetaDataX @lengthOf( x
//x
// packet A { u8 x, }
), char As @lengthOf( len	) ,
// " ++ [128512]%N ++ runes_of_ascii " emoji
//x
chars metadata `say ""hi""` , char[ 0] int ,}, }
")).
Eval vm_compute in ("<<<M1942>>>" ++ check (runes_of_ascii "root packet stringy {
    charz T `u8 x,`,
    char tag,
    uint64 u128,
}

options {
    x = '0'// `tick` ""quote"" 'q'
    rootA = ""CRC32"";// " ++ [27880; 37322]%N ++ runes_of_ascii "
    i64_ = ""a\\"";
}

options {
}
// " ++ [27880; 37322]%N)).
Eval vm_compute in ("<<<M711>>>" ++ check (runes_of_ascii "// c
packet i64_ {	char[] calculatedFrom , } packet
trueish  {@calculatedFrom(
""a\\"" ) o { i32 falsey@lengthOf( uint8x ),
} , } // `tick` ""quote"" 'q'
options {// c
Z9_ = }//
' '
")).
Eval vm_compute in ("<<<M1752>>>" ++ check (runes_of_ascii "
packet
rootA// packet A { u8 x, }
    {tag`u8 x,`
	, char[]

    o ,
    i8i8 @lengthOf( 
    // @lengthOf(
stringy

    )

`// not a comment`
, 
	    // " ++ [128512]%N ++ runes_of_ascii " emoji
  }
")).
Eval vm_compute in ("<<<M1512>>>" ++ check (runes_of_ascii "

  packet 
A{ 
match	k as
n  {
    [1
	,""bb""	,007 
, 
""d""

,
    5

    ,
	""f"" ,

7
,""h""
,

    9  ,""j"", 11
,
""l""

]:
	B

    2:

C}
    ,

    }

")).
Eval vm_compute in ("<<<M1522>>>" ++ check (runes_of_ascii "MetaData
falsey {  i64	A	// " ++ [27880; 37322]%N ++ runes_of_ascii "
	,
string

    Header , zchar[ 10 ]

Foo `" ++ [28040; 24687; 31867; 22411]%N ++ runes_of_ascii "`
    // @lengthOf(
    ,packetx
body , 
f32a
MetaDataX
	`it's`,}")).
Eval vm_compute in ("<<<M627>>>" ++ check (runes_of_ascii "MetaData
    // trailing space 
    matchKey
{ u64 chars // a // b
,char[] lengthOf `// not a comment` `// not a comment`
    , //	t
}")).
Eval vm_compute in ("<<<M1673>>>" ++ check (runes_of_ascii "
packet
Logon { @tag( 42  )  @rightPad  (
' ' )

@leftPad

    ()

    repeat
    trueish {
string
    T  ,}
	,
// c
	}

")).
Eval vm_compute in ("<<<M450>>>" ++ check (runes_of_ascii "options
{
matchKey = 42/// triple
x='0' ;
// packet A { u8 x, }
//
charz
=
// packet A { u8 x, }
// trailing space 
true")).
Eval vm_compute in ("<<<M646>>>" ++ check (runes_of_ascii "MetaData
    // trailing space 
    matchKey
{ u64 ? chars // a // b
,char[] lengthOf `// not a comment`
    , //	t
}")).
Eval vm_compute in ("<<<M603>>>" ++ check (runes_of_ascii "MetaData
    // trailing space 
    matchKey
{ chars u64 // a // b
,char[] lengthOf `// not a comment`
    , //	t
}")).
Eval vm_compute in ("<<<M1599>>>" ++ check (runes_of_ascii "options {
    pack = 0
}

MetaData int {
    char[00] T `crlf
    line`,
    i8 string_,//	t
    int16 matchKey,
}")).
Eval vm_compute in ("<<<M639>>>" ++ check (runes_of_ascii "MetaData
    // trailing space 
    matchKey
{ u64 chars // a // b
,char[] lengthOf `// not a comment`
    ,")).
Eval vm_compute in ("<<<M907>>>" ++ check (runes_of_ascii "packet A {
  match k as n {
    [1, ""bb"", 007, ""d"", 5, ""f"", 7, ""h"", 9, ""j"", 11, ""l""] : B,
    2 : C
  },
}")).
Eval vm_compute in ("<<<M1260>>>" ++ check (runes_of_ascii "packet calculatedFrom { @tag(
// c
4294967296 ) u msg_type , char[ 3 ] crc @lengthOf( len ) `u8 x,` , }")).
Eval vm_compute in ("<<<M1840>>>" ++ check (runes_of_ascii "
options 
{
LittleEndian
    =
    true;} root
packet P { 
repeat

char cs

    , u8 x

,

    }
")).
Eval vm_compute in ("<<<M2020>>>" ++ check (runes_of_ascii "

  packet
A{  match 
k as
    n {  [ 1

, 
22 
,  007,

4	,

5] :
	B,
    2
    : C}
,

    } ")).
Eval vm_compute in ("<<<M1138>>>" ++ check (runes_of_ascii "packet Logon { @tag( 42 // c
) @rightPad ( ' ' ) @leftPad ( ) repeat trueish { string T , } , }")).
Eval vm_compute in ("<<<M1170>>>" ++ check (runes_of_ascii "packet Logon { @tag( 42 ) @rightPad ( ' ' ) @leftPad ( ) repeat trueish { string T , } , // c
}")).
Eval vm_compute in ("<<<M1836>>>" ++ check (runes_of_ascii "packet As {
    int16 A,
}

packet u {
    @lengthOf(Pad)
    f64 metadata @lengthOf(a1),
}")).
Eval vm_compute in ("<<<M935>>>" ++ check (runes_of_ascii "packet A {
    B b `a
    b
  c`,
    B `a
    b
  c`,
    repeat B bs `a
    b
  c`,
}")).
Eval vm_compute in ("<<<M1500>>>" ++ check (runes_of_ascii "packet A {
    match k as n {
        // b
        1 : B,
        // f
    },// h
}")).
Eval vm_compute in ("<<<M1221>>>" ++ check (runes_of_ascii "packet o { @tag( 42 ) repeat
// c
x { char[ 0123456789 ] i64_ , } , } options { }")).
Eval vm_compute in ("<<<M68>>>" ++ check (runes_of_ascii "options { stringy=""x y""  ;
chars
=true Logon = string crc = true Logon
= char }")).
Eval vm_compute in ("<<<M819>>>" ++ check (runes_of_ascii "packet A {
  match k as n {
    [""a"", 22, ""c c"", 4, ""e""] : B
    2 : C
  },
}")).
Eval vm_compute in ("<<<M41>>>" ++ check (runes_of_ascii "MetaData// " ++ [128512]%N ++ runes_of_ascii " emoji
charz
{zchar[
    42] packetx
    `crlf
line` , } 	 ")).
Eval vm_compute in ("<<<M620>>>" ++ check (runes_of_ascii "MetaData
    // trailing space 
    matchKey
{ u64 chars // a // b
,")).
Eval vm_compute in ("<<<M294>>>" ++ check (runes_of_ascii "
packet
    //x
    MetaDataX { repeat rootA `two words` //x
,//
}")).
Eval vm_compute in ("<<<M252>>>" ++ check (runes_of_ascii "packet
f32a { //
@tag( 1 )  Z9_ chars ,chars// " ++ [128512]%N ++ runes_of_ascii " emoji
`
`, }
")).
Eval vm_compute in ("<<<M1344>>>" ++ check (runes_of_ascii "root packet P {
    hdr {
        u8 a,
    },
    u8 x,
}
")).
Eval vm_compute in ("<<<M1092>>>" ++ check (runes_of_ascii "packet A { repeat // a
 B // b
 b // c
 `d` // e
 , }")).
Eval vm_compute in ("<<<M956>>>" ++ check (runes_of_ascii "MetaData M {
    u8 x `
x`,
    T t `
x`,
}")).
Eval vm_compute in ("<<<M1113>>>" ++ check (runes_of_ascii "MetaData zchar { zchar[ 3
// c
] Pad , }")).
Eval vm_compute in ("<<<M1080>>>" ++ check (runes_of_ascii "options { a = 1; // a
 b = 2 // b
 }")).
Eval vm_compute in ("<<<M1756>>>" ++ check (runes_of_ascii "packet
A 
{
u8 x	`tab
	x`
, 
}")).
Eval vm_compute in ("<<<M1032>>>" ++ check (runes_of_ascii "packet A {
 u8 x `d" ++ [11]%N ++ runes_of_ascii "`, // c" ++ [11]%N ++ runes_of_ascii "
}")).
Eval vm_compute in ("<<<M1733>>>" ++ check (runes_of_ascii "

  packet
A { }  // c" ++ [8232]%N ++ runes_of_ascii "
")).
Eval vm_compute in ("<<<M1301>>>" ++ check (runes_of_ascii "packet lengthOf {
// c
}")).
Eval vm_compute in ("<<<M1041>>>" ++ check (runes_of_ascii "// c 	
packet A {
}")).
Eval vm_compute in ("<<<M1031>>>" ++ check (runes_of_ascii "// c" ++ [11]%N ++ runes_of_ascii "
packet A {
}")).
Eval vm_compute in ("<<<M1043>>>" ++ check (runes_of_ascii "packet A {
}// c" ++ [8203]%N)).
Eval vm_compute in ("<<<M595>>>" ++ check (runes_of_ascii "MetaData")).
Eval vm_compute in ("<<<M732>>>" ++ check (runes_of_ascii "


")).
