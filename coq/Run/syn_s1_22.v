From FP Require Import Lexer Parser ShowPT Digest.
From Coq Require Import String List NArith.
Import ListNotations.
Open Scope string_scope.
Set Printing Width 100000000.
Set Printing Depth 100000000.
Definition nl : string := String (Ascii.ascii_of_nat 10) EmptyString.
Definition model_lex (rs : list rune) : string := show_toks (lex rs).
Definition model_parse (rs : list rune) : string :=
  show_pt (match lex rs with Some ts => parse ts | None => None end).
(* coqc is slow at printing long strings: digests first (Digest.v), full texts on demand *)
Definition check (rs : list rune) : string :=
  digest (model_lex rs) ++ " " ++ digest (model_parse rs).
Definition full (rs : list rune) : string := model_lex rs ++ nl ++ model_parse rs.
Definition terms (ts : list tok) (t : pt) : string :=
  digest (show_toks (Some ts)) ++ " " ++ digest (show_pt (Some t)) ++ " " ++ digest (show_pt (parse ts)).
Definition terms_full (ts : list tok) (t : pt) : string :=
  show_toks (Some ts) ++ nl ++ show_pt (Some t) ++ nl ++ show_pt (parse ts).
Eval vm_compute in ("<<<M22>>>" ++ check (runes_of_ascii "
MetaData string_ { uint32 f32a `crlf
line` ,
    zchar[ 0123456789
    ]string_ `100% of %d`,stringy// `tick` ""quote"" 'q'
u	`it's` ,char
    Z9_
, a1
f32a // c
,	char[ 1 ] a1
,
    }
")).
Eval vm_compute in ("<<<M54>>>" ++ check (runes_of_ascii "options { /// triple
BodyLength =
// a // b
// c
""`tick`"" ;  }
packet Header
{// c
u8x { T
    {i64_ ,
} ,match tag as//
u128 // a // b
{
00	: crc ,""\n""	:metadata 255 :
    trueish [ 0 ]
    : msg_type , [
""a\\""] :u
, } , f32
i64_`" ++ [233]%N ++ runes_of_ascii "`	, repeat u
,}
,
u16
T ,
f64 BodyLength , } 	 ")).
Eval vm_compute in ("<<<M86>>>" ++ check (runes_of_ascii "packet As {zchar[ 42
    ] float @calculatedFrom( ""a\""b"" )
    //	t
    `{ , }` , // 50% %s
@tag(
    42 ) @rightPad ('0' )	@calculatedFrom( ""a\""b"") repeat int32 Header ,float @lengthOf(falsey  ) , @leftPad
    ( ) uint32
    options1
@lengthOf(
Pad)`a\` , }")).
Eval vm_compute in ("<<<M118>>>" ++ check (runes_of_ascii "options
{ u // packet A { u8 x, }
=// 50% %s
int32 packetx	= ""`tick`"" ;
    matchKey= // trailing space 
'0'As = 3
// packet A { u8 x, }
//x
; Packet=true; } root packet
tag { // @lengthOf(
u64 stringy , repeat options1
{ zchar[ 4294967296
] f32a `` , match tag as
    //
    options1 {
    10 : A
// c
// c
,  007
    : Pad , 0123456789
    : calculatedFrom 7 :	stringy ,
[ // 50% %s
""a\""b"" ,// " ++ [27880; 37322]%N ++ runes_of_ascii "
0123456789 ] : options1 , 3
:
u8x,
    // packet A { u8 x, }
    } ,} ,
    }packet len {	@calculatedFrom(
// packet A { u8 x, }
// `tick` ""quote"" 'q'
""" ++ [233]%N ++ runes_of_ascii "t" ++ [233]%N ++ runes_of_ascii """ )i8
// `tick` ""quote"" 'q'
//	t
repeatCount @lengthOf(
// `tick` ""quote"" 'q'
// " ++ [128512]%N ++ runes_of_ascii " emoji
roots ) ,
int32 i64_//
@calculatedFrom( ""`tick`"" )  ,
    @rightPad ( ' ' ) repeat
char[] u8x// " ++ [128512]%N ++ runes_of_ascii " emoji
,	@rightPad('\x00'	) leftPad{ match lengthOf // c
as charz { ""1"" :tag  ""// no comment""	:
x, [
    """ ++ [233]%N ++ runes_of_ascii "t" ++ [233]%N ++ runes_of_ascii """ ,""CRC32"" ] :	pack 3: charz ,
}, } , } options
    {
}
    MetaData
matchKey {uint64 repeatCount,  roots
x_y_z
`say ""hi""`
, roots As , A crc , uint64 f32a // @lengthOf(
, }
")).
Eval vm_compute in ("<<<T118>>>" ++ terms [mkTok 1 "options" 1 0 false; mkTok 2 "{" 2 0 false; mkTok 42 "u" 2 2 false; mkTok 44 "// packet A { u8 x, }" 2 4 true; mkTok 4 "=" 3 0 false; mkTok 44 "// 50% %s" 3 1 true; mkTok 26 "int32" 4 0 false; mkTok 42 "packetx" 4 6 false; mkTok 4 "=" 4 14 false; mkTok 31 """`tick`""" 4 16 false; mkTok 41 ";" 4 25 false; mkTok 42 "matchKey" 5 4 false; mkTok 4 "=" 5 12 false; mkTok 44 "// trailing space " 5 14 true; mkTok 33 "'0'" 6 0 false; mkTok 42 "As" 6 3 false; mkTok 4 "=" 6 6 false; mkTok 30 "3" 6 8 false; mkTok 44 "// packet A { u8 x, }" 7 0 true; mkTok 44 "//x" 8 0 true; mkTok 41 ";" 9 0 false; mkTok 42 "Packet" 9 2 false; mkTok 4 "=" 9 8 false; mkTok 10 "true" 9 9 false; mkTok 41 ";" 9 13 false; mkTok 3 "}" 9 15 false; mkTok 34 "root" 9 17 false; mkTok 35 "packet" 9 22 false; mkTok 42 "tag" 10 0 false; mkTok 2 "{" 10 4 false; mkTok 44 "// @lengthOf(" 10 6 true; mkTok 23 "u64" 11 0 false; mkTok 42 "stringy" 11 4 false; mkTok 40 "," 11 12 false; mkTok 36 "repeat" 11 14 false; mkTok 42 "options1" 11 21 false; mkTok 2 "{" 12 0 false; mkTok 14 "zchar[" 12 2 false; mkTok 30 "4294967296" 12 9 false; mkTok 13 "]" 13 0 false; mkTok 42 "f32a" 13 2 false; mkTok 43 "``" 13 7 false; mkTok 40 "," 13 10 false; mkTok 38 "match" 13 12 false; mkTok 42 "tag" 13 18 false; mkTok 17 "as" 13 22 false; mkTok 44 "//" 14 4 true; mkTok 42 "options1" 15 4 false; mkTok 2 "{" 15 13 false; mkTok 30 "10" 16 4 false; mkTok 39 ":" 16 7 false; mkTok 42 "A" 16 9 false; mkTok 44 "// c" 17 0 true; mkTok 44 "// c" 18 0 true; mkTok 40 "," 19 0 false; mkTok 30 "007" 19 3 false; mkTok 39 ":" 20 4 false; mkTok 42 "Pad" 20 6 false; mkTok 40 "," 20 10 false; mkTok 30 "0123456789" 20 12 false; mkTok 39 ":" 21 4 false; mkTok 42 "calculatedFrom" 21 6 false; mkTok 30 "7" 21 21 false; mkTok 39 ":" 21 23 false; mkTok 42 "stringy" 21 25 false; mkTok 40 "," 21 33 false; mkTok 18 "[" 22 0 false; mkTok 44 "// 50% %s" 22 2 true; mkTok 31 """a\""b""" 23 0 false; mkTok 40 "," 23 7 false; mkTok 44 (string_of_bytes [47; 47; 32; 230; 179; 168; 233; 135; 138]%N) 23 8 true; mkTok 30 "0123456789" 24 0 false; mkTok 13 "]" 24 11 false; mkTok 39 ":" 24 13 false; mkTok 42 "options1" 24 15 false; mkTok 40 "," 24 24 false; mkTok 30 "3" 24 26 false; mkTok 39 ":" 25 0 false; mkTok 42 "u8x" 26 0 false; mkTok 40 "," 26 3 false; mkTok 44 "// packet A { u8 x, }" 27 4 true; mkTok 3 "}" 28 4 false; mkTok 40 "," 28 6 false; mkTok 3 "}" 28 7 false; mkTok 40 "," 28 9 false; mkTok 3 "}" 29 4 false; mkTok 35 "packet" 29 5 false; mkTok 42 "len" 29 12 false; mkTok 2 "{" 29 16 false; mkTok 5 "@calculatedFrom(" 29 18 false; mkTok 44 "// packet A { u8 x, }" 30 0 true; mkTok 44 "// `tick` ""quote"" 'q'" 31 0 true; mkTok 31 (string_of_bytes [34; 195; 169; 116; 195; 169; 34]%N) 32 0 false; mkTok 6 ")" 32 6 false; mkTok 24 "i8" 32 7 false; mkTok 44 "// `tick` ""quote"" 'q'" 33 0 true; mkTok 44 (string_of_bytes [47; 47; 9; 116]%N) 34 0 true; mkTok 42 "repeatCount" 35 0 false; mkTok 7 "@lengthOf(" 35 12 false; mkTok 44 "// `tick` ""quote"" 'q'" 36 0 true; mkTok 44 (string_of_bytes [47; 47; 32; 240; 159; 152; 128; 32; 101; 109; 111; 106; 105]%N) 37 0 true; mkTok 42 "roots" 38 0 false; mkTok 6 ")" 38 6 false; mkTok 40 "," 38 8 false; mkTok 26 "int32" 39 0 false; mkTok 42 "i64_" 39 6 false; mkTok 44 "//" 39 10 true; mkTok 5 "@calculatedFrom(" 40 0 false; mkTok 31 """`tick`""" 40 17 false; mkTok 6 ")" 40 26 false; mkTok 40 "," 40 29 false; mkTok 32 "@rightPad" 41 4 false; mkTok 8 "(" 41 14 false; mkTok 33 "' '" 41 16 false; mkTok 6 ")" 41 20 false; mkTok 36 "repeat" 41 22 false; mkTok 16 "char[]" 42 0 false; mkTok 42 "u8x" 42 7 false; mkTok 44 (string_of_bytes [47; 47; 32; 240; 159; 152; 128; 32; 101; 109; 111; 106; 105]%N) 42 10 true; mkTok 40 "," 43 0 false; mkTok 32 "@rightPad" 43 2 false; mkTok 8 "(" 43 11 false; mkTok 33 "'\x00'" 43 12 false; mkTok 6 ")" 43 19 false; mkTok 42 "leftPad" 43 21 false; mkTok 2 "{" 43 28 false; mkTok 38 "match" 43 30 false; mkTok 42 "lengthOf" 43 36 false; mkTok 44 "// c" 43 45 true; mkTok 17 "as" 44 0 false; mkTok 42 "charz" 44 3 false; mkTok 2 "{" 44 9 false; mkTok 31 """1""" 44 11 false; mkTok 39 ":" 44 15 false; mkTok 42 "tag" 44 16 false; mkTok 31 """// no comment""" 44 21 false; mkTok 39 ":" 44 37 false; mkTok 42 "x" 45 0 false; mkTok 40 "," 45 1 false; mkTok 18 "[" 45 3 false; mkTok 31 (string_of_bytes [34; 195; 169; 116; 195; 169; 34]%N) 46 4 false; mkTok 40 "," 46 10 false; mkTok 31 """CRC32""" 46 11 false; mkTok 13 "]" 46 19 false; mkTok 39 ":" 46 21 false; mkTok 42 "pack" 46 23 false; mkTok 30 "3" 46 28 false; mkTok 39 ":" 46 29 false; mkTok 42 "charz" 46 31 false; mkTok 40 "," 46 37 false; mkTok 3 "}" 47 0 false; mkTok 40 "," 47 1 false; mkTok 3 "}" 47 3 false; mkTok 40 "," 47 5 false; mkTok 3 "}" 47 7 false; mkTok 1 "options" 47 9 false; mkTok 2 "{" 48 4 false; mkTok 3 "}" 49 0 false; mkTok 37 "MetaData" 50 4 false; mkTok 42 "matchKey" 51 0 false; mkTok 2 "{" 51 9 false; mkTok 23 "uint64" 51 10 false; mkTok 42 "repeatCount" 51 17 false; mkTok 40 "," 51 28 false; mkTok 42 "roots" 51 31 false; mkTok 42 "x_y_z" 52 0 false; mkTok 43 "`say ""hi""`" 53 0 false; mkTok 40 "," 54 0 false; mkTok 42 "roots" 54 2 false; mkTok 42 "As" 54 8 false; mkTok 40 "," 54 11 false; mkTok 42 "A" 54 13 false; mkTok 42 "crc" 54 15 false; mkTok 40 "," 54 19 false; mkTok 23 "uint64" 54 21 false; mkTok 42 "f32a" 54 28 false; mkTok 44 "// @lengthOf(" 54 33 true; mkTok 40 "," 55 0 false; mkTok 3 "}" 55 2 false; mkTok 0 "<EOF>" 56 0 false] (mkPacket (mkPtok 1 "options" 1 0 0) (Some (mkPtok 3 "}" 55 2 178)) [(DOption (mkOptionDef (mkSpan (mkPtok 1 "options" 1 0 0) (mkPtok 3 "}" 9 15 25)) (mkPtok 1 "options" 1 0 0) (mkPtok 2 "{" 2 0 1) [(mkOptionDecl (mkSpan (mkPtok 42 "u" 2 2 2) (mkPtok 26 "int32" 4 0 6)) (mkPtok 42 "u" 2 2 2) (mkPtok 4 "=" 3 0 4) (VType (mkSpan (mkPtok 26 "int32" 4 0 6) (mkPtok 26 "int32" 4 0 6)) (TyBasic (mkSpan (mkPtok 26 "int32" 4 0 6) (mkPtok 26 "int32" 4 0 6)) (mkBasicType (mkSpan (mkPtok 26 "int32" 4 0 6) (mkPtok 26 "int32" 4 0 6)) (mkPtok 26 "int32" 4 0 6)))) None); (mkOptionDecl (mkSpan (mkPtok 42 "packetx" 4 6 7) (mkPtok 41 ";" 4 25 10)) (mkPtok 42 "packetx" 4 6 7) (mkPtok 4 "=" 4 14 8) (VString (mkSpan (mkPtok 31 """`tick`""" 4 16 9) (mkPtok 31 """`tick`""" 4 16 9)) (mkPtok 31 """`tick`""" 4 16 9)) (Some (mkPtok 41 ";" 4 25 10))); (mkOptionDecl (mkSpan (mkPtok 42 "matchKey" 5 4 11) (mkPtok 33 "'0'" 6 0 14)) (mkPtok 42 "matchKey" 5 4 11) (mkPtok 4 "=" 5 12 12) (VPaddingChar (mkSpan (mkPtok 33 "'0'" 6 0 14) (mkPtok 33 "'0'" 6 0 14)) (mkPtok 33 "'0'" 6 0 14)) None); (mkOptionDecl (mkSpan (mkPtok 42 "As" 6 3 15) (mkPtok 41 ";" 9 0 20)) (mkPtok 42 "As" 6 3 15) (mkPtok 4 "=" 6 6 16) (VDigits (mkSpan (mkPtok 30 "3" 6 8 17) (mkPtok 30 "3" 6 8 17)) (mkPtok 30 "3" 6 8 17)) (Some (mkPtok 41 ";" 9 0 20))); (mkOptionDecl (mkSpan (mkPtok 42 "Packet" 9 2 21) (mkPtok 41 ";" 9 13 24)) (mkPtok 42 "Packet" 9 2 21) (mkPtok 4 "=" 9 8 22) (VTrue (mkSpan (mkPtok 10 "true" 9 9 23) (mkPtok 10 "true" 9 9 23)) (mkPtok 10 "true" 9 9 23)) (Some (mkPtok 41 ";" 9 13 24)))] (mkPtok 3 "}" 9 15 25))); (DPacket (mkPacketDef (mkSpan (mkPtok 34 "root" 9 17 26) (mkPtok 3 "}" 29 4 85)) (Some (mkPtok 34 "root" 9 17 26)) (mkPtok 35 "packet" 9 22 27) (mkPtok 42 "tag" 10 0 28) (mkPtok 2 "{" 10 4 29) [(mkFieldWithAttr (mkSpan (mkPtok 23 "u64" 11 0 31) (mkPtok 40 "," 11 12 33)) [] (MetaField (mkSpan (mkPtok 23 "u64" 11 0 31) (mkPtok 40 "," 11 12 33)) None (mkMetaDecl (mkSpan (mkPtok 23 "u64" 11 0 31) (mkPtok 40 "," 11 12 33)) (TyBasic (mkSpan (mkPtok 23 "u64" 11 0 31) (mkPtok 23 "u64" 11 0 31)) (mkBasicType (mkSpan (mkPtok 23 "u64" 11 0 31) (mkPtok 23 "u64" 11 0 31)) (mkPtok 23 "u64" 11 0 31))) (mkPtok 42 "stringy" 11 4 32) None (mkPtok 40 "," 11 12 33)))); (mkFieldWithAttr (mkSpan (mkPtok 36 "repeat" 11 14 34) (mkPtok 40 "," 28 9 84)) [] (InerObjectField (mkSpan (mkPtok 36 "repeat" 11 14 34) (mkPtok 40 "," 28 9 84)) (Some (mkPtok 36 "repeat" 11 14 34)) (InerObjectDecl (mkSpan (mkPtok 42 "options1" 11 21 35) (mkPtok 3 "}" 28 7 83)) (mkPtok 42 "options1" 11 21 35) (mkPtok 2 "{" 12 0 36) [(MetaField (mkSpan (mkPtok 14 "zchar[" 12 2 37) (mkPtok 40 "," 13 10 42)) None (mkMetaDecl (mkSpan (mkPtok 14 "zchar[" 12 2 37) (mkPtok 40 "," 13 10 42)) (TyFixed (mkSpan (mkPtok 14 "zchar[" 12 2 37) (mkPtok 13 "]" 13 0 39)) (mkFixedString (mkSpan (mkPtok 14 "zchar[" 12 2 37) (mkPtok 13 "]" 13 0 39)) (mkPtok 14 "zchar[" 12 2 37) (mkPtok 30 "4294967296" 12 9 38) (mkPtok 13 "]" 13 0 39))) (mkPtok 42 "f32a" 13 2 40) (Some (mkPtok 43 "``" 13 7 41)) (mkPtok 40 "," 13 10 42))); (MatchField (mkSpan (mkPtok 38 "match" 13 12 43) (mkPtok 40 "," 28 6 82)) (mkMatchFieldDecl (mkSpan (mkPtok 38 "match" 13 12 43) (mkPtok 3 "}" 28 4 81)) (mkPtok 38 "match" 13 12 43) (mkPtok 42 "tag" 13 18 44) (mkPtok 17 "as" 13 22 45) (mkPtok 42 "options1" 15 4 47) (mkPtok 2 "{" 15 13 48) [(mkMatchPair (mkSpan (mkPtok 30 "10" 16 4 49) (mkPtok 40 "," 19 0 54)) (MKDigits (mkPtok 30 "10" 16 4 49)) (mkPtok 39 ":" 16 7 50) (mkPtok 42 "A" 16 9 51) (Some (mkPtok 40 "," 19 0 54))); (mkMatchPair (mkSpan (mkPtok 30 "007" 19 3 55) (mkPtok 40 "," 20 10 58)) (MKDigits (mkPtok 30 "007" 19 3 55)) (mkPtok 39 ":" 20 4 56) (mkPtok 42 "Pad" 20 6 57) (Some (mkPtok 40 "," 20 10 58))); (mkMatchPair (mkSpan (mkPtok 30 "0123456789" 20 12 59) (mkPtok 42 "calculatedFrom" 21 6 61)) (MKDigits (mkPtok 30 "0123456789" 20 12 59)) (mkPtok 39 ":" 21 4 60) (mkPtok 42 "calculatedFrom" 21 6 61) None); (mkMatchPair (mkSpan (mkPtok 30 "7" 21 21 62) (mkPtok 40 "," 21 33 65)) (MKDigits (mkPtok 30 "7" 21 21 62)) (mkPtok 39 ":" 21 23 63) (mkPtok 42 "stringy" 21 25 64) (Some (mkPtok 40 "," 21 33 65))); (mkMatchPair (mkSpan (mkPtok 18 "[" 22 0 66) (mkPtok 40 "," 24 24 75)) (MKList (mkKeyList (mkSpan (mkPtok 18 "[" 22 0 66) (mkPtok 13 "]" 24 11 72)) (mkPtok 18 "[" 22 0 66) (mkPtok 31 """a\""b""" 23 0 68) [((mkPtok 40 "," 23 7 69), (mkPtok 30 "0123456789" 24 0 71))] (mkPtok 13 "]" 24 11 72))) (mkPtok 39 ":" 24 13 73) (mkPtok 42 "options1" 24 15 74) (Some (mkPtok 40 "," 24 24 75))); (mkMatchPair (mkSpan (mkPtok 30 "3" 24 26 76) (mkPtok 40 "," 26 3 79)) (MKDigits (mkPtok 30 "3" 24 26 76)) (mkPtok 39 ":" 25 0 77) (mkPtok 42 "u8x" 26 0 78) (Some (mkPtok 40 "," 26 3 79)))] (mkPtok 3 "}" 28 4 81)) (mkPtok 40 "," 28 6 82))] (mkPtok 3 "}" 28 7 83)) (mkPtok 40 "," 28 9 84)))] (mkPtok 3 "}" 29 4 85))); (DPacket (mkPacketDef (mkSpan (mkPtok 35 "packet" 29 5 86) (mkPtok 3 "}" 47 7 154)) None (mkPtok 35 "packet" 29 5 86) (mkPtok 42 "len" 29 12 87) (mkPtok 2 "{" 29 16 88) [(mkFieldWithAttr (mkSpan (mkPtok 5 "@calculatedFrom(" 29 18 89) (mkPtok 40 "," 38 8 103)) [(FACalculatedFrom (mkSpan (mkPtok 5 "@calculatedFrom(" 29 18 89) (mkPtok 6 ")" 32 6 93)) (mkCalculatedFrom (mkSpan (mkPtok 5 "@calculatedFrom(" 29 18 89) (mkPtok 6 ")" 32 6 93)) (mkPtok 5 "@calculatedFrom(" 29 18 89) (mkPtok 31 (string_of_bytes [34; 195; 169; 116; 195; 169; 34]%N) 32 0 92) (mkPtok 6 ")" 32 6 93)))] (LengthField (mkSpan (mkPtok 24 "i8" 32 7 94) (mkPtok 40 "," 38 8 103)) (mkLengthFieldDecl (mkSpan (mkPtok 24 "i8" 32 7 94) (mkPtok 40 "," 38 8 103)) (Some (TyBasic (mkSpan (mkPtok 24 "i8" 32 7 94) (mkPtok 24 "i8" 32 7 94)) (mkBasicType (mkSpan (mkPtok 24 "i8" 32 7 94) (mkPtok 24 "i8" 32 7 94)) (mkPtok 24 "i8" 32 7 94)))) (mkPtok 42 "repeatCount" 35 0 97) (mkLengthOf (mkSpan (mkPtok 7 "@lengthOf(" 35 12 98) (mkPtok 6 ")" 38 6 102)) (mkPtok 7 "@lengthOf(" 35 12 98) (mkPtok 42 "roots" 38 0 101) (mkPtok 6 ")" 38 6 102)) None (mkPtok 40 "," 38 8 103)))); (mkFieldWithAttr (mkSpan (mkPtok 26 "int32" 39 0 104) (mkPtok 40 "," 40 29 110)) [] (CheckSumField (mkSpan (mkPtok 26 "int32" 39 0 104) (mkPtok 40 "," 40 29 110)) (mkChecksumFieldDecl (mkSpan (mkPtok 26 "int32" 39 0 104) (mkPtok 40 "," 40 29 110)) (Some (TyBasic (mkSpan (mkPtok 26 "int32" 39 0 104) (mkPtok 26 "int32" 39 0 104)) (mkBasicType (mkSpan (mkPtok 26 "int32" 39 0 104) (mkPtok 26 "int32" 39 0 104)) (mkPtok 26 "int32" 39 0 104)))) (mkPtok 42 "i64_" 39 6 105) (mkCalculatedFrom (mkSpan (mkPtok 5 "@calculatedFrom(" 40 0 107) (mkPtok 6 ")" 40 26 109)) (mkPtok 5 "@calculatedFrom(" 40 0 107) (mkPtok 31 """`tick`""" 40 17 108) (mkPtok 6 ")" 40 26 109)) None (mkPtok 40 "," 40 29 110)))); (mkFieldWithAttr (mkSpan (mkPtok 32 "@rightPad" 41 4 111) (mkPtok 40 "," 43 0 119)) [(FAPadding (mkSpan (mkPtok 32 "@rightPad" 41 4 111) (mkPtok 6 ")" 41 20 114)) (mkPaddingAttr (mkSpan (mkPtok 32 "@rightPad" 41 4 111) (mkPtok 6 ")" 41 20 114)) (mkPtok 32 "@rightPad" 41 4 111) (mkPtok 8 "(" 41 14 112) (Some (mkPtok 33 "' '" 41 16 113)) (mkPtok 6 ")" 41 20 114)))] (MetaField (mkSpan (mkPtok 36 "repeat" 41 22 115) (mkPtok 40 "," 43 0 119)) (Some (mkPtok 36 "repeat" 41 22 115)) (mkMetaDecl (mkSpan (mkPtok 16 "char[]" 42 0 116) (mkPtok 40 "," 43 0 119)) (TyDynamic (mkSpan (mkPtok 16 "char[]" 42 0 116) (mkPtok 16 "char[]" 42 0 116)) (mkDynamicString (mkSpan (mkPtok 16 "char[]" 42 0 116) (mkPtok 16 "char[]" 42 0 116)) (mkPtok 16 "char[]" 42 0 116))) (mkPtok 42 "u8x" 42 7 117) None (mkPtok 40 "," 43 0 119)))); (mkFieldWithAttr (mkSpan (mkPtok 32 "@rightPad" 43 2 120) (mkPtok 40 "," 47 5 153)) [(FAPadding (mkSpan (mkPtok 32 "@rightPad" 43 2 120) (mkPtok 6 ")" 43 19 123)) (mkPaddingAttr (mkSpan (mkPtok 32 "@rightPad" 43 2 120) (mkPtok 6 ")" 43 19 123)) (mkPtok 32 "@rightPad" 43 2 120) (mkPtok 8 "(" 43 11 121) (Some (mkPtok 33 "'\x00'" 43 12 122)) (mkPtok 6 ")" 43 19 123)))] (InerObjectField (mkSpan (mkPtok 42 "leftPad" 43 21 124) (mkPtok 40 "," 47 5 153)) None (InerObjectDecl (mkSpan (mkPtok 42 "leftPad" 43 21 124) (mkPtok 3 "}" 47 3 152)) (mkPtok 42 "leftPad" 43 21 124) (mkPtok 2 "{" 43 28 125) [(MatchField (mkSpan (mkPtok 38 "match" 43 30 126) (mkPtok 40 "," 47 1 151)) (mkMatchFieldDecl (mkSpan (mkPtok 38 "match" 43 30 126) (mkPtok 3 "}" 47 0 150)) (mkPtok 38 "match" 43 30 126) (mkPtok 42 "lengthOf" 43 36 127) (mkPtok 17 "as" 44 0 129) (mkPtok 42 "charz" 44 3 130) (mkPtok 2 "{" 44 9 131) [(mkMatchPair (mkSpan (mkPtok 31 """1""" 44 11 132) (mkPtok 42 "tag" 44 16 134)) (MKString (mkPtok 31 """1""" 44 11 132)) (mkPtok 39 ":" 44 15 133) (mkPtok 42 "tag" 44 16 134) None); (mkMatchPair (mkSpan (mkPtok 31 """// no comment""" 44 21 135) (mkPtok 40 "," 45 1 138)) (MKString (mkPtok 31 """// no comment""" 44 21 135)) (mkPtok 39 ":" 44 37 136) (mkPtok 42 "x" 45 0 137) (Some (mkPtok 40 "," 45 1 138))); (mkMatchPair (mkSpan (mkPtok 18 "[" 45 3 139) (mkPtok 42 "pack" 46 23 145)) (MKList (mkKeyList (mkSpan (mkPtok 18 "[" 45 3 139) (mkPtok 13 "]" 46 19 143)) (mkPtok 18 "[" 45 3 139) (mkPtok 31 (string_of_bytes [34; 195; 169; 116; 195; 169; 34]%N) 46 4 140) [((mkPtok 40 "," 46 10 141), (mkPtok 31 """CRC32""" 46 11 142))] (mkPtok 13 "]" 46 19 143))) (mkPtok 39 ":" 46 21 144) (mkPtok 42 "pack" 46 23 145) None); (mkMatchPair (mkSpan (mkPtok 30 "3" 46 28 146) (mkPtok 40 "," 46 37 149)) (MKDigits (mkPtok 30 "3" 46 28 146)) (mkPtok 39 ":" 46 29 147) (mkPtok 42 "charz" 46 31 148) (Some (mkPtok 40 "," 46 37 149)))] (mkPtok 3 "}" 47 0 150)) (mkPtok 40 "," 47 1 151))] (mkPtok 3 "}" 47 3 152)) (mkPtok 40 "," 47 5 153)))] (mkPtok 3 "}" 47 7 154))); (DOption (mkOptionDef (mkSpan (mkPtok 1 "options" 47 9 155) (mkPtok 3 "}" 49 0 157)) (mkPtok 1 "options" 47 9 155) (mkPtok 2 "{" 48 4 156) [] (mkPtok 3 "}" 49 0 157))); (DMeta (mkMetaDef (mkSpan (mkPtok 37 "MetaData" 50 4 158) (mkPtok 3 "}" 55 2 178)) (mkPtok 37 "MetaData" 50 4 158) (mkPtok 42 "matchKey" 51 0 159) (mkPtok 2 "{" 51 9 160) [(MIDecl (mkMetaDecl (mkSpan (mkPtok 23 "uint64" 51 10 161) (mkPtok 40 "," 51 28 163)) (TyBasic (mkSpan (mkPtok 23 "uint64" 51 10 161) (mkPtok 23 "uint64" 51 10 161)) (mkBasicType (mkSpan (mkPtok 23 "uint64" 51 10 161) (mkPtok 23 "uint64" 51 10 161)) (mkPtok 23 "uint64" 51 10 161))) (mkPtok 42 "repeatCount" 51 17 162) None (mkPtok 40 "," 51 28 163))); (MIRef (mkRefMetaDecl (mkSpan (mkPtok 42 "roots" 51 31 164) (mkPtok 40 "," 54 0 167)) (mkPtok 42 "roots" 51 31 164) (mkPtok 42 "x_y_z" 52 0 165) (Some (mkPtok 43 "`say ""hi""`" 53 0 166)) (mkPtok 40 "," 54 0 167))); (MIRef (mkRefMetaDecl (mkSpan (mkPtok 42 "roots" 54 2 168) (mkPtok 40 "," 54 11 170)) (mkPtok 42 "roots" 54 2 168) (mkPtok 42 "As" 54 8 169) None (mkPtok 40 "," 54 11 170))); (MIRef (mkRefMetaDecl (mkSpan (mkPtok 42 "A" 54 13 171) (mkPtok 40 "," 54 19 173)) (mkPtok 42 "A" 54 13 171) (mkPtok 42 "crc" 54 15 172) None (mkPtok 40 "," 54 19 173))); (MIDecl (mkMetaDecl (mkSpan (mkPtok 23 "uint64" 54 21 174) (mkPtok 40 "," 55 0 177)) (TyBasic (mkSpan (mkPtok 23 "uint64" 54 21 174) (mkPtok 23 "uint64" 54 21 174)) (mkBasicType (mkSpan (mkPtok 23 "uint64" 54 21 174) (mkPtok 23 "uint64" 54 21 174)) (mkPtok 23 "uint64" 54 21 174))) (mkPtok 42 "f32a" 54 28 175) None (mkPtok 40 "," 55 0 177)))] (mkPtok 3 "}" 55 2 178)))])).
Eval vm_compute in ("<<<M150>>>" ++ check (runes_of_ascii "packet u8x{ float32
roots `u8 x,`
,  repeat float32 crc
    `" ++ [28040; 24687; 31867; 22411]%N ++ runes_of_ascii "`
    ,u32
pack
// 50% %s
// " ++ [27880; 37322]%N ++ runes_of_ascii "
@lengthOf(f32a ) `100% of %d`,// " ++ [128512]%N ++ runes_of_ascii " emoji
match u128
as _x
// trailing space 
// packet A { u8 x, }
{[ 65535 ]
:MetaDataX ,//x
}
, }packet x_y_z {	@rightPad
( '\x00' )i64
    /// triple
    roots, @calculatedFrom(
// " ++ [27880; 37322]%N ++ runes_of_ascii "
//
""packet"" ) match o as
    trueish	{	[ 1
    ,
0123456789
] :  u8x	,
    //	t
    } , }
")).
Eval vm_compute in ("<<<M182>>>" ++ check (runes_of_ascii "

")).
Eval vm_compute in ("<<<M214>>>" ++ check (runes_of_ascii "
")).
Eval vm_compute in ("<<<M246>>>" ++ check (runes_of_ascii "root packet calculatedFrom
{}	packet
u
    { u64  len
, }
")).
Eval vm_compute in ("<<<M278>>>" ++ check (runes_of_ascii "packet As { // c
repeat int32
charz `doc` , }
MetaData options1 //x
{ } MetaData BodyLength { falsey u8x
// a // b
// packet A { u8 x, }
`two words`, string_ u8x
`{ , }` , string_	i64_
//x
// " ++ [128512]%N ++ runes_of_ascii " emoji
`100% of %d`,
int8 asx
`tab	here`
    ,
    } packet f32a{ @leftPad ( ' ') char[ 1 ] msg_type
@calculatedFrom( ""it's"" ),  msg_type, }
")).
Eval vm_compute in ("<<<M310>>>" ++ check (runes_of_ascii "
")).
Eval vm_compute in ("<<<M342>>>" ++ check (runes_of_ascii "//	t
options
    { // 50% %s
body = 3
    }
")).
Eval vm_compute in ("<<<T342>>>" ++ terms [mkTok 44 (string_of_bytes [47; 47; 9; 116]%N) 1 0 true; mkTok 1 "options" 2 0 false; mkTok 2 "{" 3 4 false; mkTok 44 "// 50% %s" 3 6 true; mkTok 42 "body" 4 0 false; mkTok 4 "=" 4 5 false; mkTok 30 "3" 4 7 false; mkTok 3 "}" 5 4 false; mkTok 0 "<EOF>" 6 0 false] (mkPacket (mkPtok 1 "options" 2 0 1) (Some (mkPtok 3 "}" 5 4 7)) [(DOption (mkOptionDef (mkSpan (mkPtok 1 "options" 2 0 1) (mkPtok 3 "}" 5 4 7)) (mkPtok 1 "options" 2 0 1) (mkPtok 2 "{" 3 4 2) [(mkOptionDecl (mkSpan (mkPtok 42 "body" 4 0 4) (mkPtok 30 "3" 4 7 6)) (mkPtok 42 "body" 4 0 4) (mkPtok 4 "=" 4 5 5) (VDigits (mkSpan (mkPtok 30 "3" 4 7 6) (mkPtok 30 "3" 4 7 6)) (mkPtok 30 "3" 4 7 6)) None)] (mkPtok 3 "}" 5 4 7)))])).
Eval vm_compute in ("<<<M374>>>" ++ check (runes_of_ascii "packet Z9_ {
@lengthOf( i8i8)
match
    A as Z9_ { 0123456789
    // 50% %s
    :	tag, 00 : leftPad
    ,
""packet"":
    trueish
,
[ 65535
]
: // trailing space 
T , }
,// 50% %s
zchar[ 255 ] i8i8
, }root// a // b
packet  leftPad { // c
repeat charz	{	repeat  i8 stringy
,	} , asx  {  char[ 42 ]
    //	t
    a1 `// not a comment` ,
    //x
    char[4294967296
] A@calculatedFrom( ""a\\"" )
,	i8
    _x ,  } ,uint8x msg_type
// @lengthOf(
// @lengthOf(
, roots falsey , }
MetaData Pad { float32 repeatCount
// " ++ [27880; 37322]%N ++ runes_of_ascii "
// `tick` ""quote"" 'q'
, }
MetaData int
{ char[]
repeatCount , }
")).
Eval vm_compute in ("<<<M406>>>" ++ check (runes_of_ascii "
options{ msg_type	= ""it's"" }
    // c
    root packet // @lengthOf(
stringy
    { @rightPad
(
    // " ++ [128512]%N ++ runes_of_ascii " emoji
    '0' ) //	t
char[ 42 ] calculatedFrom@lengthOf( _x ) ,@calculatedFrom(
""a\\"" // c
)
@lengthOf(// a // b
falsey  ) int16 repeatCount// @lengthOf(
@lengthOf( falsey )
    `it's`, // `tick` ""quote"" 'q'
tag //
{
match
    f32a as/// triple
zchar { 42: // 50% %s
string_	,// a // b
},
    }
, string_ @calculatedFrom(
""`tick`"" ) `` ,@lengthOf( leftPad ) i32 A
    `u8 x,`
    // a // b
    , @lengthOf( falsey ) zchar[
255] rootA
    // packet A { u8 x, }
    @lengthOf(  T  ) `" ++ [233]%N ++ runes_of_ascii "`, @lengthOf(
crc ) char[] // @lengthOf(
len	, } MetaData roots
{ As Pad, }")).
Eval vm_compute in ("<<<M438>>>" ++ check (runes_of_ascii "
packet
Logon { // c
crc @lengthOf(
matchKey ) `line1
line2` ,
    }

")).
Eval vm_compute in ("<<<M470>>>" ++ check (runes_of_ascii "options { int =zchar[ 1 ] }
")).
Eval vm_compute in ("<<<M502>>>" ++ check (runes_of_ascii "// c
MetaData crc // `tick` ""quote"" 'q'
{ }
")).
Eval vm_compute in ("<<<M534>>>" ++ check (runes_of_ascii "packet // @lengthOf(
As{ zchar[ 7 ] chars
@lengthOf( As
)
, }
")).
Eval vm_compute in ("<<<M566>>>" ++ check (runes_of_ascii "  MetaData chars {
char[ 10 ]
falsey // `tick` ""quote"" 'q'
`
` , }
packet matchKey { @lengthOf( packetx
    ) char[
    65535 ]
// packet A { u8 x, }
// c
pack, repeat
    As{ //
zchar[ 10 ]Logon @calculatedFrom( ""a	b"" ) , //
}	, // @lengthOf(
u64 roots , }packet Header{u8x // packet A { u8 x, }
@lengthOf(
    f32a )
    , msg_type { u8 Z9_ , repeat chars { repeat	u128	{ repeat uint8
x ,u128 ,
    int32 asx , char pack
`" ++ [233]%N ++ runes_of_ascii "`
, /// triple
} , } , match
    options1 as repeatCount{65535 : tag
    ,42 : stringy , } , } , repeat zchar[42 ]
// packet A { u8 x, }
//	t
metadata  `100% of %d`, // c
BodyLength @lengthOf( charz ) ,
// c
// a // b
u32 int @lengthOf(
i64_
//	t
// a // b
)`crlf
line`  , repeat u32 a1	`tab	here`
, } packet
    metadata
    {
repeat
// " ++ [128512]%N ++ runes_of_ascii " emoji
// packet A { u8 x, }
options1{// 50% %s
string_
`u8 x,`,char[] // " ++ [27880; 37322]%N ++ runes_of_ascii "
i8i8,
// trailing space 
//x
char[]Logon@calculatedFrom( ""1"" ) , a1 MetaDataX`u8 x,` , // " ++ [128512]%N ++ runes_of_ascii " emoji
} ,
}
")).
Eval vm_compute in ("<<<T566>>>" ++ terms [mkTok 37 "MetaData" 1 2 false; mkTok 42 "chars" 1 11 false; mkTok 2 "{" 1 17 false; mkTok 12 "char[" 2 0 false; mkTok 30 "10" 2 6 false; mkTok 13 "]" 2 9 false; mkTok 42 "falsey" 3 0 false; mkTok 44 "// `tick` ""quote"" 'q'" 3 7 true; mkTok 43 (string_of_bytes [96; 10; 96]%N) 4 0 false; mkTok 40 "," 5 2 false; mkTok 3 "}" 5 4 false; mkTok 35 "packet" 6 0 false; mkTok 42 "matchKey" 6 7 false; mkTok 2 "{" 6 16 false; mkTok 7 "@lengthOf(" 6 18 false; mkTok 42 "packetx" 6 29 false; mkTok 6 ")" 7 4 false; mkTok 12 "char[" 7 6 false; mkTok 30 "65535" 8 4 false; mkTok 13 "]" 8 10 false; mkTok 44 "// packet A { u8 x, }" 9 0 true; mkTok 44 "// c" 10 0 true; mkTok 42 "pack" 11 0 false; mkTok 40 "," 11 4 false; mkTok 36 "repeat" 11 6 false; mkTok 42 "As" 12 4 false; mkTok 2 "{" 12 6 false; mkTok 44 "//" 12 8 true; mkTok 14 "zchar[" 13 0 false; mkTok 30 "10" 13 7 false; mkTok 13 "]" 13 10 false; mkTok 42 "Logon" 13 11 false; mkTok 5 "@calculatedFrom(" 13 17 false; mkTok 31 (string_of_bytes [34; 97; 9; 98; 34]%N) 13 34 false; mkTok 6 ")" 13 40 false; mkTok 40 "," 13 42 false; mkTok 44 "//" 13 44 true; mkTok 3 "}" 14 0 false; mkTok 40 "," 14 2 false; mkTok 44 "// @lengthOf(" 14 4 true; mkTok 23 "u64" 15 0 false; mkTok 42 "roots" 15 4 false; mkTok 40 "," 15 10 false; mkTok 3 "}" 15 12 false; mkTok 35 "packet" 15 13 false; mkTok 42 "Header" 15 20 false; mkTok 2 "{" 15 26 false; mkTok 42 "u8x" 15 27 false; mkTok 44 "// packet A { u8 x, }" 15 31 true; mkTok 7 "@lengthOf(" 16 0 false; mkTok 42 "f32a" 17 4 false; mkTok 6 ")" 17 9 false; mkTok 40 "," 18 4 false; mkTok 42 "msg_type" 18 6 false; mkTok 2 "{" 18 15 false; mkTok 20 "u8" 18 17 false; mkTok 42 "Z9_" 18 20 false; mkTok 40 "," 18 24 false; mkTok 36 "repeat" 18 26 false; mkTok 42 "chars" 18 33 false; mkTok 2 "{" 18 39 false; mkTok 36 "repeat" 18 41 false; mkTok 42 "u128" 18 48 false; mkTok 2 "{" 18 53 false; mkTok 36 "repeat" 18 55 false; mkTok 20 "uint8" 18 62 false; mkTok 42 "x" 19 0 false; mkTok 40 "," 19 2 false; mkTok 42 "u128" 19 3 false; mkTok 40 "," 19 8 false; mkTok 26 "int32" 20 4 false; mkTok 42 "asx" 20 10 false; mkTok 40 "," 20 14 false; mkTok 19 "char" 20 16 false; mkTok 42 "pack" 20 21 false; mkTok 43 (string_of_bytes [96; 195; 169; 96]%N) 21 0 false; mkTok 40 "," 22 0 false; mkTok 44 "/// triple" 22 2 true; mkTok 3 "}" 23 0 false; mkTok 40 "," 23 2 false; mkTok 3 "}" 23 4 false; mkTok 40 "," 23 6 false; mkTok 38 "match" 23 8 false; mkTok 42 "options1" 24 4 false; mkTok 17 "as" 24 13 false; mkTok 42 "repeatCount" 24 16 false; mkTok 2 "{" 24 27 false; mkTok 30 "65535" 24 28 false; mkTok 39 ":" 24 34 false; mkTok 42 "tag" 24 36 false; mkTok 40 "," 25 4 false; mkTok 30 "42" 25 5 false; mkTok 39 ":" 25 8 false; mkTok 42 "stringy" 25 10 false; mkTok 40 "," 25 18 false; mkTok 3 "}" 25 20 false; mkTok 40 "," 25 22 false; mkTok 3 "}" 25 24 false; mkTok 40 "," 25 26 false; mkTok 36 "repeat" 25 28 false; mkTok 14 "zchar[" 25 35 false; mkTok 30 "42" 25 41 false; mkTok 13 "]" 25 44 false; mkTok 44 "// packet A { u8 x, }" 26 0 true; mkTok 44 (string_of_bytes [47; 47; 9; 116]%N) 27 0 true; mkTok 42 "metadata" 28 0 false; mkTok 43 "`100% of %d`" 28 10 false; mkTok 40 "," 28 22 false; mkTok 44 "// c" 28 24 true; mkTok 42 "BodyLength" 29 0 false; mkTok 7 "@lengthOf(" 29 11 false; mkTok 42 "charz" 29 22 false; mkTok 6 ")" 29 28 false; mkTok 40 "," 29 30 false; mkTok 44 "// c" 30 0 true; mkTok 44 "// a // b" 31 0 true; mkTok 22 "u32" 32 0 false; mkTok 42 "int" 32 4 false; mkTok 7 "@lengthOf(" 32 8 false; mkTok 42 "i64_" 33 0 false; mkTok 44 (string_of_bytes [47; 47; 9; 116]%N) 34 0 true; mkTok 44 "// a // b" 35 0 true; mkTok 6 ")" 36 0 false; mkTok 43 (string_of_bytes [96; 99; 114; 108; 102; 13; 10; 108; 105; 110; 101; 96]%N) 36 1 false; mkTok 40 "," 37 7 false; mkTok 36 "repeat" 37 9 false; mkTok 22 "u32" 37 16 false; mkTok 42 "a1" 37 20 false; mkTok 43 (string_of_bytes [96; 116; 97; 98; 9; 104; 101; 114; 101; 96]%N) 37 23 false; mkTok 40 "," 38 0 false; mkTok 3 "}" 38 2 false; mkTok 35 "packet" 38 4 false; mkTok 42 "metadata" 39 4 false; mkTok 2 "{" 40 4 false; mkTok 36 "repeat" 41 0 false; mkTok 44 (string_of_bytes [47; 47; 32; 240; 159; 152; 128; 32; 101; 109; 111; 106; 105]%N) 42 0 true; mkTok 44 "// packet A { u8 x, }" 43 0 true; mkTok 42 "options1" 44 0 false; mkTok 2 "{" 44 8 false; mkTok 44 "// 50% %s" 44 9 true; mkTok 42 "string_" 45 0 false; mkTok 43 "`u8 x,`" 46 0 false; mkTok 40 "," 46 7 false; mkTok 16 "char[]" 46 8 false; mkTok 44 (string_of_bytes [47; 47; 32; 230; 179; 168; 233; 135; 138]%N) 46 15 true; mkTok 42 "i8i8" 47 0 false; mkTok 40 "," 47 4 false; mkTok 44 "// trailing space " 48 0 true; mkTok 44 "//x" 49 0 true; mkTok 16 "char[]" 50 0 false; mkTok 42 "Logon" 50 6 false; mkTok 5 "@calculatedFrom(" 50 11 false; mkTok 31 """1""" 50 28 false; mkTok 6 ")" 50 32 false; mkTok 40 "," 50 34 false; mkTok 42 "a1" 50 36 false; mkTok 42 "MetaDataX" 50 39 false; mkTok 43 "`u8 x,`" 50 48 false; mkTok 40 "," 50 56 false; mkTok 44 (string_of_bytes [47; 47; 32; 240; 159; 152; 128; 32; 101; 109; 111; 106; 105]%N) 50 58 true; mkTok 3 "}" 51 0 false; mkTok 40 "," 51 2 false; mkTok 3 "}" 52 0 false; mkTok 0 "<EOF>" 53 0 false] (mkPacket (mkPtok 37 "MetaData" 1 2 0) (Some (mkPtok 3 "}" 52 0 162)) [(DMeta (mkMetaDef (mkSpan (mkPtok 37 "MetaData" 1 2 0) (mkPtok 3 "}" 5 4 10)) (mkPtok 37 "MetaData" 1 2 0) (mkPtok 42 "chars" 1 11 1) (mkPtok 2 "{" 1 17 2) [(MIDecl (mkMetaDecl (mkSpan (mkPtok 12 "char[" 2 0 3) (mkPtok 40 "," 5 2 9)) (TyFixed (mkSpan (mkPtok 12 "char[" 2 0 3) (mkPtok 13 "]" 2 9 5)) (mkFixedString (mkSpan (mkPtok 12 "char[" 2 0 3) (mkPtok 13 "]" 2 9 5)) (mkPtok 12 "char[" 2 0 3) (mkPtok 30 "10" 2 6 4) (mkPtok 13 "]" 2 9 5))) (mkPtok 42 "falsey" 3 0 6) (Some (mkPtok 43 (string_of_bytes [96; 10; 96]%N) 4 0 8)) (mkPtok 40 "," 5 2 9)))] (mkPtok 3 "}" 5 4 10))); (DPacket (mkPacketDef (mkSpan (mkPtok 35 "packet" 6 0 11) (mkPtok 3 "}" 15 12 43)) None (mkPtok 35 "packet" 6 0 11) (mkPtok 42 "matchKey" 6 7 12) (mkPtok 2 "{" 6 16 13) [(mkFieldWithAttr (mkSpan (mkPtok 7 "@lengthOf(" 6 18 14) (mkPtok 40 "," 11 4 23)) [(FALengthOf (mkSpan (mkPtok 7 "@lengthOf(" 6 18 14) (mkPtok 6 ")" 7 4 16)) (mkLengthOf (mkSpan (mkPtok 7 "@lengthOf(" 6 18 14) (mkPtok 6 ")" 7 4 16)) (mkPtok 7 "@lengthOf(" 6 18 14) (mkPtok 42 "packetx" 6 29 15) (mkPtok 6 ")" 7 4 16)))] (MetaField (mkSpan (mkPtok 12 "char[" 7 6 17) (mkPtok 40 "," 11 4 23)) None (mkMetaDecl (mkSpan (mkPtok 12 "char[" 7 6 17) (mkPtok 40 "," 11 4 23)) (TyFixed (mkSpan (mkPtok 12 "char[" 7 6 17) (mkPtok 13 "]" 8 10 19)) (mkFixedString (mkSpan (mkPtok 12 "char[" 7 6 17) (mkPtok 13 "]" 8 10 19)) (mkPtok 12 "char[" 7 6 17) (mkPtok 30 "65535" 8 4 18) (mkPtok 13 "]" 8 10 19))) (mkPtok 42 "pack" 11 0 22) None (mkPtok 40 "," 11 4 23)))); (mkFieldWithAttr (mkSpan (mkPtok 36 "repeat" 11 6 24) (mkPtok 40 "," 14 2 38)) [] (InerObjectField (mkSpan (mkPtok 36 "repeat" 11 6 24) (mkPtok 40 "," 14 2 38)) (Some (mkPtok 36 "repeat" 11 6 24)) (InerObjectDecl (mkSpan (mkPtok 42 "As" 12 4 25) (mkPtok 3 "}" 14 0 37)) (mkPtok 42 "As" 12 4 25) (mkPtok 2 "{" 12 6 26) [(CheckSumField (mkSpan (mkPtok 14 "zchar[" 13 0 28) (mkPtok 40 "," 13 42 35)) (mkChecksumFieldDecl (mkSpan (mkPtok 14 "zchar[" 13 0 28) (mkPtok 40 "," 13 42 35)) (Some (TyFixed (mkSpan (mkPtok 14 "zchar[" 13 0 28) (mkPtok 13 "]" 13 10 30)) (mkFixedString (mkSpan (mkPtok 14 "zchar[" 13 0 28) (mkPtok 13 "]" 13 10 30)) (mkPtok 14 "zchar[" 13 0 28) (mkPtok 30 "10" 13 7 29) (mkPtok 13 "]" 13 10 30)))) (mkPtok 42 "Logon" 13 11 31) (mkCalculatedFrom (mkSpan (mkPtok 5 "@calculatedFrom(" 13 17 32) (mkPtok 6 ")" 13 40 34)) (mkPtok 5 "@calculatedFrom(" 13 17 32) (mkPtok 31 (string_of_bytes [34; 97; 9; 98; 34]%N) 13 34 33) (mkPtok 6 ")" 13 40 34)) None (mkPtok 40 "," 13 42 35)))] (mkPtok 3 "}" 14 0 37)) (mkPtok 40 "," 14 2 38))); (mkFieldWithAttr (mkSpan (mkPtok 23 "u64" 15 0 40) (mkPtok 40 "," 15 10 42)) [] (MetaField (mkSpan (mkPtok 23 "u64" 15 0 40) (mkPtok 40 "," 15 10 42)) None (mkMetaDecl (mkSpan (mkPtok 23 "u64" 15 0 40) (mkPtok 40 "," 15 10 42)) (TyBasic (mkSpan (mkPtok 23 "u64" 15 0 40) (mkPtok 23 "u64" 15 0 40)) (mkBasicType (mkSpan (mkPtok 23 "u64" 15 0 40) (mkPtok 23 "u64" 15 0 40)) (mkPtok 23 "u64" 15 0 40))) (mkPtok 42 "roots" 15 4 41) None (mkPtok 40 "," 15 10 42))))] (mkPtok 3 "}" 15 12 43))); (DPacket (mkPacketDef (mkSpan (mkPtok 35 "packet" 15 13 44) (mkPtok 3 "}" 38 2 130)) None (mkPtok 35 "packet" 15 13 44) (mkPtok 42 "Header" 15 20 45) (mkPtok 2 "{" 15 26 46) [(mkFieldWithAttr (mkSpan (mkPtok 42 "u8x" 15 27 47) (mkPtok 40 "," 18 4 52)) [] (LengthField (mkSpan (mkPtok 42 "u8x" 15 27 47) (mkPtok 40 "," 18 4 52)) (mkLengthFieldDecl (mkSpan (mkPtok 42 "u8x" 15 27 47) (mkPtok 40 "," 18 4 52)) None (mkPtok 42 "u8x" 15 27 47) (mkLengthOf (mkSpan (mkPtok 7 "@lengthOf(" 16 0 49) (mkPtok 6 ")" 17 9 51)) (mkPtok 7 "@lengthOf(" 16 0 49) (mkPtok 42 "f32a" 17 4 50) (mkPtok 6 ")" 17 9 51)) None (mkPtok 40 "," 18 4 52)))); (mkFieldWithAttr (mkSpan (mkPtok 42 "msg_type" 18 6 53) (mkPtok 40 "," 25 26 98)) [] (InerObjectField (mkSpan (mkPtok 42 "msg_type" 18 6 53) (mkPtok 40 "," 25 26 98)) None (InerObjectDecl (mkSpan (mkPtok 42 "msg_type" 18 6 53) (mkPtok 3 "}" 25 24 97)) (mkPtok 42 "msg_type" 18 6 53) (mkPtok 2 "{" 18 15 54) [(MetaField (mkSpan (mkPtok 20 "u8" 18 17 55) (mkPtok 40 "," 18 24 57)) None (mkMetaDecl (mkSpan (mkPtok 20 "u8" 18 17 55) (mkPtok 40 "," 18 24 57)) (TyBasic (mkSpan (mkPtok 20 "u8" 18 17 55) (mkPtok 20 "u8" 18 17 55)) (mkBasicType (mkSpan (mkPtok 20 "u8" 18 17 55) (mkPtok 20 "u8" 18 17 55)) (mkPtok 20 "u8" 18 17 55))) (mkPtok 42 "Z9_" 18 20 56) None (mkPtok 40 "," 18 24 57))); (InerObjectField (mkSpan (mkPtok 36 "repeat" 18 26 58) (mkPtok 40 "," 23 6 81)) (Some (mkPtok 36 "repeat" 18 26 58)) (InerObjectDecl (mkSpan (mkPtok 42 "chars" 18 33 59) (mkPtok 3 "}" 23 4 80)) (mkPtok 42 "chars" 18 33 59) (mkPtok 2 "{" 18 39 60) [(InerObjectField (mkSpan (mkPtok 36 "repeat" 18 41 61) (mkPtok 40 "," 23 2 79)) (Some (mkPtok 36 "repeat" 18 41 61)) (InerObjectDecl (mkSpan (mkPtok 42 "u128" 18 48 62) (mkPtok 3 "}" 23 0 78)) (mkPtok 42 "u128" 18 48 62) (mkPtok 2 "{" 18 53 63) [(MetaField (mkSpan (mkPtok 36 "repeat" 18 55 64) (mkPtok 40 "," 19 2 67)) (Some (mkPtok 36 "repeat" 18 55 64)) (mkMetaDecl (mkSpan (mkPtok 20 "uint8" 18 62 65) (mkPtok 40 "," 19 2 67)) (TyBasic (mkSpan (mkPtok 20 "uint8" 18 62 65) (mkPtok 20 "uint8" 18 62 65)) (mkBasicType (mkSpan (mkPtok 20 "uint8" 18 62 65) (mkPtok 20 "uint8" 18 62 65)) (mkPtok 20 "uint8" 18 62 65))) (mkPtok 42 "x" 19 0 66) None (mkPtok 40 "," 19 2 67))); (ObjectField (mkSpan (mkPtok 42 "u128" 19 3 68) (mkPtok 40 "," 19 8 69)) None (mkPtok 42 "u128" 19 3 68) None None (mkPtok 40 "," 19 8 69)); (MetaField (mkSpan (mkPtok 26 "int32" 20 4 70) (mkPtok 40 "," 20 14 72)) None (mkMetaDecl (mkSpan (mkPtok 26 "int32" 20 4 70) (mkPtok 40 "," 20 14 72)) (TyBasic (mkSpan (mkPtok 26 "int32" 20 4 70) (mkPtok 26 "int32" 20 4 70)) (mkBasicType (mkSpan (mkPtok 26 "int32" 20 4 70) (mkPtok 26 "int32" 20 4 70)) (mkPtok 26 "int32" 20 4 70))) (mkPtok 42 "asx" 20 10 71) None (mkPtok 40 "," 20 14 72))); (MetaField (mkSpan (mkPtok 19 "char" 20 16 73) (mkPtok 40 "," 22 0 76)) None (mkMetaDecl (mkSpan (mkPtok 19 "char" 20 16 73) (mkPtok 40 "," 22 0 76)) (TyBasic (mkSpan (mkPtok 19 "char" 20 16 73) (mkPtok 19 "char" 20 16 73)) (mkBasicType (mkSpan (mkPtok 19 "char" 20 16 73) (mkPtok 19 "char" 20 16 73)) (mkPtok 19 "char" 20 16 73))) (mkPtok 42 "pack" 20 21 74) (Some (mkPtok 43 (string_of_bytes [96; 195; 169; 96]%N) 21 0 75)) (mkPtok 40 "," 22 0 76)))] (mkPtok 3 "}" 23 0 78)) (mkPtok 40 "," 23 2 79))] (mkPtok 3 "}" 23 4 80)) (mkPtok 40 "," 23 6 81)); (MatchField (mkSpan (mkPtok 38 "match" 23 8 82) (mkPtok 40 "," 25 22 96)) (mkMatchFieldDecl (mkSpan (mkPtok 38 "match" 23 8 82) (mkPtok 3 "}" 25 20 95)) (mkPtok 38 "match" 23 8 82) (mkPtok 42 "options1" 24 4 83) (mkPtok 17 "as" 24 13 84) (mkPtok 42 "repeatCount" 24 16 85) (mkPtok 2 "{" 24 27 86) [(mkMatchPair (mkSpan (mkPtok 30 "65535" 24 28 87) (mkPtok 40 "," 25 4 90)) (MKDigits (mkPtok 30 "65535" 24 28 87)) (mkPtok 39 ":" 24 34 88) (mkPtok 42 "tag" 24 36 89) (Some (mkPtok 40 "," 25 4 90))); (mkMatchPair (mkSpan (mkPtok 30 "42" 25 5 91) (mkPtok 40 "," 25 18 94)) (MKDigits (mkPtok 30 "42" 25 5 91)) (mkPtok 39 ":" 25 8 92) (mkPtok 42 "stringy" 25 10 93) (Some (mkPtok 40 "," 25 18 94)))] (mkPtok 3 "}" 25 20 95)) (mkPtok 40 "," 25 22 96))] (mkPtok 3 "}" 25 24 97)) (mkPtok 40 "," 25 26 98))); (mkFieldWithAttr (mkSpan (mkPtok 36 "repeat" 25 28 99) (mkPtok 40 "," 28 22 107)) [] (MetaField (mkSpan (mkPtok 36 "repeat" 25 28 99) (mkPtok 40 "," 28 22 107)) (Some (mkPtok 36 "repeat" 25 28 99)) (mkMetaDecl (mkSpan (mkPtok 14 "zchar[" 25 35 100) (mkPtok 40 "," 28 22 107)) (TyFixed (mkSpan (mkPtok 14 "zchar[" 25 35 100) (mkPtok 13 "]" 25 44 102)) (mkFixedString (mkSpan (mkPtok 14 "zchar[" 25 35 100) (mkPtok 13 "]" 25 44 102)) (mkPtok 14 "zchar[" 25 35 100) (mkPtok 30 "42" 25 41 101) (mkPtok 13 "]" 25 44 102))) (mkPtok 42 "metadata" 28 0 105) (Some (mkPtok 43 "`100% of %d`" 28 10 106)) (mkPtok 40 "," 28 22 107)))); (mkFieldWithAttr (mkSpan (mkPtok 42 "BodyLength" 29 0 109) (mkPtok 40 "," 29 30 113)) [] (LengthField (mkSpan (mkPtok 42 "BodyLength" 29 0 109) (mkPtok 40 "," 29 30 113)) (mkLengthFieldDecl (mkSpan (mkPtok 42 "BodyLength" 29 0 109) (mkPtok 40 "," 29 30 113)) None (mkPtok 42 "BodyLength" 29 0 109) (mkLengthOf (mkSpan (mkPtok 7 "@lengthOf(" 29 11 110) (mkPtok 6 ")" 29 28 112)) (mkPtok 7 "@lengthOf(" 29 11 110) (mkPtok 42 "charz" 29 22 111) (mkPtok 6 ")" 29 28 112)) None (mkPtok 40 "," 29 30 113)))); (mkFieldWithAttr (mkSpan (mkPtok 22 "u32" 32 0 116) (mkPtok 40 "," 37 7 124)) [] (LengthField (mkSpan (mkPtok 22 "u32" 32 0 116) (mkPtok 40 "," 37 7 124)) (mkLengthFieldDecl (mkSpan (mkPtok 22 "u32" 32 0 116) (mkPtok 40 "," 37 7 124)) (Some (TyBasic (mkSpan (mkPtok 22 "u32" 32 0 116) (mkPtok 22 "u32" 32 0 116)) (mkBasicType (mkSpan (mkPtok 22 "u32" 32 0 116) (mkPtok 22 "u32" 32 0 116)) (mkPtok 22 "u32" 32 0 116)))) (mkPtok 42 "int" 32 4 117) (mkLengthOf (mkSpan (mkPtok 7 "@lengthOf(" 32 8 118) (mkPtok 6 ")" 36 0 122)) (mkPtok 7 "@lengthOf(" 32 8 118) (mkPtok 42 "i64_" 33 0 119) (mkPtok 6 ")" 36 0 122)) (Some (mkPtok 43 (string_of_bytes [96; 99; 114; 108; 102; 13; 10; 108; 105; 110; 101; 96]%N) 36 1 123)) (mkPtok 40 "," 37 7 124)))); (mkFieldWithAttr (mkSpan (mkPtok 36 "repeat" 37 9 125) (mkPtok 40 "," 38 0 129)) [] (MetaField (mkSpan (mkPtok 36 "repeat" 37 9 125) (mkPtok 40 "," 38 0 129)) (Some (mkPtok 36 "repeat" 37 9 125)) (mkMetaDecl (mkSpan (mkPtok 22 "u32" 37 16 126) (mkPtok 40 "," 38 0 129)) (TyBasic (mkSpan (mkPtok 22 "u32" 37 16 126) (mkPtok 22 "u32" 37 16 126)) (mkBasicType (mkSpan (mkPtok 22 "u32" 37 16 126) (mkPtok 22 "u32" 37 16 126)) (mkPtok 22 "u32" 37 16 126))) (mkPtok 42 "a1" 37 20 127) (Some (mkPtok 43 (string_of_bytes [96; 116; 97; 98; 9; 104; 101; 114; 101; 96]%N) 37 23 128)) (mkPtok 40 "," 38 0 129))))] (mkPtok 3 "}" 38 2 130))); (DPacket (mkPacketDef (mkSpan (mkPtok 35 "packet" 38 4 131) (mkPtok 3 "}" 52 0 162)) None (mkPtok 35 "packet" 38 4 131) (mkPtok 42 "metadata" 39 4 132) (mkPtok 2 "{" 40 4 133) [(mkFieldWithAttr (mkSpan (mkPtok 36 "repeat" 41 0 134) (mkPtok 40 "," 51 2 161)) [] (InerObjectField (mkSpan (mkPtok 36 "repeat" 41 0 134) (mkPtok 40 "," 51 2 161)) (Some (mkPtok 36 "repeat" 41 0 134)) (InerObjectDecl (mkSpan (mkPtok 42 "options1" 44 0 137) (mkPtok 3 "}" 51 0 160)) (mkPtok 42 "options1" 44 0 137) (mkPtok 2 "{" 44 8 138) [(ObjectField (mkSpan (mkPtok 42 "string_" 45 0 140) (mkPtok 40 "," 46 7 142)) None (mkPtok 42 "string_" 45 0 140) None (Some (mkPtok 43 "`u8 x,`" 46 0 141)) (mkPtok 40 "," 46 7 142)); (MetaField (mkSpan (mkPtok 16 "char[]" 46 8 143) (mkPtok 40 "," 47 4 146)) None (mkMetaDecl (mkSpan (mkPtok 16 "char[]" 46 8 143) (mkPtok 40 "," 47 4 146)) (TyDynamic (mkSpan (mkPtok 16 "char[]" 46 8 143) (mkPtok 16 "char[]" 46 8 143)) (mkDynamicString (mkSpan (mkPtok 16 "char[]" 46 8 143) (mkPtok 16 "char[]" 46 8 143)) (mkPtok 16 "char[]" 46 8 143))) (mkPtok 42 "i8i8" 47 0 145) None (mkPtok 40 "," 47 4 146))); (CheckSumField (mkSpan (mkPtok 16 "char[]" 50 0 149) (mkPtok 40 "," 50 34 154)) (mkChecksumFieldDecl (mkSpan (mkPtok 16 "char[]" 50 0 149) (mkPtok 40 "," 50 34 154)) (Some (TyDynamic (mkSpan (mkPtok 16 "char[]" 50 0 149) (mkPtok 16 "char[]" 50 0 149)) (mkDynamicString (mkSpan (mkPtok 16 "char[]" 50 0 149) (mkPtok 16 "char[]" 50 0 149)) (mkPtok 16 "char[]" 50 0 149)))) (mkPtok 42 "Logon" 50 6 150) (mkCalculatedFrom (mkSpan (mkPtok 5 "@calculatedFrom(" 50 11 151) (mkPtok 6 ")" 50 32 153)) (mkPtok 5 "@calculatedFrom(" 50 11 151) (mkPtok 31 """1""" 50 28 152) (mkPtok 6 ")" 50 32 153)) None (mkPtok 40 "," 50 34 154))); (ObjectField (mkSpan (mkPtok 42 "a1" 50 36 155) (mkPtok 40 "," 50 56 158)) None (mkPtok 42 "a1" 50 36 155) (Some (mkPtok 42 "MetaDataX" 50 39 156)) (Some (mkPtok 43 "`u8 x,`" 50 48 157)) (mkPtok 40 "," 50 56 158))] (mkPtok 3 "}" 51 0 160)) (mkPtok 40 "," 51 2 161)))] (mkPtok 3 "}" 52 0 162)))])).
Eval vm_compute in ("<<<M598>>>" ++ check (runes_of_ascii "packet
x_y_z {As @lengthOf(repeatCount
    ) ,}
")).
Eval vm_compute in ("<<<M630>>>" ++ check (runes_of_ascii "
packet i8i8	{ } packet metadata {	zchar o , }//
packet  Pad { @lengthOf(calculatedFrom )packetx, float64 Header
    ,	char
    /// triple
    x// a // b
`u8 x,`	,
@tag( 42 ) zchar[ 1/// triple
]
int
    `doc`
,
}
")).
Eval vm_compute in ("<<<M662>>>" ++ check (runes_of_ascii "options { Z9_= ""1"" ; }
")).
Eval vm_compute in ("<<<M694>>>" ++ check (runes_of_ascii "MetaData i8i8
    /// triple
    {char[
1 ] // 50% %s
Foo ,}
")).
Eval vm_compute in ("<<<M726>>>" ++ check (runes_of_ascii "// " ++ [128512]%N ++ runes_of_ascii " emoji
MetaData packetx { matchKey len `say ""hi""` , } //	t
options// trailing space 
{	o = true //x
;
    }	options { }
//x
")).
Eval vm_compute in ("<<<M758>>>" ++ check (runes_of_ascii "packet float
    { @rightPad
( )
char[
4294967296 ]
    int , }
")).
Eval vm_compute in ("<<<M790>>>" ++ check (runes_of_ascii "// c
root	packet pack{ repeat char[ 007]
MetaDataX `say ""hi""`
, char[] x_y_z @lengthOf(u128 ) , @tag( 10
)
match
    falsey as string_ {  ""packet"" : u ,
42
: options1	, ""CRC32"" :
trueish ,
0123456789	:
    Packet, """ ++ [128512]%N ++ runes_of_ascii """
:trueish
4294967296 :// a // b
matchKey , }
,
} packet roots
    {
repeat f32a	{ // c
match trueish // c
as
// a // b
// trailing space 
x
/// triple
// trailing space 
{ // trailing space 
[""{,}""
, """ ++ [28040; 24687]%N ++ runes_of_ascii """ , 0  ,  ""abc"" , ""a\""b"" , 007
] :Foo
} /// triple
,
    } // c
,  @lengthOf( Z9_ )@tag( 7 )chars uint8x `it's`
, @calculatedFrom( ""a	b""
) crc { match
// c
// " ++ [128512]%N ++ runes_of_ascii " emoji
trueish as // packet A { u8 x, }
metadata	{ 65535
: string_ """ ++ [28040; 24687]%N ++ runes_of_ascii """ : Logon ,
},
    char[
    007 // " ++ [27880; 37322]%N ++ runes_of_ascii "
] falsey `100% of %d`
    , u128
@calculatedFrom(""{,}"" ) , }// c
,match
// packet A { u8 x, }
// 50% %s
a1 as As { """ ++ [233]%N ++ runes_of_ascii "t" ++ [233]%N ++ runes_of_ascii """ : asx 255:
As  ""// no comment""
:  string_
//
//x
, 0123456789	:
    Z9_, 65535 : // @lengthOf(
A 4294967296:
options1 , } , repeat
MetaDataX , Logon, @calculatedFrom(
""a\\""
    )
    // `tick` ""quote"" 'q'
    options1,
    @lengthOf(T	) roots, Foo
    @lengthOf( Pad ) , // " ++ [27880; 37322]%N ++ runes_of_ascii "
char[
    65535 ] len , }root // " ++ [27880; 37322]%N ++ runes_of_ascii "
packet	repeatCount{ // trailing space 
@calculatedFrom(	""CRC32"" )
@tag(7
)  @calculatedFrom( ""a\\"" ) u128 { metadata @calculatedFrom( ""// no comment""
)`two words`
    , }
    ,@rightPad( )
    repeat
    char[ 0123456789//
] MetaDataX, @calculatedFrom( ""x y"" ) stringy
    @lengthOf(metadata ) , Foo options1// @lengthOf(
, @leftPad (	'\x00'
// packet A { u8 x, }
// " ++ [128512]%N ++ runes_of_ascii " emoji
) @rightPad//	t
( )
i32 T
    , zchar[007 ]
a1	`" ++ [28040; 24687; 31867; 22411]%N ++ runes_of_ascii "` ,@lengthOf( uint8x )
MetaDataX @calculatedFrom(""\" ++ [233]%N ++ runes_of_ascii """ ) `line1
line2` ,
@calculatedFrom( ""a	b""
    /// triple
    )string matchKey	`doc` , @lengthOf( As
)// @lengthOf(
@calculatedFrom( ""// no comment""	)@tag( 10 ) string Foo,
    repeat lengthOf`// not a comment`
    , }
/// triple
")).
Eval vm_compute in ("<<<T790>>>" ++ terms [mkTok 44 "// c" 1 0 true; mkTok 34 "root" 2 0 false; mkTok 35 "packet" 2 5 false; mkTok 42 "pack" 2 12 false; mkTok 2 "{" 2 16 false; mkTok 36 "repeat" 2 18 false; mkTok 12 "char[" 2 25 false; mkTok 30 "007" 2 31 false; mkTok 13 "]" 2 34 false; mkTok 42 "MetaDataX" 3 0 false; mkTok 43 "`say ""hi""`" 3 10 false; mkTok 40 "," 4 0 false; mkTok 16 "char[]" 4 2 false; mkTok 42 "x_y_z" 4 9 false; mkTok 7 "@lengthOf(" 4 15 false; mkTok 42 "u128" 4 25 false; mkTok 6 ")" 4 30 false; mkTok 40 "," 4 32 false; mkTok 9 "@tag(" 4 34 false; mkTok 30 "10" 4 40 false; mkTok 6 ")" 5 0 false; mkTok 38 "match" 6 0 false; mkTok 42 "falsey" 7 4 false; mkTok 17 "as" 7 11 false; mkTok 42 "string_" 7 14 false; mkTok 2 "{" 7 22 false; mkTok 31 """packet""" 7 25 false; mkTok 39 ":" 7 34 false; mkTok 42 "u" 7 36 false; mkTok 40 "," 7 38 false; mkTok 30 "42" 8 0 false; mkTok 39 ":" 9 0 false; mkTok 42 "options1" 9 2 false; mkTok 40 "," 9 11 false; mkTok 31 """CRC32""" 9 13 false; mkTok 39 ":" 9 21 false; mkTok 42 "trueish" 10 0 false; mkTok 40 "," 10 8 false; mkTok 30 "0123456789" 11 0 false; mkTok 39 ":" 11 11 false; mkTok 42 "Packet" 12 4 false; mkTok 40 "," 12 10 false; mkTok 31 (string_of_bytes [34; 240; 159; 152; 128; 34]%N) 12 12 false; mkTok 39 ":" 13 0 false; mkTok 42 "trueish" 13 1 false; mkTok 30 "4294967296" 14 0 false; mkTok 39 ":" 14 11 false; mkTok 44 "// a // b" 14 12 true; mkTok 42 "matchKey" 15 0 false; mkTok 40 "," 15 9 false; mkTok 3 "}" 15 11 false; mkTok 40 "," 16 0 false; mkTok 3 "}" 17 0 false; mkTok 35 "packet" 17 2 false; mkTok 42 "roots" 17 9 false; mkTok 2 "{" 18 4 false; mkTok 36 "repeat" 19 0 false; mkTok 42 "f32a" 19 7 false; mkTok 2 "{" 19 12 false; mkTok 44 "// c" 19 14 true; mkTok 38 "match" 20 0 false; mkTok 42 "trueish" 20 6 false; mkTok 44 "// c" 20 14 true; mkTok 17 "as" 21 0 false; mkTok 44 "// a // b" 22 0 true; mkTok 44 "// trailing space " 23 0 true; mkTok 42 "x" 24 0 false; mkTok 44 "/// triple" 25 0 true; mkTok 44 "// trailing space " 26 0 true; mkTok 2 "{" 27 0 false; mkTok 44 "// trailing space " 27 2 true; mkTok 18 "[" 28 0 false; mkTok 31 """{,}""" 28 1 false; mkTok 40 "," 29 0 false; mkTok 31 (string_of_bytes [34; 230; 182; 136; 230; 129; 175; 34]%N) 29 2 false; mkTok 40 "," 29 7 false; mkTok 30 "0" 29 9 false; mkTok 40 "," 29 12 false; mkTok 31 """abc""" 29 15 false; mkTok 40 "," 29 21 false; mkTok 31 """a\""b""" 29 23 false; mkTok 40 "," 29 30 false; mkTok 30 "007" 29 32 false; mkTok 13 "]" 30 0 false; mkTok 39 ":" 30 2 false; mkTok 42 "Foo" 30 3 false; mkTok 3 "}" 31 0 false; mkTok 44 "/// triple" 31 2 true; mkTok 40 "," 32 0 false; mkTok 3 "}" 33 4 false; mkTok 44 "// c" 33 6 true; mkTok 40 "," 34 0 false; mkTok 7 "@lengthOf(" 34 3 false; mkTok 42 "Z9_" 34 14 false; mkTok 6 ")" 34 18 false; mkTok 9 "@tag(" 34 19 false; mkTok 30 "7" 34 25 false; mkTok 6 ")" 34 27 false; mkTok 42 "chars" 34 28 false; mkTok 42 "uint8x" 34 34 false; mkTok 43 "`it's`" 34 41 false; mkTok 40 "," 35 0 false; mkTok 5 "@calculatedFrom(" 35 2 false; mkTok 31 (string_of_bytes [34; 97; 9; 98; 34]%N) 35 19 false; mkTok 6 ")" 36 0 false; mkTok 42 "crc" 36 2 false; mkTok 2 "{" 36 6 false; mkTok 38 "match" 36 8 false; mkTok 44 "// c" 37 0 true; mkTok 44 (string_of_bytes [47; 47; 32; 240; 159; 152; 128; 32; 101; 109; 111; 106; 105]%N) 38 0 true; mkTok 42 "trueish" 39 0 false; mkTok 17 "as" 39 8 false; mkTok 44 "// packet A { u8 x, }" 39 11 true; mkTok 42 "metadata" 40 0 false; mkTok 2 "{" 40 9 false; mkTok 30 "65535" 40 11 false; mkTok 39 ":" 41 0 false; mkTok 42 "string_" 41 2 false; mkTok 31 (string_of_bytes [34; 230; 182; 136; 230; 129; 175; 34]%N) 41 10 false; mkTok 39 ":" 41 15 false; mkTok 42 "Logon" 41 17 false; mkTok 40 "," 41 23 false; mkTok 3 "}" 42 0 false; mkTok 40 "," 42 1 false; mkTok 12 "char[" 43 4 false; mkTok 30 "007" 44 4 false; mkTok 44 (string_of_bytes [47; 47; 32; 230; 179; 168; 233; 135; 138]%N) 44 8 true; mkTok 13 "]" 45 0 false; mkTok 42 "falsey" 45 2 false; mkTok 43 "`100% of %d`" 45 9 false; mkTok 40 "," 46 4 false; mkTok 42 "u128" 46 6 false; mkTok 5 "@calculatedFrom(" 47 0 false; mkTok 31 """{,}""" 47 16 false; mkTok 6 ")" 47 22 false; mkTok 40 "," 47 24 false; mkTok 3 "}" 47 26 false; mkTok 44 "// c" 47 27 true; mkTok 40 "," 48 0 false; mkTok 38 "match" 48 1 false; mkTok 44 "// packet A { u8 x, }" 49 0 true; mkTok 44 "// 50% %s" 50 0 true; mkTok 42 "a1" 51 0 false; mkTok 17 "as" 51 3 false; mkTok 42 "As" 51 6 false; mkTok 2 "{" 51 9 false; mkTok 31 (string_of_bytes [34; 195; 169; 116; 195; 169; 34]%N) 51 11 false; mkTok 39 ":" 51 17 false; mkTok 42 "asx" 51 19 false; mkTok 30 "255" 51 23 false; mkTok 39 ":" 51 26 false; mkTok 42 "As" 52 0 false; mkTok 31 """// no comment""" 52 4 false; mkTok 39 ":" 53 0 false; mkTok 42 "string_" 53 3 false; mkTok 44 "//" 54 0 true; mkTok 44 "//x" 55 0 true; mkTok 40 "," 56 0 false; mkTok 30 "0123456789" 56 2 false; mkTok 39 ":" 56 13 false; mkTok 42 "Z9_" 57 4 false; mkTok 40 "," 57 7 false; mkTok 30 "65535" 57 9 false; mkTok 39 ":" 57 15 false; mkTok 44 "// @lengthOf(" 57 17 true; mkTok 42 "A" 58 0 false; mkTok 30 "4294967296" 58 2 false; mkTok 39 ":" 58 12 false; mkTok 42 "options1" 59 0 false; mkTok 40 "," 59 9 false; mkTok 3 "}" 59 11 false; mkTok 40 "," 59 13 false; mkTok 36 "repeat" 59 15 false; mkTok 42 "MetaDataX" 60 0 false; mkTok 40 "," 60 10 false; mkTok 42 "Logon" 60 12 false; mkTok 40 "," 60 17 false; mkTok 5 "@calculatedFrom(" 60 19 false; mkTok 31 """a\\""" 61 0 false; mkTok 6 ")" 62 4 false; mkTok 44 "// `tick` ""quote"" 'q'" 63 4 true; mkTok 42 "options1" 64 4 false; mkTok 40 "," 64 12 false; mkTok 7 "@lengthOf(" 65 4 false; mkTok 42 "T" 65 14 false; mkTok 6 ")" 65 16 false; mkTok 42 "roots" 65 18 false; mkTok 40 "," 65 23 false; mkTok 42 "Foo" 65 25 false; mkTok 7 "@lengthOf(" 66 4 false; mkTok 42 "Pad" 66 15 false; mkTok 6 ")" 66 19 false; mkTok 40 "," 66 21 false; mkTok 44 (string_of_bytes [47; 47; 32; 230; 179; 168; 233; 135; 138]%N) 66 23 true; mkTok 12 "char[" 67 0 false; mkTok 30 "65535" 68 4 false; mkTok 13 "]" 68 10 false; mkTok 42 "len" 68 12 false; mkTok 40 "," 68 16 false; mkTok 3 "}" 68 18 false; mkTok 34 "root" 68 19 false; mkTok 44 (string_of_bytes [47; 47; 32; 230; 179; 168; 233; 135; 138]%N) 68 24 true; mkTok 35 "packet" 69 0 false; mkTok 42 "repeatCount" 69 7 false; mkTok 2 "{" 69 18 false; mkTok 44 "// trailing space " 69 20 true; mkTok 5 "@calculatedFrom(" 70 0 false; mkTok 31 """CRC32""" 70 17 false; mkTok 6 ")" 70 25 false; mkTok 9 "@tag(" 71 0 false; mkTok 30 "7" 71 5 false; mkTok 6 ")" 72 0 false; mkTok 5 "@calculatedFrom(" 72 3 false; mkTok 31 """a\\""" 72 20 false; mkTok 6 ")" 72 26 false; mkTok 42 "u128" 72 28 false; mkTok 2 "{" 72 33 false; mkTok 42 "metadata" 72 35 false; mkTok 5 "@calculatedFrom(" 72 44 false; mkTok 31 """// no comment""" 72 61 false; mkTok 6 ")" 73 0 false; mkTok 43 "`two words`" 73 1 false; mkTok 40 "," 74 4 false; mkTok 3 "}" 74 6 false; mkTok 40 "," 75 4 false; mkTok 32 "@rightPad" 75 5 false; mkTok 8 "(" 75 14 false; mkTok 6 ")" 75 16 false; mkTok 36 "repeat" 76 4 false; mkTok 12 "char[" 77 4 false; mkTok 30 "0123456789" 77 10 false; mkTok 44 "//" 77 20 true; mkTok 13 "]" 78 0 false; mkTok 42 "MetaDataX" 78 2 false; mkTok 40 "," 78 11 false; mkTok 5 "@calculatedFrom(" 78 13 false; mkTok 31 """x y""" 78 30 false; mkTok 6 ")" 78 36 false; mkTok 42 "stringy" 78 38 false; mkTok 7 "@lengthOf(" 79 4 false; mkTok 42 "metadata" 79 14 false; mkTok 6 ")" 79 23 false; mkTok 40 "," 79 25 false; mkTok 42 "Foo" 79 27 false; mkTok 42 "options1" 79 31 false; mkTok 44 "// @lengthOf(" 79 39 true; mkTok 40 "," 80 0 false; mkTok 32 "@leftPad" 80 2 false; mkTok 8 "(" 80 11 false; mkTok 33 "'\x00'" 80 13 false; mkTok 44 "// packet A { u8 x, }" 81 0 true; mkTok 44 (string_of_bytes [47; 47; 32; 240; 159; 152; 128; 32; 101; 109; 111; 106; 105]%N) 82 0 true; mkTok 6 ")" 83 0 false; mkTok 32 "@rightPad" 83 2 false; mkTok 44 (string_of_bytes [47; 47; 9; 116]%N) 83 11 true; mkTok 8 "(" 84 0 false; mkTok 6 ")" 84 2 false; mkTok 26 "i32" 85 0 false; mkTok 42 "T" 85 4 false; mkTok 40 "," 86 4 false; mkTok 14 "zchar[" 86 6 false; mkTok 30 "007" 86 12 false; mkTok 13 "]" 86 16 false; mkTok 42 "a1" 87 0 false; mkTok 43 (string_of_bytes [96; 230; 182; 136; 230; 129; 175; 231; 177; 187; 229; 158; 139; 96]%N) 87 3 false; mkTok 40 "," 87 10 false; mkTok 7 "@lengthOf(" 87 11 false; mkTok 42 "uint8x" 87 22 false; mkTok 6 ")" 87 29 false; mkTok 42 "MetaDataX" 88 0 false; mkTok 5 "@calculatedFrom(" 88 10 false; mkTok 31 (string_of_bytes [34; 92; 195; 169; 34]%N) 88 26 false; mkTok 6 ")" 88 31 false; mkTok 43 (string_of_bytes [96; 108; 105; 110; 101; 49; 10; 108; 105; 110; 101; 50; 96]%N) 88 33 false; mkTok 40 "," 89 7 false; mkTok 5 "@calculatedFrom(" 90 0 false; mkTok 31 (string_of_bytes [34; 97; 9; 98; 34]%N) 90 17 false; mkTok 44 "/// triple" 91 4 true; mkTok 6 ")" 92 4 false; mkTok 15 "string" 92 5 false; mkTok 42 "matchKey" 92 12 false; mkTok 43 "`doc`" 92 21 false; mkTok 40 "," 92 27 false; mkTok 7 "@lengthOf(" 92 29 false; mkTok 42 "As" 92 40 false; mkTok 6 ")" 93 0 false; mkTok 44 "// @lengthOf(" 93 1 true; mkTok 5 "@calculatedFrom(" 94 0 false; mkTok 31 """// no comment""" 94 17 false; mkTok 6 ")" 94 33 false; mkTok 9 "@tag(" 94 34 false; mkTok 30 "10" 94 40 false; mkTok 6 ")" 94 43 false; mkTok 15 "string" 94 45 false; mkTok 42 "Foo" 94 52 false; mkTok 40 "," 94 55 false; mkTok 36 "repeat" 95 4 false; mkTok 42 "lengthOf" 95 11 false; mkTok 43 "`// not a comment`" 95 19 false; mkTok 40 "," 96 4 false; mkTok 3 "}" 96 6 false; mkTok 44 "/// triple" 97 0 true; mkTok 0 "<EOF>" 98 0 false] (mkPacket (mkPtok 34 "root" 2 0 1) (Some (mkPtok 3 "}" 96 6 300)) [(DPacket (mkPacketDef (mkSpan (mkPtok 34 "root" 2 0 1) (mkPtok 3 "}" 17 0 52)) (Some (mkPtok 34 "root" 2 0 1)) (mkPtok 35 "packet" 2 5 2) (mkPtok 42 "pack" 2 12 3) (mkPtok 2 "{" 2 16 4) [(mkFieldWithAttr (mkSpan (mkPtok 36 "repeat" 2 18 5) (mkPtok 40 "," 4 0 11)) [] (MetaField (mkSpan (mkPtok 36 "repeat" 2 18 5) (mkPtok 40 "," 4 0 11)) (Some (mkPtok 36 "repeat" 2 18 5)) (mkMetaDecl (mkSpan (mkPtok 12 "char[" 2 25 6) (mkPtok 40 "," 4 0 11)) (TyFixed (mkSpan (mkPtok 12 "char[" 2 25 6) (mkPtok 13 "]" 2 34 8)) (mkFixedString (mkSpan (mkPtok 12 "char[" 2 25 6) (mkPtok 13 "]" 2 34 8)) (mkPtok 12 "char[" 2 25 6) (mkPtok 30 "007" 2 31 7) (mkPtok 13 "]" 2 34 8))) (mkPtok 42 "MetaDataX" 3 0 9) (Some (mkPtok 43 "`say ""hi""`" 3 10 10)) (mkPtok 40 "," 4 0 11)))); (mkFieldWithAttr (mkSpan (mkPtok 16 "char[]" 4 2 12) (mkPtok 40 "," 4 32 17)) [] (LengthField (mkSpan (mkPtok 16 "char[]" 4 2 12) (mkPtok 40 "," 4 32 17)) (mkLengthFieldDecl (mkSpan (mkPtok 16 "char[]" 4 2 12) (mkPtok 40 "," 4 32 17)) (Some (TyDynamic (mkSpan (mkPtok 16 "char[]" 4 2 12) (mkPtok 16 "char[]" 4 2 12)) (mkDynamicString (mkSpan (mkPtok 16 "char[]" 4 2 12) (mkPtok 16 "char[]" 4 2 12)) (mkPtok 16 "char[]" 4 2 12)))) (mkPtok 42 "x_y_z" 4 9 13) (mkLengthOf (mkSpan (mkPtok 7 "@lengthOf(" 4 15 14) (mkPtok 6 ")" 4 30 16)) (mkPtok 7 "@lengthOf(" 4 15 14) (mkPtok 42 "u128" 4 25 15) (mkPtok 6 ")" 4 30 16)) None (mkPtok 40 "," 4 32 17)))); (mkFieldWithAttr (mkSpan (mkPtok 9 "@tag(" 4 34 18) (mkPtok 40 "," 16 0 51)) [(FATag (mkSpan (mkPtok 9 "@tag(" 4 34 18) (mkPtok 6 ")" 5 0 20)) (mkTagAttr (mkSpan (mkPtok 9 "@tag(" 4 34 18) (mkPtok 6 ")" 5 0 20)) (mkPtok 9 "@tag(" 4 34 18) (mkPtok 30 "10" 4 40 19) (mkPtok 6 ")" 5 0 20)))] (MatchField (mkSpan (mkPtok 38 "match" 6 0 21) (mkPtok 40 "," 16 0 51)) (mkMatchFieldDecl (mkSpan (mkPtok 38 "match" 6 0 21) (mkPtok 3 "}" 15 11 50)) (mkPtok 38 "match" 6 0 21) (mkPtok 42 "falsey" 7 4 22) (mkPtok 17 "as" 7 11 23) (mkPtok 42 "string_" 7 14 24) (mkPtok 2 "{" 7 22 25) [(mkMatchPair (mkSpan (mkPtok 31 """packet""" 7 25 26) (mkPtok 40 "," 7 38 29)) (MKString (mkPtok 31 """packet""" 7 25 26)) (mkPtok 39 ":" 7 34 27) (mkPtok 42 "u" 7 36 28) (Some (mkPtok 40 "," 7 38 29))); (mkMatchPair (mkSpan (mkPtok 30 "42" 8 0 30) (mkPtok 40 "," 9 11 33)) (MKDigits (mkPtok 30 "42" 8 0 30)) (mkPtok 39 ":" 9 0 31) (mkPtok 42 "options1" 9 2 32) (Some (mkPtok 40 "," 9 11 33))); (mkMatchPair (mkSpan (mkPtok 31 """CRC32""" 9 13 34) (mkPtok 40 "," 10 8 37)) (MKString (mkPtok 31 """CRC32""" 9 13 34)) (mkPtok 39 ":" 9 21 35) (mkPtok 42 "trueish" 10 0 36) (Some (mkPtok 40 "," 10 8 37))); (mkMatchPair (mkSpan (mkPtok 30 "0123456789" 11 0 38) (mkPtok 40 "," 12 10 41)) (MKDigits (mkPtok 30 "0123456789" 11 0 38)) (mkPtok 39 ":" 11 11 39) (mkPtok 42 "Packet" 12 4 40) (Some (mkPtok 40 "," 12 10 41))); (mkMatchPair (mkSpan (mkPtok 31 (string_of_bytes [34; 240; 159; 152; 128; 34]%N) 12 12 42) (mkPtok 42 "trueish" 13 1 44)) (MKString (mkPtok 31 (string_of_bytes [34; 240; 159; 152; 128; 34]%N) 12 12 42)) (mkPtok 39 ":" 13 0 43) (mkPtok 42 "trueish" 13 1 44) None); (mkMatchPair (mkSpan (mkPtok 30 "4294967296" 14 0 45) (mkPtok 40 "," 15 9 49)) (MKDigits (mkPtok 30 "4294967296" 14 0 45)) (mkPtok 39 ":" 14 11 46) (mkPtok 42 "matchKey" 15 0 48) (Some (mkPtok 40 "," 15 9 49)))] (mkPtok 3 "}" 15 11 50)) (mkPtok 40 "," 16 0 51)))] (mkPtok 3 "}" 17 0 52))); (DPacket (mkPacketDef (mkSpan (mkPtok 35 "packet" 17 2 53) (mkPtok 3 "}" 68 18 199)) None (mkPtok 35 "packet" 17 2 53) (mkPtok 42 "roots" 17 9 54) (mkPtok 2 "{" 18 4 55) [(mkFieldWithAttr (mkSpan (mkPtok 36 "repeat" 19 0 56) (mkPtok 40 "," 34 0 91)) [] (InerObjectField (mkSpan (mkPtok 36 "repeat" 19 0 56) (mkPtok 40 "," 34 0 91)) (Some (mkPtok 36 "repeat" 19 0 56)) (InerObjectDecl (mkSpan (mkPtok 42 "f32a" 19 7 57) (mkPtok 3 "}" 33 4 89)) (mkPtok 42 "f32a" 19 7 57) (mkPtok 2 "{" 19 12 58) [(MatchField (mkSpan (mkPtok 38 "match" 20 0 60) (mkPtok 40 "," 32 0 88)) (mkMatchFieldDecl (mkSpan (mkPtok 38 "match" 20 0 60) (mkPtok 3 "}" 31 0 86)) (mkPtok 38 "match" 20 0 60) (mkPtok 42 "trueish" 20 6 61) (mkPtok 17 "as" 21 0 63) (mkPtok 42 "x" 24 0 66) (mkPtok 2 "{" 27 0 69) [(mkMatchPair (mkSpan (mkPtok 18 "[" 28 0 71) (mkPtok 42 "Foo" 30 3 85)) (MKList (mkKeyList (mkSpan (mkPtok 18 "[" 28 0 71) (mkPtok 13 "]" 30 0 83)) (mkPtok 18 "[" 28 0 71) (mkPtok 31 """{,}""" 28 1 72) [((mkPtok 40 "," 29 0 73), (mkPtok 31 (string_of_bytes [34; 230; 182; 136; 230; 129; 175; 34]%N) 29 2 74)); ((mkPtok 40 "," 29 7 75), (mkPtok 30 "0" 29 9 76)); ((mkPtok 40 "," 29 12 77), (mkPtok 31 """abc""" 29 15 78)); ((mkPtok 40 "," 29 21 79), (mkPtok 31 """a\""b""" 29 23 80)); ((mkPtok 40 "," 29 30 81), (mkPtok 30 "007" 29 32 82))] (mkPtok 13 "]" 30 0 83))) (mkPtok 39 ":" 30 2 84) (mkPtok 42 "Foo" 30 3 85) None)] (mkPtok 3 "}" 31 0 86)) (mkPtok 40 "," 32 0 88))] (mkPtok 3 "}" 33 4 89)) (mkPtok 40 "," 34 0 91))); (mkFieldWithAttr (mkSpan (mkPtok 7 "@lengthOf(" 34 3 92) (mkPtok 40 "," 35 0 101)) [(FALengthOf (mkSpan (mkPtok 7 "@lengthOf(" 34 3 92) (mkPtok 6 ")" 34 18 94)) (mkLengthOf (mkSpan (mkPtok 7 "@lengthOf(" 34 3 92) (mkPtok 6 ")" 34 18 94)) (mkPtok 7 "@lengthOf(" 34 3 92) (mkPtok 42 "Z9_" 34 14 93) (mkPtok 6 ")" 34 18 94))); (FATag (mkSpan (mkPtok 9 "@tag(" 34 19 95) (mkPtok 6 ")" 34 27 97)) (mkTagAttr (mkSpan (mkPtok 9 "@tag(" 34 19 95) (mkPtok 6 ")" 34 27 97)) (mkPtok 9 "@tag(" 34 19 95) (mkPtok 30 "7" 34 25 96) (mkPtok 6 ")" 34 27 97)))] (ObjectField (mkSpan (mkPtok 42 "chars" 34 28 98) (mkPtok 40 "," 35 0 101)) None (mkPtok 42 "chars" 34 28 98) (Some (mkPtok 42 "uint8x" 34 34 99)) (Some (mkPtok 43 "`it's`" 34 41 100)) (mkPtok 40 "," 35 0 101))); (mkFieldWithAttr (mkSpan (mkPtok 5 "@calculatedFrom(" 35 2 102) (mkPtok 40 "," 48 0 138)) [(FACalculatedFrom (mkSpan (mkPtok 5 "@calculatedFrom(" 35 2 102) (mkPtok 6 ")" 36 0 104)) (mkCalculatedFrom (mkSpan (mkPtok 5 "@calculatedFrom(" 35 2 102) (mkPtok 6 ")" 36 0 104)) (mkPtok 5 "@calculatedFrom(" 35 2 102) (mkPtok 31 (string_of_bytes [34; 97; 9; 98; 34]%N) 35 19 103) (mkPtok 6 ")" 36 0 104)))] (InerObjectField (mkSpan (mkPtok 42 "crc" 36 2 105) (mkPtok 40 "," 48 0 138)) None (InerObjectDecl (mkSpan (mkPtok 42 "crc" 36 2 105) (mkPtok 3 "}" 47 26 136)) (mkPtok 42 "crc" 36 2 105) (mkPtok 2 "{" 36 6 106) [(MatchField (mkSpan (mkPtok 38 "match" 36 8 107) (mkPtok 40 "," 42 1 123)) (mkMatchFieldDecl (mkSpan (mkPtok 38 "match" 36 8 107) (mkPtok 3 "}" 42 0 122)) (mkPtok 38 "match" 36 8 107) (mkPtok 42 "trueish" 39 0 110) (mkPtok 17 "as" 39 8 111) (mkPtok 42 "metadata" 40 0 113) (mkPtok 2 "{" 40 9 114) [(mkMatchPair (mkSpan (mkPtok 30 "65535" 40 11 115) (mkPtok 42 "string_" 41 2 117)) (MKDigits (mkPtok 30 "65535" 40 11 115)) (mkPtok 39 ":" 41 0 116) (mkPtok 42 "string_" 41 2 117) None); (mkMatchPair (mkSpan (mkPtok 31 (string_of_bytes [34; 230; 182; 136; 230; 129; 175; 34]%N) 41 10 118) (mkPtok 40 "," 41 23 121)) (MKString (mkPtok 31 (string_of_bytes [34; 230; 182; 136; 230; 129; 175; 34]%N) 41 10 118)) (mkPtok 39 ":" 41 15 119) (mkPtok 42 "Logon" 41 17 120) (Some (mkPtok 40 "," 41 23 121)))] (mkPtok 3 "}" 42 0 122)) (mkPtok 40 "," 42 1 123)); (MetaField (mkSpan (mkPtok 12 "char[" 43 4 124) (mkPtok 40 "," 46 4 130)) None (mkMetaDecl (mkSpan (mkPtok 12 "char[" 43 4 124) (mkPtok 40 "," 46 4 130)) (TyFixed (mkSpan (mkPtok 12 "char[" 43 4 124) (mkPtok 13 "]" 45 0 127)) (mkFixedString (mkSpan (mkPtok 12 "char[" 43 4 124) (mkPtok 13 "]" 45 0 127)) (mkPtok 12 "char[" 43 4 124) (mkPtok 30 "007" 44 4 125) (mkPtok 13 "]" 45 0 127))) (mkPtok 42 "falsey" 45 2 128) (Some (mkPtok 43 "`100% of %d`" 45 9 129)) (mkPtok 40 "," 46 4 130))); (CheckSumField (mkSpan (mkPtok 42 "u128" 46 6 131) (mkPtok 40 "," 47 24 135)) (mkChecksumFieldDecl (mkSpan (mkPtok 42 "u128" 46 6 131) (mkPtok 40 "," 47 24 135)) None (mkPtok 42 "u128" 46 6 131) (mkCalculatedFrom (mkSpan (mkPtok 5 "@calculatedFrom(" 47 0 132) (mkPtok 6 ")" 47 22 134)) (mkPtok 5 "@calculatedFrom(" 47 0 132) (mkPtok 31 """{,}""" 47 16 133) (mkPtok 6 ")" 47 22 134)) None (mkPtok 40 "," 47 24 135)))] (mkPtok 3 "}" 47 26 136)) (mkPtok 40 "," 48 0 138))); (mkFieldWithAttr (mkSpan (mkPtok 38 "match" 48 1 139) (mkPtok 40 "," 59 13 171)) [] (MatchField (mkSpan (mkPtok 38 "match" 48 1 139) (mkPtok 40 "," 59 13 171)) (mkMatchFieldDecl (mkSpan (mkPtok 38 "match" 48 1 139) (mkPtok 3 "}" 59 11 170)) (mkPtok 38 "match" 48 1 139) (mkPtok 42 "a1" 51 0 142) (mkPtok 17 "as" 51 3 143) (mkPtok 42 "As" 51 6 144) (mkPtok 2 "{" 51 9 145) [(mkMatchPair (mkSpan (mkPtok 31 (string_of_bytes [34; 195; 169; 116; 195; 169; 34]%N) 51 11 146) (mkPtok 42 "asx" 51 19 148)) (MKString (mkPtok 31 (string_of_bytes [34; 195; 169; 116; 195; 169; 34]%N) 51 11 146)) (mkPtok 39 ":" 51 17 147) (mkPtok 42 "asx" 51 19 148) None); (mkMatchPair (mkSpan (mkPtok 30 "255" 51 23 149) (mkPtok 42 "As" 52 0 151)) (MKDigits (mkPtok 30 "255" 51 23 149)) (mkPtok 39 ":" 51 26 150) (mkPtok 42 "As" 52 0 151) None); (mkMatchPair (mkSpan (mkPtok 31 """// no comment""" 52 4 152) (mkPtok 40 "," 56 0 157)) (MKString (mkPtok 31 """// no comment""" 52 4 152)) (mkPtok 39 ":" 53 0 153) (mkPtok 42 "string_" 53 3 154) (Some (mkPtok 40 "," 56 0 157))); (mkMatchPair (mkSpan (mkPtok 30 "0123456789" 56 2 158) (mkPtok 40 "," 57 7 161)) (MKDigits (mkPtok 30 "0123456789" 56 2 158)) (mkPtok 39 ":" 56 13 159) (mkPtok 42 "Z9_" 57 4 160) (Some (mkPtok 40 "," 57 7 161))); (mkMatchPair (mkSpan (mkPtok 30 "65535" 57 9 162) (mkPtok 42 "A" 58 0 165)) (MKDigits (mkPtok 30 "65535" 57 9 162)) (mkPtok 39 ":" 57 15 163) (mkPtok 42 "A" 58 0 165) None); (mkMatchPair (mkSpan (mkPtok 30 "4294967296" 58 2 166) (mkPtok 40 "," 59 9 169)) (MKDigits (mkPtok 30 "4294967296" 58 2 166)) (mkPtok 39 ":" 58 12 167) (mkPtok 42 "options1" 59 0 168) (Some (mkPtok 40 "," 59 9 169)))] (mkPtok 3 "}" 59 11 170)) (mkPtok 40 "," 59 13 171))); (mkFieldWithAttr (mkSpan (mkPtok 36 "repeat" 59 15 172) (mkPtok 40 "," 60 10 174)) [] (ObjectField (mkSpan (mkPtok 36 "repeat" 59 15 172) (mkPtok 40 "," 60 10 174)) (Some (mkPtok 36 "repeat" 59 15 172)) (mkPtok 42 "MetaDataX" 60 0 173) None None (mkPtok 40 "," 60 10 174))); (mkFieldWithAttr (mkSpan (mkPtok 42 "Logon" 60 12 175) (mkPtok 40 "," 60 17 176)) [] (ObjectField (mkSpan (mkPtok 42 "Logon" 60 12 175) (mkPtok 40 "," 60 17 176)) None (mkPtok 42 "Logon" 60 12 175) None None (mkPtok 40 "," 60 17 176))); (mkFieldWithAttr (mkSpan (mkPtok 5 "@calculatedFrom(" 60 19 177) (mkPtok 40 "," 64 12 182)) [(FACalculatedFrom (mkSpan (mkPtok 5 "@calculatedFrom(" 60 19 177) (mkPtok 6 ")" 62 4 179)) (mkCalculatedFrom (mkSpan (mkPtok 5 "@calculatedFrom(" 60 19 177) (mkPtok 6 ")" 62 4 179)) (mkPtok 5 "@calculatedFrom(" 60 19 177) (mkPtok 31 """a\\""" 61 0 178) (mkPtok 6 ")" 62 4 179)))] (ObjectField (mkSpan (mkPtok 42 "options1" 64 4 181) (mkPtok 40 "," 64 12 182)) None (mkPtok 42 "options1" 64 4 181) None None (mkPtok 40 "," 64 12 182))); (mkFieldWithAttr (mkSpan (mkPtok 7 "@lengthOf(" 65 4 183) (mkPtok 40 "," 65 23 187)) [(FALengthOf (mkSpan (mkPtok 7 "@lengthOf(" 65 4 183) (mkPtok 6 ")" 65 16 185)) (mkLengthOf (mkSpan (mkPtok 7 "@lengthOf(" 65 4 183) (mkPtok 6 ")" 65 16 185)) (mkPtok 7 "@lengthOf(" 65 4 183) (mkPtok 42 "T" 65 14 184) (mkPtok 6 ")" 65 16 185)))] (ObjectField (mkSpan (mkPtok 42 "roots" 65 18 186) (mkPtok 40 "," 65 23 187)) None (mkPtok 42 "roots" 65 18 186) None None (mkPtok 40 "," 65 23 187))); (mkFieldWithAttr (mkSpan (mkPtok 42 "Foo" 65 25 188) (mkPtok 40 "," 66 21 192)) [] (LengthField (mkSpan (mkPtok 42 "Foo" 65 25 188) (mkPtok 40 "," 66 21 192)) (mkLengthFieldDecl (mkSpan (mkPtok 42 "Foo" 65 25 188) (mkPtok 40 "," 66 21 192)) None (mkPtok 42 "Foo" 65 25 188) (mkLengthOf (mkSpan (mkPtok 7 "@lengthOf(" 66 4 189) (mkPtok 6 ")" 66 19 191)) (mkPtok 7 "@lengthOf(" 66 4 189) (mkPtok 42 "Pad" 66 15 190) (mkPtok 6 ")" 66 19 191)) None (mkPtok 40 "," 66 21 192)))); (mkFieldWithAttr (mkSpan (mkPtok 12 "char[" 67 0 194) (mkPtok 40 "," 68 16 198)) [] (MetaField (mkSpan (mkPtok 12 "char[" 67 0 194) (mkPtok 40 "," 68 16 198)) None (mkMetaDecl (mkSpan (mkPtok 12 "char[" 67 0 194) (mkPtok 40 "," 68 16 198)) (TyFixed (mkSpan (mkPtok 12 "char[" 67 0 194) (mkPtok 13 "]" 68 10 196)) (mkFixedString (mkSpan (mkPtok 12 "char[" 67 0 194) (mkPtok 13 "]" 68 10 196)) (mkPtok 12 "char[" 67 0 194) (mkPtok 30 "65535" 68 4 195) (mkPtok 13 "]" 68 10 196))) (mkPtok 42 "len" 68 12 197) None (mkPtok 40 "," 68 16 198))))] (mkPtok 3 "}" 68 18 199))); (DPacket (mkPacketDef (mkSpan (mkPtok 34 "root" 68 19 200) (mkPtok 3 "}" 96 6 300)) (Some (mkPtok 34 "root" 68 19 200)) (mkPtok 35 "packet" 69 0 202) (mkPtok 42 "repeatCount" 69 7 203) (mkPtok 2 "{" 69 18 204) [(mkFieldWithAttr (mkSpan (mkPtok 5 "@calculatedFrom(" 70 0 206) (mkPtok 40 "," 75 4 224)) [(FACalculatedFrom (mkSpan (mkPtok 5 "@calculatedFrom(" 70 0 206) (mkPtok 6 ")" 70 25 208)) (mkCalculatedFrom (mkSpan (mkPtok 5 "@calculatedFrom(" 70 0 206) (mkPtok 6 ")" 70 25 208)) (mkPtok 5 "@calculatedFrom(" 70 0 206) (mkPtok 31 """CRC32""" 70 17 207) (mkPtok 6 ")" 70 25 208))); (FATag (mkSpan (mkPtok 9 "@tag(" 71 0 209) (mkPtok 6 ")" 72 0 211)) (mkTagAttr (mkSpan (mkPtok 9 "@tag(" 71 0 209) (mkPtok 6 ")" 72 0 211)) (mkPtok 9 "@tag(" 71 0 209) (mkPtok 30 "7" 71 5 210) (mkPtok 6 ")" 72 0 211))); (FACalculatedFrom (mkSpan (mkPtok 5 "@calculatedFrom(" 72 3 212) (mkPtok 6 ")" 72 26 214)) (mkCalculatedFrom (mkSpan (mkPtok 5 "@calculatedFrom(" 72 3 212) (mkPtok 6 ")" 72 26 214)) (mkPtok 5 "@calculatedFrom(" 72 3 212) (mkPtok 31 """a\\""" 72 20 213) (mkPtok 6 ")" 72 26 214)))] (InerObjectField (mkSpan (mkPtok 42 "u128" 72 28 215) (mkPtok 40 "," 75 4 224)) None (InerObjectDecl (mkSpan (mkPtok 42 "u128" 72 28 215) (mkPtok 3 "}" 74 6 223)) (mkPtok 42 "u128" 72 28 215) (mkPtok 2 "{" 72 33 216) [(CheckSumField (mkSpan (mkPtok 42 "metadata" 72 35 217) (mkPtok 40 "," 74 4 222)) (mkChecksumFieldDecl (mkSpan (mkPtok 42 "metadata" 72 35 217) (mkPtok 40 "," 74 4 222)) None (mkPtok 42 "metadata" 72 35 217) (mkCalculatedFrom (mkSpan (mkPtok 5 "@calculatedFrom(" 72 44 218) (mkPtok 6 ")" 73 0 220)) (mkPtok 5 "@calculatedFrom(" 72 44 218) (mkPtok 31 """// no comment""" 72 61 219) (mkPtok 6 ")" 73 0 220)) (Some (mkPtok 43 "`two words`" 73 1 221)) (mkPtok 40 "," 74 4 222)))] (mkPtok 3 "}" 74 6 223)) (mkPtok 40 "," 75 4 224))); (mkFieldWithAttr (mkSpan (mkPtok 32 "@rightPad" 75 5 225) (mkPtok 40 "," 78 11 234)) [(FAPadding (mkSpan (mkPtok 32 "@rightPad" 75 5 225) (mkPtok 6 ")" 75 16 227)) (mkPaddingAttr (mkSpan (mkPtok 32 "@rightPad" 75 5 225) (mkPtok 6 ")" 75 16 227)) (mkPtok 32 "@rightPad" 75 5 225) (mkPtok 8 "(" 75 14 226) None (mkPtok 6 ")" 75 16 227)))] (MetaField (mkSpan (mkPtok 36 "repeat" 76 4 228) (mkPtok 40 "," 78 11 234)) (Some (mkPtok 36 "repeat" 76 4 228)) (mkMetaDecl (mkSpan (mkPtok 12 "char[" 77 4 229) (mkPtok 40 "," 78 11 234)) (TyFixed (mkSpan (mkPtok 12 "char[" 77 4 229) (mkPtok 13 "]" 78 0 232)) (mkFixedString (mkSpan (mkPtok 12 "char[" 77 4 229) (mkPtok 13 "]" 78 0 232)) (mkPtok 12 "char[" 77 4 229) (mkPtok 30 "0123456789" 77 10 230) (mkPtok 13 "]" 78 0 232))) (mkPtok 42 "MetaDataX" 78 2 233) None (mkPtok 40 "," 78 11 234)))); (mkFieldWithAttr (mkSpan (mkPtok 5 "@calculatedFrom(" 78 13 235) (mkPtok 40 "," 79 25 242)) [(FACalculatedFrom (mkSpan (mkPtok 5 "@calculatedFrom(" 78 13 235) (mkPtok 6 ")" 78 36 237)) (mkCalculatedFrom (mkSpan (mkPtok 5 "@calculatedFrom(" 78 13 235) (mkPtok 6 ")" 78 36 237)) (mkPtok 5 "@calculatedFrom(" 78 13 235) (mkPtok 31 """x y""" 78 30 236) (mkPtok 6 ")" 78 36 237)))] (LengthField (mkSpan (mkPtok 42 "stringy" 78 38 238) (mkPtok 40 "," 79 25 242)) (mkLengthFieldDecl (mkSpan (mkPtok 42 "stringy" 78 38 238) (mkPtok 40 "," 79 25 242)) None (mkPtok 42 "stringy" 78 38 238) (mkLengthOf (mkSpan (mkPtok 7 "@lengthOf(" 79 4 239) (mkPtok 6 ")" 79 23 241)) (mkPtok 7 "@lengthOf(" 79 4 239) (mkPtok 42 "metadata" 79 14 240) (mkPtok 6 ")" 79 23 241)) None (mkPtok 40 "," 79 25 242)))); (mkFieldWithAttr (mkSpan (mkPtok 42 "Foo" 79 27 243) (mkPtok 40 "," 80 0 246)) [] (ObjectField (mkSpan (mkPtok 42 "Foo" 79 27 243) (mkPtok 40 "," 80 0 246)) None (mkPtok 42 "Foo" 79 27 243) (Some (mkPtok 42 "options1" 79 31 244)) None (mkPtok 40 "," 80 0 246))); (mkFieldWithAttr (mkSpan (mkPtok 32 "@leftPad" 80 2 247) (mkPtok 40 "," 86 4 259)) [(FAPadding (mkSpan (mkPtok 32 "@leftPad" 80 2 247) (mkPtok 6 ")" 83 0 252)) (mkPaddingAttr (mkSpan (mkPtok 32 "@leftPad" 80 2 247) (mkPtok 6 ")" 83 0 252)) (mkPtok 32 "@leftPad" 80 2 247) (mkPtok 8 "(" 80 11 248) (Some (mkPtok 33 "'\x00'" 80 13 249)) (mkPtok 6 ")" 83 0 252))); (FAPadding (mkSpan (mkPtok 32 "@rightPad" 83 2 253) (mkPtok 6 ")" 84 2 256)) (mkPaddingAttr (mkSpan (mkPtok 32 "@rightPad" 83 2 253) (mkPtok 6 ")" 84 2 256)) (mkPtok 32 "@rightPad" 83 2 253) (mkPtok 8 "(" 84 0 255) None (mkPtok 6 ")" 84 2 256)))] (MetaField (mkSpan (mkPtok 26 "i32" 85 0 257) (mkPtok 40 "," 86 4 259)) None (mkMetaDecl (mkSpan (mkPtok 26 "i32" 85 0 257) (mkPtok 40 "," 86 4 259)) (TyBasic (mkSpan (mkPtok 26 "i32" 85 0 257) (mkPtok 26 "i32" 85 0 257)) (mkBasicType (mkSpan (mkPtok 26 "i32" 85 0 257) (mkPtok 26 "i32" 85 0 257)) (mkPtok 26 "i32" 85 0 257))) (mkPtok 42 "T" 85 4 258) None (mkPtok 40 "," 86 4 259)))); (mkFieldWithAttr (mkSpan (mkPtok 14 "zchar[" 86 6 260) (mkPtok 40 "," 87 10 265)) [] (MetaField (mkSpan (mkPtok 14 "zchar[" 86 6 260) (mkPtok 40 "," 87 10 265)) None (mkMetaDecl (mkSpan (mkPtok 14 "zchar[" 86 6 260) (mkPtok 40 "," 87 10 265)) (TyFixed (mkSpan (mkPtok 14 "zchar[" 86 6 260) (mkPtok 13 "]" 86 16 262)) (mkFixedString (mkSpan (mkPtok 14 "zchar[" 86 6 260) (mkPtok 13 "]" 86 16 262)) (mkPtok 14 "zchar[" 86 6 260) (mkPtok 30 "007" 86 12 261) (mkPtok 13 "]" 86 16 262))) (mkPtok 42 "a1" 87 0 263) (Some (mkPtok 43 (string_of_bytes [96; 230; 182; 136; 230; 129; 175; 231; 177; 187; 229; 158; 139; 96]%N) 87 3 264)) (mkPtok 40 "," 87 10 265)))); (mkFieldWithAttr (mkSpan (mkPtok 7 "@lengthOf(" 87 11 266) (mkPtok 40 "," 89 7 274)) [(FALengthOf (mkSpan (mkPtok 7 "@lengthOf(" 87 11 266) (mkPtok 6 ")" 87 29 268)) (mkLengthOf (mkSpan (mkPtok 7 "@lengthOf(" 87 11 266) (mkPtok 6 ")" 87 29 268)) (mkPtok 7 "@lengthOf(" 87 11 266) (mkPtok 42 "uint8x" 87 22 267) (mkPtok 6 ")" 87 29 268)))] (CheckSumField (mkSpan (mkPtok 42 "MetaDataX" 88 0 269) (mkPtok 40 "," 89 7 274)) (mkChecksumFieldDecl (mkSpan (mkPtok 42 "MetaDataX" 88 0 269) (mkPtok 40 "," 89 7 274)) None (mkPtok 42 "MetaDataX" 88 0 269) (mkCalculatedFrom (mkSpan (mkPtok 5 "@calculatedFrom(" 88 10 270) (mkPtok 6 ")" 88 31 272)) (mkPtok 5 "@calculatedFrom(" 88 10 270) (mkPtok 31 (string_of_bytes [34; 92; 195; 169; 34]%N) 88 26 271) (mkPtok 6 ")" 88 31 272)) (Some (mkPtok 43 (string_of_bytes [96; 108; 105; 110; 101; 49; 10; 108; 105; 110; 101; 50; 96]%N) 88 33 273)) (mkPtok 40 "," 89 7 274)))); (mkFieldWithAttr (mkSpan (mkPtok 5 "@calculatedFrom(" 90 0 275) (mkPtok 40 "," 92 27 282)) [(FACalculatedFrom (mkSpan (mkPtok 5 "@calculatedFrom(" 90 0 275) (mkPtok 6 ")" 92 4 278)) (mkCalculatedFrom (mkSpan (mkPtok 5 "@calculatedFrom(" 90 0 275) (mkPtok 6 ")" 92 4 278)) (mkPtok 5 "@calculatedFrom(" 90 0 275) (mkPtok 31 (string_of_bytes [34; 97; 9; 98; 34]%N) 90 17 276) (mkPtok 6 ")" 92 4 278)))] (MetaField (mkSpan (mkPtok 15 "string" 92 5 279) (mkPtok 40 "," 92 27 282)) None (mkMetaDecl (mkSpan (mkPtok 15 "string" 92 5 279) (mkPtok 40 "," 92 27 282)) (TyDynamic (mkSpan (mkPtok 15 "string" 92 5 279) (mkPtok 15 "string" 92 5 279)) (mkDynamicString (mkSpan (mkPtok 15 "string" 92 5 279) (mkPtok 15 "string" 92 5 279)) (mkPtok 15 "string" 92 5 279))) (mkPtok 42 "matchKey" 92 12 280) (Some (mkPtok 43 "`doc`" 92 21 281)) (mkPtok 40 "," 92 27 282)))); (mkFieldWithAttr (mkSpan (mkPtok 7 "@lengthOf(" 92 29 283) (mkPtok 40 "," 94 55 295)) [(FALengthOf (mkSpan (mkPtok 7 "@lengthOf(" 92 29 283) (mkPtok 6 ")" 93 0 285)) (mkLengthOf (mkSpan (mkPtok 7 "@lengthOf(" 92 29 283) (mkPtok 6 ")" 93 0 285)) (mkPtok 7 "@lengthOf(" 92 29 283) (mkPtok 42 "As" 92 40 284) (mkPtok 6 ")" 93 0 285))); (FACalculatedFrom (mkSpan (mkPtok 5 "@calculatedFrom(" 94 0 287) (mkPtok 6 ")" 94 33 289)) (mkCalculatedFrom (mkSpan (mkPtok 5 "@calculatedFrom(" 94 0 287) (mkPtok 6 ")" 94 33 289)) (mkPtok 5 "@calculatedFrom(" 94 0 287) (mkPtok 31 """// no comment""" 94 17 288) (mkPtok 6 ")" 94 33 289))); (FATag (mkSpan (mkPtok 9 "@tag(" 94 34 290) (mkPtok 6 ")" 94 43 292)) (mkTagAttr (mkSpan (mkPtok 9 "@tag(" 94 34 290) (mkPtok 6 ")" 94 43 292)) (mkPtok 9 "@tag(" 94 34 290) (mkPtok 30 "10" 94 40 291) (mkPtok 6 ")" 94 43 292)))] (MetaField (mkSpan (mkPtok 15 "string" 94 45 293) (mkPtok 40 "," 94 55 295)) None (mkMetaDecl (mkSpan (mkPtok 15 "string" 94 45 293) (mkPtok 40 "," 94 55 295)) (TyDynamic (mkSpan (mkPtok 15 "string" 94 45 293) (mkPtok 15 "string" 94 45 293)) (mkDynamicString (mkSpan (mkPtok 15 "string" 94 45 293) (mkPtok 15 "string" 94 45 293)) (mkPtok 15 "string" 94 45 293))) (mkPtok 42 "Foo" 94 52 294) None (mkPtok 40 "," 94 55 295)))); (mkFieldWithAttr (mkSpan (mkPtok 36 "repeat" 95 4 296) (mkPtok 40 "," 96 4 299)) [] (ObjectField (mkSpan (mkPtok 36 "repeat" 95 4 296) (mkPtok 40 "," 96 4 299)) (Some (mkPtok 36 "repeat" 95 4 296)) (mkPtok 42 "lengthOf" 95 11 297) None (Some (mkPtok 43 "`// not a comment`" 95 19 298)) (mkPtok 40 "," 96 4 299)))] (mkPtok 3 "}" 96 6 300)))])).
Eval vm_compute in ("<<<M822>>>" ++ check (runes_of_ascii "packet // trailing space 
falsey {@lengthOf( /// triple
i8i8
) uint8 falsey // packet A { u8 x, }
`two words`
    // " ++ [128512]%N ++ runes_of_ascii " emoji
    , @lengthOf( BodyLength )  @lengthOf(float  ) repeat MetaDataX// `tick` ""quote"" 'q'
{ repeat char[] metadata , }
, repeat
    u8
// " ++ [128512]%N ++ runes_of_ascii " emoji
/// triple
Logon ,
    }
// @lengthOf(
// c
packet
    matchKey{ } // @lengthOf(
packet u128 { /// triple
match //
msg_type as _x { [ ""`tick`"" ,
    42 ]: //x
x_y_z// 50% %s
} , } /// triple")).
Eval vm_compute in ("<<<M854>>>" ++ check (runes_of_ascii "MetaData
    charz	{ float BodyLength
    `a\` // packet A { u8 x, }
, chars
body
    ,  _x  crc `it's`
    ,
    u64
    Z9_
// packet A { u8 x, }
/// triple
,}
    options// @lengthOf(
{  As = '0' ;
    options1// trailing space 
=char[
    //x
    10
// a // b
// packet A { u8 x, }
]} packet	o { @leftPad
(
    /// triple
    ) match
asx as matchKey// 50% %s
{ 7
    //	t
    :
    leftPad , ""it's"" :crc[  0, 10
, 0123456789 , ""1"" ] : As  , [ 65535
,
"""", // `tick` ""quote"" 'q'
""it's""
, """ ++ [233]%N ++ runes_of_ascii "t" ++ [233]%N ++ runes_of_ascii """	, """ ++ [28040; 24687]%N ++ runes_of_ascii """, 007
// c
// `tick` ""quote"" 'q'
, 7 , """ ++ [128512]%N ++ runes_of_ascii """] : u8x,},
i32 pack @calculatedFrom(""" ++ [28040; 24687]%N ++ runes_of_ascii """ )	`
` ,
u{ Foo
    , uint16
float	@lengthOf(a1 ) ,
//
//x
repeat u8 len`it's` , char
MetaDataX
    //	t
    @calculatedFrom(// " ++ [27880; 37322]%N ++ runes_of_ascii "
""packet"" )
`two words` ,	} , char[4294967296
    ] zchar @calculatedFrom( ""a	b"" )
    ,	match	calculatedFrom as
    asx {
    ""1"" :matchKey  , ""\n"" : asx // c
,""`tick`""	:
Foo
    , ""{,}""
    :
pack ,
""a	b"" : //x
lengthOf
""\n"": MetaDataX, // c
}
,  } packet roots {
    o{float64 Logon@lengthOf( rootA )
`u8 x,` // c
, } ,
    char[] uint8x
`say ""hi""`
//
// " ++ [128512]%N ++ runes_of_ascii " emoji
,u ,repeat
i8i8 { match
leftPad as	Foo { ""\n"" // a // b
:
/// triple
// a // b
BodyLength	, [ // 50% %s
007
    ]
: T }
,
    match u as stringy
{ ""// no comment"":x_y_z ,}	,
u8 rootA //x
,  int64
pack , } ,
    string string_	@calculatedFrom(
// @lengthOf(
// " ++ [128512]%N ++ runes_of_ascii " emoji
""abc"" )
    // trailing space 
    `a\`, calculatedFrom// trailing space 
{	match
    i64_
    as
    // trailing space 
    rootA {
    [ ""packet""
] : // " ++ [27880; 37322]%N ++ runes_of_ascii "
charz,[""a\""b"" , ""abc"" , // c
0123456789
, ""a\\"" // " ++ [128512]%N ++ runes_of_ascii " emoji
,
    ""x y""
    ,
    ""// no comment"" ] :rootA  ""packet"" :lengthOf , ""// no comment"" : trueish
    , 0123456789: packetx[
0 ,
""\" ++ [233]%N ++ runes_of_ascii """
    , 0123456789
,""`tick`"" ] // packet A { u8 x, }
: msg_type	,}
, char[] msg_type
@lengthOf( pack),
repeat/// triple
char[] falsey ,
    //	t
    string_ _x
,
//	t
// 50% %s
}
    , }
")).
Eval vm_compute in ("<<<M886>>>" ++ check (runes_of_ascii "packet matchKey{
float64
Packet	`u8 x,`,
@lengthOf(
T )@lengthOf(chars // " ++ [27880; 37322]%N ++ runes_of_ascii "
)
    // `tick` ""quote"" 'q'
    @rightPad (
    ' '
    )string_ falsey ,
    // 50% %s
    @rightPad
    ( ) repeat charz {
    repeat
    //
    u16 len// " ++ [27880; 37322]%N ++ runes_of_ascii "
, i64 falsey// " ++ [128512]%N ++ runes_of_ascii " emoji
@calculatedFrom( // a // b
""{,}"" )
    // " ++ [128512]%N ++ runes_of_ascii " emoji
    , repeat // c
char[ 7 ] x_y_z
    `a\`
, len
    @lengthOf(
u) , }
, char	o //
`100% of %d` , uint8 chars @calculatedFrom(
// " ++ [27880; 37322]%N ++ runes_of_ascii "
// a // b
""\n"" ) , }root
packet leftPad
{ @rightPad	( ) u64 pack @calculatedFrom(
""packet"" )
    ,float32 BodyLength
    ,
    int32 packetx// packet A { u8 x, }
`it's` ,
    } packet float
    { stringy msg_type
    , Z9_	@calculatedFrom( ""1"" )
`u8 x,` , @lengthOf( Header
// @lengthOf(
// packet A { u8 x, }
)
    // a // b
    trueish
    @calculatedFrom( ""x y"" ), }")).
Eval vm_compute in ("<<<M918>>>" ++ check (runes_of_ascii "MetaData lengthOf
{ char[ 10 ]metadata	`two words`
,// 50% %s
chars	_x
, i32 len	`` , int16 // trailing space 
zchar
    `line1
line2`, calculatedFrom T
    ,
} packet x_y_z { @calculatedFrom( ""a	b"")
repeat Packet ,
BodyLength
`` ,
repeat float
u128 `say ""hi""`// @lengthOf(
,
    }
")).
Eval vm_compute in ("<<<M950>>>" ++ check (runes_of_ascii "packet A
    // " ++ [128512]%N ++ runes_of_ascii " emoji
    { @rightPad
(' ') uint32 o @calculatedFrom(
    """" ),
    } // a // b
packet
matchKey // `tick` ""quote"" 'q'
{ repeat chars
    ,	string chars `crlf
line`
//x
// " ++ [128512]%N ++ runes_of_ascii " emoji
, string
    x_y_z ,
A // packet A { u8 x, }
roots , @lengthOf( body )
    repeat zchar[  10
] x ,
    }options{
pack//
=
    ""abc""
    } // @lengthOf(")).
Eval vm_compute in ("<<<M982>>>" ++ check (runes_of_ascii "

")).
Eval vm_compute in ("<<<M1014>>>" ++ check (runes_of_ascii "packet chars { char[]
    Pad @lengthOf( u128 )
    // a // b
    `it's`,
@tag( 4294967296
    )
    MetaDataX tag`` , Logon `{ , }` ,}
")).
Eval vm_compute in ("<<<T1014>>>" ++ terms [mkTok 35 "packet" 1 0 false; mkTok 42 "chars" 1 7 false; mkTok 2 "{" 1 13 false; mkTok 16 "char[]" 1 15 false; mkTok 42 "Pad" 2 4 false; mkTok 7 "@lengthOf(" 2 8 false; mkTok 42 "u128" 2 19 false; mkTok 6 ")" 2 24 false; mkTok 44 "// a // b" 3 4 true; mkTok 43 "`it's`" 4 4 false; mkTok 40 "," 4 10 false; mkTok 9 "@tag(" 5 0 false; mkTok 30 "4294967296" 5 6 false; mkTok 6 ")" 6 4 false; mkTok 42 "MetaDataX" 7 4 false; mkTok 42 "tag" 7 14 false; mkTok 43 "``" 7 17 false; mkTok 40 "," 7 20 false; mkTok 42 "Logon" 7 22 false; mkTok 43 "`{ , }`" 7 28 false; mkTok 40 "," 7 36 false; mkTok 3 "}" 7 37 false; mkTok 0 "<EOF>" 8 0 false] (mkPacket (mkPtok 35 "packet" 1 0 0) (Some (mkPtok 3 "}" 7 37 21)) [(DPacket (mkPacketDef (mkSpan (mkPtok 35 "packet" 1 0 0) (mkPtok 3 "}" 7 37 21)) None (mkPtok 35 "packet" 1 0 0) (mkPtok 42 "chars" 1 7 1) (mkPtok 2 "{" 1 13 2) [(mkFieldWithAttr (mkSpan (mkPtok 16 "char[]" 1 15 3) (mkPtok 40 "," 4 10 10)) [] (LengthField (mkSpan (mkPtok 16 "char[]" 1 15 3) (mkPtok 40 "," 4 10 10)) (mkLengthFieldDecl (mkSpan (mkPtok 16 "char[]" 1 15 3) (mkPtok 40 "," 4 10 10)) (Some (TyDynamic (mkSpan (mkPtok 16 "char[]" 1 15 3) (mkPtok 16 "char[]" 1 15 3)) (mkDynamicString (mkSpan (mkPtok 16 "char[]" 1 15 3) (mkPtok 16 "char[]" 1 15 3)) (mkPtok 16 "char[]" 1 15 3)))) (mkPtok 42 "Pad" 2 4 4) (mkLengthOf (mkSpan (mkPtok 7 "@lengthOf(" 2 8 5) (mkPtok 6 ")" 2 24 7)) (mkPtok 7 "@lengthOf(" 2 8 5) (mkPtok 42 "u128" 2 19 6) (mkPtok 6 ")" 2 24 7)) (Some (mkPtok 43 "`it's`" 4 4 9)) (mkPtok 40 "," 4 10 10)))); (mkFieldWithAttr (mkSpan (mkPtok 9 "@tag(" 5 0 11) (mkPtok 40 "," 7 20 17)) [(FATag (mkSpan (mkPtok 9 "@tag(" 5 0 11) (mkPtok 6 ")" 6 4 13)) (mkTagAttr (mkSpan (mkPtok 9 "@tag(" 5 0 11) (mkPtok 6 ")" 6 4 13)) (mkPtok 9 "@tag(" 5 0 11) (mkPtok 30 "4294967296" 5 6 12) (mkPtok 6 ")" 6 4 13)))] (ObjectField (mkSpan (mkPtok 42 "MetaDataX" 7 4 14) (mkPtok 40 "," 7 20 17)) None (mkPtok 42 "MetaDataX" 7 4 14) (Some (mkPtok 42 "tag" 7 14 15)) (Some (mkPtok 43 "``" 7 17 16)) (mkPtok 40 "," 7 20 17))); (mkFieldWithAttr (mkSpan (mkPtok 42 "Logon" 7 22 18) (mkPtok 40 "," 7 36 20)) [] (ObjectField (mkSpan (mkPtok 42 "Logon" 7 22 18) (mkPtok 40 "," 7 36 20)) None (mkPtok 42 "Logon" 7 22 18) None (Some (mkPtok 43 "`{ , }`" 7 28 19)) (mkPtok 40 "," 7 36 20)))] (mkPtok 3 "}" 7 37 21)))])).
Eval vm_compute in ("<<<M1046>>>" ++ check (runes_of_ascii "packet
    len {
    match As  as
f32a { ""a\\"" :
Foo , [
    00 , """ ++ [233]%N ++ runes_of_ascii "t" ++ [233]%N ++ runes_of_ascii """
]
    : Packet // " ++ [27880; 37322]%N ++ runes_of_ascii "
,
""abc"":i8i8,
    42 //x
: falsey	, //
} , @tag( 00 ) // `tick` ""quote"" 'q'
leftPad @lengthOf( len
// a // b
// " ++ [27880; 37322]%N ++ runes_of_ascii "
) `u8 x,` , repeat
int64 i64_ , }
")).
Eval vm_compute in ("<<<M1078>>>" ++ check (runes_of_ascii "// `tick` ""quote"" 'q'
MetaData  x{ zchar[
    3	] // c
matchKey , } MetaData
As {
    char[]x_y_z `two words` , } root packet x
{ i8 Pad @calculatedFrom( ""1"" // packet A { u8 x, }
) `" ++ [233]%N ++ runes_of_ascii "`,
    @lengthOf(chars // " ++ [27880; 37322]%N ++ runes_of_ascii "
)len Z9_ , @lengthOf( Foo )	char x_y_z @lengthOf( x_y_z)// trailing space 
, // " ++ [27880; 37322]%N ++ runes_of_ascii "
@leftPad
    ( '0' )
    x  @calculatedFrom(""a\\"" ) ,
string
Pad , char[ 10]
//x
// " ++ [27880; 37322]%N ++ runes_of_ascii "
Packet
, @leftPad( '\x00' // c
) stringy@lengthOf( matchKey )	`// not a comment` , @calculatedFrom(// trailing space 
""// no comment""
    ) f32
    stringy@calculatedFrom( ""1"" )	, u64
u
    // 50% %s
    ,  match
uint8x	as Header
    {	[ 0123456789
    , 00 ]
    // 50% %s
    : MetaDataX, } , }")).
Eval vm_compute in ("<<<M1110>>>" ++ check (runes_of_ascii "packet	trueish {	@lengthOf(
string_ ) // " ++ [27880; 37322]%N ++ runes_of_ascii "
@leftPad (' ' ) @tag(
255 )
    a1 T  `u8 x,` ,i64 chars `tab	here`, } options { falsey =
i8// trailing space 
;
metadata = 007
    ;	_x = char[ 0123456789	] i8i8
    = u16; Z9_=""// no comment""
    ; }
// `tick` ""quote"" 'q'
// " ++ [128512]%N ++ runes_of_ascii " emoji
root	packet x_y_z
{ zchar[ 255 ] roots @calculatedFrom(""a	b"" ) `u8 x,`
    ,
@tag( 42 ) options1 a1 // c
, }")).
Eval vm_compute in ("<<<M1142>>>" ++ check (runes_of_ascii "MetaData _x
    {
string Packet`// not a comment`
    , o Logon
    // " ++ [27880; 37322]%N ++ runes_of_ascii "
    , packetx uint8x , } root
// a // b
// a // b
packet MetaDataX { repeat char[255] // " ++ [128512]%N ++ runes_of_ascii " emoji
x_y_z `doc` ,
@calculatedFrom(	""{,}"" ) match
    // " ++ [128512]%N ++ runes_of_ascii " emoji
    asx as A // trailing space 
{ 4294967296 : Pad 10
    :a1 ,	}
,
zchar[ 3	] asx
`{ , }` ,match
msg_type as i8i8 { [
    0
    ,1
    , 007
    , ""a\\"", ""\" ++ [233]%N ++ runes_of_ascii """ ,65535 ]:
    calculatedFrom ,
    // 50% %s
    007 // trailing space 
:
    T 255
:repeatCount ,
    [ // trailing space 
0123456789
    , ""it's""] : chars
,}  , u128 ,	string A @lengthOf( Packet  ) `tab	here` ,
    char[0123456789
    ] // trailing space 
uint8x
@lengthOf(x_y_z
) , asx
`" ++ [28040; 24687; 31867; 22411]%N ++ runes_of_ascii "` , }
packet a1{ i8 trueish , } packet matchKey
{ match
a1 as
string_ { 10
: pack
// trailing space 
// a // b
, },
// @lengthOf(
// a // b
char[ 10	]
falsey `" ++ [233]%N ++ runes_of_ascii "`
    ,pack{ i8i8 { repeat
lengthOf {
    //	t
    tag asx , match
rootA as matchKey // packet A { u8 x, }
{ ""CRC32""
    :
    u 42:lengthOf ,// c
} ,
repeat
// packet A { u8 x, }
// @lengthOf(
uint64 packetx  `
` ,	zchar[
    0 ]/// triple
options1 @lengthOf(
Packet )
`doc` ,} ,
    } // trailing space 
, } ,
}
// `tick` ""quote"" 'q'
//
MetaData  options1
{
    string_ // packet A { u8 x, }
zchar,Z9_ repeatCount`crlf
line` , uint64 Logon , uint64 a1 ,
    string_ Foo ,
}")).
Eval vm_compute in ("<<<M1174>>>" ++ check (runes_of_ascii "
packet roots
{
char[] falsey @calculatedFrom(	""`tick`""
) // c
`{ , }` ,match
    tag as	BodyLength{ // @lengthOf(
""packet"" : T , 42 :f32a// a // b
,255 : lengthOf , // " ++ [27880; 37322]%N ++ runes_of_ascii "
} , BodyLength { Z9_ {
    stringy
{ metadata
, }, zchar@lengthOf( // 50% %s
x_y_z) ,match
    // `tick` ""quote"" 'q'
    lengthOf as float{
10 :
repeatCount ,
} ,
repeat string
Pad `u8 x,` ,  }	,
    charz { repeat
    lengthOf
    { zchar[
007] f32a
@calculatedFrom( ""it's""  )  `" ++ [28040; 24687; 31867; 22411]%N ++ runes_of_ascii "` , uint64
    tag @calculatedFrom( ""packet""
) // `tick` ""quote"" 'q'
`" ++ [233]%N ++ runes_of_ascii "`
, char[10 ]
calculatedFrom
    `tab	here`,
    char[] Logon`" ++ [28040; 24687; 31867; 22411]%N ++ runes_of_ascii "` , }, i16 x_y_z
`doc`
,
// packet A { u8 x, }
// trailing space 
string
// packet A { u8 x, }
// `tick` ""quote"" 'q'
u128
,}	,
} ,Foo	@lengthOf(o)
, i32 int,
options1	,
} options{
// " ++ [128512]%N ++ runes_of_ascii " emoji
// trailing space 
leftPad ='\x00' //x
;  Foo
    // " ++ [27880; 37322]%N ++ runes_of_ascii "
    =  255	x =true
; }packet
x
{
    @calculatedFrom( """ ++ [28040; 24687]%N ++ runes_of_ascii """)repeat
    u8
/// triple
//x
As ,
    repeat  char[42	]A , int8 o `two words`
    // " ++ [27880; 37322]%N ++ runes_of_ascii "
    ,
@lengthOf(
asx ) @lengthOf(  tag
    )match
trueish
    as	lengthOf // packet A { u8 x, }
{  0	: o,
""{,}""
    : // packet A { u8 x, }
chars [ ""packet""  ]
: A,
""\" ++ [233]%N ++ runes_of_ascii """ : pack , [ ""\n"" ,
10 , // `tick` ""quote"" 'q'
""CRC32"" ,
00, 007, 42 , 0123456789 ,""""  ] : stringy , ""packet"" : i64_ , } , repeatCount
,
    i32 zchar@lengthOf( Logon) `tab	here` ,zchar
/// triple
// a // b
@calculatedFrom(""CRC32"" ) `u8 x,`
    // packet A { u8 x, }
    ,@lengthOf( lengthOf ) // c
@rightPad // " ++ [128512]%N ++ runes_of_ascii " emoji
( )Packet @calculatedFrom(""// no comment"")
    // @lengthOf(
    , @tag( 10 )
// trailing space 
// `tick` ""quote"" 'q'
len`a\`,// " ++ [128512]%N ++ runes_of_ascii " emoji
} packet _x { } root	packet uint8x { uint8
    falsey
`" ++ [233]%N ++ runes_of_ascii "` , zchar[
007 ] stringy ,
BodyLength float ,zchar[
    1 ]roots ,uint8 Packet , repeat float64 repeatCount  , repeat char f32a`
` ,
    i32 a1 `crlf
line`
, } // @lengthOf(")).
Eval vm_compute in ("<<<M1206>>>" ++ check (runes_of_ascii "
root // " ++ [128512]%N ++ runes_of_ascii " emoji
packet MetaDataX {  @leftPad(
' ' )  crc @calculatedFrom( """ ++ [128512]%N ++ runes_of_ascii """ )
    , @tag( 4294967296 )
    @leftPad( )
@lengthOf( body ) // " ++ [27880; 37322]%N ++ runes_of_ascii "
Header
    `doc` , }
    options
{ chars='0'
    Packet =
'0'
    // `tick` ""quote"" 'q'
    int =
    ""a\\"" tag =
'0'
//
// packet A { u8 x, }
; }
")).
Eval vm_compute in ("<<<M1238>>>" ++ check (runes_of_ascii "MetaData A {
    } packet zchar
// packet A { u8 x, }
// `tick` ""quote"" 'q'
{
    /// triple
    } options { } /// triple")).
Eval vm_compute in ("<<<T1238>>>" ++ terms [mkTok 37 "MetaData" 1 0 false; mkTok 42 "A" 1 9 false; mkTok 2 "{" 1 11 false; mkTok 3 "}" 2 4 false; mkTok 35 "packet" 2 6 false; mkTok 42 "zchar" 2 13 false; mkTok 44 "// packet A { u8 x, }" 3 0 true; mkTok 44 "// `tick` ""quote"" 'q'" 4 0 true; mkTok 2 "{" 5 0 false; mkTok 44 "/// triple" 6 4 true; mkTok 3 "}" 7 4 false; mkTok 1 "options" 7 6 false; mkTok 2 "{" 7 14 false; mkTok 3 "}" 7 16 false; mkTok 44 "/// triple" 7 18 true; mkTok 0 "<EOF>" 7 28 false] (mkPacket (mkPtok 37 "MetaData" 1 0 0) (Some (mkPtok 3 "}" 7 16 13)) [(DMeta (mkMetaDef (mkSpan (mkPtok 37 "MetaData" 1 0 0) (mkPtok 3 "}" 2 4 3)) (mkPtok 37 "MetaData" 1 0 0) (mkPtok 42 "A" 1 9 1) (mkPtok 2 "{" 1 11 2) [] (mkPtok 3 "}" 2 4 3))); (DPacket (mkPacketDef (mkSpan (mkPtok 35 "packet" 2 6 4) (mkPtok 3 "}" 7 4 10)) None (mkPtok 35 "packet" 2 6 4) (mkPtok 42 "zchar" 2 13 5) (mkPtok 2 "{" 5 0 8) [] (mkPtok 3 "}" 7 4 10))); (DOption (mkOptionDef (mkSpan (mkPtok 1 "options" 7 6 11) (mkPtok 3 "}" 7 16 13)) (mkPtok 1 "options" 7 6 11) (mkPtok 2 "{" 7 14 12) [] (mkPtok 3 "}" 7 16 13)))])).
Eval vm_compute in ("<<<M1270>>>" ++ check (runes_of_ascii "packet BodyLength {
x_y_z
    @calculatedFrom( ""abc"" ) , }
// c
")).
Eval vm_compute in ("<<<M1302>>>" ++ check (runes_of_ascii "//	t
options{ MetaDataX = true ; // `tick` ""quote"" 'q'
Foo =
    ' '} options {
tag=""{,}"" // " ++ [128512]%N ++ runes_of_ascii " emoji
As =
    char[ //	t
7 ]	; asx
= ' ' int =
    '\x00'
    ;}	options { }
")).
Eval vm_compute in ("<<<M1334>>>" ++ check (runes_of_ascii "MetaData// `tick` ""quote"" 'q'
Packet{ calculatedFrom BodyLength
    `{ , }` ,
int64 i8i8 `{ , }` , // `tick` ""quote"" 'q'
} packet  chars
{
//
// `tick` ""quote"" 'q'
} // a // b
root packet tag { @rightPad
(// trailing space 
) char[ 7 ]	roots
    // 50% %s
    @calculatedFrom( ""it's"" )
// c
// @lengthOf(
`it's`
    ,
// @lengthOf(
// trailing space 
}")).
Eval vm_compute in ("<<<M1366>>>" ++ check (runes_of_ascii "options
    { } options
{ As	=true As
=
char[
    // `tick` ""quote"" 'q'
    0123456789	]
calculatedFrom = ""\n"" ; i64_
=true ;
// c
//
} root packet repeatCount  { @rightPad
( '\x00' ) match Z9_ as zchar { ""\n"" :Pad// 50% %s
""CRC32"": options1 , ""x y"" : o , 7 :
A ,}
,
    } packet asx{ zchar u128`crlf
line` ,	} 	 ")).
Eval vm_compute in ("<<<M1398>>>" ++ check (runes_of_ascii "  options
{ Logon // @lengthOf(
=
u16 roots =
'\x00'
//
//
;o
= ""abc"" ; }packet
    A { // `tick` ""quote"" 'q'
Z9_ charz	, }")).
Eval vm_compute in ("<<<M1430>>>" ++ check (runes_of_ascii "packet
    u128	{
    @calculatedFrom(""\n"" // c
)	a1 `// not a comment`, }
")).
Eval vm_compute in ("<<<M1462>>>" ++ check (runes_of_ascii "options
{}
packet
    calculatedFrom
    {
@lengthOf(
trueish // " ++ [128512]%N ++ runes_of_ascii " emoji
)  @lengthOf(
    // a // b
    asx )
@rightPad () char stringy @lengthOf( trueish
)
, } MetaData packetx{ // " ++ [27880; 37322]%N ++ runes_of_ascii "
f32 Pad `" ++ [28040; 24687; 31867; 22411]%N ++ runes_of_ascii "`
, int64 msg_type // 50% %s
, int32 matchKey
, }")).
Eval vm_compute in ("<<<T1462>>>" ++ terms [mkTok 1 "options" 1 0 false; mkTok 2 "{" 2 0 false; mkTok 3 "}" 2 1 false; mkTok 35 "packet" 3 0 false; mkTok 42 "calculatedFrom" 4 4 false; mkTok 2 "{" 5 4 false; mkTok 7 "@lengthOf(" 6 0 false; mkTok 42 "trueish" 7 0 false; mkTok 44 (string_of_bytes [47; 47; 32; 240; 159; 152; 128; 32; 101; 109; 111; 106; 105]%N) 7 8 true; mkTok 6 ")" 8 0 false; mkTok 7 "@lengthOf(" 8 3 false; mkTok 44 "// a // b" 9 4 true; mkTok 42 "asx" 10 4 false; mkTok 6 ")" 10 8 false; mkTok 32 "@rightPad" 11 0 false; mkTok 8 "(" 11 10 false; mkTok 6 ")" 11 11 false; mkTok 19 "char" 11 13 false; mkTok 42 "stringy" 11 18 false; mkTok 7 "@lengthOf(" 11 26 false; mkTok 42 "trueish" 11 37 false; mkTok 6 ")" 12 0 false; mkTok 40 "," 13 0 false; mkTok 3 "}" 13 2 false; mkTok 37 "MetaData" 13 4 false; mkTok 42 "packetx" 13 13 false; mkTok 2 "{" 13 20 false; mkTok 44 (string_of_bytes [47; 47; 32; 230; 179; 168; 233; 135; 138]%N) 13 22 true; mkTok 28 "f32" 14 0 false; mkTok 42 "Pad" 14 4 false; mkTok 43 (string_of_bytes [96; 230; 182; 136; 230; 129; 175; 231; 177; 187; 229; 158; 139; 96]%N) 14 8 false; mkTok 40 "," 15 0 false; mkTok 27 "int64" 15 2 false; mkTok 42 "msg_type" 15 8 false; mkTok 44 "// 50% %s" 15 17 true; mkTok 40 "," 16 0 false; mkTok 26 "int32" 16 2 false; mkTok 42 "matchKey" 16 8 false; mkTok 40 "," 17 0 false; mkTok 3 "}" 17 2 false; mkTok 0 "<EOF>" 17 3 false] (mkPacket (mkPtok 1 "options" 1 0 0) (Some (mkPtok 3 "}" 17 2 39)) [(DOption (mkOptionDef (mkSpan (mkPtok 1 "options" 1 0 0) (mkPtok 3 "}" 2 1 2)) (mkPtok 1 "options" 1 0 0) (mkPtok 2 "{" 2 0 1) [] (mkPtok 3 "}" 2 1 2))); (DPacket (mkPacketDef (mkSpan (mkPtok 35 "packet" 3 0 3) (mkPtok 3 "}" 13 2 23)) None (mkPtok 35 "packet" 3 0 3) (mkPtok 42 "calculatedFrom" 4 4 4) (mkPtok 2 "{" 5 4 5) [(mkFieldWithAttr (mkSpan (mkPtok 7 "@lengthOf(" 6 0 6) (mkPtok 40 "," 13 0 22)) [(FALengthOf (mkSpan (mkPtok 7 "@lengthOf(" 6 0 6) (mkPtok 6 ")" 8 0 9)) (mkLengthOf (mkSpan (mkPtok 7 "@lengthOf(" 6 0 6) (mkPtok 6 ")" 8 0 9)) (mkPtok 7 "@lengthOf(" 6 0 6) (mkPtok 42 "trueish" 7 0 7) (mkPtok 6 ")" 8 0 9))); (FALengthOf (mkSpan (mkPtok 7 "@lengthOf(" 8 3 10) (mkPtok 6 ")" 10 8 13)) (mkLengthOf (mkSpan (mkPtok 7 "@lengthOf(" 8 3 10) (mkPtok 6 ")" 10 8 13)) (mkPtok 7 "@lengthOf(" 8 3 10) (mkPtok 42 "asx" 10 4 12) (mkPtok 6 ")" 10 8 13))); (FAPadding (mkSpan (mkPtok 32 "@rightPad" 11 0 14) (mkPtok 6 ")" 11 11 16)) (mkPaddingAttr (mkSpan (mkPtok 32 "@rightPad" 11 0 14) (mkPtok 6 ")" 11 11 16)) (mkPtok 32 "@rightPad" 11 0 14) (mkPtok 8 "(" 11 10 15) None (mkPtok 6 ")" 11 11 16)))] (LengthField (mkSpan (mkPtok 19 "char" 11 13 17) (mkPtok 40 "," 13 0 22)) (mkLengthFieldDecl (mkSpan (mkPtok 19 "char" 11 13 17) (mkPtok 40 "," 13 0 22)) (Some (TyBasic (mkSpan (mkPtok 19 "char" 11 13 17) (mkPtok 19 "char" 11 13 17)) (mkBasicType (mkSpan (mkPtok 19 "char" 11 13 17) (mkPtok 19 "char" 11 13 17)) (mkPtok 19 "char" 11 13 17)))) (mkPtok 42 "stringy" 11 18 18) (mkLengthOf (mkSpan (mkPtok 7 "@lengthOf(" 11 26 19) (mkPtok 6 ")" 12 0 21)) (mkPtok 7 "@lengthOf(" 11 26 19) (mkPtok 42 "trueish" 11 37 20) (mkPtok 6 ")" 12 0 21)) None (mkPtok 40 "," 13 0 22))))] (mkPtok 3 "}" 13 2 23))); (DMeta (mkMetaDef (mkSpan (mkPtok 37 "MetaData" 13 4 24) (mkPtok 3 "}" 17 2 39)) (mkPtok 37 "MetaData" 13 4 24) (mkPtok 42 "packetx" 13 13 25) (mkPtok 2 "{" 13 20 26) [(MIDecl (mkMetaDecl (mkSpan (mkPtok 28 "f32" 14 0 28) (mkPtok 40 "," 15 0 31)) (TyBasic (mkSpan (mkPtok 28 "f32" 14 0 28) (mkPtok 28 "f32" 14 0 28)) (mkBasicType (mkSpan (mkPtok 28 "f32" 14 0 28) (mkPtok 28 "f32" 14 0 28)) (mkPtok 28 "f32" 14 0 28))) (mkPtok 42 "Pad" 14 4 29) (Some (mkPtok 43 (string_of_bytes [96; 230; 182; 136; 230; 129; 175; 231; 177; 187; 229; 158; 139; 96]%N) 14 8 30)) (mkPtok 40 "," 15 0 31))); (MIDecl (mkMetaDecl (mkSpan (mkPtok 27 "int64" 15 2 32) (mkPtok 40 "," 16 0 35)) (TyBasic (mkSpan (mkPtok 27 "int64" 15 2 32) (mkPtok 27 "int64" 15 2 32)) (mkBasicType (mkSpan (mkPtok 27 "int64" 15 2 32) (mkPtok 27 "int64" 15 2 32)) (mkPtok 27 "int64" 15 2 32))) (mkPtok 42 "msg_type" 15 8 33) None (mkPtok 40 "," 16 0 35))); (MIDecl (mkMetaDecl (mkSpan (mkPtok 26 "int32" 16 2 36) (mkPtok 40 "," 17 0 38)) (TyBasic (mkSpan (mkPtok 26 "int32" 16 2 36) (mkPtok 26 "int32" 16 2 36)) (mkBasicType (mkSpan (mkPtok 26 "int32" 16 2 36) (mkPtok 26 "int32" 16 2 36)) (mkPtok 26 "int32" 16 2 36))) (mkPtok 42 "matchKey" 16 8 37) None (mkPtok 40 "," 17 0 38)))] (mkPtok 3 "}" 17 2 39)))])).
Eval vm_compute in ("<<<M1494>>>" ++ check (runes_of_ascii "packet
Header {
} root
// " ++ [27880; 37322]%N ++ runes_of_ascii "
/// triple
packet BodyLength {	As {a1 { char[ 65535 ]crc `two words`
    , msg_type	, }	, }  ,repeat Z9_/// triple
{T ,	pack
,
repeat tag // " ++ [27880; 37322]%N ++ runes_of_ascii "
A
    , int64 // `tick` ""quote"" 'q'
f32a
`u8 x,`, }
, } packet
    packetx// a // b
{ }
/// triple
")).
Eval vm_compute in ("<<<M1526>>>" ++ check (runes_of_ascii "root	packet
    As	{  @leftPad(
'\x00' //
) repeat x
    a1 , @leftPad	( ' ' )
    len @calculatedFrom( ""abc"" )
`u8 x,` , @tag( 007 ) repeat char[ 255]x ,
    repeat u128 {stringy `" ++ [28040; 24687; 31867; 22411]%N ++ runes_of_ascii "` ,
matchKey {Logon msg_type
`a\`, } ,
    // c
    },match As	as repeatCount
{// trailing space 
[ //	t
0123456789
] : i64_[
    //
    """" , 65535]
: len,
0 : len
    ""abc"" :
    f32a , 00 : // trailing space 
tag }
    , u8x ,
    @rightPad
    (
'0'	) crc {int @calculatedFrom(  ""`tick`""), int64 packetx @calculatedFrom( ""packet"" ), i64
rootA `a\` ,
} , repeat int int , }	MetaData
    Z9_ { chars body `" ++ [28040; 24687; 31867; 22411]%N ++ runes_of_ascii "`// " ++ [128512]%N ++ runes_of_ascii " emoji
, i8 As
    `line1
line2`,zchar[
    1 ] Logon , u8 len , falsey
float ,
} MetaData Logon {
char[] // " ++ [128512]%N ++ runes_of_ascii " emoji
Z9_ `` ,
/// triple
// c
len As ,msg_type leftPad
`` ,
} root
packet  packetx {@lengthOf( roots // " ++ [27880; 37322]%N ++ runes_of_ascii "
)	i8i8{
T
// " ++ [27880; 37322]%N ++ runes_of_ascii "
//	t
Z9_ // packet A { u8 x, }
,int8
u128
`say ""hi""` // trailing space 
, stringy
{int64 rootA @calculatedFrom( // " ++ [27880; 37322]%N ++ runes_of_ascii "
""`tick`"" ) , repeat
_x {match
//x
// `tick` ""quote"" 'q'
i64_ as
stringy
{ ""1""
: x_y_z
, }	, /// triple
}
    , }
, } , @lengthOf( f32a	)
/// triple
// packet A { u8 x, }
@tag(	4294967296
    // 50% %s
    ) @calculatedFrom(
""\n"" )
u { pack {repeat  string f32a  ,match repeatCount  as float { 007 :
// `tick` ""quote"" 'q'
/// triple
leftPad }
    , match Pad as
// a // b
//	t
metadata{ 42
    // `tick` ""quote"" 'q'
    : falsey
""{,}""  :
    string_ ""`tick`""
: i8i8 , //
""" ++ [128512]%N ++ runes_of_ascii """
    :body , """ ++ [128512]%N ++ runes_of_ascii """ : u128
    ""{,}""
: lengthOf , }
,asx{ char[] x_y_z
`" ++ [28040; 24687; 31867; 22411]%N ++ runes_of_ascii "`  , i16 a1 @calculatedFrom( """") , repeat
int8
    // `tick` ""quote"" 'q'
    leftPad
,	},
},match
    int as
u128
{ 42 :
// trailing space 
// @lengthOf(
options1 , //x
42: //	t
string_ , 0 : tag,
// 50% %s
// `tick` ""quote"" 'q'
""x y"" // " ++ [27880; 37322]%N ++ runes_of_ascii "
: metadata ,  ""1""
// 50% %s
// packet A { u8 x, }
: body , } , falsey
    { int8
    stringy ,
// packet A { u8 x, }
// c
} , }
, }
")).
Eval vm_compute in ("<<<M1558>>>" ++ check (runes_of_ascii "options{
    body = false
; }root packet asx {// packet A { u8 x, }
}	packet calculatedFrom
{@leftPad (
'0' ) string_ { uint64 asx ,u
`it's`,
    roots// " ++ [27880; 37322]%N ++ runes_of_ascii "
{ match	packetx
    as Header	{
    ""packet""//x
: rootA, ""it's""
    : tag [ 65535// a // b
, 0123456789 ]  :
    u128 ,
    [ ""a	b"" , // 50% %s
"""" ,3
,10,
    42 , 4294967296
    ,
    0
,	007 ] :T, // @lengthOf(
}
,
match
i64_ as A {
""" ++ [233]%N ++ runes_of_ascii "t" ++ [233]%N ++ runes_of_ascii """ // " ++ [27880; 37322]%N ++ runes_of_ascii "
://x
tag
, [// 50% %s
0123456789 ,	""" ++ [128512]%N ++ runes_of_ascii """,255 , ""\" ++ [233]%N ++ runes_of_ascii """
// " ++ [128512]%N ++ runes_of_ascii " emoji
// 50% %s
, 10 ,
    1,// " ++ [128512]%N ++ runes_of_ascii " emoji
3 ,
    ""1"" ] :
packetx
    ""it's"" : asx , 3 :
//x
// @lengthOf(
calculatedFrom[""" ++ [28040; 24687]%N ++ runes_of_ascii """ , """ ++ [233]%N ++ runes_of_ascii "t" ++ [233]%N ++ runes_of_ascii """ , 65535,
    255	, """ ++ [28040; 24687]%N ++ runes_of_ascii """
, 007,  ""{,}"" ]	: A	,
    } ,  x	@lengthOf( body )
, repeat int16 o`doc` ,
}
// " ++ [27880; 37322]%N ++ runes_of_ascii "
/// triple
, }
    // @lengthOf(
    ,
} options{
x
=""" ++ [233]%N ++ runes_of_ascii "t" ++ [233]%N ++ runes_of_ascii """ ; } root packet Z9_ { }")).
Eval vm_compute in ("<<<M1590>>>" ++ check (runes_of_ascii "root packet Logon {zchar[ 3 ] stringy	@calculatedFrom(
    // a // b
    ""\" ++ [233]%N ++ runes_of_ascii """	) ,
repeatCount
float, repeat zchar[ 10
    ] uint8x
    ,
match MetaDataX as A// " ++ [128512]%N ++ runes_of_ascii " emoji
{ [
    ""packet"" ,	""x y"" ,	42//
, 255 , 7 ,""a\\"" ]
    : o , }
,}
")).
Eval vm_compute in ("<<<M1622>>>" ++ check (runes_of_ascii "MetaData	uint8x{
//	t
// 50% %s
uint32 msg_type
    // packet A { u8 x, }
    , } // trailing space ")).
Eval vm_compute in ("<<<M1654>>>" ++ check (runes_of_ascii "options { }")).
Eval vm_compute in ("<<<M1686>>>" ++ check (runes_of_ascii "// @lengthOf(
packet
    x//x
{
Foo
i8i8 `
` , @calculatedFrom(""packet"" )	crc{
match As
    as crc	{
[
00]	: len ,
    10
    // " ++ [128512]%N ++ runes_of_ascii " emoji
    :As, ""packet"":i8i8 , //x
[
    ""\n""
] : trueish ,
    }
,// trailing space 
int32 // c
asx @calculatedFrom( """ ++ [28040; 24687]%N ++ runes_of_ascii """ )	`two words` ,
} , lengthOf pack	, }
options { calculatedFrom
=""a	b"" // `tick` ""quote"" 'q'
; }")).
Eval vm_compute in ("<<<T1686>>>" ++ terms [mkTok 44 "// @lengthOf(" 1 0 true; mkTok 35 "packet" 2 0 false; mkTok 42 "x" 3 4 false; mkTok 44 "//x" 3 5 true; mkTok 2 "{" 4 0 false; mkTok 42 "Foo" 5 0 false; mkTok 42 "i8i8" 6 0 false; mkTok 43 (string_of_bytes [96; 10; 96]%N) 6 5 false; mkTok 40 "," 7 2 false; mkTok 5 "@calculatedFrom(" 7 4 false; mkTok 31 """packet""" 7 20 false; mkTok 6 ")" 7 29 false; mkTok 42 "crc" 7 31 false; mkTok 2 "{" 7 34 false; mkTok 38 "match" 8 0 false; mkTok 42 "As" 8 6 false; mkTok 17 "as" 9 4 false; mkTok 42 "crc" 9 7 false; mkTok 2 "{" 9 11 false; mkTok 18 "[" 10 0 false; mkTok 30 "00" 11 0 false; mkTok 13 "]" 11 2 false; mkTok 39 ":" 11 4 false; mkTok 42 "len" 11 6 false; mkTok 40 "," 11 10 false; mkTok 30 "10" 12 4 false; mkTok 44 (string_of_bytes [47; 47; 32; 240; 159; 152; 128; 32; 101; 109; 111; 106; 105]%N) 13 4 true; mkTok 39 ":" 14 4 false; mkTok 42 "As" 14 5 false; mkTok 40 "," 14 7 false; mkTok 31 """packet""" 14 9 false; mkTok 39 ":" 14 17 false; mkTok 42 "i8i8" 14 18 false; mkTok 40 "," 14 23 false; mkTok 44 "//x" 14 25 true; mkTok 18 "[" 15 0 false; mkTok 31 """\n""" 16 4 false; mkTok 13 "]" 17 0 false; mkTok 39 ":" 17 2 false; mkTok 42 "trueish" 17 4 false; mkTok 40 "," 17 12 false; mkTok 3 "}" 18 4 false; mkTok 40 "," 19 0 false; mkTok 44 "// trailing space " 19 1 true; mkTok 26 "int32" 20 0 false; mkTok 44 "// c" 20 6 true; mkTok 42 "asx" 21 0 false; mkTok 5 "@calculatedFrom(" 21 4 false; mkTok 31 (string_of_bytes [34; 230; 182; 136; 230; 129; 175; 34]%N) 21 21 false; mkTok 6 ")" 21 26 false; mkTok 43 "`two words`" 21 28 false; mkTok 40 "," 21 40 false; mkTok 3 "}" 22 0 false; mkTok 40 "," 22 2 false; mkTok 42 "lengthOf" 22 4 false; mkTok 42 "pack" 22 13 false; mkTok 40 "," 22 18 false; mkTok 3 "}" 22 20 false; mkTok 1 "options" 23 0 false; mkTok 2 "{" 23 8 false; mkTok 42 "calculatedFrom" 23 10 false; mkTok 4 "=" 24 0 false; mkTok 31 (string_of_bytes [34; 97; 9; 98; 34]%N) 24 1 false; mkTok 44 "// `tick` ""quote"" 'q'" 24 7 true; mkTok 41 ";" 25 0 false; mkTok 3 "}" 25 2 false; mkTok 0 "<EOF>" 25 3 false] (mkPacket (mkPtok 35 "packet" 2 0 1) (Some (mkPtok 3 "}" 25 2 65)) [(DPacket (mkPacketDef (mkSpan (mkPtok 35 "packet" 2 0 1) (mkPtok 3 "}" 22 20 57)) None (mkPtok 35 "packet" 2 0 1) (mkPtok 42 "x" 3 4 2) (mkPtok 2 "{" 4 0 4) [(mkFieldWithAttr (mkSpan (mkPtok 42 "Foo" 5 0 5) (mkPtok 40 "," 7 2 8)) [] (ObjectField (mkSpan (mkPtok 42 "Foo" 5 0 5) (mkPtok 40 "," 7 2 8)) None (mkPtok 42 "Foo" 5 0 5) (Some (mkPtok 42 "i8i8" 6 0 6)) (Some (mkPtok 43 (string_of_bytes [96; 10; 96]%N) 6 5 7)) (mkPtok 40 "," 7 2 8))); (mkFieldWithAttr (mkSpan (mkPtok 5 "@calculatedFrom(" 7 4 9) (mkPtok 40 "," 22 2 53)) [(FACalculatedFrom (mkSpan (mkPtok 5 "@calculatedFrom(" 7 4 9) (mkPtok 6 ")" 7 29 11)) (mkCalculatedFrom (mkSpan (mkPtok 5 "@calculatedFrom(" 7 4 9) (mkPtok 6 ")" 7 29 11)) (mkPtok 5 "@calculatedFrom(" 7 4 9) (mkPtok 31 """packet""" 7 20 10) (mkPtok 6 ")" 7 29 11)))] (InerObjectField (mkSpan (mkPtok 42 "crc" 7 31 12) (mkPtok 40 "," 22 2 53)) None (InerObjectDecl (mkSpan (mkPtok 42 "crc" 7 31 12) (mkPtok 3 "}" 22 0 52)) (mkPtok 42 "crc" 7 31 12) (mkPtok 2 "{" 7 34 13) [(MatchField (mkSpan (mkPtok 38 "match" 8 0 14) (mkPtok 40 "," 19 0 42)) (mkMatchFieldDecl (mkSpan (mkPtok 38 "match" 8 0 14) (mkPtok 3 "}" 18 4 41)) (mkPtok 38 "match" 8 0 14) (mkPtok 42 "As" 8 6 15) (mkPtok 17 "as" 9 4 16) (mkPtok 42 "crc" 9 7 17) (mkPtok 2 "{" 9 11 18) [(mkMatchPair (mkSpan (mkPtok 18 "[" 10 0 19) (mkPtok 40 "," 11 10 24)) (MKList (mkKeyList (mkSpan (mkPtok 18 "[" 10 0 19) (mkPtok 13 "]" 11 2 21)) (mkPtok 18 "[" 10 0 19) (mkPtok 30 "00" 11 0 20) [] (mkPtok 13 "]" 11 2 21))) (mkPtok 39 ":" 11 4 22) (mkPtok 42 "len" 11 6 23) (Some (mkPtok 40 "," 11 10 24))); (mkMatchPair (mkSpan (mkPtok 30 "10" 12 4 25) (mkPtok 40 "," 14 7 29)) (MKDigits (mkPtok 30 "10" 12 4 25)) (mkPtok 39 ":" 14 4 27) (mkPtok 42 "As" 14 5 28) (Some (mkPtok 40 "," 14 7 29))); (mkMatchPair (mkSpan (mkPtok 31 """packet""" 14 9 30) (mkPtok 40 "," 14 23 33)) (MKString (mkPtok 31 """packet""" 14 9 30)) (mkPtok 39 ":" 14 17 31) (mkPtok 42 "i8i8" 14 18 32) (Some (mkPtok 40 "," 14 23 33))); (mkMatchPair (mkSpan (mkPtok 18 "[" 15 0 35) (mkPtok 40 "," 17 12 40)) (MKList (mkKeyList (mkSpan (mkPtok 18 "[" 15 0 35) (mkPtok 13 "]" 17 0 37)) (mkPtok 18 "[" 15 0 35) (mkPtok 31 """\n""" 16 4 36) [] (mkPtok 13 "]" 17 0 37))) (mkPtok 39 ":" 17 2 38) (mkPtok 42 "trueish" 17 4 39) (Some (mkPtok 40 "," 17 12 40)))] (mkPtok 3 "}" 18 4 41)) (mkPtok 40 "," 19 0 42)); (CheckSumField (mkSpan (mkPtok 26 "int32" 20 0 44) (mkPtok 40 "," 21 40 51)) (mkChecksumFieldDecl (mkSpan (mkPtok 26 "int32" 20 0 44) (mkPtok 40 "," 21 40 51)) (Some (TyBasic (mkSpan (mkPtok 26 "int32" 20 0 44) (mkPtok 26 "int32" 20 0 44)) (mkBasicType (mkSpan (mkPtok 26 "int32" 20 0 44) (mkPtok 26 "int32" 20 0 44)) (mkPtok 26 "int32" 20 0 44)))) (mkPtok 42 "asx" 21 0 46) (mkCalculatedFrom (mkSpan (mkPtok 5 "@calculatedFrom(" 21 4 47) (mkPtok 6 ")" 21 26 49)) (mkPtok 5 "@calculatedFrom(" 21 4 47) (mkPtok 31 (string_of_bytes [34; 230; 182; 136; 230; 129; 175; 34]%N) 21 21 48) (mkPtok 6 ")" 21 26 49)) (Some (mkPtok 43 "`two words`" 21 28 50)) (mkPtok 40 "," 21 40 51)))] (mkPtok 3 "}" 22 0 52)) (mkPtok 40 "," 22 2 53))); (mkFieldWithAttr (mkSpan (mkPtok 42 "lengthOf" 22 4 54) (mkPtok 40 "," 22 18 56)) [] (ObjectField (mkSpan (mkPtok 42 "lengthOf" 22 4 54) (mkPtok 40 "," 22 18 56)) None (mkPtok 42 "lengthOf" 22 4 54) (Some (mkPtok 42 "pack" 22 13 55)) None (mkPtok 40 "," 22 18 56)))] (mkPtok 3 "}" 22 20 57))); (DOption (mkOptionDef (mkSpan (mkPtok 1 "options" 23 0 58) (mkPtok 3 "}" 25 2 65)) (mkPtok 1 "options" 23 0 58) (mkPtok 2 "{" 23 8 59) [(mkOptionDecl (mkSpan (mkPtok 42 "calculatedFrom" 23 10 60) (mkPtok 41 ";" 25 0 64)) (mkPtok 42 "calculatedFrom" 23 10 60) (mkPtok 4 "=" 24 0 61) (VString (mkSpan (mkPtok 31 (string_of_bytes [34; 97; 9; 98; 34]%N) 24 1 62) (mkPtok 31 (string_of_bytes [34; 97; 9; 98; 34]%N) 24 1 62)) (mkPtok 31 (string_of_bytes [34; 97; 9; 98; 34]%N) 24 1 62)) (Some (mkPtok 41 ";" 25 0 64)))] (mkPtok 3 "}" 25 2 65)))])).
Eval vm_compute in ("<<<M1718>>>" ++ check (runes_of_ascii "packet crc //x
{}	root packet
i64_ { @lengthOf( pack	)  @tag( 7 ) @lengthOf( leftPad // `tick` ""quote"" 'q'
)
float @calculatedFrom( ""\" ++ [233]%N ++ runes_of_ascii """
) `it's`
,// packet A { u8 x, }
char[ 00 ]
charz `a\`
    , string // 50% %s
string_
    , @calculatedFrom(
""1""
    // trailing space 
    )
    zchar[ 0123456789 ]  x// " ++ [27880; 37322]%N ++ runes_of_ascii "
, @tag( 007 ) @calculatedFrom( ""// no comment""
)
string u, o matchKey `100% of %d`	,f32a  ,@lengthOf(asx) @lengthOf(x ) char[ 3 ] int , i8i8 //
{ As{ // @lengthOf(
repeat BodyLength { len asx `line1
line2`
, Z9_
    body // c
, } , asx ,
    } , }	,
    // " ++ [27880; 37322]%N ++ runes_of_ascii "
    body
{ // `tick` ""quote"" 'q'
i8i8 Logon,char[0123456789 ] u8x
`say ""hi""` , i64_@calculatedFrom( //x
""`tick`"" ) `{ , }` , } ,
}
")).
Eval vm_compute in ("<<<M1750>>>" ++ check (@nil rune)).
Eval vm_compute in ("<<<M1782>>>" ++ check (runes_of_ascii "options { falsey// " ++ [27880; 37322]%N ++ runes_of_ascii "
= '\x00'
; metadata =	true;
    // " ++ [27880; 37322]%N ++ runes_of_ascii "
    falsey = f64
    }
")).
Eval vm_compute in ("<<<M1814>>>" ++ check (runes_of_ascii "packet body
{match repeatCount as
x {10 :uint8x, } ,
    }")).
Eval vm_compute in ("<<<M1846>>>" ++ check (runes_of_ascii "packet Header{
}
")).
Eval vm_compute in ("<<<M1878>>>" ++ check (runes_of_ascii "packet u8x {
} MetaData repeatCount
{ char i8i8
    `" ++ [233]%N ++ runes_of_ascii "` ,/// triple
string_ a1
    `say ""hi""` // `tick` ""quote"" 'q'
,  BodyLength crc ,
Z9_ A
    ``
,
char[
    42 ] roots ,}
")).
Eval vm_compute in ("<<<M1910>>>" ++ check (runes_of_ascii "root packet MetaDataX {
string Pad
    , string
    u
    , u  @lengthOf(
msg_type
    //	t
    ) , string_ ,@tag( 65535 )
u8	charz `" ++ [233]%N ++ runes_of_ascii "`,
@tag(
007
)  char[ 65535 ] body @calculatedFrom(
""a\\"")
, i8i8``, @calculatedFrom(
    """ ++ [128512]%N ++ runes_of_ascii """ // 50% %s
) @tag(1 ) @lengthOf( x )
repeat _x{string// 50% %s
u
// c
// `tick` ""quote"" 'q'
`it's`
    , },
@calculatedFrom( """ ++ [233]%N ++ runes_of_ascii "t" ++ [233]%N ++ runes_of_ascii """ )	int16 x_y_z `it's` ,} options { uint8x = 255 ;
    metadata
=
' ' ;
} root packet zchar { int64 As `
`
, }")).
Eval vm_compute in ("<<<T1910>>>" ++ terms [mkTok 34 "root" 1 0 false; mkTok 35 "packet" 1 5 false; mkTok 42 "MetaDataX" 1 12 false; mkTok 2 "{" 1 22 false; mkTok 15 "string" 2 0 false; mkTok 42 "Pad" 2 7 false; mkTok 40 "," 3 4 false; mkTok 15 "string" 3 6 false; mkTok 42 "u" 4 4 false; mkTok 40 "," 5 4 false; mkTok 42 "u" 5 6 false; mkTok 7 "@lengthOf(" 5 9 false; mkTok 42 "msg_type" 6 0 false; mkTok 44 (string_of_bytes [47; 47; 9; 116]%N) 7 4 true; mkTok 6 ")" 8 4 false; mkTok 40 "," 8 6 false; mkTok 42 "string_" 8 8 false; mkTok 40 "," 8 16 false; mkTok 9 "@tag(" 8 17 false; mkTok 30 "65535" 8 23 false; mkTok 6 ")" 8 29 false; mkTok 20 "u8" 9 0 false; mkTok 42 "charz" 9 3 false; mkTok 43 (string_of_bytes [96; 195; 169; 96]%N) 9 9 false; mkTok 40 "," 9 12 false; mkTok 9 "@tag(" 10 0 false; mkTok 30 "007" 11 0 false; mkTok 6 ")" 12 0 false; mkTok 12 "char[" 12 3 false; mkTok 30 "65535" 12 9 false; mkTok 13 "]" 12 15 false; mkTok 42 "body" 12 17 false; mkTok 5 "@calculatedFrom(" 12 22 false; mkTok 31 """a\\""" 13 0 false; mkTok 6 ")" 13 5 false; mkTok 40 "," 14 0 false; mkTok 42 "i8i8" 14 2 false; mkTok 43 "``" 14 6 false; mkTok 40 "," 14 8 false; mkTok 5 "@calculatedFrom(" 14 10 false; mkTok 31 (string_of_bytes [34; 240; 159; 152; 128; 34]%N) 15 4 false; mkTok 44 "// 50% %s" 15 8 true; mkTok 6 ")" 16 0 false; mkTok 9 "@tag(" 16 2 false; mkTok 30 "1" 16 7 false; mkTok 6 ")" 16 9 false; mkTok 7 "@lengthOf(" 16 11 false; mkTok 42 "x" 16 22 false; mkTok 6 ")" 16 24 false; mkTok 36 "repeat" 17 0 false; mkTok 42 "_x" 17 7 false; mkTok 2 "{" 17 9 false; mkTok 15 "string" 17 10 false; mkTok 44 "// 50% %s" 17 16 true; mkTok 42 "u" 18 0 false; mkTok 44 "// c" 19 0 true; mkTok 44 "// `tick` ""quote"" 'q'" 20 0 true; mkTok 43 "`it's`" 21 0 false; mkTok 40 "," 22 4 false; mkTok 3 "}" 22 6 false; mkTok 40 "," 22 7 false; mkTok 5 "@calculatedFrom(" 23 0 false; mkTok 31 (string_of_bytes [34; 195; 169; 116; 195; 169; 34]%N) 23 17 false; mkTok 6 ")" 23 23 false; mkTok 25 "int16" 23 25 false; mkTok 42 "x_y_z" 23 31 false; mkTok 43 "`it's`" 23 37 false; mkTok 40 "," 23 44 false; mkTok 3 "}" 23 45 false; mkTok 1 "options" 23 47 false; mkTok 2 "{" 23 55 false; mkTok 42 "uint8x" 23 57 false; mkTok 4 "=" 23 64 false; mkTok 30 "255" 23 66 false; mkTok 41 ";" 23 70 false; mkTok 42 "metadata" 24 4 false; mkTok 4 "=" 25 0 false; mkTok 33 "' '" 26 0 false; mkTok 41 ";" 26 4 false; mkTok 3 "}" 27 0 false; mkTok 34 "root" 27 2 false; mkTok 35 "packet" 27 7 false; mkTok 42 "zchar" 27 14 false; mkTok 2 "{" 27 20 false; mkTok 27 "int64" 27 22 false; mkTok 42 "As" 27 28 false; mkTok 43 (string_of_bytes [96; 10; 96]%N) 27 31 false; mkTok 40 "," 29 0 false; mkTok 3 "}" 29 2 false; mkTok 0 "<EOF>" 29 3 false] (mkPacket (mkPtok 34 "root" 1 0 0) (Some (mkPtok 3 "}" 29 2 88)) [(DPacket (mkPacketDef (mkSpan (mkPtok 34 "root" 1 0 0) (mkPtok 3 "}" 23 45 68)) (Some (mkPtok 34 "root" 1 0 0)) (mkPtok 35 "packet" 1 5 1) (mkPtok 42 "MetaDataX" 1 12 2) (mkPtok 2 "{" 1 22 3) [(mkFieldWithAttr (mkSpan (mkPtok 15 "string" 2 0 4) (mkPtok 40 "," 3 4 6)) [] (MetaField (mkSpan (mkPtok 15 "string" 2 0 4) (mkPtok 40 "," 3 4 6)) None (mkMetaDecl (mkSpan (mkPtok 15 "string" 2 0 4) (mkPtok 40 "," 3 4 6)) (TyDynamic (mkSpan (mkPtok 15 "string" 2 0 4) (mkPtok 15 "string" 2 0 4)) (mkDynamicString (mkSpan (mkPtok 15 "string" 2 0 4) (mkPtok 15 "string" 2 0 4)) (mkPtok 15 "string" 2 0 4))) (mkPtok 42 "Pad" 2 7 5) None (mkPtok 40 "," 3 4 6)))); (mkFieldWithAttr (mkSpan (mkPtok 15 "string" 3 6 7) (mkPtok 40 "," 5 4 9)) [] (MetaField (mkSpan (mkPtok 15 "string" 3 6 7) (mkPtok 40 "," 5 4 9)) None (mkMetaDecl (mkSpan (mkPtok 15 "string" 3 6 7) (mkPtok 40 "," 5 4 9)) (TyDynamic (mkSpan (mkPtok 15 "string" 3 6 7) (mkPtok 15 "string" 3 6 7)) (mkDynamicString (mkSpan (mkPtok 15 "string" 3 6 7) (mkPtok 15 "string" 3 6 7)) (mkPtok 15 "string" 3 6 7))) (mkPtok 42 "u" 4 4 8) None (mkPtok 40 "," 5 4 9)))); (mkFieldWithAttr (mkSpan (mkPtok 42 "u" 5 6 10) (mkPtok 40 "," 8 6 15)) [] (LengthField (mkSpan (mkPtok 42 "u" 5 6 10) (mkPtok 40 "," 8 6 15)) (mkLengthFieldDecl (mkSpan (mkPtok 42 "u" 5 6 10) (mkPtok 40 "," 8 6 15)) None (mkPtok 42 "u" 5 6 10) (mkLengthOf (mkSpan (mkPtok 7 "@lengthOf(" 5 9 11) (mkPtok 6 ")" 8 4 14)) (mkPtok 7 "@lengthOf(" 5 9 11) (mkPtok 42 "msg_type" 6 0 12) (mkPtok 6 ")" 8 4 14)) None (mkPtok 40 "," 8 6 15)))); (mkFieldWithAttr (mkSpan (mkPtok 42 "string_" 8 8 16) (mkPtok 40 "," 8 16 17)) [] (ObjectField (mkSpan (mkPtok 42 "string_" 8 8 16) (mkPtok 40 "," 8 16 17)) None (mkPtok 42 "string_" 8 8 16) None None (mkPtok 40 "," 8 16 17))); (mkFieldWithAttr (mkSpan (mkPtok 9 "@tag(" 8 17 18) (mkPtok 40 "," 9 12 24)) [(FATag (mkSpan (mkPtok 9 "@tag(" 8 17 18) (mkPtok 6 ")" 8 29 20)) (mkTagAttr (mkSpan (mkPtok 9 "@tag(" 8 17 18) (mkPtok 6 ")" 8 29 20)) (mkPtok 9 "@tag(" 8 17 18) (mkPtok 30 "65535" 8 23 19) (mkPtok 6 ")" 8 29 20)))] (MetaField (mkSpan (mkPtok 20 "u8" 9 0 21) (mkPtok 40 "," 9 12 24)) None (mkMetaDecl (mkSpan (mkPtok 20 "u8" 9 0 21) (mkPtok 40 "," 9 12 24)) (TyBasic (mkSpan (mkPtok 20 "u8" 9 0 21) (mkPtok 20 "u8" 9 0 21)) (mkBasicType (mkSpan (mkPtok 20 "u8" 9 0 21) (mkPtok 20 "u8" 9 0 21)) (mkPtok 20 "u8" 9 0 21))) (mkPtok 42 "charz" 9 3 22) (Some (mkPtok 43 (string_of_bytes [96; 195; 169; 96]%N) 9 9 23)) (mkPtok 40 "," 9 12 24)))); (mkFieldWithAttr (mkSpan (mkPtok 9 "@tag(" 10 0 25) (mkPtok 40 "," 14 0 35)) [(FATag (mkSpan (mkPtok 9 "@tag(" 10 0 25) (mkPtok 6 ")" 12 0 27)) (mkTagAttr (mkSpan (mkPtok 9 "@tag(" 10 0 25) (mkPtok 6 ")" 12 0 27)) (mkPtok 9 "@tag(" 10 0 25) (mkPtok 30 "007" 11 0 26) (mkPtok 6 ")" 12 0 27)))] (CheckSumField (mkSpan (mkPtok 12 "char[" 12 3 28) (mkPtok 40 "," 14 0 35)) (mkChecksumFieldDecl (mkSpan (mkPtok 12 "char[" 12 3 28) (mkPtok 40 "," 14 0 35)) (Some (TyFixed (mkSpan (mkPtok 12 "char[" 12 3 28) (mkPtok 13 "]" 12 15 30)) (mkFixedString (mkSpan (mkPtok 12 "char[" 12 3 28) (mkPtok 13 "]" 12 15 30)) (mkPtok 12 "char[" 12 3 28) (mkPtok 30 "65535" 12 9 29) (mkPtok 13 "]" 12 15 30)))) (mkPtok 42 "body" 12 17 31) (mkCalculatedFrom (mkSpan (mkPtok 5 "@calculatedFrom(" 12 22 32) (mkPtok 6 ")" 13 5 34)) (mkPtok 5 "@calculatedFrom(" 12 22 32) (mkPtok 31 """a\\""" 13 0 33) (mkPtok 6 ")" 13 5 34)) None (mkPtok 40 "," 14 0 35)))); (mkFieldWithAttr (mkSpan (mkPtok 42 "i8i8" 14 2 36) (mkPtok 40 "," 14 8 38)) [] (ObjectField (mkSpan (mkPtok 42 "i8i8" 14 2 36) (mkPtok 40 "," 14 8 38)) None (mkPtok 42 "i8i8" 14 2 36) None (Some (mkPtok 43 "``" 14 6 37)) (mkPtok 40 "," 14 8 38))); (mkFieldWithAttr (mkSpan (mkPtok 5 "@calculatedFrom(" 14 10 39) (mkPtok 40 "," 22 7 60)) [(FACalculatedFrom (mkSpan (mkPtok 5 "@calculatedFrom(" 14 10 39) (mkPtok 6 ")" 16 0 42)) (mkCalculatedFrom (mkSpan (mkPtok 5 "@calculatedFrom(" 14 10 39) (mkPtok 6 ")" 16 0 42)) (mkPtok 5 "@calculatedFrom(" 14 10 39) (mkPtok 31 (string_of_bytes [34; 240; 159; 152; 128; 34]%N) 15 4 40) (mkPtok 6 ")" 16 0 42))); (FATag (mkSpan (mkPtok 9 "@tag(" 16 2 43) (mkPtok 6 ")" 16 9 45)) (mkTagAttr (mkSpan (mkPtok 9 "@tag(" 16 2 43) (mkPtok 6 ")" 16 9 45)) (mkPtok 9 "@tag(" 16 2 43) (mkPtok 30 "1" 16 7 44) (mkPtok 6 ")" 16 9 45))); (FALengthOf (mkSpan (mkPtok 7 "@lengthOf(" 16 11 46) (mkPtok 6 ")" 16 24 48)) (mkLengthOf (mkSpan (mkPtok 7 "@lengthOf(" 16 11 46) (mkPtok 6 ")" 16 24 48)) (mkPtok 7 "@lengthOf(" 16 11 46) (mkPtok 42 "x" 16 22 47) (mkPtok 6 ")" 16 24 48)))] (InerObjectField (mkSpan (mkPtok 36 "repeat" 17 0 49) (mkPtok 40 "," 22 7 60)) (Some (mkPtok 36 "repeat" 17 0 49)) (InerObjectDecl (mkSpan (mkPtok 42 "_x" 17 7 50) (mkPtok 3 "}" 22 6 59)) (mkPtok 42 "_x" 17 7 50) (mkPtok 2 "{" 17 9 51) [(MetaField (mkSpan (mkPtok 15 "string" 17 10 52) (mkPtok 40 "," 22 4 58)) None (mkMetaDecl (mkSpan (mkPtok 15 "string" 17 10 52) (mkPtok 40 "," 22 4 58)) (TyDynamic (mkSpan (mkPtok 15 "string" 17 10 52) (mkPtok 15 "string" 17 10 52)) (mkDynamicString (mkSpan (mkPtok 15 "string" 17 10 52) (mkPtok 15 "string" 17 10 52)) (mkPtok 15 "string" 17 10 52))) (mkPtok 42 "u" 18 0 54) (Some (mkPtok 43 "`it's`" 21 0 57)) (mkPtok 40 "," 22 4 58)))] (mkPtok 3 "}" 22 6 59)) (mkPtok 40 "," 22 7 60))); (mkFieldWithAttr (mkSpan (mkPtok 5 "@calculatedFrom(" 23 0 61) (mkPtok 40 "," 23 44 67)) [(FACalculatedFrom (mkSpan (mkPtok 5 "@calculatedFrom(" 23 0 61) (mkPtok 6 ")" 23 23 63)) (mkCalculatedFrom (mkSpan (mkPtok 5 "@calculatedFrom(" 23 0 61) (mkPtok 6 ")" 23 23 63)) (mkPtok 5 "@calculatedFrom(" 23 0 61) (mkPtok 31 (string_of_bytes [34; 195; 169; 116; 195; 169; 34]%N) 23 17 62) (mkPtok 6 ")" 23 23 63)))] (MetaField (mkSpan (mkPtok 25 "int16" 23 25 64) (mkPtok 40 "," 23 44 67)) None (mkMetaDecl (mkSpan (mkPtok 25 "int16" 23 25 64) (mkPtok 40 "," 23 44 67)) (TyBasic (mkSpan (mkPtok 25 "int16" 23 25 64) (mkPtok 25 "int16" 23 25 64)) (mkBasicType (mkSpan (mkPtok 25 "int16" 23 25 64) (mkPtok 25 "int16" 23 25 64)) (mkPtok 25 "int16" 23 25 64))) (mkPtok 42 "x_y_z" 23 31 65) (Some (mkPtok 43 "`it's`" 23 37 66)) (mkPtok 40 "," 23 44 67))))] (mkPtok 3 "}" 23 45 68))); (DOption (mkOptionDef (mkSpan (mkPtok 1 "options" 23 47 69) (mkPtok 3 "}" 27 0 79)) (mkPtok 1 "options" 23 47 69) (mkPtok 2 "{" 23 55 70) [(mkOptionDecl (mkSpan (mkPtok 42 "uint8x" 23 57 71) (mkPtok 41 ";" 23 70 74)) (mkPtok 42 "uint8x" 23 57 71) (mkPtok 4 "=" 23 64 72) (VDigits (mkSpan (mkPtok 30 "255" 23 66 73) (mkPtok 30 "255" 23 66 73)) (mkPtok 30 "255" 23 66 73)) (Some (mkPtok 41 ";" 23 70 74))); (mkOptionDecl (mkSpan (mkPtok 42 "metadata" 24 4 75) (mkPtok 41 ";" 26 4 78)) (mkPtok 42 "metadata" 24 4 75) (mkPtok 4 "=" 25 0 76) (VPaddingChar (mkSpan (mkPtok 33 "' '" 26 0 77) (mkPtok 33 "' '" 26 0 77)) (mkPtok 33 "' '" 26 0 77)) (Some (mkPtok 41 ";" 26 4 78)))] (mkPtok 3 "}" 27 0 79))); (DPacket (mkPacketDef (mkSpan (mkPtok 34 "root" 27 2 80) (mkPtok 3 "}" 29 2 88)) (Some (mkPtok 34 "root" 27 2 80)) (mkPtok 35 "packet" 27 7 81) (mkPtok 42 "zchar" 27 14 82) (mkPtok 2 "{" 27 20 83) [(mkFieldWithAttr (mkSpan (mkPtok 27 "int64" 27 22 84) (mkPtok 40 "," 29 0 87)) [] (MetaField (mkSpan (mkPtok 27 "int64" 27 22 84) (mkPtok 40 "," 29 0 87)) None (mkMetaDecl (mkSpan (mkPtok 27 "int64" 27 22 84) (mkPtok 40 "," 29 0 87)) (TyBasic (mkSpan (mkPtok 27 "int64" 27 22 84) (mkPtok 27 "int64" 27 22 84)) (mkBasicType (mkSpan (mkPtok 27 "int64" 27 22 84) (mkPtok 27 "int64" 27 22 84)) (mkPtok 27 "int64" 27 22 84))) (mkPtok 42 "As" 27 28 85) (Some (mkPtok 43 (string_of_bytes [96; 10; 96]%N) 27 31 86)) (mkPtok 40 "," 29 0 87))))] (mkPtok 3 "}" 29 2 88)))])).
Eval vm_compute in ("<<<M1942>>>" ++ check (runes_of_ascii "MetaData u { // `tick` ""quote"" 'q'
int16 Logon , i64 stringy `doc` , u32 _x , char[] options1 , }
/// triple
")).
Eval vm_compute in ("<<<M1974>>>" ++ check (runes_of_ascii "packet  As { msg_type @lengthOf(//	t
int
) , match rootA as rootA {""""  :
asx
}
, u32 repeatCount// " ++ [27880; 37322]%N ++ runes_of_ascii "
@calculatedFrom( ""\" ++ [233]%N ++ runes_of_ascii """
) `a\` ,
}
")).
Eval vm_compute in ("<<<M2006>>>" ++ check (runes_of_ascii "root packet SimpleMessage {
    uint16 MsgType `" ++ [28040; 24687; 31867; 22411]%N ++ runes_of_ascii "`,
    string JsonBody `Json" ++ [23383; 31526; 20018; 28040; 24687; 20307]%N ++ runes_of_ascii "`,
}")).
Eval vm_compute in ("<<<M2038>>>" ++ check (runes_of_ascii "MetaData repeatCount { float64 packetx")).
Eval vm_compute in ("<<<M2070>>>" ++ check (runes_of_ascii "MetaData repeatCount { float64 packetx,
} root packet  metadata {
char _x _x @lengthOf( trueish ), @leftPad
( ' '// " ++ [27880; 37322]%N ++ runes_of_ascii "
)/// triple
char[] len`doc` , // packet A { u8 x, }
repeatCount , }
")).
Eval vm_compute in ("<<<M2102>>>" ++ check (runes_of_ascii "MetaData repeatCount { float64 packetx,
} root packet  metadata {
char _x @lengthOf( trueish ), @leftPad
""\" ++ [233]%N ++ runes_of_ascii """ ' '// " ++ [27880; 37322]%N ++ runes_of_ascii "
)/// triple
char[] len`doc` , // packet A { u8 x, }
repeatCount , }
")).
Eval vm_compute in ("<<<M2134>>>" ++ check (runes_of_ascii "MetaData repeatCount { float64 packetx,
} root packet  metadata {
char _x @lengthOf( trueish ), @leftPad
( ' '// " ++ [27880; 37322]%N ++ runes_of_ascii "
)/// triple
char[] len`doc` , // packet A { u8 x, }
 , }
")).
Eval vm_compute in ("<<<M2166>>>" ++ check (runes_of_ascii "MetaData repeatCount { float64 packetx,
} root packet  metadata {
char _x @lengthOf( trueish ), @leftPad
( ' '// " ++ [27880; 37322]%N ++ runes_of_ascii "
)/// triple
char[] len`doc` , // packet A { u8 x, }
repeatCoun@lengthOft , }
")).
Eval vm_compute in ("<<<M2198>>>" ++ check (runes_of_ascii "options{
leftPad
    =65535
(
a1 = true ; packetx=  '\x00' ; packetx
=  """ ++ [28040; 24687]%N ++ runes_of_ascii """MetaDataX= // " ++ [27880; 37322]%N ++ runes_of_ascii "
false }root // c
packet // packet A { u8 x, }
Pad { repeat
u8 Header
// packet A { u8 x, }
//	t
`{ , }`
// a // b
//x
, }
")).
Eval vm_compute in ("<<<M2230>>>" ++ check (runes_of_ascii "options{
leftPad
    =65535
;
a1 = true ; packetx=   ; packetx
=  """ ++ [28040; 24687]%N ++ runes_of_ascii """MetaDataX= // " ++ [27880; 37322]%N ++ runes_of_ascii "
false }root // c
packet // packet A { u8 x, }
Pad { repeat
u8 Header
// packet A { u8 x, }
//	t
`{ , }`
// a // b
//x
, }
")).
Eval vm_compute in ("<<<M2262>>>" ++ check (runes_of_ascii "options{
leftPad
    =65535
;
a1 = true ; packetx=  '\x00' ; packetx
=  """ ++ [28040; 24687]%N ++ runes_of_ascii """MetaDataX false // " ++ [27880; 37322]%N ++ runes_of_ascii "
= }root // c
packet // packet A { u8 x, }
Pad { repeat
u8 Header
// packet A { u8 x, }
//	t
`{ , }`
// a // b
//x
, }
")).
Eval vm_compute in ("<<<M2294>>>" ++ check (runes_of_ascii "options{
leftPad
    =65535
;
a1 = true ; packetx=  '\x00' ; packetx
=  """ ++ [28040; 24687]%N ++ runes_of_ascii """MetaDataX= // " ++ [27880; 37322]%N ++ runes_of_ascii "
false }root // c
packet // packet A { u8 x, }
Pad")).
Eval vm_compute in ("<<<M2326>>>" ++ check (runes_of_ascii "options{
leftPad
    =65535
;
a1 = true ; packetx=  '\x00' ; packetx
=  """ ++ [28040; 24687]%N ++ runes_of_ascii """MetaDataX= // " ++ [27880; 37322]%N ++ runes_of_ascii "
false }root // c
packet // packet A { u8 x, }
Pad { repe")).
Eval vm_compute in ("<<<M2358>>>" ++ check (runes_of_ascii "
packet float
@calculatedFrom(	{ """ ++ [233]%N ++ runes_of_ascii "t" ++ [233]%N ++ runes_of_ascii """ )
@rightPad ( '\x00' )
    @calculatedFrom( ""x y"" ) string chars  ,
    // a // b
    char[0 ]
    u	@lengthOf( i8i8 ) `{ , }` ,repeat char[] o //x
`// not a comment`, } // c")).
Eval vm_compute in ("<<<M2390>>>" ++ check (runes_of_ascii "
packet float
{	@calculatedFrom( """ ++ [233]%N ++ runes_of_ascii "t" ++ [233]%N ++ runes_of_ascii """ )
@rightPad (")).
Eval vm_compute in ("<<<M2422>>>" ++ check (runes_of_ascii "
packet float
{	@calculatedFrom( """ ++ [233]%N ++ runes_of_ascii "t" ++ [233]%N ++ runes_of_ascii """ )
@rightPad ( '\x00' )
    @calculatedFrom( ""x y"" ) string chars  , ,
    // a // b
    char[0 ]
    u	@lengthOf( i8i8 ) `{ , }` ,repeat char[] o //x
`// not a comment`, } // c")).
Eval vm_compute in ("<<<M2454>>>" ++ check (runes_of_ascii "
packet float
{	@calculatedFrom( """ ++ [233]%N ++ runes_of_ascii "t" ++ [233]%N ++ runes_of_ascii """ )
@rightPad ( '\x00' )
    @calculatedFrom( ""x y"" ) string chars  ,
    // a // b
    char[0 ]
    u	@lengthOf( 3 ) `{ , }` ,repeat char[] o //x
`// not a comment`, } // c")).
Eval vm_compute in ("<<<M2486>>>" ++ check (runes_of_ascii "
packet float
{	@calculatedFrom( """ ++ [233]%N ++ runes_of_ascii "t" ++ [233]%N ++ runes_of_ascii """ )
@rightPad ( '\x00' )
    @calculatedFrom( ""x y"" ) string chars  ,
    // a // b
    char[0 ]
    u	@lengthOf( i8i8 ) `{ , }` ,repeat char[] o //x
, } // c")).
Eval vm_compute in ("<<<M2518>>>" ++ check (runes_of_ascii "
packet float
{	@calculatedFrom( """ ++ [233]%N ++ runes_of_ascii "t" ++ [233]%N ++ runes_of_ascii """ )
@rightPad ( '\x00' )
    @calculatedFrom( ""x y"" ) string chars  ,
    // a // b
    char[0 ]
    u	@lengthOf( i8i8 ) `{ , }` ,repeat char[] o'1' //x
`// not a comment`, } // c")).
Eval vm_compute in ("<<<M2550>>>" ++ check (runes_of_ascii "root packet u128{
    repeat
    char 65535 ] u `" ++ [28040; 24687; 31867; 22411]%N ++ runes_of_ascii "` ,// `tick` ""quote"" 'q'
} packet i64_ {repeatCount
    `
` ,	} // " ++ [128512]%N ++ runes_of_ascii " emoji")).
Eval vm_compute in ("<<<M2582>>>" ++ check (runes_of_ascii "root packet u128{
    repeat
    zchar[ 65535 ] u `" ++ [28040; 24687; 31867; 22411]%N ++ runes_of_ascii "` ,// `tick` ""quote"" 'q'
}  i64_ {repeatCount
    `
` ,	} // " ++ [128512]%N ++ runes_of_ascii " emoji")).
Eval vm_compute in ("<<<M2614>>>" ++ check (runes_of_ascii "root packet u128{
    repeat
    zchar[ 65535 ] u `" ++ [28040; 24687; 31867; 22411]%N ++ runes_of_ascii "` ,// `tick` ""quote"" 'q'
} packet i64_ {repeatCount
    `
` ,	packet // " ++ [128512]%N ++ runes_of_ascii " emoji")).
Eval vm_compute in ("<<<M2646>>>" ++ check (runes_of_ascii "
MetaData
char { int8
    BodyLength ,//	t
}
")).
Eval vm_compute in ("<<<M2678>>>" ++ check (runes_of_ascii "
MetaData
roots { int8
   $ BodyLength ,//	t
}
")).
Eval vm_compute in ("<<<M2710>>>" ++ check (runes_of_ascii "options {Packet = = ""CRC32""i8i8 = false; leftPad =
    '\x00'
    // `tick` ""quote"" 'q'
    ; o=255  ;
    // packet A { u8 x, }
    }")).
Eval vm_compute in ("<<<M2742>>>" ++ check (runes_of_ascii "options {Packet = ""CRC32""i8i8 = false; ] =
    '\x00'
    // `tick` ""quote"" 'q'
    ; o=255  ;
    // packet A { u8 x, }
    }")).
Eval vm_compute in ("<<<M2774>>>" ++ check (runes_of_ascii "options {Packet = ""CRC32""i8i8 = false; leftPad =
    '\x00'
    // `tick` ""quote"" 'q'
    ; o=255  
    // packet A { u8 x, }
    }")).
Eval vm_compute in ("<<<M2806>>>" ++ check (runes_of_ascii "
packet packet metadata { @rightPad (
    // packet A { u8 x, }
    ' ' ) repeat u32	A
,matchKey ,
    @lengthOf( string_ ) @lengthOf( body )
    // a // b
    @lengthOf(float  )	repeat
int32 u8x
    // c
    `tab	here`
, } // a // b")).
Eval vm_compute in ("<<<M2838>>>" ++ check (runes_of_ascii "
packet metadata { @rightPad (
    // packet A { u8 x, }
    ' ' @lengthOf( repeat u32	A
,matchKey ,
    @lengthOf( string_ ) @lengthOf( body )
    // a // b
    @lengthOf(float  )	repeat
int32 u8x
    // c
    `tab	here`
, } // a // b")).
Eval vm_compute in ("<<<M2870>>>" ++ check (runes_of_ascii "
packet metadata { @rightPad (
    // packet A { u8 x, }
    ' ' ) repeat u32	A
,matchKey ,
     string_ ) @lengthOf( body )
    // a // b
    @lengthOf(float  )	repeat
int32 u8x
    // c
    `tab	here`
, } // a // b")).
Eval vm_compute in ("<<<M2902>>>" ++ check (runes_of_ascii "
packet metadata { @rightPad (
    // packet A { u8 x, }
    ' ' ) repeat u32	A
,matchKey ,
    @lengthOf( string_ ) @lengthOf( body )
    // a // b
    float@lengthOf(  )	repeat
int32 u8x
    // c
    `tab	here`
, } // a // b")).
Eval vm_compute in ("<<<M2934>>>" ++ check (runes_of_ascii "
packet metadata { @rightPad (
    // packet A { u8 x, }
    ' ' ) repeat u32	A
,matchKey ,
    @lengthOf( string_ ) @lengthOf( body )
    // a // b
    @lengthOf(float  )	repeat
int32 u8x")).
Eval vm_compute in ("<<<M2966>>>" ++ check (runes_of_ascii " x{
string
zchar , //	t
}
")).
Eval vm_compute in ("<<<M2998>>>" ++ check (runes_of_ascii "packet x{
string
zchar , //	t
root
")).
Eval vm_compute in ("<<<M3030>>>" ++ check (runes_of_ascii "
MetaData true
{ // c
}root packet
    Pad {
    } options
{
u
    =
    ""CRC32""
    // " ++ [128512]%N ++ runes_of_ascii " emoji
    i64_ = u16;
T =65535 x = ' '
    ; u128
= true ; }")).
Eval vm_compute in ("<<<M3062>>>" ++ check (runes_of_ascii "
MetaData Logon
{ // c
}root packet
    Pad {
     options
{
u
    =
    ""CRC32""
    // " ++ [128512]%N ++ runes_of_ascii " emoji
    i64_ = u16;
T =65535 x = ' '
    ; u128
= true ; }")).
Eval vm_compute in ("<<<M3094>>>" ++ check (runes_of_ascii "
MetaData Logon
{ // c
}root packet
    Pad {
    } options
{
u
    =
    ""CRC32""
    // " ++ [128512]%N ++ runes_of_ascii " emoji
    = i64_ u16;
T =65535 x = ' '
    ; u128
= true ; }")).
Eval vm_compute in ("<<<M3126>>>" ++ check (runes_of_ascii "
MetaData Logon
{ // c
}root packet
    Pad {
    } options
{
u
    =
    ""CRC32""
    // " ++ [128512]%N ++ runes_of_ascii " emoji
    i64_ = u16;
T =")).
Eval vm_compute in ("<<<M3158>>>" ++ check (runes_of_ascii "
MetaData Logon
{ // c
}root packet
    Pad {
    } options
{
u
    =
    ""CRC32""
    // " ++ [128512]%N ++ runes_of_ascii " emoji
    i64_ = u16;
T =65535 x = ' '
    ; u128
= true true ; }")).
Eval vm_compute in ("<<<M3190>>>" ++ check (runes_of_ascii "
MetaData Logon
{ // c
}root packet
    x" ++ [178]%N ++ runes_of_ascii " {
    } options
{
u
    =
    ""CRC32""
    // " ++ [128512]%N ++ runes_of_ascii " emoji
    i64_ = u16;
T =65535 x = ' '
    ; u128
= true ; }")).
Eval vm_compute in ("<<<M3222>>>" ++ check (runes_of_ascii "MetaData body{}
packet")).
Eval vm_compute in ("<<<M3254>>>" ++ check (runes_of_ascii "MetaData body{}
packet	Packet { x_y_z @calculatedFrom(  ""a\\"")// `tick` ""quote"" 'q'
, } }
")).
Eval vm_compute in ("<<<M3286>>>" ++ check (runes_of_ascii "packet { f32a} root packet len {repeat u // " ++ [128512]%N ++ runes_of_ascii " emoji
`{ , }` , }
")).
Eval vm_compute in ("<<<M3318>>>" ++ check (runes_of_ascii "packet f32a {} root packet len")).
Eval vm_compute in ("<<<M3350>>>" ++ check (runes_of_ascii "packet f32a {"" } root packet len {repeat u // " ++ [128512]%N ++ runes_of_ascii " emoji
`{ , }` , }
")).
Eval vm_compute in ("<<<M3382>>>" ++ check (runes_of_ascii "options{ _x=""\" ++ [233]%N ++ runes_of_ascii """;
    Logon = 10	; Foo= 7;
i64_= char[]} options @x {
matchKey = ""// no comment"" // a // b
falsey = string
; trueish =
    4294967296
options1=
    ""it's"" string_	= true } options {
    /// triple
    }")).
Eval vm_compute in ("<<<M3414>>>" ++ check (runes_of_ascii "options{ _x=""\" ++ [233]%N ++ runes_of_ascii """;
    Logon = 10	; Foo= 7;
i64_= char[]} options")).
Eval vm_compute in ("<<<M3446>>>" ++ check (runes_of_ascii "options{ _x=""\" ++ [233]%N ++ runes_of_ascii """;
    Logon = 10	; Foo= 7;
i64_= char[]u64 options {
matchKey = ""// no comment"" // a // b
falsey = string
; trueish =
    4294967296
options1=
    ""it's"" string_	= true } options {
    /// triple
    }")).
Eval vm_compute in ("<<<M3478>>>" ++ check (runes_of_ascii "options{ _x=""\" ++ [233]%N ++ runes_of_ascii """;
    Logon = 10	; Foo= 7;
i64_= char[]} options {
matchKey = ""// no comment"" // a // b
falsey = string
; trueish =
    4294967296
options1=
    string_ ""it's""	= true } options {
    /// triple
    }")).
Eval vm_compute in ("<<<M3510>>>" ++ check (runes_of_ascii "int8 int16 int32 int64 int")).
Eval vm_compute in ("<<<M3542>>>" ++ check (runes_of_ascii "''")).
Eval vm_compute in ("<<<M3574>>>" ++ check (runes_of_ascii """a")).
Eval vm_compute in ("<<<M3606>>>" ++ check (runes_of_ascii ": , ; = ( ) [ ] { }")).
Eval vm_compute in ("<<<M3638>>>" ++ check (runes_of_ascii "packet A { x y, }")).
Eval vm_compute in ("<<<M3670>>>" ++ check (runes_of_ascii "packet A { match k as n { 1 : B } }")).
Eval vm_compute in ("<<<M3702>>>" ++ check (runes_of_ascii "packet A {")).
Eval vm_compute in ("<<<M3734>>>" ++ check (runes_of_ascii "options { a = true; b = false; c = '0'; d = ""s""; e = 007; }")).
Eval vm_compute in ("<<<M3766>>>" ++ check (runes_of_ascii "i64 i16 @lengthOf( match =")).
Eval vm_compute in ("<<<M3798>>>" ++ check (runes_of_ascii "true @lengthOf( '0' i64 root zchar[")).
Eval vm_compute in ("<<<M3830>>>" ++ check (runes_of_ascii "i32 string = f64")).
Eval vm_compute in ("<<<M3862>>>" ++ check (runes_of_ascii "options packet ) zchar[")).
Eval vm_compute in ("<<<M3894>>>" ++ check (runes_of_ascii "int8 true match uint8")).
Eval vm_compute in ("<<<M3926>>>" ++ check (runes_of_ascii "char[ float64 char @lengthOf( ; ; , @leftPad")).
Eval vm_compute in ("<<<M3958>>>" ++ check (runes_of_ascii "i64 packet ; int32 ; i8 char[] string MetaData ; true 65535")).
Eval vm_compute in ("<<<M3990>>>" ++ check (runes_of_ascii "@lengthOf( int64 ] ; char[")).
