From FP Require Import Lexer Parser ShowPT Digest.
From Coq Require Import String List NArith.
Import ListNotations.
Open Scope string_scope.
Set Printing Width 100000000.
Set Printing Depth 100000000.
Definition nl : string := String (Ascii.ascii_of_nat 10) EmptyString.
Definition model_lex (rs : list rune) : string := show_toks (lex rs).
Definition model_parse (rs : list rune) : string :=
  show_pt (match lex rs with Some ts => parse ts | None => None end).
(* coqc is slow at printing long strings: digests first (Digest.v), full texts on demand *)
Definition check (rs : list rune) : string :=
  digest (model_lex rs) ++ " " ++ digest (model_parse rs).
Definition full (rs : list rune) : string := model_lex rs ++ nl ++ model_parse rs.
Definition terms (ts : list tok) (t : pt) : string :=
  digest (show_toks (Some ts)) ++ " " ++ digest (show_pt (Some t)) ++ " " ++ digest (show_pt (parse ts)).
Definition terms_full (ts : list tok) (t : pt) : string :=
  show_toks (Some ts) ++ nl ++ show_pt (Some t) ++ nl ++ show_pt (parse ts).
Eval vm_compute in ("<<<M22>>>" ++ check (runes_of_ascii "//	t
packet Packet{ u64 tag
,}
")).
Eval vm_compute in ("<<<M54>>>" ++ check (runes_of_ascii "  root packet _x// " ++ [128512]%N ++ runes_of_ascii " emoji
{@lengthOf(// c
Packet ) float32 stringy  @calculatedFrom(
""x y"" ) `say ""hi""`, match Pad as
x_y_z{ ""a\\"" : float , 65535 : stringy 007: /// triple
uint8x ,
    } , }
")).
Eval vm_compute in ("<<<M86>>>" ++ check (runes_of_ascii "
")).
Eval vm_compute in ("<<<M118>>>" ++ check (runes_of_ascii "packet body { Pad {a1`crlf
line`
    , zchar[ 007] a1 ,char[10 ] x_y_z  ,
repeat
zchar[ 1  ] metadata `u8 x,` , } , string  trueish
,repeat uint8x u ,	@tag( /// triple
007 ) calculatedFrom
{repeat BodyLength
`doc` ,
    }/// triple
, int64 lengthOf,/// triple
@lengthOf(
leftPad) @calculatedFrom( ""x y"" ) @calculatedFrom( // " ++ [27880; 37322]%N ++ runes_of_ascii "
""\" ++ [233]%N ++ runes_of_ascii """ )  falsey a1 , }")).
Eval vm_compute in ("<<<T118>>>" ++ terms [mkTok 35 "packet" 1 0 false; mkTok 42 "body" 1 7 false; mkTok 2 "{" 1 12 false; mkTok 42 "Pad" 1 14 false; mkTok 2 "{" 1 18 false; mkTok 42 "a1" 1 19 false; mkTok 43 (string_of_bytes [96; 99; 114; 108; 102; 13; 10; 108; 105; 110; 101; 96]%N) 1 21 false; mkTok 40 "," 3 4 false; mkTok 14 "zchar[" 3 6 false; mkTok 30 "007" 3 13 false; mkTok 13 "]" 3 16 false; mkTok 42 "a1" 3 18 false; mkTok 40 "," 3 21 false; mkTok 12 "char[" 3 22 false; mkTok 30 "10" 3 27 false; mkTok 13 "]" 3 30 false; mkTok 42 "x_y_z" 3 32 false; mkTok 40 "," 3 39 false; mkTok 36 "repeat" 4 0 false; mkTok 14 "zchar[" 5 0 false; mkTok 30 "1" 5 7 false; mkTok 13 "]" 5 10 false; mkTok 42 "metadata" 5 12 false; mkTok 43 "`u8 x,`" 5 21 false; mkTok 40 "," 5 29 false; mkTok 3 "}" 5 31 false; mkTok 40 "," 5 33 false; mkTok 15 "string" 5 35 false; mkTok 42 "trueish" 5 43 false; mkTok 40 "," 6 0 false; mkTok 36 "repeat" 6 1 false; mkTok 42 "uint8x" 6 8 false; mkTok 42 "u" 6 15 false; mkTok 40 "," 6 17 false; mkTok 9 "@tag(" 6 19 false; mkTok 44 "/// triple" 6 25 true; mkTok 30 "007" 7 0 false; mkTok 6 ")" 7 4 false; mkTok 42 "calculatedFrom" 7 6 false; mkTok 2 "{" 8 0 false; mkTok 36 "repeat" 8 1 false; mkTok 42 "BodyLength" 8 8 false; mkTok 43 "`doc`" 9 0 false; mkTok 40 "," 9 6 false; mkTok 3 "}" 10 4 false; mkTok 44 "/// triple" 10 5 true; mkTok 40 "," 11 0 false; mkTok 27 "int64" 11 2 false; mkTok 42 "lengthOf" 11 8 false; mkTok 40 "," 11 16 false; mkTok 44 "/// triple" 11 17 true; mkTok 7 "@lengthOf(" 12 0 false; mkTok 42 "leftPad" 13 0 false; mkTok 6 ")" 13 7 false; mkTok 5 "@calculatedFrom(" 13 9 false; mkTok 31 """x y""" 13 26 false; mkTok 6 ")" 13 32 false; mkTok 5 "@calculatedFrom(" 13 34 false; mkTok 44 (string_of_bytes [47; 47; 32; 230; 179; 168; 233; 135; 138]%N) 13 51 true; mkTok 31 (string_of_bytes [34; 92; 195; 169; 34]%N) 14 0 false; mkTok 6 ")" 14 5 false; mkTok 42 "falsey" 14 8 false; mkTok 42 "a1" 14 15 false; mkTok 40 "," 14 18 false; mkTok 3 "}" 14 20 false; mkTok 0 "<EOF>" 14 21 false] (mkPacket (mkPtok 35 "packet" 1 0 0) (Some (mkPtok 3 "}" 14 20 64)) [(DPacket (mkPacketDef (mkSpan (mkPtok 35 "packet" 1 0 0) (mkPtok 3 "}" 14 20 64)) None (mkPtok 35 "packet" 1 0 0) (mkPtok 42 "body" 1 7 1) (mkPtok 2 "{" 1 12 2) [(mkFieldWithAttr (mkSpan (mkPtok 42 "Pad" 1 14 3) (mkPtok 40 "," 5 33 26)) [] (InerObjectField (mkSpan (mkPtok 42 "Pad" 1 14 3) (mkPtok 40 "," 5 33 26)) None (InerObjectDecl (mkSpan (mkPtok 42 "Pad" 1 14 3) (mkPtok 3 "}" 5 31 25)) (mkPtok 42 "Pad" 1 14 3) (mkPtok 2 "{" 1 18 4) [(ObjectField (mkSpan (mkPtok 42 "a1" 1 19 5) (mkPtok 40 "," 3 4 7)) None (mkPtok 42 "a1" 1 19 5) None (Some (mkPtok 43 (string_of_bytes [96; 99; 114; 108; 102; 13; 10; 108; 105; 110; 101; 96]%N) 1 21 6)) (mkPtok 40 "," 3 4 7)); (MetaField (mkSpan (mkPtok 14 "zchar[" 3 6 8) (mkPtok 40 "," 3 21 12)) None (mkMetaDecl (mkSpan (mkPtok 14 "zchar[" 3 6 8) (mkPtok 40 "," 3 21 12)) (TyFixed (mkSpan (mkPtok 14 "zchar[" 3 6 8) (mkPtok 13 "]" 3 16 10)) (mkFixedString (mkSpan (mkPtok 14 "zchar[" 3 6 8) (mkPtok 13 "]" 3 16 10)) (mkPtok 14 "zchar[" 3 6 8) (mkPtok 30 "007" 3 13 9) (mkPtok 13 "]" 3 16 10))) (mkPtok 42 "a1" 3 18 11) None (mkPtok 40 "," 3 21 12))); (MetaField (mkSpan (mkPtok 12 "char[" 3 22 13) (mkPtok 40 "," 3 39 17)) None (mkMetaDecl (mkSpan (mkPtok 12 "char[" 3 22 13) (mkPtok 40 "," 3 39 17)) (TyFixed (mkSpan (mkPtok 12 "char[" 3 22 13) (mkPtok 13 "]" 3 30 15)) (mkFixedString (mkSpan (mkPtok 12 "char[" 3 22 13) (mkPtok 13 "]" 3 30 15)) (mkPtok 12 "char[" 3 22 13) (mkPtok 30 "10" 3 27 14) (mkPtok 13 "]" 3 30 15))) (mkPtok 42 "x_y_z" 3 32 16) None (mkPtok 40 "," 3 39 17))); (MetaField (mkSpan (mkPtok 36 "repeat" 4 0 18) (mkPtok 40 "," 5 29 24)) (Some (mkPtok 36 "repeat" 4 0 18)) (mkMetaDecl (mkSpan (mkPtok 14 "zchar[" 5 0 19) (mkPtok 40 "," 5 29 24)) (TyFixed (mkSpan (mkPtok 14 "zchar[" 5 0 19) (mkPtok 13 "]" 5 10 21)) (mkFixedString (mkSpan (mkPtok 14 "zchar[" 5 0 19) (mkPtok 13 "]" 5 10 21)) (mkPtok 14 "zchar[" 5 0 19) (mkPtok 30 "1" 5 7 20) (mkPtok 13 "]" 5 10 21))) (mkPtok 42 "metadata" 5 12 22) (Some (mkPtok 43 "`u8 x,`" 5 21 23)) (mkPtok 40 "," 5 29 24)))] (mkPtok 3 "}" 5 31 25)) (mkPtok 40 "," 5 33 26))); (mkFieldWithAttr (mkSpan (mkPtok 15 "string" 5 35 27) (mkPtok 40 "," 6 0 29)) [] (MetaField (mkSpan (mkPtok 15 "string" 5 35 27) (mkPtok 40 "," 6 0 29)) None (mkMetaDecl (mkSpan (mkPtok 15 "string" 5 35 27) (mkPtok 40 "," 6 0 29)) (TyDynamic (mkSpan (mkPtok 15 "string" 5 35 27) (mkPtok 15 "string" 5 35 27)) (mkDynamicString (mkSpan (mkPtok 15 "string" 5 35 27) (mkPtok 15 "string" 5 35 27)) (mkPtok 15 "string" 5 35 27))) (mkPtok 42 "trueish" 5 43 28) None (mkPtok 40 "," 6 0 29)))); (mkFieldWithAttr (mkSpan (mkPtok 36 "repeat" 6 1 30) (mkPtok 40 "," 6 17 33)) [] (ObjectField (mkSpan (mkPtok 36 "repeat" 6 1 30) (mkPtok 40 "," 6 17 33)) (Some (mkPtok 36 "repeat" 6 1 30)) (mkPtok 42 "uint8x" 6 8 31) (Some (mkPtok 42 "u" 6 15 32)) None (mkPtok 40 "," 6 17 33))); (mkFieldWithAttr (mkSpan (mkPtok 9 "@tag(" 6 19 34) (mkPtok 40 "," 11 0 46)) [(FATag (mkSpan (mkPtok 9 "@tag(" 6 19 34) (mkPtok 6 ")" 7 4 37)) (mkTagAttr (mkSpan (mkPtok 9 "@tag(" 6 19 34) (mkPtok 6 ")" 7 4 37)) (mkPtok 9 "@tag(" 6 19 34) (mkPtok 30 "007" 7 0 36) (mkPtok 6 ")" 7 4 37)))] (InerObjectField (mkSpan (mkPtok 42 "calculatedFrom" 7 6 38) (mkPtok 40 "," 11 0 46)) None (InerObjectDecl (mkSpan (mkPtok 42 "calculatedFrom" 7 6 38) (mkPtok 3 "}" 10 4 44)) (mkPtok 42 "calculatedFrom" 7 6 38) (mkPtok 2 "{" 8 0 39) [(ObjectField (mkSpan (mkPtok 36 "repeat" 8 1 40) (mkPtok 40 "," 9 6 43)) (Some (mkPtok 36 "repeat" 8 1 40)) (mkPtok 42 "BodyLength" 8 8 41) None (Some (mkPtok 43 "`doc`" 9 0 42)) (mkPtok 40 "," 9 6 43))] (mkPtok 3 "}" 10 4 44)) (mkPtok 40 "," 11 0 46))); (mkFieldWithAttr (mkSpan (mkPtok 27 "int64" 11 2 47) (mkPtok 40 "," 11 16 49)) [] (MetaField (mkSpan (mkPtok 27 "int64" 11 2 47) (mkPtok 40 "," 11 16 49)) None (mkMetaDecl (mkSpan (mkPtok 27 "int64" 11 2 47) (mkPtok 40 "," 11 16 49)) (TyBasic (mkSpan (mkPtok 27 "int64" 11 2 47) (mkPtok 27 "int64" 11 2 47)) (mkBasicType (mkSpan (mkPtok 27 "int64" 11 2 47) (mkPtok 27 "int64" 11 2 47)) (mkPtok 27 "int64" 11 2 47))) (mkPtok 42 "lengthOf" 11 8 48) None (mkPtok 40 "," 11 16 49)))); (mkFieldWithAttr (mkSpan (mkPtok 7 "@lengthOf(" 12 0 51) (mkPtok 40 "," 14 18 63)) [(FALengthOf (mkSpan (mkPtok 7 "@lengthOf(" 12 0 51) (mkPtok 6 ")" 13 7 53)) (mkLengthOf (mkSpan (mkPtok 7 "@lengthOf(" 12 0 51) (mkPtok 6 ")" 13 7 53)) (mkPtok 7 "@lengthOf(" 12 0 51) (mkPtok 42 "leftPad" 13 0 52) (mkPtok 6 ")" 13 7 53))); (FACalculatedFrom (mkSpan (mkPtok 5 "@calculatedFrom(" 13 9 54) (mkPtok 6 ")" 13 32 56)) (mkCalculatedFrom (mkSpan (mkPtok 5 "@calculatedFrom(" 13 9 54) (mkPtok 6 ")" 13 32 56)) (mkPtok 5 "@calculatedFrom(" 13 9 54) (mkPtok 31 """x y""" 13 26 55) (mkPtok 6 ")" 13 32 56))); (FACalculatedFrom (mkSpan (mkPtok 5 "@calculatedFrom(" 13 34 57) (mkPtok 6 ")" 14 5 60)) (mkCalculatedFrom (mkSpan (mkPtok 5 "@calculatedFrom(" 13 34 57) (mkPtok 6 ")" 14 5 60)) (mkPtok 5 "@calculatedFrom(" 13 34 57) (mkPtok 31 (string_of_bytes [34; 92; 195; 169; 34]%N) 14 0 59) (mkPtok 6 ")" 14 5 60)))] (ObjectField (mkSpan (mkPtok 42 "falsey" 14 8 61) (mkPtok 40 "," 14 18 63)) None (mkPtok 42 "falsey" 14 8 61) (Some (mkPtok 42 "a1" 14 15 62)) None (mkPtok 40 "," 14 18 63)))] (mkPtok 3 "}" 14 20 64)))])).
Eval vm_compute in ("<<<M150>>>" ++ check (runes_of_ascii "MetaData Pad{	x_y_z
    // packet A { u8 x, }
    T ,
    }
")).
Eval vm_compute in ("<<<M182>>>" ++ check (runes_of_ascii "packet f32a
{
    repeat calculatedFrom u128//	t
,
    T @calculatedFrom( ""a\\"" ) `crlf
line` ,
string /// triple
charz, @leftPad (
    //x
    ) repeat
pack // a // b
T
    ,	}MetaData
charz { } packet	i8i8{A
x ,match A
as
leftPad { ""abc""	: msg_type , ""a	b""
    //	t
    :
    T }	,f64 i8i8
    ,
char charz`" ++ [233]%N ++ runes_of_ascii "`
    // `tick` ""quote"" 'q'
    ,} // " ++ [128512]%N ++ runes_of_ascii " emoji")).
Eval vm_compute in ("<<<M214>>>" ++ check (runes_of_ascii "options{ }root // a // b
packet
    uint8x {  @tag( 3 ) @lengthOf(  falsey ) lengthOf @calculatedFrom(
""`tick`"" ), A { i8 msg_type
`crlf
line` ,
Foo @lengthOf( u8x
) ,float ,
    //
    }
, string // a // b
lengthOf
@calculatedFrom(	""abc"" )
, @lengthOf(charz )
    repeat string_	{// " ++ [128512]%N ++ runes_of_ascii " emoji
zchar[
    0
    // a // b
    ] T @calculatedFrom( ""a\\"" ) //	t
, zchar[
    42 ] repeatCount @lengthOf(
Z9_ )`u8 x,`,}
,  zchar[1
    ]
crc @calculatedFrom( // " ++ [27880; 37322]%N ++ runes_of_ascii "
""// no comment"" )
    `it's`
    // `tick` ""quote"" 'q'
    , @calculatedFrom(""{,}"")
    tag
int//
, //x
}
MetaData f32a { // trailing space 
i64 int // c
,string int
    , // c
asx
    //x
    Pad
    //x
    `crlf
line` , string lengthOf,
    uint32
pack ,// " ++ [27880; 37322]%N ++ runes_of_ascii "
msg_type
    u `it's` ,
}")).
Eval vm_compute in ("<<<M246>>>" ++ check (runes_of_ascii "packet Foo //	t
{ match
    // a // b
    i64_ //x
as
x_y_z {65535:  BodyLength
,
[3, ""CRC32"" ]
:u
, 255:
T ,[ ""x y""]	:leftPad ,0123456789: As ,
    } ,
    zchar[	1
    ]int
, } packet
float
    { uint16
Packet	,}")).
Eval vm_compute in ("<<<M278>>>" ++ check (runes_of_ascii "packet asx { Logon{ body
@calculatedFrom( // trailing space 
""it's"" ) , // @lengthOf(
char[ 3] MetaDataX , string
    leftPad `crlf
line` , u128@calculatedFrom( ""packet""
    ),} , } //x
packet
x_y_z
    // packet A { u8 x, }
    { len {
    match leftPad// c
as
rootA {[007 // trailing space 
, ""a\\"" , 0123456789,
    ""\" ++ [233]%N ++ runes_of_ascii """ , ""`tick`"" , ""{,}""
    ] : falsey , 4294967296:	matchKey
, // packet A { u8 x, }
}
    , int32 //	t
Z9_ // " ++ [27880; 37322]%N ++ runes_of_ascii "
,a1
{
    x_y_z ,
    repeat	_x `doc` , char[]falsey
    @lengthOf(u128) `doc` ,
    }/// triple
,match Foo as
stringy {7 : asx // " ++ [128512]%N ++ runes_of_ascii " emoji
, ""x y""	:
    calculatedFrom
, }
    , }, @lengthOf(i64_ ) @rightPad ( /// triple
'\x00'// @lengthOf(
)@tag( 42 )  char[]
repeatCount ,
match	Z9_ //x
as  int {[//x
""a	b"" ,	""abc""
    , 255 , 7 // " ++ [128512]%N ++ runes_of_ascii " emoji
] :asx
""1"" : chars , [ ""a	b"", 00 ,4294967296 ] :
leftPad , [
65535
, //x
0 , //	t
""abc"" // a // b
, ""it's"", 007 ,
    ""x y"" ,
    255,3 ]  :
leftPad
    , [
    //x
    4294967296]: u
,
// " ++ [128512]%N ++ runes_of_ascii " emoji
// " ++ [128512]%N ++ runes_of_ascii " emoji
0123456789 :a1  } ,
x_y_z  u8x ,  asx{ repeat
Header float `crlf
line`
    , rootA
charz// " ++ [128512]%N ++ runes_of_ascii " emoji
`a\` , } , @calculatedFrom(""CRC32"" ) string string_
,  @tag(
65535 )  @rightPad ( '\x00' ) u8x	a1 `{ , }` , } options { // c
float = // " ++ [27880; 37322]%N ++ runes_of_ascii "
007 }
root // c
packet
metadata {
}
")).
Eval vm_compute in ("<<<M310>>>" ++ check (runes_of_ascii "packet f32a {  }")).
Eval vm_compute in ("<<<M342>>>" ++ check (runes_of_ascii "options {
_x = 0
; As = zchar[ 4294967296 ] ; } //x")).
Eval vm_compute in ("<<<T342>>>" ++ terms [mkTok 1 "options" 1 0 false; mkTok 2 "{" 1 8 false; mkTok 42 "_x" 2 0 false; mkTok 4 "=" 2 3 false; mkTok 30 "0" 2 5 false; mkTok 41 ";" 3 0 false; mkTok 42 "As" 3 2 false; mkTok 4 "=" 3 5 false; mkTok 14 "zchar[" 3 7 false; mkTok 30 "4294967296" 3 14 false; mkTok 13 "]" 3 25 false; mkTok 41 ";" 3 27 false; mkTok 3 "}" 3 29 false; mkTok 44 "//x" 3 31 true; mkTok 0 "<EOF>" 3 34 false] (mkPacket (mkPtok 1 "options" 1 0 0) (Some (mkPtok 3 "}" 3 29 12)) [(DOption (mkOptionDef (mkSpan (mkPtok 1 "options" 1 0 0) (mkPtok 3 "}" 3 29 12)) (mkPtok 1 "options" 1 0 0) (mkPtok 2 "{" 1 8 1) [(mkOptionDecl (mkSpan (mkPtok 42 "_x" 2 0 2) (mkPtok 41 ";" 3 0 5)) (mkPtok 42 "_x" 2 0 2) (mkPtok 4 "=" 2 3 3) (VDigits (mkSpan (mkPtok 30 "0" 2 5 4) (mkPtok 30 "0" 2 5 4)) (mkPtok 30 "0" 2 5 4)) (Some (mkPtok 41 ";" 3 0 5))); (mkOptionDecl (mkSpan (mkPtok 42 "As" 3 2 6) (mkPtok 41 ";" 3 27 11)) (mkPtok 42 "As" 3 2 6) (mkPtok 4 "=" 3 5 7) (VType (mkSpan (mkPtok 14 "zchar[" 3 7 8) (mkPtok 13 "]" 3 25 10)) (TyFixed (mkSpan (mkPtok 14 "zchar[" 3 7 8) (mkPtok 13 "]" 3 25 10)) (mkFixedString (mkSpan (mkPtok 14 "zchar[" 3 7 8) (mkPtok 13 "]" 3 25 10)) (mkPtok 14 "zchar[" 3 7 8) (mkPtok 30 "4294967296" 3 14 9) (mkPtok 13 "]" 3 25 10)))) (Some (mkPtok 41 ";" 3 27 11)))] (mkPtok 3 "}" 3 29 12)))])).
Eval vm_compute in ("<<<M374>>>" ++ check (runes_of_ascii "packet
Header { trueish @calculatedFrom(
""a	b"")
,
    Header@calculatedFrom(
    ""a\\"" //
)
,//	t
@calculatedFrom(  ""a\\"" )/// triple
i16	body
@lengthOf( f32a  ) , // packet A { u8 x, }
match // packet A { u8 x, }
stringy as _x{ ""`tick`""
// trailing space 
//
: string_ ,42:u8x , ""\n""
    :
    repeatCount, ""a\\"" : options1 ,	[ 4294967296 , ""{,}""
/// triple
//x
,
    4294967296 ,  """ ++ [28040; 24687]%N ++ runes_of_ascii """ , 3//	t
,
""abc"" ]
:
    //	t
    u8x , } , zchar[0123456789
    ] MetaDataX,@calculatedFrom(
    ""x y"" //	t
) @lengthOf( A )	zchar[ //x
00 ] a1 , match
// " ++ [128512]%N ++ runes_of_ascii " emoji
// `tick` ""quote"" 'q'
options1 as calculatedFrom // packet A { u8 x, }
{
    [ ""// no comment""
    // " ++ [27880; 37322]%N ++ runes_of_ascii "
    ,  ""abc"" , 65535,	""CRC32""
, 0
, ""CRC32"" ]
: uint8x
    , ""// no comment"" :
// " ++ [128512]%N ++ runes_of_ascii " emoji
// trailing space 
chars	,	[ """ ++ [233]%N ++ runes_of_ascii "t" ++ [233]%N ++ runes_of_ascii """ , ""a	b"" ]
    :
    pack , 10 :	tag ,}  , @tag( 42 )repeat
    // trailing space 
    len,
    @lengthOf( u )char[] f32a
, // packet A { u8 x, }
}
")).
Eval vm_compute in ("<<<M406>>>" ++ check (runes_of_ascii "
packet u {@calculatedFrom(""// no comment""  ) string
//	t
// a // b
string_
,@calculatedFrom( //	t
""\" ++ [233]%N ++ runes_of_ascii """ ) match string_ as
len  { """ ++ [233]%N ++ runes_of_ascii "t" ++ [233]%N ++ runes_of_ascii """ :
    roots ,	[""a\""b""
,
""x y"" , """", // `tick` ""quote"" 'q'
""" ++ [28040; 24687]%N ++ runes_of_ascii """ ,""packet"" , 7, 3  ]
    //x
    : /// triple
As, [ """ ++ [128512]%N ++ runes_of_ascii """ ,
    ""// no comment""	, 10 ,
    //
    10] : roots ,""" ++ [28040; 24687]%N ++ runes_of_ascii """ : packetx
    , //
[""1""] :	calculatedFrom ,[1
]
    :len , }, x_y_z
    @calculatedFrom( ""a\""b"") `say ""hi""` , As
    @lengthOf(
    roots
    ) ,
    // a // b
    @calculatedFrom( """ ++ [233]%N ++ runes_of_ascii "t" ++ [233]%N ++ runes_of_ascii """ ) char  i64_
@lengthOf(Header ) , //
u8 int
    @lengthOf(	i64_ )
    `crlf
line` ,// `tick` ""quote"" 'q'
@calculatedFrom( // " ++ [27880; 37322]%N ++ runes_of_ascii "
""1"" ) zchar[3 ] Packet
,
// `tick` ""quote"" 'q'
//x
uint8
    u128`line1
line2`
    ,
    }	options
    { Header = true
    ;  Packet
    // a // b
    =
    0123456789
    matchKey=
    /// triple
    zchar[ 4294967296] }
")).
Eval vm_compute in ("<<<M438>>>" ++ check (runes_of_ascii "options
    {
    Foo =  u16
;
    As
=
char lengthOf = 00 As =
false ;
    }
")).
Eval vm_compute in ("<<<M470>>>" ++ check (runes_of_ascii "
packet tag {
float32 repeatCount @calculatedFrom( ""// no comment"") ,}
    packet i64_{
char[00 ] calculatedFrom ,// " ++ [128512]%N ++ runes_of_ascii " emoji
@calculatedFrom( ""packet"" ) i16  Packet ,
    falsey
    { char[]
    // c
    calculatedFrom @lengthOf( stringy )
    // `tick` ""quote"" 'q'
    `` ,}//
, repeat i32 matchKey , repeat char[ 7
    ]/// triple
tag`// not a comment` ,leftPad
{// @lengthOf(
char[]
    i8i8 , }
,  @lengthOf(x_y_z) char[ 3 ] matchKey ``  ,float { char[] chars, repeat
    zchar[  1 ]x_y_z ,
} , i8 x_y_z
//	t
//
,
string asx //
,} root packet
int{  chars @lengthOf(
    Foo	)
`a\`,  repeat
    char[ 0123456789
]
    BodyLength , i8 T
    , @rightPad
(
    ) u64 lengthOf	, }
")).
Eval vm_compute in ("<<<M502>>>" ++ check (runes_of_ascii "MetaData a1{ f64
    int
    , i32
o	`two words` ,
char[3	] lengthOf
    , zchar[ 7
] Header , u32 x_y_z , char[3 ] matchKey
    ,
    }packet falsey{@lengthOf(
    i8i8 ) match MetaDataX	as calculatedFrom  { 00
:
float  , // " ++ [27880; 37322]%N ++ runes_of_ascii "
7 // " ++ [128512]%N ++ runes_of_ascii " emoji
: MetaDataX
,""" ++ [28040; 24687]%N ++ runes_of_ascii """ :
    options1 , [ ""a\\"" // packet A { u8 x, }
]: charz	,
},match T
    // trailing space 
    as Z9_ { [
    ""it's"" ] : falsey //
,
255	:Foo , ""a\\""
    : Header , }, }
    MetaData
    lengthOf { As rootA `doc` , }
")).
Eval vm_compute in ("<<<M534>>>" ++ check (runes_of_ascii "packet Foo{
    char[ 10
]f32a
@lengthOf(
calculatedFrom )
    `crlf
line`
    , match pack as A// `tick` ""quote"" 'q'
{ """ ++ [233]%N ++ runes_of_ascii "t" ++ [233]%N ++ runes_of_ascii """ :	f32a /// triple
,[ ""x y"" , ""`tick`"" ] : falsey , ""x y""
    //x
    : Foo ,
    7 : chars// c
,""{,}""  :u128 , 255:
A , } ,string
//x
// trailing space 
T `
` ,} /// triple")).
Eval vm_compute in ("<<<M566>>>" ++ check (runes_of_ascii "options
    { // " ++ [27880; 37322]%N ++ runes_of_ascii "
i64_//x
= ""1""
} options {matchKey =
65535 Header = ""x y"" stringy
=
//	t
// a // b
true;  } MetaData int {	i8i8
charz `u8 x,` ,
    } 	 ")).
Eval vm_compute in ("<<<T566>>>" ++ terms [mkTok 1 "options" 1 0 false; mkTok 2 "{" 2 4 false; mkTok 44 (string_of_bytes [47; 47; 32; 230; 179; 168; 233; 135; 138]%N) 2 6 true; mkTok 42 "i64_" 3 0 false; mkTok 44 "//x" 3 4 true; mkTok 4 "=" 4 0 false; mkTok 31 """1""" 4 2 false; mkTok 3 "}" 5 0 false; mkTok 1 "options" 5 2 false; mkTok 2 "{" 5 10 false; mkTok 42 "matchKey" 5 11 false; mkTok 4 "=" 5 20 false; mkTok 30 "65535" 6 0 false; mkTok 42 "Header" 6 6 false; mkTok 4 "=" 6 13 false; mkTok 31 """x y""" 6 15 false; mkTok 42 "stringy" 6 21 false; mkTok 4 "=" 7 0 false; mkTok 44 (string_of_bytes [47; 47; 9; 116]%N) 8 0 true; mkTok 44 "// a // b" 9 0 true; mkTok 10 "true" 10 0 false; mkTok 41 ";" 10 4 false; mkTok 3 "}" 10 7 false; mkTok 37 "MetaData" 10 9 false; mkTok 42 "int" 10 18 false; mkTok 2 "{" 10 22 false; mkTok 42 "i8i8" 10 24 false; mkTok 42 "charz" 11 0 false; mkTok 43 "`u8 x,`" 11 6 false; mkTok 40 "," 11 14 false; mkTok 3 "}" 12 4 false; mkTok 0 "<EOF>" 12 8 false] (mkPacket (mkPtok 1 "options" 1 0 0) (Some (mkPtok 3 "}" 12 4 30)) [(DOption (mkOptionDef (mkSpan (mkPtok 1 "options" 1 0 0) (mkPtok 3 "}" 5 0 7)) (mkPtok 1 "options" 1 0 0) (mkPtok 2 "{" 2 4 1) [(mkOptionDecl (mkSpan (mkPtok 42 "i64_" 3 0 3) (mkPtok 31 """1""" 4 2 6)) (mkPtok 42 "i64_" 3 0 3) (mkPtok 4 "=" 4 0 5) (VString (mkSpan (mkPtok 31 """1""" 4 2 6) (mkPtok 31 """1""" 4 2 6)) (mkPtok 31 """1""" 4 2 6)) None)] (mkPtok 3 "}" 5 0 7))); (DOption (mkOptionDef (mkSpan (mkPtok 1 "options" 5 2 8) (mkPtok 3 "}" 10 7 22)) (mkPtok 1 "options" 5 2 8) (mkPtok 2 "{" 5 10 9) [(mkOptionDecl (mkSpan (mkPtok 42 "matchKey" 5 11 10) (mkPtok 30 "65535" 6 0 12)) (mkPtok 42 "matchKey" 5 11 10) (mkPtok 4 "=" 5 20 11) (VDigits (mkSpan (mkPtok 30 "65535" 6 0 12) (mkPtok 30 "65535" 6 0 12)) (mkPtok 30 "65535" 6 0 12)) None); (mkOptionDecl (mkSpan (mkPtok 42 "Header" 6 6 13) (mkPtok 31 """x y""" 6 15 15)) (mkPtok 42 "Header" 6 6 13) (mkPtok 4 "=" 6 13 14) (VString (mkSpan (mkPtok 31 """x y""" 6 15 15) (mkPtok 31 """x y""" 6 15 15)) (mkPtok 31 """x y""" 6 15 15)) None); (mkOptionDecl (mkSpan (mkPtok 42 "stringy" 6 21 16) (mkPtok 41 ";" 10 4 21)) (mkPtok 42 "stringy" 6 21 16) (mkPtok 4 "=" 7 0 17) (VTrue (mkSpan (mkPtok 10 "true" 10 0 20) (mkPtok 10 "true" 10 0 20)) (mkPtok 10 "true" 10 0 20)) (Some (mkPtok 41 ";" 10 4 21)))] (mkPtok 3 "}" 10 7 22))); (DMeta (mkMetaDef (mkSpan (mkPtok 37 "MetaData" 10 9 23) (mkPtok 3 "}" 12 4 30)) (mkPtok 37 "MetaData" 10 9 23) (mkPtok 42 "int" 10 18 24) (mkPtok 2 "{" 10 22 25) [(MIRef (mkRefMetaDecl (mkSpan (mkPtok 42 "i8i8" 10 24 26) (mkPtok 40 "," 11 14 29)) (mkPtok 42 "i8i8" 10 24 26) (mkPtok 42 "charz" 11 0 27) (Some (mkPtok 43 "`u8 x,`" 11 6 28)) (mkPtok 40 "," 11 14 29)))] (mkPtok 3 "}" 12 4 30)))])).
Eval vm_compute in ("<<<M598>>>" ++ check (runes_of_ascii "
packet
    a1 /// triple
{ @lengthOf(
    As
)uint16 // " ++ [128512]%N ++ runes_of_ascii " emoji
matchKey
`line1
line2` , }
options { pack = 7 } packet
    // " ++ [128512]%N ++ runes_of_ascii " emoji
    packetx {@calculatedFrom(  ""packet"" ) int8 metadata
@lengthOf(
metadata
    ) , @tag(	7 )
    lengthOf @lengthOf( u128) // " ++ [128512]%N ++ runes_of_ascii " emoji
, @rightPad (
    )Header
@lengthOf( msg_type
)  ``,
leftPad ,
}
packet
    // packet A { u8 x, }
    string_{ }  packet f32a { @leftPad ( '0'
) @leftPad ( ' '
    /// triple
    )
@leftPad (' '
) x_y_z { char charz @calculatedFrom(
""""  )
//	t
// trailing space 
,
repeat rootA
repeatCount ,
    // packet A { u8 x, }
    repeat u128 f32a `// not a comment` ,},
// " ++ [27880; 37322]%N ++ runes_of_ascii "
// trailing space 
} // packet A { u8 x, }")).
Eval vm_compute in ("<<<M630>>>" ++ check (runes_of_ascii "MetaData
packetx  { string
//	t
//
matchKey, /// triple
u8
    trueish
    ,
// packet A { u8 x, }
// `tick` ""quote"" 'q'
} // a // b")).
Eval vm_compute in ("<<<M662>>>" ++ check (runes_of_ascii "
options { i64_ = int16; } packet
    // @lengthOf(
    crc
{ @tag(
0123456789)
    // a // b
    repeat
crc
{ char[ 1]	As @lengthOf(//
repeatCount) ,}, } root packet
falsey
{ repeat
repeatCount	{repeat Header {
calculatedFrom float `u8 x,` , } //
,
string u8x @lengthOf( zchar)
,	char[ 255]
    Foo , // " ++ [27880; 37322]%N ++ runes_of_ascii "
} // `tick` ""quote"" 'q'
,	@lengthOf( Z9_ ) packetx , /// triple
repeat
    // " ++ [128512]%N ++ runes_of_ascii " emoji
    string
BodyLength
    , @rightPad ( ' '
)
crc @calculatedFrom( // c
""\n"") , repeat options1
{ match Z9_
as A { 0 :
    matchKey ,	[ 00,
    10 ,
    0,
    """ ++ [233]%N ++ runes_of_ascii "t" ++ [233]%N ++ runes_of_ascii """ ]
    : zchar ,	""1"" : trueish ,""abc"" :
metadata ,
    255
    : matchKey
    ,
    },packetx @calculatedFrom( ""a\""b"" ) `
` , // packet A { u8 x, }
} , @tag(
    0
    )i32 A	, @calculatedFrom(  ""{,}"" ) @tag(
    3
    )
    As ,
    repeat f64 zchar`// not a comment`// a // b
,
}  packet rootA  {  @leftPad
(	'0')
trueish stringy`{ , }` , @calculatedFrom( ""{,}"" ) @tag( 3 )  u64	Pad@calculatedFrom( ""a	b"" ),uint16 _x @lengthOf(int) ``
,
    }MetaData
    int{ }
")).
Eval vm_compute in ("<<<M694>>>" ++ check (runes_of_ascii "root packet
string_{
@calculatedFrom( ""`tick`"" )
    uint8 stringy `a\` //
, int16 Packet @calculatedFrom( ""it's"" ), }")).
Eval vm_compute in ("<<<M726>>>" ++ check (runes_of_ascii "packet len { @tag( 4294967296 ) repeat f32 a1 `" ++ [28040; 24687; 31867; 22411]%N ++ runes_of_ascii "`
    ,
uint8x
`
`
//
//	t
,} root packet rootA
    { match crc
    as // packet A { u8 x, }
i8i8 // c
{ ""a\""b"" : _x
00 :
Packet , ""// no comment"" : MetaDataX , // c
[  """ ++ [28040; 24687]%N ++ runes_of_ascii """//x
, 007 ] : MetaDataX 42:  charz , [ """ ++ [233]%N ++ runes_of_ascii "t" ++ [233]%N ++ runes_of_ascii """	, // a // b
""abc"" ]: _x, } , uint16 Logon, @leftPad
    (
' ' ) // packet A { u8 x, }
@leftPad
( // " ++ [27880; 37322]%N ++ runes_of_ascii "
' ' ) uint8  stringy @lengthOf(
    msg_type ) `
`
    , }")).
Eval vm_compute in ("<<<M758>>>" ++ check (runes_of_ascii "options
{ }  root packet a1 { @tag( 00
)Logon , @calculatedFrom( ""{,}""
)repeatCount
// a // b
// packet A { u8 x, }
{ repeat float i64_ ,
    match u8x // trailing space 
as
leftPad
    // `tick` ""quote"" 'q'
    {3 :u128 ,1	: i8i8
//	t
// " ++ [128512]%N ++ runes_of_ascii " emoji
, 42 :
    u128
, """ ++ [233]%N ++ runes_of_ascii "t" ++ [233]%N ++ runes_of_ascii """
: msg_type , [ 1,
42 ] : A , } ,
    repeat
    i64 metadata ,
} ,
    match	len
as	Z9_ { 255 :o,
    0123456789 :Pad ,//
[ 7
, ""{,}""
    , // trailing space 
""abc"" , 007 ] :chars
, 3
: // packet A { u8 x, }
packetx 00 ://
o, /// triple
} ,  zchar[ 0123456789
    ]
i64_
@lengthOf(	chars ) , float32 trueish `" ++ [28040; 24687; 31867; 22411]%N ++ runes_of_ascii "` ,}
")).
Eval vm_compute in ("<<<M790>>>" ++ check (runes_of_ascii "
packet msg_type{ repeat
i64 MetaDataX
`line1
line2` // trailing space 
,  repeat char[] //
u128 ,
@tag(
42
    ) // @lengthOf(
@lengthOf( u )
@lengthOf( body )repeat
zchar[ 255
    //
    ]
// `tick` ""quote"" 'q'
// trailing space 
As	,calculatedFrom
    //x
    f32a
    // trailing space 
    ,}
options
{// @lengthOf(
x
    =  3 msg_type = ""`tick`"" falsey= ""CRC32""
    ;
    // trailing space 
    body=
    char[ 00] ; uint8x  = ""x y"" } options// @lengthOf(
{//
A
    =
    uint16
}root packet BodyLength { @lengthOf( pack )
    repeat
    metadata T
`{ , }`
// packet A { u8 x, }
//	t
,}packet chars{ }
// packet A { u8 x, }
")).
Eval vm_compute in ("<<<T790>>>" ++ terms [mkTok 35 "packet" 2 0 false; mkTok 42 "msg_type" 2 7 false; mkTok 2 "{" 2 15 false; mkTok 36 "repeat" 2 17 false; mkTok 27 "i64" 3 0 false; mkTok 42 "MetaDataX" 3 4 false; mkTok 43 (string_of_bytes [96; 108; 105; 110; 101; 49; 10; 108; 105; 110; 101; 50; 96]%N) 4 0 false; mkTok 44 "// trailing space " 5 7 true; mkTok 40 "," 6 0 false; mkTok 36 "repeat" 6 3 false; mkTok 16 "char[]" 6 10 false; mkTok 44 "//" 6 17 true; mkTok 42 "u128" 7 0 false; mkTok 40 "," 7 5 false; mkTok 9 "@tag(" 8 0 false; mkTok 30 "42" 9 0 false; mkTok 6 ")" 10 4 false; mkTok 44 "// @lengthOf(" 10 6 true; mkTok 7 "@lengthOf(" 11 0 false; mkTok 42 "u" 11 11 false; mkTok 6 ")" 11 13 false; mkTok 7 "@lengthOf(" 12 0 false; mkTok 42 "body" 12 11 false; mkTok 6 ")" 12 16 false; mkTok 36 "repeat" 12 17 false; mkTok 14 "zchar[" 13 0 false; mkTok 30 "255" 13 7 false; mkTok 44 "//" 14 4 true; mkTok 13 "]" 15 4 false; mkTok 44 "// `tick` ""quote"" 'q'" 16 0 true; mkTok 44 "// trailing space " 17 0 true; mkTok 42 "As" 18 0 false; mkTok 40 "," 18 3 false; mkTok 42 "calculatedFrom" 18 4 false; mkTok 44 "//x" 19 4 true; mkTok 42 "f32a" 20 4 false; mkTok 44 "// trailing space " 21 4 true; mkTok 40 "," 22 4 false; mkTok 3 "}" 22 5 false; mkTok 1 "options" 23 0 false; mkTok 2 "{" 24 0 false; mkTok 44 "// @lengthOf(" 24 1 true; mkTok 42 "x" 25 0 false; mkTok 4 "=" 26 4 false; mkTok 30 "3" 26 7 false; mkTok 42 "msg_type" 26 9 false; mkTok 4 "=" 26 18 false; mkTok 31 """`tick`""" 26 20 false; mkTok 42 "falsey" 26 29 false; mkTok 4 "=" 26 35 false; mkTok 31 """CRC32""" 26 37 false; mkTok 41 ";" 27 4 false; mkTok 44 "// trailing space " 28 4 true; mkTok 42 "body" 29 4 false; mkTok 4 "=" 29 8 false; mkTok 12 "char[" 30 4 false; mkTok 30 "00" 30 10 false; mkTok 13 "]" 30 12 false; mkTok 41 ";" 30 14 false; mkTok 42 "uint8x" 30 16 false; mkTok 4 "=" 30 24 false; mkTok 31 """x y""" 30 26 false; mkTok 3 "}" 30 32 false; mkTok 1 "options" 30 34 false; mkTok 44 "// @lengthOf(" 30 41 true; mkTok 2 "{" 31 0 false; mkTok 44 "//" 31 1 true; mkTok 42 "A" 32 0 false; mkTok 4 "=" 33 4 false; mkTok 21 "uint16" 34 4 false; mkTok 3 "}" 35 0 false; mkTok 34 "root" 35 1 false; mkTok 35 "packet" 35 6 false; mkTok 42 "BodyLength" 35 13 false; mkTok 2 "{" 35 24 false; mkTok 7 "@lengthOf(" 35 26 false; mkTok 42 "pack" 35 37 false; mkTok 6 ")" 35 42 false; mkTok 36 "repeat" 36 4 false; mkTok 42 "metadata" 37 4 false; mkTok 42 "T" 37 13 false; mkTok 43 "`{ , }`" 38 0 false; mkTok 44 "// packet A { u8 x, }" 39 0 true; mkTok 44 (string_of_bytes [47; 47; 9; 116]%N) 40 0 true; mkTok 40 "," 41 0 false; mkTok 3 "}" 41 1 false; mkTok 35 "packet" 41 2 false; mkTok 42 "chars" 41 9 false; mkTok 2 "{" 41 14 false; mkTok 3 "}" 41 16 false; mkTok 44 "// packet A { u8 x, }" 42 0 true; mkTok 0 "<EOF>" 43 0 false] (mkPacket (mkPtok 35 "packet" 2 0 0) (Some (mkPtok 3 "}" 41 16 89)) [(DPacket (mkPacketDef (mkSpan (mkPtok 35 "packet" 2 0 0) (mkPtok 3 "}" 22 5 38)) None (mkPtok 35 "packet" 2 0 0) (mkPtok 42 "msg_type" 2 7 1) (mkPtok 2 "{" 2 15 2) [(mkFieldWithAttr (mkSpan (mkPtok 36 "repeat" 2 17 3) (mkPtok 40 "," 6 0 8)) [] (MetaField (mkSpan (mkPtok 36 "repeat" 2 17 3) (mkPtok 40 "," 6 0 8)) (Some (mkPtok 36 "repeat" 2 17 3)) (mkMetaDecl (mkSpan (mkPtok 27 "i64" 3 0 4) (mkPtok 40 "," 6 0 8)) (TyBasic (mkSpan (mkPtok 27 "i64" 3 0 4) (mkPtok 27 "i64" 3 0 4)) (mkBasicType (mkSpan (mkPtok 27 "i64" 3 0 4) (mkPtok 27 "i64" 3 0 4)) (mkPtok 27 "i64" 3 0 4))) (mkPtok 42 "MetaDataX" 3 4 5) (Some (mkPtok 43 (string_of_bytes [96; 108; 105; 110; 101; 49; 10; 108; 105; 110; 101; 50; 96]%N) 4 0 6)) (mkPtok 40 "," 6 0 8)))); (mkFieldWithAttr (mkSpan (mkPtok 36 "repeat" 6 3 9) (mkPtok 40 "," 7 5 13)) [] (MetaField (mkSpan (mkPtok 36 "repeat" 6 3 9) (mkPtok 40 "," 7 5 13)) (Some (mkPtok 36 "repeat" 6 3 9)) (mkMetaDecl (mkSpan (mkPtok 16 "char[]" 6 10 10) (mkPtok 40 "," 7 5 13)) (TyDynamic (mkSpan (mkPtok 16 "char[]" 6 10 10) (mkPtok 16 "char[]" 6 10 10)) (mkDynamicString (mkSpan (mkPtok 16 "char[]" 6 10 10) (mkPtok 16 "char[]" 6 10 10)) (mkPtok 16 "char[]" 6 10 10))) (mkPtok 42 "u128" 7 0 12) None (mkPtok 40 "," 7 5 13)))); (mkFieldWithAttr (mkSpan (mkPtok 9 "@tag(" 8 0 14) (mkPtok 40 "," 18 3 32)) [(FATag (mkSpan (mkPtok 9 "@tag(" 8 0 14) (mkPtok 6 ")" 10 4 16)) (mkTagAttr (mkSpan (mkPtok 9 "@tag(" 8 0 14) (mkPtok 6 ")" 10 4 16)) (mkPtok 9 "@tag(" 8 0 14) (mkPtok 30 "42" 9 0 15) (mkPtok 6 ")" 10 4 16))); (FALengthOf (mkSpan (mkPtok 7 "@lengthOf(" 11 0 18) (mkPtok 6 ")" 11 13 20)) (mkLengthOf (mkSpan (mkPtok 7 "@lengthOf(" 11 0 18) (mkPtok 6 ")" 11 13 20)) (mkPtok 7 "@lengthOf(" 11 0 18) (mkPtok 42 "u" 11 11 19) (mkPtok 6 ")" 11 13 20))); (FALengthOf (mkSpan (mkPtok 7 "@lengthOf(" 12 0 21) (mkPtok 6 ")" 12 16 23)) (mkLengthOf (mkSpan (mkPtok 7 "@lengthOf(" 12 0 21) (mkPtok 6 ")" 12 16 23)) (mkPtok 7 "@lengthOf(" 12 0 21) (mkPtok 42 "body" 12 11 22) (mkPtok 6 ")" 12 16 23)))] (MetaField (mkSpan (mkPtok 36 "repeat" 12 17 24) (mkPtok 40 "," 18 3 32)) (Some (mkPtok 36 "repeat" 12 17 24)) (mkMetaDecl (mkSpan (mkPtok 14 "zchar[" 13 0 25) (mkPtok 40 "," 18 3 32)) (TyFixed (mkSpan (mkPtok 14 "zchar[" 13 0 25) (mkPtok 13 "]" 15 4 28)) (mkFixedString (mkSpan (mkPtok 14 "zchar[" 13 0 25) (mkPtok 13 "]" 15 4 28)) (mkPtok 14 "zchar[" 13 0 25) (mkPtok 30 "255" 13 7 26) (mkPtok 13 "]" 15 4 28))) (mkPtok 42 "As" 18 0 31) None (mkPtok 40 "," 18 3 32)))); (mkFieldWithAttr (mkSpan (mkPtok 42 "calculatedFrom" 18 4 33) (mkPtok 40 "," 22 4 37)) [] (ObjectField (mkSpan (mkPtok 42 "calculatedFrom" 18 4 33) (mkPtok 40 "," 22 4 37)) None (mkPtok 42 "calculatedFrom" 18 4 33) (Some (mkPtok 42 "f32a" 20 4 35)) None (mkPtok 40 "," 22 4 37)))] (mkPtok 3 "}" 22 5 38))); (DOption (mkOptionDef (mkSpan (mkPtok 1 "options" 23 0 39) (mkPtok 3 "}" 30 32 62)) (mkPtok 1 "options" 23 0 39) (mkPtok 2 "{" 24 0 40) [(mkOptionDecl (mkSpan (mkPtok 42 "x" 25 0 42) (mkPtok 30 "3" 26 7 44)) (mkPtok 42 "x" 25 0 42) (mkPtok 4 "=" 26 4 43) (VDigits (mkSpan (mkPtok 30 "3" 26 7 44) (mkPtok 30 "3" 26 7 44)) (mkPtok 30 "3" 26 7 44)) None); (mkOptionDecl (mkSpan (mkPtok 42 "msg_type" 26 9 45) (mkPtok 31 """`tick`""" 26 20 47)) (mkPtok 42 "msg_type" 26 9 45) (mkPtok 4 "=" 26 18 46) (VString (mkSpan (mkPtok 31 """`tick`""" 26 20 47) (mkPtok 31 """`tick`""" 26 20 47)) (mkPtok 31 """`tick`""" 26 20 47)) None); (mkOptionDecl (mkSpan (mkPtok 42 "falsey" 26 29 48) (mkPtok 41 ";" 27 4 51)) (mkPtok 42 "falsey" 26 29 48) (mkPtok 4 "=" 26 35 49) (VString (mkSpan (mkPtok 31 """CRC32""" 26 37 50) (mkPtok 31 """CRC32""" 26 37 50)) (mkPtok 31 """CRC32""" 26 37 50)) (Some (mkPtok 41 ";" 27 4 51))); (mkOptionDecl (mkSpan (mkPtok 42 "body" 29 4 53) (mkPtok 41 ";" 30 14 58)) (mkPtok 42 "body" 29 4 53) (mkPtok 4 "=" 29 8 54) (VType (mkSpan (mkPtok 12 "char[" 30 4 55) (mkPtok 13 "]" 30 12 57)) (TyFixed (mkSpan (mkPtok 12 "char[" 30 4 55) (mkPtok 13 "]" 30 12 57)) (mkFixedString (mkSpan (mkPtok 12 "char[" 30 4 55) (mkPtok 13 "]" 30 12 57)) (mkPtok 12 "char[" 30 4 55) (mkPtok 30 "00" 30 10 56) (mkPtok 13 "]" 30 12 57)))) (Some (mkPtok 41 ";" 30 14 58))); (mkOptionDecl (mkSpan (mkPtok 42 "uint8x" 30 16 59) (mkPtok 31 """x y""" 30 26 61)) (mkPtok 42 "uint8x" 30 16 59) (mkPtok 4 "=" 30 24 60) (VString (mkSpan (mkPtok 31 """x y""" 30 26 61) (mkPtok 31 """x y""" 30 26 61)) (mkPtok 31 """x y""" 30 26 61)) None)] (mkPtok 3 "}" 30 32 62))); (DOption (mkOptionDef (mkSpan (mkPtok 1 "options" 30 34 63) (mkPtok 3 "}" 35 0 70)) (mkPtok 1 "options" 30 34 63) (mkPtok 2 "{" 31 0 65) [(mkOptionDecl (mkSpan (mkPtok 42 "A" 32 0 67) (mkPtok 21 "uint16" 34 4 69)) (mkPtok 42 "A" 32 0 67) (mkPtok 4 "=" 33 4 68) (VType (mkSpan (mkPtok 21 "uint16" 34 4 69) (mkPtok 21 "uint16" 34 4 69)) (TyBasic (mkSpan (mkPtok 21 "uint16" 34 4 69) (mkPtok 21 "uint16" 34 4 69)) (mkBasicType (mkSpan (mkPtok 21 "uint16" 34 4 69) (mkPtok 21 "uint16" 34 4 69)) (mkPtok 21 "uint16" 34 4 69)))) None)] (mkPtok 3 "}" 35 0 70))); (DPacket (mkPacketDef (mkSpan (mkPtok 34 "root" 35 1 71) (mkPtok 3 "}" 41 1 85)) (Some (mkPtok 34 "root" 35 1 71)) (mkPtok 35 "packet" 35 6 72) (mkPtok 42 "BodyLength" 35 13 73) (mkPtok 2 "{" 35 24 74) [(mkFieldWithAttr (mkSpan (mkPtok 7 "@lengthOf(" 35 26 75) (mkPtok 40 "," 41 0 84)) [(FALengthOf (mkSpan (mkPtok 7 "@lengthOf(" 35 26 75) (mkPtok 6 ")" 35 42 77)) (mkLengthOf (mkSpan (mkPtok 7 "@lengthOf(" 35 26 75) (mkPtok 6 ")" 35 42 77)) (mkPtok 7 "@lengthOf(" 35 26 75) (mkPtok 42 "pack" 35 37 76) (mkPtok 6 ")" 35 42 77)))] (ObjectField (mkSpan (mkPtok 36 "repeat" 36 4 78) (mkPtok 40 "," 41 0 84)) (Some (mkPtok 36 "repeat" 36 4 78)) (mkPtok 42 "metadata" 37 4 79) (Some (mkPtok 42 "T" 37 13 80)) (Some (mkPtok 43 "`{ , }`" 38 0 81)) (mkPtok 40 "," 41 0 84)))] (mkPtok 3 "}" 41 1 85))); (DPacket (mkPacketDef (mkSpan (mkPtok 35 "packet" 41 2 86) (mkPtok 3 "}" 41 16 89)) None (mkPtok 35 "packet" 41 2 86) (mkPtok 42 "chars" 41 9 87) (mkPtok 2 "{" 41 14 88) [] (mkPtok 3 "}" 41 16 89)))])).
Eval vm_compute in ("<<<M822>>>" ++ check (runes_of_ascii "MetaData
chars{ zchar[// " ++ [27880; 37322]%N ++ runes_of_ascii "
3] As `say ""hi""` , }root packet lengthOf
{
//
/// triple
@rightPad( ' '
// " ++ [27880; 37322]%N ++ runes_of_ascii "
// @lengthOf(
) f32 MetaDataX  @calculatedFrom( """"
    )`{ , }` , match string_
as // trailing space 
x_y_z { 42
: lengthOf,00  :chars ""// no comment"" : BodyLength , ""// no comment"":	tag ,255 : a1 ,
""""	:
stringy
,
    },
    }
")).
Eval vm_compute in ("<<<M854>>>" ++ check (runes_of_ascii "MetaData charz {
//
//	t
f32a stringy
    ,	}
")).
Eval vm_compute in ("<<<M886>>>" ++ check (runes_of_ascii "
")).
Eval vm_compute in ("<<<M918>>>" ++ check (runes_of_ascii "packet  MetaDataX
{
char
    falsey,
    zchar[ 1
]a1 @calculatedFrom( ""a\\""
), }packet
calculatedFrom{ zchar[42 ]
_x `tab	here` , string roots@lengthOf( chars) , }")).
Eval vm_compute in ("<<<M950>>>" ++ check (runes_of_ascii "  
// @lengthOf(
")).
Eval vm_compute in ("<<<M982>>>" ++ check (runes_of_ascii "root packet lengthOf { int32 body@lengthOf( Z9_
)
    `// not a comment` ,}
options { charz /// triple
=
    true }
    packet
asx { @tag(
// `tick` ""quote"" 'q'
// trailing space 
255 ) msg_type
// trailing space 
// `tick` ""quote"" 'q'
{ repeat
crc	charz
    //
    ,} , }")).
Eval vm_compute in ("<<<M1014>>>" ++ check (runes_of_ascii "
options { msg_type
=
    42;
    metadata  =
""""
;matchKey
=
// packet A { u8 x, }
// `tick` ""quote"" 'q'
u8 }
")).
Eval vm_compute in ("<<<T1014>>>" ++ terms [mkTok 1 "options" 2 0 false; mkTok 2 "{" 2 8 false; mkTok 42 "msg_type" 2 10 false; mkTok 4 "=" 3 0 false; mkTok 30 "42" 4 4 false; mkTok 41 ";" 4 6 false; mkTok 42 "metadata" 5 4 false; mkTok 4 "=" 5 14 false; mkTok 31 """""" 6 0 false; mkTok 41 ";" 7 0 false; mkTok 42 "matchKey" 7 1 false; mkTok 4 "=" 8 0 false; mkTok 44 "// packet A { u8 x, }" 9 0 true; mkTok 44 "// `tick` ""quote"" 'q'" 10 0 true; mkTok 20 "u8" 11 0 false; mkTok 3 "}" 11 3 false; mkTok 0 "<EOF>" 12 0 false] (mkPacket (mkPtok 1 "options" 2 0 0) (Some (mkPtok 3 "}" 11 3 15)) [(DOption (mkOptionDef (mkSpan (mkPtok 1 "options" 2 0 0) (mkPtok 3 "}" 11 3 15)) (mkPtok 1 "options" 2 0 0) (mkPtok 2 "{" 2 8 1) [(mkOptionDecl (mkSpan (mkPtok 42 "msg_type" 2 10 2) (mkPtok 41 ";" 4 6 5)) (mkPtok 42 "msg_type" 2 10 2) (mkPtok 4 "=" 3 0 3) (VDigits (mkSpan (mkPtok 30 "42" 4 4 4) (mkPtok 30 "42" 4 4 4)) (mkPtok 30 "42" 4 4 4)) (Some (mkPtok 41 ";" 4 6 5))); (mkOptionDecl (mkSpan (mkPtok 42 "metadata" 5 4 6) (mkPtok 41 ";" 7 0 9)) (mkPtok 42 "metadata" 5 4 6) (mkPtok 4 "=" 5 14 7) (VString (mkSpan (mkPtok 31 """""" 6 0 8) (mkPtok 31 """""" 6 0 8)) (mkPtok 31 """""" 6 0 8)) (Some (mkPtok 41 ";" 7 0 9))); (mkOptionDecl (mkSpan (mkPtok 42 "matchKey" 7 1 10) (mkPtok 20 "u8" 11 0 14)) (mkPtok 42 "matchKey" 7 1 10) (mkPtok 4 "=" 8 0 11) (VType (mkSpan (mkPtok 20 "u8" 11 0 14) (mkPtok 20 "u8" 11 0 14)) (TyBasic (mkSpan (mkPtok 20 "u8" 11 0 14) (mkPtok 20 "u8" 11 0 14)) (mkBasicType (mkSpan (mkPtok 20 "u8" 11 0 14) (mkPtok 20 "u8" 11 0 14)) (mkPtok 20 "u8" 11 0 14)))) None)] (mkPtok 3 "}" 11 3 15)))])).
Eval vm_compute in ("<<<M1046>>>" ++ check (runes_of_ascii "packet u/// triple
{
@calculatedFrom( ""1"" ) match o as float{
""x y""	:
    u
    , }
    ,match packetx as
    f32a {
// a // b
// c
[ 4294967296 ,3] :
x , 10
: i8i8, """ ++ [233]%N ++ runes_of_ascii "t" ++ [233]%N ++ runes_of_ascii """ : _x [
    // `tick` ""quote"" 'q'
    ""a	b""
, """ ++ [28040; 24687]%N ++ runes_of_ascii """
    //	t
    ,
    ""1"",""a\\"" ,42 , 4294967296
    , ""a	b""] :
    Header ,//
65535 : i8i8 , 0123456789 :repeatCount ,
    }
    ,
repeat
stringy { //	t
char[	0
]
Logon	`{ , }`, Pad `a\`
, asx
    BodyLength`line1
line2` ,
    repeat string
    Z9_, } ,
    f32a metadata `" ++ [28040; 24687; 31867; 22411]%N ++ runes_of_ascii "`
, @calculatedFrom(
""a\""b"" )
    metadata { Z9_ @calculatedFrom( """ ++ [233]%N ++ runes_of_ascii "t" ++ [233]%N ++ runes_of_ascii """ ) ,  repeat zchar[  1 ] //
options1 `say ""hi""` , i8 options1,
    roots
{string packetx ,
repeat char[//x
65535 ] x // trailing space 
,
    // c
    }
, } , int8 matchKey
    ,
metadata @lengthOf( roots )
// packet A { u8 x, }
//	t
,  string u// " ++ [27880; 37322]%N ++ runes_of_ascii "
@lengthOf(
    As
)
    , } packet //x
x_y_z {
    // " ++ [128512]%N ++ runes_of_ascii " emoji
    len o, match
string_ as
Foo {
[
    255
    ,
""" ++ [233]%N ++ runes_of_ascii "t" ++ [233]%N ++ runes_of_ascii """
    //
    , 255 , 007 , ""a\""b""
    // " ++ [27880; 37322]%N ++ runes_of_ascii "
    , ""abc""  ]
: a1
    // @lengthOf(
    ,""CRC32""
:matchKey } ,@lengthOf(
int )	@calculatedFrom(//	t
""1""// " ++ [27880; 37322]%N ++ runes_of_ascii "
)
@calculatedFrom(//
""it's"") char[ 0 ]
matchKey @calculatedFrom(
""`tick`"" )
    , match a1
as Z9_
{ [ ""CRC32"" , 65535 ] :
    x [ 0123456789 ,  """ ++ [233]%N ++ runes_of_ascii "t" ++ [233]%N ++ runes_of_ascii """]	: packetx ,
    ""packet"" :
//	t
// a // b
msg_type , 10 : // " ++ [27880; 37322]%N ++ runes_of_ascii "
o// " ++ [128512]%N ++ runes_of_ascii " emoji
, }, @lengthOf( repeatCount )
    f32 As , @tag( 3
    )
    string_, } 	 ")).
Eval vm_compute in ("<<<M1078>>>" ++ check (runes_of_ascii "MetaData roots{ }MetaData x_y_z// trailing space 
{
zchar[	42 ]
    i8i8
, options1 _x`doc` ,i8 zchar
    , uint16 Pad`u8 x,`,	} packet MetaDataX{
    zchar[
4294967296 ] rootA  ,
//
//x
}	packet
    T { //x
@lengthOf( len	) @tag( 42) int64 float `{ , }` // c
, @lengthOf(i64_)As @lengthOf(falsey
    // a // b
    ) ,
int64 Pad	@lengthOf( _x)
`it's` , @lengthOf( len
    ) char[
255
]Pad`" ++ [28040; 24687; 31867; 22411]%N ++ runes_of_ascii "`, }
    MetaData Foo
{// " ++ [27880; 37322]%N ++ runes_of_ascii "
char[	1 ] As ,}
")).
Eval vm_compute in ("<<<M1110>>>" ++ check (runes_of_ascii "
")).
Eval vm_compute in ("<<<M1142>>>" ++ check (runes_of_ascii "
packet
// c
// @lengthOf(
int{ @lengthOf( //
pack
    ) f64 asx @calculatedFrom( ""abc"" )
    , @calculatedFrom( ""\" ++ [233]%N ++ runes_of_ascii """ ) f64 //	t
u
`// not a comment`
,// " ++ [128512]%N ++ runes_of_ascii " emoji
@lengthOf( stringy) @tag( 3 )
    @rightPad  ()repeat float32
    rootA , msg_type@lengthOf(
    packetx
    // " ++ [27880; 37322]%N ++ runes_of_ascii "
    ), @lengthOf( repeatCount
) //x
@calculatedFrom(
""`tick`"" )  float lengthOf ,
} packet Pad { repeat uint8x body`u8 x,` ,	zchar	{
    u8 trueish, float `
` ,
    } , @lengthOf(
uint8x
) @lengthOf( //x
float ) u64 T @calculatedFrom( ""// no comment"" ) , @rightPad ()
    repeat options1//x
int ,
@tag( 00
// c
// c
)
    @lengthOf( string_
// c
/// triple
)
@lengthOf( f32a	)
string
/// triple
//	t
u , match
    // trailing space 
    x as uint8x
    {[
    ""it's"" , ""x y""
, ""it's""  ] : // " ++ [128512]%N ++ runes_of_ascii " emoji
i64_	,// c
}
    ,} root packet
trueish{ i8i8`line1
line2` , } // " ++ [27880; 37322]%N ++ runes_of_ascii "
packet tag { //	t
float64 // packet A { u8 x, }
Foo
    `` , }
")).
Eval vm_compute in ("<<<M1174>>>" ++ check (runes_of_ascii "options { int// a // b
=7 ;float = int64;
/// triple
// a // b
stringy= 3 rootA
    // packet A { u8 x, }
    =""CRC32"" x = // c
true // " ++ [128512]%N ++ runes_of_ascii " emoji
} options{ A=uint16
    // @lengthOf(
    ; metadata = ""1""
// trailing space 
// `tick` ""quote"" 'q'
packetx=10// " ++ [128512]%N ++ runes_of_ascii " emoji
} MetaData Packet { T int	`u8 x,` , o _x
    ,
falsey chars ,
} root packet string_
{ packetx Pad`a\`
    , trueish x_y_z ,body , repeat char[ 3]  options1 `it's` , }")).
Eval vm_compute in ("<<<M1206>>>" ++ check (runes_of_ascii "options {T = zchar[ 0123456789
    ] }root packet Pad { match repeatCount  as pack{[ 3 ,
    /// triple
    255, ""// no comment""
, """ ++ [28040; 24687]%N ++ runes_of_ascii """ , ""it's"",
255
, ""it's"" ]:
packetx
    // `tick` ""quote"" 'q'
    ,
} ,
@calculatedFrom( ""CRC32""
) @lengthOf( Header)	@lengthOf( u ) match As
    as  calculatedFrom// c
{ [	255, 00]
// trailing space 
/// triple
:// " ++ [128512]%N ++ runes_of_ascii " emoji
Z9_ ,
[""a	b""]:// packet A { u8 x, }
Header}
// trailing space 
// " ++ [128512]%N ++ runes_of_ascii " emoji
,  x_y_z
,
    // packet A { u8 x, }
    }
")).
Eval vm_compute in ("<<<M1238>>>" ++ check (runes_of_ascii "
root packet options1
    { uint64	x ,	@lengthOf( i8i8
    ) repeat
char[ 0] len, crc `u8 x,`, As
@calculatedFrom(""a	b""
/// triple
// @lengthOf(
), @rightPad () @calculatedFrom( ""1""//x
) string charz @calculatedFrom(
""" ++ [233]%N ++ runes_of_ascii "t" ++ [233]%N ++ runes_of_ascii """	)`two words` , @tag( 00 )f32a
//x
//	t
{ char[] trueish@lengthOf( //	t
MetaDataX ) `// not a comment`
,repeat	int16 float
,
body `u8 x,` , } //x
, @calculatedFrom( // a // b
""x y""  )
//x
//
match Header as falsey { 7  :f32a , } ,  @tag( 00 )	match zchar
as
    Logon {
[7
, 7 ,
    ""`tick`"",
""\" ++ [233]%N ++ runes_of_ascii """ , 255] : A
, [ 1 ]  :Z9_ [ ""1"" , 1 ,
    ""`tick`"" ,""a	b""
,
//	t
// a // b
""\" ++ [233]%N ++ runes_of_ascii """ , """ ++ [28040; 24687]%N ++ runes_of_ascii """ ]	:
Pad [ ""1"" // " ++ [128512]%N ++ runes_of_ascii " emoji
, """" ,
1	,
00  ,""" ++ [128512]%N ++ runes_of_ascii """ , ""1"" , 1 , ""{,}"" ]
: Z9_ ,10:
A,
    """ ++ [233]%N ++ runes_of_ascii "t" ++ [233]%N ++ runes_of_ascii """
    : u8x
    // " ++ [128512]%N ++ runes_of_ascii " emoji
    , } , repeat int64 metadata ,
    @rightPad (
'0' )match tag as BodyLength
    {""CRC32"" : asx , 10:
    metadata , }
    ,}")).
Eval vm_compute in ("<<<T1238>>>" ++ terms [mkTok 34 "root" 2 0 false; mkTok 35 "packet" 2 5 false; mkTok 42 "options1" 2 12 false; mkTok 2 "{" 3 4 false; mkTok 23 "uint64" 3 6 false; mkTok 42 "x" 3 13 false; mkTok 40 "," 3 15 false; mkTok 7 "@lengthOf(" 3 17 false; mkTok 42 "i8i8" 3 28 false; mkTok 6 ")" 4 4 false; mkTok 36 "repeat" 4 6 false; mkTok 12 "char[" 5 0 false; mkTok 30 "0" 5 6 false; mkTok 13 "]" 5 7 false; mkTok 42 "len" 5 9 false; mkTok 40 "," 5 12 false; mkTok 42 "crc" 5 14 false; mkTok 43 "`u8 x,`" 5 18 false; mkTok 40 "," 5 25 false; mkTok 42 "As" 5 27 false; mkTok 5 "@calculatedFrom(" 6 0 false; mkTok 31 (string_of_bytes [34; 97; 9; 98; 34]%N) 6 16 false; mkTok 44 "/// triple" 7 0 true; mkTok 44 "// @lengthOf(" 8 0 true; mkTok 6 ")" 9 0 false; mkTok 40 "," 9 1 false; mkTok 32 "@rightPad" 9 3 false; mkTok 8 "(" 9 13 false; mkTok 6 ")" 9 14 false; mkTok 5 "@calculatedFrom(" 9 16 false; mkTok 31 """1""" 9 33 false; mkTok 44 "//x" 9 36 true; mkTok 6 ")" 10 0 false; mkTok 15 "string" 10 2 false; mkTok 42 "charz" 10 9 false; mkTok 5 "@calculatedFrom(" 10 15 false; mkTok 31 (string_of_bytes [34; 195; 169; 116; 195; 169; 34]%N) 11 0 false; mkTok 6 ")" 11 6 false; mkTok 43 "`two words`" 11 7 false; mkTok 40 "," 11 19 false; mkTok 9 "@tag(" 11 21 false; mkTok 30 "00" 11 27 false; mkTok 6 ")" 11 30 false; mkTok 42 "f32a" 11 31 false; mkTok 44 "//x" 12 0 true; mkTok 44 (string_of_bytes [47; 47; 9; 116]%N) 13 0 true; mkTok 2 "{" 14 0 false; mkTok 16 "char[]" 14 2 false; mkTok 42 "trueish" 14 9 false; mkTok 7 "@lengthOf(" 14 16 false; mkTok 44 (string_of_bytes [47; 47; 9; 116]%N) 14 27 true; mkTok 42 "MetaDataX" 15 0 false; mkTok 6 ")" 15 10 false; mkTok 43 "`// not a comment`" 15 12 false; mkTok 40 "," 16 0 false; mkTok 36 "repeat" 16 1 false; mkTok 25 "int16" 16 8 false; mkTok 42 "float" 16 14 false; mkTok 40 "," 17 0 false; mkTok 42 "body" 18 0 false; mkTok 43 "`u8 x,`" 18 5 false; mkTok 40 "," 18 13 false; mkTok 3 "}" 18 15 false; mkTok 44 "//x" 18 17 true; mkTok 40 "," 19 0 false; mkTok 5 "@calculatedFrom(" 19 2 false; mkTok 44 "// a // b" 19 19 true; mkTok 31 """x y""" 20 0 false; mkTok 6 ")" 20 7 false; mkTok 44 "//x" 21 0 true; mkTok 44 "//" 22 0 true; mkTok 38 "match" 23 0 false; mkTok 42 "Header" 23 6 false; mkTok 17 "as" 23 13 false; mkTok 42 "falsey" 23 16 false; mkTok 2 "{" 23 23 false; mkTok 30 "7" 23 25 false; mkTok 39 ":" 23 28 false; mkTok 42 "f32a" 23 29 false; mkTok 40 "," 23 34 false; mkTok 3 "}" 23 36 false; mkTok 40 "," 23 38 false; mkTok 9 "@tag(" 23 41 false; mkTok 30 "00" 23 47 false; mkTok 6 ")" 23 50 false; mkTok 38 "match" 23 52 false; mkTok 42 "zchar" 23 58 false; mkTok 17 "as" 24 0 false; mkTok 42 "Logon" 25 4 false; mkTok 2 "{" 25 10 false; mkTok 18 "[" 26 0 false; mkTok 30 "7" 26 1 false; mkTok 40 "," 27 0 false; mkTok 30 "7" 27 2 false; mkTok 40 "," 27 4 false; mkTok 31 """`tick`""" 28 4 false; mkTok 40 "," 28 12 false; mkTok 31 (string_of_bytes [34; 92; 195; 169; 34]%N) 29 0 false; mkTok 40 "," 29 5 false; mkTok 30 "255" 29 7 false; mkTok 13 "]" 29 10 false; mkTok 39 ":" 29 12 false; mkTok 42 "A" 29 14 false; mkTok 40 "," 30 0 false; mkTok 18 "[" 30 2 false; mkTok 30 "1" 30 4 false; mkTok 13 "]" 30 6 false; mkTok 39 ":" 30 9 false; mkTok 42 "Z9_" 30 10 false; mkTok 18 "[" 30 14 false; mkTok 31 """1""" 30 16 false; mkTok 40 "," 30 20 false; mkTok 30 "1" 30 22 false; mkTok 40 "," 30 24 false; mkTok 31 """`tick`""" 31 4 false; mkTok 40 "," 31 13 false; mkTok 31 (string_of_bytes [34; 97; 9; 98; 34]%N) 31 14 false; mkTok 40 "," 32 0 false; mkTok 44 (string_of_bytes [47; 47; 9; 116]%N) 33 0 true; mkTok 44 "// a // b" 34 0 true; mkTok 31 (string_of_bytes [34; 92; 195; 169; 34]%N) 35 0 false; mkTok 40 "," 35 5 false; mkTok 31 (string_of_bytes [34; 230; 182; 136; 230; 129; 175; 34]%N) 35 7 false; mkTok 13 "]" 35 12 false; mkTok 39 ":" 35 14 false; mkTok 42 "Pad" 36 0 false; mkTok 18 "[" 36 4 false; mkTok 31 """1""" 36 6 false; mkTok 44 (string_of_bytes [47; 47; 32; 240; 159; 152; 128; 32; 101; 109; 111; 106; 105]%N) 36 10 true; mkTok 40 "," 37 0 false; mkTok 31 """""" 37 2 false; mkTok 40 "," 37 5 false; mkTok 30 "1" 38 0 false; mkTok 40 "," 38 2 false; mkTok 30 "00" 39 0 false; mkTok 40 "," 39 4 false; mkTok 31 (string_of_bytes [34; 240; 159; 152; 128; 34]%N) 39 5 false; mkTok 40 "," 39 9 false; mkTok 31 """1""" 39 11 false; mkTok 40 "," 39 15 false; mkTok 30 "1" 39 17 false; mkTok 40 "," 39 19 false; mkTok 31 """{,}""" 39 21 false; mkTok 13 "]" 39 27 false; mkTok 39 ":" 40 0 false; mkTok 42 "Z9_" 40 2 false; mkTok 40 "," 40 6 false; mkTok 30 "10" 40 7 false; mkTok 39 ":" 40 9 false; mkTok 42 "A" 41 0 false; mkTok 40 "," 41 1 false; mkTok 31 (string_of_bytes [34; 195; 169; 116; 195; 169; 34]%N) 42 4 false; mkTok 39 ":" 43 4 false; mkTok 42 "u8x" 43 6 false; mkTok 44 (string_of_bytes [47; 47; 32; 240; 159; 152; 128; 32; 101; 109; 111; 106; 105]%N) 44 4 true; mkTok 40 "," 45 4 false; mkTok 3 "}" 45 6 false; mkTok 40 "," 45 8 false; mkTok 36 "repeat" 45 10 false; mkTok 27 "int64" 45 17 false; mkTok 42 "metadata" 45 23 false; mkTok 40 "," 45 32 false; mkTok 32 "@rightPad" 46 4 false; mkTok 8 "(" 46 14 false; mkTok 33 "'0'" 47 0 false; mkTok 6 ")" 47 4 false; mkTok 38 "match" 47 5 false; mkTok 42 "tag" 47 11 false; mkTok 17 "as" 47 15 false; mkTok 42 "BodyLength" 47 18 false; mkTok 2 "{" 48 4 false; mkTok 31 """CRC32""" 48 5 false; mkTok 39 ":" 48 13 false; mkTok 42 "asx" 48 15 false; mkTok 40 "," 48 19 false; mkTok 30 "10" 48 21 false; mkTok 39 ":" 48 23 false; mkTok 42 "metadata" 49 4 false; mkTok 40 "," 49 13 false; mkTok 3 "}" 49 15 false; mkTok 40 "," 50 4 false; mkTok 3 "}" 50 5 false; mkTok 0 "<EOF>" 50 6 false] (mkPacket (mkPtok 34 "root" 2 0 0) (Some (mkPtok 3 "}" 50 5 181)) [(DPacket (mkPacketDef (mkSpan (mkPtok 34 "root" 2 0 0) (mkPtok 3 "}" 50 5 181)) (Some (mkPtok 34 "root" 2 0 0)) (mkPtok 35 "packet" 2 5 1) (mkPtok 42 "options1" 2 12 2) (mkPtok 2 "{" 3 4 3) [(mkFieldWithAttr (mkSpan (mkPtok 23 "uint64" 3 6 4) (mkPtok 40 "," 3 15 6)) [] (MetaField (mkSpan (mkPtok 23 "uint64" 3 6 4) (mkPtok 40 "," 3 15 6)) None (mkMetaDecl (mkSpan (mkPtok 23 "uint64" 3 6 4) (mkPtok 40 "," 3 15 6)) (TyBasic (mkSpan (mkPtok 23 "uint64" 3 6 4) (mkPtok 23 "uint64" 3 6 4)) (mkBasicType (mkSpan (mkPtok 23 "uint64" 3 6 4) (mkPtok 23 "uint64" 3 6 4)) (mkPtok 23 "uint64" 3 6 4))) (mkPtok 42 "x" 3 13 5) None (mkPtok 40 "," 3 15 6)))); (mkFieldWithAttr (mkSpan (mkPtok 7 "@lengthOf(" 3 17 7) (mkPtok 40 "," 5 12 15)) [(FALengthOf (mkSpan (mkPtok 7 "@lengthOf(" 3 17 7) (mkPtok 6 ")" 4 4 9)) (mkLengthOf (mkSpan (mkPtok 7 "@lengthOf(" 3 17 7) (mkPtok 6 ")" 4 4 9)) (mkPtok 7 "@lengthOf(" 3 17 7) (mkPtok 42 "i8i8" 3 28 8) (mkPtok 6 ")" 4 4 9)))] (MetaField (mkSpan (mkPtok 36 "repeat" 4 6 10) (mkPtok 40 "," 5 12 15)) (Some (mkPtok 36 "repeat" 4 6 10)) (mkMetaDecl (mkSpan (mkPtok 12 "char[" 5 0 11) (mkPtok 40 "," 5 12 15)) (TyFixed (mkSpan (mkPtok 12 "char[" 5 0 11) (mkPtok 13 "]" 5 7 13)) (mkFixedString (mkSpan (mkPtok 12 "char[" 5 0 11) (mkPtok 13 "]" 5 7 13)) (mkPtok 12 "char[" 5 0 11) (mkPtok 30 "0" 5 6 12) (mkPtok 13 "]" 5 7 13))) (mkPtok 42 "len" 5 9 14) None (mkPtok 40 "," 5 12 15)))); (mkFieldWithAttr (mkSpan (mkPtok 42 "crc" 5 14 16) (mkPtok 40 "," 5 25 18)) [] (ObjectField (mkSpan (mkPtok 42 "crc" 5 14 16) (mkPtok 40 "," 5 25 18)) None (mkPtok 42 "crc" 5 14 16) None (Some (mkPtok 43 "`u8 x,`" 5 18 17)) (mkPtok 40 "," 5 25 18))); (mkFieldWithAttr (mkSpan (mkPtok 42 "As" 5 27 19) (mkPtok 40 "," 9 1 25)) [] (CheckSumField (mkSpan (mkPtok 42 "As" 5 27 19) (mkPtok 40 "," 9 1 25)) (mkChecksumFieldDecl (mkSpan (mkPtok 42 "As" 5 27 19) (mkPtok 40 "," 9 1 25)) None (mkPtok 42 "As" 5 27 19) (mkCalculatedFrom (mkSpan (mkPtok 5 "@calculatedFrom(" 6 0 20) (mkPtok 6 ")" 9 0 24)) (mkPtok 5 "@calculatedFrom(" 6 0 20) (mkPtok 31 (string_of_bytes [34; 97; 9; 98; 34]%N) 6 16 21) (mkPtok 6 ")" 9 0 24)) None (mkPtok 40 "," 9 1 25)))); (mkFieldWithAttr (mkSpan (mkPtok 32 "@rightPad" 9 3 26) (mkPtok 40 "," 11 19 39)) [(FAPadding (mkSpan (mkPtok 32 "@rightPad" 9 3 26) (mkPtok 6 ")" 9 14 28)) (mkPaddingAttr (mkSpan (mkPtok 32 "@rightPad" 9 3 26) (mkPtok 6 ")" 9 14 28)) (mkPtok 32 "@rightPad" 9 3 26) (mkPtok 8 "(" 9 13 27) None (mkPtok 6 ")" 9 14 28))); (FACalculatedFrom (mkSpan (mkPtok 5 "@calculatedFrom(" 9 16 29) (mkPtok 6 ")" 10 0 32)) (mkCalculatedFrom (mkSpan (mkPtok 5 "@calculatedFrom(" 9 16 29) (mkPtok 6 ")" 10 0 32)) (mkPtok 5 "@calculatedFrom(" 9 16 29) (mkPtok 31 """1""" 9 33 30) (mkPtok 6 ")" 10 0 32)))] (CheckSumField (mkSpan (mkPtok 15 "string" 10 2 33) (mkPtok 40 "," 11 19 39)) (mkChecksumFieldDecl (mkSpan (mkPtok 15 "string" 10 2 33) (mkPtok 40 "," 11 19 39)) (Some (TyDynamic (mkSpan (mkPtok 15 "string" 10 2 33) (mkPtok 15 "string" 10 2 33)) (mkDynamicString (mkSpan (mkPtok 15 "string" 10 2 33) (mkPtok 15 "string" 10 2 33)) (mkPtok 15 "string" 10 2 33)))) (mkPtok 42 "charz" 10 9 34) (mkCalculatedFrom (mkSpan (mkPtok 5 "@calculatedFrom(" 10 15 35) (mkPtok 6 ")" 11 6 37)) (mkPtok 5 "@calculatedFrom(" 10 15 35) (mkPtok 31 (string_of_bytes [34; 195; 169; 116; 195; 169; 34]%N) 11 0 36) (mkPtok 6 ")" 11 6 37)) (Some (mkPtok 43 "`two words`" 11 7 38)) (mkPtok 40 "," 11 19 39)))); (mkFieldWithAttr (mkSpan (mkPtok 9 "@tag(" 11 21 40) (mkPtok 40 "," 19 0 64)) [(FATag (mkSpan (mkPtok 9 "@tag(" 11 21 40) (mkPtok 6 ")" 11 30 42)) (mkTagAttr (mkSpan (mkPtok 9 "@tag(" 11 21 40) (mkPtok 6 ")" 11 30 42)) (mkPtok 9 "@tag(" 11 21 40) (mkPtok 30 "00" 11 27 41) (mkPtok 6 ")" 11 30 42)))] (InerObjectField (mkSpan (mkPtok 42 "f32a" 11 31 43) (mkPtok 40 "," 19 0 64)) None (InerObjectDecl (mkSpan (mkPtok 42 "f32a" 11 31 43) (mkPtok 3 "}" 18 15 62)) (mkPtok 42 "f32a" 11 31 43) (mkPtok 2 "{" 14 0 46) [(LengthField (mkSpan (mkPtok 16 "char[]" 14 2 47) (mkPtok 40 "," 16 0 54)) (mkLengthFieldDecl (mkSpan (mkPtok 16 "char[]" 14 2 47) (mkPtok 40 "," 16 0 54)) (Some (TyDynamic (mkSpan (mkPtok 16 "char[]" 14 2 47) (mkPtok 16 "char[]" 14 2 47)) (mkDynamicString (mkSpan (mkPtok 16 "char[]" 14 2 47) (mkPtok 16 "char[]" 14 2 47)) (mkPtok 16 "char[]" 14 2 47)))) (mkPtok 42 "trueish" 14 9 48) (mkLengthOf (mkSpan (mkPtok 7 "@lengthOf(" 14 16 49) (mkPtok 6 ")" 15 10 52)) (mkPtok 7 "@lengthOf(" 14 16 49) (mkPtok 42 "MetaDataX" 15 0 51) (mkPtok 6 ")" 15 10 52)) (Some (mkPtok 43 "`// not a comment`" 15 12 53)) (mkPtok 40 "," 16 0 54))); (MetaField (mkSpan (mkPtok 36 "repeat" 16 1 55) (mkPtok 40 "," 17 0 58)) (Some (mkPtok 36 "repeat" 16 1 55)) (mkMetaDecl (mkSpan (mkPtok 25 "int16" 16 8 56) (mkPtok 40 "," 17 0 58)) (TyBasic (mkSpan (mkPtok 25 "int16" 16 8 56) (mkPtok 25 "int16" 16 8 56)) (mkBasicType (mkSpan (mkPtok 25 "int16" 16 8 56) (mkPtok 25 "int16" 16 8 56)) (mkPtok 25 "int16" 16 8 56))) (mkPtok 42 "float" 16 14 57) None (mkPtok 40 "," 17 0 58))); (ObjectField (mkSpan (mkPtok 42 "body" 18 0 59) (mkPtok 40 "," 18 13 61)) None (mkPtok 42 "body" 18 0 59) None (Some (mkPtok 43 "`u8 x,`" 18 5 60)) (mkPtok 40 "," 18 13 61))] (mkPtok 3 "}" 18 15 62)) (mkPtok 40 "," 19 0 64))); (mkFieldWithAttr (mkSpan (mkPtok 5 "@calculatedFrom(" 19 2 65) (mkPtok 40 "," 23 38 81)) [(FACalculatedFrom (mkSpan (mkPtok 5 "@calculatedFrom(" 19 2 65) (mkPtok 6 ")" 20 7 68)) (mkCalculatedFrom (mkSpan (mkPtok 5 "@calculatedFrom(" 19 2 65) (mkPtok 6 ")" 20 7 68)) (mkPtok 5 "@calculatedFrom(" 19 2 65) (mkPtok 31 """x y""" 20 0 67) (mkPtok 6 ")" 20 7 68)))] (MatchField (mkSpan (mkPtok 38 "match" 23 0 71) (mkPtok 40 "," 23 38 81)) (mkMatchFieldDecl (mkSpan (mkPtok 38 "match" 23 0 71) (mkPtok 3 "}" 23 36 80)) (mkPtok 38 "match" 23 0 71) (mkPtok 42 "Header" 23 6 72) (mkPtok 17 "as" 23 13 73) (mkPtok 42 "falsey" 23 16 74) (mkPtok 2 "{" 23 23 75) [(mkMatchPair (mkSpan (mkPtok 30 "7" 23 25 76) (mkPtok 40 "," 23 34 79)) (MKDigits (mkPtok 30 "7" 23 25 76)) (mkPtok 39 ":" 23 28 77) (mkPtok 42 "f32a" 23 29 78) (Some (mkPtok 40 "," 23 34 79)))] (mkPtok 3 "}" 23 36 80)) (mkPtok 40 "," 23 38 81))); (mkFieldWithAttr (mkSpan (mkPtok 9 "@tag(" 23 41 82) (mkPtok 40 "," 45 8 157)) [(FATag (mkSpan (mkPtok 9 "@tag(" 23 41 82) (mkPtok 6 ")" 23 50 84)) (mkTagAttr (mkSpan (mkPtok 9 "@tag(" 23 41 82) (mkPtok 6 ")" 23 50 84)) (mkPtok 9 "@tag(" 23 41 82) (mkPtok 30 "00" 23 47 83) (mkPtok 6 ")" 23 50 84)))] (MatchField (mkSpan (mkPtok 38 "match" 23 52 85) (mkPtok 40 "," 45 8 157)) (mkMatchFieldDecl (mkSpan (mkPtok 38 "match" 23 52 85) (mkPtok 3 "}" 45 6 156)) (mkPtok 38 "match" 23 52 85) (mkPtok 42 "zchar" 23 58 86) (mkPtok 17 "as" 24 0 87) (mkPtok 42 "Logon" 25 4 88) (mkPtok 2 "{" 25 10 89) [(mkMatchPair (mkSpan (mkPtok 18 "[" 26 0 90) (mkPtok 40 "," 30 0 103)) (MKList (mkKeyList (mkSpan (mkPtok 18 "[" 26 0 90) (mkPtok 13 "]" 29 10 100)) (mkPtok 18 "[" 26 0 90) (mkPtok 30 "7" 26 1 91) [((mkPtok 40 "," 27 0 92), (mkPtok 30 "7" 27 2 93)); ((mkPtok 40 "," 27 4 94), (mkPtok 31 """`tick`""" 28 4 95)); ((mkPtok 40 "," 28 12 96), (mkPtok 31 (string_of_bytes [34; 92; 195; 169; 34]%N) 29 0 97)); ((mkPtok 40 "," 29 5 98), (mkPtok 30 "255" 29 7 99))] (mkPtok 13 "]" 29 10 100))) (mkPtok 39 ":" 29 12 101) (mkPtok 42 "A" 29 14 102) (Some (mkPtok 40 "," 30 0 103))); (mkMatchPair (mkSpan (mkPtok 18 "[" 30 2 104) (mkPtok 42 "Z9_" 30 10 108)) (MKList (mkKeyList (mkSpan (mkPtok 18 "[" 30 2 104) (mkPtok 13 "]" 30 6 106)) (mkPtok 18 "[" 30 2 104) (mkPtok 30 "1" 30 4 105) [] (mkPtok 13 "]" 30 6 106))) (mkPtok 39 ":" 30 9 107) (mkPtok 42 "Z9_" 30 10 108) None); (mkMatchPair (mkSpan (mkPtok 18 "[" 30 14 109) (mkPtok 42 "Pad" 36 0 125)) (MKList (mkKeyList (mkSpan (mkPtok 18 "[" 30 14 109) (mkPtok 13 "]" 35 12 123)) (mkPtok 18 "[" 30 14 109) (mkPtok 31 """1""" 30 16 110) [((mkPtok 40 "," 30 20 111), (mkPtok 30 "1" 30 22 112)); ((mkPtok 40 "," 30 24 113), (mkPtok 31 """`tick`""" 31 4 114)); ((mkPtok 40 "," 31 13 115), (mkPtok 31 (string_of_bytes [34; 97; 9; 98; 34]%N) 31 14 116)); ((mkPtok 40 "," 32 0 117), (mkPtok 31 (string_of_bytes [34; 92; 195; 169; 34]%N) 35 0 120)); ((mkPtok 40 "," 35 5 121), (mkPtok 31 (string_of_bytes [34; 230; 182; 136; 230; 129; 175; 34]%N) 35 7 122))] (mkPtok 13 "]" 35 12 123))) (mkPtok 39 ":" 35 14 124) (mkPtok 42 "Pad" 36 0 125) None); (mkMatchPair (mkSpan (mkPtok 18 "[" 36 4 126) (mkPtok 40 "," 40 6 146)) (MKList (mkKeyList (mkSpan (mkPtok 18 "[" 36 4 126) (mkPtok 13 "]" 39 27 143)) (mkPtok 18 "[" 36 4 126) (mkPtok 31 """1""" 36 6 127) [((mkPtok 40 "," 37 0 129), (mkPtok 31 """""" 37 2 130)); ((mkPtok 40 "," 37 5 131), (mkPtok 30 "1" 38 0 132)); ((mkPtok 40 "," 38 2 133), (mkPtok 30 "00" 39 0 134)); ((mkPtok 40 "," 39 4 135), (mkPtok 31 (string_of_bytes [34; 240; 159; 152; 128; 34]%N) 39 5 136)); ((mkPtok 40 "," 39 9 137), (mkPtok 31 """1""" 39 11 138)); ((mkPtok 40 "," 39 15 139), (mkPtok 30 "1" 39 17 140)); ((mkPtok 40 "," 39 19 141), (mkPtok 31 """{,}""" 39 21 142))] (mkPtok 13 "]" 39 27 143))) (mkPtok 39 ":" 40 0 144) (mkPtok 42 "Z9_" 40 2 145) (Some (mkPtok 40 "," 40 6 146))); (mkMatchPair (mkSpan (mkPtok 30 "10" 40 7 147) (mkPtok 40 "," 41 1 150)) (MKDigits (mkPtok 30 "10" 40 7 147)) (mkPtok 39 ":" 40 9 148) (mkPtok 42 "A" 41 0 149) (Some (mkPtok 40 "," 41 1 150))); (mkMatchPair (mkSpan (mkPtok 31 (string_of_bytes [34; 195; 169; 116; 195; 169; 34]%N) 42 4 151) (mkPtok 40 "," 45 4 155)) (MKString (mkPtok 31 (string_of_bytes [34; 195; 169; 116; 195; 169; 34]%N) 42 4 151)) (mkPtok 39 ":" 43 4 152) (mkPtok 42 "u8x" 43 6 153) (Some (mkPtok 40 "," 45 4 155)))] (mkPtok 3 "}" 45 6 156)) (mkPtok 40 "," 45 8 157))); (mkFieldWithAttr (mkSpan (mkPtok 36 "repeat" 45 10 158) (mkPtok 40 "," 45 32 161)) [] (MetaField (mkSpan (mkPtok 36 "repeat" 45 10 158) (mkPtok 40 "," 45 32 161)) (Some (mkPtok 36 "repeat" 45 10 158)) (mkMetaDecl (mkSpan (mkPtok 27 "int64" 45 17 159) (mkPtok 40 "," 45 32 161)) (TyBasic (mkSpan (mkPtok 27 "int64" 45 17 159) (mkPtok 27 "int64" 45 17 159)) (mkBasicType (mkSpan (mkPtok 27 "int64" 45 17 159) (mkPtok 27 "int64" 45 17 159)) (mkPtok 27 "int64" 45 17 159))) (mkPtok 42 "metadata" 45 23 160) None (mkPtok 40 "," 45 32 161)))); (mkFieldWithAttr (mkSpan (mkPtok 32 "@rightPad" 46 4 162) (mkPtok 40 "," 50 4 180)) [(FAPadding (mkSpan (mkPtok 32 "@rightPad" 46 4 162) (mkPtok 6 ")" 47 4 165)) (mkPaddingAttr (mkSpan (mkPtok 32 "@rightPad" 46 4 162) (mkPtok 6 ")" 47 4 165)) (mkPtok 32 "@rightPad" 46 4 162) (mkPtok 8 "(" 46 14 163) (Some (mkPtok 33 "'0'" 47 0 164)) (mkPtok 6 ")" 47 4 165)))] (MatchField (mkSpan (mkPtok 38 "match" 47 5 166) (mkPtok 40 "," 50 4 180)) (mkMatchFieldDecl (mkSpan (mkPtok 38 "match" 47 5 166) (mkPtok 3 "}" 49 15 179)) (mkPtok 38 "match" 47 5 166) (mkPtok 42 "tag" 47 11 167) (mkPtok 17 "as" 47 15 168) (mkPtok 42 "BodyLength" 47 18 169) (mkPtok 2 "{" 48 4 170) [(mkMatchPair (mkSpan (mkPtok 31 """CRC32""" 48 5 171) (mkPtok 40 "," 48 19 174)) (MKString (mkPtok 31 """CRC32""" 48 5 171)) (mkPtok 39 ":" 48 13 172) (mkPtok 42 "asx" 48 15 173) (Some (mkPtok 40 "," 48 19 174))); (mkMatchPair (mkSpan (mkPtok 30 "10" 48 21 175) (mkPtok 40 "," 49 13 178)) (MKDigits (mkPtok 30 "10" 48 21 175)) (mkPtok 39 ":" 48 23 176) (mkPtok 42 "metadata" 49 4 177) (Some (mkPtok 40 "," 49 13 178)))] (mkPtok 3 "}" 49 15 179)) (mkPtok 40 "," 50 4 180)))] (mkPtok 3 "}" 50 5 181)))])).
Eval vm_compute in ("<<<M1270>>>" ++ check (runes_of_ascii "options { u = string }
")).
Eval vm_compute in ("<<<M1302>>>" ++ check (runes_of_ascii "packet
float {
match
asx as len {255
:metadata
},char[ 4294967296] x  @lengthOf( lengthOf ),matchKey int
,} packet  falsey { @tag( 0123456789	) match
    u128 // a // b
as
stringy  {
    // " ++ [128512]%N ++ runes_of_ascii " emoji
    0123456789 :
u128 // packet A { u8 x, }
[
3
,
    ""CRC32"" ,	7
// packet A { u8 x, }
// @lengthOf(
, 10
    , 0 ] :o	, 1 /// triple
:charz // " ++ [128512]%N ++ runes_of_ascii " emoji
, 0123456789 :
u ,255 :
pack
, } ,
    }  packet T
{
    // " ++ [27880; 37322]%N ++ runes_of_ascii "
    @lengthOf(
    /// triple
    Z9_ ) @rightPad (  '0' ) @calculatedFrom(
    ""// no comment"" // `tick` ""quote"" 'q'
)zchar[
007
    ] leftPad ,@calculatedFrom(
""1"" )char[]As
`two words` ,
    @leftPad ( '0' ) repeat char[
    0123456789
    ]x `// not a comment`, char[ 1
// " ++ [27880; 37322]%N ++ runes_of_ascii "
//x
]_x// " ++ [128512]%N ++ runes_of_ascii " emoji
, }")).
Eval vm_compute in ("<<<M1334>>>" ++ check (runes_of_ascii "//
options{charz
= ""1"" trueish = """" ;  asx =
'0'i8i8 //	t
=
    ""it's""	;  }")).
Eval vm_compute in ("<<<M1366>>>" ++ check (runes_of_ascii "options
{  trueish  = f32
;
    i8i8 = false BodyLength  =
// " ++ [27880; 37322]%N ++ runes_of_ascii "
//	t
float64
stringy =
string;Z9_= '\x00' } MetaData falsey { pack
rootA,
char[ 7]
x_y_z `" ++ [233]%N ++ runes_of_ascii "` , uint32
    string_ ,
float64 //	t
lengthOf// trailing space 
,
int32	u , }
")).
Eval vm_compute in ("<<<M1398>>>" ++ check (runes_of_ascii "packet //	t
u8x
{ @leftPad (  '0' ) // trailing space 
@calculatedFrom( ""1""  )
@leftPad ('\x00' ) zchar[ 3
]  zchar
, // `tick` ""quote"" 'q'
}options {
    }
// @lengthOf(
")).
Eval vm_compute in ("<<<M1430>>>" ++ check (runes_of_ascii "  options
{ Pad =  zchar[ 0 ] ;
    tag=char[ 4294967296
    ] ; u128=	false ; } MetaData repeatCount
    {
u16 u128, }  options {
leftPad
    = '0'; }")).
Eval vm_compute in ("<<<M1462>>>" ++ check (runes_of_ascii "options {tag =""`tick`"" }
options { chars
// c
//
=
255 ;
    // packet A { u8 x, }
    int =
""abc"" string_
=
    true
    ;
    body
=  false asx = """ ++ [233]%N ++ runes_of_ascii "t" ++ [233]%N ++ runes_of_ascii """ ;// packet A { u8 x, }
}
    packet _x //x
{
repeat
o  { char[ 00
] f32a@calculatedFrom(
    """"
)	,
f32a `a\`  , } , }packet falsey {
} packet Z9_
{ @tag( 0 ) @calculatedFrom( ""`tick`"" )
    // a // b
    @tag( 00 ) char[ 3 // " ++ [27880; 37322]%N ++ runes_of_ascii "
] x @calculatedFrom( """"	) ,
// @lengthOf(
// packet A { u8 x, }
Pad  @calculatedFrom( ""\" ++ [233]%N ++ runes_of_ascii """) ,@rightPad (  '0' ) char[]
    trueish @lengthOf( packetx
)
, }
// c
")).
Eval vm_compute in ("<<<T1462>>>" ++ terms [mkTok 1 "options" 1 0 false; mkTok 2 "{" 1 8 false; mkTok 42 "tag" 1 9 false; mkTok 4 "=" 1 13 false; mkTok 31 """`tick`""" 1 14 false; mkTok 3 "}" 1 23 false; mkTok 1 "options" 2 0 false; mkTok 2 "{" 2 8 false; mkTok 42 "chars" 2 10 false; mkTok 44 "// c" 3 0 true; mkTok 44 "//" 4 0 true; mkTok 4 "=" 5 0 false; mkTok 30 "255" 6 0 false; mkTok 41 ";" 6 4 false; mkTok 44 "// packet A { u8 x, }" 7 4 true; mkTok 42 "int" 8 4 false; mkTok 4 "=" 8 8 false; mkTok 31 """abc""" 9 0 false; mkTok 42 "string_" 9 6 false; mkTok 4 "=" 10 0 false; mkTok 10 "true" 11 4 false; mkTok 41 ";" 12 4 false; mkTok 42 "body" 13 4 false; mkTok 4 "=" 14 0 false; mkTok 11 "false" 14 3 false; mkTok 42 "asx" 14 9 false; mkTok 4 "=" 14 13 false; mkTok 31 (string_of_bytes [34; 195; 169; 116; 195; 169; 34]%N) 14 15 false; mkTok 41 ";" 14 21 false; mkTok 44 "// packet A { u8 x, }" 14 22 true; mkTok 3 "}" 15 0 false; mkTok 35 "packet" 16 4 false; mkTok 42 "_x" 16 11 false; mkTok 44 "//x" 16 14 true; mkTok 2 "{" 17 0 false; mkTok 36 "repeat" 18 0 false; mkTok 42 "o" 19 0 false; mkTok 2 "{" 19 3 false; mkTok 12 "char[" 19 5 false; mkTok 30 "00" 19 11 false; mkTok 13 "]" 20 0 false; mkTok 42 "f32a" 20 2 false; mkTok 5 "@calculatedFrom(" 20 6 false; mkTok 31 """""" 21 4 false; mkTok 6 ")" 22 0 false; mkTok 40 "," 22 2 false; mkTok 42 "f32a" 23 0 false; mkTok 43 "`a\`" 23 5 false; mkTok 40 "," 23 11 false; mkTok 3 "}" 23 13 false; mkTok 40 "," 23 15 false; mkTok 3 "}" 23 17 false; mkTok 35 "packet" 23 18 false; mkTok 42 "falsey" 23 25 false; mkTok 2 "{" 23 32 false; mkTok 3 "}" 24 0 false; mkTok 35 "packet" 24 2 false; mkTok 42 "Z9_" 24 9 false; mkTok 2 "{" 25 0 false; mkTok 9 "@tag(" 25 2 false; mkTok 30 "0" 25 8 false; mkTok 6 ")" 25 10 false; mkTok 5 "@calculatedFrom(" 25 12 false; mkTok 31 """`tick`""" 25 29 false; mkTok 6 ")" 25 38 false; mkTok 44 "// a // b" 26 4 true; mkTok 9 "@tag(" 27 4 false; mkTok 30 "00" 27 10 false; mkTok 6 ")" 27 13 false; mkTok 12 "char[" 27 15 false; mkTok 30 "3" 27 21 false; mkTok 44 (string_of_bytes [47; 47; 32; 230; 179; 168; 233; 135; 138]%N) 27 23 true; mkTok 13 "]" 28 0 false; mkTok 42 "x" 28 2 false; mkTok 5 "@calculatedFrom(" 28 4 false; mkTok 31 """""" 28 21 false; mkTok 6 ")" 28 24 false; mkTok 40 "," 28 26 false; mkTok 44 "// @lengthOf(" 29 0 true; mkTok 44 "// packet A { u8 x, }" 30 0 true; mkTok 42 "Pad" 31 0 false; mkTok 5 "@calculatedFrom(" 31 5 false; mkTok 31 (string_of_bytes [34; 92; 195; 169; 34]%N) 31 22 false; mkTok 6 ")" 31 26 false; mkTok 40 "," 31 28 false; mkTok 32 "@rightPad" 31 29 false; mkTok 8 "(" 31 39 false; mkTok 33 "'0'" 31 42 false; mkTok 6 ")" 31 46 false; mkTok 16 "char[]" 31 48 false; mkTok 42 "trueish" 32 4 false; mkTok 7 "@lengthOf(" 32 12 false; mkTok 42 "packetx" 32 23 false; mkTok 6 ")" 33 0 false; mkTok 40 "," 34 0 false; mkTok 3 "}" 34 2 false; mkTok 44 "// c" 35 0 true; mkTok 0 "<EOF>" 36 0 false] (mkPacket (mkPtok 1 "options" 1 0 0) (Some (mkPtok 3 "}" 34 2 95)) [(DOption (mkOptionDef (mkSpan (mkPtok 1 "options" 1 0 0) (mkPtok 3 "}" 1 23 5)) (mkPtok 1 "options" 1 0 0) (mkPtok 2 "{" 1 8 1) [(mkOptionDecl (mkSpan (mkPtok 42 "tag" 1 9 2) (mkPtok 31 """`tick`""" 1 14 4)) (mkPtok 42 "tag" 1 9 2) (mkPtok 4 "=" 1 13 3) (VString (mkSpan (mkPtok 31 """`tick`""" 1 14 4) (mkPtok 31 """`tick`""" 1 14 4)) (mkPtok 31 """`tick`""" 1 14 4)) None)] (mkPtok 3 "}" 1 23 5))); (DOption (mkOptionDef (mkSpan (mkPtok 1 "options" 2 0 6) (mkPtok 3 "}" 15 0 30)) (mkPtok 1 "options" 2 0 6) (mkPtok 2 "{" 2 8 7) [(mkOptionDecl (mkSpan (mkPtok 42 "chars" 2 10 8) (mkPtok 41 ";" 6 4 13)) (mkPtok 42 "chars" 2 10 8) (mkPtok 4 "=" 5 0 11) (VDigits (mkSpan (mkPtok 30 "255" 6 0 12) (mkPtok 30 "255" 6 0 12)) (mkPtok 30 "255" 6 0 12)) (Some (mkPtok 41 ";" 6 4 13))); (mkOptionDecl (mkSpan (mkPtok 42 "int" 8 4 15) (mkPtok 31 """abc""" 9 0 17)) (mkPtok 42 "int" 8 4 15) (mkPtok 4 "=" 8 8 16) (VString (mkSpan (mkPtok 31 """abc""" 9 0 17) (mkPtok 31 """abc""" 9 0 17)) (mkPtok 31 """abc""" 9 0 17)) None); (mkOptionDecl (mkSpan (mkPtok 42 "string_" 9 6 18) (mkPtok 41 ";" 12 4 21)) (mkPtok 42 "string_" 9 6 18) (mkPtok 4 "=" 10 0 19) (VTrue (mkSpan (mkPtok 10 "true" 11 4 20) (mkPtok 10 "true" 11 4 20)) (mkPtok 10 "true" 11 4 20)) (Some (mkPtok 41 ";" 12 4 21))); (mkOptionDecl (mkSpan (mkPtok 42 "body" 13 4 22) (mkPtok 11 "false" 14 3 24)) (mkPtok 42 "body" 13 4 22) (mkPtok 4 "=" 14 0 23) (VFalse (mkSpan (mkPtok 11 "false" 14 3 24) (mkPtok 11 "false" 14 3 24)) (mkPtok 11 "false" 14 3 24)) None); (mkOptionDecl (mkSpan (mkPtok 42 "asx" 14 9 25) (mkPtok 41 ";" 14 21 28)) (mkPtok 42 "asx" 14 9 25) (mkPtok 4 "=" 14 13 26) (VString (mkSpan (mkPtok 31 (string_of_bytes [34; 195; 169; 116; 195; 169; 34]%N) 14 15 27) (mkPtok 31 (string_of_bytes [34; 195; 169; 116; 195; 169; 34]%N) 14 15 27)) (mkPtok 31 (string_of_bytes [34; 195; 169; 116; 195; 169; 34]%N) 14 15 27)) (Some (mkPtok 41 ";" 14 21 28)))] (mkPtok 3 "}" 15 0 30))); (DPacket (mkPacketDef (mkSpan (mkPtok 35 "packet" 16 4 31) (mkPtok 3 "}" 23 17 51)) None (mkPtok 35 "packet" 16 4 31) (mkPtok 42 "_x" 16 11 32) (mkPtok 2 "{" 17 0 34) [(mkFieldWithAttr (mkSpan (mkPtok 36 "repeat" 18 0 35) (mkPtok 40 "," 23 15 50)) [] (InerObjectField (mkSpan (mkPtok 36 "repeat" 18 0 35) (mkPtok 40 "," 23 15 50)) (Some (mkPtok 36 "repeat" 18 0 35)) (InerObjectDecl (mkSpan (mkPtok 42 "o" 19 0 36) (mkPtok 3 "}" 23 13 49)) (mkPtok 42 "o" 19 0 36) (mkPtok 2 "{" 19 3 37) [(CheckSumField (mkSpan (mkPtok 12 "char[" 19 5 38) (mkPtok 40 "," 22 2 45)) (mkChecksumFieldDecl (mkSpan (mkPtok 12 "char[" 19 5 38) (mkPtok 40 "," 22 2 45)) (Some (TyFixed (mkSpan (mkPtok 12 "char[" 19 5 38) (mkPtok 13 "]" 20 0 40)) (mkFixedString (mkSpan (mkPtok 12 "char[" 19 5 38) (mkPtok 13 "]" 20 0 40)) (mkPtok 12 "char[" 19 5 38) (mkPtok 30 "00" 19 11 39) (mkPtok 13 "]" 20 0 40)))) (mkPtok 42 "f32a" 20 2 41) (mkCalculatedFrom (mkSpan (mkPtok 5 "@calculatedFrom(" 20 6 42) (mkPtok 6 ")" 22 0 44)) (mkPtok 5 "@calculatedFrom(" 20 6 42) (mkPtok 31 """""" 21 4 43) (mkPtok 6 ")" 22 0 44)) None (mkPtok 40 "," 22 2 45))); (ObjectField (mkSpan (mkPtok 42 "f32a" 23 0 46) (mkPtok 40 "," 23 11 48)) None (mkPtok 42 "f32a" 23 0 46) None (Some (mkPtok 43 "`a\`" 23 5 47)) (mkPtok 40 "," 23 11 48))] (mkPtok 3 "}" 23 13 49)) (mkPtok 40 "," 23 15 50)))] (mkPtok 3 "}" 23 17 51))); (DPacket (mkPacketDef (mkSpan (mkPtok 35 "packet" 23 18 52) (mkPtok 3 "}" 24 0 55)) None (mkPtok 35 "packet" 23 18 52) (mkPtok 42 "falsey" 23 25 53) (mkPtok 2 "{" 23 32 54) [] (mkPtok 3 "}" 24 0 55))); (DPacket (mkPacketDef (mkSpan (mkPtok 35 "packet" 24 2 56) (mkPtok 3 "}" 34 2 95)) None (mkPtok 35 "packet" 24 2 56) (mkPtok 42 "Z9_" 24 9 57) (mkPtok 2 "{" 25 0 58) [(mkFieldWithAttr (mkSpan (mkPtok 9 "@tag(" 25 2 59) (mkPtok 40 "," 28 26 77)) [(FATag (mkSpan (mkPtok 9 "@tag(" 25 2 59) (mkPtok 6 ")" 25 10 61)) (mkTagAttr (mkSpan (mkPtok 9 "@tag(" 25 2 59) (mkPtok 6 ")" 25 10 61)) (mkPtok 9 "@tag(" 25 2 59) (mkPtok 30 "0" 25 8 60) (mkPtok 6 ")" 25 10 61))); (FACalculatedFrom (mkSpan (mkPtok 5 "@calculatedFrom(" 25 12 62) (mkPtok 6 ")" 25 38 64)) (mkCalculatedFrom (mkSpan (mkPtok 5 "@calculatedFrom(" 25 12 62) (mkPtok 6 ")" 25 38 64)) (mkPtok 5 "@calculatedFrom(" 25 12 62) (mkPtok 31 """`tick`""" 25 29 63) (mkPtok 6 ")" 25 38 64))); (FATag (mkSpan (mkPtok 9 "@tag(" 27 4 66) (mkPtok 6 ")" 27 13 68)) (mkTagAttr (mkSpan (mkPtok 9 "@tag(" 27 4 66) (mkPtok 6 ")" 27 13 68)) (mkPtok 9 "@tag(" 27 4 66) (mkPtok 30 "00" 27 10 67) (mkPtok 6 ")" 27 13 68)))] (CheckSumField (mkSpan (mkPtok 12 "char[" 27 15 69) (mkPtok 40 "," 28 26 77)) (mkChecksumFieldDecl (mkSpan (mkPtok 12 "char[" 27 15 69) (mkPtok 40 "," 28 26 77)) (Some (TyFixed (mkSpan (mkPtok 12 "char[" 27 15 69) (mkPtok 13 "]" 28 0 72)) (mkFixedString (mkSpan (mkPtok 12 "char[" 27 15 69) (mkPtok 13 "]" 28 0 72)) (mkPtok 12 "char[" 27 15 69) (mkPtok 30 "3" 27 21 70) (mkPtok 13 "]" 28 0 72)))) (mkPtok 42 "x" 28 2 73) (mkCalculatedFrom (mkSpan (mkPtok 5 "@calculatedFrom(" 28 4 74) (mkPtok 6 ")" 28 24 76)) (mkPtok 5 "@calculatedFrom(" 28 4 74) (mkPtok 31 """""" 28 21 75) (mkPtok 6 ")" 28 24 76)) None (mkPtok 40 "," 28 26 77)))); (mkFieldWithAttr (mkSpan (mkPtok 42 "Pad" 31 0 80) (mkPtok 40 "," 31 28 84)) [] (CheckSumField (mkSpan (mkPtok 42 "Pad" 31 0 80) (mkPtok 40 "," 31 28 84)) (mkChecksumFieldDecl (mkSpan (mkPtok 42 "Pad" 31 0 80) (mkPtok 40 "," 31 28 84)) None (mkPtok 42 "Pad" 31 0 80) (mkCalculatedFrom (mkSpan (mkPtok 5 "@calculatedFrom(" 31 5 81) (mkPtok 6 ")" 31 26 83)) (mkPtok 5 "@calculatedFrom(" 31 5 81) (mkPtok 31 (string_of_bytes [34; 92; 195; 169; 34]%N) 31 22 82) (mkPtok 6 ")" 31 26 83)) None (mkPtok 40 "," 31 28 84)))); (mkFieldWithAttr (mkSpan (mkPtok 32 "@rightPad" 31 29 85) (mkPtok 40 "," 34 0 94)) [(FAPadding (mkSpan (mkPtok 32 "@rightPad" 31 29 85) (mkPtok 6 ")" 31 46 88)) (mkPaddingAttr (mkSpan (mkPtok 32 "@rightPad" 31 29 85) (mkPtok 6 ")" 31 46 88)) (mkPtok 32 "@rightPad" 31 29 85) (mkPtok 8 "(" 31 39 86) (Some (mkPtok 33 "'0'" 31 42 87)) (mkPtok 6 ")" 31 46 88)))] (LengthField (mkSpan (mkPtok 16 "char[]" 31 48 89) (mkPtok 40 "," 34 0 94)) (mkLengthFieldDecl (mkSpan (mkPtok 16 "char[]" 31 48 89) (mkPtok 40 "," 34 0 94)) (Some (TyDynamic (mkSpan (mkPtok 16 "char[]" 31 48 89) (mkPtok 16 "char[]" 31 48 89)) (mkDynamicString (mkSpan (mkPtok 16 "char[]" 31 48 89) (mkPtok 16 "char[]" 31 48 89)) (mkPtok 16 "char[]" 31 48 89)))) (mkPtok 42 "trueish" 32 4 90) (mkLengthOf (mkSpan (mkPtok 7 "@lengthOf(" 32 12 91) (mkPtok 6 ")" 33 0 93)) (mkPtok 7 "@lengthOf(" 32 12 91) (mkPtok 42 "packetx" 32 23 92) (mkPtok 6 ")" 33 0 93)) None (mkPtok 40 "," 34 0 94))))] (mkPtok 3 "}" 34 2 95)))])).
Eval vm_compute in ("<<<M1494>>>" ++ check (runes_of_ascii "root packet
//	t
/// triple
calculatedFrom { char[0 ]
Packet, }
")).
Eval vm_compute in ("<<<M1526>>>" ++ check (runes_of_ascii "
packet charz { body{  zchar { repeat tag o ,} , int64
    x ,
    } , }
")).
Eval vm_compute in ("<<<M1558>>>" ++ check (runes_of_ascii "// " ++ [128512]%N ++ runes_of_ascii " emoji
packet u128 {crc , @tag( 255
    )
@calculatedFrom( ""abc"" )As
, @lengthOf( //x
Pad
    ) options1
    //
    `two words`
    , }")).
Eval vm_compute in ("<<<M1590>>>" ++ check (runes_of_ascii "packet  packetx {@lengthOf( stringy ) repeat zchar[00
] lengthOf, repeat
    body pack `` , int64 leftPad ,
} root packet MetaDataX{crc uint8x//
, @tag( 65535) @leftPad (	)
    tag
{ msg_type crc  ,	}
, u8x @lengthOf(zchar	) `u8 x,`
    // trailing space 
    ,@lengthOf(a1
    ) @tag( 42  ) match chars as BodyLength
{// a // b
00 :
BodyLength""x y"":packetx , 3 : uint8x} , }
packet x { @tag( 1 )int16 As @lengthOf(
leftPad ) `a\` ,
    // c
    metadata `say ""hi""`
    , @lengthOf(
    o )string
Logon@calculatedFrom( ""{,}"") `doc` , }
")).
Eval vm_compute in ("<<<M1622>>>" ++ check (runes_of_ascii "root
    packet body // @lengthOf(
{
} root
    packet int
    {
} options
{ MetaDataX =u32 x =""1"" ; }packet Z9_{ repeatCount @lengthOf(i64_
)  ,
@lengthOf( Logon) match
    asx // @lengthOf(
as // packet A { u8 x, }
crc {
0123456789: charz,	""\" ++ [233]%N ++ runes_of_ascii """  :
    A 00
    :Packet ,[
""// no comment""
] : Header ,},@calculatedFrom(	""abc"" ) string As `tab	here` , }

")).
Eval vm_compute in ("<<<M1654>>>" ++ check (runes_of_ascii "MetaData
u8x {	u64 calculatedFrom
,
    }MetaData Packet { Foo Logon	, } MetaData tag{ }
")).
Eval vm_compute in ("<<<M1686>>>" ++ check (runes_of_ascii "packet repeatCount{ char[ 7 ] /// triple
pack ,	@tag(
7 ) repeat//
uint8x roots , @tag( 255 ) repeat
    u32 matchKey `two words` ,
@lengthOf(
_x// @lengthOf(
)
    repeat char[]// a // b
i64_ //x
`tab	here`
// `tick` ""quote"" 'q'
// " ++ [128512]%N ++ runes_of_ascii " emoji
,
    } 	 ")).
Eval vm_compute in ("<<<T1686>>>" ++ terms [mkTok 35 "packet" 1 0 false; mkTok 42 "repeatCount" 1 7 false; mkTok 2 "{" 1 18 false; mkTok 12 "char[" 1 20 false; mkTok 30 "7" 1 26 false; mkTok 13 "]" 1 28 false; mkTok 44 "/// triple" 1 30 true; mkTok 42 "pack" 2 0 false; mkTok 40 "," 2 5 false; mkTok 9 "@tag(" 2 7 false; mkTok 30 "7" 3 0 false; mkTok 6 ")" 3 2 false; mkTok 36 "repeat" 3 4 false; mkTok 44 "//" 3 10 true; mkTok 42 "uint8x" 4 0 false; mkTok 42 "roots" 4 7 false; mkTok 40 "," 4 13 false; mkTok 9 "@tag(" 4 15 false; mkTok 30 "255" 4 21 false; mkTok 6 ")" 4 25 false; mkTok 36 "repeat" 4 27 false; mkTok 22 "u32" 5 4 false; mkTok 42 "matchKey" 5 8 false; mkTok 43 "`two words`" 5 17 false; mkTok 40 "," 5 29 false; mkTok 7 "@lengthOf(" 6 0 false; mkTok 42 "_x" 7 0 false; mkTok 44 "// @lengthOf(" 7 2 true; mkTok 6 ")" 8 0 false; mkTok 36 "repeat" 9 4 false; mkTok 16 "char[]" 9 11 false; mkTok 44 "// a // b" 9 17 true; mkTok 42 "i64_" 10 0 false; mkTok 44 "//x" 10 5 true; mkTok 43 (string_of_bytes [96; 116; 97; 98; 9; 104; 101; 114; 101; 96]%N) 11 0 false; mkTok 44 "// `tick` ""quote"" 'q'" 12 0 true; mkTok 44 (string_of_bytes [47; 47; 32; 240; 159; 152; 128; 32; 101; 109; 111; 106; 105]%N) 13 0 true; mkTok 40 "," 14 0 false; mkTok 3 "}" 15 4 false; mkTok 0 "<EOF>" 15 8 false] (mkPacket (mkPtok 35 "packet" 1 0 0) (Some (mkPtok 3 "}" 15 4 38)) [(DPacket (mkPacketDef (mkSpan (mkPtok 35 "packet" 1 0 0) (mkPtok 3 "}" 15 4 38)) None (mkPtok 35 "packet" 1 0 0) (mkPtok 42 "repeatCount" 1 7 1) (mkPtok 2 "{" 1 18 2) [(mkFieldWithAttr (mkSpan (mkPtok 12 "char[" 1 20 3) (mkPtok 40 "," 2 5 8)) [] (MetaField (mkSpan (mkPtok 12 "char[" 1 20 3) (mkPtok 40 "," 2 5 8)) None (mkMetaDecl (mkSpan (mkPtok 12 "char[" 1 20 3) (mkPtok 40 "," 2 5 8)) (TyFixed (mkSpan (mkPtok 12 "char[" 1 20 3) (mkPtok 13 "]" 1 28 5)) (mkFixedString (mkSpan (mkPtok 12 "char[" 1 20 3) (mkPtok 13 "]" 1 28 5)) (mkPtok 12 "char[" 1 20 3) (mkPtok 30 "7" 1 26 4) (mkPtok 13 "]" 1 28 5))) (mkPtok 42 "pack" 2 0 7) None (mkPtok 40 "," 2 5 8)))); (mkFieldWithAttr (mkSpan (mkPtok 9 "@tag(" 2 7 9) (mkPtok 40 "," 4 13 16)) [(FATag (mkSpan (mkPtok 9 "@tag(" 2 7 9) (mkPtok 6 ")" 3 2 11)) (mkTagAttr (mkSpan (mkPtok 9 "@tag(" 2 7 9) (mkPtok 6 ")" 3 2 11)) (mkPtok 9 "@tag(" 2 7 9) (mkPtok 30 "7" 3 0 10) (mkPtok 6 ")" 3 2 11)))] (ObjectField (mkSpan (mkPtok 36 "repeat" 3 4 12) (mkPtok 40 "," 4 13 16)) (Some (mkPtok 36 "repeat" 3 4 12)) (mkPtok 42 "uint8x" 4 0 14) (Some (mkPtok 42 "roots" 4 7 15)) None (mkPtok 40 "," 4 13 16))); (mkFieldWithAttr (mkSpan (mkPtok 9 "@tag(" 4 15 17) (mkPtok 40 "," 5 29 24)) [(FATag (mkSpan (mkPtok 9 "@tag(" 4 15 17) (mkPtok 6 ")" 4 25 19)) (mkTagAttr (mkSpan (mkPtok 9 "@tag(" 4 15 17) (mkPtok 6 ")" 4 25 19)) (mkPtok 9 "@tag(" 4 15 17) (mkPtok 30 "255" 4 21 18) (mkPtok 6 ")" 4 25 19)))] (MetaField (mkSpan (mkPtok 36 "repeat" 4 27 20) (mkPtok 40 "," 5 29 24)) (Some (mkPtok 36 "repeat" 4 27 20)) (mkMetaDecl (mkSpan (mkPtok 22 "u32" 5 4 21) (mkPtok 40 "," 5 29 24)) (TyBasic (mkSpan (mkPtok 22 "u32" 5 4 21) (mkPtok 22 "u32" 5 4 21)) (mkBasicType (mkSpan (mkPtok 22 "u32" 5 4 21) (mkPtok 22 "u32" 5 4 21)) (mkPtok 22 "u32" 5 4 21))) (mkPtok 42 "matchKey" 5 8 22) (Some (mkPtok 43 "`two words`" 5 17 23)) (mkPtok 40 "," 5 29 24)))); (mkFieldWithAttr (mkSpan (mkPtok 7 "@lengthOf(" 6 0 25) (mkPtok 40 "," 14 0 37)) [(FALengthOf (mkSpan (mkPtok 7 "@lengthOf(" 6 0 25) (mkPtok 6 ")" 8 0 28)) (mkLengthOf (mkSpan (mkPtok 7 "@lengthOf(" 6 0 25) (mkPtok 6 ")" 8 0 28)) (mkPtok 7 "@lengthOf(" 6 0 25) (mkPtok 42 "_x" 7 0 26) (mkPtok 6 ")" 8 0 28)))] (MetaField (mkSpan (mkPtok 36 "repeat" 9 4 29) (mkPtok 40 "," 14 0 37)) (Some (mkPtok 36 "repeat" 9 4 29)) (mkMetaDecl (mkSpan (mkPtok 16 "char[]" 9 11 30) (mkPtok 40 "," 14 0 37)) (TyDynamic (mkSpan (mkPtok 16 "char[]" 9 11 30) (mkPtok 16 "char[]" 9 11 30)) (mkDynamicString (mkSpan (mkPtok 16 "char[]" 9 11 30) (mkPtok 16 "char[]" 9 11 30)) (mkPtok 16 "char[]" 9 11 30))) (mkPtok 42 "i64_" 10 0 32) (Some (mkPtok 43 (string_of_bytes [96; 116; 97; 98; 9; 104; 101; 114; 101; 96]%N) 11 0 34)) (mkPtok 40 "," 14 0 37))))] (mkPtok 3 "}" 15 4 38)))])).
Eval vm_compute in ("<<<M1718>>>" ++ check (runes_of_ascii "
packet body{ stringy{
repeatCount @lengthOf(
float )
, // " ++ [27880; 37322]%N ++ runes_of_ascii "
asx options1
// " ++ [27880; 37322]%N ++ runes_of_ascii "
// @lengthOf(
,charz `tab	here`
/// triple
// " ++ [128512]%N ++ runes_of_ascii " emoji
,repeat /// triple
f32 Foo
,}
,
    }")).
Eval vm_compute in ("<<<M1750>>>" ++ check (runes_of_ascii "
")).
Eval vm_compute in ("<<<M1782>>>" ++ check (runes_of_ascii "options
    {stringy
=	7 ; }")).
Eval vm_compute in ("<<<M1814>>>" ++ check (runes_of_ascii "options { i64_ = char[ 4294967296
    ];trueish
= //x
""CRC32""
    Pad
    =/// triple
float32 Pad = """ ++ [128512]%N ++ runes_of_ascii """ ; // a // b
f32a = zchar[00
]
//x
// " ++ [27880; 37322]%N ++ runes_of_ascii "
;
    } packet repeatCount { @lengthOf(trueish ) char[65535 ]x_y_z	@lengthOf( Header
)
    `say ""hi""`, repeat crc
, match
uint8x
as
    // @lengthOf(
    _x {
[ ""\" ++ [233]%N ++ runes_of_ascii """ ]
    // " ++ [128512]%N ++ runes_of_ascii " emoji
    : int ,"""": T, """" : tag
// @lengthOf(
// " ++ [27880; 37322]%N ++ runes_of_ascii "
,}, repeat char[ 4294967296]  chars
,
char[
00
] pack , charz ,
    @tag( 10
    // trailing space 
    )	char[]
//x
// " ++ [128512]%N ++ runes_of_ascii " emoji
u128@calculatedFrom(""a	b"" ) , char[
3]
Logon@lengthOf(Packet
    )`" ++ [233]%N ++ runes_of_ascii "`,crc  ,
    char  _x`crlf
line` , }	MetaData
asx {
    T Logon ,u32
chars, i32	stringy
    `tab	here`	,string metadata  ,	repeatCount Logon
    //
    , u32 falsey
,
}
MetaData	float { // packet A { u8 x, }
zchar[3
    ] T , }options
{ float = zchar[ 3 ]; lengthOf =false ; f32a
=// c
""// no comment"" ; } 	 ")).
Eval vm_compute in ("<<<M1846>>>" ++ check (runes_of_ascii "//
packet float
{  @calculatedFrom( """ ++ [233]%N ++ runes_of_ascii "t" ++ [233]%N ++ runes_of_ascii """ ) @lengthOf( calculatedFrom) zchar[// " ++ [128512]%N ++ runes_of_ascii " emoji
7	]
stringy	@calculatedFrom(""it's""
// `tick` ""quote"" 'q'
// `tick` ""quote"" 'q'
)
`it's`
, }
root
    packet MetaDataX{ } root packet i64_ {u falsey , }")).
Eval vm_compute in ("<<<M1878>>>" ++ check (runes_of_ascii "packet
x {
}  packet	MetaDataX {
    }
")).
Eval vm_compute in ("<<<M1910>>>" ++ check (@nil rune)).
Eval vm_compute in ("<<<T1910>>>" ++ terms [mkTok 0 "<EOF>" 1 0 false] (mkPacket (mkPtok 0 "<EOF>" 1 0 0) None [])).
Eval vm_compute in ("<<<M1942>>>" ++ check (runes_of_ascii "options { falsey = 10 ; } packet zchar { @leftPad( '\x00'	) match packetx
    as
rootA
// `tick` ""quote"" 'q'
// trailing space 
{ // @lengthOf(
"""" :a1 [
""CRC32""
    ] // trailing space 
: packetx // " ++ [27880; 37322]%N ++ runes_of_ascii "
""`tick`"" : BodyLength,
}
    ,float32
    int @lengthOf(	Foo ), @leftPad ( '\x00'
    ) zchar[ 10 ]
    roots `{ , }`,  x @lengthOf( x_y_z ) , match
i64_
    as roots
{ 007 : uint8x,  ""abc"" :	len ,//x
} // c
, a1 `it's`, repeat
pack {lengthOf@lengthOf(
string_) , // c
charz ,
// c
// " ++ [128512]%N ++ runes_of_ascii " emoji
u32
    stringy, i64_ `
`
/// triple
// trailing space 
,}// `tick` ""quote"" 'q'
, @calculatedFrom(""\n""
    ) u32 u8x `tab	here`, }
root packet asx {
repeat f64	matchKey // c
`u8 x,` ,
} root
packet string_{ f32 msg_type // trailing space 
`` , @leftPad ( ' ' ) As,
@tag(
    007
)// trailing space 
i32 repeatCount
@calculatedFrom( """ ++ [28040; 24687]%N ++ runes_of_ascii """),
// a // b
// " ++ [27880; 37322]%N ++ runes_of_ascii "
@tag(
    007) leftPad charz , repeatCount `" ++ [28040; 24687; 31867; 22411]%N ++ runes_of_ascii "` , @lengthOf(
stringy )
    @tag(
4294967296 )// a // b
u64 uint8x
@lengthOf( u8x)`crlf
line` , }
    options{ }
")).
Eval vm_compute in ("<<<M1974>>>" ++ check (runes_of_ascii "// " ++ [27880; 37322]%N ++ runes_of_ascii "
packet leftPad  {
}	root packet u8x{@calculatedFrom(	""// no comment"")
    repeat // a // b
T
    , @calculatedFrom(	""x y""
    ) @rightPad( '0'
    )
match
f32a as Z9_ { """ ++ [233]%N ++ runes_of_ascii "t" ++ [233]%N ++ runes_of_ascii """
: i64_ }
, }// c
packet repeatCount{
int64
    //	t
    Foo  `u8 x,`, // `tick` ""quote"" 'q'
}")).
Eval vm_compute in ("<<<M2006>>>" ++ check (runes_of_ascii "root packet SimpleMessage {
    uint16 MsgType `" ++ [28040; 24687; 31867; 22411]%N ++ runes_of_ascii "`,
    string JsonBody `Json" ++ [23383; 31526; 20018; 28040; 24687; 20307]%N ++ runes_of_ascii "`,
}")).
Eval vm_compute in ("<<<M2038>>>" ++ check (runes_of_ascii "options{ i64_ = string")).
Eval vm_compute in ("<<<M2070>>>" ++ check (runes_of_ascii "options{ i64_ = string ; trueish =
    '\x00'
    leftPad = ""a\\"" /// triple
; ; crc
    = 255; uint8x
=
""abc""
    ;}")).
Eval vm_compute in ("<<<M2102>>>" ++ check (runes_of_ascii "options{ i64_ = string ; trueish =
    '\x00'
    leftPad = ""a\\"" /// triple
; crc
    = 255; uint8x
)
""abc""
    ;}")).
Eval vm_compute in ("<<<M2134>>>" ++ check (runes_of_ascii "options{ i64_ = string ; trueish =
    '\x00'
    leftPad = ""a\\"" /// triple
; crc
    = 255; u?int8x
=
""abc""
    ;}")).
Eval vm_compute in ("<<<M2166>>>" ++ check (runes_of_ascii "  packet
asx
{
/// triple
// @lengthOf(
u32 stringy
`" ++ [28040; 24687; 31867; 22411]%N ++ runes_of_ascii "` `" ++ [28040; 24687; 31867; 22411]%N ++ runes_of_ascii "` ,} MetaData
    A {string  _x, zchar Header `a\`
// @lengthOf(
// packet A { u8 x, }
, char[] MetaDataX
,zchar[ 1 ]
    matchKey
    , char[] //
u,	char[0123456789 ]
    matchKey
    `{ , }`, }
")).
Eval vm_compute in ("<<<M2198>>>" ++ check (runes_of_ascii "  packet
asx
{
/// triple
// @lengthOf(
u32 stringy
`" ++ [28040; 24687; 31867; 22411]%N ++ runes_of_ascii "` ,} MetaData
    A {int16  _x, zchar Header `a\`
// @lengthOf(
// packet A { u8 x, }
, char[] MetaDataX
,zchar[ 1 ]
    matchKey
    , char[] //
u,	char[0123456789 ]
    matchKey
    `{ , }`, }
")).
Eval vm_compute in ("<<<M2230>>>" ++ check (runes_of_ascii "  packet
asx
{
/// triple
// @lengthOf(
u32 stringy
`" ++ [28040; 24687; 31867; 22411]%N ++ runes_of_ascii "` ,} MetaData
    A {string  _x, zchar Header `a\`
// @lengthOf(
// packet A { u8 x, }
,  MetaDataX
,zchar[ 1 ]
    matchKey
    , char[] //
u,	char[0123456789 ]
    matchKey
    `{ , }`, }
")).
Eval vm_compute in ("<<<M2262>>>" ++ check (runes_of_ascii "  packet
asx
{
/// triple
// @lengthOf(
u32 stringy
`" ++ [28040; 24687; 31867; 22411]%N ++ runes_of_ascii "` ,} MetaData
    A {string  _x, zchar Header `a\`
// @lengthOf(
// packet A { u8 x, }
, char[] MetaDataX
,zchar[ 1 ]
    ,
    matchKey char[] //
u,	char[0123456789 ]
    matchKey
    `{ , }`, }
")).
Eval vm_compute in ("<<<M2294>>>" ++ check (runes_of_ascii "  packet
asx
{
/// triple
// @lengthOf(
u32 stringy
`" ++ [28040; 24687; 31867; 22411]%N ++ runes_of_ascii "` ,} MetaData
    A {string  _x, zchar Header `a\`
// @lengthOf(
// packet A { u8 x, }
, char[] MetaDataX
,zchar[ 1 ]
    matchKey
    , char[] //
u,	char[")).
Eval vm_compute in ("<<<M2326>>>" ++ check (runes_of_ascii "  packet
asx
{
/// triple
// @lengthOf(
u32 stringy
`" ++ [28040; 24687; 31867; 22411]%N ++ runes_of_ascii "` ,} MetaData
    A {string  _x, zchar Header `a\`
// @lengthOf(
// packet A { u8 x, }
, char[] MetaDataX
,zchar[ 1 @lengthOf]
    matchKey
    , char[] //
u,	char[0123456789 ]
    matchKey
    `{ , }`, }
")).
Eval vm_compute in ("<<<M2358>>>" ++ check (runes_of_ascii "root
    packet
Packet
matchKey // trailing space 
{ `tab	here` ,}")).
Eval vm_compute in ("<<<M2390>>>" ++ check (runes_of_ascii "root
  @x  packet
Packet
{ // trailing space 
matchKey `tab	here` ,}")).
Eval vm_compute in ("<<<M2422>>>" ++ check (runes_of_ascii "options{ falsey // a // b
=
     } options { repeatCount =
true ; string_// a // b
=
// c
// " ++ [27880; 37322]%N ++ runes_of_ascii "
int64
// trailing space 
/// triple
; } // @lengthOf(")).
Eval vm_compute in ("<<<M2454>>>" ++ check (runes_of_ascii "options{ falsey // a // b
=
    '0' } options { repeatCount =
; true string_// a // b
=
// c
// " ++ [27880; 37322]%N ++ runes_of_ascii "
int64
// trailing space 
/// triple
; } // @lengthOf(")).
Eval vm_compute in ("<<<M2486>>>" ++ check (runes_of_ascii "options{ falsey // a // b
=
    '0' } options { repeatCount =
true ; string_// a // b
=
// c
// " ++ [27880; 37322]%N ++ runes_of_ascii "
int64
// trailing space 
/// triple")).
Eval vm_compute in ("<<<M2518>>>" ++ check (runes_of_ascii "options{root packet
metadata {
@lengthOf(x ) float32
body ``, }
    MetaData
Z9_
    {
    string string_ , Logon x
,
uint32
    // packet A { u8 x, }
    Z9_,asx
_x
    `tab	here` , }
")).
Eval vm_compute in ("<<<M2550>>>" ++ check (runes_of_ascii "options{}root packet
metadata {
@lengthOf() x float32
body ``, }
    MetaData
Z9_
    {
    string string_ , Logon x
,
uint32
    // packet A { u8 x, }
    Z9_,asx
_x
    `tab	here` , }
")).
Eval vm_compute in ("<<<M2582>>>" ++ check (runes_of_ascii "options{}root packet
metadata {
@lengthOf(x ) float32
body ``,")).
Eval vm_compute in ("<<<M2614>>>" ++ check (runes_of_ascii "options{}root packet
metadata {
@lengthOf(x ) float32
body ``, }
    MetaData
Z9_
    {
    string string_ , Logon Logon x
,
uint32
    // packet A { u8 x, }
    Z9_,asx
_x
    `tab	here` , }
")).
Eval vm_compute in ("<<<M2646>>>" ++ check (runes_of_ascii "options{}root packet
metadata {
@lengthOf(x ) float32
body ``, }
    MetaData
Z9_
    {
    string string_ , Logon x
,
uint32
    // packet A { u8 x, }
    Z9_,:
_x
    `tab	here` , }
")).
Eval vm_compute in ("<<<M2678>>>" ++ check (runes_of_ascii "options{}root packet
metadata {
@lengthOf(x ) float32
body ``, }
    MetaData
Z9_
    {
    string string_ , Logon x
,
uint32
    // packet A { u8 x, }
    Z9_,asx
" ++ [127]%N ++ runes_of_ascii " _x
    `tab	here` , }
")).
Eval vm_compute in ("<<<M2710>>>" ++ check (runes_of_ascii "options {
    falsey=
""a\\"" ""a\\"" ; }")).
Eval vm_compute in ("<<<M2742>>>" ++ check (runes_of_ascii "options {
    na" ++ [239]%N ++ runes_of_ascii "ve=
""a\\"" ; }")).
Eval vm_compute in ("<<<M2774>>>" ++ check (runes_of_ascii "MetaData f32a
{
    //	t
    }root")).
Eval vm_compute in ("<<<M2806>>>" ++ check (runes_of_ascii "MetaData f32a
{
    //	t
    ' }root
    packet tag  {
}
")).
Eval vm_compute in ("<<<M2838>>>" ++ check (runes_of_ascii "
options
    {msg_type =
    float32  root}
packet Z9_{ char /// triple
crc @lengthOf(
options1 ) //
,} MetaData a1{}
")).
Eval vm_compute in ("<<<M2870>>>" ++ check (runes_of_ascii "
options
    {msg_type =
    float32  }root
packet Z9_{ char")).
Eval vm_compute in ("<<<M2902>>>" ++ check (runes_of_ascii "
options
    {msg_type =
    float32  }root
packet Z9_{ char /// triple
crc @lengthOf(
options1 ) //
,} MetaData a1 a1{}
")).
Eval vm_compute in ("<<<M2934>>>" ++ check (runes_of_ascii "
options
    {caf" ++ [233]%N ++ runes_of_ascii "_1 =
    float32  }root
packet Z9_{ char /// triple
crc @lengthOf(
options1 ) //
,} MetaData a1{}
")).
Eval vm_compute in ("<<<M2966>>>" ++ check (runes_of_ascii "packet crc{ // " ++ [128512]%N ++ runes_of_ascii " emoji
repeat string")).
Eval vm_compute in ("<<<M2998>>>" ++ check (runes_of_ascii "packet crc{ // " ++ [128512]%N ++ runes_of_ascii " emoji
repeat string @lengthOfi8i8
`a\`, }
")).
Eval vm_compute in ("<<<M3030>>>" ++ check (runes_of_ascii "packet BodyLength {} MetaData {zchar zchar[// @lengthOf(
42 ]
    pack , string_
A , char[]crc , _x trueish ,
// " ++ [27880; 37322]%N ++ runes_of_ascii "
// " ++ [128512]%N ++ runes_of_ascii " emoji
zchar[
    3 ]	T // trailing space 
, } packet body
{
    }
")).
Eval vm_compute in ("<<<M3062>>>" ++ check (runes_of_ascii "packet BodyLength {} MetaData zchar{ zchar[// @lengthOf(
42 ]
    pack")).
Eval vm_compute in ("<<<M3094>>>" ++ check (runes_of_ascii "packet BodyLength {} MetaData zchar{ zchar[// @lengthOf(
42 ]
    pack , string_
A , char[]crc , _x _x trueish ,
// " ++ [27880; 37322]%N ++ runes_of_ascii "
// " ++ [128512]%N ++ runes_of_ascii " emoji
zchar[
    3 ]	T // trailing space 
, } packet body
{
    }
")).
Eval vm_compute in ("<<<M3126>>>" ++ check (runes_of_ascii "packet BodyLength {} MetaData zchar{ zchar[// @lengthOf(
42 ]
    pack , string_
A , char[]crc , _x trueish ,
// " ++ [27880; 37322]%N ++ runes_of_ascii "
// " ++ [128512]%N ++ runes_of_ascii " emoji
zchar[
    3 ]	true // trailing space 
, } packet body
{
    }
")).
Eval vm_compute in ("<<<M3158>>>" ++ check (runes_of_ascii "packe")).
Eval vm_compute in ("<<<M3190>>>" ++ check (runes_of_ascii "packet
string_ { {@lengthOf( int ) match packetx as f32a {
    1 :	calculatedFrom , }  ,
    } packet len
    //	t
    { @calculatedFrom( """ ++ [233]%N ++ runes_of_ascii "t" ++ [233]%N ++ runes_of_ascii """ ) body Header , char[] lengthOf  `two words` ,chars{repeat string_ matchKey ,
    } ,
    }
")).
Eval vm_compute in ("<<<M3222>>>" ++ check (runes_of_ascii "packet
string_ {@lengthOf( int ) match packetx char f32a {
    1 :	calculatedFrom , }  ,
    } packet len
    //	t
    { @calculatedFrom( """ ++ [233]%N ++ runes_of_ascii "t" ++ [233]%N ++ runes_of_ascii """ ) body Header , char[] lengthOf  `two words` ,chars{repeat string_ matchKey ,
    } ,
    }
")).
Eval vm_compute in ("<<<M3254>>>" ++ check (runes_of_ascii "packet
string_ {@lengthOf( int ) match packetx as f32a {
    1 :	calculatedFrom ,   ,
    } packet len
    //	t
    { @calculatedFrom( """ ++ [233]%N ++ runes_of_ascii "t" ++ [233]%N ++ runes_of_ascii """ ) body Header , char[] lengthOf  `two words` ,chars{repeat string_ matchKey ,
    } ,
    }
")).
Eval vm_compute in ("<<<M3286>>>" ++ check (runes_of_ascii "packet
string_ {@lengthOf( int ) match packetx as f32a {
    1 :	calculatedFrom , }  ,
    } packet len
    //	t
    { """ ++ [233]%N ++ runes_of_ascii "t" ++ [233]%N ++ runes_of_ascii """ @calculatedFrom( ) body Header , char[] lengthOf  `two words` ,chars{repeat string_ matchKey ,
    } ,
    }
")).
Eval vm_compute in ("<<<M3318>>>" ++ check (runes_of_ascii "packet
string_ {@lengthOf( int ) match packetx as f32a {
    1 :	calculatedFrom , }  ,
    } packet len
    //	t
    { @calculatedFrom( """ ++ [233]%N ++ runes_of_ascii "t" ++ [233]%N ++ runes_of_ascii """ ) body Header ,")).
Eval vm_compute in ("<<<M3350>>>" ++ check (runes_of_ascii "packet
string_ {@lengthOf( int ) match packetx as f32a {
    1 :	calculatedFrom , }  ,
    } packet len
    //	t
    { @calculatedFrom( """ ++ [233]%N ++ runes_of_ascii "t" ++ [233]%N ++ runes_of_ascii """ ) body Header , char[] lengthOf  `two words` ,chars{repeat string_ string_ matchKey ,
    } ,
    }
")).
Eval vm_compute in ("<<<M3382>>>" ++ check (runes_of_ascii "packet
string_ {@lengthOf( int ) match packetx as f32a {
    1 :	calculate")).
Eval vm_compute in ("<<<M3414>>>" ++ check (runes_of_ascii "/// triple
root
packet // packet A { u8 x, }
chars { @lengthOf(charz )
stringy,  @tag(  0 ) // a // b
asx
    As
,
// trailing space 
// trailing space 
x_y_z {
repeat i16 charz , } MetaData	int16  crc ,}
")).
Eval vm_compute in ("<<<M3446>>>" ++ check (runes_of_ascii "/// triple
root
packet // packet A { u8 x, }
chars { @lengthOf(charz )
stringy char[]  @tag(  0 ) // a // b
asx
    As
,
// trailing space 
// trailing space 
x_y_z {
repeat i16 charz , } ,	int16  crc ,}
")).
Eval vm_compute in ("<<<M3478>>>" ++ check (runes_of_ascii "/// triple
root
packet // packet A { u8 x, }
chars { @lengthOf(charz )
stringy,  @tag(  0 ) // a // b
asx
    As
,
// trailing space 
// trailing space 
x_y_z {
repeat i16 charz , " ++ [65279]%N ++ runes_of_ascii " } ,	int16  crc ,}
")).
Eval vm_compute in ("<<<M3510>>>" ++ check (runes_of_ascii "int8 int16 int32 int64 int")).
Eval vm_compute in ("<<<M3542>>>" ++ check (runes_of_ascii "''")).
Eval vm_compute in ("<<<M3574>>>" ++ check (runes_of_ascii """a")).
Eval vm_compute in ("<<<M3606>>>" ++ check (runes_of_ascii ": , ; = ( ) [ ] { }")).
Eval vm_compute in ("<<<M3638>>>" ++ check (runes_of_ascii "packet A { x y, }")).
Eval vm_compute in ("<<<T3638>>>" ++ terms [mkTok 35 "packet" 1 0 false; mkTok 42 "A" 1 7 false; mkTok 2 "{" 1 9 false; mkTok 42 "x" 1 11 false; mkTok 42 "y" 1 13 false; mkTok 40 "," 1 14 false; mkTok 3 "}" 1 16 false; mkTok 0 "<EOF>" 1 17 false] (mkPacket (mkPtok 35 "packet" 1 0 0) (Some (mkPtok 3 "}" 1 16 6)) [(DPacket (mkPacketDef (mkSpan (mkPtok 35 "packet" 1 0 0) (mkPtok 3 "}" 1 16 6)) None (mkPtok 35 "packet" 1 0 0) (mkPtok 42 "A" 1 7 1) (mkPtok 2 "{" 1 9 2) [(mkFieldWithAttr (mkSpan (mkPtok 42 "x" 1 11 3) (mkPtok 40 "," 1 14 5)) [] (ObjectField (mkSpan (mkPtok 42 "x" 1 11 3) (mkPtok 40 "," 1 14 5)) None (mkPtok 42 "x" 1 11 3) (Some (mkPtok 42 "y" 1 13 4)) None (mkPtok 40 "," 1 14 5)))] (mkPtok 3 "}" 1 16 6)))])).
Eval vm_compute in ("<<<M3670>>>" ++ check (runes_of_ascii "packet A { match k as n { 1 : B } }")).
Eval vm_compute in ("<<<M3702>>>" ++ check (runes_of_ascii "packet A {")).
Eval vm_compute in ("<<<M3734>>>" ++ check (runes_of_ascii "options { a = true; b = false; c = '0'; d = ""s""; e = 007; }")).
Eval vm_compute in ("<<<M3766>>>" ++ check (runes_of_ascii "= uint8x 1 @lengthOf(")).
Eval vm_compute in ("<<<M3798>>>" ++ check (runes_of_ascii "f64 , ( } @tag( float32 @tag( root MetaData '\x00'")).
Eval vm_compute in ("<<<M3830>>>" ++ check (runes_of_ascii "`say ""hi""` zchar[ @rightPad")).
Eval vm_compute in ("<<<M3862>>>" ++ check (runes_of_ascii "u32 char[] ) false int64")).
Eval vm_compute in ("<<<M3894>>>" ++ check (runes_of_ascii "@lengthOf( @calculatedFrom( ( u64 char = zchar[ [ uint64 , ( repeat")).
Eval vm_compute in ("<<<M3926>>>" ++ check (runes_of_ascii "uint8 '\x00' ' ' true root MetaData f64 as ) f64")).
Eval vm_compute in ("<<<M3958>>>" ++ check (runes_of_ascii "char[] 255 packet = root '\x00' u8 , true u32 repeat @calculatedFrom( = as")).
Eval vm_compute in ("<<<M3990>>>" ++ check (runes_of_ascii "i64 zchar[ 65535 ""CRC32"" ,")).
