From FP Require Import Lexer Parser ShowPT Digest.
From Coq Require Import String List NArith.
Import ListNotations.
Open Scope string_scope.
Set Printing Width 100000000.
Set Printing Depth 100000000.
Definition nl : string := String (Ascii.ascii_of_nat 10) EmptyString.
Definition model_lex (rs : list rune) : string := show_toks (lex rs).
Definition model_parse (rs : list rune) : string :=
  show_pt (match lex rs with Some ts => parse ts | None => None end).
(* coqc is slow at printing long strings: digests first (Digest.v), full texts on demand *)
Definition check (rs : list rune) : string :=
  digest (model_lex rs) ++ " " ++ digest (model_parse rs).
Definition full (rs : list rune) : string := model_lex rs ++ nl ++ model_parse rs.
Definition terms (ts : list tok) (t : pt) : string :=
  digest (show_toks (Some ts)) ++ " " ++ digest (show_pt (Some t)) ++ " " ++ digest (show_pt (parse ts)).
Definition terms_full (ts : list tok) (t : pt) : string :=
  show_toks (Some ts) ++ nl ++ show_pt (Some t) ++ nl ++ show_pt (parse ts).
Eval vm_compute in ("<<<M26>>>" ++ check (runes_of_ascii "packet len
{
} MetaData crc	{ }")).
Eval vm_compute in ("<<<M58>>>" ++ check (@nil rune)).
Eval vm_compute in ("<<<M90>>>" ++ check (runes_of_ascii "packet metadata { // trailing space 
roots
uint8x , @leftPad
    ( )zchar[
3
] Header,
    i64_ roots , @lengthOf( A)
    // " ++ [128512]%N ++ runes_of_ascii " emoji
    @lengthOf( // trailing space 
pack
) @lengthOf( calculatedFrom
// a // b
/// triple
)
    // trailing space 
    u8 charz `crlf
line` , }")).
Eval vm_compute in ("<<<T90>>>" ++ terms [mkTok 35 "packet" 1 0 false; mkTok 42 "metadata" 1 7 false; mkTok 2 "{" 1 16 false; mkTok 44 "// trailing space " 1 18 true; mkTok 42 "roots" 2 0 false; mkTok 42 "uint8x" 3 0 false; mkTok 40 "," 3 7 false; mkTok 32 "@leftPad" 3 9 false; mkTok 8 "(" 4 4 false; mkTok 6 ")" 4 6 false; mkTok 14 "zchar[" 4 7 false; mkTok 30 "3" 5 0 false; mkTok 13 "]" 6 0 false; mkTok 42 "Header" 6 2 false; mkTok 40 "," 6 8 false; mkTok 42 "i64_" 7 4 false; mkTok 42 "roots" 7 9 false; mkTok 40 "," 7 15 false; mkTok 7 "@lengthOf(" 7 17 false; mkTok 42 "A" 7 28 false; mkTok 6 ")" 7 29 false; mkTok 44 (string_of_bytes [47; 47; 32; 240; 159; 152; 128; 32; 101; 109; 111; 106; 105]%N) 8 4 true; mkTok 7 "@lengthOf(" 9 4 false; mkTok 44 "// trailing space " 9 15 true; mkTok 42 "pack" 10 0 false; mkTok 6 ")" 11 0 false; mkTok 7 "@lengthOf(" 11 2 false; mkTok 42 "calculatedFrom" 11 13 false; mkTok 44 "// a // b" 12 0 true; mkTok 44 "/// triple" 13 0 true; mkTok 6 ")" 14 0 false; mkTok 44 "// trailing space " 15 4 true; mkTok 20 "u8" 16 4 false; mkTok 42 "charz" 16 7 false; mkTok 43 (string_of_bytes [96; 99; 114; 108; 102; 13; 10; 108; 105; 110; 101; 96]%N) 16 13 false; mkTok 40 "," 17 6 false; mkTok 3 "}" 17 8 false; mkTok 0 "<EOF>" 17 9 false] (mkPacket (mkPtok 35 "packet" 1 0 0) (Some (mkPtok 3 "}" 17 8 36)) [(DPacket (mkPacketDef (mkSpan (mkPtok 35 "packet" 1 0 0) (mkPtok 3 "}" 17 8 36)) None (mkPtok 35 "packet" 1 0 0) (mkPtok 42 "metadata" 1 7 1) (mkPtok 2 "{" 1 16 2) [(mkFieldWithAttr (mkSpan (mkPtok 42 "roots" 2 0 4) (mkPtok 40 "," 3 7 6)) [] (ObjectField (mkSpan (mkPtok 42 "roots" 2 0 4) (mkPtok 40 "," 3 7 6)) None (mkPtok 42 "roots" 2 0 4) (Some (mkPtok 42 "uint8x" 3 0 5)) None (mkPtok 40 "," 3 7 6))); (mkFieldWithAttr (mkSpan (mkPtok 32 "@leftPad" 3 9 7) (mkPtok 40 "," 6 8 14)) [(FAPadding (mkSpan (mkPtok 32 "@leftPad" 3 9 7) (mkPtok 6 ")" 4 6 9)) (mkPaddingAttr (mkSpan (mkPtok 32 "@leftPad" 3 9 7) (mkPtok 6 ")" 4 6 9)) (mkPtok 32 "@leftPad" 3 9 7) (mkPtok 8 "(" 4 4 8) None (mkPtok 6 ")" 4 6 9)))] (MetaField (mkSpan (mkPtok 14 "zchar[" 4 7 10) (mkPtok 40 "," 6 8 14)) None (mkMetaDecl (mkSpan (mkPtok 14 "zchar[" 4 7 10) (mkPtok 40 "," 6 8 14)) (TyFixed (mkSpan (mkPtok 14 "zchar[" 4 7 10) (mkPtok 13 "]" 6 0 12)) (mkFixedString (mkSpan (mkPtok 14 "zchar[" 4 7 10) (mkPtok 13 "]" 6 0 12)) (mkPtok 14 "zchar[" 4 7 10) (mkPtok 30 "3" 5 0 11) (mkPtok 13 "]" 6 0 12))) (mkPtok 42 "Header" 6 2 13) None (mkPtok 40 "," 6 8 14)))); (mkFieldWithAttr (mkSpan (mkPtok 42 "i64_" 7 4 15) (mkPtok 40 "," 7 15 17)) [] (ObjectField (mkSpan (mkPtok 42 "i64_" 7 4 15) (mkPtok 40 "," 7 15 17)) None (mkPtok 42 "i64_" 7 4 15) (Some (mkPtok 42 "roots" 7 9 16)) None (mkPtok 40 "," 7 15 17))); (mkFieldWithAttr (mkSpan (mkPtok 7 "@lengthOf(" 7 17 18) (mkPtok 40 "," 17 6 35)) [(FALengthOf (mkSpan (mkPtok 7 "@lengthOf(" 7 17 18) (mkPtok 6 ")" 7 29 20)) (mkLengthOf (mkSpan (mkPtok 7 "@lengthOf(" 7 17 18) (mkPtok 6 ")" 7 29 20)) (mkPtok 7 "@lengthOf(" 7 17 18) (mkPtok 42 "A" 7 28 19) (mkPtok 6 ")" 7 29 20))); (FALengthOf (mkSpan (mkPtok 7 "@lengthOf(" 9 4 22) (mkPtok 6 ")" 11 0 25)) (mkLengthOf (mkSpan (mkPtok 7 "@lengthOf(" 9 4 22) (mkPtok 6 ")" 11 0 25)) (mkPtok 7 "@lengthOf(" 9 4 22) (mkPtok 42 "pack" 10 0 24) (mkPtok 6 ")" 11 0 25))); (FALengthOf (mkSpan (mkPtok 7 "@lengthOf(" 11 2 26) (mkPtok 6 ")" 14 0 30)) (mkLengthOf (mkSpan (mkPtok 7 "@lengthOf(" 11 2 26) (mkPtok 6 ")" 14 0 30)) (mkPtok 7 "@lengthOf(" 11 2 26) (mkPtok 42 "calculatedFrom" 11 13 27) (mkPtok 6 ")" 14 0 30)))] (MetaField (mkSpan (mkPtok 20 "u8" 16 4 32) (mkPtok 40 "," 17 6 35)) None (mkMetaDecl (mkSpan (mkPtok 20 "u8" 16 4 32) (mkPtok 40 "," 17 6 35)) (TyBasic (mkSpan (mkPtok 20 "u8" 16 4 32) (mkPtok 20 "u8" 16 4 32)) (mkBasicType (mkSpan (mkPtok 20 "u8" 16 4 32) (mkPtok 20 "u8" 16 4 32)) (mkPtok 20 "u8" 16 4 32))) (mkPtok 42 "charz" 16 7 33) (Some (mkPtok 43 (string_of_bytes [96; 99; 114; 108; 102; 13; 10; 108; 105; 110; 101; 96]%N) 16 13 34)) (mkPtok 40 "," 17 6 35))))] (mkPtok 3 "}" 17 8 36)))])).
Eval vm_compute in ("<<<M122>>>" ++ check (runes_of_ascii "// @lengthOf(
packet
trueish { Pad { float @lengthOf( // " ++ [128512]%N ++ runes_of_ascii " emoji
uint8x
    // a // b
    ), float32 x_y_z @calculatedFrom( ""a\\""
// c
// " ++ [128512]%N ++ runes_of_ascii " emoji
), }
,
uint8
matchKey ,
    @leftPad ( ) _x
    @lengthOf( o ) `{ , }` ,roots  { u64 stringy // packet A { u8 x, }
`two words` , repeat
// `tick` ""quote"" 'q'
// c
i8 lengthOf`doc` ,
    } // trailing space 
,pack	`" ++ [233]%N ++ runes_of_ascii "`  , packetx
// " ++ [128512]%N ++ runes_of_ascii " emoji
// trailing space 
pack , repeat packetx
{falsey  @lengthOf(
    _x //	t
)
,}
    , u128@calculatedFrom( ""CRC32""
    // @lengthOf(
    ) ,@tag(
    0123456789)rootA //
@lengthOf( Pad
)
, // `tick` ""quote"" 'q'
}  packet Foo// 50% %s
{  @lengthOf(
    options1// `tick` ""quote"" 'q'
)	repeatCount packetx  , }options { T =255
leftPad =
' ';roots=  ""\n""; } packet asx
//x
/// triple
{ f32a {float32 falsey ,
}, @leftPad ( '\x00' )
    uint16 MetaDataX `crlf
line`
    ,  repeat
    string options1, repeat i32
    leftPad /// triple
`// not a comment` , repeat string // c
stringy `100% of %d`
,
repeat chars  {
string
MetaDataX`100% of %d`, f64 leftPad `crlf
line` , }	,
char[]
    //	t
    metadata//x
,@tag( 10
    // trailing space 
    ) char[] Pad`tab	here` ,
match matchKey as o	{ ""{,}"" : MetaDataX	, [
7 , ""\" ++ [233]%N ++ runes_of_ascii """  ,
3
    ,
""abc""
,10
] :
stringy  ,""\" ++ [233]%N ++ runes_of_ascii """ :  zchar ,
[
    /// triple
    00 ,
// " ++ [128512]%N ++ runes_of_ascii " emoji
// trailing space 
3 ] :charz
,
    ""a\\"":msg_type , } , }")).
Eval vm_compute in ("<<<M154>>>" ++ check (runes_of_ascii "
root  packet	uint8x { // trailing space 
@lengthOf(	a1 )uint64 i8i8
@calculatedFrom(""it's"" ) , repeat float32 a1 ,@tag(
1 ) @tag( 65535 )u32 options1, @lengthOf( i8i8
) @lengthOf( int ) @leftPad ( ) char[42 ]len  @calculatedFrom( ""packet"")	, }
root packet
    u128 {}
")).
Eval vm_compute in ("<<<M186>>>" ++ check (runes_of_ascii "root //x
packet
    charz //	t
{ repeat
zchar[ 65535
]
Packet ,} MetaData
u128
{string uint8x//
, rootA
_x , char[007
    ] uint8x ,
As A
,Header u`line1
line2` , rootA chars `100% of %d` ,}MetaData trueish{ uint8 Logon ,
    // c
    uint8 // `tick` ""quote"" 'q'
float
,//
u/// triple
As
,/// triple
falsey packetx
//	t
// " ++ [128512]%N ++ runes_of_ascii " emoji
, i8i8
    rootA,
    i16 roots `
` ,}")).
Eval vm_compute in ("<<<M218>>>" ++ check (runes_of_ascii "MetaData Header{
}	root packet options1 {
crc metadata`" ++ [233]%N ++ runes_of_ascii "` , }packet A { }root packet
leftPad	{ } MetaData Header { MetaDataX
// packet A { u8 x, }
// 50% %s
i8i8 `u8 x,`,	}
")).
Eval vm_compute in ("<<<M250>>>" ++ check (runes_of_ascii "// " ++ [128512]%N ++ runes_of_ascii " emoji
packet float {
    zchar[
7 ]trueish ,
    // a // b
    }")).
Eval vm_compute in ("<<<M282>>>" ++ check (runes_of_ascii "// `tick` ""quote"" 'q'
MetaData calculatedFrom{ Pad
zchar
, }
")).
Eval vm_compute in ("<<<M314>>>" ++ check (runes_of_ascii "root
packet  int { @calculatedFrom(
    ""abc"") f32
    int @calculatedFrom(
""a\\"" ) ,@lengthOf(i8i8 ) @rightPad (	' '
) @lengthOf( MetaDataX) zchar[	0
// `tick` ""quote"" 'q'
// `tick` ""quote"" 'q'
]A
,@rightPad( '0') u64 A @calculatedFrom(
""abc""
    ) , /// triple
} MetaData Logon{ int32 Header , i8 // packet A { u8 x, }
i64_ ,	x_y_z a1 , trueish pack `crlf
line` , char[ 1] lengthOf , _x BodyLength, } packet asx
    { repeat	body
, @tag( 255 )repeat // packet A { u8 x, }
char[ 3	]
charz `it's`
    //	t
    ,
// c
// " ++ [128512]%N ++ runes_of_ascii " emoji
o @lengthOf(leftPad )  ,  zchar[4294967296 ] body,@leftPad (
'\x00'
    )char u128 ,}
packet chars{ } packet float //x
{ }
")).
Eval vm_compute in ("<<<T314>>>" ++ terms [mkTok 34 "root" 1 0 false; mkTok 35 "packet" 2 0 false; mkTok 42 "int" 2 8 false; mkTok 2 "{" 2 12 false; mkTok 5 "@calculatedFrom(" 2 14 false; mkTok 31 """abc""" 3 4 false; mkTok 6 ")" 3 9 false; mkTok 28 "f32" 3 11 false; mkTok 42 "int" 4 4 false; mkTok 5 "@calculatedFrom(" 4 8 false; mkTok 31 """a\\""" 5 0 false; mkTok 6 ")" 5 6 false; mkTok 40 "," 5 8 false; mkTok 7 "@lengthOf(" 5 9 false; mkTok 42 "i8i8" 5 19 false; mkTok 6 ")" 5 24 false; mkTok 32 "@rightPad" 5 26 false; mkTok 8 "(" 5 36 false; mkTok 33 "' '" 5 38 false; mkTok 6 ")" 6 0 false; mkTok 7 "@lengthOf(" 6 2 false; mkTok 42 "MetaDataX" 6 13 false; mkTok 6 ")" 6 22 false; mkTok 14 "zchar[" 6 24 false; mkTok 30 "0" 6 31 false; mkTok 44 "// `tick` ""quote"" 'q'" 7 0 true; mkTok 44 "// `tick` ""quote"" 'q'" 8 0 true; mkTok 13 "]" 9 0 false; mkTok 42 "A" 9 1 false; mkTok 40 "," 10 0 false; mkTok 32 "@rightPad" 10 1 false; mkTok 8 "(" 10 10 false; mkTok 33 "'0'" 10 12 false; mkTok 6 ")" 10 15 false; mkTok 23 "u64" 10 17 false; mkTok 42 "A" 10 21 false; mkTok 5 "@calculatedFrom(" 10 23 false; mkTok 31 """abc""" 11 0 false; mkTok 6 ")" 12 4 false; mkTok 40 "," 12 6 false; mkTok 44 "/// triple" 12 8 true; mkTok 3 "}" 13 0 false; mkTok 37 "MetaData" 13 2 false; mkTok 42 "Logon" 13 11 false; mkTok 2 "{" 13 16 false; mkTok 26 "int32" 13 18 false; mkTok 42 "Header" 13 24 false; mkTok 40 "," 13 31 false; mkTok 24 "i8" 13 33 false; mkTok 44 "// packet A { u8 x, }" 13 36 true; mkTok 42 "i64_" 14 0 false; mkTok 40 "," 14 5 false; mkTok 42 "x_y_z" 14 7 false; mkTok 42 "a1" 14 13 false; mkTok 40 "," 14 16 false; mkTok 42 "trueish" 14 18 false; mkTok 42 "pack" 14 26 false; mkTok 43 (string_of_bytes [96; 99; 114; 108; 102; 13; 10; 108; 105; 110; 101; 96]%N) 14 31 false; mkTok 40 "," 15 6 false; mkTok 12 "char[" 15 8 false; mkTok 30 "1" 15 14 false; mkTok 13 "]" 15 15 false; mkTok 42 "lengthOf" 15 17 false; mkTok 40 "," 15 26 false; mkTok 42 "_x" 15 28 false; mkTok 42 "BodyLength" 15 31 false; mkTok 40 "," 15 41 false; mkTok 3 "}" 15 43 false; mkTok 35 "packet" 15 45 false; mkTok 42 "asx" 15 52 false; mkTok 2 "{" 16 4 false; mkTok 36 "repeat" 16 6 false; mkTok 42 "body" 16 13 false; mkTok 40 "," 17 0 false; mkTok 9 "@tag(" 17 2 false; mkTok 30 "255" 17 8 false; mkTok 6 ")" 17 12 false; mkTok 36 "repeat" 17 13 false; mkTok 44 "// packet A { u8 x, }" 17 20 true; mkTok 12 "char[" 18 0 false; mkTok 30 "3" 18 6 false; mkTok 13 "]" 18 8 false; mkTok 42 "charz" 19 0 false; mkTok 43 "`it's`" 19 6 false; mkTok 44 (string_of_bytes [47; 47; 9; 116]%N) 20 4 true; mkTok 40 "," 21 4 false; mkTok 44 "// c" 22 0 true; mkTok 44 (string_of_bytes [47; 47; 32; 240; 159; 152; 128; 32; 101; 109; 111; 106; 105]%N) 23 0 true; mkTok 42 "o" 24 0 false; mkTok 7 "@lengthOf(" 24 2 false; mkTok 42 "leftPad" 24 12 false; mkTok 6 ")" 24 20 false; mkTok 40 "," 24 23 false; mkTok 14 "zchar[" 24 26 false; mkTok 30 "4294967296" 24 32 false; mkTok 13 "]" 24 43 false; mkTok 42 "body" 24 45 false; mkTok 40 "," 24 49 false; mkTok 32 "@leftPad" 24 50 false; mkTok 8 "(" 24 59 false; mkTok 33 "'\x00'" 25 0 false; mkTok 6 ")" 26 4 false; mkTok 19 "char" 26 5 false; mkTok 42 "u128" 26 10 false; mkTok 40 "," 26 15 false; mkTok 3 "}" 26 16 false; mkTok 35 "packet" 27 0 false; mkTok 42 "chars" 27 7 false; mkTok 2 "{" 27 12 false; mkTok 3 "}" 27 14 false; mkTok 35 "packet" 27 16 false; mkTok 42 "float" 27 23 false; mkTok 44 "//x" 27 29 true; mkTok 2 "{" 28 0 false; mkTok 3 "}" 28 2 false; mkTok 0 "<EOF>" 29 0 false] (mkPacket (mkPtok 34 "root" 1 0 0) (Some (mkPtok 3 "}" 28 2 114)) [(DPacket (mkPacketDef (mkSpan (mkPtok 34 "root" 1 0 0) (mkPtok 3 "}" 13 0 41)) (Some (mkPtok 34 "root" 1 0 0)) (mkPtok 35 "packet" 2 0 1) (mkPtok 42 "int" 2 8 2) (mkPtok 2 "{" 2 12 3) [(mkFieldWithAttr (mkSpan (mkPtok 5 "@calculatedFrom(" 2 14 4) (mkPtok 40 "," 5 8 12)) [(FACalculatedFrom (mkSpan (mkPtok 5 "@calculatedFrom(" 2 14 4) (mkPtok 6 ")" 3 9 6)) (mkCalculatedFrom (mkSpan (mkPtok 5 "@calculatedFrom(" 2 14 4) (mkPtok 6 ")" 3 9 6)) (mkPtok 5 "@calculatedFrom(" 2 14 4) (mkPtok 31 """abc""" 3 4 5) (mkPtok 6 ")" 3 9 6)))] (CheckSumField (mkSpan (mkPtok 28 "f32" 3 11 7) (mkPtok 40 "," 5 8 12)) (mkChecksumFieldDecl (mkSpan (mkPtok 28 "f32" 3 11 7) (mkPtok 40 "," 5 8 12)) (Some (TyBasic (mkSpan (mkPtok 28 "f32" 3 11 7) (mkPtok 28 "f32" 3 11 7)) (mkBasicType (mkSpan (mkPtok 28 "f32" 3 11 7) (mkPtok 28 "f32" 3 11 7)) (mkPtok 28 "f32" 3 11 7)))) (mkPtok 42 "int" 4 4 8) (mkCalculatedFrom (mkSpan (mkPtok 5 "@calculatedFrom(" 4 8 9) (mkPtok 6 ")" 5 6 11)) (mkPtok 5 "@calculatedFrom(" 4 8 9) (mkPtok 31 """a\\""" 5 0 10) (mkPtok 6 ")" 5 6 11)) None (mkPtok 40 "," 5 8 12)))); (mkFieldWithAttr (mkSpan (mkPtok 7 "@lengthOf(" 5 9 13) (mkPtok 40 "," 10 0 29)) [(FALengthOf (mkSpan (mkPtok 7 "@lengthOf(" 5 9 13) (mkPtok 6 ")" 5 24 15)) (mkLengthOf (mkSpan (mkPtok 7 "@lengthOf(" 5 9 13) (mkPtok 6 ")" 5 24 15)) (mkPtok 7 "@lengthOf(" 5 9 13) (mkPtok 42 "i8i8" 5 19 14) (mkPtok 6 ")" 5 24 15))); (FAPadding (mkSpan (mkPtok 32 "@rightPad" 5 26 16) (mkPtok 6 ")" 6 0 19)) (mkPaddingAttr (mkSpan (mkPtok 32 "@rightPad" 5 26 16) (mkPtok 6 ")" 6 0 19)) (mkPtok 32 "@rightPad" 5 26 16) (mkPtok 8 "(" 5 36 17) (Some (mkPtok 33 "' '" 5 38 18)) (mkPtok 6 ")" 6 0 19))); (FALengthOf (mkSpan (mkPtok 7 "@lengthOf(" 6 2 20) (mkPtok 6 ")" 6 22 22)) (mkLengthOf (mkSpan (mkPtok 7 "@lengthOf(" 6 2 20) (mkPtok 6 ")" 6 22 22)) (mkPtok 7 "@lengthOf(" 6 2 20) (mkPtok 42 "MetaDataX" 6 13 21) (mkPtok 6 ")" 6 22 22)))] (MetaField (mkSpan (mkPtok 14 "zchar[" 6 24 23) (mkPtok 40 "," 10 0 29)) None (mkMetaDecl (mkSpan (mkPtok 14 "zchar[" 6 24 23) (mkPtok 40 "," 10 0 29)) (TyFixed (mkSpan (mkPtok 14 "zchar[" 6 24 23) (mkPtok 13 "]" 9 0 27)) (mkFixedString (mkSpan (mkPtok 14 "zchar[" 6 24 23) (mkPtok 13 "]" 9 0 27)) (mkPtok 14 "zchar[" 6 24 23) (mkPtok 30 "0" 6 31 24) (mkPtok 13 "]" 9 0 27))) (mkPtok 42 "A" 9 1 28) None (mkPtok 40 "," 10 0 29)))); (mkFieldWithAttr (mkSpan (mkPtok 32 "@rightPad" 10 1 30) (mkPtok 40 "," 12 6 39)) [(FAPadding (mkSpan (mkPtok 32 "@rightPad" 10 1 30) (mkPtok 6 ")" 10 15 33)) (mkPaddingAttr (mkSpan (mkPtok 32 "@rightPad" 10 1 30) (mkPtok 6 ")" 10 15 33)) (mkPtok 32 "@rightPad" 10 1 30) (mkPtok 8 "(" 10 10 31) (Some (mkPtok 33 "'0'" 10 12 32)) (mkPtok 6 ")" 10 15 33)))] (CheckSumField (mkSpan (mkPtok 23 "u64" 10 17 34) (mkPtok 40 "," 12 6 39)) (mkChecksumFieldDecl (mkSpan (mkPtok 23 "u64" 10 17 34) (mkPtok 40 "," 12 6 39)) (Some (TyBasic (mkSpan (mkPtok 23 "u64" 10 17 34) (mkPtok 23 "u64" 10 17 34)) (mkBasicType (mkSpan (mkPtok 23 "u64" 10 17 34) (mkPtok 23 "u64" 10 17 34)) (mkPtok 23 "u64" 10 17 34)))) (mkPtok 42 "A" 10 21 35) (mkCalculatedFrom (mkSpan (mkPtok 5 "@calculatedFrom(" 10 23 36) (mkPtok 6 ")" 12 4 38)) (mkPtok 5 "@calculatedFrom(" 10 23 36) (mkPtok 31 """abc""" 11 0 37) (mkPtok 6 ")" 12 4 38)) None (mkPtok 40 "," 12 6 39))))] (mkPtok 3 "}" 13 0 41))); (DMeta (mkMetaDef (mkSpan (mkPtok 37 "MetaData" 13 2 42) (mkPtok 3 "}" 15 43 67)) (mkPtok 37 "MetaData" 13 2 42) (mkPtok 42 "Logon" 13 11 43) (mkPtok 2 "{" 13 16 44) [(MIDecl (mkMetaDecl (mkSpan (mkPtok 26 "int32" 13 18 45) (mkPtok 40 "," 13 31 47)) (TyBasic (mkSpan (mkPtok 26 "int32" 13 18 45) (mkPtok 26 "int32" 13 18 45)) (mkBasicType (mkSpan (mkPtok 26 "int32" 13 18 45) (mkPtok 26 "int32" 13 18 45)) (mkPtok 26 "int32" 13 18 45))) (mkPtok 42 "Header" 13 24 46) None (mkPtok 40 "," 13 31 47))); (MIDecl (mkMetaDecl (mkSpan (mkPtok 24 "i8" 13 33 48) (mkPtok 40 "," 14 5 51)) (TyBasic (mkSpan (mkPtok 24 "i8" 13 33 48) (mkPtok 24 "i8" 13 33 48)) (mkBasicType (mkSpan (mkPtok 24 "i8" 13 33 48) (mkPtok 24 "i8" 13 33 48)) (mkPtok 24 "i8" 13 33 48))) (mkPtok 42 "i64_" 14 0 50) None (mkPtok 40 "," 14 5 51))); (MIRef (mkRefMetaDecl (mkSpan (mkPtok 42 "x_y_z" 14 7 52) (mkPtok 40 "," 14 16 54)) (mkPtok 42 "x_y_z" 14 7 52) (mkPtok 42 "a1" 14 13 53) None (mkPtok 40 "," 14 16 54))); (MIRef (mkRefMetaDecl (mkSpan (mkPtok 42 "trueish" 14 18 55) (mkPtok 40 "," 15 6 58)) (mkPtok 42 "trueish" 14 18 55) (mkPtok 42 "pack" 14 26 56) (Some (mkPtok 43 (string_of_bytes [96; 99; 114; 108; 102; 13; 10; 108; 105; 110; 101; 96]%N) 14 31 57)) (mkPtok 40 "," 15 6 58))); (MIDecl (mkMetaDecl (mkSpan (mkPtok 12 "char[" 15 8 59) (mkPtok 40 "," 15 26 63)) (TyFixed (mkSpan (mkPtok 12 "char[" 15 8 59) (mkPtok 13 "]" 15 15 61)) (mkFixedString (mkSpan (mkPtok 12 "char[" 15 8 59) (mkPtok 13 "]" 15 15 61)) (mkPtok 12 "char[" 15 8 59) (mkPtok 30 "1" 15 14 60) (mkPtok 13 "]" 15 15 61))) (mkPtok 42 "lengthOf" 15 17 62) None (mkPtok 40 "," 15 26 63))); (MIRef (mkRefMetaDecl (mkSpan (mkPtok 42 "_x" 15 28 64) (mkPtok 40 "," 15 41 66)) (mkPtok 42 "_x" 15 28 64) (mkPtok 42 "BodyLength" 15 31 65) None (mkPtok 40 "," 15 41 66)))] (mkPtok 3 "}" 15 43 67))); (DPacket (mkPacketDef (mkSpan (mkPtok 35 "packet" 15 45 68) (mkPtok 3 "}" 26 16 105)) None (mkPtok 35 "packet" 15 45 68) (mkPtok 42 "asx" 15 52 69) (mkPtok 2 "{" 16 4 70) [(mkFieldWithAttr (mkSpan (mkPtok 36 "repeat" 16 6 71) (mkPtok 40 "," 17 0 73)) [] (ObjectField (mkSpan (mkPtok 36 "repeat" 16 6 71) (mkPtok 40 "," 17 0 73)) (Some (mkPtok 36 "repeat" 16 6 71)) (mkPtok 42 "body" 16 13 72) None None (mkPtok 40 "," 17 0 73))); (mkFieldWithAttr (mkSpan (mkPtok 9 "@tag(" 17 2 74) (mkPtok 40 "," 21 4 85)) [(FATag (mkSpan (mkPtok 9 "@tag(" 17 2 74) (mkPtok 6 ")" 17 12 76)) (mkTagAttr (mkSpan (mkPtok 9 "@tag(" 17 2 74) (mkPtok 6 ")" 17 12 76)) (mkPtok 9 "@tag(" 17 2 74) (mkPtok 30 "255" 17 8 75) (mkPtok 6 ")" 17 12 76)))] (MetaField (mkSpan (mkPtok 36 "repeat" 17 13 77) (mkPtok 40 "," 21 4 85)) (Some (mkPtok 36 "repeat" 17 13 77)) (mkMetaDecl (mkSpan (mkPtok 12 "char[" 18 0 79) (mkPtok 40 "," 21 4 85)) (TyFixed (mkSpan (mkPtok 12 "char[" 18 0 79) (mkPtok 13 "]" 18 8 81)) (mkFixedString (mkSpan (mkPtok 12 "char[" 18 0 79) (mkPtok 13 "]" 18 8 81)) (mkPtok 12 "char[" 18 0 79) (mkPtok 30 "3" 18 6 80) (mkPtok 13 "]" 18 8 81))) (mkPtok 42 "charz" 19 0 82) (Some (mkPtok 43 "`it's`" 19 6 83)) (mkPtok 40 "," 21 4 85)))); (mkFieldWithAttr (mkSpan (mkPtok 42 "o" 24 0 88) (mkPtok 40 "," 24 23 92)) [] (LengthField (mkSpan (mkPtok 42 "o" 24 0 88) (mkPtok 40 "," 24 23 92)) (mkLengthFieldDecl (mkSpan (mkPtok 42 "o" 24 0 88) (mkPtok 40 "," 24 23 92)) None (mkPtok 42 "o" 24 0 88) (mkLengthOf (mkSpan (mkPtok 7 "@lengthOf(" 24 2 89) (mkPtok 6 ")" 24 20 91)) (mkPtok 7 "@lengthOf(" 24 2 89) (mkPtok 42 "leftPad" 24 12 90) (mkPtok 6 ")" 24 20 91)) None (mkPtok 40 "," 24 23 92)))); (mkFieldWithAttr (mkSpan (mkPtok 14 "zchar[" 24 26 93) (mkPtok 40 "," 24 49 97)) [] (MetaField (mkSpan (mkPtok 14 "zchar[" 24 26 93) (mkPtok 40 "," 24 49 97)) None (mkMetaDecl (mkSpan (mkPtok 14 "zchar[" 24 26 93) (mkPtok 40 "," 24 49 97)) (TyFixed (mkSpan (mkPtok 14 "zchar[" 24 26 93) (mkPtok 13 "]" 24 43 95)) (mkFixedString (mkSpan (mkPtok 14 "zchar[" 24 26 93) (mkPtok 13 "]" 24 43 95)) (mkPtok 14 "zchar[" 24 26 93) (mkPtok 30 "4294967296" 24 32 94) (mkPtok 13 "]" 24 43 95))) (mkPtok 42 "body" 24 45 96) None (mkPtok 40 "," 24 49 97)))); (mkFieldWithAttr (mkSpan (mkPtok 32 "@leftPad" 24 50 98) (mkPtok 40 "," 26 15 104)) [(FAPadding (mkSpan (mkPtok 32 "@leftPad" 24 50 98) (mkPtok 6 ")" 26 4 101)) (mkPaddingAttr (mkSpan (mkPtok 32 "@leftPad" 24 50 98) (mkPtok 6 ")" 26 4 101)) (mkPtok 32 "@leftPad" 24 50 98) (mkPtok 8 "(" 24 59 99) (Some (mkPtok 33 "'\x00'" 25 0 100)) (mkPtok 6 ")" 26 4 101)))] (MetaField (mkSpan (mkPtok 19 "char" 26 5 102) (mkPtok 40 "," 26 15 104)) None (mkMetaDecl (mkSpan (mkPtok 19 "char" 26 5 102) (mkPtok 40 "," 26 15 104)) (TyBasic (mkSpan (mkPtok 19 "char" 26 5 102) (mkPtok 19 "char" 26 5 102)) (mkBasicType (mkSpan (mkPtok 19 "char" 26 5 102) (mkPtok 19 "char" 26 5 102)) (mkPtok 19 "char" 26 5 102))) (mkPtok 42 "u128" 26 10 103) None (mkPtok 40 "," 26 15 104))))] (mkPtok 3 "}" 26 16 105))); (DPacket (mkPacketDef (mkSpan (mkPtok 35 "packet" 27 0 106) (mkPtok 3 "}" 27 14 109)) None (mkPtok 35 "packet" 27 0 106) (mkPtok 42 "chars" 27 7 107) (mkPtok 2 "{" 27 12 108) [] (mkPtok 3 "}" 27 14 109))); (DPacket (mkPacketDef (mkSpan (mkPtok 35 "packet" 27 16 110) (mkPtok 3 "}" 28 2 114)) None (mkPtok 35 "packet" 27 16 110) (mkPtok 42 "float" 27 23 111) (mkPtok 2 "{" 28 0 113) [] (mkPtok 3 "}" 28 2 114)))])).
Eval vm_compute in ("<<<M346>>>" ++ check (runes_of_ascii "
packet
//
// " ++ [128512]%N ++ runes_of_ascii " emoji
T {
char[] repeatCount @lengthOf( a1 ) `u8 x,`
, /// triple
}
")).
Eval vm_compute in ("<<<M378>>>" ++ check (runes_of_ascii "root packet leftPad { @calculatedFrom( ""1""
    // " ++ [128512]%N ++ runes_of_ascii " emoji
    )
@lengthOf(	stringy) @calculatedFrom(
""it's"" )x @lengthOf(u)
    `doc` , @leftPad() repeat i64_ {packetx `{ , }`  ,
    }	,
repeat u128
    { repeat matchKey
, zchar[ 7 // trailing space 
]matchKey
, // " ++ [27880; 37322]%N ++ runes_of_ascii "
i8
Packet@calculatedFrom( ""1""  ),
} , // c
char[]
int
    @lengthOf(
x_y_z  ) , // a // b
}MetaData
Logon { u64 falsey
,char[ 3 ] T , stringy float , char[ 7] Pad
    , zchar[0
]
    // @lengthOf(
    BodyLength ,}

")).
Eval vm_compute in ("<<<M410>>>" ++ check (runes_of_ascii "options
    { }

")).
Eval vm_compute in ("<<<M442>>>" ++ check (runes_of_ascii " 	 ")).
Eval vm_compute in ("<<<M474>>>" ++ check (runes_of_ascii "
root
    packet metadata
{ }

")).
Eval vm_compute in ("<<<M506>>>" ++ check (runes_of_ascii "packet tag {
    @tag(
65535
) calculatedFrom @calculatedFrom( ""abc"" )`crlf
line`,
@calculatedFrom(""\n"" )_x @calculatedFrom( ""CRC32"" )
,
u16  body @calculatedFrom(
""\" ++ [233]%N ++ runes_of_ascii """
    // c
    ) ,
zchar[ 0
// `tick` ""quote"" 'q'
// c
] Header
@calculatedFrom(  """ ++ [128512]%N ++ runes_of_ascii """// 50% %s
) `// not a comment`
    // a // b
    , repeat lengthOf ,	repeat char[] uint8x `line1
line2`
    //
    , @tag(4294967296)match lengthOf as crc{[
0
] :Logon """ ++ [128512]%N ++ runes_of_ascii """ :
//	t
//x
Foo , // " ++ [27880; 37322]%N ++ runes_of_ascii "
""packet"" :
    calculatedFrom, }, int64 leftPad , }packet x { match
roots
as u8x{
65535: trueish, ""a	b""
: zchar
    ,
255	: Logon ,1 : string_ ,
    } , repeat i8i8  { string Logon
,
    metadata , repeat T	, }
    , repeat //
Header`" ++ [233]%N ++ runes_of_ascii "` , metadata trueish `{ , }`
// packet A { u8 x, }
// a // b
,
    leftPad _x `it's` , @tag( 7
    )// packet A { u8 x, }
char[] Packet @lengthOf( //x
leftPad )
`" ++ [233]%N ++ runes_of_ascii "`  , match Logon
as options1 { [ ""abc"" // 50% %s
] : pack
""" ++ [233]%N ++ runes_of_ascii "t" ++ [233]%N ++ runes_of_ascii """
// `tick` ""quote"" 'q'
// c
:metadata
    ,
    ""a\\"" :
    _x , } , } packet
string_
{Pad  @calculatedFrom( """"
    ) `tab	here`, @lengthOf( u  ) len  @calculatedFrom(
//x
//x
""// no comment"" )
`{ , }`  ,
@leftPad/// triple
( '0' )
    tag
@lengthOf( calculatedFrom )
,
    repeat uint64 metadata `u8 x,`
    // " ++ [128512]%N ++ runes_of_ascii " emoji
    , } root packet
T // trailing space 
{ @rightPad
// " ++ [27880; 37322]%N ++ runes_of_ascii "
//
(  ' ' )
    repeat float chars , repeat
char[] //
options1, }
")).
Eval vm_compute in ("<<<M538>>>" ++ check (runes_of_ascii "// " ++ [27880; 37322]%N ++ runes_of_ascii "
packet //x
float
    { }options
{ Logon =
    """ ++ [233]%N ++ runes_of_ascii "t" ++ [233]%N ++ runes_of_ascii """
    ; body = ""abc"" ; falsey= ""{,}""
    /// triple
    } packet matchKey { packetx@lengthOf(i64_ ) , @calculatedFrom( ""\" ++ [233]%N ++ runes_of_ascii """ )
u64
//x
// c
MetaDataX @lengthOf(
    Foo
)
    , repeat pack
{	u
    //	t
    msg_type , } , match u as
    calculatedFrom {""1"": MetaDataX , """ ++ [233]%N ++ runes_of_ascii "t" ++ [233]%N ++ runes_of_ascii """
    :len	,} ,
@leftPad(
'\x00' ) @calculatedFrom(""\n"" // trailing space 
) falsey
    ,
    @lengthOf(
charz ) i64 crc`
`	,// @lengthOf(
} packet charz
    { }

")).
Eval vm_compute in ("<<<T538>>>" ++ terms [mkTok 44 (string_of_bytes [47; 47; 32; 230; 179; 168; 233; 135; 138]%N) 1 0 true; mkTok 35 "packet" 2 0 false; mkTok 44 "//x" 2 7 true; mkTok 42 "float" 3 0 false; mkTok 2 "{" 4 4 false; mkTok 3 "}" 4 6 false; mkTok 1 "options" 4 7 false; mkTok 2 "{" 5 0 false; mkTok 42 "Logon" 5 2 false; mkTok 4 "=" 5 8 false; mkTok 31 (string_of_bytes [34; 195; 169; 116; 195; 169; 34]%N) 6 4 false; mkTok 41 ";" 7 4 false; mkTok 42 "body" 7 6 false; mkTok 4 "=" 7 11 false; mkTok 31 """abc""" 7 13 false; mkTok 41 ";" 7 19 false; mkTok 42 "falsey" 7 21 false; mkTok 4 "=" 7 27 false; mkTok 31 """{,}""" 7 29 false; mkTok 44 "/// triple" 8 4 true; mkTok 3 "}" 9 4 false; mkTok 35 "packet" 9 6 false; mkTok 42 "matchKey" 9 13 false; mkTok 2 "{" 9 22 false; mkTok 42 "packetx" 9 24 false; mkTok 7 "@lengthOf(" 9 31 false; mkTok 42 "i64_" 9 41 false; mkTok 6 ")" 9 46 false; mkTok 40 "," 9 48 false; mkTok 5 "@calculatedFrom(" 9 50 false; mkTok 31 (string_of_bytes [34; 92; 195; 169; 34]%N) 9 67 false; mkTok 6 ")" 9 72 false; mkTok 23 "u64" 10 0 false; mkTok 44 "//x" 11 0 true; mkTok 44 "// c" 12 0 true; mkTok 42 "MetaDataX" 13 0 false; mkTok 7 "@lengthOf(" 13 10 false; mkTok 42 "Foo" 14 4 false; mkTok 6 ")" 15 0 false; mkTok 40 "," 16 4 false; mkTok 36 "repeat" 16 6 false; mkTok 42 "pack" 16 13 false; mkTok 2 "{" 17 0 false; mkTok 42 "u" 17 2 false; mkTok 44 (string_of_bytes [47; 47; 9; 116]%N) 18 4 true; mkTok 42 "msg_type" 19 4 false; mkTok 40 "," 19 13 false; mkTok 3 "}" 19 15 false; mkTok 40 "," 19 17 false; mkTok 38 "match" 19 19 false; mkTok 42 "u" 19 25 false; mkTok 17 "as" 19 27 false; mkTok 42 "calculatedFrom" 20 4 false; mkTok 2 "{" 20 19 false; mkTok 31 """1""" 20 20 false; mkTok 39 ":" 20 23 false; mkTok 42 "MetaDataX" 20 25 false; mkTok 40 "," 20 35 false; mkTok 31 (string_of_bytes [34; 195; 169; 116; 195; 169; 34]%N) 20 37 false; mkTok 39 ":" 21 4 false; mkTok 42 "len" 21 5 false; mkTok 40 "," 21 9 false; mkTok 3 "}" 21 10 false; mkTok 40 "," 21 12 false; mkTok 32 "@leftPad" 22 0 false; mkTok 8 "(" 22 8 false; mkTok 33 "'\x00'" 23 0 false; mkTok 6 ")" 23 7 false; mkTok 5 "@calculatedFrom(" 23 9 false; mkTok 31 """\n""" 23 25 false; mkTok 44 "// trailing space " 23 30 true; mkTok 6 ")" 24 0 false; mkTok 42 "falsey" 24 2 false; mkTok 40 "," 25 4 false; mkTok 7 "@lengthOf(" 26 4 false; mkTok 42 "charz" 27 0 false; mkTok 6 ")" 27 6 false; mkTok 27 "i64" 27 8 false; mkTok 42 "crc" 27 12 false; mkTok 43 (string_of_bytes [96; 10; 96]%N) 27 15 false; mkTok 40 "," 28 2 false; mkTok 44 "// @lengthOf(" 28 3 true; mkTok 3 "}" 29 0 false; mkTok 35 "packet" 29 2 false; mkTok 42 "charz" 29 9 false; mkTok 2 "{" 30 4 false; mkTok 3 "}" 30 6 false; mkTok 0 "<EOF>" 32 0 false] (mkPacket (mkPtok 35 "packet" 2 0 1) (Some (mkPtok 3 "}" 30 6 86)) [(DPacket (mkPacketDef (mkSpan (mkPtok 35 "packet" 2 0 1) (mkPtok 3 "}" 4 6 5)) None (mkPtok 35 "packet" 2 0 1) (mkPtok 42 "float" 3 0 3) (mkPtok 2 "{" 4 4 4) [] (mkPtok 3 "}" 4 6 5))); (DOption (mkOptionDef (mkSpan (mkPtok 1 "options" 4 7 6) (mkPtok 3 "}" 9 4 20)) (mkPtok 1 "options" 4 7 6) (mkPtok 2 "{" 5 0 7) [(mkOptionDecl (mkSpan (mkPtok 42 "Logon" 5 2 8) (mkPtok 41 ";" 7 4 11)) (mkPtok 42 "Logon" 5 2 8) (mkPtok 4 "=" 5 8 9) (VString (mkSpan (mkPtok 31 (string_of_bytes [34; 195; 169; 116; 195; 169; 34]%N) 6 4 10) (mkPtok 31 (string_of_bytes [34; 195; 169; 116; 195; 169; 34]%N) 6 4 10)) (mkPtok 31 (string_of_bytes [34; 195; 169; 116; 195; 169; 34]%N) 6 4 10)) (Some (mkPtok 41 ";" 7 4 11))); (mkOptionDecl (mkSpan (mkPtok 42 "body" 7 6 12) (mkPtok 41 ";" 7 19 15)) (mkPtok 42 "body" 7 6 12) (mkPtok 4 "=" 7 11 13) (VString (mkSpan (mkPtok 31 """abc""" 7 13 14) (mkPtok 31 """abc""" 7 13 14)) (mkPtok 31 """abc""" 7 13 14)) (Some (mkPtok 41 ";" 7 19 15))); (mkOptionDecl (mkSpan (mkPtok 42 "falsey" 7 21 16) (mkPtok 31 """{,}""" 7 29 18)) (mkPtok 42 "falsey" 7 21 16) (mkPtok 4 "=" 7 27 17) (VString (mkSpan (mkPtok 31 """{,}""" 7 29 18) (mkPtok 31 """{,}""" 7 29 18)) (mkPtok 31 """{,}""" 7 29 18)) None)] (mkPtok 3 "}" 9 4 20))); (DPacket (mkPacketDef (mkSpan (mkPtok 35 "packet" 9 6 21) (mkPtok 3 "}" 29 0 82)) None (mkPtok 35 "packet" 9 6 21) (mkPtok 42 "matchKey" 9 13 22) (mkPtok 2 "{" 9 22 23) [(mkFieldWithAttr (mkSpan (mkPtok 42 "packetx" 9 24 24) (mkPtok 40 "," 9 48 28)) [] (LengthField (mkSpan (mkPtok 42 "packetx" 9 24 24) (mkPtok 40 "," 9 48 28)) (mkLengthFieldDecl (mkSpan (mkPtok 42 "packetx" 9 24 24) (mkPtok 40 "," 9 48 28)) None (mkPtok 42 "packetx" 9 24 24) (mkLengthOf (mkSpan (mkPtok 7 "@lengthOf(" 9 31 25) (mkPtok 6 ")" 9 46 27)) (mkPtok 7 "@lengthOf(" 9 31 25) (mkPtok 42 "i64_" 9 41 26) (mkPtok 6 ")" 9 46 27)) None (mkPtok 40 "," 9 48 28)))); (mkFieldWithAttr (mkSpan (mkPtok 5 "@calculatedFrom(" 9 50 29) (mkPtok 40 "," 16 4 39)) [(FACalculatedFrom (mkSpan (mkPtok 5 "@calculatedFrom(" 9 50 29) (mkPtok 6 ")" 9 72 31)) (mkCalculatedFrom (mkSpan (mkPtok 5 "@calculatedFrom(" 9 50 29) (mkPtok 6 ")" 9 72 31)) (mkPtok 5 "@calculatedFrom(" 9 50 29) (mkPtok 31 (string_of_bytes [34; 92; 195; 169; 34]%N) 9 67 30) (mkPtok 6 ")" 9 72 31)))] (LengthField (mkSpan (mkPtok 23 "u64" 10 0 32) (mkPtok 40 "," 16 4 39)) (mkLengthFieldDecl (mkSpan (mkPtok 23 "u64" 10 0 32) (mkPtok 40 "," 16 4 39)) (Some (TyBasic (mkSpan (mkPtok 23 "u64" 10 0 32) (mkPtok 23 "u64" 10 0 32)) (mkBasicType (mkSpan (mkPtok 23 "u64" 10 0 32) (mkPtok 23 "u64" 10 0 32)) (mkPtok 23 "u64" 10 0 32)))) (mkPtok 42 "MetaDataX" 13 0 35) (mkLengthOf (mkSpan (mkPtok 7 "@lengthOf(" 13 10 36) (mkPtok 6 ")" 15 0 38)) (mkPtok 7 "@lengthOf(" 13 10 36) (mkPtok 42 "Foo" 14 4 37) (mkPtok 6 ")" 15 0 38)) None (mkPtok 40 "," 16 4 39)))); (mkFieldWithAttr (mkSpan (mkPtok 36 "repeat" 16 6 40) (mkPtok 40 "," 19 17 48)) [] (InerObjectField (mkSpan (mkPtok 36 "repeat" 16 6 40) (mkPtok 40 "," 19 17 48)) (Some (mkPtok 36 "repeat" 16 6 40)) (InerObjectDecl (mkSpan (mkPtok 42 "pack" 16 13 41) (mkPtok 3 "}" 19 15 47)) (mkPtok 42 "pack" 16 13 41) (mkPtok 2 "{" 17 0 42) [(ObjectField (mkSpan (mkPtok 42 "u" 17 2 43) (mkPtok 40 "," 19 13 46)) None (mkPtok 42 "u" 17 2 43) (Some (mkPtok 42 "msg_type" 19 4 45)) None (mkPtok 40 "," 19 13 46))] (mkPtok 3 "}" 19 15 47)) (mkPtok 40 "," 19 17 48))); (mkFieldWithAttr (mkSpan (mkPtok 38 "match" 19 19 49) (mkPtok 40 "," 21 12 63)) [] (MatchField (mkSpan (mkPtok 38 "match" 19 19 49) (mkPtok 40 "," 21 12 63)) (mkMatchFieldDecl (mkSpan (mkPtok 38 "match" 19 19 49) (mkPtok 3 "}" 21 10 62)) (mkPtok 38 "match" 19 19 49) (mkPtok 42 "u" 19 25 50) (mkPtok 17 "as" 19 27 51) (mkPtok 42 "calculatedFrom" 20 4 52) (mkPtok 2 "{" 20 19 53) [(mkMatchPair (mkSpan (mkPtok 31 """1""" 20 20 54) (mkPtok 40 "," 20 35 57)) (MKString (mkPtok 31 """1""" 20 20 54)) (mkPtok 39 ":" 20 23 55) (mkPtok 42 "MetaDataX" 20 25 56) (Some (mkPtok 40 "," 20 35 57))); (mkMatchPair (mkSpan (mkPtok 31 (string_of_bytes [34; 195; 169; 116; 195; 169; 34]%N) 20 37 58) (mkPtok 40 "," 21 9 61)) (MKString (mkPtok 31 (string_of_bytes [34; 195; 169; 116; 195; 169; 34]%N) 20 37 58)) (mkPtok 39 ":" 21 4 59) (mkPtok 42 "len" 21 5 60) (Some (mkPtok 40 "," 21 9 61)))] (mkPtok 3 "}" 21 10 62)) (mkPtok 40 "," 21 12 63))); (mkFieldWithAttr (mkSpan (mkPtok 32 "@leftPad" 22 0 64) (mkPtok 40 "," 25 4 73)) [(FAPadding (mkSpan (mkPtok 32 "@leftPad" 22 0 64) (mkPtok 6 ")" 23 7 67)) (mkPaddingAttr (mkSpan (mkPtok 32 "@leftPad" 22 0 64) (mkPtok 6 ")" 23 7 67)) (mkPtok 32 "@leftPad" 22 0 64) (mkPtok 8 "(" 22 8 65) (Some (mkPtok 33 "'\x00'" 23 0 66)) (mkPtok 6 ")" 23 7 67))); (FACalculatedFrom (mkSpan (mkPtok 5 "@calculatedFrom(" 23 9 68) (mkPtok 6 ")" 24 0 71)) (mkCalculatedFrom (mkSpan (mkPtok 5 "@calculatedFrom(" 23 9 68) (mkPtok 6 ")" 24 0 71)) (mkPtok 5 "@calculatedFrom(" 23 9 68) (mkPtok 31 """\n""" 23 25 69) (mkPtok 6 ")" 24 0 71)))] (ObjectField (mkSpan (mkPtok 42 "falsey" 24 2 72) (mkPtok 40 "," 25 4 73)) None (mkPtok 42 "falsey" 24 2 72) None None (mkPtok 40 "," 25 4 73))); (mkFieldWithAttr (mkSpan (mkPtok 7 "@lengthOf(" 26 4 74) (mkPtok 40 "," 28 2 80)) [(FALengthOf (mkSpan (mkPtok 7 "@lengthOf(" 26 4 74) (mkPtok 6 ")" 27 6 76)) (mkLengthOf (mkSpan (mkPtok 7 "@lengthOf(" 26 4 74) (mkPtok 6 ")" 27 6 76)) (mkPtok 7 "@lengthOf(" 26 4 74) (mkPtok 42 "charz" 27 0 75) (mkPtok 6 ")" 27 6 76)))] (MetaField (mkSpan (mkPtok 27 "i64" 27 8 77) (mkPtok 40 "," 28 2 80)) None (mkMetaDecl (mkSpan (mkPtok 27 "i64" 27 8 77) (mkPtok 40 "," 28 2 80)) (TyBasic (mkSpan (mkPtok 27 "i64" 27 8 77) (mkPtok 27 "i64" 27 8 77)) (mkBasicType (mkSpan (mkPtok 27 "i64" 27 8 77) (mkPtok 27 "i64" 27 8 77)) (mkPtok 27 "i64" 27 8 77))) (mkPtok 42 "crc" 27 12 78) (Some (mkPtok 43 (string_of_bytes [96; 10; 96]%N) 27 15 79)) (mkPtok 40 "," 28 2 80))))] (mkPtok 3 "}" 29 0 82))); (DPacket (mkPacketDef (mkSpan (mkPtok 35 "packet" 29 2 83) (mkPtok 3 "}" 30 6 86)) None (mkPtok 35 "packet" 29 2 83) (mkPtok 42 "charz" 29 9 84) (mkPtok 2 "{" 30 4 85) [] (mkPtok 3 "}" 30 6 86)))])).
Eval vm_compute in ("<<<M570>>>" ++ check (runes_of_ascii "root packet lengthOf// packet A { u8 x, }
{  repeat float
{
int32 crc
    // 50% %s
    @calculatedFrom( ""{,}"" ) ,match chars//x
as _x
    { 00: crc , [	""a\""b"" , 10, 255 ] :chars
, 0123456789 : crc
, } , //x
match Foo
as
roots { ""a\\""
: string_ 007:
u8x
    [
""" ++ [128512]%N ++ runes_of_ascii """ ,""it's"" ]
    : MetaDataX ,[4294967296 ,0123456789 , 10 // 50% %s
]
:crc , [
""a\\"" ,7 ]	: trueish ,[	10
,	1
] :	string_ ,
    }, }
    // trailing space 
    ,}	packet
    // c
    f32a{
    // @lengthOf(
    @leftPad	(
/// triple
// 50% %s
) @tag(
    // @lengthOf(
    7 ) @lengthOf( T )
repeat
packetx x_y_z, }")).
Eval vm_compute in ("<<<M602>>>" ++ check (runes_of_ascii "root
    packet crc {}
root	packet //x
uint8x { match
// `tick` ""quote"" 'q'
// `tick` ""quote"" 'q'
u8x as
    matchKey { /// triple
0 : // " ++ [128512]%N ++ runes_of_ascii " emoji
options1 3
:
    /// triple
    charz ,
    [ ""\n"" , """"
    , ""abc"",
""a\""b"" , ""abc""
,	42
    ,""" ++ [128512]%N ++ runes_of_ascii """
] : lengthOf },
}packet o
{ @calculatedFrom(
""a\\"" //	t
)	match o as asx {
65535
    : zchar, }
,
    //
    Header @calculatedFrom(  """ ++ [128512]%N ++ runes_of_ascii """) ,
    msg_type
charz , repeat
crc { repeat x_y_z `doc` , char[0123456789 ] Foo  ,	repeat i16 x`` , // packet A { u8 x, }
zchar[ 7 ]
o @calculatedFrom( ""abc"" )
, } ,@calculatedFrom(
    // c
    ""// no comment"" )
    repeat
u32 Pad // " ++ [128512]%N ++ runes_of_ascii " emoji
,
repeat int64 u128 `100% of %d` ,
    repeat uint8x {uint64  leftPad
    `line1
line2` , i64_ // " ++ [27880; 37322]%N ++ runes_of_ascii "
`doc`
, }
    // @lengthOf(
    ,
} root
packet metadata {}
")).
Eval vm_compute in ("<<<M634>>>" ++ check (runes_of_ascii "packet
    u8x {
pack	@calculatedFrom( ""a	b"") , }packet u // @lengthOf(
{ calculatedFrom @calculatedFrom(
""\" ++ [233]%N ++ runes_of_ascii """ )  `say ""hi""`
    , trueish @lengthOf( calculatedFrom
), u8 trueish `` ,
    zchar[
    0123456789 ]
int @calculatedFrom(
""packet"")
    ,	@leftPad (
'0'
    )
// trailing space 
/// triple
@tag( 007 ) match matchKey // " ++ [27880; 37322]%N ++ runes_of_ascii "
as _x{ ""packet"" : Header , } , char[]
    asx@lengthOf(	f32a ) , options1@lengthOf(
matchKey )// c
`a\`
    ,
} // " ++ [128512]%N ++ runes_of_ascii " emoji")).
Eval vm_compute in ("<<<M666>>>" ++ check (runes_of_ascii "options { i64_
// " ++ [27880; 37322]%N ++ runes_of_ascii "
// @lengthOf(
=
char body
=// " ++ [128512]%N ++ runes_of_ascii " emoji
true
    ;
    } root packet //	t
BodyLength { }
packet asx {
}
")).
Eval vm_compute in ("<<<M698>>>" ++ check (runes_of_ascii "packet
Z9_	{ char[] msg_type ,
int
    chars `{ , }` , @leftPad() match options1 as
A { // `tick` ""quote"" 'q'
""it's"" : len,[ """"	] : T ,  [
00	] : calculatedFrom , 1
:MetaDataX,
    //
    4294967296 : // a // b
u
,
} ,
repeat uint32 rootA
    , f32
    f32a `tab	here` , int
    //x
    ,}
")).
Eval vm_compute in ("<<<M730>>>" ++ check (runes_of_ascii "packet packetx {zchar[
// a // b
//	t
10
]options1 , } // " ++ [128512]%N ++ runes_of_ascii " emoji
options{ // a // b
a1=//
char[ 0123456789 ]	; f32a=
char[]} MetaData MetaDataX { zchar[65535 ]x,	}
")).
Eval vm_compute in ("<<<M762>>>" ++ check (runes_of_ascii "packet calculatedFrom
    {@lengthOf(pack )
    zchar @lengthOf( Z9_) `a\` , // 50% %s
@calculatedFrom( ""it's"") leftPad ,trueish , // " ++ [128512]%N ++ runes_of_ascii " emoji
@calculatedFrom(
    ""{,}""
)
float32 string_ @calculatedFrom( ""1"" ) `tab	here` ,} packet
u8x{
match Header as
roots { [
""" ++ [28040; 24687]%N ++ runes_of_ascii """ ,""\" ++ [233]%N ++ runes_of_ascii """  , 65535 ,0, 10,//	t
65535 , ""\n""
    ]:
    metadata [
    /// triple
    ""// no comment""
// " ++ [27880; 37322]%N ++ runes_of_ascii "
//	t
,
""{,}""
, 0
    ,
    ""\n"", 3	]//	t
: i8i8 ,
    }
// a // b
//	t
, match trueish as stringy { ""CRC32""//
:repeatCount ,
// a // b
//	t
[""1"", ""a\\"" ,
""a\\""
,
007, 10	,""1""
,007
]: repeatCount ""\" ++ [233]%N ++ runes_of_ascii """
    :
    msg_type , }
,}
")).
Eval vm_compute in ("<<<T762>>>" ++ terms [mkTok 35 "packet" 1 0 false; mkTok 42 "calculatedFrom" 1 7 false; mkTok 2 "{" 2 4 false; mkTok 7 "@lengthOf(" 2 5 false; mkTok 42 "pack" 2 15 false; mkTok 6 ")" 2 20 false; mkTok 42 "zchar" 3 4 false; mkTok 7 "@lengthOf(" 3 10 false; mkTok 42 "Z9_" 3 21 false; mkTok 6 ")" 3 24 false; mkTok 43 "`a\`" 3 26 false; mkTok 40 "," 3 31 false; mkTok 44 "// 50% %s" 3 33 true; mkTok 5 "@calculatedFrom(" 4 0 false; mkTok 31 """it's""" 4 17 false; mkTok 6 ")" 4 23 false; mkTok 42 "leftPad" 4 25 false; mkTok 40 "," 4 33 false; mkTok 42 "trueish" 4 34 false; mkTok 40 "," 4 42 false; mkTok 44 (string_of_bytes [47; 47; 32; 240; 159; 152; 128; 32; 101; 109; 111; 106; 105]%N) 4 44 true; mkTok 5 "@calculatedFrom(" 5 0 false; mkTok 31 """{,}""" 6 4 false; mkTok 6 ")" 7 0 false; mkTok 28 "float32" 8 0 false; mkTok 42 "string_" 8 8 false; mkTok 5 "@calculatedFrom(" 8 16 false; mkTok 31 """1""" 8 33 false; mkTok 6 ")" 8 37 false; mkTok 43 (string_of_bytes [96; 116; 97; 98; 9; 104; 101; 114; 101; 96]%N) 8 39 false; mkTok 40 "," 8 50 false; mkTok 3 "}" 8 51 false; mkTok 35 "packet" 8 53 false; mkTok 42 "u8x" 9 0 false; mkTok 2 "{" 9 3 false; mkTok 38 "match" 10 0 false; mkTok 42 "Header" 10 6 false; mkTok 17 "as" 10 13 false; mkTok 42 "roots" 11 0 false; mkTok 2 "{" 11 6 false; mkTok 18 "[" 11 8 false; mkTok 31 (string_of_bytes [34; 230; 182; 136; 230; 129; 175; 34]%N) 12 0 false; mkTok 40 "," 12 5 false; mkTok 31 (string_of_bytes [34; 92; 195; 169; 34]%N) 12 6 false; mkTok 40 "," 12 12 false; mkTok 30 "65535" 12 14 false; mkTok 40 "," 12 20 false; mkTok 30 "0" 12 21 false; mkTok 40 "," 12 22 false; mkTok 30 "10" 12 24 false; mkTok 40 "," 12 26 false; mkTok 44 (string_of_bytes [47; 47; 9; 116]%N) 12 27 true; mkTok 30 "65535" 13 0 false; mkTok 40 "," 13 6 false; mkTok 31 """\n""" 13 8 false; mkTok 13 "]" 14 4 false; mkTok 39 ":" 14 5 false; mkTok 42 "metadata" 15 4 false; mkTok 18 "[" 15 13 false; mkTok 44 "/// triple" 16 4 true; mkTok 31 """// no comment""" 17 4 false; mkTok 44 (string_of_bytes [47; 47; 32; 230; 179; 168; 233; 135; 138]%N) 18 0 true; mkTok 44 (string_of_bytes [47; 47; 9; 116]%N) 19 0 true; mkTok 40 "," 20 0 false; mkTok 31 """{,}""" 21 0 false; mkTok 40 "," 22 0 false; mkTok 30 "0" 22 2 false; mkTok 40 "," 23 4 false; mkTok 31 """\n""" 24 4 false; mkTok 40 "," 24 8 false; mkTok 30 "3" 24 10 false; mkTok 13 "]" 24 12 false; mkTok 44 (string_of_bytes [47; 47; 9; 116]%N) 24 13 true; mkTok 39 ":" 25 0 false; mkTok 42 "i8i8" 25 2 false; mkTok 40 "," 25 7 false; mkTok 3 "}" 26 4 false; mkTok 44 "// a // b" 27 0 true; mkTok 44 (string_of_bytes [47; 47; 9; 116]%N) 28 0 true; mkTok 40 "," 29 0 false; mkTok 38 "match" 29 2 false; mkTok 42 "trueish" 29 8 false; mkTok 17 "as" 29 16 false; mkTok 42 "stringy" 29 19 false; mkTok 2 "{" 29 27 false; mkTok 31 """CRC32""" 29 29 false; mkTok 44 "//" 29 36 true; mkTok 39 ":" 30 0 false; mkTok 42 "repeatCount" 30 1 false; mkTok 40 "," 30 13 false; mkTok 44 "// a // b" 31 0 true; mkTok 44 (string_of_bytes [47; 47; 9; 116]%N) 32 0 true; mkTok 18 "[" 33 0 false; mkTok 31 """1""" 33 1 false; mkTok 40 "," 33 4 false; mkTok 31 """a\\""" 33 6 false; mkTok 40 "," 33 12 false; mkTok 31 """a\\""" 34 0 false; mkTok 40 "," 35 0 false; mkTok 30 "007" 36 0 false; mkTok 40 "," 36 3 false; mkTok 30 "10" 36 5 false; mkTok 40 "," 36 8 false; mkTok 31 """1""" 36 9 false; mkTok 40 "," 37 0 false; mkTok 30 "007" 37 1 false; mkTok 13 "]" 38 0 false; mkTok 39 ":" 38 1 false; mkTok 42 "repeatCount" 38 3 false; mkTok 31 (string_of_bytes [34; 92; 195; 169; 34]%N) 38 15 false; mkTok 39 ":" 39 4 false; mkTok 42 "msg_type" 40 4 false; mkTok 40 "," 40 13 false; mkTok 3 "}" 40 15 false; mkTok 40 "," 41 0 false; mkTok 3 "}" 41 1 false; mkTok 0 "<EOF>" 42 0 false] (mkPacket (mkPtok 35 "packet" 1 0 0) (Some (mkPtok 3 "}" 41 1 115)) [(DPacket (mkPacketDef (mkSpan (mkPtok 35 "packet" 1 0 0) (mkPtok 3 "}" 8 51 31)) None (mkPtok 35 "packet" 1 0 0) (mkPtok 42 "calculatedFrom" 1 7 1) (mkPtok 2 "{" 2 4 2) [(mkFieldWithAttr (mkSpan (mkPtok 7 "@lengthOf(" 2 5 3) (mkPtok 40 "," 3 31 11)) [(FALengthOf (mkSpan (mkPtok 7 "@lengthOf(" 2 5 3) (mkPtok 6 ")" 2 20 5)) (mkLengthOf (mkSpan (mkPtok 7 "@lengthOf(" 2 5 3) (mkPtok 6 ")" 2 20 5)) (mkPtok 7 "@lengthOf(" 2 5 3) (mkPtok 42 "pack" 2 15 4) (mkPtok 6 ")" 2 20 5)))] (LengthField (mkSpan (mkPtok 42 "zchar" 3 4 6) (mkPtok 40 "," 3 31 11)) (mkLengthFieldDecl (mkSpan (mkPtok 42 "zchar" 3 4 6) (mkPtok 40 "," 3 31 11)) None (mkPtok 42 "zchar" 3 4 6) (mkLengthOf (mkSpan (mkPtok 7 "@lengthOf(" 3 10 7) (mkPtok 6 ")" 3 24 9)) (mkPtok 7 "@lengthOf(" 3 10 7) (mkPtok 42 "Z9_" 3 21 8) (mkPtok 6 ")" 3 24 9)) (Some (mkPtok 43 "`a\`" 3 26 10)) (mkPtok 40 "," 3 31 11)))); (mkFieldWithAttr (mkSpan (mkPtok 5 "@calculatedFrom(" 4 0 13) (mkPtok 40 "," 4 33 17)) [(FACalculatedFrom (mkSpan (mkPtok 5 "@calculatedFrom(" 4 0 13) (mkPtok 6 ")" 4 23 15)) (mkCalculatedFrom (mkSpan (mkPtok 5 "@calculatedFrom(" 4 0 13) (mkPtok 6 ")" 4 23 15)) (mkPtok 5 "@calculatedFrom(" 4 0 13) (mkPtok 31 """it's""" 4 17 14) (mkPtok 6 ")" 4 23 15)))] (ObjectField (mkSpan (mkPtok 42 "leftPad" 4 25 16) (mkPtok 40 "," 4 33 17)) None (mkPtok 42 "leftPad" 4 25 16) None None (mkPtok 40 "," 4 33 17))); (mkFieldWithAttr (mkSpan (mkPtok 42 "trueish" 4 34 18) (mkPtok 40 "," 4 42 19)) [] (ObjectField (mkSpan (mkPtok 42 "trueish" 4 34 18) (mkPtok 40 "," 4 42 19)) None (mkPtok 42 "trueish" 4 34 18) None None (mkPtok 40 "," 4 42 19))); (mkFieldWithAttr (mkSpan (mkPtok 5 "@calculatedFrom(" 5 0 21) (mkPtok 40 "," 8 50 30)) [(FACalculatedFrom (mkSpan (mkPtok 5 "@calculatedFrom(" 5 0 21) (mkPtok 6 ")" 7 0 23)) (mkCalculatedFrom (mkSpan (mkPtok 5 "@calculatedFrom(" 5 0 21) (mkPtok 6 ")" 7 0 23)) (mkPtok 5 "@calculatedFrom(" 5 0 21) (mkPtok 31 """{,}""" 6 4 22) (mkPtok 6 ")" 7 0 23)))] (CheckSumField (mkSpan (mkPtok 28 "float32" 8 0 24) (mkPtok 40 "," 8 50 30)) (mkChecksumFieldDecl (mkSpan (mkPtok 28 "float32" 8 0 24) (mkPtok 40 "," 8 50 30)) (Some (TyBasic (mkSpan (mkPtok 28 "float32" 8 0 24) (mkPtok 28 "float32" 8 0 24)) (mkBasicType (mkSpan (mkPtok 28 "float32" 8 0 24) (mkPtok 28 "float32" 8 0 24)) (mkPtok 28 "float32" 8 0 24)))) (mkPtok 42 "string_" 8 8 25) (mkCalculatedFrom (mkSpan (mkPtok 5 "@calculatedFrom(" 8 16 26) (mkPtok 6 ")" 8 37 28)) (mkPtok 5 "@calculatedFrom(" 8 16 26) (mkPtok 31 """1""" 8 33 27) (mkPtok 6 ")" 8 37 28)) (Some (mkPtok 43 (string_of_bytes [96; 116; 97; 98; 9; 104; 101; 114; 101; 96]%N) 8 39 29)) (mkPtok 40 "," 8 50 30))))] (mkPtok 3 "}" 8 51 31))); (DPacket (mkPacketDef (mkSpan (mkPtok 35 "packet" 8 53 32) (mkPtok 3 "}" 41 1 115)) None (mkPtok 35 "packet" 8 53 32) (mkPtok 42 "u8x" 9 0 33) (mkPtok 2 "{" 9 3 34) [(mkFieldWithAttr (mkSpan (mkPtok 38 "match" 10 0 35) (mkPtok 40 "," 29 0 79)) [] (MatchField (mkSpan (mkPtok 38 "match" 10 0 35) (mkPtok 40 "," 29 0 79)) (mkMatchFieldDecl (mkSpan (mkPtok 38 "match" 10 0 35) (mkPtok 3 "}" 26 4 76)) (mkPtok 38 "match" 10 0 35) (mkPtok 42 "Header" 10 6 36) (mkPtok 17 "as" 10 13 37) (mkPtok 42 "roots" 11 0 38) (mkPtok 2 "{" 11 6 39) [(mkMatchPair (mkSpan (mkPtok 18 "[" 11 8 40) (mkPtok 42 "metadata" 15 4 57)) (MKList (mkKeyList (mkSpan (mkPtok 18 "[" 11 8 40) (mkPtok 13 "]" 14 4 55)) (mkPtok 18 "[" 11 8 40) (mkPtok 31 (string_of_bytes [34; 230; 182; 136; 230; 129; 175; 34]%N) 12 0 41) [((mkPtok 40 "," 12 5 42), (mkPtok 31 (string_of_bytes [34; 92; 195; 169; 34]%N) 12 6 43)); ((mkPtok 40 "," 12 12 44), (mkPtok 30 "65535" 12 14 45)); ((mkPtok 40 "," 12 20 46), (mkPtok 30 "0" 12 21 47)); ((mkPtok 40 "," 12 22 48), (mkPtok 30 "10" 12 24 49)); ((mkPtok 40 "," 12 26 50), (mkPtok 30 "65535" 13 0 52)); ((mkPtok 40 "," 13 6 53), (mkPtok 31 """\n""" 13 8 54))] (mkPtok 13 "]" 14 4 55))) (mkPtok 39 ":" 14 5 56) (mkPtok 42 "metadata" 15 4 57) None); (mkMatchPair (mkSpan (mkPtok 18 "[" 15 13 58) (mkPtok 40 "," 25 7 75)) (MKList (mkKeyList (mkSpan (mkPtok 18 "[" 15 13 58) (mkPtok 13 "]" 24 12 71)) (mkPtok 18 "[" 15 13 58) (mkPtok 31 """// no comment""" 17 4 60) [((mkPtok 40 "," 20 0 63), (mkPtok 31 """{,}""" 21 0 64)); ((mkPtok 40 "," 22 0 65), (mkPtok 30 "0" 22 2 66)); ((mkPtok 40 "," 23 4 67), (mkPtok 31 """\n""" 24 4 68)); ((mkPtok 40 "," 24 8 69), (mkPtok 30 "3" 24 10 70))] (mkPtok 13 "]" 24 12 71))) (mkPtok 39 ":" 25 0 73) (mkPtok 42 "i8i8" 25 2 74) (Some (mkPtok 40 "," 25 7 75)))] (mkPtok 3 "}" 26 4 76)) (mkPtok 40 "," 29 0 79))); (mkFieldWithAttr (mkSpan (mkPtok 38 "match" 29 2 80) (mkPtok 40 "," 41 0 114)) [] (MatchField (mkSpan (mkPtok 38 "match" 29 2 80) (mkPtok 40 "," 41 0 114)) (mkMatchFieldDecl (mkSpan (mkPtok 38 "match" 29 2 80) (mkPtok 3 "}" 40 15 113)) (mkPtok 38 "match" 29 2 80) (mkPtok 42 "trueish" 29 8 81) (mkPtok 17 "as" 29 16 82) (mkPtok 42 "stringy" 29 19 83) (mkPtok 2 "{" 29 27 84) [(mkMatchPair (mkSpan (mkPtok 31 """CRC32""" 29 29 85) (mkPtok 40 "," 30 13 89)) (MKString (mkPtok 31 """CRC32""" 29 29 85)) (mkPtok 39 ":" 30 0 87) (mkPtok 42 "repeatCount" 30 1 88) (Some (mkPtok 40 "," 30 13 89))); (mkMatchPair (mkSpan (mkPtok 18 "[" 33 0 92) (mkPtok 42 "repeatCount" 38 3 108)) (MKList (mkKeyList (mkSpan (mkPtok 18 "[" 33 0 92) (mkPtok 13 "]" 38 0 106)) (mkPtok 18 "[" 33 0 92) (mkPtok 31 """1""" 33 1 93) [((mkPtok 40 "," 33 4 94), (mkPtok 31 """a\\""" 33 6 95)); ((mkPtok 40 "," 33 12 96), (mkPtok 31 """a\\""" 34 0 97)); ((mkPtok 40 "," 35 0 98), (mkPtok 30 "007" 36 0 99)); ((mkPtok 40 "," 36 3 100), (mkPtok 30 "10" 36 5 101)); ((mkPtok 40 "," 36 8 102), (mkPtok 31 """1""" 36 9 103)); ((mkPtok 40 "," 37 0 104), (mkPtok 30 "007" 37 1 105))] (mkPtok 13 "]" 38 0 106))) (mkPtok 39 ":" 38 1 107) (mkPtok 42 "repeatCount" 38 3 108) None); (mkMatchPair (mkSpan (mkPtok 31 (string_of_bytes [34; 92; 195; 169; 34]%N) 38 15 109) (mkPtok 40 "," 40 13 112)) (MKString (mkPtok 31 (string_of_bytes [34; 92; 195; 169; 34]%N) 38 15 109)) (mkPtok 39 ":" 39 4 110) (mkPtok 42 "msg_type" 40 4 111) (Some (mkPtok 40 "," 40 13 112)))] (mkPtok 3 "}" 40 15 113)) (mkPtok 40 "," 41 0 114)))] (mkPtok 3 "}" 41 1 115)))])).
Eval vm_compute in ("<<<M794>>>" ++ check (runes_of_ascii "MetaData // " ++ [128512]%N ++ runes_of_ascii " emoji
MetaDataX
    { }
    options { } options { Pad =
42;
    //x
    }
    // trailing space 
    packet calculatedFrom {
repeat o
{ // trailing space 
o  { zchar[ // 50% %s
007 ] x
`100% of %d`,
    } , } , }
root packet uint8x{
@calculatedFrom( ""a\\""
    //
    )
// `tick` ""quote"" 'q'
// trailing space 
uint16	pack@calculatedFrom(
    //x
    ""\n""
    // trailing space 
    ),
} // c")).
Eval vm_compute in ("<<<M826>>>" ++ check (runes_of_ascii "  packet stringy
    //	t
    { @calculatedFrom( ""abc"" ) @calculatedFrom(
    ""abc""
    )	repeat char[
1] charz
, @lengthOf( float
    )
@tag( 00 ) @calculatedFrom(
""{,}"" ) // `tick` ""quote"" 'q'
match int as// 50% %s
body
{ [ """"
    ,
4294967296 , 0
]
: float
// 50% %s
// packet A { u8 x, }
, } , }	packet crc { @rightPad ( ' ' ) @calculatedFrom(""" ++ [128512]%N ++ runes_of_ascii """
    ) @tag(
// `tick` ""quote"" 'q'
//	t
00
    )
int16 falsey  `u8 x,` // `tick` ""quote"" 'q'
, // c
@leftPad ( '\x00'	)
string_
    ,	@lengthOf(
repeatCount )f64
f32a
    // " ++ [128512]%N ++ runes_of_ascii " emoji
    @lengthOf( u8x)
    // @lengthOf(
    , char[] falsey
, @tag(
42
)
@tag( 10 )zchar[
//	t
// " ++ [128512]%N ++ runes_of_ascii " emoji
255
    //x
    ] body
`
`
,
@tag(65535 ) // " ++ [27880; 37322]%N ++ runes_of_ascii "
crc @calculatedFrom( ""CRC32"" ),	} options // " ++ [128512]%N ++ runes_of_ascii " emoji
{  repeatCount = // trailing space 
'0'	}")).
Eval vm_compute in ("<<<M858>>>" ++ check (runes_of_ascii "
packet T { repeat asx `// not a comment`, @tag( 0 )
    u128 { packetx	`line1
line2` , }
    , int16 As
`u8 x,` , }
")).
Eval vm_compute in ("<<<M890>>>" ++ check (runes_of_ascii "packet
repeatCount {// `tick` ""quote"" 'q'
u {
    /// triple
    repeat char[] packetx ,x_y_z { repeat
Foo Z9_
, match asx // " ++ [128512]%N ++ runes_of_ascii " emoji
as Logon
{ 1 :stringy , [ ""abc""
, 7	, ""abc"",
    10
    ,""1"" /// triple
] : charz
, }
,
    uint8x { MetaDataX roots
// packet A { u8 x, }
//x
,// 50% %s
u8  pack @calculatedFrom(
""\n""
)
// c
// @lengthOf(
, }
    ,x body ,
    // " ++ [27880; 37322]%N ++ runes_of_ascii "
    } ,}
    , @lengthOf( tag ) asx /// triple
,	zchar[
    00  ]x_y_z @calculatedFrom(""\" ++ [233]%N ++ runes_of_ascii """  )// trailing space 
`tab	here` , @calculatedFrom(
""CRC32""
    ) int32
// @lengthOf(
// @lengthOf(
A , @calculatedFrom( ""it's"" )	@leftPad ( ' ')@rightPad ( '\x00'
) match
leftPad	as roots{
    [ 255, 007
    //	t
    , 00//
, ""packet""] // " ++ [128512]%N ++ runes_of_ascii " emoji
:
    trueish ,// " ++ [27880; 37322]%N ++ runes_of_ascii "
}
, @tag(
    3 )string options1  @calculatedFrom( ""`tick`""
)`100% of %d` // trailing space 
, @leftPad (  '\x00'
)string uint8x , @leftPad (	' ')
    @calculatedFrom(""// no comment"") // " ++ [27880; 37322]%N ++ runes_of_ascii "
@tag( 00 ) metadata	@calculatedFrom(""1"" ) , }
    root packet a1 { chars
@calculatedFrom( ""\" ++ [233]%N ++ runes_of_ascii """ ) , @tag(
    0123456789
    // packet A { u8 x, }
    )
repeatCount i64_ , repeat len { repeat
zchar[ 255 ]
A `" ++ [233]%N ++ runes_of_ascii "` ,  string
calculatedFrom`100% of %d`, f32
    asx, } ,
@leftPad	(	) uint64 crc
    `a\` ,
@tag( 0123456789
    // 50% %s
    )
string string_ ,
T
{
char[ 255 ] T ,
}, calculatedFrom string_  ,
}MetaData leftPad {
o f32a
,
//	t
//	t
}
MetaData lengthOf
    {string	charz , u64 len
`{ , }`
//x
//	t
,
u16 T `tab	here`, char[] Foo, }
packet	f32a
    // `tick` ""quote"" 'q'
    {
match string_ as crc
// @lengthOf(
// `tick` ""quote"" 'q'
{255 :
Z9_,
[
    """ ++ [128512]%N ++ runes_of_ascii """
, 7]
    :
leftPad,
    // trailing space 
    ""\n""
:
float """ ++ [233]%N ++ runes_of_ascii "t" ++ [233]%N ++ runes_of_ascii """	: f32a , }
, repeat u128 { string int
/// triple
//	t
@lengthOf( rootA ) ,  }	, u , }

")).
Eval vm_compute in ("<<<M922>>>" ++ check (runes_of_ascii "
packet T {
match matchKey as
u8x { 7 :matchKey [ //
""""
] /// triple
: Header , [ // trailing space 
1  ,
""packet""
] :
f32a ""\" ++ [233]%N ++ runes_of_ascii """	:
calculatedFrom
    ,
255 : //	t
metadata
}
    ,
    @lengthOf(i8i8) @lengthOf(float	)
@calculatedFrom(""a\\"" )  pack
    // `tick` ""quote"" 'q'
    @lengthOf(
packetx) `crlf
line`
,
match rootA
// " ++ [27880; 37322]%N ++ runes_of_ascii "
// packet A { u8 x, }
as Z9_
// " ++ [27880; 37322]%N ++ runes_of_ascii "
// a // b
{ [""CRC32"" ] : o // @lengthOf(
, ""it's"" :stringy
    , 3
: a1 ,""it's""
:// @lengthOf(
u8x
    }, char
    falsey
,f32
i64_
// packet A { u8 x, }
// a // b
,@leftPad ( //x
' ' )
    i8i8
{trueish @calculatedFrom( """ ++ [128512]%N ++ runes_of_ascii """	) , }
    , @lengthOf(	As )
    a1 leftPad,
// `tick` ""quote"" 'q'
// `tick` ""quote"" 'q'
}")).
Eval vm_compute in ("<<<M954>>>" ++ check (runes_of_ascii "
packet body { @tag(
255 ) int @lengthOf( float )
,}
")).
Eval vm_compute in ("<<<M986>>>" ++ check (runes_of_ascii "packet
body { repeat char[	0123456789]
u128 `doc` ,
    }  options {
    chars =
7 asx = ""abc"" T = char ;
//	t
// trailing space 
a1 // `tick` ""quote"" 'q'
= int8 tag =	""" ++ [128512]%N ++ runes_of_ascii """ ;
}
")).
Eval vm_compute in ("<<<T986>>>" ++ terms [mkTok 35 "packet" 1 0 false; mkTok 42 "body" 2 0 false; mkTok 2 "{" 2 5 false; mkTok 36 "repeat" 2 7 false; mkTok 12 "char[" 2 14 false; mkTok 30 "0123456789" 2 20 false; mkTok 13 "]" 2 30 false; mkTok 42 "u128" 3 0 false; mkTok 43 "`doc`" 3 5 false; mkTok 40 "," 3 11 false; mkTok 3 "}" 4 4 false; mkTok 1 "options" 4 7 false; mkTok 2 "{" 4 15 false; mkTok 42 "chars" 5 4 false; mkTok 4 "=" 5 10 false; mkTok 30 "7" 6 0 false; mkTok 42 "asx" 6 2 false; mkTok 4 "=" 6 6 false; mkTok 31 """abc""" 6 8 false; mkTok 42 "T" 6 14 false; mkTok 4 "=" 6 16 false; mkTok 19 "char" 6 18 false; mkTok 41 ";" 6 23 false; mkTok 44 (string_of_bytes [47; 47; 9; 116]%N) 7 0 true; mkTok 44 "// trailing space " 8 0 true; mkTok 42 "a1" 9 0 false; mkTok 44 "// `tick` ""quote"" 'q'" 9 3 true; mkTok 4 "=" 10 0 false; mkTok 24 "int8" 10 2 false; mkTok 42 "tag" 10 7 false; mkTok 4 "=" 10 11 false; mkTok 31 (string_of_bytes [34; 240; 159; 152; 128; 34]%N) 10 13 false; mkTok 41 ";" 10 17 false; mkTok 3 "}" 11 0 false; mkTok 0 "<EOF>" 12 0 false] (mkPacket (mkPtok 35 "packet" 1 0 0) (Some (mkPtok 3 "}" 11 0 33)) [(DPacket (mkPacketDef (mkSpan (mkPtok 35 "packet" 1 0 0) (mkPtok 3 "}" 4 4 10)) None (mkPtok 35 "packet" 1 0 0) (mkPtok 42 "body" 2 0 1) (mkPtok 2 "{" 2 5 2) [(mkFieldWithAttr (mkSpan (mkPtok 36 "repeat" 2 7 3) (mkPtok 40 "," 3 11 9)) [] (MetaField (mkSpan (mkPtok 36 "repeat" 2 7 3) (mkPtok 40 "," 3 11 9)) (Some (mkPtok 36 "repeat" 2 7 3)) (mkMetaDecl (mkSpan (mkPtok 12 "char[" 2 14 4) (mkPtok 40 "," 3 11 9)) (TyFixed (mkSpan (mkPtok 12 "char[" 2 14 4) (mkPtok 13 "]" 2 30 6)) (mkFixedString (mkSpan (mkPtok 12 "char[" 2 14 4) (mkPtok 13 "]" 2 30 6)) (mkPtok 12 "char[" 2 14 4) (mkPtok 30 "0123456789" 2 20 5) (mkPtok 13 "]" 2 30 6))) (mkPtok 42 "u128" 3 0 7) (Some (mkPtok 43 "`doc`" 3 5 8)) (mkPtok 40 "," 3 11 9))))] (mkPtok 3 "}" 4 4 10))); (DOption (mkOptionDef (mkSpan (mkPtok 1 "options" 4 7 11) (mkPtok 3 "}" 11 0 33)) (mkPtok 1 "options" 4 7 11) (mkPtok 2 "{" 4 15 12) [(mkOptionDecl (mkSpan (mkPtok 42 "chars" 5 4 13) (mkPtok 30 "7" 6 0 15)) (mkPtok 42 "chars" 5 4 13) (mkPtok 4 "=" 5 10 14) (VDigits (mkSpan (mkPtok 30 "7" 6 0 15) (mkPtok 30 "7" 6 0 15)) (mkPtok 30 "7" 6 0 15)) None); (mkOptionDecl (mkSpan (mkPtok 42 "asx" 6 2 16) (mkPtok 31 """abc""" 6 8 18)) (mkPtok 42 "asx" 6 2 16) (mkPtok 4 "=" 6 6 17) (VString (mkSpan (mkPtok 31 """abc""" 6 8 18) (mkPtok 31 """abc""" 6 8 18)) (mkPtok 31 """abc""" 6 8 18)) None); (mkOptionDecl (mkSpan (mkPtok 42 "T" 6 14 19) (mkPtok 41 ";" 6 23 22)) (mkPtok 42 "T" 6 14 19) (mkPtok 4 "=" 6 16 20) (VType (mkSpan (mkPtok 19 "char" 6 18 21) (mkPtok 19 "char" 6 18 21)) (TyBasic (mkSpan (mkPtok 19 "char" 6 18 21) (mkPtok 19 "char" 6 18 21)) (mkBasicType (mkSpan (mkPtok 19 "char" 6 18 21) (mkPtok 19 "char" 6 18 21)) (mkPtok 19 "char" 6 18 21)))) (Some (mkPtok 41 ";" 6 23 22))); (mkOptionDecl (mkSpan (mkPtok 42 "a1" 9 0 25) (mkPtok 24 "int8" 10 2 28)) (mkPtok 42 "a1" 9 0 25) (mkPtok 4 "=" 10 0 27) (VType (mkSpan (mkPtok 24 "int8" 10 2 28) (mkPtok 24 "int8" 10 2 28)) (TyBasic (mkSpan (mkPtok 24 "int8" 10 2 28) (mkPtok 24 "int8" 10 2 28)) (mkBasicType (mkSpan (mkPtok 24 "int8" 10 2 28) (mkPtok 24 "int8" 10 2 28)) (mkPtok 24 "int8" 10 2 28)))) None); (mkOptionDecl (mkSpan (mkPtok 42 "tag" 10 7 29) (mkPtok 41 ";" 10 17 32)) (mkPtok 42 "tag" 10 7 29) (mkPtok 4 "=" 10 11 30) (VString (mkSpan (mkPtok 31 (string_of_bytes [34; 240; 159; 152; 128; 34]%N) 10 13 31) (mkPtok 31 (string_of_bytes [34; 240; 159; 152; 128; 34]%N) 10 13 31)) (mkPtok 31 (string_of_bytes [34; 240; 159; 152; 128; 34]%N) 10 13 31)) (Some (mkPtok 41 ";" 10 17 32)))] (mkPtok 3 "}" 11 0 33)))])).
Eval vm_compute in ("<<<M1018>>>" ++ check (runes_of_ascii "
")).
Eval vm_compute in ("<<<M1050>>>" ++ check (runes_of_ascii "packet x_y_z {
}
")).
Eval vm_compute in ("<<<M1082>>>" ++ check (runes_of_ascii "// `tick` ""quote"" 'q'
packet Packet	{  char	Header
    `crlf
line`,	}
    options
{falsey
    // trailing space 
    =
""a	b""
; }
    packet Pad
    // c
    { repeat
charz{
    int32
    Pad
    `a\`
,
/// triple
// 50% %s
char[
0123456789
    // packet A { u8 x, }
    ]
// " ++ [128512]%N ++ runes_of_ascii " emoji
// 50% %s
u128 @calculatedFrom( ""packet"")`// not a comment`
, // @lengthOf(
_x//x
i64_  , match o as
    /// triple
    tag {	[ 00 ] : pack} , }	,	@lengthOf(	stringy )
f32 body
`tab	here`
    ,
repeat	string_, @lengthOf( lengthOf )rootA
    @lengthOf( x ) , i8i8 Packet ,@tag(
    3  )
    zchar[  0123456789 ] A
`// not a comment` ,	repeat char[] BodyLength	`{ , }`
    /// triple
    , A stringy , } root packet
a1
{ } MetaData msg_type { string_
    A ,
uint16 f32a
,
/// triple
// @lengthOf(
asx MetaDataX
,zchar[ 00 ] msg_type// c
, }")).
Eval vm_compute in ("<<<M1114>>>" ++ check (runes_of_ascii "packet string_
    {	}")).
Eval vm_compute in ("<<<M1146>>>" ++ check (runes_of_ascii "options
{leftPad // trailing space 
=""x y"" // " ++ [27880; 37322]%N ++ runes_of_ascii "
; } 	 ")).
Eval vm_compute in ("<<<M1178>>>" ++ check (@nil rune)).
Eval vm_compute in ("<<<M1210>>>" ++ check (runes_of_ascii "MetaData _x { char[
255
] MetaDataX // trailing space 
`doc` , } options { f32a =
    zchar[
    // " ++ [27880; 37322]%N ++ runes_of_ascii "
    42
]
    ; body = ""`tick`"" //x
;
As = // c
true tag =3
    ;packetx =
    true } //	t")).
Eval vm_compute in ("<<<T1210>>>" ++ terms [mkTok 37 "MetaData" 1 0 false; mkTok 42 "_x" 1 9 false; mkTok 2 "{" 1 12 false; mkTok 12 "char[" 1 14 false; mkTok 30 "255" 2 0 false; mkTok 13 "]" 3 0 false; mkTok 42 "MetaDataX" 3 2 false; mkTok 44 "// trailing space " 3 12 true; mkTok 43 "`doc`" 4 0 false; mkTok 40 "," 4 6 false; mkTok 3 "}" 4 8 false; mkTok 1 "options" 4 10 false; mkTok 2 "{" 4 18 false; mkTok 42 "f32a" 4 20 false; mkTok 4 "=" 4 25 false; mkTok 14 "zchar[" 5 4 false; mkTok 44 (string_of_bytes [47; 47; 32; 230; 179; 168; 233; 135; 138]%N) 6 4 true; mkTok 30 "42" 7 4 false; mkTok 13 "]" 8 0 false; mkTok 41 ";" 9 4 false; mkTok 42 "body" 9 6 false; mkTok 4 "=" 9 11 false; mkTok 31 """`tick`""" 9 13 false; mkTok 44 "//x" 9 22 true; mkTok 41 ";" 10 0 false; mkTok 42 "As" 11 0 false; mkTok 4 "=" 11 3 false; mkTok 44 "// c" 11 5 true; mkTok 10 "true" 12 0 false; mkTok 42 "tag" 12 5 false; mkTok 4 "=" 12 9 false; mkTok 30 "3" 12 10 false; mkTok 41 ";" 13 4 false; mkTok 42 "packetx" 13 5 false; mkTok 4 "=" 13 13 false; mkTok 10 "true" 14 4 false; mkTok 3 "}" 14 9 false; mkTok 44 (string_of_bytes [47; 47; 9; 116]%N) 14 11 true; mkTok 0 "<EOF>" 14 15 false] (mkPacket (mkPtok 37 "MetaData" 1 0 0) (Some (mkPtok 3 "}" 14 9 36)) [(DMeta (mkMetaDef (mkSpan (mkPtok 37 "MetaData" 1 0 0) (mkPtok 3 "}" 4 8 10)) (mkPtok 37 "MetaData" 1 0 0) (mkPtok 42 "_x" 1 9 1) (mkPtok 2 "{" 1 12 2) [(MIDecl (mkMetaDecl (mkSpan (mkPtok 12 "char[" 1 14 3) (mkPtok 40 "," 4 6 9)) (TyFixed (mkSpan (mkPtok 12 "char[" 1 14 3) (mkPtok 13 "]" 3 0 5)) (mkFixedString (mkSpan (mkPtok 12 "char[" 1 14 3) (mkPtok 13 "]" 3 0 5)) (mkPtok 12 "char[" 1 14 3) (mkPtok 30 "255" 2 0 4) (mkPtok 13 "]" 3 0 5))) (mkPtok 42 "MetaDataX" 3 2 6) (Some (mkPtok 43 "`doc`" 4 0 8)) (mkPtok 40 "," 4 6 9)))] (mkPtok 3 "}" 4 8 10))); (DOption (mkOptionDef (mkSpan (mkPtok 1 "options" 4 10 11) (mkPtok 3 "}" 14 9 36)) (mkPtok 1 "options" 4 10 11) (mkPtok 2 "{" 4 18 12) [(mkOptionDecl (mkSpan (mkPtok 42 "f32a" 4 20 13) (mkPtok 41 ";" 9 4 19)) (mkPtok 42 "f32a" 4 20 13) (mkPtok 4 "=" 4 25 14) (VType (mkSpan (mkPtok 14 "zchar[" 5 4 15) (mkPtok 13 "]" 8 0 18)) (TyFixed (mkSpan (mkPtok 14 "zchar[" 5 4 15) (mkPtok 13 "]" 8 0 18)) (mkFixedString (mkSpan (mkPtok 14 "zchar[" 5 4 15) (mkPtok 13 "]" 8 0 18)) (mkPtok 14 "zchar[" 5 4 15) (mkPtok 30 "42" 7 4 17) (mkPtok 13 "]" 8 0 18)))) (Some (mkPtok 41 ";" 9 4 19))); (mkOptionDecl (mkSpan (mkPtok 42 "body" 9 6 20) (mkPtok 41 ";" 10 0 24)) (mkPtok 42 "body" 9 6 20) (mkPtok 4 "=" 9 11 21) (VString (mkSpan (mkPtok 31 """`tick`""" 9 13 22) (mkPtok 31 """`tick`""" 9 13 22)) (mkPtok 31 """`tick`""" 9 13 22)) (Some (mkPtok 41 ";" 10 0 24))); (mkOptionDecl (mkSpan (mkPtok 42 "As" 11 0 25) (mkPtok 10 "true" 12 0 28)) (mkPtok 42 "As" 11 0 25) (mkPtok 4 "=" 11 3 26) (VTrue (mkSpan (mkPtok 10 "true" 12 0 28) (mkPtok 10 "true" 12 0 28)) (mkPtok 10 "true" 12 0 28)) None); (mkOptionDecl (mkSpan (mkPtok 42 "tag" 12 5 29) (mkPtok 41 ";" 13 4 32)) (mkPtok 42 "tag" 12 5 29) (mkPtok 4 "=" 12 9 30) (VDigits (mkSpan (mkPtok 30 "3" 12 10 31) (mkPtok 30 "3" 12 10 31)) (mkPtok 30 "3" 12 10 31)) (Some (mkPtok 41 ";" 13 4 32))); (mkOptionDecl (mkSpan (mkPtok 42 "packetx" 13 5 33) (mkPtok 10 "true" 14 4 35)) (mkPtok 42 "packetx" 13 5 33) (mkPtok 4 "=" 13 13 34) (VTrue (mkSpan (mkPtok 10 "true" 14 4 35) (mkPtok 10 "true" 14 4 35)) (mkPtok 10 "true" 14 4 35)) None)] (mkPtok 3 "}" 14 9 36)))])).
Eval vm_compute in ("<<<M1242>>>" ++ check (runes_of_ascii " 	 ")).
Eval vm_compute in ("<<<M1274>>>" ++ check (runes_of_ascii "
root packet
    packetx	{@calculatedFrom( ""abc"")
    As@calculatedFrom( """ ++ [233]%N ++ runes_of_ascii "t" ++ [233]%N ++ runes_of_ascii """ ) ,
@lengthOf(
A  ) @rightPad ( '0')@calculatedFrom(
""it's""	)
    uint8 u // trailing space 
@lengthOf( u8x ) ,  @leftPad (	'0'
) @tag( 0
) @lengthOf(Packet ) string_
// 50% %s
//
,
    // a // b
    matchKey @calculatedFrom( ""abc"" )
,}
")).
Eval vm_compute in ("<<<M1306>>>" ++ check (runes_of_ascii "packet o
{repeat
int8 o
, }
MetaData i8i8{ falsey _x , leftPad
body
,char[
65535 ] float `two words`
    , f32
BodyLength , }
MetaData a1 {
    uint64 Header , packetx packetx `it's`, int16 lengthOf
, x x_y_z, } packet roots //x
{ @calculatedFrom(
""// no comment""
) x_y_z// packet A { u8 x, }
, } options	{tag =
string
    ; pack =65535; leftPad	=char[65535 ]
Z9_
    = ""`tick`"" ;
}

")).
Eval vm_compute in ("<<<M1338>>>" ++ check (runes_of_ascii "MetaData o { char[]	Header `
`
    ,stringy
    trueish
, Logon a1
    `line1
line2`
// " ++ [128512]%N ++ runes_of_ascii " emoji
//	t
, } root packet// a // b
uint8x
    { @lengthOf(zchar	)	@tag( 4294967296	)
@leftPad ( '\x00'	)repeat BodyLength ,}
")).
Eval vm_compute in ("<<<M1370>>>" ++ check (runes_of_ascii "packet
tag { rootA @lengthOf(
    // 50% %s
    matchKey ) `{ , }` , @calculatedFrom( ""abc"")
/// triple
//	t
T
x
`" ++ [233]%N ++ runes_of_ascii "`
, @calculatedFrom( ""packet"" )
char[// `tick` ""quote"" 'q'
10 ] uint8x `tab	here`
, crc float , @leftPad
    (
' '
)
    // trailing space 
    repeat i8i8 {
    // trailing space 
    match len as packetx
    {//x
""\n""
    //
    : a1
,4294967296 :	falsey , 65535:o ,} // `tick` ""quote"" 'q'
,}// 50% %s
, @leftPad (
    '0')
/// triple
//
u64 matchKey @lengthOf(lengthOf )  , }")).
Eval vm_compute in ("<<<M1402>>>" ++ check (runes_of_ascii "options{
    u =
// 50% %s
// trailing space 
'\x00' ; zchar//x
= true ; }
")).
Eval vm_compute in ("<<<M1434>>>" ++ check (runes_of_ascii "// a // b
 // " ++ [128512]%N ++ runes_of_ascii " emoji")).
Eval vm_compute in ("<<<T1434>>>" ++ terms [mkTok 44 "// a // b" 1 0 true; mkTok 44 (string_of_bytes [47; 47; 32; 240; 159; 152; 128; 32; 101; 109; 111; 106; 105]%N) 2 1 true; mkTok 0 "<EOF>" 2 11 false] (mkPacket (mkPtok 0 "<EOF>" 2 11 2) None [])).
Eval vm_compute in ("<<<M1466>>>" ++ check (runes_of_ascii "packet x_y_z { @lengthOf( crc
    ) match repeatCount as
u8x	{
    // 50% %s
    """" :
    string_// " ++ [128512]%N ++ runes_of_ascii " emoji
, 4294967296
    /// triple
    :// a // b
msg_type
    ,// 50% %s
} , @tag(
    007) float { char[
    // c
    3
    ]MetaDataX @lengthOf(
u
) , } // c
,@leftPad
    ( ' ' ) repeat
    char[]trueish
    `two words`
, }
    //x
    root packet // " ++ [128512]%N ++ runes_of_ascii " emoji
asx {zchar[ 10 // " ++ [27880; 37322]%N ++ runes_of_ascii "
]f32a @calculatedFrom( ""x y"" ),	@calculatedFrom( ""abc"" ) zchar[ 10 ] u8x ,
    repeat  _x
{// " ++ [128512]%N ++ runes_of_ascii " emoji
int8 charz `two words` ,i16 u128 ,
} ,/// triple
packetx  @lengthOf( Logon
)
// `tick` ""quote"" 'q'
// `tick` ""quote"" 'q'
`" ++ [28040; 24687; 31867; 22411]%N ++ runes_of_ascii "`
, char[00 ]
pack , @rightPad
( ) match
repeatCount as	packetx {
""1"" : int , }, match stringy as
    leftPad
{ [ 00 , ""a	b"" ] // " ++ [128512]%N ++ runes_of_ascii " emoji
:
    As, }
    ,
f64 crc @lengthOf(
    float) , @leftPad('\x00' )
    // a // b
    @rightPad (
    ' ' )	repeat roots packetx
    , @tag(
65535
//	t
// " ++ [128512]%N ++ runes_of_ascii " emoji
)  uint64 matchKey,}
    // a // b
    root packet Logon
    { } MetaData Packet {
    string asx `u8 x,`
    , }
")).
Eval vm_compute in ("<<<M1498>>>" ++ check (runes_of_ascii "MetaData // c
Header {
Header
u ``
// `tick` ""quote"" 'q'
// @lengthOf(
, char[
4294967296 ]
u128 ,
    float32 falsey ,
char[10 ]
    // c
    roots`tab	here`
, int64 calculatedFrom `" ++ [233]%N ++ runes_of_ascii "`
, }")).
Eval vm_compute in ("<<<M1530>>>" ++ check (runes_of_ascii "MetaData zchar{
zchar[
    4294967296 ] _x`tab	here`
    ,} MetaData
leftPad {
char[
65535
] x//x
`" ++ [233]%N ++ runes_of_ascii "` ,  char[ 3 ] options1
// `tick` ""quote"" 'q'
// `tick` ""quote"" 'q'
, uint8 Foo `tab	here`
// " ++ [128512]%N ++ runes_of_ascii " emoji
// `tick` ""quote"" 'q'
,}	root packet options1 {
    repeat	u	{
    match chars
    as // a // b
packetx{ [
    1
// " ++ [128512]%N ++ runes_of_ascii " emoji
//x
, // c
""packet"" , ""{,}"" ,
""it's"", """ ++ [233]%N ++ runes_of_ascii "t" ++ [233]%N ++ runes_of_ascii """ ,00 ] :
    A , [ ""CRC32""
]
: falsey,""abc"": i64_ , ""a\\"": crc
    , [ ""{,}"" , 10 ] : trueish ,
""1""
:
    string_}
, } , char[3
// " ++ [27880; 37322]%N ++ runes_of_ascii "
// 50% %s
] Pad
`{ , }`
    , repeat char[
    // `tick` ""quote"" 'q'
    255 ]
    /// triple
    crc ,
@calculatedFrom( ""packet"" ) @tag(
3) @tag(00) Packet @calculatedFrom(""" ++ [128512]%N ++ runes_of_ascii """
) ,  }
")).
Eval vm_compute in ("<<<M1562>>>" ++ check (runes_of_ascii "
")).
Eval vm_compute in ("<<<M1594>>>" ++ check (runes_of_ascii "MetaData tag	{
_x	u	,chars charz `tab	here`
    ,As matchKey ,
    a1 i64_ // @lengthOf(
`say ""hi""` , } options {Z9_
    =char//x
;Header =
    f32 ; } root packet A// " ++ [27880; 37322]%N ++ runes_of_ascii "
{ @leftPad ()repeat
    Packet,@lengthOf(u8x ) stringy @calculatedFrom( ""abc""
    ) `say ""hi""`, } root packet asx  { As@lengthOf(
matchKey ) `it's` ,
    //x
    crc
@calculatedFrom( """ ++ [28040; 24687]%N ++ runes_of_ascii """ ) `line1
line2` ,@lengthOf(uint8x
    )  body @lengthOf( charz )`// not a comment` , As@calculatedFrom(
""" ++ [128512]%N ++ runes_of_ascii """
) `// not a comment` , }
")).
Eval vm_compute in ("<<<M1626>>>" ++ check (runes_of_ascii "options{
_x = char[
    7
] // " ++ [128512]%N ++ runes_of_ascii " emoji
;roots = 0123456789	; calculatedFrom = true
i8i8 = string	; } packet uint8x
{ repeat rootA x_y_z `
` , }
    options {Z9_
=1
    ; x_y_z
= 4294967296
; Foo= '\x00' ;
chars	=//
""packet"" T = ""abc""}")).
Eval vm_compute in ("<<<M1658>>>" ++ check (runes_of_ascii "root // " ++ [27880; 37322]%N ++ runes_of_ascii "
packet u128// " ++ [128512]%N ++ runes_of_ascii " emoji
{ } options { lengthOf =""// no comment""
    ;	stringy =
' ' int	=
""CRC32"" uint8x = false }	packet
asx { @tag(255 )
// " ++ [27880; 37322]%N ++ runes_of_ascii "
/// triple
@lengthOf( Header	) int64//	t
options1
@lengthOf( zchar)`line1
line2` , // c
@rightPad
(
    ' ' )
match //x
Z9_ as options1 {
[ 65535 , 4294967296
// " ++ [128512]%N ++ runes_of_ascii " emoji
//
, ""a\\""
    , """ ++ [128512]%N ++ runes_of_ascii """ ,""{,}"" ,
00 ,// trailing space 
1
// c
// " ++ [128512]%N ++ runes_of_ascii " emoji
,
//	t
//	t
""a	b"" ]: Packet , [
    007
,""abc"" , ""it's"", 7
, ""\n"" ] : //x
pack
,
    [ 4294967296
] : u
, //
0 :
msg_type, [ 65535
    , ""a\\"",
    // 50% %s
    42 ] :body , 65535
    // a // b
    : u , } ,@lengthOf( BodyLength )
u8
    As @lengthOf( _x),
} MetaData body
{ f32a u8x, }
")).
Eval vm_compute in ("<<<T1658>>>" ++ terms [mkTok 34 "root" 1 0 false; mkTok 44 (string_of_bytes [47; 47; 32; 230; 179; 168; 233; 135; 138]%N) 1 5 true; mkTok 35 "packet" 2 0 false; mkTok 42 "u128" 2 7 false; mkTok 44 (string_of_bytes [47; 47; 32; 240; 159; 152; 128; 32; 101; 109; 111; 106; 105]%N) 2 11 true; mkTok 2 "{" 3 0 false; mkTok 3 "}" 3 2 false; mkTok 1 "options" 3 4 false; mkTok 2 "{" 3 12 false; mkTok 42 "lengthOf" 3 14 false; mkTok 4 "=" 3 23 false; mkTok 31 """// no comment""" 3 24 false; mkTok 41 ";" 4 4 false; mkTok 42 "stringy" 4 6 false; mkTok 4 "=" 4 14 false; mkTok 33 "' '" 5 0 false; mkTok 42 "int" 5 4 false; mkTok 4 "=" 5 8 false; mkTok 31 """CRC32""" 6 0 false; mkTok 42 "uint8x" 6 8 false; mkTok 4 "=" 6 15 false; mkTok 11 "false" 6 17 false; mkTok 3 "}" 6 23 false; mkTok 35 "packet" 6 25 false; mkTok 42 "asx" 7 0 false; mkTok 2 "{" 7 4 false; mkTok 9 "@tag(" 7 6 false; mkTok 30 "255" 7 11 false; mkTok 6 ")" 7 15 false; mkTok 44 (string_of_bytes [47; 47; 32; 230; 179; 168; 233; 135; 138]%N) 8 0 true; mkTok 44 "/// triple" 9 0 true; mkTok 7 "@lengthOf(" 10 0 false; mkTok 42 "Header" 10 11 false; mkTok 6 ")" 10 18 false; mkTok 27 "int64" 10 20 false; mkTok 44 (string_of_bytes [47; 47; 9; 116]%N) 10 25 true; mkTok 42 "options1" 11 0 false; mkTok 7 "@lengthOf(" 12 0 false; mkTok 42 "zchar" 12 11 false; mkTok 6 ")" 12 16 false; mkTok 43 (string_of_bytes [96; 108; 105; 110; 101; 49; 10; 108; 105; 110; 101; 50; 96]%N) 12 17 false; mkTok 40 "," 13 7 false; mkTok 44 "// c" 13 9 true; mkTok 32 "@rightPad" 14 0 false; mkTok 8 "(" 15 0 false; mkTok 33 "' '" 16 4 false; mkTok 6 ")" 16 8 false; mkTok 38 "match" 17 0 false; mkTok 44 "//x" 17 6 true; mkTok 42 "Z9_" 18 0 false; mkTok 17 "as" 18 4 false; mkTok 42 "options1" 18 7 false; mkTok 2 "{" 18 16 false; mkTok 18 "[" 19 0 false; mkTok 30 "65535" 19 2 false; mkTok 40 "," 19 8 false; mkTok 30 "4294967296" 19 10 false; mkTok 44 (string_of_bytes [47; 47; 32; 240; 159; 152; 128; 32; 101; 109; 111; 106; 105]%N) 20 0 true; mkTok 44 "//" 21 0 true; mkTok 40 "," 22 0 false; mkTok 31 """a\\""" 22 2 false; mkTok 40 "," 23 4 false; mkTok 31 (string_of_bytes [34; 240; 159; 152; 128; 34]%N) 23 6 false; mkTok 40 "," 23 10 false; mkTok 31 """{,}""" 23 11 false; mkTok 40 "," 23 17 false; mkTok 30 "00" 24 0 false; mkTok 40 "," 24 3 false; mkTok 44 "// trailing space " 24 4 true; mkTok 30 "1" 25 0 false; mkTok 44 "// c" 26 0 true; mkTok 44 (string_of_bytes [47; 47; 32; 240; 159; 152; 128; 32; 101; 109; 111; 106; 105]%N) 27 0 true; mkTok 40 "," 28 0 false; mkTok 44 (string_of_bytes [47; 47; 9; 116]%N) 29 0 true; mkTok 44 (string_of_bytes [47; 47; 9; 116]%N) 30 0 true; mkTok 31 (string_of_bytes [34; 97; 9; 98; 34]%N) 31 0 false; mkTok 13 "]" 31 6 false; mkTok 39 ":" 31 7 false; mkTok 42 "Packet" 31 9 false; mkTok 40 "," 31 16 false; mkTok 18 "[" 31 18 false; mkTok 30 "007" 32 4 false; mkTok 40 "," 33 0 false; mkTok 31 """abc""" 33 1 false; mkTok 40 "," 33 7 false; mkTok 31 """it's""" 33 9 false; mkTok 40 "," 33 15 false; mkTok 30 "7" 33 17 false; mkTok 40 "," 34 0 false; mkTok 31 """\n""" 34 2 false; mkTok 13 "]" 34 7 false; mkTok 39 ":" 34 9 false; mkTok 44 "//x" 34 11 true; mkTok 42 "pack" 35 0 false; mkTok 40 "," 36 0 false; mkTok 18 "[" 37 4 false; mkTok 30 "4294967296" 37 6 false; mkTok 13 "]" 38 0 false; mkTok 39 ":" 38 2 false; mkTok 42 "u" 38 4 false; mkTok 40 "," 39 0 false; mkTok 44 "//" 39 2 true; mkTok 30 "0" 40 0 false; mkTok 39 ":" 40 2 false; mkTok 42 "msg_type" 41 0 false; mkTok 40 "," 41 8 false; mkTok 18 "[" 41 10 false; mkTok 30 "65535" 41 12 false; mkTok 40 "," 42 4 false; mkTok 31 """a\\""" 42 6 false; mkTok 40 "," 42 11 false; mkTok 44 "// 50% %s" 43 4 true; mkTok 30 "42" 44 4 false; mkTok 13 "]" 44 7 false; mkTok 39 ":" 44 9 false; mkTok 42 "body" 44 10 false; mkTok 40 "," 44 15 false; mkTok 30 "65535" 44 17 false; mkTok 44 "// a // b" 45 4 true; mkTok 39 ":" 46 4 false; mkTok 42 "u" 46 6 false; mkTok 40 "," 46 8 false; mkTok 3 "}" 46 10 false; mkTok 40 "," 46 12 false; mkTok 7 "@lengthOf(" 46 13 false; mkTok 42 "BodyLength" 46 24 false; mkTok 6 ")" 46 35 false; mkTok 20 "u8" 47 0 false; mkTok 42 "As" 48 4 false; mkTok 7 "@lengthOf(" 48 7 false; mkTok 42 "_x" 48 18 false; mkTok 6 ")" 48 20 false; mkTok 40 "," 48 21 false; mkTok 3 "}" 49 0 false; mkTok 37 "MetaData" 49 2 false; mkTok 42 "body" 49 11 false; mkTok 2 "{" 50 0 false; mkTok 42 "f32a" 50 2 false; mkTok 42 "u8x" 50 7 false; mkTok 40 "," 50 10 false; mkTok 3 "}" 50 12 false; mkTok 0 "<EOF>" 51 0 false] (mkPacket (mkPtok 34 "root" 1 0 0) (Some (mkPtok 3 "}" 50 12 140)) [(DPacket (mkPacketDef (mkSpan (mkPtok 34 "root" 1 0 0) (mkPtok 3 "}" 3 2 6)) (Some (mkPtok 34 "root" 1 0 0)) (mkPtok 35 "packet" 2 0 2) (mkPtok 42 "u128" 2 7 3) (mkPtok 2 "{" 3 0 5) [] (mkPtok 3 "}" 3 2 6))); (DOption (mkOptionDef (mkSpan (mkPtok 1 "options" 3 4 7) (mkPtok 3 "}" 6 23 22)) (mkPtok 1 "options" 3 4 7) (mkPtok 2 "{" 3 12 8) [(mkOptionDecl (mkSpan (mkPtok 42 "lengthOf" 3 14 9) (mkPtok 41 ";" 4 4 12)) (mkPtok 42 "lengthOf" 3 14 9) (mkPtok 4 "=" 3 23 10) (VString (mkSpan (mkPtok 31 """// no comment""" 3 24 11) (mkPtok 31 """// no comment""" 3 24 11)) (mkPtok 31 """// no comment""" 3 24 11)) (Some (mkPtok 41 ";" 4 4 12))); (mkOptionDecl (mkSpan (mkPtok 42 "stringy" 4 6 13) (mkPtok 33 "' '" 5 0 15)) (mkPtok 42 "stringy" 4 6 13) (mkPtok 4 "=" 4 14 14) (VPaddingChar (mkSpan (mkPtok 33 "' '" 5 0 15) (mkPtok 33 "' '" 5 0 15)) (mkPtok 33 "' '" 5 0 15)) None); (mkOptionDecl (mkSpan (mkPtok 42 "int" 5 4 16) (mkPtok 31 """CRC32""" 6 0 18)) (mkPtok 42 "int" 5 4 16) (mkPtok 4 "=" 5 8 17) (VString (mkSpan (mkPtok 31 """CRC32""" 6 0 18) (mkPtok 31 """CRC32""" 6 0 18)) (mkPtok 31 """CRC32""" 6 0 18)) None); (mkOptionDecl (mkSpan (mkPtok 42 "uint8x" 6 8 19) (mkPtok 11 "false" 6 17 21)) (mkPtok 42 "uint8x" 6 8 19) (mkPtok 4 "=" 6 15 20) (VFalse (mkSpan (mkPtok 11 "false" 6 17 21) (mkPtok 11 "false" 6 17 21)) (mkPtok 11 "false" 6 17 21)) None)] (mkPtok 3 "}" 6 23 22))); (DPacket (mkPacketDef (mkSpan (mkPtok 35 "packet" 6 25 23) (mkPtok 3 "}" 49 0 133)) None (mkPtok 35 "packet" 6 25 23) (mkPtok 42 "asx" 7 0 24) (mkPtok 2 "{" 7 4 25) [(mkFieldWithAttr (mkSpan (mkPtok 9 "@tag(" 7 6 26) (mkPtok 40 "," 13 7 41)) [(FATag (mkSpan (mkPtok 9 "@tag(" 7 6 26) (mkPtok 6 ")" 7 15 28)) (mkTagAttr (mkSpan (mkPtok 9 "@tag(" 7 6 26) (mkPtok 6 ")" 7 15 28)) (mkPtok 9 "@tag(" 7 6 26) (mkPtok 30 "255" 7 11 27) (mkPtok 6 ")" 7 15 28))); (FALengthOf (mkSpan (mkPtok 7 "@lengthOf(" 10 0 31) (mkPtok 6 ")" 10 18 33)) (mkLengthOf (mkSpan (mkPtok 7 "@lengthOf(" 10 0 31) (mkPtok 6 ")" 10 18 33)) (mkPtok 7 "@lengthOf(" 10 0 31) (mkPtok 42 "Header" 10 11 32) (mkPtok 6 ")" 10 18 33)))] (LengthField (mkSpan (mkPtok 27 "int64" 10 20 34) (mkPtok 40 "," 13 7 41)) (mkLengthFieldDecl (mkSpan (mkPtok 27 "int64" 10 20 34) (mkPtok 40 "," 13 7 41)) (Some (TyBasic (mkSpan (mkPtok 27 "int64" 10 20 34) (mkPtok 27 "int64" 10 20 34)) (mkBasicType (mkSpan (mkPtok 27 "int64" 10 20 34) (mkPtok 27 "int64" 10 20 34)) (mkPtok 27 "int64" 10 20 34)))) (mkPtok 42 "options1" 11 0 36) (mkLengthOf (mkSpan (mkPtok 7 "@lengthOf(" 12 0 37) (mkPtok 6 ")" 12 16 39)) (mkPtok 7 "@lengthOf(" 12 0 37) (mkPtok 42 "zchar" 12 11 38) (mkPtok 6 ")" 12 16 39)) (Some (mkPtok 43 (string_of_bytes [96; 108; 105; 110; 101; 49; 10; 108; 105; 110; 101; 50; 96]%N) 12 17 40)) (mkPtok 40 "," 13 7 41)))); (mkFieldWithAttr (mkSpan (mkPtok 32 "@rightPad" 14 0 43) (mkPtok 40 "," 46 12 123)) [(FAPadding (mkSpan (mkPtok 32 "@rightPad" 14 0 43) (mkPtok 6 ")" 16 8 46)) (mkPaddingAttr (mkSpan (mkPtok 32 "@rightPad" 14 0 43) (mkPtok 6 ")" 16 8 46)) (mkPtok 32 "@rightPad" 14 0 43) (mkPtok 8 "(" 15 0 44) (Some (mkPtok 33 "' '" 16 4 45)) (mkPtok 6 ")" 16 8 46)))] (MatchField (mkSpan (mkPtok 38 "match" 17 0 47) (mkPtok 40 "," 46 12 123)) (mkMatchFieldDecl (mkSpan (mkPtok 38 "match" 17 0 47) (mkPtok 3 "}" 46 10 122)) (mkPtok 38 "match" 17 0 47) (mkPtok 42 "Z9_" 18 0 49) (mkPtok 17 "as" 18 4 50) (mkPtok 42 "options1" 18 7 51) (mkPtok 2 "{" 18 16 52) [(mkMatchPair (mkSpan (mkPtok 18 "[" 19 0 53) (mkPtok 40 "," 31 16 79)) (MKList (mkKeyList (mkSpan (mkPtok 18 "[" 19 0 53) (mkPtok 13 "]" 31 6 76)) (mkPtok 18 "[" 19 0 53) (mkPtok 30 "65535" 19 2 54) [((mkPtok 40 "," 19 8 55), (mkPtok 30 "4294967296" 19 10 56)); ((mkPtok 40 "," 22 0 59), (mkPtok 31 """a\\""" 22 2 60)); ((mkPtok 40 "," 23 4 61), (mkPtok 31 (string_of_bytes [34; 240; 159; 152; 128; 34]%N) 23 6 62)); ((mkPtok 40 "," 23 10 63), (mkPtok 31 """{,}""" 23 11 64)); ((mkPtok 40 "," 23 17 65), (mkPtok 30 "00" 24 0 66)); ((mkPtok 40 "," 24 3 67), (mkPtok 30 "1" 25 0 69)); ((mkPtok 40 "," 28 0 72), (mkPtok 31 (string_of_bytes [34; 97; 9; 98; 34]%N) 31 0 75))] (mkPtok 13 "]" 31 6 76))) (mkPtok 39 ":" 31 7 77) (mkPtok 42 "Packet" 31 9 78) (Some (mkPtok 40 "," 31 16 79))); (mkMatchPair (mkSpan (mkPtok 18 "[" 31 18 80) (mkPtok 40 "," 36 0 94)) (MKList (mkKeyList (mkSpan (mkPtok 18 "[" 31 18 80) (mkPtok 13 "]" 34 7 90)) (mkPtok 18 "[" 31 18 80) (mkPtok 30 "007" 32 4 81) [((mkPtok 40 "," 33 0 82), (mkPtok 31 """abc""" 33 1 83)); ((mkPtok 40 "," 33 7 84), (mkPtok 31 """it's""" 33 9 85)); ((mkPtok 40 "," 33 15 86), (mkPtok 30 "7" 33 17 87)); ((mkPtok 40 "," 34 0 88), (mkPtok 31 """\n""" 34 2 89))] (mkPtok 13 "]" 34 7 90))) (mkPtok 39 ":" 34 9 91) (mkPtok 42 "pack" 35 0 93) (Some (mkPtok 40 "," 36 0 94))); (mkMatchPair (mkSpan (mkPtok 18 "[" 37 4 95) (mkPtok 40 "," 39 0 100)) (MKList (mkKeyList (mkSpan (mkPtok 18 "[" 37 4 95) (mkPtok 13 "]" 38 0 97)) (mkPtok 18 "[" 37 4 95) (mkPtok 30 "4294967296" 37 6 96) [] (mkPtok 13 "]" 38 0 97))) (mkPtok 39 ":" 38 2 98) (mkPtok 42 "u" 38 4 99) (Some (mkPtok 40 "," 39 0 100))); (mkMatchPair (mkSpan (mkPtok 30 "0" 40 0 102) (mkPtok 40 "," 41 8 105)) (MKDigits (mkPtok 30 "0" 40 0 102)) (mkPtok 39 ":" 40 2 103) (mkPtok 42 "msg_type" 41 0 104) (Some (mkPtok 40 "," 41 8 105))); (mkMatchPair (mkSpan (mkPtok 18 "[" 41 10 106) (mkPtok 40 "," 44 15 116)) (MKList (mkKeyList (mkSpan (mkPtok 18 "[" 41 10 106) (mkPtok 13 "]" 44 7 113)) (mkPtok 18 "[" 41 10 106) (mkPtok 30 "65535" 41 12 107) [((mkPtok 40 "," 42 4 108), (mkPtok 31 """a\\""" 42 6 109)); ((mkPtok 40 "," 42 11 110), (mkPtok 30 "42" 44 4 112))] (mkPtok 13 "]" 44 7 113))) (mkPtok 39 ":" 44 9 114) (mkPtok 42 "body" 44 10 115) (Some (mkPtok 40 "," 44 15 116))); (mkMatchPair (mkSpan (mkPtok 30 "65535" 44 17 117) (mkPtok 40 "," 46 8 121)) (MKDigits (mkPtok 30 "65535" 44 17 117)) (mkPtok 39 ":" 46 4 119) (mkPtok 42 "u" 46 6 120) (Some (mkPtok 40 "," 46 8 121)))] (mkPtok 3 "}" 46 10 122)) (mkPtok 40 "," 46 12 123))); (mkFieldWithAttr (mkSpan (mkPtok 7 "@lengthOf(" 46 13 124) (mkPtok 40 "," 48 21 132)) [(FALengthOf (mkSpan (mkPtok 7 "@lengthOf(" 46 13 124) (mkPtok 6 ")" 46 35 126)) (mkLengthOf (mkSpan (mkPtok 7 "@lengthOf(" 46 13 124) (mkPtok 6 ")" 46 35 126)) (mkPtok 7 "@lengthOf(" 46 13 124) (mkPtok 42 "BodyLength" 46 24 125) (mkPtok 6 ")" 46 35 126)))] (LengthField (mkSpan (mkPtok 20 "u8" 47 0 127) (mkPtok 40 "," 48 21 132)) (mkLengthFieldDecl (mkSpan (mkPtok 20 "u8" 47 0 127) (mkPtok 40 "," 48 21 132)) (Some (TyBasic (mkSpan (mkPtok 20 "u8" 47 0 127) (mkPtok 20 "u8" 47 0 127)) (mkBasicType (mkSpan (mkPtok 20 "u8" 47 0 127) (mkPtok 20 "u8" 47 0 127)) (mkPtok 20 "u8" 47 0 127)))) (mkPtok 42 "As" 48 4 128) (mkLengthOf (mkSpan (mkPtok 7 "@lengthOf(" 48 7 129) (mkPtok 6 ")" 48 20 131)) (mkPtok 7 "@lengthOf(" 48 7 129) (mkPtok 42 "_x" 48 18 130) (mkPtok 6 ")" 48 20 131)) None (mkPtok 40 "," 48 21 132))))] (mkPtok 3 "}" 49 0 133))); (DMeta (mkMetaDef (mkSpan (mkPtok 37 "MetaData" 49 2 134) (mkPtok 3 "}" 50 12 140)) (mkPtok 37 "MetaData" 49 2 134) (mkPtok 42 "body" 49 11 135) (mkPtok 2 "{" 50 0 136) [(MIRef (mkRefMetaDecl (mkSpan (mkPtok 42 "f32a" 50 2 137) (mkPtok 40 "," 50 10 139)) (mkPtok 42 "f32a" 50 2 137) (mkPtok 42 "u8x" 50 7 138) None (mkPtok 40 "," 50 10 139)))] (mkPtok 3 "}" 50 12 140)))])).
Eval vm_compute in ("<<<M1690>>>" ++ check (runes_of_ascii "//	t
root packet //
u8x{
@tag( 0123456789
    )
    match trueish
    as a1	{[
    255,
    ""abc"" ] : o
, // " ++ [27880; 37322]%N ++ runes_of_ascii "
},
metadata f32a,a1	float
    `tab	here` , i8i8 { char[
    // `tick` ""quote"" 'q'
    4294967296 // a // b
]
Header
    `` , // " ++ [128512]%N ++ runes_of_ascii " emoji
x_y_z @calculatedFrom(""{,}"" ) , match
    x as
    //	t
    _x {
1 : uint8x , [ ""CRC32""
, 4294967296 ] : Pad  ,
    """"
:
uint8x , 65535
: charz 255
:
    roots } , } ,
    uint16//	t
u128`u8 x,`
    ,	} MetaData//	t
As{
uint8 f32a
,char[0] u128 `// not a comment` , char[7
    ]
BodyLength ,BodyLength
matchKey , f32 string_	`tab	here`
, float32 trueish
`a\`,  }  packet packetx { x_y_z
A`crlf
line`, } 	 ")).
Eval vm_compute in ("<<<M1722>>>" ++ check (runes_of_ascii "
options { } MetaData o{ u
i8i8 `doc` ,}
    packet x_y_z { match  msg_type as
asx {
0123456789 : A , 42:
MetaDataX ,[ 42 ] : MetaDataX,
    ""packet"" :
    u8x
,
}, match  charz
    as asx{ [ ""a	b"" ] :BodyLength , 65535: asx 10 :  uint8x, ""a	b"" : uint8x }, }
")).
Eval vm_compute in ("<<<M1754>>>" ++ check (runes_of_ascii "root
packet chars{ } MetaData
crc
{ zchar[ 255 ] charz , As msg_type
    //x
    , // a // b
u8x
    body`{ , }` , char[] metadata // " ++ [27880; 37322]%N ++ runes_of_ascii "
,  float32	zchar
`
`	, } options {	Z9_
    =string; }// trailing space 
MetaData Packet	{
zchar options1 , uint16 repeatCount `" ++ [28040; 24687; 31867; 22411]%N ++ runes_of_ascii "`, }
")).
Eval vm_compute in ("<<<M1786>>>" ++ check (runes_of_ascii "options
{ Logon = ""\n""
;
i8i8 = u64	;repeatCount= 3;  f32a
='0'roots =  007
} packet  pack
    // c
    { @tag(7)
A @lengthOf(
    x
    )`100% of %d` ,
repeat  pack {
// a // b
// " ++ [27880; 37322]%N ++ runes_of_ascii "
u64 A @lengthOf(zchar )// @lengthOf(
`it's` , }
    ,int8
Packet // c
, string //	t
Header // trailing space 
, repeat	falsey , // packet A { u8 x, }
@rightPad( '\x00' ) @lengthOf(
    // " ++ [128512]%N ++ runes_of_ascii " emoji
    chars
    // a // b
    )
    @tag( 65535 ) matchKey stringy, @calculatedFrom(
    // `tick` ""quote"" 'q'
    """" ) float
options1, falsey { repeat int8 pack , }
,
    @calculatedFrom(""x y"") @tag(4294967296 )
    @rightPad () u32
    matchKey @calculatedFrom(
""" ++ [128512]%N ++ runes_of_ascii """
// @lengthOf(
// c
) // packet A { u8 x, }
,T @lengthOf( Header ) `{ , }`,}
MetaData roots{
}
")).
Eval vm_compute in ("<<<M1818>>>" ++ check (runes_of_ascii "
packet
o { //
@lengthOf(
x) char[7 ] repeatCount
// a // b
// 50% %s
,
} root packet matchKey{ @lengthOf(repeatCount
    )
@tag( // " ++ [128512]%N ++ runes_of_ascii " emoji
255)//
@lengthOf(a1) repeat T { match repeatCount as
tag { 7
: trueish }  ,
A
, } ,}")).
Eval vm_compute in ("<<<M1850>>>" ++ check (runes_of_ascii "
MetaData tag { zchar[ 3 ] // a // b
Header , uint8x a1 `doc`, char[ 65535
]
    // " ++ [128512]%N ++ runes_of_ascii " emoji
    u	,  char[]
    i64_
`it's`,
    string_ Pad
    , } root
//x
//	t
packet
options1 // 50% %s
{ Header
    Header
,}
root packet // c
A { match i64_
as roots
    // a // b
    { 1:
    o
, 255
: lengthOf	, }  , //	t
} packet msg_type{ asx
@calculatedFrom(""" ++ [233]%N ++ runes_of_ascii "t" ++ [233]%N ++ runes_of_ascii """ /// triple
) , // packet A { u8 x, }
match x
    // c
    as //
crc{
[ """ ++ [233]%N ++ runes_of_ascii "t" ++ [233]%N ++ runes_of_ascii """, ""CRC32""  ,
""// no comment"" ,
    ""\n""	, 255
, """"
    ,
    """" /// triple
,
7] :Packet , } , @calculatedFrom( """"  )
// trailing space 
// `tick` ""quote"" 'q'
uint8
    // trailing space 
    Header
    , repeat string
    string_
, string zchar ,
    @tag( 0 )	MetaDataX{ repeat
    int64 zchar ,	} ,// " ++ [27880; 37322]%N ++ runes_of_ascii "
@calculatedFrom(""" ++ [128512]%N ++ runes_of_ascii """ )
zchar @lengthOf( leftPad )
    ,
    @leftPad
( '0')@lengthOf( Pad )u128 rootA ,
@rightPad( ) /// triple
@tag( // 50% %s
0123456789 ) @rightPad (	'\x00' )
char[ 7]
    // 50% %s
    packetx
// c
/// triple
,  @tag( 3) @tag(  42 ) i32
    Z9_
,
    }
    packet x_y_z  {
    uint8 trueish@calculatedFrom(""abc"" )	,char[
1//x
]
    zchar @calculatedFrom(
    ""CRC32""
// " ++ [27880; 37322]%N ++ runes_of_ascii "
// " ++ [27880; 37322]%N ++ runes_of_ascii "
) `tab	here`, u8x ,repeat
    Logon  { repeat
// " ++ [128512]%N ++ runes_of_ascii " emoji
// @lengthOf(
int32 stringy , f32a @lengthOf( //
string_ )
    , Logon @lengthOf( trueish ),	}
    //	t
    , @rightPad (
'0'
    ) stringy@lengthOf( body ) , char[3 ] lengthOf//x
,// packet A { u8 x, }
@leftPad (
'\x00') match	BodyLength //	t
as Header {
""abc""  :packetx , // a // b
""`tick`"" : calculatedFrom ,  4294967296 :asx
, }
, lengthOf
    { char[ 7 ]_x @lengthOf( _x
) `it's` ,
    match
    i64_ as
    // c
    chars	{ [	7 , ""\" ++ [233]%N ++ runes_of_ascii """, 1 ,42	, 7
,3 , 42 // " ++ [128512]%N ++ runes_of_ascii " emoji
] :
    options1 , }, match
    tag as u {[ ""{,}"" ,
    ""a\\""]
: A ,},
//x
// @lengthOf(
int16
_x @calculatedFrom(	""\" ++ [233]%N ++ runes_of_ascii """
// `tick` ""quote"" 'q'
// a // b
) `it's` ,// " ++ [27880; 37322]%N ++ runes_of_ascii "
} ,
} //")).
Eval vm_compute in ("<<<M1882>>>" ++ check (@nil rune)).
Eval vm_compute in ("<<<T1882>>>" ++ terms [mkTok 0 "<EOF>" 1 0 false] (mkPacket (mkPtok 0 "<EOF>" 1 0 0) None [])).
Eval vm_compute in ("<<<M1914>>>" ++ check (runes_of_ascii "  options { }")).
Eval vm_compute in ("<<<M1946>>>" ++ check (runes_of_ascii "
root
packet asx
    { @tag( 10)  char[]	roots `crlf
line`, repeat
    int32 asx,
    Header `tab	here` , } // packet A { u8 x, }")).
Eval vm_compute in ("<<<M1978>>>" ++ check (runes_of_ascii "packet	Z9_ { }")).
Eval vm_compute in ("<<<M2010>>>" ++ check (runes_of_ascii "MetaData MetaData repeatCount { float64 packetx,
} root packet  metadata {
char _x @lengthOf( trueish ), @leftPad
( ' '// " ++ [27880; 37322]%N ++ runes_of_ascii "
)/// triple
char[] len`doc` , // packet A { u8 x, }
repeatCount , }
")).
Eval vm_compute in ("<<<M2042>>>" ++ check (runes_of_ascii "MetaData repeatCount { float64 packetx,
packet root packet  metadata {
char _x @lengthOf( trueish ), @leftPad
( ' '// " ++ [27880; 37322]%N ++ runes_of_ascii "
)/// triple
char[] len`doc` , // packet A { u8 x, }
repeatCount , }
")).
Eval vm_compute in ("<<<M2074>>>" ++ check (runes_of_ascii "MetaData repeatCount { float64 packetx,
} root packet  metadata {
char _x  trueish ), @leftPad
( ' '// " ++ [27880; 37322]%N ++ runes_of_ascii "
)/// triple
char[] len`doc` , // packet A { u8 x, }
repeatCount , }
")).
Eval vm_compute in ("<<<M2106>>>" ++ check (runes_of_ascii "MetaData repeatCount { float64 packetx,
} root packet  metadata {
char _x @lengthOf( trueish ), @leftPad
( )// " ++ [27880; 37322]%N ++ runes_of_ascii "
' '/// triple
char[] len`doc` , // packet A { u8 x, }
repeatCount , }
")).
Eval vm_compute in ("<<<M2138>>>" ++ check (runes_of_ascii "MetaData repeatCount { float64 packetx,
} root packet  metadata {
char _x @lengthOf( trueish ), @leftPad
( ' '// " ++ [27880; 37322]%N ++ runes_of_ascii "
)/// triple
char[] len`doc` ,")).
Eval vm_compute in ("<<<M2170>>>" ++ check (runes_of_ascii "{
leftPad
    =65535
;
a1 = true ; packetx=  '\x00' ; packetx
=  """ ++ [28040; 24687]%N ++ runes_of_ascii """MetaDataX= // " ++ [27880; 37322]%N ++ runes_of_ascii "
false }root // c
packet // packet A { u8 x, }
Pad { repeat
u8 Header
// packet A { u8 x, }
//	t
`{ , }`
// a // b
//x
, }
")).
Eval vm_compute in ("<<<M2202>>>" ++ check (runes_of_ascii "options{
leftPad
    =65535
;
= a1 true ; packetx=  '\x00' ; packetx
=  """ ++ [28040; 24687]%N ++ runes_of_ascii """MetaDataX= // " ++ [27880; 37322]%N ++ runes_of_ascii "
false }root // c
packet // packet A { u8 x, }
Pad { repeat
u8 Header
// packet A { u8 x, }
//	t
`{ , }`
// a // b
//x
, }
")).
Eval vm_compute in ("<<<M2234>>>" ++ check (runes_of_ascii "options{
leftPad
    =65535
;
a1 = true ; packetx=")).
Eval vm_compute in ("<<<M2266>>>" ++ check (runes_of_ascii "options{
leftPad
    =65535
;
a1 = true ; packetx=  '\x00' ; packetx
=  """ ++ [28040; 24687]%N ++ runes_of_ascii """MetaDataX= // " ++ [27880; 37322]%N ++ runes_of_ascii "
false false }root // c
packet // packet A { u8 x, }
Pad { repeat
u8 Header
// packet A { u8 x, }
//	t
`{ , }`
// a // b
//x
, }
")).
Eval vm_compute in ("<<<M2298>>>" ++ check (runes_of_ascii "options{
leftPad
    =65535
;
a1 = true ; packetx=  '\x00' ; packetx
=  """ ++ [28040; 24687]%N ++ runes_of_ascii """MetaDataX= // " ++ [27880; 37322]%N ++ runes_of_ascii "
false }root // c
packet // packet A { u8 x, }
Pad { false
u8 Header
// packet A { u8 x, }
//	t
`{ , }`
// a // b
//x
, }
")).
Eval vm_compute in ("<<<M2330>>>" ++ check (runes_of_ascii "options{
leftPad
    =65535
;
a1 = true ; pa@leftpadcketx=  '\x00' ; packetx
=  """ ++ [28040; 24687]%N ++ runes_of_ascii """MetaDataX= // " ++ [27880; 37322]%N ++ runes_of_ascii "
false }root // c
packet // packet A { u8 x, }
Pad { repeat
u8 Header
// packet A { u8 x, }
//	t
`{ , }`
// a // b
//x
, }
")).
Eval vm_compute in ("<<<M2362>>>" ++ check (runes_of_ascii "
packet float
{	@calculatedFrom( @calculatedFrom( """ ++ [233]%N ++ runes_of_ascii "t" ++ [233]%N ++ runes_of_ascii """ )
@rightPad ( '\x00' )
    @calculatedFrom( ""x y"" ) string chars  ,
    // a // b
    char[0 ]
    u	@lengthOf( i8i8 ) `{ , }` ,repeat char[] o //x
`// not a comment`, } // c")).
Eval vm_compute in ("<<<M2394>>>" ++ check (runes_of_ascii "
packet float
{	@calculatedFrom( """ ++ [233]%N ++ runes_of_ascii "t" ++ [233]%N ++ runes_of_ascii """ )
@rightPad ( '\x00' [
    @calculatedFrom( ""x y"" ) string chars  ,
    // a // b
    char[0 ]
    u	@lengthOf( i8i8 ) `{ , }` ,repeat char[] o //x
`// not a comment`, } // c")).
Eval vm_compute in ("<<<M2426>>>" ++ check (runes_of_ascii "
packet float
{	@calculatedFrom( """ ++ [233]%N ++ runes_of_ascii "t" ++ [233]%N ++ runes_of_ascii """ )
@rightPad ( '\x00' )
    @calculatedFrom( ""x y"" ) string chars  ,
    // a // b
    0 ]
    u	@lengthOf( i8i8 ) `{ , }` ,repeat char[] o //x
`// not a comment`, } // c")).
Eval vm_compute in ("<<<M2458>>>" ++ check (runes_of_ascii "
packet float
{	@calculatedFrom( """ ++ [233]%N ++ runes_of_ascii "t" ++ [233]%N ++ runes_of_ascii """ )
@rightPad ( '\x00' )
    @calculatedFrom( ""x y"" ) string chars  ,
    // a // b
    char[0 ]
    u	@lengthOf( i8i8 `{ , }` ) ,repeat char[] o //x
`// not a comment`, } // c")).
Eval vm_compute in ("<<<M2490>>>" ++ check (runes_of_ascii "
packet float
{	@calculatedFrom( """ ++ [233]%N ++ runes_of_ascii "t" ++ [233]%N ++ runes_of_ascii """ )
@rightPad ( '\x00' )
    @calculatedFrom( ""x y"" ) string chars  ,
    // a // b
    char[0 ]
    u	@lengthOf( i8i8 ) `{ , }` ,repeat char[] o")).
Eval vm_compute in ("<<<M2522>>>" ++ check (runes_of_ascii " packet u128{
    repeat
    zchar[ 65535 ] u `" ++ [28040; 24687; 31867; 22411]%N ++ runes_of_ascii "` ,// `tick` ""quote"" 'q'
} packet i64_ {repeatCount
    `
` ,	} // " ++ [128512]%N ++ runes_of_ascii " emoji")).
Eval vm_compute in ("<<<M2554>>>" ++ check (runes_of_ascii "root packet u128{
    repeat
    zchar[ ] 65535 u `" ++ [28040; 24687; 31867; 22411]%N ++ runes_of_ascii "` ,// `tick` ""quote"" 'q'
} packet i64_ {repeatCount
    `
` ,	} // " ++ [128512]%N ++ runes_of_ascii " emoji")).
Eval vm_compute in ("<<<M2586>>>" ++ check (runes_of_ascii "root packet u128{
    repeat
    zchar[ 65535 ] u `" ++ [28040; 24687; 31867; 22411]%N ++ runes_of_ascii "` ,// `tick` ""quote"" 'q'
}")).
Eval vm_compute in ("<<<M2618>>>" ++ check (runes_of_ascii "root packet u128{
    repeat
    zchar[ 65535 ] u `" ++ [28040; 24687; 31867; 22411]%N ++ runes_of_ascii "` ,// `tick` ""qu")).
Eval vm_compute in ("<<<M2650>>>" ++ check (runes_of_ascii "
MetaData
roots int8 {
    BodyLength ,//	t
}
")).
Eval vm_compute in ("<<<M2682>>>" ++ check (runes_of_ascii "
MetaData
roots { int8
    " ++ [8232]%N ++ runes_of_ascii "BodyLength ,//	t
}
")).
Eval vm_compute in ("<<<M2714>>>" ++ check (runes_of_ascii "options {Packet = i8i8 = false; leftPad =
    '\x00'
    // `tick` ""quote"" 'q'
    ; o=255  ;
    // packet A { u8 x, }
    }")).
Eval vm_compute in ("<<<M2746>>>" ++ check (runes_of_ascii "options {Packet = ""CRC32""i8i8 = false; leftPad '\x00'
    =
    // `tick` ""quote"" 'q'
    ; o=255  ;
    // packet A { u8 x, }
    }")).
Eval vm_compute in ("<<<M2778>>>" ++ check (runes_of_ascii "options {Packet = ""CRC32""i8i8 = false; leftPad =
    '\x00'
    // `tick` ""quote"" 'q'
    ; o=255")).
Eval vm_compute in ("<<<M2810>>>" ++ check (runes_of_ascii "
packet  { @rightPad (
    // packet A { u8 x, }
    ' ' ) repeat u32	A
,matchKey ,
    @lengthOf( string_ ) @lengthOf( body )
    // a // b
    @lengthOf(float  )	repeat
int32 u8x
    // c
    `tab	here`
, } // a // b")).
Eval vm_compute in ("<<<M2842>>>" ++ check (runes_of_ascii "
packet metadata { @rightPad (
    // packet A { u8 x, }
    ' ' ) u32 repeat	A
,matchKey ,
    @lengthOf( string_ ) @lengthOf( body )
    // a // b
    @lengthOf(float  )	repeat
int32 u8x
    // c
    `tab	here`
, } // a // b")).
Eval vm_compute in ("<<<M2874>>>" ++ check (runes_of_ascii "
packet metadata { @rightPad (
    // packet A { u8 x, }
    ' ' ) repeat u32	A
,matchKey ,")).
Eval vm_compute in ("<<<M2906>>>" ++ check (runes_of_ascii "
packet metadata { @rightPad (
    // packet A { u8 x, }
    ' ' ) repeat u32	A
,matchKey ,
    @lengthOf( string_ ) @lengthOf( body )
    // a // b
    @lengthOf(float float  )	repeat
int32 u8x
    // c
    `tab	here`
, } // a // b")).
Eval vm_compute in ("<<<M2938>>>" ++ check (runes_of_ascii "
packet metadata { @rightPad (
    // packet A { u8 x, }
    ' ' ) repeat u32	A
,matchKey ,
    @lengthOf( string_ ) @lengthOf( body )
    // a // b
    @lengthOf(float  )	repeat
int32 u8x
    // c
    `tab	here`
= } // a // b")).
Eval vm_compute in ("<<<M2970>>>" ++ check (@nil rune)).
Eval vm_compute in ("<<<M3002>>>" ++ check (runes_of_ascii "packet x{
string")).
Eval vm_compute in ("<<<M3034>>>" ++ check (runes_of_ascii "
MetaData Logon
} // c
{root packet
    Pad {
    } options
{
u
    =
    ""CRC32""
    // " ++ [128512]%N ++ runes_of_ascii " emoji
    i64_ = u16;
T =65535 x = ' '
    ; u128
= true ; }")).
Eval vm_compute in ("<<<M3066>>>" ++ check (runes_of_ascii "
MetaData Logon
{ // c
}root packet
    Pad {")).
Eval vm_compute in ("<<<M3098>>>" ++ check (runes_of_ascii "
MetaData Logon
{ // c
}root packet
    Pad {
    } options
{
u
    =
    ""CRC32""
    // " ++ [128512]%N ++ runes_of_ascii " emoji
    i64_ = = u16;
T =65535 x = ' '
    ; u128
= true ; }")).
Eval vm_compute in ("<<<M3130>>>" ++ check (runes_of_ascii "
MetaData Logon
{ // c
}root packet
    Pad {
    } options
{
u
    =
    ""CRC32""
    // " ++ [128512]%N ++ runes_of_ascii " emoji
    i64_ = u16;
T =65535 ( = ' '
    ; u128
= true ; }")).
Eval vm_compute in ("<<<M3162>>>" ++ check (runes_of_ascii "
MetaData Logon
{ // c
}root packet
    Pad {
    } options
{
u
    =
    ""CRC32""
    // " ++ [128512]%N ++ runes_of_ascii " emoji
    i64_ = u16;
T =65535 x = ' '
    ; u128
= true  }")).
Eval vm_compute in ("<<<M3194>>>" ++ check (runes_of_ascii "MetaData MetaData body{}
packet	Packet { x_y_z @calculatedFrom(  ""a\\"")// `tick` ""quote"" 'q'
, }
")).
Eval vm_compute in ("<<<M3226>>>" ++ check (runes_of_ascii "MetaData body{}
packet	Packet uint8 x_y_z @calculatedFrom(  ""a\\"")// `tick` ""quote"" 'q'
, }
")).
Eval vm_compute in ("<<<M3258>>>" ++ check (runes_of_ascii "MetaData body{}
packet	Packet { x_y_z @calculatedFrom(  ""a\\"")// `tick` ""quote"" 'q'
, }
")).
Eval vm_compute in ("<<<M3290>>>" ++ check (runes_of_ascii "packet f32a { {} root packet len {repeat u // " ++ [128512]%N ++ runes_of_ascii " emoji
`{ , }` , }
")).
Eval vm_compute in ("<<<M3322>>>" ++ check (runes_of_ascii "packet f32a {} root packet len {] u // " ++ [128512]%N ++ runes_of_ascii " emoji
`{ , }` , }
")).
Eval vm_compute in ("<<<M3354>>>" ++ check (runes_of_ascii "packet f32a {} root packet len " ++ [127]%N ++ runes_of_ascii " {repeat u // " ++ [128512]%N ++ runes_of_ascii " emoji
`{ , }` , }
")).
Eval vm_compute in ("<<<M3386>>>" ++ check (runes_of_ascii "options{ _x=""\" ++ [233]%N ++ runes_of_ascii """;
    Logon = 10	; Foo= 7;
i64_= char[]} options {
matchKey = ""// no comment"" // a // b
falsey = string
; trueish")).
Eval vm_compute in ("<<<M3418>>>" ++ check (runes_of_ascii "options{ _x=""\" ++ [233]%N ++ runes_of_ascii """;
    Logon =")).
Eval vm_compute in ("<<<M3450>>>" ++ check (runes_of_ascii "options{ _x=""\" ++ [233]%N ++ runes_of_ascii """;
    Logon = 10	; Foo= 7;
i64_= char[]} options {
matchKey = ""// no comment"" // a // b
falsey = string
; trueish =
    4294967296
options1=
    ""it's"" string_	=")).
Eval vm_compute in ("<<<M3482>>>" ++ check (runes_of_ascii "options{ _x=""\" ++ [233]%N ++ runes_of_ascii """;
    Logon = 10	; Foo= 7;
i64_= char[]} options {
matchKey = ""// no comment"" // a // b
falsey =")).
Eval vm_compute in ("<<<M3514>>>" ++ check (runes_of_ascii "false")).
Eval vm_compute in ("<<<M3546>>>" ++ check (runes_of_ascii "@leftPad")).
Eval vm_compute in ("<<<M3578>>>" ++ check (runes_of_ascii """a
b""")).
Eval vm_compute in ("<<<M3610>>>" ++ check (runes_of_ascii "a	b")).
Eval vm_compute in ("<<<M3642>>>" ++ check (runes_of_ascii "packet A { x `d` y, }")).
Eval vm_compute in ("<<<M3674>>>" ++ check (runes_of_ascii "packet A { match k as n { [] : B }, }")).
Eval vm_compute in ("<<<M3706>>>" ++ check (runes_of_ascii "root")).
Eval vm_compute in ("<<<M3738>>>" ++ check (runes_of_ascii "options { packet = 1; }")).
Eval vm_compute in ("<<<M3770>>>" ++ check (runes_of_ascii "@lengthOf( ] char } '\x00' ; `crlf
line` ' '")).
Eval vm_compute in ("<<<M3802>>>" ++ check (runes_of_ascii "match @calculatedFrom( int32 =")).
Eval vm_compute in ("<<<M3834>>>" ++ check (runes_of_ascii """// no comment"" root ""1"" f64 ( float64 ( true ) char[] = ) int32")).
Eval vm_compute in ("<<<M3866>>>" ++ check (runes_of_ascii "MetaData float64 uint64 u16 ( uint16 char[] } char[")).
Eval vm_compute in ("<<<M3898>>>" ++ check (runes_of_ascii "repeat } `tab	here` float32 as [ options '\x00' char[] uint64 ) u32 [ string")).
Eval vm_compute in ("<<<M3930>>>" ++ check (runes_of_ascii "`say ""hi""` packet @tag( @leftPad @rightPad char[ '\x00' `tab	here` [ u32 uint16 uint64 zchar[ @leftPad")).
Eval vm_compute in ("<<<M3962>>>" ++ check (runes_of_ascii "}")).
Eval vm_compute in ("<<<M3994>>>" ++ check (runes_of_ascii "repeat string")).
