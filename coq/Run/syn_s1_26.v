From FP Require Import Lexer Parser ShowPT Digest.
From Coq Require Import String List NArith.
Import ListNotations.
Open Scope string_scope.
Set Printing Width 100000000.
Set Printing Depth 100000000.
Definition nl : string := String (Ascii.ascii_of_nat 10) EmptyString.
Definition model_lex (rs : list rune) : string := show_toks (lex rs).
Definition model_parse (rs : list rune) : string :=
  show_pt (match lex rs with Some ts => parse ts | None => None end).
(* coqc is slow at printing long strings: digests first (Digest.v), full texts on demand *)
Definition check (rs : list rune) : string :=
  digest (model_lex rs) ++ " " ++ digest (model_parse rs).
Definition full (rs : list rune) : string := model_lex rs ++ nl ++ model_parse rs.
Definition terms (ts : list tok) (t : pt) : string :=
  digest (show_toks (Some ts)) ++ " " ++ digest (show_pt (Some t)) ++ " " ++ digest (show_pt (parse ts)).
Definition terms_full (ts : list tok) (t : pt) : string :=
  show_toks (Some ts) ++ nl ++ show_pt (Some t) ++ nl ++ show_pt (parse ts).
Eval vm_compute in ("<<<M26>>>" ++ check (runes_of_ascii "
root packet  calculatedFrom { repeat Header
, } MetaData Header{ zchar[// packet A { u8 x, }
10
]	As
    ,// trailing space 
string
chars, crc Logon `u8 x,`  , Z9_ Logon ,	}packet trueish
    {}
    MetaData
A { }  options { options1
=
' '
    //
    ; //	t
}
")).
Eval vm_compute in ("<<<M58>>>" ++ check (runes_of_ascii "// `tick` ""quote"" 'q'

/// triple
")).
Eval vm_compute in ("<<<M90>>>" ++ check (runes_of_ascii "
// c
")).
Eval vm_compute in ("<<<T90>>>" ++ terms [mkTok 44 "// c" 2 0 true; mkTok 0 "<EOF>" 3 0 false] (mkPacket (mkPtok 0 "<EOF>" 3 0 1) None [])).
Eval vm_compute in ("<<<M122>>>" ++ check (runes_of_ascii "root packet // packet A { u8 x, }
f32a
{ @lengthOf( int )char[]
    //x
    o, a1 @lengthOf( packetx
) // " ++ [27880; 37322]%N ++ runes_of_ascii "
`u8 x,`
/// triple
/// triple
,
// " ++ [128512]%N ++ runes_of_ascii " emoji
// @lengthOf(
@calculatedFrom( ""1""
)u8
Header ,
    }")).
Eval vm_compute in ("<<<M154>>>" ++ check (runes_of_ascii "packet
    zchar { @lengthOf(Header )f32 string_ `a\`
    , } // packet A { u8 x, }")).
Eval vm_compute in ("<<<M186>>>" ++ check (runes_of_ascii "  
")).
Eval vm_compute in ("<<<M218>>>" ++ check (runes_of_ascii "packet _x
    {repeat
u8x {
    repeat pack
    body,
    } ,
@calculatedFrom( ""x y"" ) A { match msg_type as f32a {4294967296
    : crc 1
// c
/// triple
: uint8x , // a // b
[ 255, 0
    ] : // " ++ [27880; 37322]%N ++ runes_of_ascii "
pack , [7 ,
// `tick` ""quote"" 'q'
// packet A { u8 x, }
00 ] :	roots , [ 255
    ]
:	rootA
    , } ,
    char packetx
@calculatedFrom( ""{,}""
    // trailing space 
    )
, } ,
    match
    BodyLength //
as u8x {""a	b"" : u,
    00 // @lengthOf(
: msg_type,// " ++ [27880; 37322]%N ++ runes_of_ascii "
}, match metadata as As{[ 0123456789, 3 ,// a // b
0
, ""it's""
, ""it's"" , ""1"" ] :
int
,
    ""packet"": leftPad}, char[] Pad `say ""hi""` , }

")).
Eval vm_compute in ("<<<M250>>>" ++ check (runes_of_ascii "

//x
")).
Eval vm_compute in ("<<<M282>>>" ++ check (runes_of_ascii "MetaData _x{ } packet calculatedFrom {
}MetaData
_x	{i32
    body
    , uint8 x , }")).
Eval vm_compute in ("<<<M314>>>" ++ check (runes_of_ascii "
MetaData trueish // c
{  string	trueish `it's`	,
}")).
Eval vm_compute in ("<<<T314>>>" ++ terms [mkTok 37 "MetaData" 2 0 false; mkTok 42 "trueish" 2 9 false; mkTok 44 "// c" 2 17 true; mkTok 2 "{" 3 0 false; mkTok 15 "string" 3 3 false; mkTok 42 "trueish" 3 10 false; mkTok 43 "`it's`" 3 18 false; mkTok 40 "," 3 25 false; mkTok 3 "}" 4 0 false; mkTok 0 "<EOF>" 4 1 false] (mkPacket (mkPtok 37 "MetaData" 2 0 0) (Some (mkPtok 3 "}" 4 0 8)) [(DMeta (mkMetaDef (mkSpan (mkPtok 37 "MetaData" 2 0 0) (mkPtok 3 "}" 4 0 8)) (mkPtok 37 "MetaData" 2 0 0) (mkPtok 42 "trueish" 2 9 1) (mkPtok 2 "{" 3 0 3) [(MIDecl (mkMetaDecl (mkSpan (mkPtok 15 "string" 3 3 4) (mkPtok 40 "," 3 25 7)) (TyDynamic (mkSpan (mkPtok 15 "string" 3 3 4) (mkPtok 15 "string" 3 3 4)) (mkDynamicString (mkSpan (mkPtok 15 "string" 3 3 4) (mkPtok 15 "string" 3 3 4)) (mkPtok 15 "string" 3 3 4))) (mkPtok 42 "trueish" 3 10 5) (Some (mkPtok 43 "`it's`" 3 18 6)) (mkPtok 40 "," 3 25 7)))] (mkPtok 3 "}" 4 0 8)))])).
Eval vm_compute in ("<<<M346>>>" ++ check (runes_of_ascii "options {
calculatedFrom =  '0'
    // c
    float= char[] ; Pad= 0	;//	t
_x
    // packet A { u8 x, }
    =007
    ;
}packet u
    { @lengthOf( u) repeat
string /// triple
o
,} root packet lengthOf { }

")).
Eval vm_compute in ("<<<M378>>>" ++ check (runes_of_ascii "  root
    packet o
{ a1 a1	, char[
3 ] i8i8 `
` , @calculatedFrom( ""a\""b"" )// packet A { u8 x, }
repeat /// triple
Pad
    , }
// `tick` ""quote"" 'q'
// `tick` ""quote"" 'q'
packet
    tag{ i8i8 @calculatedFrom( ""x y"" )
`it's`
, @lengthOf(x_y_z
) @calculatedFrom(
//
//	t
""a\""b""
    ) u {
match	a1 as
    Logon { ""\n"" : Pad
,3
:	body , """"
:// `tick` ""quote"" 'q'
Logon ,
""\n"" : T
, ""`tick`""
:
    tag ,
[ """ ++ [233]%N ++ runes_of_ascii "t" ++ [233]%N ++ runes_of_ascii """/// triple
,
7,
""a\""b""	, 0123456789
,""abc"" , """ ++ [28040; 24687]%N ++ runes_of_ascii """ ,0 ] : Z9_
    },
    char[ 00  ]//
string_@lengthOf( asx ), char[
    1 ]falsey , } ,match	crc
as
    lengthOf {
    4294967296 : a1
}, }
")).
Eval vm_compute in ("<<<M410>>>" ++ check (runes_of_ascii "
//
")).
Eval vm_compute in ("<<<M442>>>" ++ check (runes_of_ascii "  options {  }
root  packet i8i8 { } packet
asx {
    f64
pack,@calculatedFrom( ""a\\""	)zchar[	255	]rootA `it's`
    // c
    , // " ++ [27880; 37322]%N ++ runes_of_ascii "
} // " ++ [27880; 37322]%N)).
Eval vm_compute in ("<<<M474>>>" ++ check (runes_of_ascii "

")).
Eval vm_compute in ("<<<M506>>>" ++ check (runes_of_ascii "options {zchar= ' '
    ;
    MetaDataX
    =
    zchar[ 255
] // " ++ [128512]%N ++ runes_of_ascii " emoji
; } options
{ options1 = ""1""
//x
// " ++ [128512]%N ++ runes_of_ascii " emoji
; } MetaData u128
/// triple
// `tick` ""quote"" 'q'
{ char[]
    leftPad , } options //	t
{ a1 = 255; }  packet
    As { repeat char[007 ]
    A , f32a@lengthOf( calculatedFrom
    ) ,
    }

")).
Eval vm_compute in ("<<<M538>>>" ++ check (runes_of_ascii "options // a // b
{
    crc = '0'  ;_x=""a\""b""
trueish
    = char[1  ] charz// c
= 00 ;As =// c
""a\""b"" }
")).
Eval vm_compute in ("<<<T538>>>" ++ terms [mkTok 1 "options" 1 0 false; mkTok 44 "// a // b" 1 8 true; mkTok 2 "{" 2 0 false; mkTok 42 "crc" 3 4 false; mkTok 4 "=" 3 8 false; mkTok 33 "'0'" 3 10 false; mkTok 41 ";" 3 15 false; mkTok 42 "_x" 3 16 false; mkTok 4 "=" 3 18 false; mkTok 31 """a\""b""" 3 19 false; mkTok 42 "trueish" 4 0 false; mkTok 4 "=" 5 4 false; mkTok 12 "char[" 5 6 false; mkTok 30 "1" 5 11 false; mkTok 13 "]" 5 14 false; mkTok 42 "charz" 5 16 false; mkTok 44 "// c" 5 21 true; mkTok 4 "=" 6 0 false; mkTok 30 "00" 6 2 false; mkTok 41 ";" 6 5 false; mkTok 42 "As" 6 6 false; mkTok 4 "=" 6 9 false; mkTok 44 "// c" 6 10 true; mkTok 31 """a\""b""" 7 0 false; mkTok 3 "}" 7 7 false; mkTok 0 "<EOF>" 8 0 false] (mkPacket (mkPtok 1 "options" 1 0 0) (Some (mkPtok 3 "}" 7 7 24)) [(DOption (mkOptionDef (mkSpan (mkPtok 1 "options" 1 0 0) (mkPtok 3 "}" 7 7 24)) (mkPtok 1 "options" 1 0 0) (mkPtok 2 "{" 2 0 2) [(mkOptionDecl (mkSpan (mkPtok 42 "crc" 3 4 3) (mkPtok 41 ";" 3 15 6)) (mkPtok 42 "crc" 3 4 3) (mkPtok 4 "=" 3 8 4) (VPaddingChar (mkSpan (mkPtok 33 "'0'" 3 10 5) (mkPtok 33 "'0'" 3 10 5)) (mkPtok 33 "'0'" 3 10 5)) (Some (mkPtok 41 ";" 3 15 6))); (mkOptionDecl (mkSpan (mkPtok 42 "_x" 3 16 7) (mkPtok 31 """a\""b""" 3 19 9)) (mkPtok 42 "_x" 3 16 7) (mkPtok 4 "=" 3 18 8) (VString (mkSpan (mkPtok 31 """a\""b""" 3 19 9) (mkPtok 31 """a\""b""" 3 19 9)) (mkPtok 31 """a\""b""" 3 19 9)) None); (mkOptionDecl (mkSpan (mkPtok 42 "trueish" 4 0 10) (mkPtok 13 "]" 5 14 14)) (mkPtok 42 "trueish" 4 0 10) (mkPtok 4 "=" 5 4 11) (VType (mkSpan (mkPtok 12 "char[" 5 6 12) (mkPtok 13 "]" 5 14 14)) (TyFixed (mkSpan (mkPtok 12 "char[" 5 6 12) (mkPtok 13 "]" 5 14 14)) (mkFixedString (mkSpan (mkPtok 12 "char[" 5 6 12) (mkPtok 13 "]" 5 14 14)) (mkPtok 12 "char[" 5 6 12) (mkPtok 30 "1" 5 11 13) (mkPtok 13 "]" 5 14 14)))) None); (mkOptionDecl (mkSpan (mkPtok 42 "charz" 5 16 15) (mkPtok 41 ";" 6 5 19)) (mkPtok 42 "charz" 5 16 15) (mkPtok 4 "=" 6 0 17) (VDigits (mkSpan (mkPtok 30 "00" 6 2 18) (mkPtok 30 "00" 6 2 18)) (mkPtok 30 "00" 6 2 18)) (Some (mkPtok 41 ";" 6 5 19))); (mkOptionDecl (mkSpan (mkPtok 42 "As" 6 6 20) (mkPtok 31 """a\""b""" 7 0 23)) (mkPtok 42 "As" 6 6 20) (mkPtok 4 "=" 6 9 21) (VString (mkSpan (mkPtok 31 """a\""b""" 7 0 23) (mkPtok 31 """a\""b""" 7 0 23)) (mkPtok 31 """a\""b""" 7 0 23)) None)] (mkPtok 3 "}" 7 7 24)))])).
Eval vm_compute in ("<<<M570>>>" ++ check (runes_of_ascii "packet chars
    //
    { i8 body @lengthOf( crc), repeat char[] zchar , body
`
` , }")).
Eval vm_compute in ("<<<M602>>>" ++ check (runes_of_ascii "MetaData options1  { lengthOf As , char[ 255
]crc
    , char[] leftPad , As
//	t
//
leftPad , uint16 u128 , f32 //
x `{ , }` ,
}
//	t
")).
Eval vm_compute in ("<<<M634>>>" ++ check (runes_of_ascii "// " ++ [128512]%N ++ runes_of_ascii " emoji
packet int
    { }options { string_=true
Z9_ = //
'\x00'
    ; uint8x
    = false}
packet body
{ int16
Foo ,
repeat	string
roots `
`
// " ++ [128512]%N ++ runes_of_ascii " emoji
//
,//	t
stringy a1
    `tab	here` ,int8
    repeatCount , @lengthOf(chars )
    match
    _x as repeatCount{""CRC32"" :
f32a ,
    [
    // packet A { u8 x, }
    0123456789 ,""it's"" ]:
    Logon
    , [""// no comment"" ,10
, ""a\""b"" ]	:trueish
, [ 0 ]: trueish , 0
: BodyLength, },
    } /// triple")).
Eval vm_compute in ("<<<M666>>>" ++ check (runes_of_ascii "packet Pad
    { @lengthOf(MetaDataX )
roots a1	, }packet
tag { uint8 packetx ,@calculatedFrom( """") @rightPad( )string Z9_ @calculatedFrom(""x y""
/// triple
// " ++ [27880; 37322]%N ++ runes_of_ascii "
)`two words`
,f32
falsey
    // packet A { u8 x, }
    , }
    //
    root packet
Pad { len Z9_
, // " ++ [27880; 37322]%N ++ runes_of_ascii "
@lengthOf( o
    ) u32
    x
, A	`// not a comment` , // a // b
}
")).
Eval vm_compute in ("<<<M698>>>" ++ check (runes_of_ascii "
packet
    f32a { // c
string len  @lengthOf( As ) // " ++ [128512]%N ++ runes_of_ascii " emoji
`line1
line2` , zchar[ 1//x
] zchar `{ , }` , tag
    //
    @lengthOf( rootA) , // c
string x_y_z `" ++ [28040; 24687; 31867; 22411]%N ++ runes_of_ascii "`, }packet crc {
BodyLength
@lengthOf(
msg_type
    ) , } MetaData packetx  {	} root packet lengthOf {repeat uint32	zchar , // " ++ [27880; 37322]%N ++ runes_of_ascii "
T {
msg_type // a // b
{ f32a  { charz
    stringy ``
    , uint16
u128
, i16
    BodyLength
    @lengthOf(
    x ) ,int8 //
metadata `tab	here`, }
// c
// trailing space 
,
repeat Packet
`doc` , // packet A { u8 x, }
int8 A @calculatedFrom(
""CRC32"" )
    ,
    }, Pad asx ,
char[
0 ]
    repeatCount ,
} ,
    u16
Z9_ `" ++ [233]%N ++ runes_of_ascii "` , @rightPad
(
    // @lengthOf(
    '\x00' )
    repeat Header
//	t
// " ++ [27880; 37322]%N ++ runes_of_ascii "
`line1
line2` ,@calculatedFrom(
    ""\" ++ [233]%N ++ runes_of_ascii """ )
char[]rootA @calculatedFrom( ""// no comment"" )`doc`
, // a // b
calculatedFrom `a\`,
} packet As	{  }")).
Eval vm_compute in ("<<<M730>>>" ++ check (runes_of_ascii "packet u128{ zchar[ 00 ]
// a // b
// packet A { u8 x, }
f32a
// " ++ [128512]%N ++ runes_of_ascii " emoji
//
, }
")).
Eval vm_compute in ("<<<M762>>>" ++ check (runes_of_ascii "// @lengthOf(
MetaData
    Foo{} MetaData// trailing space 
packetx
{ f32a A
`two words` , u8
u8x `" ++ [28040; 24687; 31867; 22411]%N ++ runes_of_ascii "`,	charz
    lengthOf
    /// triple
    ,
int x_y_z , // " ++ [128512]%N ++ runes_of_ascii " emoji
char[ 00	] packetx
    ,} // a // b")).
Eval vm_compute in ("<<<T762>>>" ++ terms [mkTok 44 "// @lengthOf(" 1 0 true; mkTok 37 "MetaData" 2 0 false; mkTok 42 "Foo" 3 4 false; mkTok 2 "{" 3 7 false; mkTok 3 "}" 3 8 false; mkTok 37 "MetaData" 3 10 false; mkTok 44 "// trailing space " 3 18 true; mkTok 42 "packetx" 4 0 false; mkTok 2 "{" 5 0 false; mkTok 42 "f32a" 5 2 false; mkTok 42 "A" 5 7 false; mkTok 43 "`two words`" 6 0 false; mkTok 40 "," 6 12 false; mkTok 20 "u8" 6 14 false; mkTok 42 "u8x" 7 0 false; mkTok 43 (string_of_bytes [96; 230; 182; 136; 230; 129; 175; 231; 177; 187; 229; 158; 139; 96]%N) 7 4 false; mkTok 40 "," 7 10 false; mkTok 42 "charz" 7 12 false; mkTok 42 "lengthOf" 8 4 false; mkTok 44 "/// triple" 9 4 true; mkTok 40 "," 10 4 false; mkTok 42 "int" 11 0 false; mkTok 42 "x_y_z" 11 4 false; mkTok 40 "," 11 10 false; mkTok 44 (string_of_bytes [47; 47; 32; 240; 159; 152; 128; 32; 101; 109; 111; 106; 105]%N) 11 12 true; mkTok 12 "char[" 12 0 false; mkTok 30 "00" 12 6 false; mkTok 13 "]" 12 9 false; mkTok 42 "packetx" 12 11 false; mkTok 40 "," 13 4 false; mkTok 3 "}" 13 5 false; mkTok 44 "// a // b" 13 7 true; mkTok 0 "<EOF>" 13 16 false] (mkPacket (mkPtok 37 "MetaData" 2 0 1) (Some (mkPtok 3 "}" 13 5 30)) [(DMeta (mkMetaDef (mkSpan (mkPtok 37 "MetaData" 2 0 1) (mkPtok 3 "}" 3 8 4)) (mkPtok 37 "MetaData" 2 0 1) (mkPtok 42 "Foo" 3 4 2) (mkPtok 2 "{" 3 7 3) [] (mkPtok 3 "}" 3 8 4))); (DMeta (mkMetaDef (mkSpan (mkPtok 37 "MetaData" 3 10 5) (mkPtok 3 "}" 13 5 30)) (mkPtok 37 "MetaData" 3 10 5) (mkPtok 42 "packetx" 4 0 7) (mkPtok 2 "{" 5 0 8) [(MIRef (mkRefMetaDecl (mkSpan (mkPtok 42 "f32a" 5 2 9) (mkPtok 40 "," 6 12 12)) (mkPtok 42 "f32a" 5 2 9) (mkPtok 42 "A" 5 7 10) (Some (mkPtok 43 "`two words`" 6 0 11)) (mkPtok 40 "," 6 12 12))); (MIDecl (mkMetaDecl (mkSpan (mkPtok 20 "u8" 6 14 13) (mkPtok 40 "," 7 10 16)) (TyBasic (mkSpan (mkPtok 20 "u8" 6 14 13) (mkPtok 20 "u8" 6 14 13)) (mkBasicType (mkSpan (mkPtok 20 "u8" 6 14 13) (mkPtok 20 "u8" 6 14 13)) (mkPtok 20 "u8" 6 14 13))) (mkPtok 42 "u8x" 7 0 14) (Some (mkPtok 43 (string_of_bytes [96; 230; 182; 136; 230; 129; 175; 231; 177; 187; 229; 158; 139; 96]%N) 7 4 15)) (mkPtok 40 "," 7 10 16))); (MIRef (mkRefMetaDecl (mkSpan (mkPtok 42 "charz" 7 12 17) (mkPtok 40 "," 10 4 20)) (mkPtok 42 "charz" 7 12 17) (mkPtok 42 "lengthOf" 8 4 18) None (mkPtok 40 "," 10 4 20))); (MIRef (mkRefMetaDecl (mkSpan (mkPtok 42 "int" 11 0 21) (mkPtok 40 "," 11 10 23)) (mkPtok 42 "int" 11 0 21) (mkPtok 42 "x_y_z" 11 4 22) None (mkPtok 40 "," 11 10 23))); (MIDecl (mkMetaDecl (mkSpan (mkPtok 12 "char[" 12 0 25) (mkPtok 40 "," 13 4 29)) (TyFixed (mkSpan (mkPtok 12 "char[" 12 0 25) (mkPtok 13 "]" 12 9 27)) (mkFixedString (mkSpan (mkPtok 12 "char[" 12 0 25) (mkPtok 13 "]" 12 9 27)) (mkPtok 12 "char[" 12 0 25) (mkPtok 30 "00" 12 6 26) (mkPtok 13 "]" 12 9 27))) (mkPtok 42 "packetx" 12 11 28) None (mkPtok 40 "," 13 4 29)))] (mkPtok 3 "}" 13 5 30)))])).
Eval vm_compute in ("<<<M794>>>" ++ check (runes_of_ascii "// " ++ [128512]%N ++ runes_of_ascii " emoji
options // c
{
Packet	= char[]a1	=
    0 ;
    BodyLength = char[]; } MetaData
    BodyLength	{
    T string_ `" ++ [28040; 24687; 31867; 22411]%N ++ runes_of_ascii "` , x_y_z
    // trailing space 
    stringy `say ""hi""`	,
    char Packet`" ++ [28040; 24687; 31867; 22411]%N ++ runes_of_ascii "` , leftPad Packet
    ,
} packet packetx
{
    //x
    match uint8x as T	{ [ /// triple
""`tick`"" ,
    0123456789 ,
""// no comment"" ,
    255 , ""abc"", 10 // c
]
: i64_ , [ ""{,}"" , ""a\""b"" ] : int
, [0123456789 ,
    //x
    65535
    , 255 // `tick` ""quote"" 'q'
,255
    ] // @lengthOf(
: repeatCount , //x
} // " ++ [128512]%N ++ runes_of_ascii " emoji
, repeat char[ 255 ]  A ,	repeat Foo`tab	here`  ,}

")).
Eval vm_compute in ("<<<M826>>>" ++ check (runes_of_ascii "
MetaData tag { zchar[
1] repeatCount
    , Header
rootA ,zchar[ // " ++ [128512]%N ++ runes_of_ascii " emoji
3] string_ `two words`
, int8 _x
    ,
    char[
// " ++ [27880; 37322]%N ++ runes_of_ascii "
/// triple
0123456789 ] zchar`
` ,zchar[  4294967296 ]
    // " ++ [27880; 37322]%N ++ runes_of_ascii "
    a1 `` , } root
packet // " ++ [27880; 37322]%N ++ runes_of_ascii "
Pad {@lengthOf( As)
BodyLength { char[] a1 @lengthOf(	Pad ) ,char[]	BodyLength `doc`// @lengthOf(
, }
,  match options1
as	packetx { ""\n"" : i8i8 ,[
""CRC32"",
    //	t
    10 ,//	t
""1"",
65535 ]
// @lengthOf(
// " ++ [27880; 37322]%N ++ runes_of_ascii "
: matchKey 00 :  uint8x,
    3 :repeatCount,  ""\n"" :
tag
    // packet A { u8 x, }
    , // a // b
""x y"" : //
u8x } , @lengthOf( calculatedFrom
    )	msg_type body // " ++ [128512]%N ++ runes_of_ascii " emoji
, }
    options {
// " ++ [27880; 37322]%N ++ runes_of_ascii "
// a // b
T
//x
// @lengthOf(
=
10 ;T = u16	;}packet stringy // trailing space 
{	}
")).
Eval vm_compute in ("<<<M858>>>" ++ check (runes_of_ascii "options { Packet =// @lengthOf(
""\n"";// c
}
// " ++ [128512]%N ++ runes_of_ascii " emoji
")).
Eval vm_compute in ("<<<M890>>>" ++ check (runes_of_ascii "packet
chars
    { @tag(	0123456789) match crc as
tag { 10
    : uint8x ,
[ 42 ]:
int // " ++ [128512]%N ++ runes_of_ascii " emoji
,}
, }
")).
Eval vm_compute in ("<<<M922>>>" ++ check (runes_of_ascii "MetaData trueish
    { char[]  i8i8 `" ++ [28040; 24687; 31867; 22411]%N ++ runes_of_ascii "` ,
} packet calculatedFrom
{ @calculatedFrom(""CRC32"")
@lengthOf(u128 )
    metadata // @lengthOf(
stringy `u8 x,`
, string
i8i8@lengthOf( rootA
    // `tick` ""quote"" 'q'
    ) , @calculatedFrom(	""CRC32"" ) @calculatedFrom(	""packet"")@calculatedFrom(""""
) zchar[42 ] body `" ++ [233]%N ++ runes_of_ascii "` , Packet , uint16  Logon ,
rootA len
`u8 x,` ,
T @lengthOf(
// a // b
// " ++ [27880; 37322]%N ++ runes_of_ascii "
T), @rightPad ( ) repeat char[ // @lengthOf(
255 ]//
x_y_z
,repeat uint16 len
,
@rightPad
    ( ) calculatedFrom charz `crlf
line`,
}
")).
Eval vm_compute in ("<<<M954>>>" ++ check (runes_of_ascii "options {
zchar	= '\x00' ;
}
")).
Eval vm_compute in ("<<<M986>>>" ++ check (runes_of_ascii "
")).
Eval vm_compute in ("<<<T986>>>" ++ terms [mkTok 0 "<EOF>" 2 0 false] (mkPacket (mkPtok 0 "<EOF>" 2 0 0) None [])).
Eval vm_compute in ("<<<M1018>>>" ++ check (runes_of_ascii "packet chars {
    u8 _x@calculatedFrom(
    """ ++ [233]%N ++ runes_of_ascii "t" ++ [233]%N ++ runes_of_ascii """ )
, @lengthOf( stringy //
)
@calculatedFrom( ""a\""b"" ) repeat options1 {body uint8x
`doc` ,
a1 @lengthOf( f32a ) `tab	here` ,
repeat body // `tick` ""quote"" 'q'
{ float64 BodyLength
,
    } ,
    // @lengthOf(
    }  ,@lengthOf(
uint8x ) chars//	t
`crlf
line`
, @lengthOf( // c
crc
    // `tick` ""quote"" 'q'
    )@tag( 4294967296	)	char[] i8i8`tab	here` , char[]x
    `// not a comment` ,repeat string uint8x ,	@calculatedFrom( ""// no comment"" ) @calculatedFrom( ""it's""	)	i8 falsey , int @calculatedFrom( """ ++ [233]%N ++ runes_of_ascii "t" ++ [233]%N ++ runes_of_ascii """ )
,
    // " ++ [27880; 37322]%N ++ runes_of_ascii "
    match u128 as Foo {""" ++ [28040; 24687]%N ++ runes_of_ascii """ :trueish,	[ """ ++ [128512]%N ++ runes_of_ascii """//	t
, ""1"" // a // b
, 42 ,""" ++ [233]%N ++ runes_of_ascii "t" ++ [233]%N ++ runes_of_ascii """ ] // packet A { u8 x, }
:
Pad[0123456789 // packet A { u8 x, }
]:
    repeatCount
007
:calculatedFrom }
,
    // packet A { u8 x, }
    }options { trueish = 10; //x
Packet = true ; u128
= false ; charz	= 007 ;
    // " ++ [27880; 37322]%N ++ runes_of_ascii "
    } options  { Pad = ""`tick`""// packet A { u8 x, }
leftPad = true
// a // b
// " ++ [27880; 37322]%N ++ runes_of_ascii "
charz  = char[] ;	_x = //x
true }

")).
Eval vm_compute in ("<<<M1050>>>" ++ check (runes_of_ascii "
")).
Eval vm_compute in ("<<<M1082>>>" ++ check (runes_of_ascii "options { Foo = ""packet""; }
/// triple
//	t
options { // `tick` ""quote"" 'q'
x
=
' ' ;
} // @lengthOf(
MetaData
// a // b
// c
calculatedFrom{ char[ 65535 ]asx , zchar stringy `
`	, roots packetx
    ,zchar[ 3 ] options1	, float	u8x ,char  asx
    `doc`,
} packet lengthOf
// c
// c
{
uint16 // a // b
calculatedFrom
    @calculatedFrom(""x y"" ) , } // packet A { u8 x, }")).
Eval vm_compute in ("<<<M1114>>>" ++ check (runes_of_ascii "

")).
Eval vm_compute in ("<<<M1146>>>" ++ check (runes_of_ascii "packet uint8x{ char[	42
    ]i64_ @lengthOf( crc
// `tick` ""quote"" 'q'
//x
) `a\`, @calculatedFrom(  ""{,}"") @calculatedFrom( ""\" ++ [233]%N ++ runes_of_ascii """ ) repeat
    i16 rootA`// not a comment` , // @lengthOf(
As
@lengthOf(falsey
) , @lengthOf(pack
)
int64 packetx	, }
")).
Eval vm_compute in ("<<<M1178>>>" ++ check (runes_of_ascii "packet	crc {Logon  {u64 Z9_
// " ++ [27880; 37322]%N ++ runes_of_ascii "
// c
@lengthOf(A
) , f64 int,//
match BodyLength as MetaDataX // a // b
{
""" ++ [28040; 24687]%N ++ runes_of_ascii """ :
msg_type ,00 :
falsey, 00 :
tag // @lengthOf(
,
""it's"": options1, 007
    //	t
    : len ,65535 :
    falsey , } ,	repeat char[] int  ,//x
}, }
root packet	repeatCount { }packet BodyLength{
stringy // trailing space 
{	len	`
`,
    }
    ,  repeat i32 int // a // b
,
match Foo as crc
// trailing space 
/// triple
{
0: i8i8, 3 : // " ++ [27880; 37322]%N ++ runes_of_ascii "
chars
,
}
,repeat  x  { zchar[
007 ]
    chars
,
    repeat chars
    // " ++ [27880; 37322]%N ++ runes_of_ascii "
    {
repeat stringy {x_y_z u128 , string options1 `two words`
, char[  0123456789
]body
    `crlf
line` ,  repeat int32 i64_
, } ,
char[ //x
42]
crc
, Pad
    `tab	here` , f32a
{lengthOf f32a ,} , } ,} ,
i8 stringy , f32a  {match body as body
{
""\" ++ [233]%N ++ runes_of_ascii """// packet A { u8 x, }
:	u128	} ,
    repeat
string len
    `a\`
    , repeat As
// c
//	t
asx `it's` , } , }	MetaData rootA {
//
//
metadata metadata , A _x , u T , char[ // " ++ [128512]%N ++ runes_of_ascii " emoji
3 ] a1 `line1
line2` // " ++ [128512]%N ++ runes_of_ascii " emoji
,
zchar[ 4294967296  ] packetx
    // @lengthOf(
    `{ , }` , string
Logon `" ++ [233]%N ++ runes_of_ascii "` ,  } packet BodyLength
    {@calculatedFrom( /// triple
""\n""
    )
int8
    a1
    @lengthOf( falsey
) , //
@calculatedFrom( ""\" ++ [233]%N ++ runes_of_ascii """)@tag(0123456789
    ) lengthOf , @tag( 007
    // c
    ) //
match Logon // " ++ [27880; 37322]%N ++ runes_of_ascii "
as f32a
// @lengthOf(
/// triple
{ 0 :
zchar // @lengthOf(
, } ,@lengthOf( i8i8 ) match options1
    //	t
    as string_ { [""a\""b"" , 00 , /// triple
4294967296, 4294967296
, ""a	b"",1 ] :
A
}
,}
")).
Eval vm_compute in ("<<<M1210>>>" ++ check (runes_of_ascii "options{ Logon =
int32
; x_y_z // trailing space 
= ""1"" f32a = 007 BodyLength =
    zchar[
    // " ++ [27880; 37322]%N ++ runes_of_ascii "
    3
]
    ; MetaDataX = false //x
;
} packet // c
A { match A
    as A {
    42 : _x ,
} , }
packet int
{ //
_x
    asx
,	} packet	trueish {
float	@calculatedFrom(
// " ++ [128512]%N ++ runes_of_ascii " emoji
// @lengthOf(
"""" ) ,
zchar[
65535 ] Pad@calculatedFrom(""a	b"" ) `
` //	t
,
}options
    {
    // " ++ [128512]%N ++ runes_of_ascii " emoji
    f32a =	zchar[ 42 ] ; body = ""`tick`"" ; //
As =
    true
    tag=3 ;
packetx = true
}
")).
Eval vm_compute in ("<<<T1210>>>" ++ terms [mkTok 1 "options" 1 0 false; mkTok 2 "{" 1 7 false; mkTok 42 "Logon" 1 9 false; mkTok 4 "=" 1 15 false; mkTok 26 "int32" 2 0 false; mkTok 41 ";" 3 0 false; mkTok 42 "x_y_z" 3 2 false; mkTok 44 "// trailing space " 3 8 true; mkTok 4 "=" 4 0 false; mkTok 31 """1""" 4 2 false; mkTok 42 "f32a" 4 6 false; mkTok 4 "=" 4 11 false; mkTok 30 "007" 4 13 false; mkTok 42 "BodyLength" 4 17 false; mkTok 4 "=" 4 28 false; mkTok 14 "zchar[" 5 4 false; mkTok 44 (string_of_bytes [47; 47; 32; 230; 179; 168; 233; 135; 138]%N) 6 4 true; mkTok 30 "3" 7 4 false; mkTok 13 "]" 8 0 false; mkTok 41 ";" 9 4 false; mkTok 42 "MetaDataX" 9 6 false; mkTok 4 "=" 9 16 false; mkTok 11 "false" 9 18 false; mkTok 44 "//x" 9 24 true; mkTok 41 ";" 10 0 false; mkTok 3 "}" 11 0 false; mkTok 35 "packet" 11 2 false; mkTok 44 "// c" 11 9 true; mkTok 42 "A" 12 0 false; mkTok 2 "{" 12 2 false; mkTok 38 "match" 12 4 false; mkTok 42 "A" 12 10 false; mkTok 17 "as" 13 4 false; mkTok 42 "A" 13 7 false; mkTok 2 "{" 13 9 false; mkTok 30 "42" 14 4 false; mkTok 39 ":" 14 7 false; mkTok 42 "_x" 14 9 false; mkTok 40 "," 14 12 false; mkTok 3 "}" 15 0 false; mkTok 40 "," 15 2 false; mkTok 3 "}" 15 4 false; mkTok 35 "packet" 16 0 false; mkTok 42 "int" 16 7 false; mkTok 2 "{" 17 0 false; mkTok 44 "//" 17 2 true; mkTok 42 "_x" 18 0 false; mkTok 42 "asx" 19 4 false; mkTok 40 "," 20 0 false; mkTok 3 "}" 20 2 false; mkTok 35 "packet" 20 4 false; mkTok 42 "trueish" 20 11 false; mkTok 2 "{" 20 19 false; mkTok 42 "float" 21 0 false; mkTok 5 "@calculatedFrom(" 21 6 false; mkTok 44 (string_of_bytes [47; 47; 32; 240; 159; 152; 128; 32; 101; 109; 111; 106; 105]%N) 22 0 true; mkTok 44 "// @lengthOf(" 23 0 true; mkTok 31 """""" 24 0 false; mkTok 6 ")" 24 3 false; mkTok 40 "," 24 5 false; mkTok 14 "zchar[" 25 0 false; mkTok 30 "65535" 26 0 false; mkTok 13 "]" 26 6 false; mkTok 42 "Pad" 26 8 false; mkTok 5 "@calculatedFrom(" 26 11 false; mkTok 31 (string_of_bytes [34; 97; 9; 98; 34]%N) 26 27 false; mkTok 6 ")" 26 33 false; mkTok 43 (string_of_bytes [96; 10; 96]%N) 26 35 false; mkTok 44 (string_of_bytes [47; 47; 9; 116]%N) 27 2 true; mkTok 40 "," 28 0 false; mkTok 3 "}" 29 0 false; mkTok 1 "options" 29 1 false; mkTok 2 "{" 30 4 false; mkTok 44 (string_of_bytes [47; 47; 32; 240; 159; 152; 128; 32; 101; 109; 111; 106; 105]%N) 31 4 true; mkTok 42 "f32a" 32 4 false; mkTok 4 "=" 32 9 false; mkTok 14 "zchar[" 32 11 false; mkTok 30 "42" 32 18 false; mkTok 13 "]" 32 21 false; mkTok 41 ";" 32 23 false; mkTok 42 "body" 32 25 false; mkTok 4 "=" 32 30 false; mkTok 31 """`tick`""" 32 32 false; mkTok 41 ";" 32 41 false; mkTok 44 "//" 32 43 true; mkTok 42 "As" 33 0 false; mkTok 4 "=" 33 3 false; mkTok 10 "true" 34 4 false; mkTok 42 "tag" 35 4 false; mkTok 4 "=" 35 7 false; mkTok 30 "3" 35 8 false; mkTok 41 ";" 35 10 false; mkTok 42 "packetx" 36 0 false; mkTok 4 "=" 36 8 false; mkTok 10 "true" 36 10 false; mkTok 3 "}" 37 0 false; mkTok 0 "<EOF>" 38 0 false] (mkPacket (mkPtok 1 "options" 1 0 0) (Some (mkPtok 3 "}" 37 0 95)) [(DOption (mkOptionDef (mkSpan (mkPtok 1 "options" 1 0 0) (mkPtok 3 "}" 11 0 25)) (mkPtok 1 "options" 1 0 0) (mkPtok 2 "{" 1 7 1) [(mkOptionDecl (mkSpan (mkPtok 42 "Logon" 1 9 2) (mkPtok 41 ";" 3 0 5)) (mkPtok 42 "Logon" 1 9 2) (mkPtok 4 "=" 1 15 3) (VType (mkSpan (mkPtok 26 "int32" 2 0 4) (mkPtok 26 "int32" 2 0 4)) (TyBasic (mkSpan (mkPtok 26 "int32" 2 0 4) (mkPtok 26 "int32" 2 0 4)) (mkBasicType (mkSpan (mkPtok 26 "int32" 2 0 4) (mkPtok 26 "int32" 2 0 4)) (mkPtok 26 "int32" 2 0 4)))) (Some (mkPtok 41 ";" 3 0 5))); (mkOptionDecl (mkSpan (mkPtok 42 "x_y_z" 3 2 6) (mkPtok 31 """1""" 4 2 9)) (mkPtok 42 "x_y_z" 3 2 6) (mkPtok 4 "=" 4 0 8) (VString (mkSpan (mkPtok 31 """1""" 4 2 9) (mkPtok 31 """1""" 4 2 9)) (mkPtok 31 """1""" 4 2 9)) None); (mkOptionDecl (mkSpan (mkPtok 42 "f32a" 4 6 10) (mkPtok 30 "007" 4 13 12)) (mkPtok 42 "f32a" 4 6 10) (mkPtok 4 "=" 4 11 11) (VDigits (mkSpan (mkPtok 30 "007" 4 13 12) (mkPtok 30 "007" 4 13 12)) (mkPtok 30 "007" 4 13 12)) None); (mkOptionDecl (mkSpan (mkPtok 42 "BodyLength" 4 17 13) (mkPtok 41 ";" 9 4 19)) (mkPtok 42 "BodyLength" 4 17 13) (mkPtok 4 "=" 4 28 14) (VType (mkSpan (mkPtok 14 "zchar[" 5 4 15) (mkPtok 13 "]" 8 0 18)) (TyFixed (mkSpan (mkPtok 14 "zchar[" 5 4 15) (mkPtok 13 "]" 8 0 18)) (mkFixedString (mkSpan (mkPtok 14 "zchar[" 5 4 15) (mkPtok 13 "]" 8 0 18)) (mkPtok 14 "zchar[" 5 4 15) (mkPtok 30 "3" 7 4 17) (mkPtok 13 "]" 8 0 18)))) (Some (mkPtok 41 ";" 9 4 19))); (mkOptionDecl (mkSpan (mkPtok 42 "MetaDataX" 9 6 20) (mkPtok 41 ";" 10 0 24)) (mkPtok 42 "MetaDataX" 9 6 20) (mkPtok 4 "=" 9 16 21) (VFalse (mkSpan (mkPtok 11 "false" 9 18 22) (mkPtok 11 "false" 9 18 22)) (mkPtok 11 "false" 9 18 22)) (Some (mkPtok 41 ";" 10 0 24)))] (mkPtok 3 "}" 11 0 25))); (DPacket (mkPacketDef (mkSpan (mkPtok 35 "packet" 11 2 26) (mkPtok 3 "}" 15 4 41)) None (mkPtok 35 "packet" 11 2 26) (mkPtok 42 "A" 12 0 28) (mkPtok 2 "{" 12 2 29) [(mkFieldWithAttr (mkSpan (mkPtok 38 "match" 12 4 30) (mkPtok 40 "," 15 2 40)) [] (MatchField (mkSpan (mkPtok 38 "match" 12 4 30) (mkPtok 40 "," 15 2 40)) (mkMatchFieldDecl (mkSpan (mkPtok 38 "match" 12 4 30) (mkPtok 3 "}" 15 0 39)) (mkPtok 38 "match" 12 4 30) (mkPtok 42 "A" 12 10 31) (mkPtok 17 "as" 13 4 32) (mkPtok 42 "A" 13 7 33) (mkPtok 2 "{" 13 9 34) [(mkMatchPair (mkSpan (mkPtok 30 "42" 14 4 35) (mkPtok 40 "," 14 12 38)) (MKDigits (mkPtok 30 "42" 14 4 35)) (mkPtok 39 ":" 14 7 36) (mkPtok 42 "_x" 14 9 37) (Some (mkPtok 40 "," 14 12 38)))] (mkPtok 3 "}" 15 0 39)) (mkPtok 40 "," 15 2 40)))] (mkPtok 3 "}" 15 4 41))); (DPacket (mkPacketDef (mkSpan (mkPtok 35 "packet" 16 0 42) (mkPtok 3 "}" 20 2 49)) None (mkPtok 35 "packet" 16 0 42) (mkPtok 42 "int" 16 7 43) (mkPtok 2 "{" 17 0 44) [(mkFieldWithAttr (mkSpan (mkPtok 42 "_x" 18 0 46) (mkPtok 40 "," 20 0 48)) [] (ObjectField (mkSpan (mkPtok 42 "_x" 18 0 46) (mkPtok 40 "," 20 0 48)) None (mkPtok 42 "_x" 18 0 46) (Some (mkPtok 42 "asx" 19 4 47)) None (mkPtok 40 "," 20 0 48)))] (mkPtok 3 "}" 20 2 49))); (DPacket (mkPacketDef (mkSpan (mkPtok 35 "packet" 20 4 50) (mkPtok 3 "}" 29 0 70)) None (mkPtok 35 "packet" 20 4 50) (mkPtok 42 "trueish" 20 11 51) (mkPtok 2 "{" 20 19 52) [(mkFieldWithAttr (mkSpan (mkPtok 42 "float" 21 0 53) (mkPtok 40 "," 24 5 59)) [] (CheckSumField (mkSpan (mkPtok 42 "float" 21 0 53) (mkPtok 40 "," 24 5 59)) (mkChecksumFieldDecl (mkSpan (mkPtok 42 "float" 21 0 53) (mkPtok 40 "," 24 5 59)) None (mkPtok 42 "float" 21 0 53) (mkCalculatedFrom (mkSpan (mkPtok 5 "@calculatedFrom(" 21 6 54) (mkPtok 6 ")" 24 3 58)) (mkPtok 5 "@calculatedFrom(" 21 6 54) (mkPtok 31 """""" 24 0 57) (mkPtok 6 ")" 24 3 58)) None (mkPtok 40 "," 24 5 59)))); (mkFieldWithAttr (mkSpan (mkPtok 14 "zchar[" 25 0 60) (mkPtok 40 "," 28 0 69)) [] (CheckSumField (mkSpan (mkPtok 14 "zchar[" 25 0 60) (mkPtok 40 "," 28 0 69)) (mkChecksumFieldDecl (mkSpan (mkPtok 14 "zchar[" 25 0 60) (mkPtok 40 "," 28 0 69)) (Some (TyFixed (mkSpan (mkPtok 14 "zchar[" 25 0 60) (mkPtok 13 "]" 26 6 62)) (mkFixedString (mkSpan (mkPtok 14 "zchar[" 25 0 60) (mkPtok 13 "]" 26 6 62)) (mkPtok 14 "zchar[" 25 0 60) (mkPtok 30 "65535" 26 0 61) (mkPtok 13 "]" 26 6 62)))) (mkPtok 42 "Pad" 26 8 63) (mkCalculatedFrom (mkSpan (mkPtok 5 "@calculatedFrom(" 26 11 64) (mkPtok 6 ")" 26 33 66)) (mkPtok 5 "@calculatedFrom(" 26 11 64) (mkPtok 31 (string_of_bytes [34; 97; 9; 98; 34]%N) 26 27 65) (mkPtok 6 ")" 26 33 66)) (Some (mkPtok 43 (string_of_bytes [96; 10; 96]%N) 26 35 67)) (mkPtok 40 "," 28 0 69))))] (mkPtok 3 "}" 29 0 70))); (DOption (mkOptionDef (mkSpan (mkPtok 1 "options" 29 1 71) (mkPtok 3 "}" 37 0 95)) (mkPtok 1 "options" 29 1 71) (mkPtok 2 "{" 30 4 72) [(mkOptionDecl (mkSpan (mkPtok 42 "f32a" 32 4 74) (mkPtok 41 ";" 32 23 79)) (mkPtok 42 "f32a" 32 4 74) (mkPtok 4 "=" 32 9 75) (VType (mkSpan (mkPtok 14 "zchar[" 32 11 76) (mkPtok 13 "]" 32 21 78)) (TyFixed (mkSpan (mkPtok 14 "zchar[" 32 11 76) (mkPtok 13 "]" 32 21 78)) (mkFixedString (mkSpan (mkPtok 14 "zchar[" 32 11 76) (mkPtok 13 "]" 32 21 78)) (mkPtok 14 "zchar[" 32 11 76) (mkPtok 30 "42" 32 18 77) (mkPtok 13 "]" 32 21 78)))) (Some (mkPtok 41 ";" 32 23 79))); (mkOptionDecl (mkSpan (mkPtok 42 "body" 32 25 80) (mkPtok 41 ";" 32 41 83)) (mkPtok 42 "body" 32 25 80) (mkPtok 4 "=" 32 30 81) (VString (mkSpan (mkPtok 31 """`tick`""" 32 32 82) (mkPtok 31 """`tick`""" 32 32 82)) (mkPtok 31 """`tick`""" 32 32 82)) (Some (mkPtok 41 ";" 32 41 83))); (mkOptionDecl (mkSpan (mkPtok 42 "As" 33 0 85) (mkPtok 10 "true" 34 4 87)) (mkPtok 42 "As" 33 0 85) (mkPtok 4 "=" 33 3 86) (VTrue (mkSpan (mkPtok 10 "true" 34 4 87) (mkPtok 10 "true" 34 4 87)) (mkPtok 10 "true" 34 4 87)) None); (mkOptionDecl (mkSpan (mkPtok 42 "tag" 35 4 88) (mkPtok 41 ";" 35 10 91)) (mkPtok 42 "tag" 35 4 88) (mkPtok 4 "=" 35 7 89) (VDigits (mkSpan (mkPtok 30 "3" 35 8 90) (mkPtok 30 "3" 35 8 90)) (mkPtok 30 "3" 35 8 90)) (Some (mkPtok 41 ";" 35 10 91))); (mkOptionDecl (mkSpan (mkPtok 42 "packetx" 36 0 92) (mkPtok 10 "true" 36 10 94)) (mkPtok 42 "packetx" 36 0 92) (mkPtok 4 "=" 36 8 93) (VTrue (mkSpan (mkPtok 10 "true" 36 10 94) (mkPtok 10 "true" 36 10 94)) (mkPtok 10 "true" 36 10 94)) None)] (mkPtok 3 "}" 37 0 95)))])).
Eval vm_compute in ("<<<M1242>>>" ++ check (runes_of_ascii "
packet
    // " ++ [27880; 37322]%N ++ runes_of_ascii "
    chars {u8x metadata	`u8 x,` , @lengthOf( o
) leftPad /// triple
@lengthOf( leftPad)
    `line1
line2` , match  falsey as o //x
{[ ""\" ++ [233]%N ++ runes_of_ascii """
    ,""a\\"",00]: falsey,0 : u	""a\""b"" :	roots , """ ++ [128512]%N ++ runes_of_ascii """ :
Foo, [
    """ ++ [233]%N ++ runes_of_ascii "t" ++ [233]%N ++ runes_of_ascii """ , ""a\""b""//x
, 7  ]	: // a // b
string_
    // a // b
    ""a\\"" :
    string_	,
    },@calculatedFrom( ""a	b"" ) repeat body  `a\` , }options {stringy = 0 }packet
    // a // b
    chars {
charz@calculatedFrom( ""a	b"" ) ,uint32 lengthOf, int8
    repeatCount ,
uint16 // @lengthOf(
o`
` ,
    }")).
Eval vm_compute in ("<<<M1274>>>" ++ check (runes_of_ascii "/// triple

")).
Eval vm_compute in ("<<<M1306>>>" ++ check (runes_of_ascii "options{
Logon
    //x
    = ' '; }")).
Eval vm_compute in ("<<<M1338>>>" ++ check (runes_of_ascii "packet	body {
    // @lengthOf(
    body
    trueish , repeat MetaDataX
string_,  char[] asx `say ""hi""`
, char
// a // b
// " ++ [128512]%N ++ runes_of_ascii " emoji
int@calculatedFrom(""packet""
    )
,}
")).
Eval vm_compute in ("<<<M1370>>>" ++ check (runes_of_ascii "
")).
Eval vm_compute in ("<<<M1402>>>" ++ check (runes_of_ascii "  root //x
packet Logon {
char[	7 ]calculatedFrom @calculatedFrom(	""// no comment""	) `two words`, uint16
MetaDataX
`u8 x,`
    , string a1 @lengthOf( Logon ) // " ++ [27880; 37322]%N ++ runes_of_ascii "
,
    @tag( 0 ) // " ++ [128512]%N ++ runes_of_ascii " emoji
@lengthOf( u8x) @calculatedFrom(
    ""it's"" ) string
zchar `doc` , @lengthOf(x_y_z)// trailing space 
trueish
// @lengthOf(
// `tick` ""quote"" 'q'
{ Z9_ { match
float
as/// triple
lengthOf{00: _x, } ,repeat x_y_z {u8x // " ++ [128512]%N ++ runes_of_ascii " emoji
uint8x ,	}
,char[007
] x_y_z , } , Z9_
`" ++ [28040; 24687; 31867; 22411]%N ++ runes_of_ascii "` ,
}
,
f32a {
repeat	zchar[0123456789 ]A, repeat i64
stringy , leftPad `crlf
line` ,
    },
}packet u128//x
{  match _x as MetaDataX{ [ ""x y"" , 42  ] : A , }
, @lengthOf( charz) charz { match x_y_z as // " ++ [27880; 37322]%N ++ runes_of_ascii "
f32a { [ 007
, 10
    ,
    42
    , """ ++ [233]%N ++ runes_of_ascii "t" ++ [233]%N ++ runes_of_ascii """ , 0123456789 ] :x_y_z ,// @lengthOf(
7: u128 , ""// no comment""
: repeatCount  ,
    ""a\\"" : int	,""x y"" :u128 } , },i16 chars
// @lengthOf(
// packet A { u8 x, }
@lengthOf( zchar)
    //	t
    `u8 x,` , }
    packet u
// " ++ [27880; 37322]%N ++ runes_of_ascii "
// @lengthOf(
{ repeat u options1 , /// triple
@calculatedFrom( ""CRC32"" )float32 u128@lengthOf( //x
u8x )
`{ , }`,
@leftPad ('\x00'
)
    i8 crc`say ""hi""`
, } packet
calculatedFrom {
}
packet pack {
zchar[ 65535 ] calculatedFrom , len { stringy @lengthOf(
body
)	, }, @lengthOf( x_y_z// " ++ [128512]%N ++ runes_of_ascii " emoji
) uint8x
@lengthOf( tag ) , @calculatedFrom(
""x y"") zchar[ 65535 ]	tag	@calculatedFrom(
    ""a\\"") `" ++ [28040; 24687; 31867; 22411]%N ++ runes_of_ascii "` ,
i64
uint8x
    ,  @lengthOf(
    int ) u8 Pad@lengthOf(  o
    )  `{ , }`
    ,  }
")).
Eval vm_compute in ("<<<M1434>>>" ++ check (runes_of_ascii "//
packet x_y_z
    // `tick` ""quote"" 'q'
    {
@calculatedFrom(""x y""  )	@calculatedFrom( ""packet"" ) @calculatedFrom(""CRC32""
    ) a1 uint8x
    //
    `u8 x,`
// " ++ [128512]%N ++ runes_of_ascii " emoji
// @lengthOf(
,}
")).
Eval vm_compute in ("<<<T1434>>>" ++ terms [mkTok 44 "//" 1 0 true; mkTok 35 "packet" 2 0 false; mkTok 42 "x_y_z" 2 7 false; mkTok 44 "// `tick` ""quote"" 'q'" 3 4 true; mkTok 2 "{" 4 4 false; mkTok 5 "@calculatedFrom(" 5 0 false; mkTok 31 """x y""" 5 16 false; mkTok 6 ")" 5 23 false; mkTok 5 "@calculatedFrom(" 5 25 false; mkTok 31 """packet""" 5 42 false; mkTok 6 ")" 5 51 false; mkTok 5 "@calculatedFrom(" 5 53 false; mkTok 31 """CRC32""" 5 69 false; mkTok 6 ")" 6 4 false; mkTok 42 "a1" 6 6 false; mkTok 42 "uint8x" 6 9 false; mkTok 44 "//" 7 4 true; mkTok 43 "`u8 x,`" 8 4 false; mkTok 44 (string_of_bytes [47; 47; 32; 240; 159; 152; 128; 32; 101; 109; 111; 106; 105]%N) 9 0 true; mkTok 44 "// @lengthOf(" 10 0 true; mkTok 40 "," 11 0 false; mkTok 3 "}" 11 1 false; mkTok 0 "<EOF>" 12 0 false] (mkPacket (mkPtok 35 "packet" 2 0 1) (Some (mkPtok 3 "}" 11 1 21)) [(DPacket (mkPacketDef (mkSpan (mkPtok 35 "packet" 2 0 1) (mkPtok 3 "}" 11 1 21)) None (mkPtok 35 "packet" 2 0 1) (mkPtok 42 "x_y_z" 2 7 2) (mkPtok 2 "{" 4 4 4) [(mkFieldWithAttr (mkSpan (mkPtok 5 "@calculatedFrom(" 5 0 5) (mkPtok 40 "," 11 0 20)) [(FACalculatedFrom (mkSpan (mkPtok 5 "@calculatedFrom(" 5 0 5) (mkPtok 6 ")" 5 23 7)) (mkCalculatedFrom (mkSpan (mkPtok 5 "@calculatedFrom(" 5 0 5) (mkPtok 6 ")" 5 23 7)) (mkPtok 5 "@calculatedFrom(" 5 0 5) (mkPtok 31 """x y""" 5 16 6) (mkPtok 6 ")" 5 23 7))); (FACalculatedFrom (mkSpan (mkPtok 5 "@calculatedFrom(" 5 25 8) (mkPtok 6 ")" 5 51 10)) (mkCalculatedFrom (mkSpan (mkPtok 5 "@calculatedFrom(" 5 25 8) (mkPtok 6 ")" 5 51 10)) (mkPtok 5 "@calculatedFrom(" 5 25 8) (mkPtok 31 """packet""" 5 42 9) (mkPtok 6 ")" 5 51 10))); (FACalculatedFrom (mkSpan (mkPtok 5 "@calculatedFrom(" 5 53 11) (mkPtok 6 ")" 6 4 13)) (mkCalculatedFrom (mkSpan (mkPtok 5 "@calculatedFrom(" 5 53 11) (mkPtok 6 ")" 6 4 13)) (mkPtok 5 "@calculatedFrom(" 5 53 11) (mkPtok 31 """CRC32""" 5 69 12) (mkPtok 6 ")" 6 4 13)))] (ObjectField (mkSpan (mkPtok 42 "a1" 6 6 14) (mkPtok 40 "," 11 0 20)) None (mkPtok 42 "a1" 6 6 14) (Some (mkPtok 42 "uint8x" 6 9 15)) (Some (mkPtok 43 "`u8 x,`" 8 4 17)) (mkPtok 40 "," 11 0 20)))] (mkPtok 3 "}" 11 1 21)))])).
Eval vm_compute in ("<<<M1466>>>" ++ check (runes_of_ascii "
")).
Eval vm_compute in ("<<<M1498>>>" ++ check (runes_of_ascii "options{ falsey =
float64 ;
u8x
=' ' ; charz = '0' ; // a // b
} options/// triple
{ i8i8 = true ;	uint8x = false ; roots
//	t
// " ++ [27880; 37322]%N ++ runes_of_ascii "
=
// @lengthOf(
// c
42 ; MetaDataX= ""a\\""
} packet tag { lengthOf//
, @lengthOf(
    // a // b
    u8x)
    match// " ++ [27880; 37322]%N ++ runes_of_ascii "
metadata as packetx { ""// no comment""
:
    // `tick` ""quote"" 'q'
    tag // " ++ [128512]%N ++ runes_of_ascii " emoji
,65535
: MetaDataX
    // " ++ [128512]%N ++ runes_of_ascii " emoji
    ,	} ,@rightPad(' '
)  char[ 007 // c
] // " ++ [128512]%N ++ runes_of_ascii " emoji
len, @calculatedFrom(
    ""a	b""
) repeat//x
uint8x u8x `a\`
, repeat
uint8x	{ match  MetaDataX as zchar  { 65535 : int
, 1
    :
    matchKey  , [ 0123456789]
:pack, 7: Z9_ , 0123456789
:	rootA/// triple
[ 00
    ,""\n"" ] :leftPad , }  , u128  { // a // b
uint64 i8i8 // packet A { u8 x, }
, i32 tag	, uint8 body	,}  , zchar[255 ] rootA	, } // trailing space 
, // trailing space 
string roots , @calculatedFrom(
""CRC32"" ) @tag( 7 ) string_	@calculatedFrom(  ""abc"" )
, zchar[ 10 ] int `say ""hi""` , @lengthOf(  metadata )	char[ 0 ] roots @calculatedFrom( """" ) // `tick` ""quote"" 'q'
, @calculatedFrom(""x y""//x
) rootA `" ++ [28040; 24687; 31867; 22411]%N ++ runes_of_ascii "` , }
root packet // " ++ [128512]%N ++ runes_of_ascii " emoji
i64_ {@tag( 00 )
repeat x i64_ , } options { Header
    =00 float =	false
    ;}
")).
Eval vm_compute in ("<<<M1530>>>" ++ check (runes_of_ascii "
root
packet  Z9_{
u8x @lengthOf(
    // " ++ [27880; 37322]%N ++ runes_of_ascii "
    lengthOf)
`it's` ,@tag(
// packet A { u8 x, }
//
00) x_y_z
    , } packet roots	{ }  options { // packet A { u8 x, }
x_y_z =
' '	;
    }")).
Eval vm_compute in ("<<<M1562>>>" ++ check (runes_of_ascii "packet
stringy
    {
// c
// a // b
}
")).
Eval vm_compute in ("<<<M1594>>>" ++ check (runes_of_ascii "options {  rootA =char[ 007] } packet A	{
    i8	trueish ,	repeat uint8x
{ BodyLength  { u8 metadata// `tick` ""quote"" 'q'
,} ,} ,@lengthOf(msg_type ) BodyLength, BodyLength
    // c
    x_y_z ,	}")).
Eval vm_compute in ("<<<M1626>>>" ++ check (runes_of_ascii "options {zchar
=false ;
    falsey = char[ 00	] ;
// a // b
// " ++ [128512]%N ++ runes_of_ascii " emoji
packetx  = //	t
false	;
metadata= false
Z9_  =true
    }

")).
Eval vm_compute in ("<<<M1658>>>" ++ check (runes_of_ascii "packet x {trueish Header `// not a comment`,
} root packet packetx { @calculatedFrom( ""\n""
)
float64 repeatCount `doc`	,
    } options
{ }
")).
Eval vm_compute in ("<<<T1658>>>" ++ terms [mkTok 35 "packet" 1 0 false; mkTok 42 "x" 1 7 false; mkTok 2 "{" 1 9 false; mkTok 42 "trueish" 1 10 false; mkTok 42 "Header" 1 18 false; mkTok 43 "`// not a comment`" 1 25 false; mkTok 40 "," 1 43 false; mkTok 3 "}" 2 0 false; mkTok 34 "root" 2 2 false; mkTok 35 "packet" 2 7 false; mkTok 42 "packetx" 2 14 false; mkTok 2 "{" 2 22 false; mkTok 5 "@calculatedFrom(" 2 24 false; mkTok 31 """\n""" 2 41 false; mkTok 6 ")" 3 0 false; mkTok 29 "float64" 4 0 false; mkTok 42 "repeatCount" 4 8 false; mkTok 43 "`doc`" 4 20 false; mkTok 40 "," 4 26 false; mkTok 3 "}" 5 4 false; mkTok 1 "options" 5 6 false; mkTok 2 "{" 6 0 false; mkTok 3 "}" 6 2 false; mkTok 0 "<EOF>" 7 0 false] (mkPacket (mkPtok 35 "packet" 1 0 0) (Some (mkPtok 3 "}" 6 2 22)) [(DPacket (mkPacketDef (mkSpan (mkPtok 35 "packet" 1 0 0) (mkPtok 3 "}" 2 0 7)) None (mkPtok 35 "packet" 1 0 0) (mkPtok 42 "x" 1 7 1) (mkPtok 2 "{" 1 9 2) [(mkFieldWithAttr (mkSpan (mkPtok 42 "trueish" 1 10 3) (mkPtok 40 "," 1 43 6)) [] (ObjectField (mkSpan (mkPtok 42 "trueish" 1 10 3) (mkPtok 40 "," 1 43 6)) None (mkPtok 42 "trueish" 1 10 3) (Some (mkPtok 42 "Header" 1 18 4)) (Some (mkPtok 43 "`// not a comment`" 1 25 5)) (mkPtok 40 "," 1 43 6)))] (mkPtok 3 "}" 2 0 7))); (DPacket (mkPacketDef (mkSpan (mkPtok 34 "root" 2 2 8) (mkPtok 3 "}" 5 4 19)) (Some (mkPtok 34 "root" 2 2 8)) (mkPtok 35 "packet" 2 7 9) (mkPtok 42 "packetx" 2 14 10) (mkPtok 2 "{" 2 22 11) [(mkFieldWithAttr (mkSpan (mkPtok 5 "@calculatedFrom(" 2 24 12) (mkPtok 40 "," 4 26 18)) [(FACalculatedFrom (mkSpan (mkPtok 5 "@calculatedFrom(" 2 24 12) (mkPtok 6 ")" 3 0 14)) (mkCalculatedFrom (mkSpan (mkPtok 5 "@calculatedFrom(" 2 24 12) (mkPtok 6 ")" 3 0 14)) (mkPtok 5 "@calculatedFrom(" 2 24 12) (mkPtok 31 """\n""" 2 41 13) (mkPtok 6 ")" 3 0 14)))] (MetaField (mkSpan (mkPtok 29 "float64" 4 0 15) (mkPtok 40 "," 4 26 18)) None (mkMetaDecl (mkSpan (mkPtok 29 "float64" 4 0 15) (mkPtok 40 "," 4 26 18)) (TyBasic (mkSpan (mkPtok 29 "float64" 4 0 15) (mkPtok 29 "float64" 4 0 15)) (mkBasicType (mkSpan (mkPtok 29 "float64" 4 0 15) (mkPtok 29 "float64" 4 0 15)) (mkPtok 29 "float64" 4 0 15))) (mkPtok 42 "repeatCount" 4 8 16) (Some (mkPtok 43 "`doc`" 4 20 17)) (mkPtok 40 "," 4 26 18))))] (mkPtok 3 "}" 5 4 19))); (DOption (mkOptionDef (mkSpan (mkPtok 1 "options" 5 6 20) (mkPtok 3 "}" 6 2 22)) (mkPtok 1 "options" 5 6 20) (mkPtok 2 "{" 6 0 21) [] (mkPtok 3 "}" 6 2 22)))])).
Eval vm_compute in ("<<<M1690>>>" ++ check (runes_of_ascii "MetaData _x
{
//x
// " ++ [128512]%N ++ runes_of_ascii " emoji
f32a
f32a ,
}
root // packet A { u8 x, }
packet
stringy{@lengthOf(
leftPad ) match trueish as rootA { """ ++ [128512]%N ++ runes_of_ascii """ :  falsey} ,
}	root packet  Pad { @lengthOf(tag) u16
// a // b
// packet A { u8 x, }
rootA `// not a comment`
    //	t
    ,	int64
    u8x	, @calculatedFrom( ""{,}""
    ) char
matchKey // " ++ [27880; 37322]%N ++ runes_of_ascii "
`crlf
line`, Packet
    { Packet @calculatedFrom( ""x y"" )
, repeat uint64 Foo ,}  , Z9_
    /// triple
    @calculatedFrom(
    ""\n""
    )	`it's` ,  u128 calculatedFrom , i16 len@calculatedFrom(
""\n"" )`two words`
    /// triple
    ,}")).
Eval vm_compute in ("<<<M1722>>>" ++ check (runes_of_ascii "//x
options {
    zchar
=
// " ++ [128512]%N ++ runes_of_ascii " emoji
// `tick` ""quote"" 'q'
""a	b"" ;
    As  =
' '	f32a
//x
// " ++ [128512]%N ++ runes_of_ascii " emoji
= 4294967296 ; } 	 ")).
Eval vm_compute in ("<<<M1754>>>" ++ check (runes_of_ascii "MetaData options1
{
    u8 pack `it's`
    // `tick` ""quote"" 'q'
    ,char[]
A
    /// triple
    ,
zchar[ 42 ] msg_type // packet A { u8 x, }
,
    }options { Foo=42
; lengthOf =//
true matchKey = true ; msg_type
= ""1"" } MetaData  lengthOf
    // " ++ [128512]%N ++ runes_of_ascii " emoji
    { trueish packetx,
}options {
    Z9_ = ""abc"" ; /// triple
stringy
=""" ++ [128512]%N ++ runes_of_ascii """
body
// packet A { u8 x, }
// packet A { u8 x, }
=""it's""
;
    } 	 ")).
Eval vm_compute in ("<<<M1786>>>" ++ check (runes_of_ascii "root packet _x
{ @leftPad(
'\x00' )	float32 x_y_z	`crlf
line` ,
    x_y_z@calculatedFrom( ""a	b""
    ) ``, char[ 42 ]
    u128	, repeat /// triple
float64 roots	,f32a // " ++ [27880; 37322]%N ++ runes_of_ascii "
, i8i8 @lengthOf( charz ) , // packet A { u8 x, }
falsey
    @calculatedFrom( ""x y"" ) , string
Foo, } //x")).
Eval vm_compute in ("<<<M1818>>>" ++ check (runes_of_ascii "packet  leftPad
    { repeatCount @calculatedFrom(
    """ ++ [28040; 24687]%N ++ runes_of_ascii """) , @tag(
10 ) @leftPad//x
('0' // " ++ [128512]%N ++ runes_of_ascii " emoji
) repeat
uint64 Z9_ `{ , }`,	repeat i64_
    len ,}options {msg_type =
    char[4294967296 ] ;i8i8 = int16 string_ = zchar[ 007] ;f32a
=""a	b"" f32a =
""\" ++ [233]%N ++ runes_of_ascii """ ; } // a // b")).
Eval vm_compute in ("<<<M1850>>>" ++ check (runes_of_ascii "// packet A { u8 x, }
packet
    stringy //
{
T // @lengthOf(
{	repeat int16
    //
    asx `u8 x,`  , }
,@lengthOf(
    pack  ) @lengthOf(
trueish ) @calculatedFrom( ""{,}"" )repeat char[] zchar ,stringy asx , } packet Pad { @calculatedFrom(""a	b"" ) @calculatedFrom(
""{,}""
) float
@lengthOf(
    metadata
) , As , @calculatedFrom(""a\""b""
)
    u8 Z9_ `a\` ,
    chars asx , int
{uint64 Foo @lengthOf( lengthOf )`it's`
,
    repeat string stringy , }, zchar[	1 ] Z9_ // @lengthOf(
@lengthOf(rootA
    ) `line1
line2`//	t
, @tag(00
) repeat metadata  { uint8x@lengthOf(int )
    `{ , }`
, } //x
, @tag(
0)pack {match // trailing space 
u as
    Logon {
65535 :
float , [ """ ++ [28040; 24687]%N ++ runes_of_ascii """ ] : chars, }
    ,i8i8
    @calculatedFrom( // " ++ [27880; 37322]%N ++ runes_of_ascii "
""it's"" )`two words` ,	msg_type
@lengthOf(
asx
)
    ,
    } , } 	 ")).
Eval vm_compute in ("<<<M1882>>>" ++ check (runes_of_ascii "MetaData	zchar{ u16 chars ,	} MetaData int
{ MetaDataX asx `doc` ,char[ 3
] a1, uint8	BodyLength `" ++ [28040; 24687; 31867; 22411]%N ++ runes_of_ascii "` , zchar[
0123456789]// c
As, //x
charz Packet , char[] matchKey `crlf
line`,}
MetaData  A
{
    i16
chars
// @lengthOf(
// `tick` ""quote"" 'q'
``
    ,
body u8x `" ++ [28040; 24687; 31867; 22411]%N ++ runes_of_ascii "` ,
// @lengthOf(
// @lengthOf(
char[]
// `tick` ""quote"" 'q'
/// triple
u128
    //	t
    `a\` ,
    }
")).
Eval vm_compute in ("<<<T1882>>>" ++ terms [mkTok 37 "MetaData" 1 0 false; mkTok 42 "zchar" 1 9 false; mkTok 2 "{" 1 14 false; mkTok 21 "u16" 1 16 false; mkTok 42 "chars" 1 20 false; mkTok 40 "," 1 26 false; mkTok 3 "}" 1 28 false; mkTok 37 "MetaData" 1 30 false; mkTok 42 "int" 1 39 false; mkTok 2 "{" 2 0 false; mkTok 42 "MetaDataX" 2 2 false; mkTok 42 "asx" 2 12 false; mkTok 43 "`doc`" 2 16 false; mkTok 40 "," 2 22 false; mkTok 12 "char[" 2 23 false; mkTok 30 "3" 2 29 false; mkTok 13 "]" 3 0 false; mkTok 42 "a1" 3 2 false; mkTok 40 "," 3 4 false; mkTok 20 "uint8" 3 6 false; mkTok 42 "BodyLength" 3 12 false; mkTok 43 (string_of_bytes [96; 230; 182; 136; 230; 129; 175; 231; 177; 187; 229; 158; 139; 96]%N) 3 23 false; mkTok 40 "," 3 30 false; mkTok 14 "zchar[" 3 32 false; mkTok 30 "0123456789" 4 0 false; mkTok 13 "]" 4 10 false; mkTok 44 "// c" 4 11 true; mkTok 42 "As" 5 0 false; mkTok 40 "," 5 2 false; mkTok 44 "//x" 5 4 true; mkTok 42 "charz" 6 0 false; mkTok 42 "Packet" 6 6 false; mkTok 40 "," 6 13 false; mkTok 16 "char[]" 6 15 false; mkTok 42 "matchKey" 6 22 false; mkTok 43 (string_of_bytes [96; 99; 114; 108; 102; 13; 10; 108; 105; 110; 101; 96]%N) 6 31 false; mkTok 40 "," 7 5 false; mkTok 3 "}" 7 6 false; mkTok 37 "MetaData" 8 0 false; mkTok 42 "A" 8 10 false; mkTok 2 "{" 9 0 false; mkTok 25 "i16" 10 4 false; mkTok 42 "chars" 11 0 false; mkTok 44 "// @lengthOf(" 12 0 true; mkTok 44 "// `tick` ""quote"" 'q'" 13 0 true; mkTok 43 "``" 14 0 false; mkTok 40 "," 15 4 false; mkTok 42 "body" 16 0 false; mkTok 42 "u8x" 16 5 false; mkTok 43 (string_of_bytes [96; 230; 182; 136; 230; 129; 175; 231; 177; 187; 229; 158; 139; 96]%N) 16 9 false; mkTok 40 "," 16 16 false; mkTok 44 "// @lengthOf(" 17 0 true; mkTok 44 "// @lengthOf(" 18 0 true; mkTok 16 "char[]" 19 0 false; mkTok 44 "// `tick` ""quote"" 'q'" 20 0 true; mkTok 44 "/// triple" 21 0 true; mkTok 42 "u128" 22 0 false; mkTok 44 (string_of_bytes [47; 47; 9; 116]%N) 23 4 true; mkTok 43 "`a\`" 24 4 false; mkTok 40 "," 24 9 false; mkTok 3 "}" 25 4 false; mkTok 0 "<EOF>" 26 0 false] (mkPacket (mkPtok 37 "MetaData" 1 0 0) (Some (mkPtok 3 "}" 25 4 60)) [(DMeta (mkMetaDef (mkSpan (mkPtok 37 "MetaData" 1 0 0) (mkPtok 3 "}" 1 28 6)) (mkPtok 37 "MetaData" 1 0 0) (mkPtok 42 "zchar" 1 9 1) (mkPtok 2 "{" 1 14 2) [(MIDecl (mkMetaDecl (mkSpan (mkPtok 21 "u16" 1 16 3) (mkPtok 40 "," 1 26 5)) (TyBasic (mkSpan (mkPtok 21 "u16" 1 16 3) (mkPtok 21 "u16" 1 16 3)) (mkBasicType (mkSpan (mkPtok 21 "u16" 1 16 3) (mkPtok 21 "u16" 1 16 3)) (mkPtok 21 "u16" 1 16 3))) (mkPtok 42 "chars" 1 20 4) None (mkPtok 40 "," 1 26 5)))] (mkPtok 3 "}" 1 28 6))); (DMeta (mkMetaDef (mkSpan (mkPtok 37 "MetaData" 1 30 7) (mkPtok 3 "}" 7 6 37)) (mkPtok 37 "MetaData" 1 30 7) (mkPtok 42 "int" 1 39 8) (mkPtok 2 "{" 2 0 9) [(MIRef (mkRefMetaDecl (mkSpan (mkPtok 42 "MetaDataX" 2 2 10) (mkPtok 40 "," 2 22 13)) (mkPtok 42 "MetaDataX" 2 2 10) (mkPtok 42 "asx" 2 12 11) (Some (mkPtok 43 "`doc`" 2 16 12)) (mkPtok 40 "," 2 22 13))); (MIDecl (mkMetaDecl (mkSpan (mkPtok 12 "char[" 2 23 14) (mkPtok 40 "," 3 4 18)) (TyFixed (mkSpan (mkPtok 12 "char[" 2 23 14) (mkPtok 13 "]" 3 0 16)) (mkFixedString (mkSpan (mkPtok 12 "char[" 2 23 14) (mkPtok 13 "]" 3 0 16)) (mkPtok 12 "char[" 2 23 14) (mkPtok 30 "3" 2 29 15) (mkPtok 13 "]" 3 0 16))) (mkPtok 42 "a1" 3 2 17) None (mkPtok 40 "," 3 4 18))); (MIDecl (mkMetaDecl (mkSpan (mkPtok 20 "uint8" 3 6 19) (mkPtok 40 "," 3 30 22)) (TyBasic (mkSpan (mkPtok 20 "uint8" 3 6 19) (mkPtok 20 "uint8" 3 6 19)) (mkBasicType (mkSpan (mkPtok 20 "uint8" 3 6 19) (mkPtok 20 "uint8" 3 6 19)) (mkPtok 20 "uint8" 3 6 19))) (mkPtok 42 "BodyLength" 3 12 20) (Some (mkPtok 43 (string_of_bytes [96; 230; 182; 136; 230; 129; 175; 231; 177; 187; 229; 158; 139; 96]%N) 3 23 21)) (mkPtok 40 "," 3 30 22))); (MIDecl (mkMetaDecl (mkSpan (mkPtok 14 "zchar[" 3 32 23) (mkPtok 40 "," 5 2 28)) (TyFixed (mkSpan (mkPtok 14 "zchar[" 3 32 23) (mkPtok 13 "]" 4 10 25)) (mkFixedString (mkSpan (mkPtok 14 "zchar[" 3 32 23) (mkPtok 13 "]" 4 10 25)) (mkPtok 14 "zchar[" 3 32 23) (mkPtok 30 "0123456789" 4 0 24) (mkPtok 13 "]" 4 10 25))) (mkPtok 42 "As" 5 0 27) None (mkPtok 40 "," 5 2 28))); (MIRef (mkRefMetaDecl (mkSpan (mkPtok 42 "charz" 6 0 30) (mkPtok 40 "," 6 13 32)) (mkPtok 42 "charz" 6 0 30) (mkPtok 42 "Packet" 6 6 31) None (mkPtok 40 "," 6 13 32))); (MIDecl (mkMetaDecl (mkSpan (mkPtok 16 "char[]" 6 15 33) (mkPtok 40 "," 7 5 36)) (TyDynamic (mkSpan (mkPtok 16 "char[]" 6 15 33) (mkPtok 16 "char[]" 6 15 33)) (mkDynamicString (mkSpan (mkPtok 16 "char[]" 6 15 33) (mkPtok 16 "char[]" 6 15 33)) (mkPtok 16 "char[]" 6 15 33))) (mkPtok 42 "matchKey" 6 22 34) (Some (mkPtok 43 (string_of_bytes [96; 99; 114; 108; 102; 13; 10; 108; 105; 110; 101; 96]%N) 6 31 35)) (mkPtok 40 "," 7 5 36)))] (mkPtok 3 "}" 7 6 37))); (DMeta (mkMetaDef (mkSpan (mkPtok 37 "MetaData" 8 0 38) (mkPtok 3 "}" 25 4 60)) (mkPtok 37 "MetaData" 8 0 38) (mkPtok 42 "A" 8 10 39) (mkPtok 2 "{" 9 0 40) [(MIDecl (mkMetaDecl (mkSpan (mkPtok 25 "i16" 10 4 41) (mkPtok 40 "," 15 4 46)) (TyBasic (mkSpan (mkPtok 25 "i16" 10 4 41) (mkPtok 25 "i16" 10 4 41)) (mkBasicType (mkSpan (mkPtok 25 "i16" 10 4 41) (mkPtok 25 "i16" 10 4 41)) (mkPtok 25 "i16" 10 4 41))) (mkPtok 42 "chars" 11 0 42) (Some (mkPtok 43 "``" 14 0 45)) (mkPtok 40 "," 15 4 46))); (MIRef (mkRefMetaDecl (mkSpan (mkPtok 42 "body" 16 0 47) (mkPtok 40 "," 16 16 50)) (mkPtok 42 "body" 16 0 47) (mkPtok 42 "u8x" 16 5 48) (Some (mkPtok 43 (string_of_bytes [96; 230; 182; 136; 230; 129; 175; 231; 177; 187; 229; 158; 139; 96]%N) 16 9 49)) (mkPtok 40 "," 16 16 50))); (MIDecl (mkMetaDecl (mkSpan (mkPtok 16 "char[]" 19 0 53) (mkPtok 40 "," 24 9 59)) (TyDynamic (mkSpan (mkPtok 16 "char[]" 19 0 53) (mkPtok 16 "char[]" 19 0 53)) (mkDynamicString (mkSpan (mkPtok 16 "char[]" 19 0 53) (mkPtok 16 "char[]" 19 0 53)) (mkPtok 16 "char[]" 19 0 53))) (mkPtok 42 "u128" 22 0 56) (Some (mkPtok 43 "`a\`" 24 4 58)) (mkPtok 40 "," 24 9 59)))] (mkPtok 3 "}" 25 4 60)))])).
Eval vm_compute in ("<<<M1914>>>" ++ check (runes_of_ascii "
packet zchar{  @lengthOf(
int ) i16
    Logon
    @lengthOf(	len
)//x
`say ""hi""`
,}
")).
Eval vm_compute in ("<<<M1946>>>" ++ check (runes_of_ascii "  
")).
Eval vm_compute in ("<<<M1978>>>" ++ check (runes_of_ascii "packet u{
    } root packet x
//x
//	t
{ @calculatedFrom( ""`tick`"" )
@lengthOf(
    f32a	)
@tag( 7 ) repeat a1
    // @lengthOf(
    i8i8 , @leftPad ( '0' )@tag(	1)  @tag(10 ) match packetx as BodyLength { 10 :
    //	t
    stringy , [ 7 , 7 ]:
x_y_z }
// @lengthOf(
//
,	_x
{calculatedFrom	i64_ // @lengthOf(
, repeat
string MetaDataX `" ++ [28040; 24687; 31867; 22411]%N ++ runes_of_ascii "`, repeat
asx
{ repeat uint32 zchar// `tick` ""quote"" 'q'
, /// triple
zchar[
    4294967296 ] leftPad , char[255 ]u8x// " ++ [128512]%N ++ runes_of_ascii " emoji
@calculatedFrom( ""CRC32""	) , char[]i64_ , }
// " ++ [128512]%N ++ runes_of_ascii " emoji
// " ++ [128512]%N ++ runes_of_ascii " emoji
,  } ,
    // a // b
    rootA // a // b
,
    /// triple
    uint8x
    `" ++ [28040; 24687; 31867; 22411]%N ++ runes_of_ascii "` ,i64 Foo``
    , @leftPad (
'0'
) repeat  chars
    // " ++ [27880; 37322]%N ++ runes_of_ascii "
    tag
    ,
@lengthOf( As	)
uint32 tag @calculatedFrom( ""abc"" )`a\` , @calculatedFrom( ""a\\"" )  char[	007]
    charz
    @lengthOf(calculatedFrom )
    ,
    @calculatedFrom(
    // `tick` ""quote"" 'q'
    ""it's""	)
    /// triple
    repeat// " ++ [128512]%N ++ runes_of_ascii " emoji
Z9_{ u32 o@calculatedFrom( ""it's"" ) `it's`, f32a
{ falsey rootA/// triple
, repeat
msg_type ,	body
    {string_	@calculatedFrom(
""abc"" )  , }
, repeat i8
    zchar ,
}
,
    A  {match roots as MetaDataX
{
    // trailing space 
    ""a	b"" : A
    65535 : body,""a\\"":
packetx, ""packet""
// a // b
//
: //	t
rootA , 4294967296
: // packet A { u8 x, }
o,
//x
// c
""x y""
    :BodyLength	, // trailing space 
} , } ,char[]
// c
// `tick` ""quote"" 'q'
body, }
    , } packet f32a {
    @lengthOf( rootA //x
) @tag(1 )@rightPad (
'0' ) Z9_
`it's`
, u8x @calculatedFrom( ""\" ++ [233]%N ++ runes_of_ascii """) // a // b
`{ , }` ,
    repeat// trailing space 
int32 options1
    , }options
    { float =// " ++ [27880; 37322]%N ++ runes_of_ascii "
false
    // a // b
    } //x")).
Eval vm_compute in ("<<<M2010>>>" ++ check (runes_of_ascii "options options{ i64_ = string ; trueish =
    '\x00'
    leftPad = ""a\\"" /// triple
; crc
    = 255; uint8x
=
""abc""
    ;}")).
Eval vm_compute in ("<<<M2042>>>" ++ check (runes_of_ascii "options{ i64_ = string ; ) =
    '\x00'
    leftPad = ""a\\"" /// triple
; crc
    = 255; uint8x
=
""abc""
    ;}")).
Eval vm_compute in ("<<<M2074>>>" ++ check (runes_of_ascii "options{ i64_ = string ; trueish =
    '\x00'
    leftPad = ""a\\"" /// triple
; 
    = 255; uint8x
=
""abc""
    ;}")).
Eval vm_compute in ("<<<M2106>>>" ++ check (runes_of_ascii "options{ i64_ = string ; trueish =
    '\x00'
    leftPad = ""a\\"" /// triple
; crc
    = 255; uint8x
=
;
    ""abc""}")).
Eval vm_compute in ("<<<M2138>>>" ++ check (runes_of_ascii "options{ i64_ = string ; trueish =
    '\x00'
    " ++ [21517; 23383]%N ++ runes_of_ascii " = ""a\\"" /// triple
; crc
    = 255; uint8x
=
""abc""
    ;}")).
Eval vm_compute in ("<<<M2170>>>" ++ check (runes_of_ascii "  packet
asx
{
/// triple
// @lengthOf(
u32 stringy
`" ++ [28040; 24687; 31867; 22411]%N ++ runes_of_ascii "` } MetaData
    A {string  _x, zchar Header `a\`
// @lengthOf(
// packet A { u8 x, }
, char[] MetaDataX
,zchar[ 1 ]
    matchKey
    , char[] //
u,	char[0123456789 ]
    matchKey
    `{ , }`, }
")).
Eval vm_compute in ("<<<M2202>>>" ++ check (runes_of_ascii "  packet
asx
{
/// triple
// @lengthOf(
u32 stringy
`" ++ [28040; 24687; 31867; 22411]%N ++ runes_of_ascii "` ,} MetaData
    A {string  ,_x zchar Header `a\`
// @lengthOf(
// packet A { u8 x, }
, char[] MetaDataX
,zchar[ 1 ]
    matchKey
    , char[] //
u,	char[0123456789 ]
    matchKey
    `{ , }`, }
")).
Eval vm_compute in ("<<<M2234>>>" ++ check (runes_of_ascii "  packet
asx
{
/// triple
// @lengthOf(
u32 stringy
`" ++ [28040; 24687; 31867; 22411]%N ++ runes_of_ascii "` ,} MetaData
    A {string  _x, zchar Header `a\`
// @lengthOf(
// packet A { u8 x, }
,")).
Eval vm_compute in ("<<<M2266>>>" ++ check (runes_of_ascii "  packet
asx
{
/// triple
// @lengthOf(
u32 stringy
`" ++ [28040; 24687; 31867; 22411]%N ++ runes_of_ascii "` ,} MetaData
    A {string  _x, zchar Header `a\`
// @lengthOf(
// packet A { u8 x, }
, char[] MetaDataX
,zchar[ 1 ]
    matchKey
    , , char[] //
u,	char[0123456789 ]
    matchKey
    `{ , }`, }
")).
Eval vm_compute in ("<<<M2298>>>" ++ check (runes_of_ascii "  packet
asx
{
/// triple
// @lengthOf(
u32 stringy
`" ++ [28040; 24687; 31867; 22411]%N ++ runes_of_ascii "` ,} MetaData
    A {string  _x, zchar Header `a\`
// @lengthOf(
// packet A { u8 x, }
, char[] MetaDataX
,zchar[ 1 ]
    matchKey
    , char[] //
u,	char[0123456789 f32
    matchKey
    `{ , }`, }
")).
Eval vm_compute in ("<<<M2330>>>" ++ check (runes_of_ascii "  packet
asx
{
/// triple
// @lengthOf(
u32 stringy
`" ++ [28040; 24687; 31867; 22411]%N ++ runes_of_ascii "` ,} MetaData
    $A {string  _x, zchar Header `a\`
// @lengthOf(
// packet A { u8 x, }
, char[] MetaDataX
,zchar[ 1 ]
    matchKey
    , char[] //
u,	char[0123456789 ]
    matchKey
    `{ , }`, }
")).
Eval vm_compute in ("<<<M2362>>>" ++ check (runes_of_ascii "root
    packet
Packet
{ // trailing space 
matchKey matchKey `tab	here` ,}")).
Eval vm_compute in ("<<<M2394>>>" ++ check (runes_of_ascii "root''
    packet
Packet
{ // trailing space 
matchKey `tab	here` ,}")).
Eval vm_compute in ("<<<M2426>>>" ++ check (runes_of_ascii "options{ falsey // a // b
=")).
Eval vm_compute in ("<<<M2458>>>" ++ check (runes_of_ascii "options{ falsey // a // b
=
    '0' } options { repeatCount =
true ; ; string_// a // b
=
// c
// " ++ [27880; 37322]%N ++ runes_of_ascii "
int64
// trailing space 
/// triple
; } // @lengthOf(")).
Eval vm_compute in ("<<<M2490>>>" ++ check (runes_of_ascii "options{ falsey // a // b
=
    '0' } options { repeatCount =
true ; string_// a // b
=
// c
// " ++ [27880; 37322]%N ++ runes_of_ascii "
int64
// trailing space 
/// triple
; } // @length")).
Eval vm_compute in ("<<<M2522>>>" ++ check (runes_of_ascii "options{")).
Eval vm_compute in ("<<<M2554>>>" ++ check (runes_of_ascii "options{}root packet
metadata {
@lengthOf(x ) ) float32
body ``, }
    MetaData
Z9_
    {
    string string_ , Logon x
,
uint32
    // packet A { u8 x, }
    Z9_,asx
_x
    `tab	here` , }
")).
Eval vm_compute in ("<<<M2586>>>" ++ check (runes_of_ascii "options{}root packet
metadata {
@lengthOf(x ) float32
body ``, }
    @leftPad
Z9_
    {
    string string_ , Logon x
,
uint32
    // packet A { u8 x, }
    Z9_,asx
_x
    `tab	here` , }
")).
Eval vm_compute in ("<<<M2618>>>" ++ check (runes_of_ascii "options{}root packet
metadata {
@lengthOf(x ) float32
body ``, }
    MetaData
Z9_
    {
    string string_ , Logon 
,
uint32
    // packet A { u8 x, }
    Z9_,asx
_x
    `tab	here` , }
")).
Eval vm_compute in ("<<<M2650>>>" ++ check (runes_of_ascii "options{}root packet
metadata {
@lengthOf(x ) float32
body ``, }
    MetaData
Z9_
    {
    string string_ , Logon x
,
uint32
    // packet A { u8 x, }
    Z9_,asx
`tab	here`
    _x , }
")).
Eval vm_compute in ("<<<M2682>>>" ++ check (runes_of_ascii "options{}root packet
metadata {
@lengthOf(x ) float32
body ``, }
    MetaData
Z9_
    {
    string string_ , Logon x
,
uint32
    // packet A { u8 x, }
    Z9_,% asx
_x
    `tab	here` , }
")).
Eval vm_compute in ("<<<M2714>>>" ++ check (runes_of_ascii "options {
    falsey=
""a\\""  }")).
Eval vm_compute in ("<<<M2746>>>" ++ check (runes_of_ascii "MetaData MetaData f32a
{
    //	t
    }root
    packet tag  {
}
")).
Eval vm_compute in ("<<<M2778>>>" ++ check (runes_of_ascii "MetaData f32a
{
    //	t
    }root
    packet u16  {
}
")).
Eval vm_compute in ("<<<M2810>>>" ++ check (runes_of_ascii "MetaData f32a
{
    //	t
    }root
    packet a" ++ [769]%N ++ runes_of_ascii "b  {
}
")).
Eval vm_compute in ("<<<M2842>>>" ++ check (runes_of_ascii "
options
    {msg_type =
    float32  }root root
packet Z9_{ char /// triple
crc @lengthOf(
options1 ) //
,} MetaData a1{}
")).
Eval vm_compute in ("<<<M2874>>>" ++ check (runes_of_ascii "
options
    {msg_type =
    float32  }root
packet Z9_{ char /// triple
crc `{ , }`
options1 ) //
,} MetaData a1{}
")).
Eval vm_compute in ("<<<M2906>>>" ++ check (runes_of_ascii "
options
    {msg_type =
    float32  }root
packet Z9_{ char /// triple
crc @lengthOf(
options1 ) //
,} MetaData a1}
")).
Eval vm_compute in ("<<<M2938>>>" ++ check (runes_of_ascii "packet packet crc{ // " ++ [128512]%N ++ runes_of_ascii " emoji
repeat string i8i8
`a\`, }
")).
Eval vm_compute in ("<<<M2970>>>" ++ check (runes_of_ascii "packet crc{ // " ++ [128512]%N ++ runes_of_ascii " emoji
repeat string i8i8
as, }
")).
Eval vm_compute in ("<<<M3002>>>" ++ check (runes_of_ascii "packet na" ++ [239]%N ++ runes_of_ascii "ve{ // " ++ [128512]%N ++ runes_of_ascii " emoji
repeat string i8i8
`a\`, }
")).
Eval vm_compute in ("<<<M3034>>>" ++ check (runes_of_ascii "packet BodyLength {} MetaData zchar{ { zchar[// @lengthOf(
42 ]
    pack , string_
A , char[]crc , _x trueish ,
// " ++ [27880; 37322]%N ++ runes_of_ascii "
// " ++ [128512]%N ++ runes_of_ascii " emoji
zchar[
    3 ]	T // trailing space 
, } packet body
{
    }
")).
Eval vm_compute in ("<<<M3066>>>" ++ check (runes_of_ascii "packet BodyLength {} MetaData zchar{ zchar[// @lengthOf(
42 ]
    pack , packet
A , char[]crc , _x trueish ,
// " ++ [27880; 37322]%N ++ runes_of_ascii "
// " ++ [128512]%N ++ runes_of_ascii " emoji
zchar[
    3 ]	T // trailing space 
, } packet body
{
    }
")).
Eval vm_compute in ("<<<M3098>>>" ++ check (runes_of_ascii "packet BodyLength {} MetaData zchar{ zchar[// @lengthOf(
42 ]
    pack , string_
A , char[]crc , _x  ,
// " ++ [27880; 37322]%N ++ runes_of_ascii "
// " ++ [128512]%N ++ runes_of_ascii " emoji
zchar[
    3 ]	T // trailing space 
, } packet body
{
    }
")).
Eval vm_compute in ("<<<M3130>>>" ++ check (runes_of_ascii "packet BodyLength {} MetaData zchar{ zchar[// @lengthOf(
42 ]
    pack , string_
A , char[]crc , _x trueish ,
// " ++ [27880; 37322]%N ++ runes_of_ascii "
// " ++ [128512]%N ++ runes_of_ascii " emoji
zchar[
    3 ]	T // trailing space 
} , packet body
{
    }
")).
Eval vm_compute in ("<<<M3162>>>" ++ check (runes_of_ascii "packet BodyLength {} MetaData zchar\ { zchar[// @lengthOf(
42 ]
    pack , string_
A , char[]crc , _x trueish ,
// " ++ [27880; 37322]%N ++ runes_of_ascii "
// " ++ [128512]%N ++ runes_of_ascii " emoji
zchar[
    3 ]	T // trailing space 
, } packet body
{
    }
")).
Eval vm_compute in ("<<<M3194>>>" ++ check (runes_of_ascii "packet
string_ { int ) match packetx as f32a {
    1 :	calculatedFrom , }  ,
    } packet len
    //	t
    { @calculatedFrom( """ ++ [233]%N ++ runes_of_ascii "t" ++ [233]%N ++ runes_of_ascii """ ) body Header , char[] lengthOf  `two words` ,chars{repeat string_ matchKey ,
    } ,
    }
")).
Eval vm_compute in ("<<<M3226>>>" ++ check (runes_of_ascii "packet
string_ {@lengthOf( int ) match packetx as { f32a
    1 :	calculatedFrom , }  ,
    } packet len
    //	t
    { @calculatedFrom( """ ++ [233]%N ++ runes_of_ascii "t" ++ [233]%N ++ runes_of_ascii """ ) body Header , char[] lengthOf  `two words` ,chars{repeat string_ matchKey ,
    } ,
    }
")).
Eval vm_compute in ("<<<M3258>>>" ++ check (runes_of_ascii "packet
string_ {@lengthOf( int ) match packetx as f32a {
    1 :	calculatedFrom ,")).
Eval vm_compute in ("<<<M3290>>>" ++ check (runes_of_ascii "packet
string_ {@lengthOf( int ) match packetx as f32a {
    1 :	calculatedFrom , }  ,
    } packet len
    //	t
    { @calculatedFrom( """ ++ [233]%N ++ runes_of_ascii "t" ++ [233]%N ++ runes_of_ascii """ """ ++ [233]%N ++ runes_of_ascii "t" ++ [233]%N ++ runes_of_ascii """ ) body Header , char[] lengthOf  `two words` ,chars{repeat string_ matchKey ,
    } ,
    }
")).
Eval vm_compute in ("<<<M3322>>>" ++ check (runes_of_ascii "packet
string_ {@lengthOf( int ) match packetx as f32a {
    1 :	calculatedFrom , }  ,
    } packet len
    //	t
    { @calculatedFrom( """ ++ [233]%N ++ runes_of_ascii "t" ++ [233]%N ++ runes_of_ascii """ ) body Header , char[] u16  `two words` ,chars{repeat string_ matchKey ,
    } ,
    }
")).
Eval vm_compute in ("<<<M3354>>>" ++ check (runes_of_ascii "packet
string_ {@lengthOf( int ) match packetx as f32a {
    1 :	calculatedFrom , }  ,
    } packet len
    //	t
    { @calculatedFrom( """ ++ [233]%N ++ runes_of_ascii "t" ++ [233]%N ++ runes_of_ascii """ ) body Header , char[] lengthOf  `two words` ,chars{repeat string_  ,
    } ,
    }
")).
Eval vm_compute in ("<<<M3386>>>" ++ check (runes_of_ascii "packet
string_ {@lengthOf( int ) match packetx as f32a {
    1 :	calculatedFr'1'om , }  ,
    } packet len
    //	t
    { @calculatedFrom( """ ++ [233]%N ++ runes_of_ascii "t" ++ [233]%N ++ runes_of_ascii """ ) body Header , char[] lengthOf  `two words` ,chars{repeat string_ matchKey ,
    } ,
    }
")).
Eval vm_compute in ("<<<M3418>>>" ++ check (runes_of_ascii "/// triple
root
packet // packet A { u8 x, }
chars { @lengthOf(charz )
stringy,  @tag(  0 ) // " ++ [127]%N ++ runes_of_ascii "a // b
asx
    As
,
// trailing space 
// trailing space 
x_y_z {
repeat i16 charz , } ,	int16  crc ,}
")).
Eval vm_compute in ("<<<T3418>>>" ++ terms [mkTok 44 "/// triple" 1 0 true; mkTok 34 "root" 2 0 false; mkTok 35 "packet" 3 0 false; mkTok 44 "// packet A { u8 x, }" 3 7 true; mkTok 42 "chars" 4 0 false; mkTok 2 "{" 4 6 false; mkTok 7 "@lengthOf(" 4 8 false; mkTok 42 "charz" 4 18 false; mkTok 6 ")" 4 24 false; mkTok 42 "stringy" 5 0 false; mkTok 40 "," 5 7 false; mkTok 9 "@tag(" 5 10 false; mkTok 30 "0" 5 17 false; mkTok 6 ")" 5 19 false; mkTok 44 (string_of_bytes [47; 47; 32; 127; 97; 32; 47; 47; 32; 98]%N) 5 21 true; mkTok 42 "asx" 6 0 false; mkTok 42 "As" 7 4 false; mkTok 40 "," 8 0 false; mkTok 44 "// trailing space " 9 0 true; mkTok 44 "// trailing space " 10 0 true; mkTok 42 "x_y_z" 11 0 false; mkTok 2 "{" 11 6 false; mkTok 36 "repeat" 12 0 false; mkTok 25 "i16" 12 7 false; mkTok 42 "charz" 12 11 false; mkTok 40 "," 12 17 false; mkTok 3 "}" 12 19 false; mkTok 40 "," 12 21 false; mkTok 25 "int16" 12 23 false; mkTok 42 "crc" 12 30 false; mkTok 40 "," 12 34 false; mkTok 3 "}" 12 35 false; mkTok 0 "<EOF>" 13 0 false] (mkPacket (mkPtok 34 "root" 2 0 1) (Some (mkPtok 3 "}" 12 35 31)) [(DPacket (mkPacketDef (mkSpan (mkPtok 34 "root" 2 0 1) (mkPtok 3 "}" 12 35 31)) (Some (mkPtok 34 "root" 2 0 1)) (mkPtok 35 "packet" 3 0 2) (mkPtok 42 "chars" 4 0 4) (mkPtok 2 "{" 4 6 5) [(mkFieldWithAttr (mkSpan (mkPtok 7 "@lengthOf(" 4 8 6) (mkPtok 40 "," 5 7 10)) [(FALengthOf (mkSpan (mkPtok 7 "@lengthOf(" 4 8 6) (mkPtok 6 ")" 4 24 8)) (mkLengthOf (mkSpan (mkPtok 7 "@lengthOf(" 4 8 6) (mkPtok 6 ")" 4 24 8)) (mkPtok 7 "@lengthOf(" 4 8 6) (mkPtok 42 "charz" 4 18 7) (mkPtok 6 ")" 4 24 8)))] (ObjectField (mkSpan (mkPtok 42 "stringy" 5 0 9) (mkPtok 40 "," 5 7 10)) None (mkPtok 42 "stringy" 5 0 9) None None (mkPtok 40 "," 5 7 10))); (mkFieldWithAttr (mkSpan (mkPtok 9 "@tag(" 5 10 11) (mkPtok 40 "," 8 0 17)) [(FATag (mkSpan (mkPtok 9 "@tag(" 5 10 11) (mkPtok 6 ")" 5 19 13)) (mkTagAttr (mkSpan (mkPtok 9 "@tag(" 5 10 11) (mkPtok 6 ")" 5 19 13)) (mkPtok 9 "@tag(" 5 10 11) (mkPtok 30 "0" 5 17 12) (mkPtok 6 ")" 5 19 13)))] (ObjectField (mkSpan (mkPtok 42 "asx" 6 0 15) (mkPtok 40 "," 8 0 17)) None (mkPtok 42 "asx" 6 0 15) (Some (mkPtok 42 "As" 7 4 16)) None (mkPtok 40 "," 8 0 17))); (mkFieldWithAttr (mkSpan (mkPtok 42 "x_y_z" 11 0 20) (mkPtok 40 "," 12 21 27)) [] (InerObjectField (mkSpan (mkPtok 42 "x_y_z" 11 0 20) (mkPtok 40 "," 12 21 27)) None (InerObjectDecl (mkSpan (mkPtok 42 "x_y_z" 11 0 20) (mkPtok 3 "}" 12 19 26)) (mkPtok 42 "x_y_z" 11 0 20) (mkPtok 2 "{" 11 6 21) [(MetaField (mkSpan (mkPtok 36 "repeat" 12 0 22) (mkPtok 40 "," 12 17 25)) (Some (mkPtok 36 "repeat" 12 0 22)) (mkMetaDecl (mkSpan (mkPtok 25 "i16" 12 7 23) (mkPtok 40 "," 12 17 25)) (TyBasic (mkSpan (mkPtok 25 "i16" 12 7 23) (mkPtok 25 "i16" 12 7 23)) (mkBasicType (mkSpan (mkPtok 25 "i16" 12 7 23) (mkPtok 25 "i16" 12 7 23)) (mkPtok 25 "i16" 12 7 23))) (mkPtok 42 "charz" 12 11 24) None (mkPtok 40 "," 12 17 25)))] (mkPtok 3 "}" 12 19 26)) (mkPtok 40 "," 12 21 27))); (mkFieldWithAttr (mkSpan (mkPtok 25 "int16" 12 23 28) (mkPtok 40 "," 12 34 30)) [] (MetaField (mkSpan (mkPtok 25 "int16" 12 23 28) (mkPtok 40 "," 12 34 30)) None (mkMetaDecl (mkSpan (mkPtok 25 "int16" 12 23 28) (mkPtok 40 "," 12 34 30)) (TyBasic (mkSpan (mkPtok 25 "int16" 12 23 28) (mkPtok 25 "int16" 12 23 28)) (mkBasicType (mkSpan (mkPtok 25 "int16" 12 23 28) (mkPtok 25 "int16" 12 23 28)) (mkPtok 25 "int16" 12 23 28))) (mkPtok 42 "crc" 12 30 29) None (mkPtok 40 "," 12 34 30))))] (mkPtok 3 "}" 12 35 31)))])).
Eval vm_compute in ("<<<M3450>>>" ++ check (runes_of_ascii "/// triple
root
chars // packet A { u8 x, }
packet { @lengthOf(charz )
stringy,  @tag(  0 ) // a // b
asx
    As
,
// trailing space 
// trailing space 
x_y_z {
repeat i16 charz , } ,	int16  crc ,}
")).
Eval vm_compute in ("<<<M3482>>>" ++ check (runes_of_ascii "/// triple
root
packet // packet A { u8 x, }
chars { @lengthOf(charz )
stringy stringy,  @tag(  0 ) // a // b
asx
    As
,
// trailing space 
// trailing space 
x_y_z {
repeat i16 charz , } ,	int16  crc ,}
")).
Eval vm_compute in ("<<<T3482>>>" ++ terms [mkTok 44 "/// triple" 1 0 true; mkTok 34 "root" 2 0 false; mkTok 35 "packet" 3 0 false; mkTok 44 "// packet A { u8 x, }" 3 7 true; mkTok 42 "chars" 4 0 false; mkTok 2 "{" 4 6 false; mkTok 7 "@lengthOf(" 4 8 false; mkTok 42 "charz" 4 18 false; mkTok 6 ")" 4 24 false; mkTok 42 "stringy" 5 0 false; mkTok 42 "stringy" 5 8 false; mkTok 40 "," 5 15 false; mkTok 9 "@tag(" 5 18 false; mkTok 30 "0" 5 25 false; mkTok 6 ")" 5 27 false; mkTok 44 "// a // b" 5 29 true; mkTok 42 "asx" 6 0 false; mkTok 42 "As" 7 4 false; mkTok 40 "," 8 0 false; mkTok 44 "// trailing space " 9 0 true; mkTok 44 "// trailing space " 10 0 true; mkTok 42 "x_y_z" 11 0 false; mkTok 2 "{" 11 6 false; mkTok 36 "repeat" 12 0 false; mkTok 25 "i16" 12 7 false; mkTok 42 "charz" 12 11 false; mkTok 40 "," 12 17 false; mkTok 3 "}" 12 19 false; mkTok 40 "," 12 21 false; mkTok 25 "int16" 12 23 false; mkTok 42 "crc" 12 30 false; mkTok 40 "," 12 34 false; mkTok 3 "}" 12 35 false; mkTok 0 "<EOF>" 13 0 false] (mkPacket (mkPtok 34 "root" 2 0 1) (Some (mkPtok 3 "}" 12 35 32)) [(DPacket (mkPacketDef (mkSpan (mkPtok 34 "root" 2 0 1) (mkPtok 3 "}" 12 35 32)) (Some (mkPtok 34 "root" 2 0 1)) (mkPtok 35 "packet" 3 0 2) (mkPtok 42 "chars" 4 0 4) (mkPtok 2 "{" 4 6 5) [(mkFieldWithAttr (mkSpan (mkPtok 7 "@lengthOf(" 4 8 6) (mkPtok 40 "," 5 15 11)) [(FALengthOf (mkSpan (mkPtok 7 "@lengthOf(" 4 8 6) (mkPtok 6 ")" 4 24 8)) (mkLengthOf (mkSpan (mkPtok 7 "@lengthOf(" 4 8 6) (mkPtok 6 ")" 4 24 8)) (mkPtok 7 "@lengthOf(" 4 8 6) (mkPtok 42 "charz" 4 18 7) (mkPtok 6 ")" 4 24 8)))] (ObjectField (mkSpan (mkPtok 42 "stringy" 5 0 9) (mkPtok 40 "," 5 15 11)) None (mkPtok 42 "stringy" 5 0 9) (Some (mkPtok 42 "stringy" 5 8 10)) None (mkPtok 40 "," 5 15 11))); (mkFieldWithAttr (mkSpan (mkPtok 9 "@tag(" 5 18 12) (mkPtok 40 "," 8 0 18)) [(FATag (mkSpan (mkPtok 9 "@tag(" 5 18 12) (mkPtok 6 ")" 5 27 14)) (mkTagAttr (mkSpan (mkPtok 9 "@tag(" 5 18 12) (mkPtok 6 ")" 5 27 14)) (mkPtok 9 "@tag(" 5 18 12) (mkPtok 30 "0" 5 25 13) (mkPtok 6 ")" 5 27 14)))] (ObjectField (mkSpan (mkPtok 42 "asx" 6 0 16) (mkPtok 40 "," 8 0 18)) None (mkPtok 42 "asx" 6 0 16) (Some (mkPtok 42 "As" 7 4 17)) None (mkPtok 40 "," 8 0 18))); (mkFieldWithAttr (mkSpan (mkPtok 42 "x_y_z" 11 0 21) (mkPtok 40 "," 12 21 28)) [] (InerObjectField (mkSpan (mkPtok 42 "x_y_z" 11 0 21) (mkPtok 40 "," 12 21 28)) None (InerObjectDecl (mkSpan (mkPtok 42 "x_y_z" 11 0 21) (mkPtok 3 "}" 12 19 27)) (mkPtok 42 "x_y_z" 11 0 21) (mkPtok 2 "{" 11 6 22) [(MetaField (mkSpan (mkPtok 36 "repeat" 12 0 23) (mkPtok 40 "," 12 17 26)) (Some (mkPtok 36 "repeat" 12 0 23)) (mkMetaDecl (mkSpan (mkPtok 25 "i16" 12 7 24) (mkPtok 40 "," 12 17 26)) (TyBasic (mkSpan (mkPtok 25 "i16" 12 7 24) (mkPtok 25 "i16" 12 7 24)) (mkBasicType (mkSpan (mkPtok 25 "i16" 12 7 24) (mkPtok 25 "i16" 12 7 24)) (mkPtok 25 "i16" 12 7 24))) (mkPtok 42 "charz" 12 11 25) None (mkPtok 40 "," 12 17 26)))] (mkPtok 3 "}" 12 19 27)) (mkPtok 40 "," 12 21 28))); (mkFieldWithAttr (mkSpan (mkPtok 25 "int16" 12 23 29) (mkPtok 40 "," 12 34 31)) [] (MetaField (mkSpan (mkPtok 25 "int16" 12 23 29) (mkPtok 40 "," 12 34 31)) None (mkMetaDecl (mkSpan (mkPtok 25 "int16" 12 23 29) (mkPtok 40 "," 12 34 31)) (TyBasic (mkSpan (mkPtok 25 "int16" 12 23 29) (mkPtok 25 "int16" 12 23 29)) (mkBasicType (mkSpan (mkPtok 25 "int16" 12 23 29) (mkPtok 25 "int16" 12 23 29)) (mkPtok 25 "int16" 12 23 29))) (mkPtok 42 "crc" 12 30 30) None (mkPtok 40 "," 12 34 31))))] (mkPtok 3 "}" 12 35 32)))])).
Eval vm_compute in ("<<<M3514>>>" ++ check (runes_of_ascii "false")).
Eval vm_compute in ("<<<M3546>>>" ++ check (runes_of_ascii "@leftPad")).
Eval vm_compute in ("<<<M3578>>>" ++ check (runes_of_ascii """a
b""")).
Eval vm_compute in ("<<<M3610>>>" ++ check (runes_of_ascii "a	b")).
Eval vm_compute in ("<<<M3642>>>" ++ check (runes_of_ascii "packet A { x `d` y, }")).
Eval vm_compute in ("<<<M3674>>>" ++ check (runes_of_ascii "packet A { match k as n { [] : B }, }")).
Eval vm_compute in ("<<<M3706>>>" ++ check (runes_of_ascii "root")).
Eval vm_compute in ("<<<M3738>>>" ++ check (runes_of_ascii "options { packet = 1; }")).
Eval vm_compute in ("<<<M3770>>>" ++ check (runes_of_ascii "= int32 repeat @calculatedFrom( '\x00' uint32 int64 char root { @lengthOf( zchar[ i32")).
Eval vm_compute in ("<<<M3802>>>" ++ check (runes_of_ascii ",")).
Eval vm_compute in ("<<<M3834>>>" ++ check (runes_of_ascii "float64 as false @lengthOf( options @rightPad false (")).
Eval vm_compute in ("<<<M3866>>>" ++ check (runes_of_ascii "@calculatedFrom( i32 root { } ] [")).
Eval vm_compute in ("<<<M3898>>>" ++ check (runes_of_ascii "string")).
Eval vm_compute in ("<<<M3930>>>" ++ check (runes_of_ascii "i32 )")).
Eval vm_compute in ("<<<M3962>>>" ++ check (runes_of_ascii "as f32 { @rightPad 007 u8 """"")).
Eval vm_compute in ("<<<M3994>>>" ++ check (runes_of_ascii "options string '0' u16 ) = ) ) `" ++ [28040; 24687; 31867; 22411]%N ++ runes_of_ascii "` ; options char[ ;")).
