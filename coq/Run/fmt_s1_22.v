From FP Require Import Lexer Parser ShowPT Digest Formatter.
From Coq Require Import String List NArith.
Import ListNotations.
Open Scope string_scope.
Set Printing Width 100000000.
Set Printing Depth 100000000.
Definition show_fres (r : fres) : string :=
  match r with
  | FOk s => "OK:" ++ sh_escaped s ""
  | FErr s => "ERR:" ++ sh_escaped s ""
  | FPanic p => "PANIC:" ++ p
  end.
Definition check (rs : list rune) : string := digest (show_fres (format_res rs)).
Definition full (rs : list rune) : string := show_fres (format_res rs).
Eval vm_compute in ("<<<M184>>>" ++ check (runes_of_ascii "MetaData float {
    lengthOf u128 `tab	here` ,u x ,
metadata crc `line1
line2` ,
} root
packet//
trueish { @leftPad (
'0'
    ) repeat zchar[ 10 ] lengthOf `u8 x,`
    ,@leftPad
// " ++ [27880; 37322]%N ++ runes_of_ascii "
// trailing space 
('\x00'	) zchar[ 255 ] tag
// a // b
// @lengthOf(
,
@leftPad	(
    ) u128 trueish, chars@lengthOf(
    i64_
) `it's` //	t
,
    @tag( 10 ) zchar[
    007 ] asx, char[
1]
    zchar,
// `tick` ""quote"" 'q'
// trailing space 
@tag( 7
    // packet A { u8 x, }
    ) @calculatedFrom(""packet""
    )	match  f32a as
uint8x{
00  :Header , 007// trailing space 
: charz ,[ 255 , """ ++ [233]%N ++ runes_of_ascii "t" ++ [233]%N ++ runes_of_ascii """ ] :
rootA
    // `tick` ""quote"" 'q'
    ""it's"" :
    lengthOf
,""x y"" :
pack //x
,
""" ++ [28040; 24687]%N ++ runes_of_ascii """
: _x , } , repeat Header { char[ 7] i8i8 ,char  msg_type @lengthOf(pack ) `line1
line2`
,
// packet A { u8 x, }
// a // b
uint8
crc @lengthOf(
zchar ) `line1
line2` ,} , } packet Foo
    { } packet// @lengthOf(
Foo { zchar[0123456789
    ]
    packetx
    @calculatedFrom(
""packet"" // packet A { u8 x, }
)
    `doc`  , zchar @calculatedFrom( ""\n""//	t
)
`
` , @leftPad  ( '\x00' )
    @tag( // trailing space 
65535 ) char[ 0
/// triple
// c
] metadata@calculatedFrom( ""a\""b"" ), repeat
    lengthOf{ lengthOf
`" ++ [233]%N ++ runes_of_ascii "`
    // `tick` ""quote"" 'q'
    ,
} , As , }
packet BodyLength {//x
@calculatedFrom( ""a\""b""
)
    @lengthOf( x ) @tag( 00
) Packet zchar
    `` ,
@tag(0123456789 )	repeat	char[ 255 ]  x `it's`,// a // b
u
// " ++ [128512]%N ++ runes_of_ascii " emoji
// c
{ match BodyLength
as
// packet A { u8 x, }
// `tick` ""quote"" 'q'
tag
    {3
: matchKey ,} ,
} ,@tag( 0123456789 )
    // " ++ [128512]%N ++ runes_of_ascii " emoji
    char	asx `line1
line2`,@lengthOf( chars ) @calculatedFrom(
""a	b"" )f64 len
    , match int as //x
BodyLength { 1
:
    Header ,[ 0 ] :// c
tag
""" ++ [28040; 24687]%N ++ runes_of_ascii """ :asx, } , @leftPad
( ' '
    ) metadata `crlf
line` ,
// `tick` ""quote"" 'q'
// trailing space 
len
@lengthOf( metadata
    ), zchar[  65535 ]
    A
@lengthOf( // c
trueish )
,@leftPad ( '0'
)
repeatCount Z9_
    `" ++ [233]%N ++ runes_of_ascii "`  ,
} 	 ")).
Eval vm_compute in ("<<<M1899>>>" ++ check (runes_of_ascii "

  options
{
StringPrefixLenType
	=u16
	;

ArrayPrefixLenType= 
u16  ;
	}
packet
SampleBinary
	{
uint16

    MsgType`" ++ [28040; 24687; 31867; 22411]%N ++ runes_of_ascii "` 
,u16
BodyLenght 
@lengthOf(

Body )
`" ++ [28040; 24687; 20307; 38271; 24230]%N ++ runes_of_ascii "`,
match	MsgType

    as
    Body{

    1
	:
	Logon
    , 2
	:

    Logout 
,3

:
	Heartbeat , 4
    : RiskControlRequest

, 5  : RiskControlResponse,
} , 
@calculatedFrom(
    ""CRC32"" )

u32
Ckecksum`" ++ [26657; 39564; 21644]%N ++ runes_of_ascii "` , 
}
packet
Logon  { @leftPad(	'0' ) char[
	10
    ]

UserName `" ++ [29992; 25143; 21517]%N ++ runes_of_ascii "`
	,string Password
	`" ++ [23494; 30721]%N ++ runes_of_ascii "` ,  uint64
ClientId  `" ++ [23458; 25143; 31471]%N ++ runes_of_ascii "ID`	,  u16
	HeartbeatInterval `" ++ [24515; 36339; 38388; 38548]%N ++ runes_of_ascii "`
,}packet 
Logout {
    @rightPad( '0'

    )  char[
10

]
    UserName
    `" ++ [29992; 25143; 21517]%N ++ runes_of_ascii "`

,
uint64 
ClientId
`" ++ [23458; 25143; 31471]%N ++ runes_of_ascii "ID`
,
    }	packet
Heartbeat { 
} packet	RiskControlRequest{  string UniqueOrderId
`" ++ [21807; 19968; 35746; 21333; 21495]%N ++ runes_of_ascii "` ,
char[
	16
    ] ClOrdID `" ++ [23458; 25143; 35746; 21333; 21495]%N ++ runes_of_ascii "`	, char[

    3
    ] MarketID
	`" ++ [24066; 22330]%N ++ runes_of_ascii "id`
,char[	12 
]SecurityID 
`" ++ [35777; 21048; 20195; 30721]%N ++ runes_of_ascii "`
,

    char 
Side

`" ++ [20080; 21334; 26041; 21521]%N ++ runes_of_ascii "`	, 
char OrderType
	`" ++ [35746; 21333; 31867; 22411]%N ++ runes_of_ascii "`
	, 
u64 
Price `" ++ [20215; 26684]%N ++ runes_of_ascii "`,
	u32
Qty

    `" ++ [25968; 37327]%N ++ runes_of_ascii "` ,
repeat
	string ExtraInfo`" ++ [38468; 21152; 20449; 24687]%N ++ runes_of_ascii "`
    ,repeat
SubOrder

    {	char[16 
] ClOrdID `" ++ [23376; 35746; 21333; 21495]%N ++ runes_of_ascii "`

    ,u64 Price  `" ++ [23376; 35746; 21333; 20215; 26684]%N ++ runes_of_ascii "` ,
u32
    Qty

    `" ++ [23376; 35746; 21333; 25968; 37327]%N ++ runes_of_ascii "`
    ,  }
    ,
}packet	RiskControlResponse

    {

    string UniqueOrderId
    `" ++ [21807; 19968; 35746; 21333; 21495]%N ++ runes_of_ascii "`

    ,i32
Status
`" ++ [29366; 24577]%N ++ runes_of_ascii "` ,
string Msg
`" ++ [32467; 26524; 20449; 24687]%N ++ runes_of_ascii "` ,
repeat
	Detail
    ,
    }  packet

Detail {string
	RuleName	`" ++ [35268; 21017; 21517; 31216]%N ++ runes_of_ascii "`

, 
u16  Code

`" ++ [21407; 22240; 20195; 30721]%N ++ runes_of_ascii "`
,

}

")).
Eval vm_compute in ("<<<M381>>>" ++ check (runes_of_ascii "options {
	StringPrefixLenType = u16;
	ArrayPrefixLenType = u16;
}

packet SampleBinary {
	uint16 MsgType `" ++ [28040; 24687; 31867; 22411]%N ++ runes_of_ascii "`,
	u16 BodyLenght @lengthOf(Body) `" ++ [28040; 24687; 20307; 38271; 24230]%N ++ runes_of_ascii "`,
	match MsgType as Body {
		1 : Logon,
		2 : Logout,
		3 : Heartbeat,
		4 : RiskControlRequest,
		5 : RiskControlResponse,
	},
	@calculatedFrom(""CRC32"")
	u32 Ckecksum `" ++ [26657; 39564; 21644]%N ++ runes_of_ascii "`,
}

packet Logon {
	@leftPad('0')
	char[10] UserName `" ++ [29992; 25143; 21517]%N ++ runes_of_ascii "`,
	string Password `" ++ [23494; 30721]%N ++ runes_of_ascii "`,
	uint64 ClientId `" ++ [23458; 25143; 31471]%N ++ runes_of_ascii "ID`,
	u16 HeartbeatInterval `" ++ [24515; 36339; 38388; 38548]%N ++ runes_of_ascii "`,
}

packet Logout {
	@rightPad('0')
	char[10] UserName `" ++ [29992; 25143; 21517]%N ++ runes_of_ascii "`,
	uint64 ClientId `" ++ [23458; 25143; 31471]%N ++ runes_of_ascii "ID`,
}

packet Heartbeat {
}

packet RiskControlRequest {
	string UniqueOrderId `" ++ [21807; 19968; 35746; 21333; 21495]%N ++ runes_of_ascii "`,
	char[16] ClOrdID `" ++ [23458; 25143; 35746; 21333; 21495]%N ++ runes_of_ascii "`,
	char[3] MarketID `" ++ [24066; 22330]%N ++ runes_of_ascii "id`,
	char[12] SecurityID `" ++ [35777; 21048; 20195; 30721]%N ++ runes_of_ascii "`,
	char Side `" ++ [20080; 21334; 26041; 21521]%N ++ runes_of_ascii "`,
	char OrderType `" ++ [35746; 21333; 31867; 22411]%N ++ runes_of_ascii "`,
	u64 Price `" ++ [20215; 26684]%N ++ runes_of_ascii "`,
	u32 Qty `" ++ [25968; 37327]%N ++ runes_of_ascii "`,
	repeat string ExtraInfo `" ++ [38468; 21152; 20449; 24687]%N ++ runes_of_ascii "`,
	repeat SubOrder {
		char[16] ClOrdID `" ++ [23376; 35746; 21333; 21495]%N ++ runes_of_ascii "`,
		u64 Price `" ++ [23376; 35746; 21333; 20215; 26684]%N ++ runes_of_ascii "`,
		u32 Qty `" ++ [23376; 35746; 21333; 25968; 37327]%N ++ runes_of_ascii "`,
	},
}

packet RiskControlResponse {
	string UniqueOrderId `" ++ [21807; 19968; 35746; 21333; 21495]%N ++ runes_of_ascii "`,
	i32 Status `" ++ [29366; 24577]%N ++ runes_of_ascii "`,
	string Msg `" ++ [32467; 26524; 20449; 24687]%N ++ runes_of_ascii "`,
	repeat Detail,
}

packet Detail {
	string RuleName `" ++ [35268; 21017; 21517; 31216]%N ++ runes_of_ascii "`,
	u16 Code `" ++ [21407; 22240; 20195; 30721]%N ++ runes_of_ascii "`,
}")).
Eval vm_compute in ("<<<M356>>>" ++ check (runes_of_ascii "packet
Header { trueish @calculatedFrom(
""a	b"")
,
    Header@calculatedFrom(
    ""a\\"" //
)
,//	t
@calculatedFrom(  ""a\\"" )/// triple
i16	body
@lengthOf( f32a  ) , // packet A { u8 x, }
match // packet A { u8 x, }
stringy as _x{ ""`tick`""
// trailing space 
//
: string_ ,42:u8x , ""\n""
    :
    repeatCount, ""a\\"" : options1 ,	[ 4294967296 , ""{,}""
/// triple
//x
,
    4294967296 ,  """ ++ [28040; 24687]%N ++ runes_of_ascii """ , 3//	t
,
""abc"" ]
:
    //	t
    u8x , } , zchar[0123456789
    ] MetaDataX,@calculatedFrom(
    ""x y"" //	t
) @lengthOf( A )	zchar[ //x
00 ] a1 , match
// " ++ [128512]%N ++ runes_of_ascii " emoji
// `tick` ""quote"" 'q'
options1 as calculatedFrom // packet A { u8 x, }
{
    [ ""// no comment""
    // " ++ [27880; 37322]%N ++ runes_of_ascii "
    ,  ""abc"" , 65535,	""CRC32""
, 0
, ""CRC32"" ]
: uint8x
    , ""// no comment"" :
// " ++ [128512]%N ++ runes_of_ascii " emoji
// trailing space 
chars	,	[ """ ++ [233]%N ++ runes_of_ascii "t" ++ [233]%N ++ runes_of_ascii """ , ""a	b"" ]
    :
    pack , 10 :	tag ,}  , @tag( 42 )repeat
    // trailing space 
    len,
    @lengthOf( u )char[] f32a
, // packet A { u8 x, }
}
")).
Eval vm_compute in ("<<<M1655>>>" ++ check (runes_of_ascii "packet u8x {
}

packet calculatedFrom {
    i8i8 len,
    match lengthOf as leftPad {
        007 : crc,
        ""abc"" : o,
        10 : falsey,
    },
    repeat i8 metadata,
    @calculatedFrom(""" ++ [28040; 24687]%N ++ runes_of_ascii """)
    repeat int16 leftPad ``,
    BodyLength @calculatedFrom(""a\\""),
    char[] f32a,
    tag rootA,
    @rightPad(' ')
    @tag(007)
    match o as _x {
        [
            1, ""a	b"", ""1"", 00, 7,
            """ ++ [233]%N ++ runes_of_ascii "t" ++ [233]%N ++ runes_of_ascii """, 7, 00
        ] : Foo,
        // " ++ [27880; 37322]%N ++ runes_of_ascii "
        ""\" ++ [233]%N ++ runes_of_ascii """ : matchKey,
    },//x
    @rightPad('\x00')
    string msg_type,
}

packet trueish {
    u8x ``,
    @lengthOf(Header)
    repeat int64 int ``,
}

MetaData matchKey {
    string msg_type,
    zchar[4294967296] repeatCount `it's`,
    u8 crc,
    zchar o,
    int64 asx,
}

root packet chars {
}")).
Eval vm_compute in ("<<<M362>>>" ++ check (runes_of_ascii "  packet
    // a // b
    MetaDataX {
match _x as roots {
""`tick`"" :o , [00, // `tick` ""quote"" 'q'
0123456789
, 1 ,
    0123456789,""a\\""  ,
    ""`tick`""  , 007
,
    // " ++ [27880; 37322]%N ++ runes_of_ascii "
    ""// no comment""]
: Logon , }	, f32 len @calculatedFrom(
""{,}"" // c
) `" ++ [233]%N ++ runes_of_ascii "` , // a // b
@calculatedFrom( """") @leftPad
( '\x00') i32 calculatedFrom@lengthOf(
    Packet)
    // @lengthOf(
    `line1
line2`
    , @calculatedFrom( ""\" ++ [233]%N ++ runes_of_ascii """	)
match asx as	As { ""it's"" :_x,""x y""  : calculatedFrom, ""packet"" :
    Pad
, } ,  char[] x, char[] matchKey,trueish lengthOf ,@lengthOf(roots	) repeat len // c
, @lengthOf( crc) repeat
//
// " ++ [27880; 37322]%N ++ runes_of_ascii "
char[]u128 `tab	here`, repeat u64 Header
    //
    , }
")).
Eval vm_compute in ("<<<M221>>>" ++ check (runes_of_ascii "packet
matchKey { match Header as chars
{ [ """ ++ [233]%N ++ runes_of_ascii "t" ++ [233]%N ++ runes_of_ascii """ ,0 ]	: body
,
    [
    42,10 ]
    :msg_type
,
""" ++ [128512]%N ++ runes_of_ascii """
: options1 ,7 :
    roots ""\n"" :
    // c
    packetx,	} ,
    zchar[
0 ]
A
@lengthOf(  int )
, char[] Header `
` ,// trailing space 
repeat
    float { repeat
o
    , // `tick` ""quote"" 'q'
repeat
int32 x_y_z `
` , }	,@tag( 0 ) u64 string_ @calculatedFrom(""`tick`"" ) // " ++ [27880; 37322]%N ++ runes_of_ascii "
`two words` , calculatedFrom // " ++ [27880; 37322]%N ++ runes_of_ascii "
{ matchKey
//
// packet A { u8 x, }
, // packet A { u8 x, }
rootA
, } ,
}
    options // " ++ [128512]%N ++ runes_of_ascii " emoji
{ chars =	"""" //
;
    As = true	; Foo =
7	; lengthOf =  ""a\\"" }

")).
Eval vm_compute in ("<<<M1560>>>" ++ check (runes_of_ascii "options {
    LittleEndian = false;
    ArrayPrefixLenType = u64;
    FixedStringPadChar = '0';
}
packet Quote {
    repeat InFlags37 {
        char[] lastPx,
    },
    i16 tag7,
    char[] f1,
    zchar[6] Note,
}
packet Order {
    u8 Ref,
    repeat Quote,
    repeat string Acct,
}
root packet Heartbeat {
    repeat Quote,
    @leftPad('0') char[11] OrderId,
    zchar[8] Ref,
    u32 Flags,
    u32 Tail @lengthOf(Body),
    match Flags as Body {
        156 : Order,
        7 : Quote,
    },
}
")).
Eval vm_compute in ("<<<M2110>>>" ++ check (runes_of_ascii "options {
    LittleEndian = true;
    StringPrefixLenType = u16;
    ArrayPrefixLenType = u64;
}

packet Fill {
}

packet Logon {
    repeat char[3] Tail,
    zchar[6] venue,
    repeat string Side2,
}

root packet Cancel {
    char[] Flags,
    char[] OrderId,
    zchar[6] msgKind,
    Fill,
    char[] Acct,
    u8 f1,
    match f1 as Body {
        188 : Fill,
        5 : Logon,
    },
    u32 clOrdID @calculatedFrom(""CRC32""),
}")).
Eval vm_compute in ("<<<M1887>>>" ++ check (runes_of_ascii "

  root
    packet// `tick` ""quote"" 'q'

	roots {  @rightPad ( 	 // trailing space 
'0'
	) char[	255

    ]
    T`line1
line2`
,
	}

packet
	msg_type{

    Logon{  f64 x_y_z  ``

,  } ,i8 
pack

    @lengthOf( stringy

),

@tag(

4294967296	)

char[] msg_type ,
	stringy  // a // b
	{
match x
as

    roots {	1 : options1,

    ""it's""

:	BodyLength  , }
,}	, } ")).
Eval vm_compute in ("<<<M2011>>>" ++ check (runes_of_ascii "packet 
Z9_  {
} packet
T
{ repeat
charz{ match
	float
    as	// " ++ [128512]%N ++ runes_of_ascii " emoji

  stringy	{
00
:f32a

    [  00
	    //x
	,
00	,  ""a\\"" 
      // packet A { u8 x, }
// a // b
    	,
0 , 
7 ,

    0
	] :

As  ,
    } 
, //	t
	  uint32 asx
	,  
  //
/// triple
	repeat u8x
	{
	repeat 
	//x
    //
    u8 
string_

,} ,

},
    }")).
Eval vm_compute in ("<<<M1505>>>" ++ check (runes_of_ascii "packet
A 
{
u8
    a

,
} 
packet

    B { u16 b	,
} packet
	C
{
u32
c	, 
}
root	packet	M
{ u16
    Kc
,
u16  Kb
, u16
Ka , match
	Kc as
    X{
	9
:

A ,10
:

B  ,	}
, 
match

Kb as Y {2 
:
C ,

    1:	A
    ,} , match
	Ka  as
Z

    {
1  :
B,  } 
,

A,  B	,
C 
,

    }
")).
Eval vm_compute in ("<<<M504>>>" ++ check (runes_of_ascii "root packet tag { }  packet packet MetaDataX{char[007	]
// c
/// triple
asx  @calculatedFrom( ""a\""b""
) `say ""hi""`// " ++ [27880; 37322]%N ++ runes_of_ascii "
,  @tag(4294967296 )
    char[1//x
] packetx @calculatedFrom(""a\""b""
    ) ,
// " ++ [128512]%N ++ runes_of_ascii " emoji
// a // b
@calculatedFrom(""" ++ [233]%N ++ runes_of_ascii "t" ++ [233]%N ++ runes_of_ascii """  ) repeat pack // " ++ [27880; 37322]%N ++ runes_of_ascii "
,
    } // c")).
Eval vm_compute in ("<<<M658>>>" ++ check (runes_of_ascii "root packet tag { }  packet MetaDataX{char[007	]
// c
/// triple
asx  @calculatedFrom( ""a\""b""
) `say ""hi""`// " ++ [27880; 37322]%N ++ runes_of_ascii "
,  @tag(4294967296 )
    char[1//x
] packetx @calculatedFrom(""a\""b""
    ) ,
// " ++ [128512]%N ++ runes_of_ascii " emoji
// a // b
@calculate'1'dFrom(""" ++ [233]%N ++ runes_of_ascii "t" ++ [233]%N ++ runes_of_ascii """  ) repeat pack // " ++ [27880; 37322]%N ++ runes_of_ascii "
,
    } // c")).
Eval vm_compute in ("<<<M585>>>" ++ check (runes_of_ascii "root packet tag { }  packet MetaDataX{char[007	]
// c
/// triple
asx  @calculatedFrom( ""a\""b""
) `say ""hi""`// " ++ [27880; 37322]%N ++ runes_of_ascii "
,  @tag(4294967296 )
    char[ ]//x
1 packetx @calculatedFrom(""a\""b""
    ) ,
// " ++ [128512]%N ++ runes_of_ascii " emoji
// a // b
@calculatedFrom(""" ++ [233]%N ++ runes_of_ascii "t" ++ [233]%N ++ runes_of_ascii """  ) repeat pack // " ++ [27880; 37322]%N ++ runes_of_ascii "
,
    } // c")).
Eval vm_compute in ("<<<M590>>>" ++ check (runes_of_ascii "root packet tag { }  packet MetaDataX{char[007	]
// c
/// triple
asx  @calculatedFrom( ""a\""b""
) `say ""hi""`// " ++ [27880; 37322]%N ++ runes_of_ascii "
,  @tag(4294967296 )
    char[1//x
packetx ] @calculatedFrom(""a\""b""
    ) ,
// " ++ [128512]%N ++ runes_of_ascii " emoji
// a // b
@calculatedFrom(""" ++ [233]%N ++ runes_of_ascii "t" ++ [233]%N ++ runes_of_ascii """  ) repeat pack // " ++ [27880; 37322]%N ++ runes_of_ascii "
,
    } // c")).
Eval vm_compute in ("<<<M626>>>" ++ check (runes_of_ascii "root packet tag { }  packet MetaDataX{char[007	]
// c
/// triple
asx  @calculatedFrom( ""a\""b""
) `say ""hi""`// " ++ [27880; 37322]%N ++ runes_of_ascii "
,  @tag(4294967296 )
    char[1//x
] packetx @calculatedFrom(""a\""b""
    ) ,
// " ++ [128512]%N ++ runes_of_ascii " emoji
// a // b
@calculatedFrom(i32  ) repeat pack // " ++ [27880; 37322]%N ++ runes_of_ascii "
,
    } // c")).
Eval vm_compute in ("<<<M1515>>>" ++ check (runes_of_ascii "packet P1 {
    u8 a,
}
packet P2 {
    P1,
}
packet P3 {
    P2,
    P1,
}
packet P4 {
    repeat P3,
    P2,
}
root packet P5 {
    P4,
    P3,
    P1,
    u8 K,
    match K as Body {
        4 : P4,
        3 : P3,
        2 : P2,
        1 : P1,
    },
}
")).
Eval vm_compute in ("<<<M1469>>>" ++ check (runes_of_ascii "// top
options // c0a
  // c0b
{ FixedStringPadFromLeft
    // c2
=
    // c3
true
    // c4
; // c5
}
    // c6
root packet // c8a
  // c8b
P // c9a
  // c9b
{ // c10
char[ // c11
4
    // c12
] z // c14
, // c15
} // c16a
  // c16b
")).
Eval vm_compute in ("<<<M1685>>>" ++ check (runes_of_ascii "root packet f32a {
    trueish falsey,
    tag,
    repeat Pad {
        u32 i8i8 @calculatedFrom(""x y""),
    },
    @calculatedFrom(""// no comment"")
    @lengthOf(calculatedFrom)
    @tag(65535)
    string T,
}")).
Eval vm_compute in ("<<<M2023>>>" ++ check (runes_of_ascii "options {
    FixedStringPadChar = '0';
}

packet Q {
    zchar[4] z,
    @rightPad('\x00')
    char[3] n,
    char[5] d,
}

root packet R {
    Q,
    zchar[8] top,
    repeat zchar[2] zs,
}")).
Eval vm_compute in ("<<<M440>>>" ++ check (runes_of_ascii "packet
    // `tick` ""quote"" 'q'
    crc
// packet A { u8 x, }
//	t
{
u32 a1 ,
    // trailing space 
    roots
charz //
`two words`,	}
    MetaData MetaData int {
} /// triple")).
Eval vm_compute in ("<<<M395>>>" ++ check (runes_of_ascii "packet
    // `tick` ""quote"" 'q'
    crc
// packet A { u8 x, }
//	t
{ {
u32 a1 ,
    // trailing space 
    roots
charz //
`two words`,	}
    MetaData int {
} /// triple")).
Eval vm_compute in ("<<<M705>>>" ++ check (runes_of_ascii "root packet len // trailing space 
{
// " ++ [27880; 37322]%N ++ runes_of_ascii "
//	t
char[10
] metadata	@lengthOf( x" ++ [178]%N ++ runes_of_ascii " ) `crlf
line`,
    @rightPad
( ' '
) string
    Header @calculatedFrom( ""a\\""
    ), }
")).
Eval vm_compute in ("<<<M1609>>>" ++ check (runes_of_ascii "  MetaData
    u
	{ BodyLength
	repeatCount	// packet A { u8 x, }

  , } 
options  { string_ =

    false;	i8i8
	=
    10

    ;}  root
packet
    float
    {  }  //")).
Eval vm_compute in ("<<<M69>>>" ++ check (runes_of_ascii "options { o =""x y""
//x
// trailing space 
; float
    = ""\n"" metadata
// " ++ [128512]%N ++ runes_of_ascii " emoji
// `tick` ""quote"" 'q'
=
    """ ++ [128512]%N ++ runes_of_ascii """;Logon
//
//	t
=
true
; i8i8  = string// @lengthOf(
}")).
Eval vm_compute in ("<<<M1273>>>" ++ check (runes_of_ascii "// top
packet // c0a
  // c0b
x
    // c1
{ @rightPad
    // c3
( // c4a
  // c4b
) repeat roots
    // c7
Logon // c8
`doc`
    // c9
, } // c11a
  // c11b
")).
Eval vm_compute in ("<<<M2134>>>" ++ check (runes_of_ascii "root packet matchKey {zchar[// c
  3]pack  @calculatedFrom(	""a	b""

    )

`doc`  , 
}

    options	{
	}  MetaData A 
{ int8 msg_type
	,

    }")).
Eval vm_compute in ("<<<M2002>>>" ++ check (runes_of_ascii "packet A {
    match k as n {
        [
            ""a"", 22, ""c c"", 4, ""e"",
            66, ""g"", 8
        ] : B,
        2 : C,
    },
}")).
Eval vm_compute in ("<<<M1814>>>" ++ check (runes_of_ascii "
packet
	A  {
	match k

    as n	{  [
    1
, 22 ,007  ,4 
,5 
,

66
, 7 
,
    8 ,
    9
,
10 , 11]
    :B
	2 :C 
}
	,
}
")).
Eval vm_compute in ("<<<M1224>>>" ++ check (runes_of_ascii "root
// c
packet matchKey { zchar[ 3 ] pack @calculatedFrom( ""a	b"" ) `doc` , } options { } MetaData A { int8 msg_type , }")).
Eval vm_compute in ("<<<M1256>>>" ++ check (runes_of_ascii "root packet matchKey { zchar[ 3 ] pack @calculatedFrom( ""a	b"" ) `doc` , } options { }
// c
MetaData A { int8 msg_type , }")).
Eval vm_compute in ("<<<M933>>>" ++ check (runes_of_ascii "packet A {
    Inner {
        u8 x `a
    b
  c`,
        Deep {
            u8 y `a
    b
  c`,
        },
    },
}")).
Eval vm_compute in ("<<<M1787>>>" ++ check (runes_of_ascii "  packet

A
	{

match

k as n {

    [ 1	,

    ""bb"",007
	,

    ""d""
    ,5 ,	""f"" ] :B 2	:C } ,

    }
")).
Eval vm_compute in ("<<<M875>>>" ++ check (runes_of_ascii "packet A {
  match k as n {
    [""a"", ""bb"", ""c c"", ""d"", ""e"", ""f"", ""g"", ""h"", ""i"", ""j""] : B,
    2 : C
  },
}")).
Eval vm_compute in ("<<<M1997>>>" ++ check (runes_of_ascii "
MetaData
body
{
i64	pack `it's`  ,

    // c
  	}
	packet

stringy {
    int16
    calculatedFrom	, }
")).
Eval vm_compute in ("<<<M1938>>>" ++ check (runes_of_ascii "packet crc {
    u32 a1,
    // trailing space 
    roots `two words`,
}

MetaData int {
}/// triple")).
Eval vm_compute in ("<<<M1591>>>" ++ check (runes_of_ascii "MetaData float {
    float64 charz `
    `,
}

root packet chars {
    @rightPad('0')
    Foo,
}")).
Eval vm_compute in ("<<<M887>>>" ++ check (runes_of_ascii "packet A {
  match k as n {
    [1, 22, 007, 4, 5, 66, 7, 8, 9, 10, 11] : B
    2 : C
  },
}")).
Eval vm_compute in ("<<<M1183>>>" ++ check (runes_of_ascii "MetaData float
// c
{ float64 charz `
` , } root packet chars { @rightPad ( '0' ) Foo , }")).
Eval vm_compute in ("<<<M1215>>>" ++ check (runes_of_ascii "MetaData float { float64 charz `
` , } root packet chars { @rightPad ( '0' ) Foo ,
// c
}")).
Eval vm_compute in ("<<<M1426>>>" ++ check (runes_of_ascii "packet chars { } packet MetaDataX { @tag( 42 ) i16 string_ , repeat x `say ""hi""` // c
, }")).
Eval vm_compute in ("<<<M1124>>>" ++ check (runes_of_ascii "packet // c
metadata { Logon { A `" ++ [28040; 24687; 31867; 22411]%N ++ runes_of_ascii "` , tag o , } , zchar len `// not a comment` , }")).
Eval vm_compute in ("<<<M1156>>>" ++ check (runes_of_ascii "packet metadata { Logon { A `" ++ [28040; 24687; 31867; 22411]%N ++ runes_of_ascii "` , tag o , } , zchar len `// not a comment` , // c
}")).
Eval vm_compute in ("<<<M1361>>>" ++ check (runes_of_ascii "packet o { repeat Logon uint8x , } options { asx
// c
= zchar[ 3 ] stringy = '\x00' }")).
Eval vm_compute in ("<<<M147>>>" ++ check (runes_of_ascii "packet
    zchar { @lengthOf(Header )f32 string_ `a\`
    , } // packet A { u8 x, }")).
Eval vm_compute in ("<<<M1322>>>" ++ check (runes_of_ascii "MetaData body { i64 pack `it's` , } packet
// c
stringy { int16 calculatedFrom , }")).
Eval vm_compute in ("<<<M1799>>>" ++ check (runes_of_ascii "packet

A

{ match
k	as
n

{[

1	,  22 
,	""c c""
,4,
	5 ]:
	B,

2

:  C }
,
}
")).
Eval vm_compute in ("<<<M816>>>" ++ check (runes_of_ascii "packet A {
  match k as n {
    [1, 22, ""c c"", 4, 5] : B,
    2 : C
  },
}")).
Eval vm_compute in ("<<<M804>>>" ++ check (runes_of_ascii "packet A {
  match k as n {
    [1, 22, ""c c"", 4] : B
    2 : C
  },
}")).
Eval vm_compute in ("<<<M1162>>>" ++ check (runes_of_ascii "// top
root // c0a
  // c0b
packet pack // c2a
  // c2b
{ // c3
} ")).
Eval vm_compute in ("<<<M1664>>>" ++ check (runes_of_ascii "options {	leftPad 	 //	t
  = 	 //	t

	""" ++ [28040; 24687]%N ++ runes_of_ascii """
    }  // " ++ [128512]%N ++ runes_of_ascii " emoji")).
Eval vm_compute in ("<<<M1282>>>" ++ check (runes_of_ascii "packet x { @rightPad // c
( ) repeat roots Logon `doc` , }")).
Eval vm_compute in ("<<<M263>>>" ++ check (runes_of_ascii "root
packet i8i8 { @lengthOf(
Packet)
    u32 u8x, }")).
Eval vm_compute in ("<<<M66>>>" ++ check (runes_of_ascii "// c
MetaData calculatedFrom {Foo msg_type ,
}
")).
Eval vm_compute in ("<<<M952>>>" ++ check (runes_of_ascii "MetaData M {
    u8 x `
x`,
    T t `
x`,
}")).
Eval vm_compute in ("<<<M1110>>>" ++ check (runes_of_ascii "root packet u128 { chars `it's` // c
, }")).
Eval vm_compute in ("<<<M1076>>>" ++ check (runes_of_ascii "options { a = 1; // a
 b = 2 // b
 }")).
Eval vm_compute in ("<<<M1928>>>" ++ check (runes_of_ascii "packet A {
    u8 x `d" ++ [8239]%N ++ runes_of_ascii "`,// c" ++ [8239]%N ++ runes_of_ascii "
}")).
Eval vm_compute in ("<<<M758>>>" ++ check (runes_of_ascii "i64 string char[] as char[] :")).
Eval vm_compute in ("<<<M1163>>>" ++ check (runes_of_ascii "// c
root packet pack { }")).
Eval vm_compute in ("<<<M1635>>>" ++ check (runes_of_ascii "root packet pack {
}")).
Eval vm_compute in ("<<<M1001>>>" ++ check (runes_of_ascii "packet A {
}
// c" ++ [8202]%N)).
Eval vm_compute in ("<<<M989>>>" ++ check (runes_of_ascii "packet A {
}// c" ++ [5760]%N)).
Eval vm_compute in ("<<<M2067>>>" ++ check (runes_of_ascii "packet T {
}")).
Eval vm_compute in ("<<<M995>>>" ++ check (runes_of_ascii "// c" ++ [8192]%N)).
Eval vm_compute in ("<<<M111>>>" ++ check (@nil rune)).
