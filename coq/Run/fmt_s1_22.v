From FP Require Import Lexer Parser ShowPT Digest Formatter.
From Coq Require Import String List NArith.
Import ListNotations.
Open Scope string_scope.
Set Printing Width 100000000.
Set Printing Depth 100000000.
Definition show_fres (r : fres) : string :=
  match r with
  | FOk s => "OK:" ++ sh_escaped s ""
  | FErr s => "ERR:" ++ sh_escaped s ""
  | FPanic p => "PANIC:" ++ p
  end.
Definition check (rs : list rune) : string := digest (show_fres (format_res rs)).
Definition full (rs : list rune) : string := show_fres (format_res rs).
Eval vm_compute in ("<<<M4344>>>" ++ check (runes_of_ascii "options {
    ArrayPrefixLenType = u16;
    FixedStringPadFromLeft = true;
    JavaPackage = ""com.example.msg"";
    GoPackage = ""msg"";
    GoModule = ""example.com/msg"";
}

MetaData Meta {
    u32 SeqNum `sequence number
        more`,
    char[8] Symbol `symbol
        more`,
    zchar[5] ZSym `z symbol
        more`,
    string Note,
    Symbol AltSymbol `alias of symbol`,
    f64 Price,
}

packet Inner {
    u8 a,
    i16 b,
    string c,
}

packet Inner2 {
    u8 a2,
    char[3] c2,
}

packet Logon {
    u8 x,
    string user,
    repeat u16 codes,
}

packet Logout {
    u16 reason,
}

packet Empty {
}

root packet Msg {
    u8 su8,
    uint8 luint8,
    u16 su16,
    uint16 luint16,
    u32 su32,
    uint32 luint32,
    u64 su64,
    uint64 luint64,
    i8 si8,
    int8 lint8,
    i16 si16,
    int16 lint16,
    i32 si32,
    int32 lint32,
    i64 si64,
    int64 lint64,
    f32 sf32,
    float32 lfloat32,
    f64 sf64,
    float64 lfloat64,
    char[6] fsplain,
    @leftPad('0')
    char[4] fs0,
    @rightPad('0')
    char[5] fs1,
    @leftPad(' ')
    char[6] fs2,
    @rightPad(' ')
    char[7] fs3,
    @leftPad('\x00')
    char[8] fs4,
    @rightPad('\x00')
    char[9] fs5,
    @leftPad()
    char[10] fs6,
    @rightPad()
    char[11] fs7,
    zchar[7] fz,
    @leftPad('0')
    zchar[3] fzl0,
    string s1 `doc`,
    char[] s2,
    Inner,
    Sub {
        u8 q,
        string w,
        Deep {
            u16 z,
            repeat i32 zs,
        },
    },
    repeat u8 ru8,
    repeat u16 ru16,
    repeat u32 ru32,
    repeat u64 ru64,
    repeat i8 ri8,
    repeat i16 ri16,
    repeat i32 ri32,
    repeat i64 ri64,
    repeat f32 rf32,
    repeat f64 rf64,
    repeat string rstr,
    repeat char[] rstr2,
    repeat char[3] rfs,
    repeat zchar[3] rfz,
    repeat Inner2,
    repeat Grp {
        u8 k,
        char[2] v,
    },
    SeqNum,
    SeqNum seq2,
    repeat SeqNum seqs,
    Symbol,
    AltSymbol alt,
    ZSym,
    Note,
    repeat Symbol syms,
    Price px,
    u16 MsgType,
    u32 BodyLen @lengthOf(Body),
    match MsgType as Body {
        1 : Logon,
        [2, 3] : Logout,
        7 : Logon,
        9 : Empty,
    },
    u32 Checksum @calculatedFrom(""CRC32""),
}")).
Eval vm_compute in ("<<<M390>>>" ++ check (runes_of_ascii "packet
metadata
    { zchar[ 10]i64_ `say ""hi""` , repeat // " ++ [27880; 37322]%N ++ runes_of_ascii "
Header
// a // b
// " ++ [128512]%N ++ runes_of_ascii " emoji
uint8x ,@lengthOf( falsey ) int8
_x @calculatedFrom( ""x y"" )`{ , }` // c
,	stringy
metadata`a\` // " ++ [128512]%N ++ runes_of_ascii " emoji
, // " ++ [128512]%N ++ runes_of_ascii " emoji
@lengthOf(
Packet)
    i64_
{match crc  as Header
{[ 0 , 0123456789  ] : // c
Foo
    ,
    ""abc""
// trailing space 
// @lengthOf(
:pack , } ,match int as charz { 1
    /// triple
    : packetx , 7: MetaDataX	, // " ++ [128512]%N ++ runes_of_ascii " emoji
7
: a1 007  :zchar, ""CRC32""
    :
stringy , [ ""\" ++ [233]%N ++ runes_of_ascii """,""CRC32"" ] : i8i8	}
//
//x
, pack
    /// triple
    `doc`
, tag
{ _x@calculatedFrom( ""CRC32""
    )
    `
` ,
repeat asx
`{ , }` /// triple
,i32 _x //x
@calculatedFrom(
""\n"")  `u8 x,`, }
, }, f32a @lengthOf( chars // trailing space 
) , string Packet
    , @leftPad  (
    ' ' ) @lengthOf(
u8x ) // trailing space 
a1// " ++ [128512]%N ++ runes_of_ascii " emoji
@calculatedFrom(
    ""x y"" ) `doc` ,
options1 , body
`{ , }` , } MetaData Foo{ uint8 Z9_ `{ , }` , } packet Header
    { pack	{// trailing space 
leftPad	{ u128 i64_ , zchar[ 7
// @lengthOf(
// `tick` ""quote"" 'q'
] i64_ @calculatedFrom( ""packet"" ) // packet A { u8 x, }
`line1
line2` //x
, //
metadata Logon , char[10 // packet A { u8 x, }
]
asx @lengthOf( uint8x
) `it's`
    ,
} /// triple
, } ,@calculatedFrom( ""a\\"") Logon
@lengthOf(
    uint8x ) `
` , int64 msg_type
    , metadata
_x
// @lengthOf(
/// triple
, @leftPad  (	)
    trueish { Header {
//x
// `tick` ""quote"" 'q'
uint8x
    { char[0123456789]	leftPad	@calculatedFrom(
""" ++ [233]%N ++ runes_of_ascii "t" ++ [233]%N ++ runes_of_ascii """ )
    `" ++ [28040; 24687; 31867; 22411]%N ++ runes_of_ascii "`, } ,// " ++ [128512]%N ++ runes_of_ascii " emoji
char[ // a // b
1
    ]
// c
// packet A { u8 x, }
asx @calculatedFrom(  ""it's"" ) , roots	, } , }	, zchar[
    // " ++ [128512]%N ++ runes_of_ascii " emoji
    255 ]	Packet , // `tick` ""quote"" 'q'
repeat i8i8 , repeat
float64 u8x, @calculatedFrom(""" ++ [233]%N ++ runes_of_ascii "t" ++ [233]%N ++ runes_of_ascii """)
asx @calculatedFrom( ""a\""b"" ),
}  MetaData
    /// triple
    roots // packet A { u8 x, }
{}")).
Eval vm_compute in ("<<<M897>>>" ++ check (runes_of_ascii "packet zchar
    /// triple
    {
match calculatedFrom as
repeatCount {	[ ""{,}""]
    : zchar , 00 :
Pad
    , 0 : pack	, }, // @lengthOf(
f64 o`" ++ [28040; 24687; 31867; 22411]%N ++ runes_of_ascii "`,int32 f32a
    @lengthOf( body ) //
`
`
    ,  char[ 3 ] chars //	t
`crlf
line`
    , }
// @lengthOf(
// packet A { u8 x, }
MetaData metadata {
string int
    ,
    len lengthOf , } root
packet	A {
@tag(0123456789 ) zchar[
    0123456789
    ] BodyLength // " ++ [27880; 37322]%N ++ runes_of_ascii "
, @leftPad( '0' ) @rightPad ( ' '//
) zchar[0123456789
]tag `it's` , @tag(
    007
)// trailing space 
@tag(
    7
) falsey	@calculatedFrom(
    ""\" ++ [233]%N ++ runes_of_ascii """//
), @calculatedFrom(""{,}"" )
repeat Packet , @lengthOf(u
    )@calculatedFrom(
""a\""b""
// a // b
// `tick` ""quote"" 'q'
) @lengthOf(lengthOf )char[]
uint8x,@leftPad ( '\x00' )// trailing space 
repeat T { i8i8 a1 ,
    char[	65535] chars
    `u8 x,`,
    Pad , }
,
    @lengthOf( o ) u8 x , @calculatedFrom( // @lengthOf(
""a	b"" )
lengthOf//
`// not a comment`
, A  {  repeat calculatedFrom
matchKey
,
options1 @calculatedFrom( ""a	b""	), // trailing space 
repeat	u	`line1
line2` , } ,} packet i8i8
{} packet pack { zchar[ 0123456789] leftPad`
`	,@rightPad (
    '\x00'
    )
repeat int
`" ++ [28040; 24687; 31867; 22411]%N ++ runes_of_ascii "`  ,match Packet as
BodyLength// @lengthOf(
{[
00 // a // b
, 7 ] //x
: falsey }	,	@tag(00)
repeat zchar[1 ] len // a // b
`u8 x,` , @leftPad(  ) rootA
//	t
//	t
@lengthOf(  len
    ) ,
    @tag(
    42 ) // `tick` ""quote"" 'q'
@lengthOf( i64_ ) repeat	len
{ x { Logon{
options1 Logon,
    }
, stringy  { string body @lengthOf(tag ) , }
, falsey falsey
, } //x
, MetaDataX
roots
`// not a comment` ,} ,}")).
Eval vm_compute in ("<<<M606>>>" ++ check (runes_of_ascii "packet i8i8 { @leftPad
( ) u body `
`
    , repeat char[] Z9_  ,	repeat char[1	]	int ,
roots {  _x
// a // b
//
@calculatedFrom(""\n"" ) ,
int //x
{ float
    @lengthOf(packetx )  ,} ,	int8 falsey
`a\`, uint16  x_y_z@lengthOf(u128 )
`two words`,} , @tag( 007 ) matchKey
{ _x
    , } , @leftPad ( )@lengthOf( //	t
chars
) i64_ @calculatedFrom(""`tick`"" )
    `" ++ [233]%N ++ runes_of_ascii "`, } packet asx {
    i32
rootA @calculatedFrom( ""a\""b"" )`{ , }` , } packet f32a {
    @leftPad
(
)
// a // b
//	t
@calculatedFrom( ""// no comment"" ) repeat zchar[ 007 ] string_ `// not a comment` , match //	t
Header as pack { [
""// no comment"", ""a\""b"" ]
: x,
    // packet A { u8 x, }
    [ ""abc"" , //	t
""\n""
,""" ++ [233]%N ++ runes_of_ascii "t" ++ [233]%N ++ runes_of_ascii """ ,
00  , 1	, 42
] : pack// c
,	[ 255 , ""a	b""
    ] : i64_, }
, options1 roots , int16
o , @rightPad
( ' ')char[] tag
`// not a comment`	, }
packet roots { uint64 stringy @calculatedFrom( ""1"" ) `two words` ,
    u8x @calculatedFrom( // " ++ [128512]%N ++ runes_of_ascii " emoji
""1"" ) `tab	here`, repeat
    o
{ charz {match metadata as charz { ""a\""b"": u,[10, ""packet"",
""// no comment"" ,	7,  1 ,
    42 ] : lengthOf , ""abc""
:Packet """ ++ [233]%N ++ runes_of_ascii "t" ++ [233]%N ++ runes_of_ascii """ : crc
    ,1
:
x
, //	t
[ """ ++ [28040; 24687]%N ++ runes_of_ascii """
,""// no comment"" ,
1 , 0123456789,""\n"" // trailing space 
,
    ""1"" ,""" ++ [233]%N ++ runes_of_ascii "t" ++ [233]%N ++ runes_of_ascii """ ] :
    //x
    u } , repeat float32
    As ,// trailing space 
} ,}
    //
    ,
    //x
    repeat	char[ 1 //x
]  x_y_z`line1
line2`
    /// triple
    ,
// trailing space 
//x
}
")).
Eval vm_compute in ("<<<M4099>>>" ++ check (runes_of_ascii "packet

o 
// packet A { u8 x, }
	{ @tag(42 )	@tag( 7)@rightPad(
' '
    )
match	i8i8 
as rootA{ // trailing space 
	  [ 
""1"",  1] :

crc ,	}	,
	i16

    u8x  /// triple
    @calculatedFrom( 
""\" ++ [233]%N ++ runes_of_ascii """ )	,
    pack
@calculatedFrom(

""a	b"" ) 
,repeat	f32 calculatedFrom, zchar[
    00

]calculatedFrom 
,
	u8 trueish
    `doc`,zchar[
	0123456789

    ] int
@calculatedFrom(

    ""packet""
)	//x
    ,	} options	{ 
packetx = 	 //

  ""CRC32"" 
;}root
packet	matchKey  {match Header
	as 
T 
{
	[	""abc""
	, 
""" ++ [233]%N ++ runes_of_ascii "t" ++ [233]%N ++ runes_of_ascii """  ]  :	f32a  00: calculatedFrom,00: _x }
, char[]  pack

    `{ , }`
, u32
BodyLength,
    @leftPad
(	)@lengthOf(
o
)
@lengthOf(	MetaDataX  ) rootA  {
    match

int as Logon

{

    [ 3 ]:
    f32a

,
    }
	, zchar 	 //x
@lengthOf(

a1 
)	, } ,	// packet A { u8 x, }
      @calculatedFrom(

""{,}""  // " ++ [128512]%N ++ runes_of_ascii " emoji
    )
    repeat BodyLength

{ match Pad

    // @lengthOf(
	//x
  as
charz
    {

    ""x y""
: lengthOf
    ,}

    ,	repeat 
Foo

    {

    zchar[
    0 
]
Header `" ++ [28040; 24687; 31867; 22411]%N ++ runes_of_ascii "`,
}  , char[
	7 	 // " ++ [128512]%N ++ runes_of_ascii " emoji
]
    packetx
    `// not a comment` ,

    a1@calculatedFrom(

""1"")

,	}, 
@leftPad
( )

    zchar[	// c
	65535	]
u128  `say ""hi""` ,
} root// " ++ [128512]%N ++ runes_of_ascii " emoji
  packet
	int
{@leftPad

(
'0') repeat

char
Packet ,
}")).
Eval vm_compute in ("<<<M4458>>>" ++ check (runes_of_ascii "options {
    x_y_z = """ ++ [128512]%N ++ runes_of_ascii """;
    BodyLength = 0
    a1 = ""a\\"";
    trueish = ""{,}"";
}

packet crc {
    @calculatedFrom(""CRC32"")
    char[] u8x @lengthOf(lengthOf) `line1
        line2`,
    Z9_ int,
    repeat float {
        char[00] i64_ ``,// c
    },
    body @lengthOf(stringy) `// not a comment`,
}

MetaData u128 {
    char charz,
    float64 msg_type `tab	here`,
    Logon stringy `// not a comment`,
    u64 lengthOf,
    chars u8x,
    string_ crc,
}

root packet zchar {
    @calculatedFrom(""" ++ [28040; 24687]%N ++ runes_of_ascii """)
    @tag(10)
    float32 len,
}

packet calculatedFrom {
    repeat int8 zchar,
    @lengthOf(asx)
    lengthOf @lengthOf(u),
    Header @lengthOf(rootA) `it's`,
    @tag(65535)
    match u8x as Header {
        """ ++ [233]%N ++ runes_of_ascii "t" ++ [233]%N ++ runes_of_ascii """ : matchKey,
        """ ++ [28040; 24687]%N ++ runes_of_ascii """ : x_y_z,
        0 : trueish,
        [
            3, 7, """", """ ++ [128512]%N ++ runes_of_ascii """, """ ++ [28040; 24687]%N ++ runes_of_ascii """,
            ""`tick`"", """"
        ] : _x,
    },
    @leftPad(' ')
    string_ falsey `say ""hi""`,
    @leftPad(' ')
    @rightPad('0')
    @leftPad()
    match roots as a1 {
        ""packet"" : T,
    },
    @calculatedFrom(""`tick`"")
    @calculatedFrom(""`tick`"")
    @calculatedFrom(""\" ++ [233]%N ++ runes_of_ascii """)
    // a // b
    zchar[0] A,
    // " ++ [27880; 37322]%N ++ runes_of_ascii "
    //
    zchar[0123456789] x,
}")).
Eval vm_compute in ("<<<M414>>>" ++ check (runes_of_ascii "packet Packet
{ Logon @lengthOf(chars ) , @lengthOf(  stringy
    // c
    ) int { // a // b
char[ 1 ]
    rootA,
    repeat repeatCount `it's`
    , i8 calculatedFrom
    ,	} ,
    _x
u128,
    //	t
    i16 uint8x @lengthOf( a1 )	, a1@calculatedFrom( """ ++ [233]%N ++ runes_of_ascii "t" ++ [233]%N ++ runes_of_ascii """ ) , @lengthOf(
x
// `tick` ""quote"" 'q'
// packet A { u8 x, }
)	repeat
    x_y_z{
int32 crc @calculatedFrom( ""packet"" ), repeat string Z9_
    , float64 len ,} , repeat
options1`" ++ [28040; 24687; 31867; 22411]%N ++ runes_of_ascii "`
,
// a // b
// " ++ [128512]%N ++ runes_of_ascii " emoji
@leftPad  (' ' ) string // @lengthOf(
msg_type @calculatedFrom(
    ""a	b"" ) , // trailing space 
repeat uint8
trueish`line1
line2` , } options // `tick` ""quote"" 'q'
{
    body	= ""\" ++ [233]%N ++ runes_of_ascii """ } packet pack// @lengthOf(
{ /// triple
@lengthOf(	matchKey )char[3 ] a1
    ,
@leftPad
( ) @calculatedFrom( ""it's""
) repeat f32a { zchar[ 00 ]
lengthOf ,
    stringy u8x ,
As// trailing space 
{  A//x
@calculatedFrom(	""abc"" ), match
u8x as	crc	{
65535:
trueish ,
""a	b"" :
    matchKey
    // " ++ [128512]%N ++ runes_of_ascii " emoji
    } , }
, trueish // a // b
@calculatedFrom( /// triple
""\n"" // trailing space 
) `say ""hi""`
    , } , }
packet stringy {char[ 4294967296 ]
u8x
, }
")).
Eval vm_compute in ("<<<M953>>>" ++ check (runes_of_ascii "  packet leftPad { char[4294967296
]Pad , } packet Z9_ {repeat int,i64_ @lengthOf(float  ) , repeat leftPad{
    string
    _x , char[ 65535 ] x @calculatedFrom( ""it's"" ) `crlf
line`,
    },	@calculatedFrom( """ ++ [28040; 24687]%N ++ runes_of_ascii """ ) i32 tag/// triple
, string
    body
@lengthOf( body ) `` //
, @tag( 4294967296  )uint16 Logon @lengthOf(
// packet A { u8 x, }
// packet A { u8 x, }
leftPad ) // a // b
`` ,
    } root packet repeatCount { } root
packet options1
    {@lengthOf(
Z9_ ) @calculatedFrom( ""// no comment"")@calculatedFrom( ""1"" )  zchar // trailing space 
{
u8 repeatCount @calculatedFrom(""it's"" ) ,Packet @lengthOf( // @lengthOf(
_x)
    //
    , } , @calculatedFrom( ""// no comment"") repeat	A{ int32 crc @calculatedFrom( ""// no comment"" ) `{ , }`,
    //x
    repeat u64 //x
packetx `// not a comment`, } , i16
    packetx  @calculatedFrom(	""abc"" )	`" ++ [28040; 24687; 31867; 22411]%N ++ runes_of_ascii "` ,
    // packet A { u8 x, }
    u16 Foo  @calculatedFrom( ""CRC32"" ), //
} options { Header
//	t
// c
='\x00'
    ;// " ++ [27880; 37322]%N ++ runes_of_ascii "
MetaDataX // @lengthOf(
= 007; lengthOf = false; As = '\x00' } /// triple")).
Eval vm_compute in ("<<<M253>>>" ++ check (runes_of_ascii "options{
} packet matchKey { repeat
int32 packetx, zchar[
    10
    //x
    ] Packet
    ,@lengthOf(string_
) @tag( 007 ) @tag( 255 )// @lengthOf(
Z9_ @calculatedFrom( """ ++ [28040; 24687]%N ++ runes_of_ascii """ ) ,
@lengthOf(
// `tick` ""quote"" 'q'
// `tick` ""quote"" 'q'
asx
) @calculatedFrom(
    // trailing space 
    ""CRC32"" )
string
_x,
    @calculatedFrom( """"
    ) @lengthOf(
trueish)x , @leftPad (
)
// `tick` ""quote"" 'q'
/// triple
zchar[ 4294967296 ]
    float , @lengthOf(
    // trailing space 
    u128
    )//	t
Logon{repeat char[]x `u8 x,`, // packet A { u8 x, }
} , @tag(
1) f64 Z9_ ,
u32 i64_
`crlf
line`  , @rightPad
// `tick` ""quote"" 'q'
// @lengthOf(
( '\x00'	) @leftPad (	) repeat float32
uint8x , }
root packet
u128
    // `tick` ""quote"" 'q'
    { i32
    charz //	t
@lengthOf( crc
) `u8 x,`  ,// a // b
@tag(
65535 // " ++ [128512]%N ++ runes_of_ascii " emoji
)// trailing space 
@lengthOf( f32a ) repeat// " ++ [27880; 37322]%N ++ runes_of_ascii "
Logon
`{ , }`
    , @rightPad (
    ' ' ) @tag(65535
)
    repeat trueish , i32
lengthOf
    // `tick` ""quote"" 'q'
    , }")).
Eval vm_compute in ("<<<M1232>>>" ++ check (runes_of_ascii "options {
    i64_ =
// c
// trailing space 
""x y"";
    chars
// a // b
//	t
=
    65535 metadata= i32; // trailing space 
} root  packet
chars { @lengthOf( /// triple
chars
    // " ++ [128512]%N ++ runes_of_ascii " emoji
    ) repeat  Logon
// " ++ [128512]%N ++ runes_of_ascii " emoji
//	t
{ string len @lengthOf(
    crc ) //x
,u128 @lengthOf( x )
, } , }
    packet chars
{ @lengthOf(charz)@calculatedFrom( """ ++ [233]%N ++ runes_of_ascii "t" ++ [233]%N ++ runes_of_ascii """  )
@calculatedFrom( """ ++ [128512]%N ++ runes_of_ascii """ )repeat
    // " ++ [128512]%N ++ runes_of_ascii " emoji
    repeatCount
    Packet `u8 x,`,match
rootA as
    /// triple
    falsey {
    ""{,}""
:
As ,
00
: // " ++ [128512]%N ++ runes_of_ascii " emoji
lengthOf ,
""\n"" : u8x, """ ++ [233]%N ++ runes_of_ascii "t" ++ [233]%N ++ runes_of_ascii """  :T 3:
    /// triple
    calculatedFrom ,}, @leftPad ( )@calculatedFrom(
    ""it's"" )	repeat crc
    stringy`
` ,@lengthOf(// `tick` ""quote"" 'q'
metadata ) repeat falsey{ char[]
Foo `a\` , match leftPad //	t
as  BodyLength {
""CRC32"": body , ""1"": x
,""a\\"":	calculatedFrom,
[
    // @lengthOf(
    1
,00]
:
float }
, repeat
    char calculatedFrom , Foo { u64  Header `
` ,}
, } , }
")).
Eval vm_compute in ("<<<M1214>>>" ++ check (runes_of_ascii "packet float
{ @calculatedFrom(
""a\\""
    ) char[
00 ]zchar `line1
line2` ,
//	t
// `tick` ""quote"" 'q'
@lengthOf(
calculatedFrom )
    match chars as repeatCount // a // b
{ // packet A { u8 x, }
""CRC32"" : // packet A { u8 x, }
f32a
, }
    , // packet A { u8 x, }
} root
    packet BodyLength {@rightPad ( '\x00' )u32 Header@lengthOf( A
) , @leftPad
( '0' // c
)char[ 1 ] metadata@calculatedFrom(
    ""x y""	) , repeat f32a {char[] _x @lengthOf( body ) `line1
line2`, calculatedFrom
{
string msg_type,char[
    0123456789	] int@lengthOf(
    int )
    ``	, } , } , trueish ,
//x
// `tick` ""quote"" 'q'
char[] f32a ,
    o Pad  , crc @lengthOf(
    chars	)`" ++ [28040; 24687; 31867; 22411]%N ++ runes_of_ascii "` //
,	@calculatedFrom(
""\n""
) // packet A { u8 x, }
@lengthOf( leftPad ) BodyLength { repeat Logon
    {
lengthOf
@lengthOf( trueish  ) `// not a comment`,} ,
    }, }MetaData matchKey{
uint64
BodyLength , }
")).
Eval vm_compute in ("<<<M975>>>" ++ check (runes_of_ascii "
root packet _x{@lengthOf(
    //
    options1 ) charz @lengthOf( Foo
)	,// packet A { u8 x, }
} packet metadata
    { }
    packet
crc  { stringy@calculatedFrom(  ""packet"" )
`// not a comment` , @tag(42 )repeat
leftPad	{body@calculatedFrom( ""a\""b"" ) `two words`, } ,@tag( 1	) repeat uint16 packetx `a\` // trailing space 
,repeat zchar[ 00]matchKey
/// triple
//x
``
,@calculatedFrom(	""`tick`"" )//
@calculatedFrom( ""1""
) char[ 00]
u128 @lengthOf(
    a1 ) , @lengthOf( lengthOf)@rightPad
    (
    '0'
) @lengthOf(u128) rootA, } options
    { } packet u128 { @tag(
    // `tick` ""quote"" 'q'
    3 )
    @tag(
    // packet A { u8 x, }
    255 /// triple
) @lengthOf(
_x )	char crc
    `// not a comment`
// " ++ [128512]%N ++ runes_of_ascii " emoji
//	t
,repeat matchKey
    repeatCount , repeat
    T
    `a\`
,	@tag( 00 ) repeat rootA`tab	here`, } //	t")).
Eval vm_compute in ("<<<M383>>>" ++ check (runes_of_ascii "packet repeatCount{
    @tag(1
) @leftPad
(' ')	@leftPad
    (
    // c
    '\x00'
    ) int16
trueish
@lengthOf( len) `// not a comment` ,@calculatedFrom(	""it's"")
f64 trueish
@lengthOf( pack ), i64
/// triple
//x
int
    `u8 x,`,  int16 Packet, repeat trueish{ char[ 65535 ] int @lengthOf( Foo ) `crlf
line`
    , },	match chars
as u128 { 0123456789 :
uint8x ,	""1""
    : A
    // `tick` ""quote"" 'q'
    , ""packet""	:
    matchKey
,0
: crc ,""abc"" :
T ,} ,
@rightPad (// " ++ [27880; 37322]%N ++ runes_of_ascii "
) match
//	t
//x
a1 as
    u128 {3
//
// @lengthOf(
:	lengthOf	, ""a\\"": trueish
007 :
rootA }
    ,@leftPad ( ' '
) string_ `tab	here`
    , packetx
    @lengthOf( Header ) , @tag(255	) @tag( 42 ) char[]packetx, // `tick` ""quote"" 'q'
}
    options { rootA // a // b
=
// c
//	t
' ' x_y_z = int8
}")).
Eval vm_compute in ("<<<M54>>>" ++ check (runes_of_ascii "root packet calculatedFrom
{ /// triple
@calculatedFrom( // packet A { u8 x, }
""{,}"" ) match asx
as i8i8 { ""CRC32"" :f32a	,
    ""// no comment""	:Packet
    ,// trailing space 
}
,
    repeat zchar[ 7 ] len , //
match	options1// c
as string_	{""" ++ [128512]%N ++ runes_of_ascii """ : metadata ,	[""\n""
// `tick` ""quote"" 'q'
//
,
    ""CRC32"" , ""a\""b""]
:
// " ++ [128512]%N ++ runes_of_ascii " emoji
// " ++ [128512]%N ++ runes_of_ascii " emoji
x_y_z // " ++ [27880; 37322]%N ++ runes_of_ascii "
, 42
: string_	},@lengthOf(
msg_type) string Pad
// trailing space 
// @lengthOf(
`tab	here` ,
f32a
, match  Logon as stringy { 007
    :
    metadata	, [ 255 , 10 ] : matchKey, [
10 ,""1"",	""`tick`"" , 0]:roots , 255
// @lengthOf(
// c
: o,	[ 1 ]
: msg_type  , 0123456789
: falsey	} , } root packet
crc { }
    options
    { falsey =
false ;len =
""\" ++ [233]%N ++ runes_of_ascii """// " ++ [27880; 37322]%N ++ runes_of_ascii "
;A
=
""a	b""	lengthOf	= ""1""}
")).
Eval vm_compute in ("<<<M3699>>>" ++ check (runes_of_ascii "

  packet

msg_type
	{

    repeat

i64  MetaDataX	`line1
line2`// trailing space 
    ,
repeat
char[]	//
	u128

    ,

    @tag(	42 )// @lengthOf(
      @lengthOf(	u	) 
@lengthOf(

    body)repeat
zchar[	255
        //
] 
  // `tick` ""quote"" 'q'
	// trailing space 

As,calculatedFrom
//x
  f32a
	// trailing space 
    ,
	} options
	{ 	 // @lengthOf(
  	x =3
	msg_type

=
""`tick`""	falsey
=

""CRC32""	;
// trailing space 
	body 
=
char[  00	]

    ; uint8x
	=
	""x y""
}
    options// @lengthOf(
{ //
	A = uint16

}
    root  packet BodyLength { @lengthOf(
pack  )

repeat metadata

T `{ , }`  
      // packet A { u8 x, }

  //	t

	,  }

    packet  chars
{}
    // packet A { u8 x, }
")).
Eval vm_compute in ("<<<M1194>>>" ++ check (runes_of_ascii "packet asx
{// c
@calculatedFrom(
""\" ++ [233]%N ++ runes_of_ascii """ )
crc
    { int8 zchar @calculatedFrom(""" ++ [128512]%N ++ runes_of_ascii """ )
,
    } // trailing space 
, roots@lengthOf( // a // b
metadata )`` ,
@calculatedFrom(
""1"" //
)@lengthOf(
    matchKey) //	t
@calculatedFrom( """ ++ [233]%N ++ runes_of_ascii "t" ++ [233]%N ++ runes_of_ascii """ )
    // packet A { u8 x, }
    u Header	, u128 ,	match _x as
    msg_type{ 1 :
    BodyLength	,42
    : packetx	, //	t
[ ""{,}"" ] :// c
chars , //
[ ""`tick`"" ,	0 ,
    """ ++ [233]%N ++ runes_of_ascii "t" ++ [233]%N ++ runes_of_ascii """ ,
// a // b
// " ++ [27880; 37322]%N ++ runes_of_ascii "
65535
//
// trailing space 
, ""packet"", ""{,}"" ] : chars ,	3
/// triple
// @lengthOf(
: packetx ,	7
//
// packet A { u8 x, }
:crc , } , @lengthOf(
    len )repeatCount { zchar[ 65535
    ] x_y_z
,	} , f32a
    @lengthOf( body  )
    ,  } //x")).
Eval vm_compute in ("<<<M4072>>>" ++ check (runes_of_ascii "// " ++ [27880; 37322]%N ++ runes_of_ascii "
root packet _x {
    @rightPad()
    zchar[007] Logon @calculatedFrom(""x y""),
    zchar[7] string_ @lengthOf(Packet) `two words`,
    @tag(007)
    @calculatedFrom(""x y"")
    repeat calculatedFrom {
        // packet A { u8 x, }
        zchar @calculatedFrom(""" ++ [233]%N ++ runes_of_ascii "t" ++ [233]%N ++ runes_of_ascii """),
        int32 leftPad,
    },
    repeat body chars,
    @lengthOf(options1)
    repeat char[255] Foo,
    // c
    //
    repeat MetaDataX {
        pack,
    },
    char[7] repeatCount @calculatedFrom(""it's""),
}

// trailing space 
packet Packet {
    Header @lengthOf(uint8x) `two words`,
}

options {
}

root packet msg_type {
    int32 body `" ++ [28040; 24687; 31867; 22411]%N ++ runes_of_ascii "`,
}")).
Eval vm_compute in ("<<<M4258>>>" ++ check (runes_of_ascii "// trailing space 
packet o {
    @calculatedFrom(""`tick`"")
    repeat i8 rootA,
    @calculatedFrom(""`tick`"")
    Logon body `line1
        line2`,// " ++ [128512]%N ++ runes_of_ascii " emoji
    @lengthOf(crc)
    @tag(0)
    repeat falsey string_,
    @calculatedFrom("""")
    lengthOf,
    u16 calculatedFrom,
    i8i8 tag `two words`,
    @tag(1)
    string rootA `u8 x,`,
    match pack as int {
        [
            10, 0, 4294967296, """ ++ [233]%N ++ runes_of_ascii "t" ++ [233]%N ++ runes_of_ascii """, ""\" ++ [233]%N ++ runes_of_ascii """,
            ""packet"", """ ++ [28040; 24687]%N ++ runes_of_ascii """, """ ++ [233]%N ++ runes_of_ascii "t" ++ [233]%N ++ runes_of_ascii """
        ] : int,
        3 : zchar,
        """ ++ [128512]%N ++ runes_of_ascii """ : options1,
        00 : x_y_z,
        4294967296 : chars,
    },
    float32 matchKey,
    T,
}")).
Eval vm_compute in ("<<<M1013>>>" ++ check (runes_of_ascii "options { int =
""`tick`"" ; Foo  =' '	; Foo =
""x y"" ; x_y_z	= ""x y""
    //	t
    ;}packet uint8x { @lengthOf( int
// `tick` ""quote"" 'q'
// trailing space 
)
@tag( 0 )
    Pad // `tick` ""quote"" 'q'
,u8 x ,	@lengthOf(Z9_ )
    f32 BodyLength
    `crlf
line` ,repeat
char[255
] f32a
    ,  repeat msg_type
lengthOf,
@leftPad ('\x00'
) repeat int32
asx,
    repeat string f32a //x
, // `tick` ""quote"" 'q'
} MetaData packetx { int64 asx , Foo
len`// not a comment` , i32
MetaDataX `" ++ [233]%N ++ runes_of_ascii "`
    ,
    Foo
Header
`line1
line2` ,
    zchar[ 0123456789
] lengthOf ,	float32 metadata , }")).
Eval vm_compute in ("<<<M42>>>" ++ check (runes_of_ascii "packet	BodyLength { repeat f32a Pad`// not a comment` ,
// " ++ [128512]%N ++ runes_of_ascii " emoji
// c
}
MetaData As { }options { crc
    // packet A { u8 x, }
    =
""a\\""
float= '\x00'
    a1 // c
= ' ';i8i8 =
    4294967296
}	packet u128 {
// `tick` ""quote"" 'q'
//
match //x
stringy as o{ ""`tick`""  : Foo  , [ 4294967296 ]	: x_y_z ,} ,zchar[ /// triple
10 ] // `tick` ""quote"" 'q'
Packet@lengthOf(u8x
),
@lengthOf(
roots) // " ++ [27880; 37322]%N ++ runes_of_ascii "
x
    `// not a comment` , i64
    asx @lengthOf( rootA ) , metadata ,
i64_ @calculatedFrom(  ""\" ++ [233]%N ++ runes_of_ascii """ ) ,	@lengthOf(u128
) repeat o `two words` , }
")).
Eval vm_compute in ("<<<M1360>>>" ++ check (runes_of_ascii "
options { packetx = '\x00' o =
    // `tick` ""quote"" 'q'
    ""abc"" lengthOf // @lengthOf(
=
    255 zchar
    =""" ++ [128512]%N ++ runes_of_ascii """
Pad// packet A { u8 x, }
= string
;
}
root packet
options1//x
{ calculatedFrom
    o  ,
    x
    @lengthOf( leftPad // " ++ [128512]%N ++ runes_of_ascii " emoji
)
    , match
    _x as
stringy { 3
: i8i8 ,
} ,
    string T , }	root packet
uint8x
{ len
/// triple
// a // b
``,} packet matchKey {match calculatedFrom
as
    // " ++ [27880; 37322]%N ++ runes_of_ascii "
    Packet { [ """ ++ [28040; 24687]%N ++ runes_of_ascii """ , ""packet""//
]:// packet A { u8 x, }
rootA ,}	,	}options {
    uint8x = false ; }
")).
Eval vm_compute in ("<<<M4254>>>" ++ check (runes_of_ascii "MetaData pack {
}

MetaData u {
    zchar[7] lengthOf `say ""hi""`,
}

packet metadata {
    @leftPad()
    stringy chars,
    repeat int {
        uint8 A,
        zchar[4294967296] Packet @lengthOf(x) `
        `,
        repeat crc zchar,
    },
    repeat options1 {
        u16 u,
        string_ {
            string_ MetaDataX,
            repeat char[0123456789] uint8x,
            repeat uint32 T,
        },
        uint16 packetx,
    },
    @leftPad(' ')
    rootA `crlf
    line`,
}")).
Eval vm_compute in ("<<<M711>>>" ++ check (runes_of_ascii "MetaData f32a
    // " ++ [27880; 37322]%N ++ runes_of_ascii "
    { msg_type u128 , } options {
    } // packet A { u8 x, }
root packet body {
    Packet `say ""hi""` , string
pack `doc`
    ,
//	t
//	t
@tag( 10
)
lengthOf{	char[]
    MetaDataX , u16 uint8x
    @calculatedFrom( """" )  , uint32 options1
`{ , }`
// a // b
//
, _x
,	} ,
} packet int{} MetaData
u128{ x_y_z
    As ,
    msg_type int`two words`,
    // c
    pack
repeatCount ,	tag Z9_
    , calculatedFrom
chars // a // b
`crlf
line`
    ,
}
")).
Eval vm_compute in ("<<<M612>>>" ++ check (runes_of_ascii "root
//	t
// @lengthOf(
packet int //x
{ @rightPad ( '0' ) match Packet as x_y_z
{ 3 //	t
:zchar // a // b
, ""1""
:
x //
, 42 : a1	, [ """ ++ [233]%N ++ runes_of_ascii "t" ++ [233]%N ++ runes_of_ascii """ ]:	matchKey
    ,42: x_y_z
[ ""a\""b"",
    7	, // packet A { u8 x, }
""it's"" ,
    // c
    007	, ""a\""b"" ] :
    Foo
    ,
    },} // c
MetaData Foo { u32 chars//	t
`it's` //
,u32
    falsey
, Header
trueish
,
    tag As, } options { asx=u16
    ; }
packet
    options1
{repeat char[255  ] charz , }options { }")).
Eval vm_compute in ("<<<M458>>>" ++ check (runes_of_ascii "packet tag {match asx as u128 {""1"" : T 0123456789 // trailing space 
:rootA ,
    7 : i8i8	,
65535 : // `tick` ""quote"" 'q'
chars , }
    ,
zchar[
7 ] options1 , zchar[255]
asx, @leftPad( '0' ) stringy
`" ++ [28040; 24687; 31867; 22411]%N ++ runes_of_ascii "`
,  u64 zchar
@calculatedFrom(
    // c
    ""\n"" )
, len
// `tick` ""quote"" 'q'
// c
@calculatedFrom( ""// no comment""
)  `" ++ [28040; 24687; 31867; 22411]%N ++ runes_of_ascii "`//	t
, @leftPad(  '0' ) tag @lengthOf(	calculatedFrom ) , repeat
    //
    uint64 metadata`a\`,}
")).
Eval vm_compute in ("<<<M3727>>>" ++ check (runes_of_ascii "// `tick` ""quote"" 'q'

	packet i8i8 { // a // b

	@rightPad (
	)
body  @calculatedFrom( // a // b
	  ""\" ++ [233]%N ++ runes_of_ascii """ 
)	, i64

    Header
@lengthOf(trueish
	)  ,
@tag(

    65535	) @lengthOf( tag//
		)@tag(
255
	)
repeat	float32

    repeatCount 
,	char[1	]  rootA`u8 x,` ,
    @lengthOf(
_x )

@lengthOf(
	Header  )
    @calculatedFrom(""""
    )
	//x

	// trailing space 
    i8i8	pack  // trailing space 
    ,
	} ")).
Eval vm_compute in ("<<<M4255>>>" ++ check (runes_of_ascii "  packet

pack // @lengthOf(
	{repeat As  // " ++ [27880; 37322]%N ++ runes_of_ascii "
	{

    char[

65535
]

    u128	// a // b
	@lengthOf(
a1	)`tab	here` , i8  rootA `crlf
line`,

match	//x
	i8i8 as zchar  { [
""1"" ]
: tag
    ,

""a	b"" :

u8x	""a\""b"":
calculatedFrom ,
}
    ,
    match leftPad 	 //	t
  as  Pad
{ 
  // `tick` ""quote"" 'q'
  // trailing space 
	65535	: options1
}

,
	},u32
    crc 
,
zchar[ 
00
]
roots,}
")).
Eval vm_compute in ("<<<M94>>>" ++ check (runes_of_ascii "options { o =
    ' ' ; lengthOf= ""it's"" string_= """ ++ [28040; 24687]%N ++ runes_of_ascii """	;i8i8 // c
=  uint32 } packet Logon{	Pad	@lengthOf(
    stringy),@rightPad (	'\x00'
) Header stringy `a\` , T { match	a1
    as Logon{  42 :
chars }	, },stringy {
zchar[ 7 // trailing space 
] x_y_z, }, uint8x BodyLength
, repeat zchar ,	@tag( 7 ) repeat // packet A { u8 x, }
u64 u128`" ++ [28040; 24687; 31867; 22411]%N ++ runes_of_ascii "` // packet A { u8 x, }
, }")).
Eval vm_compute in ("<<<M4138>>>" ++ check (runes_of_ascii "packet u128 {
}

// " ++ [128512]%N ++ runes_of_ascii " emoji
root packet rootA {
    @tag(007)
    match uint8x as crc {
        ""a\""b"" : charz,
    },
    // packet A { u8 x, }
    uint64 repeatCount,
    @tag(007)
    uint8 f32a,
    @rightPad(' ')
    @leftPad('\x00')
    @lengthOf(stringy)
    T @lengthOf(charz),
    metadata matchKey,
}

packet msg_type {
    stringy zchar `" ++ [28040; 24687; 31867; 22411]%N ++ runes_of_ascii "`,
}")).
Eval vm_compute in ("<<<M4139>>>" ++ check (runes_of_ascii "root

    packet Header	{@calculatedFrom(
""a\""b""  )

o
	MetaDataX
`{ , }`,
float , repeat 
u8
string_ , repeat
a1
	{
repeat
	zchar[ 3/// triple

	]	a1 , repeat

Foo	// " ++ [27880; 37322]%N ++ runes_of_ascii "
  	u,
}

,}
MetaData	uint8x
{ }MetaData

int{
	zchar[	4294967296 
]

    roots ,
	}

    MetaData
    i64_{ zchar[	/// triple
	1
	]
	falsey 
`// not a comment`	, 
}")).
Eval vm_compute in ("<<<M3825>>>" ++ check (runes_of_ascii "packet string_ {
    trueish {
        options1 @lengthOf(Z9_) `// not a comment`,// c
        _x @lengthOf(u128),/// triple
        match packetx as charz {
            [1, 3, 10, ""a\\""] : lengthOf,
            """ ++ [28040; 24687]%N ++ runes_of_ascii """ : float,
            ""CRC32"" : calculatedFrom,
            """ ++ [128512]%N ++ runes_of_ascii """ : tag,
            00 : rootA,
        },
    },
}")).
Eval vm_compute in ("<<<M4093>>>" ++ check (runes_of_ascii "  packet
    trueish { repeat
	As ,
    repeat
uint8
repeatCount,
    @tag( 
255 )

    match  a1  as 
x_y_z	{
3:

i8i8
    ,

""abc""

    :

    Z9_

,007

    /// triple
//
	  : 
leftPad

65535

:
x_y_z
""a\""b""  : 
matchKey ,
}
,

@rightPad

    (' ') 	 // `tick` ""quote"" 'q'
	string packetx ,	// " ++ [128512]%N ++ runes_of_ascii " emoji
} ")).
Eval vm_compute in ("<<<M2038>>>" ++ check (runes_of_ascii "MetaData
    u { }  options {
// c
// @lengthOf(
float = int8 ;rootA =false ; As =	int16 // `tick` ""quote"" 'q'
repeatCount
    // trailing space 
    =
    int16
; u8x =
    //	t
    '\x00' ; } options	{
    repeatCount
= 0
u128
    //
    = false ; i64_
// trailing space 
// `tick` ""quote"" 'q'
int16 '0' ; //	t
}
")).
Eval vm_compute in ("<<<M2026>>>" ++ check (runes_of_ascii "MetaData
    u { }  options {
// c
// @lengthOf(
float = int8 ;rootA =false ; As =	int16 // `tick` ""quote"" 'q'
repeatCount
    // trailing space 
    =
    int16
; u8x =
    //	t
    '\x00' ; } options	{
    repeatCount
= 0
u128
    //
    = false ; ; i64_
// trailing space 
// `tick` ""quote"" 'q'
= '0' ; //	t
}
")).
Eval vm_compute in ("<<<M1867>>>" ++ check (runes_of_ascii "MetaData
    u } {  options {
// c
// @lengthOf(
float = int8 ;rootA =false ; As =	int16 // `tick` ""quote"" 'q'
repeatCount
    // trailing space 
    =
    int16
; u8x =
    //	t
    '\x00' ; } options	{
    repeatCount
= 0
u128
    //
    = false ; i64_
// trailing space 
// `tick` ""quote"" 'q'
= '0' ; //	t
}
")).
Eval vm_compute in ("<<<M2017>>>" ++ check (runes_of_ascii "MetaData
    u { }  options {
// c
// @lengthOf(
float = int8 ;rootA =false ; As =	int16 // `tick` ""quote"" 'q'
repeatCount
    // trailing space 
    =
    int16
; u8x =
    //	t
    '\x00' ; } options	{
    repeatCount
= 0
u128
    //
    false = ; i64_
// trailing space 
// `tick` ""quote"" 'q'
= '0' ; //	t
}
")).
Eval vm_compute in ("<<<M2035>>>" ++ check (runes_of_ascii "MetaData
    u { }  options {
// c
// @lengthOf(
float = int8 ;rootA =false ; As =	int16 // `tick` ""quote"" 'q'
repeatCount
    // trailing space 
    =
    int16
; u8x =
    //	t
    '\x00' ; } options	{
    repeatCount
= 0
u128
    //
    = false ; i64_
// trailing space 
// `tick` ""quote"" 'q'
 '0' ; //	t
}
")).
Eval vm_compute in ("<<<M502>>>" ++ check (runes_of_ascii "
root  packet BodyLength {
    match
matchKey as
    As  { 255: Foo
//
//x
,  10 :
len , // packet A { u8 x, }
""" ++ [233]%N ++ runes_of_ascii "t" ++ [233]%N ++ runes_of_ascii """
    :tag , }
    //	t
    , packetx A , @calculatedFrom(
""" ++ [233]%N ++ runes_of_ascii "t" ++ [233]%N ++ runes_of_ascii """) Logon `crlf
line` // c
, char[]
charz
    `a\` , zchar[
    //x
    42 ] chars , }
    MetaData charz
{ }
packet zchar {}")).
Eval vm_compute in ("<<<M2044>>>" ++ check (runes_of_ascii "MetaData
    u { }  options {
// c
// @lengthOf(
float = int8 ;rootA =false ; As =	int16 // `tick` ""quote"" 'q'
repeatCount
    // trailing space 
    =
    int16
; u8x =
    //	t
    '\x00' ; } options	{
    repeatCount
= 0
u128
    //
    = false ; i64_
// trailing space 
// `tick` ""quote"" 'q'
=")).
Eval vm_compute in ("<<<M4167>>>" ++ check (runes_of_ascii "
/// triple
		root
    packet Logon	{

@calculatedFrom( 
""CRC32"" 
)uint8x{roots	pack `line1
line2`,
    }
, 
string 
u

,	}packet

body
	{

    uint64 Logon
,
    }

root
packet

lengthOf

{  } packet A{
	u32
    pack // `tick` ""quote"" 'q'
	@calculatedFrom( 	 // c

	""" ++ [128512]%N ++ runes_of_ascii """
	)
    ,}
")).
Eval vm_compute in ("<<<M916>>>" ++ check (runes_of_ascii "root packet lengthOf { int32 body@lengthOf( Z9_
)
    `// not a comment` ,}
options { charz /// triple
=
    true }
    packet
asx { @tag(
// `tick` ""quote"" 'q'
// trailing space 
255 ) msg_type
// trailing space 
// `tick` ""quote"" 'q'
{ repeat
crc	charz
    //
    ,} , }")).
Eval vm_compute in ("<<<M3819>>>" ++ check (runes_of_ascii "options

{i64_ =

""\n""
;  BodyLength= float64
    i64_

    =
    false
	;

    }	MetaData
	Packet{ uint16

A	`u8 x,`
	, zchar[

    007  ]i64_

    ,char[

007	]
	chars, float64 
x_y_z
	, MetaDataX
stringy 
`// not a comment`	, 
}

MetaData msg_type
{}

")).
Eval vm_compute in ("<<<M1503>>>" ++ check (runes_of_ascii "packet
//	t
// trailing space 
_x {
// packet A { u8 x, }
// c
char[ char[
3
    ] u8x @lengthOf(
u8x ) , @calculatedFrom(""" ++ [128512]%N ++ runes_of_ascii """ // @lengthOf(
)
i16	Foo
@lengthOf(	string_
    )`doc`	, repeat	i64 metadata , @lengthOf( string_
) i8 // c
u  `line1
line2`	,
}
")).
Eval vm_compute in ("<<<M1555>>>" ++ check (runes_of_ascii "packet
//	t
// trailing space 
_x {
// packet A { u8 x, }
// c
char[
3
    ] u8x @lengthOf(
u8x ) , @calculatedFrom(""" ++ [128512]%N ++ runes_of_ascii """ // @lengthOf(
i16
i16	Foo
@lengthOf(	string_
    )`doc`	, repeat	i64 metadata , @lengthOf( string_
) i8 // c
u  `line1
line2`	,
}
")).
Eval vm_compute in ("<<<M636>>>" ++ check (runes_of_ascii "packet// packet A { u8 x, }
As { @leftPad ( '\x00'
    // @lengthOf(
    )
repeat
// " ++ [128512]%N ++ runes_of_ascii " emoji
//
pack,
    } MetaData //x
leftPad { uint8	tag ,
i16 BodyLength /// triple
`{ , }` , zchar[ 1	] u `say ""hi""`, u16 charz ,
u32 packetx
,
rootA//
body ,
}")).
Eval vm_compute in ("<<<M1619>>>" ++ check (runes_of_ascii "packet
//	t
// trailing space 
_x {
// packet A { u8 x, }
// c
char[
3
    ] u8x @lengthOf(
u8x ) , @calculatedFrom(""" ++ [128512]%N ++ runes_of_ascii """ // @lengthOf(
)
i16	Foo
@lengthOf(	string_
    )`doc`	, repeat	i64 metadata , @lengthOf( )
string_ i8 // c
u  `line1
line2`	,
}
")).
Eval vm_compute in ("<<<M1627>>>" ++ check (runes_of_ascii "packet
//	t
// trailing space 
_x {
// packet A { u8 x, }
// c
char[
3
    ] u8x @lengthOf(
u8x ) , @calculatedFrom(""" ++ [128512]%N ++ runes_of_ascii """ // @lengthOf(
)
i16	Foo
@lengthOf(	string_
    )`doc`	, repeat	i64 metadata , @lengthOf( string_
)  // c
u  `line1
line2`	,
}
")).
Eval vm_compute in ("<<<M4482>>>" ++ check (runes_of_ascii "MetaData BodyLength {
    zchar[00] a1,
    i64 A `" ++ [233]%N ++ runes_of_ascii "`,
    int8 i8i8 `doc`,
    char[1] Header ``,
}

options {
    asx = false;
    T = ""CRC32""
    u8x = ' '
    float = 3
}

packet o {
    @rightPad('0')
    calculatedFrom `crlf
    line`,
}")).
Eval vm_compute in ("<<<M720>>>" ++ check (runes_of_ascii "options {metadata
    =
char[
    10]	tag= 007 ; stringy =0 ;x_y_z
= true // a // b
; }  root	packet o // " ++ [27880; 37322]%N ++ runes_of_ascii "
{ @tag( // a // b
3 ) @leftPad
(
'0' )
@tag(
// packet A { u8 x, }
// a // b
00 ) i64_  @lengthOf(
    //
    falsey	)	, }
")).
Eval vm_compute in ("<<<M3426>>>" ++ check (runes_of_ascii "// top
packet // c0a
  // c0b
o { repeat
    // c3
Logon uint8x // c5
,
    // c6
} options // c8
{ // c9
asx
    // c10
= // c11a
  // c11b
zchar[ // c12
3
    // c13
] stringy // c15
=
    // c16
'\x00' // c17
}
    // c18
")).
Eval vm_compute in ("<<<M237>>>" ++ check (runes_of_ascii "packet Foo //	t
{ match
    // a // b
    i64_ //x
as
x_y_z {65535:  BodyLength
,
[3, ""CRC32"" ]
:u
, 255:
T ,[ ""x y""]	:leftPad ,0123456789: As ,
    } ,
    zchar[	1
    ]int
, } packet
float
    { uint16
Packet	,}")).
Eval vm_compute in ("<<<M1817>>>" ++ check (runes_of_ascii "options { trueish = ""`tick`"" ; string_= """ ++ [233]%N ++ runes_of_ascii "t" ++ [233]%N ++ runes_of_ascii """
    // c
    } root
    packet body { stringy @calculatedFrom(
""a	b"" ) `line1
line2` , }
packet Logon {
    @leftPad(
    ' ' ) //	t
u16 string_ string_ `u8 x,` ,
}
")).
Eval vm_compute in ("<<<M1802>>>" ++ check (runes_of_ascii "options { trueish = ""`tick`"" ; string_= """ ++ [233]%N ++ runes_of_ascii "t" ++ [233]%N ++ runes_of_ascii """
    // c
    } root
    packet body { stringy @calculatedFrom(
""a	b"" ) `line1
line2` , }
packet Logon {
    @leftPad(
    ' ' ' ' ) //	t
u16 string_ `u8 x,` ,
}
")).
Eval vm_compute in ("<<<M1844>>>" ++ check (runes_of_ascii "options { trueish = ""`tick`"" ; string_= """ ++ [233]%N ++ runes_of_ascii "t" ++ [233]%N ++ runes_of_ascii """
    // c
    } root
    packet body { stringy @calculatedFrom(
""a	b"" ) `line1
line2` , }
packet Logon {
    @leftPad(
    ' ' ) //	t
u16 string_ `u8 x,` ,
''}
")).
Eval vm_compute in ("<<<M1723>>>" ++ check (runes_of_ascii "options { trueish = ""`tick`"" ; string_= """ ++ [233]%N ++ runes_of_ascii "t" ++ [233]%N ++ runes_of_ascii """
    // c
    } packet
    root body { stringy @calculatedFrom(
""a	b"" ) `line1
line2` , }
packet Logon {
    @leftPad(
    ' ' ) //	t
u16 string_ `u8 x,` ,
}
")).
Eval vm_compute in ("<<<M1696>>>" ++ check (runes_of_ascii "options { trueish = ""`tick`""  string_= """ ++ [233]%N ++ runes_of_ascii "t" ++ [233]%N ++ runes_of_ascii """
    // c
    } root
    packet body { stringy @calculatedFrom(
""a	b"" ) `line1
line2` , }
packet Logon {
    @leftPad(
    ' ' ) //	t
u16 string_ `u8 x,` ,
}
")).
Eval vm_compute in ("<<<M1711>>>" ++ check (runes_of_ascii "options { trueish = ""`tick`"" ; string_= 
    // c
    } root
    packet body { stringy @calculatedFrom(
""a	b"" ) `line1
line2` , }
packet Logon {
    @leftPad(
    ' ' ) //	t
u16 string_ `u8 x,` ,
}
")).
Eval vm_compute in ("<<<M4377>>>" ++ check (runes_of_ascii "root
packet

u128

{ char[
7
    ] tag
@calculatedFrom(""\" ++ [233]%N ++ runes_of_ascii """
    )  // " ++ [128512]%N ++ runes_of_ascii " emoji
		`" ++ [233]%N ++ runes_of_ascii "`,
@rightPad(	)

packetx, 
@lengthOf(

o
    )
	lengthOf
@lengthOf( float

    ) 
`// not a comment`
,
    }
")).
Eval vm_compute in ("<<<M389>>>" ++ check (runes_of_ascii "options
{ u128// packet A { u8 x, }
=
    ""x y""
    } packet // a // b
rootA// @lengthOf(
{
    // " ++ [27880; 37322]%N ++ runes_of_ascii "
    }packet metadata {@tag(007
    // " ++ [128512]%N ++ runes_of_ascii " emoji
    )
repeat u8
A
`// not a comment`, }
")).
Eval vm_compute in ("<<<M762>>>" ++ check (runes_of_ascii "packet Pad // `tick` ""quote"" 'q'
{ }
root
    packet  f32a { // c
@calculatedFrom( ""it's"" )@tag( 255 ) match roots as trueish {
7: tag  ,
    } ,
repeat zchar[0
]  repeatCount
, }
")).
Eval vm_compute in ("<<<M341>>>" ++ check (runes_of_ascii "packet A
    { @rightPad (' '
    )/// triple
@calculatedFrom(""" ++ [233]%N ++ runes_of_ascii "t" ++ [233]%N ++ runes_of_ascii """	) int16
    crc
`tab	here` // " ++ [128512]%N ++ runes_of_ascii " emoji
, }  MetaData x
// `tick` ""quote"" 'q'
// " ++ [27880; 37322]%N ++ runes_of_ascii "
{
}
// trailing space 
")).
Eval vm_compute in ("<<<M1969>>>" ++ check (runes_of_ascii "MetaData
    u { }  options {
// c
// @lengthOf(
float = int8 ;rootA =false ; As =	int16 // `tick` ""quote"" 'q'
repeatCount
    // trailing space 
    =
    int16
; u8x")).
Eval vm_compute in ("<<<M1007>>>" ++ check (runes_of_ascii "options  { x_y_z
= uint32
    ; x
= false ;len
= 0//
; }
root packet trueish {
    // `tick` ""quote"" 'q'
    @tag( 42// packet A { u8 x, }
) matchKey string_,
}
")).
Eval vm_compute in ("<<<M2160>>>" ++ check (runes_of_ascii "options{
_x
= true
} options
{ o	= /// triple
false
    ; chars
= ""\n"" } root packet packet	Pad
/// triple
// packet A { u8 x, }
{	chars
    // a // b
    ,}")).
Eval vm_compute in ("<<<M2388>>>" ++ check (runes_of_ascii "// c
packet x { @lengthOf( metadata ) repeat lengthOf
,a1{
trueish	,// c
repeat//	t
MetaDataX , } , zchar[
    42	true rootA // `tick` ""quote"" 'q'
,
    }
")).
Eval vm_compute in ("<<<M2342>>>" ++ check (runes_of_ascii "// c
packet x { @lengthOf( metadata ) repeat lengthOf
,a1${
trueish	,// c
repeat//	t
MetaDataX , } , zchar[
    42	] rootA // `tick` ""quote"" 'q'
,
    }
")).
Eval vm_compute in ("<<<M2363>>>" ++ check (runes_of_ascii "// c
packet x { @lengthOf( metadata ) repeat lengthOf
a1,{
trueish	,// c
repeat//	t
MetaDataX , } , zchar[
    42	] rootA // `tick` ""quote"" 'q'
,
    }
")).
Eval vm_compute in ("<<<M2395>>>" ++ check (runes_of_ascii "// c
packet x { @lengthOf( metadata ) repeat lengthOf
a1{
trueish	,// c
repeat//	t
MetaDataX , } , zchar[
    42	] rootA // `tick` ""quote"" 'q'
,
    }
")).
Eval vm_compute in ("<<<M2181>>>" ++ check (runes_of_ascii "options{
_x
= true
} options
{ o	= /// triple
false
    ; chars
= ""\n"" } root packet	Pad
/// triple
// packet A { u8 x, }
{	chars
    // a // b
    },")).
Eval vm_compute in ("<<<M3783>>>" ++ check (runes_of_ascii "
root packet
matchKey{

zchar[3

    ]	pack  @calculatedFrom(

    ""a	b"" )
    `doc`

,}	options
{ } MetaData A
{ int8

msg_type// c
    ,
    }")).
Eval vm_compute in ("<<<M623>>>" ++ check (runes_of_ascii "packet x_y_z {
@lengthOf(
roots
) u32  Pad `{ , }` ,
    // packet A { u8 x, }
    repeat body{ repeat
    body roots `line1
line2` , }
    ,
}

")).
Eval vm_compute in ("<<<M743>>>" ++ check (runes_of_ascii "
MetaData
    A{ calculatedFrom
falsey `line1
line2` , //x
char[ 255 ]T
    `
` , float32 Logon ,
    stringy
i8i8 ,
char[]rootA
`{ , }` , }
")).
Eval vm_compute in ("<<<M565>>>" ++ check (runes_of_ascii "
packet T {
@leftPad ( )
@calculatedFrom(""" ++ [233]%N ++ runes_of_ascii "t" ++ [233]%N ++ runes_of_ascii """ ) msg_type // trailing space 
@lengthOf( i8i8
)`a\`
    ,
// `tick` ""quote"" 'q'
// " ++ [128512]%N ++ runes_of_ascii " emoji
}")).
Eval vm_compute in ("<<<M3925>>>" ++ check (runes_of_ascii "MetaData matchKey {
    u calculatedFrom,
}

root packet u128 {
    string BodyLength @lengthOf(u8x),
    int @lengthOf(f32a) `" ++ [28040; 24687; 31867; 22411]%N ++ runes_of_ascii "`,
}")).
Eval vm_compute in ("<<<M3838>>>" ++ check (runes_of_ascii "// top
packet Inner {
    u8 a,// c5
}

root packet P {
    // c10
    Inner ref_obj,// c13a
    // c13b
    u8 x,// c16a
}// c17")).
Eval vm_compute in ("<<<M254>>>" ++ check (runes_of_ascii "packet rootA {	}
// `tick` ""quote"" 'q'
/// triple
options  {stringy
    =
0123456789
;
T =42 ;
string_ = ""a\""b""
    ; }
//
")).
Eval vm_compute in ("<<<M1483>>>" ++ check (runes_of_ascii "
packet
    falsey { Header@calculatedFrom(""packet""  ) @tag , char[
    0123456789 ] packetx
    , } // `tick` ""quote"" 'q'")).
Eval vm_compute in ("<<<M3327>>>" ++ check (runes_of_ascii "root packet matchKey { zchar[ 3 ] pack
// c
@calculatedFrom( ""a	b"" ) `doc` , } options { } MetaData A { int8 msg_type , }")).
Eval vm_compute in ("<<<M4467>>>" ++ check (runes_of_ascii "packet A {
    Inner {
        u8 x `a
        b`,
        Deep {
            u8 y `a
            b`,
        },
    },
}")).
Eval vm_compute in ("<<<M1484>>>" ++ check (runes_of_ascii "
packet
    falsey { Header@calculatedFrom(""packet""  ) , char[
    0123456789 ] packetx
    , } // `tick` ""quote""? 'q'")).
Eval vm_compute in ("<<<M629>>>" ++ check (runes_of_ascii "
options
{stringy= 7
    ;
    float = 0 ;tag //	t
=	42
    charz =
char[ 00
    ] msg_type = ""CRC32"" } /// triple")).
Eval vm_compute in ("<<<M1049>>>" ++ check (runes_of_ascii "root
    packet u {
    @leftPad (	' '
    // packet A { u8 x, }
    ) char[	7 ] msg_type @lengthOf( Header) , }
")).
Eval vm_compute in ("<<<M904>>>" ++ check (runes_of_ascii "packet uint8x {
    repeat // c
repeatCount { Packet
@calculatedFrom( ""packet"" ) , } , // packet A { u8 x, }
}")).
Eval vm_compute in ("<<<M4540>>>" ++ check (runes_of_ascii "  packet
metadata

{
Logon 
{ A `" ++ [28040; 24687; 31867; 22411]%N ++ runes_of_ascii "`
    ,

tag o
    ,	// c
      } ,zchar len`// not a comment`
,	}

")).
Eval vm_compute in ("<<<M3186>>>" ++ check (runes_of_ascii "// top
root // c0
packet
    // c1
u128 // c2a
  // c2b
{
    // c3
chars
    // c4
`it's` , }
    // c7
")).
Eval vm_compute in ("<<<M3963>>>" ++ check (runes_of_ascii "MetaData	falsey {
//x
  //	t
    char[ /// triple
    65535
] 
Packet
	`{ , }`	, // @lengthOf(
}  //x
")).
Eval vm_compute in ("<<<M379>>>" ++ check (runes_of_ascii "options{zchar=	true
// c
/// triple
BodyLength  = char[]
; x// " ++ [27880; 37322]%N ++ runes_of_ascii "
=  char[007 ]
    ;} /// triple")).
Eval vm_compute in ("<<<M2989>>>" ++ check (runes_of_ascii "packet A {
  match k as n {
    [1, 22, 007, 4, 5, 66, 7, 8, 9, 10, 11, 12] : B
    2 : C
  },
}")).
Eval vm_compute in ("<<<M609>>>" ++ check (runes_of_ascii "packet float	{i64 u8x @lengthOf(
    //x
    leftPad ) // packet A { u8 x, }
`line1
line2`
,}")).
Eval vm_compute in ("<<<M2742>>>" ++ check (runes_of_ascii "zchar[ [ """" char[] match i32 @lengthOf( uint16 char[] @lengthOf( i64 @lengthOf( string int8")).
Eval vm_compute in ("<<<M2933>>>" ++ check (runes_of_ascii "packet A {
  match k as n {
    [""a"", ""bb"", 007, ""d"", ""e"", 66, ""g""] : B,
    2 : C
  },
}")).
Eval vm_compute in ("<<<M3295>>>" ++ check (runes_of_ascii "MetaData float { float64 charz `
` , } root packet chars { @rightPad ( // c
'0' ) Foo , }")).
Eval vm_compute in ("<<<M3506>>>" ++ check (runes_of_ascii "packet chars { } packet MetaDataX { @tag( 42 ) i16
// c
string_ , repeat x `say ""hi""` , }")).
Eval vm_compute in ("<<<M2746>>>" ++ check (runes_of_ascii "`// not a comment` true ' ' ; packet i8 int8 @calculatedFrom( string u32 = string char[]")).
Eval vm_compute in ("<<<M3832>>>" ++ check (runes_of_ascii "packet A {
    match k as n {
        [1, 22, 4, 5, ""c c""] : B,
        2 : C,
    },
}")).
Eval vm_compute in ("<<<M3213>>>" ++ check (runes_of_ascii "packet // c
metadata { Logon { A `" ++ [28040; 24687; 31867; 22411]%N ++ runes_of_ascii "` , tag o , } , zchar len `// not a comment` , }")).
Eval vm_compute in ("<<<M3245>>>" ++ check (runes_of_ascii "packet metadata { Logon { A `" ++ [28040; 24687; 31867; 22411]%N ++ runes_of_ascii "` , tag o , } , zchar len `// not a comment` , // c
}")).
Eval vm_compute in ("<<<M3433>>>" ++ check (runes_of_ascii "packet o { // c
repeat Logon uint8x , } options { asx = zchar[ 3 ] stringy = '\x00' }")).
Eval vm_compute in ("<<<M3530>>>" ++ check (runes_of_ascii "options {
    LittleEndian = true;
}
root packet P {
    repeat char cs,
    u8 x,
}
")).
Eval vm_compute in ("<<<M3393>>>" ++ check (runes_of_ascii "
// c
MetaData body { i64 pack `it's` , } packet stringy { int16 calculatedFrom , }")).
Eval vm_compute in ("<<<M3410>>>" ++ check (runes_of_ascii "MetaData body { i64 pack `it's` , } packet // c
stringy { int16 calculatedFrom , }")).
Eval vm_compute in ("<<<M2224>>>" ++ check (runes_of_ascii "options
{ } [ { BodyLength= u16 Header= f64 ; u128 =
    true
    ; } // a // b")).
Eval vm_compute in ("<<<M2924>>>" ++ check (runes_of_ascii "packet A {
  match k as n {
    [1, 22, 007, 4, 5, 66, 7] : B
    2 : C
  },
}")).
Eval vm_compute in ("<<<M2697>>>" ++ check (runes_of_ascii "( packet char[] { int32 ""`tick`"" i8 MetaData int64 zchar[ string char root")).
Eval vm_compute in ("<<<M882>>>" ++ check (runes_of_ascii "packet// " ++ [27880; 37322]%N ++ runes_of_ascii "
pack {
    //	t
    repeat zchar As
    , i16 roots ,
    }")).
Eval vm_compute in ("<<<M30>>>" ++ check (runes_of_ascii "MetaData
T {crc /// triple
u8x `say ""hi""` , } // `tick` ""quote"" 'q'")).
Eval vm_compute in ("<<<M3026>>>" ++ check (runes_of_ascii "packet A {
    B b `a

b`,
    B `a

b`,
    repeat B bs `a

b`,
}")).
Eval vm_compute in ("<<<M596>>>" ++ check (runes_of_ascii "packet falsey { @tag(
    1 ) repeat zchar[00
    ] tag,
    }
")).
Eval vm_compute in ("<<<M842>>>" ++ check (runes_of_ascii "  root packet crc{ string uint8x
//x
// " ++ [128512]%N ++ runes_of_ascii " emoji
`" ++ [233]%N ++ runes_of_ascii "` ,}
// " ++ [27880; 37322]%N ++ runes_of_ascii "
")).
Eval vm_compute in ("<<<M498>>>" ++ check (runes_of_ascii "options
{
//x
// c
} options
    {
Foo
    = ""`tick`"" }
")).
Eval vm_compute in ("<<<M3385>>>" ++ check (runes_of_ascii "packet x { @rightPad ( ) repeat roots Logon `doc` , // c
}")).
Eval vm_compute in ("<<<M3773>>>" ++ check (runes_of_ascii "MetaData
	charz
	{ 

//
  //	t
f32a

    stringy,
}")).
Eval vm_compute in ("<<<M3806>>>" ++ check (runes_of_ascii "packet A {
    u8 x `a
            b
          c`,
}")).
Eval vm_compute in ("<<<M616>>>" ++ check (runes_of_ascii "// packet A { u8 x, }
MetaData
    matchKey	{	}
")).
Eval vm_compute in ("<<<M3705>>>" ++ check (runes_of_ascii "
MetaData
M
{ u8
x `a
b`
,  T t 
`a
b`

,	} ")).
Eval vm_compute in ("<<<M2600>>>" ++ check (runes_of_ascii "packet A { repeat B { C { u8 x, }, D d, }, }")).
Eval vm_compute in ("<<<M4023>>>" ++ check (runes_of_ascii "options {
	Logon  
      //x
    =
' ';}

")).
Eval vm_compute in ("<<<M3194>>>" ++ check (runes_of_ascii "root packet u128
// c
{ chars `it's` , }")).
Eval vm_compute in ("<<<M2619>>>" ++ check (runes_of_ascii "packet A { match k as n { '0' : B }, }")).
Eval vm_compute in ("<<<M2821>>>" ++ check ([65533; 1912; 65533; 1; 65533; 21]%N ++ runes_of_ascii "TV" ++ [65533; 65533; 65533]%N ++ runes_of_ascii "'" ++ [65533]%N ++ runes_of_ascii "p_" ++ [22; 65533; 65533; 65533; 65533; 65533; 65533]%N ++ runes_of_ascii "T=%3" ++ [65533]%N ++ runes_of_ascii "ZHz" ++ [28; 22; 1]%N ++ runes_of_ascii "r" ++ [65533; 65533]%N)).
Eval vm_compute in ("<<<M4325>>>" ++ check (runes_of_ascii "packet u128 {
    zchar[00] f32a,
}")).
Eval vm_compute in ("<<<M2652>>>" ++ check (runes_of_ascii "MetaData M { u8 x @lengthOf(y), }")).
Eval vm_compute in ("<<<M3944>>>" ++ check (runes_of_ascii "packet A {
    u8 x `d" ++ [11]%N ++ runes_of_ascii "`,// c" ++ [11]%N ++ runes_of_ascii "
}")).
Eval vm_compute in ("<<<M3072>>>" ++ check (runes_of_ascii "packet A {
 u8 x `d" ++ [160]%N ++ runes_of_ascii "`, // c" ++ [160]%N ++ runes_of_ascii "
}")).
Eval vm_compute in ("<<<M1273>>>" ++ check (runes_of_ascii "packet
    repeatCount
{  }
")).
Eval vm_compute in ("<<<M3928>>>" ++ check (runes_of_ascii "packet u8x {
    int8 As,
}")).
Eval vm_compute in ("<<<M2757>>>" ++ check (runes_of_ascii "true int32 packet [ match")).
Eval vm_compute in ("<<<M4555>>>" ++ check (runes_of_ascii "

  // trailing space 
")).
Eval vm_compute in ("<<<M2648>>>" ++ check (runes_of_ascii "MetaData M { x y z, }")).
Eval vm_compute in ("<<<M4340>>>" ++ check (runes_of_ascii "
packet
	falsey { }")).
Eval vm_compute in ("<<<M3475>>>" ++ check (runes_of_ascii "MetaData o
// c
{ }")).
Eval vm_compute in ("<<<M3086>>>" ++ check (runes_of_ascii "// c" ++ [8192]%N ++ runes_of_ascii "
packet A {
}")).
Eval vm_compute in ("<<<M1690>>>" ++ check (runes_of_ascii "options { trueish")).
Eval vm_compute in ("<<<M348>>>" ++ check (runes_of_ascii "packet i64_ { }
")).
Eval vm_compute in ("<<<M2570>>>" ++ check (runes_of_ascii "packet A { x }")).
Eval vm_compute in ("<<<M4246>>>" ++ check (runes_of_ascii "

  // c" ++ [160]%N ++ runes_of_ascii "
 
")).
Eval vm_compute in ("<<<M2483>>>" ++ check (runes_of_ascii "@leftPadx")).
Eval vm_compute in ("<<<M2449>>>" ++ check (runes_of_ascii "trueish")).
Eval vm_compute in ("<<<M2805>>>" ++ check (runes_of_ascii "as f64")).
Eval vm_compute in ("<<<M3084>>>" ++ check (runes_of_ascii "// c" ++ [8192]%N)).
Eval vm_compute in ("<<<M2539>>>" ++ check (runes_of_ascii "A1b2")).
Eval vm_compute in ("<<<M2533>>>" ++ check (runes_of_ascii "a.b")).
Eval vm_compute in ("<<<M2538>>>" ++ check (runes_of_ascii "1_")).
