From FP Require Import Lexer Parser ShowPT Digest Formatter.
From Coq Require Import String List NArith.
Import ListNotations.
Open Scope string_scope.
Set Printing Width 100000000.
Set Printing Depth 100000000.
Definition show_fres (r : fres) : string :=
  match r with
  | FOk s => "OK:" ++ sh_escaped s ""
  | FErr s => "ERR:" ++ sh_escaped s ""
  | FPanic p => "PANIC:" ++ p
  end.
Definition check (rs : list rune) : string := digest (show_fres (format_res rs)).
Definition full (rs : list rune) : string := show_fres (format_res rs).
Eval vm_compute in ("<<<M3879>>>" ++ check (runes_of_ascii "packet f32a {
    @calculatedFrom(""packet"")
    @tag(00)
    @leftPad('0')
    rootA,
    @tag(65535)
    string roots @lengthOf(MetaDataX) `" ++ [233]%N ++ runes_of_ascii "`,
    @rightPad()
    zchar[10] matchKey @lengthOf(float),
    @rightPad()
    roots MetaDataX,
    u128,// c
    match len as BodyLength {
        """ ++ [128512]%N ++ runes_of_ascii """ : float,
        [
            4294967296, 00, 0123456789, ""`tick`"", ""it's"",
            ""\n"", 65535, 7
        ] : calculatedFrom,
        [""packet"", 007, ""\" ++ [233]%N ++ runes_of_ascii """] : _x,
        [""" ++ [128512]%N ++ runes_of_ascii """, ""a\""b"", 0123456789] : _x,
        65535 : As,
        255 : stringy,
    },
    calculatedFrom {
        char[] matchKey @calculatedFrom(""" ++ [128512]%N ++ runes_of_ascii """),
        u32 u8x @lengthOf(i8i8),
        f32a options1 `line1
                line2`,
        float64 rootA,
        //	t
        //	t
    },
    @tag(0)
    @lengthOf(Z9_)
    T Foo `" ++ [233]%N ++ runes_of_ascii "`,
    match T as Packet {
        3 : u8x,
        4294967296 : matchKey,
        """ ++ [233]%N ++ runes_of_ascii "t" ++ [233]%N ++ runes_of_ascii """ : Foo,
        ""a\""b"" : repeatCount,
        7 : stringy,
    },
    @leftPad('\x00')
    repeat pack,
}

packet x {
    @lengthOf(falsey)
    repeat int32 a1,
    @leftPad()
    repeat f32a,
    match Foo as calculatedFrom {
        ""x y"" : calculatedFrom,
        7 : len,
        ""abc"" : charz,
    },
    uint8x,
    @lengthOf(o)
    // " ++ [27880; 37322]%N ++ runes_of_ascii "
    repeat string_ {
        zchar[7] Packet @calculatedFrom(""x y""),
        repeat string charz,
        float64 _x @calculatedFrom(""1""),
    },
    crc,
    char[65535] metadata @calculatedFrom(""\n"") `" ++ [28040; 24687; 31867; 22411]%N ++ runes_of_ascii "`,
    repeat uint64 msg_type `{ , }`,
    char[1] charz,
    @rightPad('\x00')
    repeat i32 o `crlf
        line`,
}

MetaData i8i8 {
    rootA packetx `doc`,
    x As,
}//

root packet u128 {
}

packet falsey {
    u @lengthOf(i8i8),
    @lengthOf(u)
    f32 Header,
    @calculatedFrom(""`tick`"")
    stringy @calculatedFrom(""" ++ [233]%N ++ runes_of_ascii "t" ++ [233]%N ++ runes_of_ascii """) `two words`,
    char[65535] string_ @lengthOf(lengthOf),
    Pad u128,
    Packet `
        `,// `tick` ""quote"" 'q'
    @calculatedFrom(""abc"")
    char[00] roots `line1
        line2`,
    @tag(7)
    char[] trueish @calculatedFrom(""\n""),
    @calculatedFrom(""packet"")
    @lengthOf(As)
    char[3] charz @lengthOf(options1),
    u32 _x @calculatedFrom(""a\\"") `u8 x,`,
}")).
Eval vm_compute in ("<<<M3713>>>" ++ check (runes_of_ascii "packet 
T {@lengthOf(
    Foo
	) @tag(

    10	)

@lengthOf(
rootA

    )

chars  `it's`,
	repeat char
    roots //	t

, 
@tag( 
0
)  match charz 
as leftPad

    { 
0
    : tag  ,
	}, Z9_ // trailing space 
u128,
int32
int

@calculatedFrom(

""\n""	)
, @lengthOf(
	int
)
    Z9_ 

// " ++ [27880; 37322]%N ++ runes_of_ascii "
  {

    repeat
char[]	calculatedFrom  `crlf
line` ,zchar[	0

]
o
@calculatedFrom(""\" ++ [233]%N ++ runes_of_ascii """) , 
u8x
    {
    _x
,  // @lengthOf(
  zchar[ 3
] stringy

@lengthOf(

    T
)	//	t
	, 
// trailing space 
	uint8
	body  , char[]
falsey
// `tick` ""quote"" 'q'
  // @lengthOf(
    @calculatedFrom(

    ""// no comment""
    )  `" ++ [233]%N ++ runes_of_ascii "`
    ,	/// triple
      }  ,
}
    ,
	@tag(

    1)@calculatedFrom( ""a\\""  )

    // c
  @rightPad (
'0'
	) i32
    tag 
@calculatedFrom(
""a\""b"" 
)	`crlf
line`	, match	BodyLength

as  f32a 
{	[ 3 , ""`tick`""

    ,  ""`tick`""
,

    007
    ,""1""
, 
65535 // " ++ [128512]%N ++ runes_of_ascii " emoji

	,  //	t
	1
    ,
	0	]	: Z9_  , 
[  ""CRC32""	,
    ""a\\"" ] :
chars

    ,  ""a\""b""  : roots, 1 : f32a
	,	// " ++ [27880; 37322]%N ++ runes_of_ascii "
  	}	,
trueish { 
//
    	/// triple

  zchar
{ match
Pad

as
tag
{
    [
0123456789,00

, 7	,""a	b"",	// @lengthOf(
		""CRC32""
    ]	:
    options1
	, 
      // @lengthOf(
    } ,
    pack {zchar[

    10]chars
, }  ,

u `crlf
line`	,

repeat// " ++ [27880; 37322]%N ++ runes_of_ascii "
    int32 _x

`two words`
	,

}  ,

    }
,	// trailing space 
		falsey  As
, } options {
	falsey	// " ++ [128512]%N ++ runes_of_ascii " emoji
    	= ""abc"" 
;
Foo =false

    ;} root
	packet
    A
{ @lengthOf(
uint8x
	)

match u8x as
	msg_type	{
[ 
007 ,00
	] :
    u128,  [
    255

    ,// a // b
    	""{,}""

, 10 
	    // " ++ [128512]%N ++ runes_of_ascii " emoji
// " ++ [27880; 37322]%N ++ runes_of_ascii "

  ,
""// no comment""

,
    """" 
,

""" ++ [128512]%N ++ runes_of_ascii """ ]
	: T , 255:
	string_,

""`tick`""

    :

As},}
MetaData chars	{
	char[ 65535
	] roots  ,
	i64

    u128
,

    char[
42 
] pack 	 // " ++ [128512]%N ++ runes_of_ascii " emoji
    ,
    } //x")).
Eval vm_compute in ("<<<M4080>>>" ++ check (runes_of_ascii "packet Packet {
    @leftPad(' ')
    repeat As {
        repeatCount @calculatedFrom(""" ++ [28040; 24687]%N ++ runes_of_ascii """),
        repeat pack {
            /// triple
            x {
                match As as uint8x {
                    [
                        ""1"", ""\" ++ [233]%N ++ runes_of_ascii """, 00, ""it's"", ""a\""b"",
                        ""\" ++ [233]%N ++ runes_of_ascii """
                    ] : pack,
                    [
                        ""a\""b"", """ ++ [233]%N ++ runes_of_ascii "t" ++ [233]%N ++ runes_of_ascii """, 65535, ""a	b"", ""`tick`"",
                        ""\n""
                    ] : As,
                    0123456789 : float,
                    /// triple
                    ""a	b"" : x_y_z,
                    [""abc""] : stringy,
                    // trailing space 
                },
                f64 MetaDataX,
                zchar[0123456789] charz,
            },
            crc {
                char[] x_y_z `
                `,
                match Z9_ as i8i8 {
                    00 : charz,
                },
            },
            i8 _x,
            repeat falsey {
                // `tick` ""quote"" 'q'
                char[65535] Packet @calculatedFrom(""x y"") `line1
                line2`,
            },
        },
        f32a MetaDataX `" ++ [233]%N ++ runes_of_ascii "`,
        repeat matchKey {
            int32 int `crlf
            line`,
        },
    },
    float {
        string As `// not a comment`,
        As,
        stringy,
    },
    @tag(00)
    Foo,
    repeat int16 Z9_,
    @lengthOf(u8x)
    u8x {
        repeat uint64 asx,
        // packet A { u8 x, }
        //
        repeat int ``,
        char[1] uint8x @calculatedFrom(""\" ++ [233]%N ++ runes_of_ascii """),
    },
    x,
}")).
Eval vm_compute in ("<<<M469>>>" ++ check (runes_of_ascii "root
    packet Header { /// triple
repeat// " ++ [128512]%N ++ runes_of_ascii " emoji
int64 _x
`crlf
line`//x
, int16 leftPad , @rightPad( ) uint64 Packet @calculatedFrom( ""abc"" ) `doc` , @rightPad
    (
    '0') uint8x
{ u8 Logon
    , repeat x_y_z	{	a1 Header `it's`,
    char[0  ]
    /// triple
    pack
// @lengthOf(
// trailing space 
@calculatedFrom(
    ""a	b""	) `line1
line2` ,
o @lengthOf( Header
    ) `tab	here`
    ,
} , rootA zchar ,u128 , } ,@lengthOf( // trailing space 
string_ )
    //	t
    match Foo as calculatedFrom { 0123456789: chars ,007 : string_
    ,[
    ""\n"", 4294967296 ] :  leftPad ,""\n"" : u , }, f64 packetx `
` // c
,	}
    packet o
    {@rightPad// trailing space 
(
) // " ++ [128512]%N ++ runes_of_ascii " emoji
repeat
    chars `it's`
// @lengthOf(
// `tick` ""quote"" 'q'
,
    } MetaData
A
// trailing space 
// c
{ // c
uint64 i64_ `" ++ [233]%N ++ runes_of_ascii "`,  } root packet	int
    { @tag(
10
) //x
repeat a1 body  , @lengthOf( options1// packet A { u8 x, }
) falsey
    //
    { repeat zchar[ 0
    ]
    // c
    i64_ ,repeat u
{ char[42 ] u8x
@calculatedFrom( ""a\""b"") ,char[ 255 ] lengthOf @lengthOf( body
)
    `u8 x,`	, },repeat
    pack {
    trueish body
`u8 x,`,
match Logon as charz { [ 7] : x_y_z """ ++ [233]%N ++ runes_of_ascii "t" ++ [233]%N ++ runes_of_ascii """ : int ,
""abc"" : u ,
    42 : // trailing space 
metadata, 10 : leftPad , }
    ,//x
char[ 10
]trueish `tab	here` ,} ,
}, }
// @lengthOf(
// " ++ [27880; 37322]%N ++ runes_of_ascii "
options
    //x
    { rootA = ""`tick`"" As
    =
7 ;}
")).
Eval vm_compute in ("<<<M1389>>>" ++ check (runes_of_ascii "options {
	StringPrefixLenType = u16;
	ArrayPrefixLenType = u16;
}

packet SampleBinary {
    uint16 MsgType `" ++ [28040; 24687; 31867; 22411]%N ++ runes_of_ascii "`,
    u16 BodyLenght @lengthOf(Body) `" ++ [28040; 24687; 20307; 38271; 24230]%N ++ runes_of_ascii "`,
    match MsgType as Body {
        1 : Logon,
        2 : Logout,
        3 : Heartbeat,
        4 : RiskControlRequest,
        5 : RiskControlResponse,
    },
        @calculatedFrom(""CRC32"")
    u32 Ckecksum `" ++ [26657; 39564; 21644]%N ++ runes_of_ascii "`,
}

packet Logon {
     @leftPad('0')
    char[10] UserName `" ++ [29992; 25143; 21517]%N ++ runes_of_ascii "`,
    string Password `" ++ [23494; 30721]%N ++ runes_of_ascii "`,
    uint64 ClientId `" ++ [23458; 25143; 31471]%N ++ runes_of_ascii "ID`,
    u16 HeartbeatInterval `" ++ [24515; 36339; 38388; 38548]%N ++ runes_of_ascii "`,
}

packet Logout {
      @rightPad('0')
    char[10] UserName `" ++ [29992; 25143; 21517]%N ++ runes_of_ascii "`,
    uint64 ClientId `" ++ [23458; 25143; 31471]%N ++ runes_of_ascii "ID`,
}

packet Heartbeat {
}

packet RiskControlRequest {
    string UniqueOrderId `" ++ [21807; 19968; 35746; 21333; 21495]%N ++ runes_of_ascii "`,
    char[16] ClOrdID `" ++ [23458; 25143; 35746; 21333; 21495]%N ++ runes_of_ascii "`,
    char[3] MarketID `" ++ [24066; 22330]%N ++ runes_of_ascii "id`,
    char[12] SecurityID `" ++ [35777; 21048; 20195; 30721]%N ++ runes_of_ascii "`,
    char Side `" ++ [20080; 21334; 26041; 21521]%N ++ runes_of_ascii "`,
    char OrderType `" ++ [35746; 21333; 31867; 22411]%N ++ runes_of_ascii "`,
    u64 Price `" ++ [20215; 26684]%N ++ runes_of_ascii "`,
    u32 Qty `" ++ [25968; 37327]%N ++ runes_of_ascii "`,
    repeat string ExtraInfo `" ++ [38468; 21152; 20449; 24687]%N ++ runes_of_ascii "`,
    repeat SubOrder {
    		char[16] ClOrdID `" ++ [23376; 35746; 21333; 21495]%N ++ runes_of_ascii "`,
    		u64 Price `" ++ [23376; 35746; 21333; 20215; 26684]%N ++ runes_of_ascii "`,
    		u32 Qty `" ++ [23376; 35746; 21333; 25968; 37327]%N ++ runes_of_ascii "`,
    	},
}

packet RiskControlResponse {
    string UniqueOrderId `" ++ [21807; 19968; 35746; 21333; 21495]%N ++ runes_of_ascii "`,
    i32 Status `" ++ [29366; 24577]%N ++ runes_of_ascii "`,
    string Msg `" ++ [32467; 26524; 20449; 24687]%N ++ runes_of_ascii "`,
    repeat Detail,
}

packet Detail {
    string RuleName `" ++ [35268; 21017; 21517; 31216]%N ++ runes_of_ascii "`,
    u16 Code `" ++ [21407; 22240; 20195; 30721]%N ++ runes_of_ascii "`,
}")).
Eval vm_compute in ("<<<M4146>>>" ++ check (runes_of_ascii "packet leftPad {
    // packet A { u8 x, }
    @leftPad(' ')
    repeat x `" ++ [233]%N ++ runes_of_ascii "`,
    repeat pack,
    // a // b
    // a // b
    uint32 A,// @lengthOf(
    @tag(10)
    @leftPad()
    @calculatedFrom(""a	b"")
    u32 stringy @lengthOf(lengthOf),
    Foo `line1
        line2`,
    crc `u8 x,`,// @lengthOf(
}

options {
    //
    x = float64;
    u8x = """ ++ [128512]%N ++ runes_of_ascii """;
    pack = ' ';
    // c
    falsey = ""a\""b""
}

packet As {
    repeat repeatCount u8x `doc`,
    @leftPad('0')
    @calculatedFrom(""\" ++ [233]%N ++ runes_of_ascii """)
    match asx as crc {
        4294967296 : u8x,
        ""\n"" : u128,
        0 : asx,
        [255, ""x y""] : Logon,
        0123456789 : A,
        255 : i64_,
    },
    metadata @lengthOf(u8x),
    repeat crc {
        uint32 Packet,
    },
    @calculatedFrom(""" ++ [128512]%N ++ runes_of_ascii """)
    T u128 `{ , }`,
    repeat i32 msg_type,
    @lengthOf(T)
    int,
    float {
        // @lengthOf(
        // `tick` ""quote"" 'q'
        match trueish as leftPad {
            [0, """ ++ [28040; 24687]%N ++ runes_of_ascii """] : f32a,
        },
        uint32 i8i8,
        Packet {
            char[65535] o @calculatedFrom(""it's""),
        },// a // b
    },
    uint8 i8i8 `say ""hi""`,
}/// triple

packet BodyLength {
}")).
Eval vm_compute in ("<<<M4310>>>" ++ check (runes_of_ascii "packet
    repeatCount 

    // @lengthOf(

  //
	{ repeat
	Header

,  char[	42
    ]  rootA
``,

    @lengthOf(	stringy )repeat	int16

    leftPad  ,
repeat 	 // `tick` ""quote"" 'q'
  	crc  {  
      //x
// " ++ [128512]%N ++ runes_of_ascii " emoji
    zchar[	00
	]
body@lengthOf(Foo  ) 
, repeat  Logon
{
    MetaDataX
@lengthOf( 
trueish),

uint8 asx @calculatedFrom(
	""\" ++ [233]%N ++ runes_of_ascii """
)

,

    metadata 
{

    uint8x
    @lengthOf(
stringy

)
	,repeat	BodyLength
    metadata`say ""hi""`
    ,	}

//x
    //
  ,
	repeat  char[] u,  // trailing space 
  }, int16

matchKey
``

,	char[]  // trailing space 
	u8x @lengthOf(string_), 
} 
, 	 // @lengthOf(
	match
Logon 
as zchar 
{
[ ""x y""

    , 65535// c
	,
	10 ]
: chars [
""{,}"" 
,	""a\""b"" ]

:
leftPad, 
  //	t
  65535
    :metadata //
		,
	[
10

    ,

7	// a // b

,
""// no comment""

    , 	 // `tick` ""quote"" 'q'
  	0
, 65535
,  // `tick` ""quote"" 'q'
      ""abc""
, 
7  // " ++ [27880; 37322]%N ++ runes_of_ascii "
	, 42 ]:MetaDataX	},  repeat
int8  packetx 
`// not a comment`

,	// a // b

  }
packet	x// a // b
	  {
	u16 
roots
, } options{
int

    =
4294967296 u8x = false ; }
")).
Eval vm_compute in ("<<<M1240>>>" ++ check (runes_of_ascii "MetaData lengthOf	{i64 u128
    // trailing space 
    ,uint32// trailing space 
calculatedFrom
,
    char[ 00] string_ , }
root
    packet falsey{char[] // " ++ [128512]%N ++ runes_of_ascii " emoji
len `line1
line2` , @tag(255
)
uint8x @lengthOf(
falsey	)
,
    float32 // `tick` ""quote"" 'q'
len ,  repeat calculatedFrom i64_
`say ""hi""`
    ,
    // c
    @rightPad (
    // " ++ [27880; 37322]%N ++ runes_of_ascii "
    '0'	)
    char[ 10]
Logon , } packet rootA // c
{
// " ++ [128512]%N ++ runes_of_ascii " emoji
// a // b
x { falsey
    Logon
    ,
    trueish@calculatedFrom( ""`tick`"")
    `// not a comment`
, uint8x
    body ,
    } , @calculatedFrom( ""{,}""
)@calculatedFrom( ""a\\"" )match //x
f32a as i8i8 {// " ++ [27880; 37322]%N ++ runes_of_ascii "
10 :
matchKey , 1:	packetx , 0123456789 :
    Header
,
    ""it's"" :  i64_ , // packet A { u8 x, }
0 : pack ,} ,repeat
uint8x	x_y_z`" ++ [28040; 24687; 31867; 22411]%N ++ runes_of_ascii "`, repeat
char[
255 ] string_ ,
@lengthOf( int ) calculatedFrom , @tag( 4294967296
) u16 packetx @calculatedFrom(  """ ++ [28040; 24687]%N ++ runes_of_ascii """ ) ,	u128 body`doc` , }
    root packet	tag {
//x
// `tick` ""quote"" 'q'
i32 A
// @lengthOf(
// packet A { u8 x, }
, }
    options { }")).
Eval vm_compute in ("<<<M3639>>>" ++ check (runes_of_ascii "options {
    StringPrefixLenType = u64;
    ArrayPrefixLenType = u16;
    FixedStringPadChar = ' ';
}
packet Logon {
    i32 msgKind,
    repeat InOrderid65 {
        u8 pad0,
    },
    i8 tag7,
    @leftPad(' ') char[12] x,
}
packet Leg {
    char[] f1,
    repeat char[5] Px,
    InQty34 {
        repeat char[6] Qty,
        char[7] seqNo,
        string count,
    },
    Logon,
}
packet Party {
    @leftPad('0') char[10] OrderId,
    string Tail,
}
packet Fill {
    zchar[5] venue,
    zchar[3] clOrdID,
    InRef95 {
        InLastpx25 {
            u8 pad0,
        },
        float64 OrderId,
        i32 f1,
        float32 x,
        char[] seqNo,
    },
    repeat string seqNo,
}
root packet Heartbeat {
    repeat Leg,
    u32 seqNo,
    u16 tag7,
    u32 Flags @lengthOf(Body),
    match tag7 as Body {
        [195, 75] : Party,
        171 : Fill,
        78 : Logon,
        142 : Leg,
    },
    u32 Note @calculatedFrom(""CRC32""),
}
")).
Eval vm_compute in ("<<<M3932>>>" ++ check (runes_of_ascii "MetaData metadata {
    /// triple
    packetx Packet,
    // trailing space 
    chars body,
    char[] MetaDataX,
    u32 stringy,
    float32 packetx `" ++ [28040; 24687; 31867; 22411]%N ++ runes_of_ascii "`,
}

options {
    lengthOf = uint16;
    pack = '0';
    charz = char[];
    u = f64;
    options1 = float32;
}

root packet charz {
    repeat uint32 float,
    stringy,// packet A { u8 x, }
    uint8x {
        chars {
            match Foo as u8x {
                ""a\\"" : int,
            },
            string Z9_ @calculatedFrom(""" ++ [28040; 24687]%N ++ runes_of_ascii """) `// not a comment`,
            match trueish as MetaDataX {
                [0, ""CRC32"", 007, 007, 0123456789] : Foo,
                255 : falsey,
                007 : _x,
                255 : Header,
                007 : lengthOf,
                ""{,}"" : Header,
            },
        },
        zchar[65535] leftPad `line1
                line2`,
        char[007] Z9_ @lengthOf(u8x),
    },
}")).
Eval vm_compute in ("<<<M1094>>>" ++ check (runes_of_ascii "root
packet leftPad {match As as
A {
00 :i8i8, ""x y"": Packet
""abc"" :falsey
// trailing space 
//x
,  } , float32 trueish,
@calculatedFrom( ""1"" ) u64  roots`line1
line2` // trailing space 
,
@tag( 42 //	t
) string
int
    @lengthOf(
    Header ) , @tag(
    1 ) @lengthOf( // c
float) rootA  Z9_,match msg_type as metadata {[ 7 ,	0123456789 ] /// triple
: uint8x	, [ 255 ]:int ,
    // @lengthOf(
    255
    // trailing space 
    :  lengthOf , ""a\\""  : u128, ""1"" : // packet A { u8 x, }
u128
    , }
,roots //	t
int `two words` ,repeat BodyLength asx
,lengthOf@lengthOf(packetx ) ,@lengthOf(
a1
) char[
    /// triple
    10
    ]
//	t
//
x, }
    options { f32a
= '0'
; chars
    =  ' ';Header= ' ' ; i8i8
    =zchar[ 007 ]
; leftPad =
' '
    ;
}packet falsey
    {	@lengthOf(
    u8x
)x@lengthOf(tag
)
    // @lengthOf(
    , }
")).
Eval vm_compute in ("<<<M918>>>" ++ check (runes_of_ascii "  packet
// `tick` ""quote"" 'q'
//x
uint8x{zchar[
    007
] Header @calculatedFrom( ""a	b"")
,	}packet i64_{ @lengthOf(
crc ) /// triple
string metadata`
`//	t
, // trailing space 
uint8x // " ++ [128512]%N ++ runes_of_ascii " emoji
{ repeat
u16
string_ ,} , // `tick` ""quote"" 'q'
packetx
{ zchar[
    0123456789]calculatedFrom
@calculatedFrom(
""" ++ [28040; 24687]%N ++ runes_of_ascii """ ) `crlf
line`	, tag { zchar[  007 ] tag @calculatedFrom(""1"" )
, string u ,	repeat
A
T
,
roots
@lengthOf( Logon
    ) ,
    // `tick` ""quote"" 'q'
    } , u8x `` , int64 metadata `tab	here` , }
,
}  packet rootA{
@lengthOf( string_) Header A`doc` ,
match stringy as x {// c
0123456789: metadata,0 : rootA
,
42
:
A
, [ 00 ,""abc"" ]
:
T	4294967296 : a1 , // @lengthOf(
},
@rightPad
    (	'0' ) @tag(4294967296 )
    @tag( 00) char[] Foo @calculatedFrom( ""1"" ) `crlf
line`, }")).
Eval vm_compute in ("<<<M638>>>" ++ check (runes_of_ascii "MetaData roots {	charz matchKey //
`two words`
    , char[	65535 ] //	t
T `// not a comment`
, char[]
tag , string
/// triple
// @lengthOf(
a1 `two words`
,
} root packet stringy
    // trailing space 
    { repeat roots {repeat calculatedFrom	len
// " ++ [128512]%N ++ runes_of_ascii " emoji
// " ++ [128512]%N ++ runes_of_ascii " emoji
,
} ,  @tag( 42
)  @rightPad(/// triple
'0' )@tag(
007
)  f32 lengthOf @lengthOf( tag ) `crlf
line`
,	int32 chars,zchar[ 3
]
rootA @calculatedFrom(
""a\""b"" )// c
, @rightPad
( ) @calculatedFrom(""" ++ [128512]%N ++ runes_of_ascii """
) @tag(	0123456789 ) Foo {char[] u8x	@lengthOf( charz
    // @lengthOf(
    ) , A	, } ,
    match repeatCount as
body{
""\n"" :  T, [
    """ ++ [128512]%N ++ runes_of_ascii """, 255
// @lengthOf(
/// triple
] : lengthOf , } ,
@calculatedFrom(""x y"" )
    u8
packetx
@calculatedFrom(//x
""CRC32"" // a // b
) `tab	here` ,
    }
")).
Eval vm_compute in ("<<<M1204>>>" ++ check (runes_of_ascii "packet
float {
match
asx as len {255
:metadata
},char[ 4294967296] x  @lengthOf( lengthOf ),matchKey int
,} packet  falsey { @tag( 0123456789	) match
    u128 // a // b
as
stringy  {
    // " ++ [128512]%N ++ runes_of_ascii " emoji
    0123456789 :
u128 // packet A { u8 x, }
[
3
,
    ""CRC32"" ,	7
// packet A { u8 x, }
// @lengthOf(
, 10
    , 0 ] :o	, 1 /// triple
:charz // " ++ [128512]%N ++ runes_of_ascii " emoji
, 0123456789 :
u ,255 :
pack
, } ,
    }  packet T
{
    // " ++ [27880; 37322]%N ++ runes_of_ascii "
    @lengthOf(
    /// triple
    Z9_ ) @rightPad (  '0' ) @calculatedFrom(
    ""// no comment"" // `tick` ""quote"" 'q'
)zchar[
007
    ] leftPad ,@calculatedFrom(
""1"" )char[]As
`two words` ,
    @leftPad ( '0' ) repeat char[
    0123456789
    ]x `// not a comment`, char[ 1
// " ++ [27880; 37322]%N ++ runes_of_ascii "
//x
]_x// " ++ [128512]%N ++ runes_of_ascii " emoji
, }")).
Eval vm_compute in ("<<<M1299>>>" ++ check (runes_of_ascii "root packet
pack { } MetaData falsey  {	char[]A`// not a comment`
, }  packet uint8x{
repeat o
    { u64 string_@calculatedFrom( // " ++ [128512]%N ++ runes_of_ascii " emoji
""" ++ [233]%N ++ runes_of_ascii "t" ++ [233]%N ++ runes_of_ascii """ ) , }, repeat string_ `" ++ [28040; 24687; 31867; 22411]%N ++ runes_of_ascii "`
//	t
// @lengthOf(
,  repeat u { packetx @lengthOf( len) `doc`,
}
,
@lengthOf(u8x ) float32	MetaDataX
@calculatedFrom( """ ++ [233]%N ++ runes_of_ascii "t" ++ [233]%N ++ runes_of_ascii """ ) , uint8 MetaDataX `it's`
    ,
@rightPad (	'\x00' ) repeat
    // a // b
    crc
{
    x_y_z
@lengthOf(As)  `line1
line2`
,i32
    //	t
    repeatCount,
// a // b
// @lengthOf(
repeat Pad  { repeat string_ `" ++ [233]%N ++ runes_of_ascii "` , leftPad
    { char[]
float , }
,	}  , }
    , @calculatedFrom( ""it's""  ) zchar[ 42 ]A @lengthOf( matchKey ) , roots@calculatedFrom( ""CRC32"" ) // @lengthOf(
`a\`, }
")).
Eval vm_compute in ("<<<M1176>>>" ++ check (runes_of_ascii "
options {leftPad
    =
""{,}""f32a = true
trueish
    = zchar[ 007]
    ;	crc
// " ++ [27880; 37322]%N ++ runes_of_ascii "
// @lengthOf(
= ""`tick`"" ;// c
} //x
root	packet
    body { asx @lengthOf(	f32a // `tick` ""quote"" 'q'
) `` , f64 body @lengthOf(
int) , zchar[ 255] BodyLength , zchar[ 7	]
    leftPad
/// triple
// packet A { u8 x, }
`line1
line2`, @lengthOf(  asx )u128
    @lengthOf(
BodyLength )	`// not a comment`
,
    @lengthOf( As )
char[ 42	] _x
@lengthOf(  i8i8)`line1
line2` , char[ 1 //	t
]
    // a // b
    options1 @calculatedFrom(""packet"" )`say ""hi""`
, }
options
{ leftPad= 007
;
charz =false repeatCount =
    ""// no comment"" u// a // b
= 0123456789 }
")).
Eval vm_compute in ("<<<M1381>>>" ++ check (runes_of_ascii "packet metadata {//	t
leftPad  { u64 stringy , }
,
} packet
matchKey
{  repeat u64 x_y_z, }MetaData
f32a{
} root packet  As  {
@lengthOf(	Logon  ) float64
A , @leftPad  (// " ++ [27880; 37322]%N ++ runes_of_ascii "
'0' )u32
    i64_ /// triple
`// not a comment`/// triple
, repeat i8
    chars ,@lengthOf( x_y_z
)	Foo x
, stringy , chars @calculatedFrom( ""CRC32"" ) ,
    @tag(
0 ) int64 pack `
` ,
@rightPad ( )
@calculatedFrom(
""abc"" )
@tag(// packet A { u8 x, }
0 ) char[	0 ] msg_type // a // b
,// " ++ [27880; 37322]%N ++ runes_of_ascii "
tag {
    char[	007 ]	zchar@lengthOf(
    chars) , As@lengthOf(	charz )
    `doc` , body `u8 x,`	,
    } ,Foo
    `two words`
    ,
}
")).
Eval vm_compute in ("<<<M1113>>>" ++ check (runes_of_ascii "packet  metadata { f64 float
    //
    `crlf
line` , i32 asx @calculatedFrom(
""`tick`"" ) ,
/// triple
// c
A ,}
root packet zchar  {
// trailing space 
// packet A { u8 x, }
match matchKey
    as
    roots//x
{
""a\""b"" :	zchar ,""`tick`""
:
    int
    ,""\n"" : packetx ,
0// " ++ [27880; 37322]%N ++ runes_of_ascii "
: Z9_ , }, int32 a1
, @tag(42 ) // " ++ [128512]%N ++ runes_of_ascii " emoji
@rightPad ('0') @tag( 65535 )char[ 00 ] calculatedFrom
,packetx@lengthOf( options1 )
    , }
root
packet body{ match
    f32a as msg_type {[ 42 ]: matchKey // a // b
, 3 :
rootA
    // @lengthOf(
    , [
    // c
    00]
    : packetx 10 : falsey	, }	,}options {
}
")).
Eval vm_compute in ("<<<M4123>>>" ++ check (runes_of_ascii "MetaData uint8x {
    char[7] Foo,
    float64 repeatCount,/// triple
    a1 uint8x `// not a comment`,
}

packet Header {
    @calculatedFrom(""packet"")
    repeat calculatedFrom charz,
}

packet rootA {
    @calculatedFrom(""abc"")
    @calculatedFrom("""")
    @lengthOf(asx)
    repeat repeatCount,
    repeat o {
        crc options1,
        zchar[7] A,
        Z9_ @lengthOf(Pad),
        calculatedFrom @calculatedFrom(""a\""b""),
    },
    repeat a1 Foo `{ , }`,
    charz,
}

options {
    body = """ ++ [28040; 24687]%N ++ runes_of_ascii """;
    packetx = 0
}

MetaData _x {
    int16 crc,
}")).
Eval vm_compute in ("<<<M3611>>>" ++ check (runes_of_ascii "// top
packet
    // c0
Logon // c1
{ string // c3
user , // c5
} root // c7
packet // c8
Frame { u8 K // c12
,
    // c13
match
    // c14
K // c15a
  // c15b
as
    // c16
Body // c17
{ // c18a
  // c18b
1 :
    // c20
Logon // c21a
  // c21b
, // c22
2 // c23
: Logout
    // c25
, // c26
} // c27a
  // c27b
, // c28a
  // c28b
Tail // c29a
  // c29b
, // c30
} packet
    // c32
Logout // c33
{ // c34a
  // c34b
u16
    // c35
reason // c36
, // c37a
  // c37b
} packet Tail // c40
{
    // c41
u32 // c42
crc
    // c43
, } ")).
Eval vm_compute in ("<<<M4430>>>" ++ check (runes_of_ascii "root 
packet A

{// packet A { u8 x, }
	  char[]
msg_type `two words` ,// a // b
@calculatedFrom(""abc"")
    @leftPad ( 
'\x00' )

    @calculatedFrom(
    ""x y"" ) repeat
    //x
		// @lengthOf(
	int64
chars  ,  zchar[	1	]

    _x
@calculatedFrom(  ""1"" )

    `doc`
	, 
        // c

	//x
} packet
	stringy{ int8 calculatedFrom 
@lengthOf(
_x
	) `line1
line2`

    ,
@tag(

    42 
)char[
10
]  //
  Logon

    @lengthOf(  roots  )`" ++ [233]%N ++ runes_of_ascii "` // " ++ [128512]%N ++ runes_of_ascii " emoji

,
	i32  //
    options1 
,
    i16	x_y_z , }
")).
Eval vm_compute in ("<<<M3689>>>" ++ check (runes_of_ascii "

  // c
  options
    {// " ++ [27880; 37322]%N ++ runes_of_ascii "
	MetaDataX =
	0 
}

    root

    packet
	Z9_ {	char[] packetx  `doc`,
BodyLength  zchar
    ,

    float32	BodyLength

    , @calculatedFrom( ""\" ++ [233]%N ++ runes_of_ascii """ 
)match

    trueish as// a // b
  T

{
255:uint8x // @lengthOf(
	,  // packet A { u8 x, }
	""" ++ [233]%N ++ runes_of_ascii "t" ++ [233]%N ++ runes_of_ascii """ :	charz,
	""a\\""

    :
falsey

""{,}""

:MetaDataX ,
}

,	// trailing space 
	}
    options	{
    } options{
msg_type = 42

pack =true repeatCount
    =  4294967296 ; leftPad= ""it's""	// " ++ [27880; 37322]%N ++ runes_of_ascii "
	; 
}

")).
Eval vm_compute in ("<<<M3953>>>" ++ check (runes_of_ascii "MetaData

f32a

    {  char[] trueish ,	float64

    u128 
`" ++ [28040; 24687; 31867; 22411]%N ++ runes_of_ascii "` ,
        //	t
	tag	// a // b
  f32a
,
	matchKey// " ++ [128512]%N ++ runes_of_ascii " emoji
    	int
    `two words`, i8 pack `a\`  , }
packet asx
	{

    int8 Header
`say ""hi""`
	,
    }MetaData
    roots { i32 tag

`" ++ [233]%N ++ runes_of_ascii "`	, crc
	Z9_  ,T

T
`
` ,//
  int32 matchKey ,  matchKey
Header`line1
line2`
    // " ++ [27880; 37322]%N ++ runes_of_ascii "
// trailing space 
	,
    // `tick` ""quote"" 'q'

  //x
char[	0 ]
	MetaDataX
,
// c
	// @lengthOf(

  } 	 // " ++ [27880; 37322]%N ++ runes_of_ascii "
")).
Eval vm_compute in ("<<<M1000>>>" ++ check (runes_of_ascii "MetaData roots{ }MetaData x_y_z// trailing space 
{
zchar[	42 ]
    i8i8
, options1 _x`doc` ,i8 zchar
    , uint16 Pad`u8 x,`,	} packet MetaDataX{
    zchar[
4294967296 ] rootA  ,
//
//x
}	packet
    T { //x
@lengthOf( len	) @tag( 42) int64 float `{ , }` // c
, @lengthOf(i64_)As @lengthOf(falsey
    // a // b
    ) ,
int64 Pad	@lengthOf( _x)
`it's` , @lengthOf( len
    ) char[
255
]Pad`" ++ [28040; 24687; 31867; 22411]%N ++ runes_of_ascii "`, }
    MetaData Foo
{// " ++ [27880; 37322]%N ++ runes_of_ascii "
char[	1 ] As ,}
")).
Eval vm_compute in ("<<<M1135>>>" ++ check (runes_of_ascii "options{
    //	t
    o=
float64 ; rootA =""a	b"" tag =
    // a // b
    true ;
BodyLength = //	t
""\" ++ [233]%N ++ runes_of_ascii """
    ;
} packet leftPad	{
    u8x
    //	t
    roots
`{ , }` // " ++ [27880; 37322]%N ++ runes_of_ascii "
, @calculatedFrom( ""// no comment"" ) i64_
a1,
// packet A { u8 x, }
/// triple
f64
    tag
, }MetaData charz { string msg_type ,  roots x_y_z	, Z9_ chars`tab	here`
    , packetx
    u128 `// not a comment` , // c
pack a1 ,} packet
falsey {
uint32 Foo ,
}
")).
Eval vm_compute in ("<<<M558>>>" ++ check (runes_of_ascii "packet crc {
// c
//x
@tag( 0 )
    float64
    falsey @calculatedFrom( ""packet""
)
, match x as matchKey
    { 42: options1 0:  crc  ,  007 : u128 ,	} ,
@calculatedFrom(""" ++ [233]%N ++ runes_of_ascii "t" ++ [233]%N ++ runes_of_ascii """ )repeat i8i8{ zchar[4294967296] x @lengthOf( As
) ,
repeat int32 a1
,i32 x`" ++ [28040; 24687; 31867; 22411]%N ++ runes_of_ascii "` , },
    int @lengthOf( metadata ) ,	repeat
trueish, uint16 int , x_y_z @lengthOf( roots
// `tick` ""quote"" 'q'
//
)`" ++ [28040; 24687; 31867; 22411]%N ++ runes_of_ascii "` , }
// packet A { u8 x, }
")).
Eval vm_compute in ("<<<M207>>>" ++ check (runes_of_ascii "MetaData
T { Foo  lengthOf , string
    //x
    packetx
    `// not a comment` , zchar[
    //	t
    0] metadata
//x
// `tick` ""quote"" 'q'
`crlf
line` ,
x string_
`line1
line2` , } packet repeatCount {	char[ // `tick` ""quote"" 'q'
255 ]
A @calculatedFrom(""a\\"" )
,float32
    BodyLength @lengthOf(	_x )
// c
//
`doc` , char[] trueish
    // " ++ [128512]%N ++ runes_of_ascii " emoji
    @calculatedFrom( ""packet"")
    ,}
")).
Eval vm_compute in ("<<<M4052>>>" ++ check (runes_of_ascii "MetaData  u	{
}

    options {  
  // c
  	// @lengthOf(@x
    	float
=int8
;  rootA =
false
; As=

int16// `tick` ""quote"" 'q'
  repeatCount 
    // trailing space 
    	=

    int16
;
u8x

    =
        //	t
	'\x00';
}  options
{
repeatCount =0
u128 
        //
    	=  false;
	i64_
    // trailing space 

// `tick` ""quote"" 'q'
		= '0'
    ;  //	t
	  } ")).
Eval vm_compute in ("<<<M1263>>>" ++ check (runes_of_ascii "packet	Z9_
{
    @lengthOf(pack )calculatedFrom //	t
u128 , /// triple
@tag( 4294967296 )
u64 options1 ,	uint16	uint8x@calculatedFrom(
""\n""  ), //
} packet	pack{ leftPad
MetaDataX , @leftPad
( )@lengthOf( packetx	)
repeat lengthOf { f64
repeatCount
    @calculatedFrom( ""a\""b"" ) `tab	here` ,
}, repeat pack body ,} options {
u128
//
//	t
=true ; }
")).
Eval vm_compute in ("<<<M4309>>>" ++ check (runes_of_ascii "root packet MetaDataX {
}

options {
    int = false
    //	t
}

packet falsey {
    string tag `say ""hi""`,
    leftPad stringy,
    @calculatedFrom(""a	b"")
    As @calculatedFrom(""packet"") `line1
        line2`,
    A @lengthOf(body),
    @calculatedFrom(""" ++ [28040; 24687]%N ++ runes_of_ascii """)
    calculatedFrom,
    calculatedFrom @lengthOf(calculatedFrom) `tab	here`,
}")).
Eval vm_compute in ("<<<M586>>>" ++ check (runes_of_ascii "options{	i8i8 = 65535
; asx/// triple
=
float64 charz	= ""`tick`"" As//
=
    7 ;
    i8i8 = ""\n"" }
// `tick` ""quote"" 'q'
// " ++ [27880; 37322]%N ++ runes_of_ascii "
packet u{ } options	{
// packet A { u8 x, }
/// triple
f32a =10 chars // trailing space 
=
""\" ++ [233]%N ++ runes_of_ascii """ x =uint8 ;
metadata =42 ;  lengthOf =true ;}
    options {
// " ++ [27880; 37322]%N ++ runes_of_ascii "
// " ++ [128512]%N ++ runes_of_ascii " emoji
BodyLength = true
    ; }")).
Eval vm_compute in ("<<<M2011>>>" ++ check (runes_of_ascii "MetaData
    u { }  options {
// c
// @lengthOf(
float = int8 ;rootA =false ; As =	int16 // `tick` ""quote"" 'q'
repeatCount
    // trailing space 
    =
    int16
; u8x =
    //	t
    '\x00' ; } options	{
    repeatCount
= 0
u128 u128
    //
    = false ; i64_
// trailing space 
// `tick` ""quote"" 'q'
= '0' ; //	t
}
")).
Eval vm_compute in ("<<<M1946>>>" ++ check (runes_of_ascii "MetaData
    u { }  options {
// c
// @lengthOf(
float = int8 ;rootA =false ; As =	int16 // `tick` ""quote"" 'q'
repeatCount
    // trailing space 
    = =
    int16
; u8x =
    //	t
    '\x00' ; } options	{
    repeatCount
= 0
u128
    //
    = false ; i64_
// trailing space 
// `tick` ""quote"" 'q'
= '0' ; //	t
}
")).
Eval vm_compute in ("<<<M2062>>>" ++ check (runes_of_ascii "MetaData
    u { }  options {
// c
// @lengthOf(
float = int8 ;rootA =false ; As =	int16 // `tick` ""quote"" 'q|'
repeatCount
    // trailing space 
    =
    int16
; u8x =
    //	t
    '\x00' ; } options	{
    repeatCount
= 0
u128
    //
    = false ; i64_
// trailing space 
// `tick` ""quote"" 'q'
= '0' ; //	t
}
")).
Eval vm_compute in ("<<<M1968>>>" ++ check (runes_of_ascii "MetaData
    u { }  options {
// c
// @lengthOf(
float = int8 ;rootA =false ; As =	int16 // `tick` ""quote"" 'q'
repeatCount
    // trailing space 
    =
    int16
; u8x {
    //	t
    '\x00' ; } options	{
    repeatCount
= 0
u128
    //
    = false ; i64_
// trailing space 
// `tick` ""quote"" 'q'
= '0' ; //	t
}
")).
Eval vm_compute in ("<<<M1920>>>" ++ check (runes_of_ascii "MetaData
    u { }  options {
// c
// @lengthOf(
float = int8 ;rootA =false  As =	int16 // `tick` ""quote"" 'q'
repeatCount
    // trailing space 
    =
    int16
; u8x =
    //	t
    '\x00' ; } options	{
    repeatCount
= 0
u128
    //
    = false ; i64_
// trailing space 
// `tick` ""quote"" 'q'
= '0' ; //	t
}
")).
Eval vm_compute in ("<<<M2010>>>" ++ check (runes_of_ascii "MetaData
    u { }  options {
// c
// @lengthOf(
float = int8 ;rootA =false ; As =	int16 // `tick` ""quote"" 'q'
repeatCount
    // trailing space 
    =
    int16
; u8x =
    //	t
    '\x00' ; } options	{
    repeatCount
= 0

    //
    = false ; i64_
// trailing space 
// `tick` ""quote"" 'q'
= '0' ; //	t
}
")).
Eval vm_compute in ("<<<M1940>>>" ++ check (runes_of_ascii "MetaData
    u { }  options {
// c
// @lengthOf(
float = int8 ;rootA =false ; As =	int16 // `tick` ""quote"" 'q'

    // trailing space 
    =
    int16
; u8x =
    //	t
    '\x00' ; } options	{
    repeatCount
= 0
u128
    //
    = false ; i64_
// trailing space 
// `tick` ""quote"" 'q'
= '0' ; //	t
}
")).
Eval vm_compute in ("<<<M3664>>>" ++ check (runes_of_ascii "  options { LittleEndian=

    true
    ;

    }packet

Logon
{	u8 x	,  string 
user

,
    } packet

    Logout
{u16
	reason,

    } packet	Empty
{ } root 
packet
	Frame
    {
    u16 MsgType, u16

    BodyLen @lengthOf( 
Body
) , u8 
flags ,  Logon Body	, u32
trailer

    ,
} ")).
Eval vm_compute in ("<<<M3992>>>" ++ check (runes_of_ascii "packet roots {
    @tag(255)
    zchar[00] lengthOf `" ++ [233]%N ++ runes_of_ascii "`,
    zchar[7] u `say ""hi""`,
}

options {
}

options {
    calculatedFrom = 4294967296// " ++ [128512]%N ++ runes_of_ascii " emoji
    i64_ = '\x00';
    i64_ = ""abc"";
}

MetaData roots {
    char[] BodyLength `two words`,
    i16 Header `// not a comment`,
}")).
Eval vm_compute in ("<<<M1543>>>" ++ check (runes_of_ascii "packet
//	t
// trailing space 
_x {
// packet A { u8 x, }
// c
char[
3
    ] u8x @lengthOf(
u8x ) , @calculatedFrom( @calculatedFrom(""" ++ [128512]%N ++ runes_of_ascii """ // @lengthOf(
)
i16	Foo
@lengthOf(	string_
    )`doc`	, repeat	i64 metadata , @lengthOf( string_
) i8 // c
u  `line1
line2`	,
}
")).
Eval vm_compute in ("<<<M1133>>>" ++ check (runes_of_ascii "options {// " ++ [27880; 37322]%N ++ runes_of_ascii "
u= i16;
a1
=	' ' ; a1
// `tick` ""quote"" 'q'
// @lengthOf(
=// " ++ [128512]%N ++ runes_of_ascii " emoji
'0' leftPad= true} // trailing space 
packet charz { @calculatedFrom( ""a	b"" ) @leftPad ( )  @lengthOf(// " ++ [128512]%N ++ runes_of_ascii " emoji
chars
    /// triple
    ) chars { i16 x, // " ++ [128512]%N ++ runes_of_ascii " emoji
} ,}

")).
Eval vm_compute in ("<<<M1558>>>" ++ check (runes_of_ascii "packet
//	t
// trailing space 
_x {
// packet A { u8 x, }
// c
char[
3
    ] u8x @lengthOf(
u8x ) , @calculatedFrom(""" ++ [128512]%N ++ runes_of_ascii """ // @lengthOf(
)
i16 i16	Foo
@lengthOf(	string_
    )`doc`	, repeat	i64 metadata , @lengthOf( string_
) i8 // c
u  `line1
line2`	,
}
")).
Eval vm_compute in ("<<<M1657>>>" ++ check (runes_of_ascii "packet
//	t
// trailing space 
_x {
// packet A { u8 x, }
// c
char[
3
    ] u8x @lengthOf(
u8x ) , @calculatedFrom(""" ++ [128512]%N ++ runes_of_ascii """ // @lengthOf(
)
i16	Foo
@lengthOf(	string_
    )`doc`	? , repeat	i64 metadata , @lengthOf( string_
) i8 // c
u  `line1
line2`	,
}
")).
Eval vm_compute in ("<<<M1524>>>" ++ check (runes_of_ascii "packet
//	t
// trailing space 
_x {
// packet A { u8 x, }
// c
char[
3
    ] u8x u8x
@lengthOf( ) , @calculatedFrom(""" ++ [128512]%N ++ runes_of_ascii """ // @lengthOf(
)
i16	Foo
@lengthOf(	string_
    )`doc`	, repeat	i64 metadata , @lengthOf( string_
) i8 // c
u  `line1
line2`	,
}
")).
Eval vm_compute in ("<<<M745>>>" ++ check (runes_of_ascii "packet calculatedFrom { match
    Logon as	u128 { [ 1 ,
""// no comment"" ] : u8x ""`tick`"" : Header ,
    ""`tick`"":
    BodyLength ""it's""
// a // b
// packet A { u8 x, }
: zchar
} // " ++ [27880; 37322]%N ++ runes_of_ascii "
, // `tick` ""quote"" 'q'
char metadata @calculatedFrom( ""a\\"" ), }
")).
Eval vm_compute in ("<<<M1650>>>" ++ check (runes_of_ascii "packet
//	t
// trailing space 
_x {
// packet A { u8 x, }
// c
char[
3
    ] u8x @lengthOf(
u8x ) , @calculatedFrom(""" ++ [128512]%N ++ runes_of_ascii """ // @lengthOf(
)
i16	Foo
@lengthOf(	string_
    )`doc`	, repeat	i64 metadata , @lengthOf( string_
) i8 // c
u  `line1
line2`	,")).
Eval vm_compute in ("<<<M1261>>>" ++ check (runes_of_ascii "options
{  trueish  = f32
;
    i8i8 = false BodyLength  =
// " ++ [27880; 37322]%N ++ runes_of_ascii "
//	t
float64
stringy =
string;Z9_= '\x00' } MetaData falsey { pack
rootA,
char[ 7]
x_y_z `" ++ [233]%N ++ runes_of_ascii "` , uint32
    string_ ,
float64 //	t
lengthOf// trailing space 
,
int32	u , }
")).
Eval vm_compute in ("<<<M361>>>" ++ check (runes_of_ascii "root
packet
f32a {
trueish
    falsey
, tag , repeat
    // trailing space 
    Pad{ u32
    i8i8 @calculatedFrom(""x y""
    )
, } ,@calculatedFrom( ""// no comment""  )@lengthOf( calculatedFrom
    ) @tag(	65535)  string T,
    }

")).
Eval vm_compute in ("<<<M2009>>>" ++ check (runes_of_ascii "MetaData
    u { }  options {
// c
// @lengthOf(
float = int8 ;rootA =false ; As =	int16 // `tick` ""quote"" 'q'
repeatCount
    // trailing space 
    =
    int16
; u8x =
    //	t
    '\x00' ; } options	{
    repeatCount
=")).
Eval vm_compute in ("<<<M4383>>>" ++ check (runes_of_ascii "root packet rootA {
}

root packet _x {
    i64_,// a // b
}

MetaData options1 {
    // `tick` ""quote"" 'q'
    a1 float `crlf
        line`,
    u8x falsey `" ++ [233]%N ++ runes_of_ascii "`,
    f32a MetaDataX,
    int64 u8x,
}

packet f32a {
}")).
Eval vm_compute in ("<<<M1742>>>" ++ check (runes_of_ascii "options { trueish = ""`tick`"" ; string_= """ ++ [233]%N ++ runes_of_ascii "t" ++ [233]%N ++ runes_of_ascii """
    // c
    } root
    packet body { stringy stringy @calculatedFrom(
""a	b"" ) `line1
line2` , }
packet Logon {
    @leftPad(
    ' ' ) //	t
u16 string_ `u8 x,` ,
}
")).
Eval vm_compute in ("<<<M1769>>>" ++ check (runes_of_ascii "options { trueish = ""`tick`"" ; string_= """ ++ [233]%N ++ runes_of_ascii "t" ++ [233]%N ++ runes_of_ascii """
    // c
    } root
    packet body { stringy @calculatedFrom(
""a	b"" ) `line1
line2` char[ }
packet Logon {
    @leftPad(
    ' ' ) //	t
u16 string_ `u8 x,` ,
}
")).
Eval vm_compute in ("<<<M1844>>>" ++ check (runes_of_ascii "options { trueish = ""`tick`"" ; string_= """ ++ [233]%N ++ runes_of_ascii "t" ++ [233]%N ++ runes_of_ascii """
    // c
    } root
    packet body { stringy @calculatedFrom(
""a	b"" ) `line1
line2` , }
packet Logon {
    @leftPad(
    ' ' ) //	t
u16 string_ `u8 x,` ,
''}
")).
Eval vm_compute in ("<<<M1723>>>" ++ check (runes_of_ascii "options { trueish = ""`tick`"" ; string_= """ ++ [233]%N ++ runes_of_ascii "t" ++ [233]%N ++ runes_of_ascii """
    // c
    } packet
    root body { stringy @calculatedFrom(
""a	b"" ) `line1
line2` , }
packet Logon {
    @leftPad(
    ' ' ) //	t
u16 string_ `u8 x,` ,
}
")).
Eval vm_compute in ("<<<M1686>>>" ++ check (runes_of_ascii "options { trueish  ""`tick`"" ; string_= """ ++ [233]%N ++ runes_of_ascii "t" ++ [233]%N ++ runes_of_ascii """
    // c
    } root
    packet body { stringy @calculatedFrom(
""a	b"" ) `line1
line2` , }
packet Logon {
    @leftPad(
    ' ' ) //	t
u16 string_ `u8 x,` ,
}
")).
Eval vm_compute in ("<<<M1711>>>" ++ check (runes_of_ascii "options { trueish = ""`tick`"" ; string_= 
    // c
    } root
    packet body { stringy @calculatedFrom(
""a	b"" ) `line1
line2` , }
packet Logon {
    @leftPad(
    ' ' ) //	t
u16 string_ `u8 x,` ,
}
")).
Eval vm_compute in ("<<<M914>>>" ++ check (runes_of_ascii "/// triple
options {
    // packet A { u8 x, }
    Foo = 00 ; } root packet	string_ {u32 falsey	@calculatedFrom( ""x y"" )
`u8 x,`	,} root packet // `tick` ""quote"" 'q'
T { } // `tick` ""quote"" 'q'")).
Eval vm_compute in ("<<<M389>>>" ++ check (runes_of_ascii "options
{ u128// packet A { u8 x, }
=
    ""x y""
    } packet // a // b
rootA// @lengthOf(
{
    // " ++ [27880; 37322]%N ++ runes_of_ascii "
    }packet metadata {@tag(007
    // " ++ [128512]%N ++ runes_of_ascii " emoji
    )
repeat u8
A
`// not a comment`, }
")).
Eval vm_compute in ("<<<M762>>>" ++ check (runes_of_ascii "packet Pad // `tick` ""quote"" 'q'
{ }
root
    packet  f32a { // c
@calculatedFrom( ""it's"" )@tag( 255 ) match roots as trueish {
7: tag  ,
    } ,
repeat zchar[0
]  repeatCount
, }
")).
Eval vm_compute in ("<<<M545>>>" ++ check (runes_of_ascii "root packet Z9_ { repeatCount
    `a\`
,char[ 255 ]Pad`" ++ [28040; 24687; 31867; 22411]%N ++ runes_of_ascii "`
    // " ++ [27880; 37322]%N ++ runes_of_ascii "
    ,  char[ // c
0
] calculatedFrom `it's` , MetaDataX msg_type`line1
line2`, }
// packet A { u8 x, }
")).
Eval vm_compute in ("<<<M329>>>" ++ check (runes_of_ascii "packet
pack
    { pack calculatedFrom, len, u16	T,
@lengthOf( trueish) repeat
leftPad ,
@calculatedFrom( """ ++ [233]%N ++ runes_of_ascii "t" ++ [233]%N ++ runes_of_ascii """	) @rightPad	( '0' ) f64 a1,repeat
trueish Header , } 	 ")).
Eval vm_compute in ("<<<M250>>>" ++ check (runes_of_ascii "packet tag
{@rightPad( )	zchar[ 00
    //x
    ] //x
MetaDataX `" ++ [233]%N ++ runes_of_ascii "` ,
    float32 Header `say ""hi""`
// " ++ [128512]%N ++ runes_of_ascii " emoji
// `tick` ""quote"" 'q'
, } MetaData
T{int lengthOf  ,}")).
Eval vm_compute in ("<<<M2204>>>" ++ check (runes_of_ascii "options{
_x
= true
} options
{ o	= /// triple
false
    ; chars
= ""\n"" } root packet	Pad
/// triple@leftpad
// packet A { u8 x, }
{	chars
    // a // b
    ,}")).
Eval vm_compute in ("<<<M2366>>>" ++ check (runes_of_ascii "// c
packet x { @lengthOf( metadata ) repeat lengthOf
,a1 a1{
trueish	,// c
repeat//	t
MetaDataX , } , zchar[
    42	] rootA // `tick` ""quote"" 'q'
,
    }
")).
Eval vm_compute in ("<<<M2142>>>" ++ check (runes_of_ascii "options{
_x
= true
} options
{ o	= /// triple
false
    ; chars
root ""\n"" } root packet	Pad
/// triple
// packet A { u8 x, }
{	chars
    // a // b
    ,}")).
Eval vm_compute in ("<<<M2311>>>" ++ check (runes_of_ascii "// c
packet x { @lengthOf( metadata ) repeat lengthOf
,a1{
trueish	,// c
repeat//	t
MetaDataX , } , 42
    zchar[	] rootA // `tick` ""quote"" 'q'
,
    }
")).
Eval vm_compute in ("<<<M2339>>>" ++ check (runes_of_ascii "// c
packet x { @lengthOf( metadata ) repeat lengthOf
,a1{
trueish	,// c
repeat//	t
MetaDataX , }  zchar[
    42	] rootA // `tick` ""quote"" 'q'
,
    }
")).
Eval vm_compute in ("<<<M2151>>>" ++ check (runes_of_ascii "options{
_x
= true
} options
{ o	= /// triple
false
    ; chars
= ""\n"" root } packet	Pad
/// triple
// packet A { u8 x, }
{	chars
    // a // b
    ,}")).
Eval vm_compute in ("<<<M2184>>>" ++ check (runes_of_ascii "options{
_x
= true
} options
{ o	= /// triple
false
    ; chars
= ""\n"" } root packet	Pad
/// triple
// packet A { u8 x, }
{	chars
    // a // b
    ,")).
Eval vm_compute in ("<<<M2144>>>" ++ check (runes_of_ascii "options{
_x
= true
} options
{ o	= /// triple
false
    ; chars
=  } root packet	Pad
/// triple
// packet A { u8 x, }
{	chars
    // a // b
    ,}")).
Eval vm_compute in ("<<<M130>>>" ++ check (runes_of_ascii "  packet x_y_z	{ @tag( // c
00
//x
// packet A { u8 x, }
)
@tag(// " ++ [27880; 37322]%N ++ runes_of_ascii "
7 ) @leftPad ( ) int16 _x @lengthOf( u ) `it's` // `tick` ""quote"" 'q'
, }
")).
Eval vm_compute in ("<<<M3916>>>" ++ check (runes_of_ascii "packet

    A
{

match

    k as
    n
{[	""a""

,
""bb"" ,	007,
	""d"" , ""e""

    ,

66 ,
""g"" 
, ""h"" , 
9
, ""j""	]  :
    B
    ,2 
:C}	, 
}")).
Eval vm_compute in ("<<<M4104>>>" ++ check (runes_of_ascii "packet A
	{  u16 len
    @lengthOf(  body

) `a
b`
, u32

    crc @calculatedFrom(

    ""CRC32"" )

    `a
b`
, string body , }

")).
Eval vm_compute in ("<<<M619>>>" ++ check (runes_of_ascii "packet u {
    uint16 // a // b
chars  `" ++ [28040; 24687; 31867; 22411]%N ++ runes_of_ascii "`	,// `tick` ""quote"" 'q'
} root	packet T
{	leftPad
Foo `" ++ [28040; 24687; 31867; 22411]%N ++ runes_of_ascii "`
    ,
}
// @lengthOf(
")).
Eval vm_compute in ("<<<M3789>>>" ++ check (runes_of_ascii "MetaData roots {
    As asx,
    char[1] roots,
    // c
    char[007] matchKey,/// triple
    zchar[1] len,
    x_y_z u128,
}")).
Eval vm_compute in ("<<<M3185>>>" ++ check (runes_of_ascii "// top
root
    // c0
packet
    // c1
u128
    // c2
{
    // c3
chars
    // c4
`it's`
    // c5
,
    // c6
}
    // c7
")).
Eval vm_compute in ("<<<M3321>>>" ++ check (runes_of_ascii "root packet matchKey { zchar[
// c
3 ] pack @calculatedFrom( ""a	b"" ) `doc` , } options { } MetaData A { int8 msg_type , }")).
Eval vm_compute in ("<<<M3353>>>" ++ check (runes_of_ascii "root packet matchKey { zchar[ 3 ] pack @calculatedFrom( ""a	b"" ) `doc` , } options { } MetaData A { int8
// c
msg_type , }")).
Eval vm_compute in ("<<<M1472>>>" ++ check (runes_of_ascii "
packet
    falsey { Header@calculatedFrom(""packet""  ) , char[
    0123456789 ] packetx
    , } // `tick` ""quote""" ++ [0]%N ++ runes_of_ascii " 'q'")).
Eval vm_compute in ("<<<M1440>>>" ++ check (runes_of_ascii "
packet
    falsey { Header@calculatedFrom(""packet""  ) , ""{,}""
    0123456789 ] packetx
    , } // `tick` ""quote"" 'q'")).
Eval vm_compute in ("<<<M626>>>" ++ check (runes_of_ascii "packet i8i8 { } packet options1{
    @lengthOf( uint8x
    ) pack @lengthOf(MetaDataX
) // c
, uint8x `say ""hi""`, }")).
Eval vm_compute in ("<<<M1455>>>" ++ check (runes_of_ascii "
packet
    falsey { Header@calculatedFrom(""packet""  ) , char[
    0123456789 ] (
    , } // `tick` ""quote"" 'q'")).
Eval vm_compute in ("<<<M2994>>>" ++ check (runes_of_ascii "packet A {
  match k as n {
    [""a"", 22, ""c c"", 4, ""e"", 66, ""g"", 8, ""i"", 10, ""k"", 12] : B,
    2 : C
  },
}")).
Eval vm_compute in ("<<<M883>>>" ++ check (runes_of_ascii "options /// triple
{
    asx ='\x00' ;
    }
    //	t
    options
{ pack =""CRC32""
;} root packet
f32a { }")).
Eval vm_compute in ("<<<M1318>>>" ++ check (runes_of_ascii "options	{ string_ // " ++ [128512]%N ++ runes_of_ascii " emoji
= false ; } options { options1
= '\x00' falsey=
10 tag/// triple
=65535}
")).
Eval vm_compute in ("<<<M2980>>>" ++ check (runes_of_ascii "packet A {
  match k as n {
    [1, ""bb"", 007, ""d"", 5, ""f"", 7, ""h"", 9, ""j"", 11] : B
    2 : C
  },
}")).
Eval vm_compute in ("<<<M136>>>" ++ check (runes_of_ascii "MetaData
options1
    {
    char[ 7 ] i8i8
, zchar[ 65535
] u128
    , char[]  repeatCount
,
}
")).
Eval vm_compute in ("<<<M2955>>>" ++ check (runes_of_ascii "packet A {
  match k as n {
    [""a"", 22, ""c c"", 4, ""e"", 66, ""g"", 8, ""i""] : B,
    2 : C
  },
}")).
Eval vm_compute in ("<<<M3881>>>" ++ check (runes_of_ascii "
options {a  =  true ;
b =
	false

    ;c =

    '0' ;
	d
=
    ""s""
; 
e
= 
007 ;
	}
")).
Eval vm_compute in ("<<<M4549>>>" ++ check (runes_of_ascii "options {
    zchar = 007
    Header = char[007];
    lengthOf = char[7];
    chars = """";
}")).
Eval vm_compute in ("<<<M3269>>>" ++ check (runes_of_ascii "MetaData // c
float { float64 charz `
` , } root packet chars { @rightPad ( '0' ) Foo , }")).
Eval vm_compute in ("<<<M3301>>>" ++ check (runes_of_ascii "MetaData float { float64 charz `
` , } root packet chars { @rightPad ( '0' ) Foo // c
, }")).
Eval vm_compute in ("<<<M3512>>>" ++ check (runes_of_ascii "packet chars { } packet MetaDataX { @tag( 42 ) i16 string_ , repeat
// c
x `say ""hi""` , }")).
Eval vm_compute in ("<<<M370>>>" ++ check (runes_of_ascii "MetaData falsey {
//x
//	t
char[ /// triple
65535]Packet `{ , }` , // @lengthOf(
} //x")).
Eval vm_compute in ("<<<M817>>>" ++ check (runes_of_ascii "  packet
    stringy  {
@lengthOf(crc
) string repeatCount @calculatedFrom(""{,}"" )
, }")).
Eval vm_compute in ("<<<M3220>>>" ++ check (runes_of_ascii "packet metadata { Logon
// c
{ A `" ++ [28040; 24687; 31867; 22411]%N ++ runes_of_ascii "` , tag o , } , zchar len `// not a comment` , }")).
Eval vm_compute in ("<<<M1015>>>" ++ check (runes_of_ascii "// trailing space 
packet Pad  {
@lengthOf( asx
    ) repeat
char[ 3
    ] u128 ,
}
")).
Eval vm_compute in ("<<<M3443>>>" ++ check (runes_of_ascii "packet o { repeat Logon uint8x , } // c
options { asx = zchar[ 3 ] stringy = '\x00' }")).
Eval vm_compute in ("<<<M2950>>>" ++ check (runes_of_ascii "packet A {
  match k as n {
    [1, 22, 007, 4, 5, 66, 7, 8, 9] : B
    2 : C
  },
}")).
Eval vm_compute in ("<<<M1939>>>" ++ check (runes_of_ascii "MetaData
    u { }  options {
// c
// @lengthOf(
float = int8 ;rootA =false ; As =")).
Eval vm_compute in ("<<<M3418>>>" ++ check (runes_of_ascii "MetaData body { i64 pack `it's` , } packet stringy { int16 calculatedFrom // c
, }")).
Eval vm_compute in ("<<<M2224>>>" ++ check (runes_of_ascii "options
{ } [ { BodyLength= u16 Header= f64 ; u128 =
    true
    ; } // a // b")).
Eval vm_compute in ("<<<M1929>>>" ++ check (runes_of_ascii "MetaData
    u { }  options {
// c
// @lengthOf(
float = int8 ;rootA =false ;")).
Eval vm_compute in ("<<<M2289>>>" ++ check (runes_of_ascii "options
{ } options { BodyLength= u16 Header= f64 ; u128 =
    true
    ;")).
Eval vm_compute in ("<<<M4005>>>" ++ check (runes_of_ascii "

  MetaData lengthOf
{
    uint32  T `crlf
line`
,

    }
/// triple")).
Eval vm_compute in ("<<<M2851>>>" ++ check (runes_of_ascii "@lengthOf( int8 , MetaData repeat @lengthOf( f32 root repeat '\x00' ]")).
Eval vm_compute in ("<<<M608>>>" ++ check (runes_of_ascii "root packet
    f32a
    { @tag( 42
    ) char
Header `
`	,
    }
")).
Eval vm_compute in ("<<<M158>>>" ++ check (runes_of_ascii "options { x_y_z =
true;a1 = true ;
options1  =
    true  ; }
")).
Eval vm_compute in ("<<<M4160>>>" ++ check (runes_of_ascii "packet x {
    @rightPad()
    repeat roots Logon `doc`,
}// c")).
Eval vm_compute in ("<<<M3387>>>" ++ check (runes_of_ascii "packet x { @rightPad ( ) repeat roots Logon `doc` , } // c
")).
Eval vm_compute in ("<<<M3377>>>" ++ check (runes_of_ascii "packet x { @rightPad ( ) repeat // c
roots Logon `doc` , }")).
Eval vm_compute in ("<<<M4263>>>" ++ check (runes_of_ascii "
// top
    	MetaData// c0
  o  // c1
  { 
} 
// c3
 
")).
Eval vm_compute in ("<<<M3529>>>" ++ check (runes_of_ascii "root packet P
	{

    repeat char cs, u8 x

,  }

")).
Eval vm_compute in ("<<<M616>>>" ++ check (runes_of_ascii "// packet A { u8 x, }
MetaData
    matchKey	{	}
")).
Eval vm_compute in ("<<<M2847>>>" ++ check (runes_of_ascii "zchar[ i64 repeat ) false ) char[ repeat char[")).
Eval vm_compute in ("<<<M3052>>>" ++ check (runes_of_ascii "options {
    a = ""x\
y"";
    b = ""x\
y""
}")).
Eval vm_compute in ("<<<M1081>>>" ++ check (runes_of_ascii "packet // packet A { u8 x, }
rootA
{
}")).
Eval vm_compute in ("<<<M3199>>>" ++ check (runes_of_ascii "root packet u128 { chars `it's` // c
, }")).
Eval vm_compute in ("<<<M3055>>>" ++ check (runes_of_ascii "options {
    a = ""\
"";
    b = ""\
""
}")).
Eval vm_compute in ("<<<M3165>>>" ++ check (runes_of_ascii "options { a = 1; // a
 b = 2 // b
 }")).
Eval vm_compute in ("<<<M2128>>>" ++ check (runes_of_ascii "options{
_x
= true
} options
{ o	=")).
Eval vm_compute in ("<<<M2834>>>" ++ check (runes_of_ascii "dxT`3-=WNaxe4?ugHL<=^O4.Z~pd=^ii}")).
Eval vm_compute in ("<<<M2625>>>" ++ check (runes_of_ascii "packet A { @leftPad('0' u8 x, }")).
Eval vm_compute in ("<<<M3102>>>" ++ check (runes_of_ascii "packet A {
 u8 x `d" ++ [8233]%N ++ runes_of_ascii "`, // c" ++ [8233]%N ++ runes_of_ascii "
}")).
Eval vm_compute in ("<<<M2590>>>" ++ check (runes_of_ascii "packet A { x @lengthOf(3), }")).
Eval vm_compute in ("<<<M4258>>>" ++ check (runes_of_ascii "
// c" ++ [8202]%N ++ runes_of_ascii "
  packet 
A {
    } ")).
Eval vm_compute in ("<<<M2766>>>" ++ check (runes_of_ascii "root u8 @tag( ) @rightPad")).
Eval vm_compute in ("<<<M3168>>>" ++ check (runes_of_ascii "packet A { // a
 u8 x, }")).
Eval vm_compute in ("<<<M285>>>" ++ check (runes_of_ascii "MetaData leftPad {
}
")).
Eval vm_compute in ("<<<M2788>>>" ++ check (runes_of_ascii "20eb,uu[8$`5hB(bTQC<")).
Eval vm_compute in ("<<<M3125>>>" ++ check (runes_of_ascii "packet A {
}
// c 	")).
Eval vm_compute in ("<<<M3081>>>" ++ check (runes_of_ascii "// c" ++ [5760]%N ++ runes_of_ascii "
packet A {
}")).
Eval vm_compute in ("<<<M956>>>" ++ check (runes_of_ascii "packet
Z9_  {  }
")).
Eval vm_compute in ("<<<M348>>>" ++ check (runes_of_ascii "packet i64_ { }
")).
Eval vm_compute in ("<<<M2570>>>" ++ check (runes_of_ascii "packet A { x }")).
Eval vm_compute in ("<<<M2844>>>" ++ check ([65533; 1256; 65533; 0; 65533; 7; 65533]%N ++ runes_of_ascii "1" ++ [16]%N ++ runes_of_ascii "wI" ++ [4]%N)).
Eval vm_compute in ("<<<M2729>>>" ++ check (runes_of_ascii "6)@""I`81R")).
Eval vm_compute in ("<<<M2492>>>" ++ check (runes_of_ascii "@tag(1)")).
Eval vm_compute in ("<<<M2431>>>" ++ check (runes_of_ascii "char_")).
Eval vm_compute in ("<<<M3129>>>" ++ check (runes_of_ascii "// c" ++ [8203]%N)).
Eval vm_compute in ("<<<M2769>>>" ++ check (runes_of_ascii "int8")).
Eval vm_compute in ("<<<M2680>>>" ++ check (runes_of_ascii "`d`")).
Eval vm_compute in ("<<<M2455>>>" ++ check (runes_of_ascii "a")).
